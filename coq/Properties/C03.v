(* C03 - Undoing a move restores the position exactly.
   Statements only; proofs live in Proofs/BoardInv.v and Proofs/UndoMove.v.

   [make] / [undo] / [make_null] / [undo_null] (Model/Board.v) are line-by-line models of
   Board.MakeMove / UndoMove / MakeNullMove / UndoNullMove, tied to the Go code by the streams mk and
   mkseq on every run.  [Rep] is the shared representation invariant (Spec/Rep.v), [applicable] the
   explicit condition of Spec/Applicable.v (weaker than IsPseudoLegal and than membership in the
   generated moves of a valid position; it includes the moves that leave the own king attacked).
   All theorems hold for an ARBITRARY Zobrist table z.  The equalities are equalities of the whole
   board record: per-square map, piece sets, colour sets, the ENTIRE hash history, fullmove number,
   side to move, en-passant square, castling rights, halfmove clock. *)
From Coq Require Import NArith ZArith List Bool.
From Chess3 Require Import Base.Bits Model.Types Model.BoardDef Model.Board Model.Movegen Gen.Zobrist Spec.Rep
  Spec.Applicable Proofs.BoardInv Proofs.UndoMove Proofs.PseudoApplicable Proofs.BoardExamples Proofs.Statements.
Import ListNotations.
Open Scope N_scope.

Theorem C03_move : forall z b m, Rep b -> applicable b m = true ->
  let '(b', t) := make z b m in undo z b' m t = b.
Proof. exact C03_move_l. Qed.
Print Assumptions C03_move.

Theorem C03_null : forall z b, Rep b ->
  let '(b', t) := make_null z b in undo_null b' t = b.
Proof. exact C03_null_l. Qed.
Print Assumptions C03_null.

(* every move accepted by IsPseudoLegal (legal or not) is covered, on boards whose en-passant target is
   empty with no own piece behind it and whose castling rights have the rook on its corner - both
   hold in every valid position, and IsPseudoLegal does not test them *)
Theorem C03_pseudo_legal_applicable : forall b m,
  Rep b -> ep_inv b = true -> castle_inv b = true -> is_pseudo_legal b m = true -> applicable b m = true.
Proof. exact pseudo_legal_applicable. Qed.
Print Assumptions C03_pseudo_legal_applicable.

Theorem C03_pseudo_legal_move : forall z b m,
  Rep b -> ep_inv b = true -> castle_inv b = true -> is_pseudo_legal b m = true ->
  let '(b', t) := make z b m in undo z b' m t = b.
Proof. exact C03_pseudo_legal_move_l. Qed.
Print Assumptions C03_pseudo_legal_move.

(* the same for the generated moves is stated, not proved: Proofs/PseudoApplicable.v *)
Definition C03_generated_moves_statement : Prop := gen_applicable_statement.

(* any sequence of moves and null moves, then the reverse sequence of undos *)
Theorem C03_nested : forall z ops b, Rep b -> applicable_all z b ops ->
  let '(b', st) := make_all z b ops [] in undo_all z b' st = b.
Proof. exact C03_nested_l. Qed.
Print Assumptions C03_nested.

(* the search's depth-first walk: makes, null moves and undos of the latest operation interleaved in
   any way, followed by undoing whatever is still on the stack *)
Theorem C03_walk : forall z evs b, Rep b -> walk_ok z b [] evs ->
  let '(b', st) := walk z b [] evs in undo_all z b' st = b.
Proof. exact C03_walk_l. Qed.
Print Assumptions C03_walk.

(* the invariant is kept (so that the theorems apply again after every make); the 64-bit bound on
   the hashes in Rep needs 64-bit table entries *)
Theorem C03_make_Rep : forall z b m, zob_w64 z -> Rep b -> applicable b m = true -> Rep (fst (make z b m)).
Proof. exact make_Rep. Qed.
Print Assumptions C03_make_Rep.

Theorem C03_make_null_Rep : forall z b, zob_w64 z -> Rep b -> Rep (fst (make_null z b)).
Proof. exact make_null_Rep. Qed.
Print Assumptions C03_make_null_Rep.

(* the reverse token: every field is read back unchanged whatever the other fields hold, for all
   tokens (proved for arbitrary N, in particular all 64-bit values) *)
Theorem C03_token_fields : forall r fc c e p,
  (-32768 <= fc < 32768)%Z -> c < 16 -> e < 64 -> p < 8 ->
  let t := tok_set_ep (tok_set_capture (tok_set_castling (tok_set_fifty r fc) c) p) e in
  tok_fifty t = fc /\ tok_castling t = c /\ tok_capture t = p /\ tok_ep t = e.
Proof. exact C03_token_fields_l. Qed.
Print Assumptions C03_token_fields.

(* non-vacuity: concrete positions and moves meet the hypotheses, and the moves do something *)
Example C03_ex_double_push :
  Rep ex_start /\ applicable ex_start e2e4 = true /\ stm (fst (make zob_real ex_start e2e4)) = Black.
Proof. vm_compute. repeat split; reflexivity. Qed.

Example C03_ex_castling :
  Rep ex_castle /\ applicable ex_castle e1g1 = true /\ applicable ex_castle e1c1 = true /\
  piece_at (fst (make zob_real ex_castle e1g1)) F1 = Rook /\ castles (fst (make zob_real ex_castle e1c1)) = 12.
Proof. vm_compute. repeat split; reflexivity. Qed.

Example C03_ex_en_passant :
  Rep ex_ep /\ applicable ex_ep d5c6 = true /\ capture_sq ex_ep d5c6 = 34 /\
  piece_at (fst (make zob_real ex_ep d5c6)) 34 = NoPiece /\ tok_capture (snd (make zob_real ex_ep d5c6)) = Pawn.
Proof. vm_compute. repeat split; reflexivity. Qed.

Example C03_ex_promotion_capture :
  Rep ex_promo /\ applicable ex_promo b7a8q = true /\ piece_at (fst (make zob_real ex_promo b7a8q)) A8 = Queen.
Proof. vm_compute. repeat split; reflexivity. Qed.

Example C03_ex_pseudo_legal :
  ep_inv ex_ep = true /\ castle_inv ex_castle = true /\ ep_inv ex_castle = true /\ castle_inv ex_ep = true /\
  is_pseudo_legal ex_ep d5c6 = true /\ is_pseudo_legal ex_castle e1g1 = true /\ is_pseudo_legal ex_start e2e4 = true.
Proof. vm_compute. repeat split; reflexivity. Qed.

Example C03_ex_nested :
  let ops := [OpMove e2e4; OpMove e7e5; OpNull; OpMove b8c6; OpMove g1f3] in
  Rep ex_start /\ applicable_all zob_real ex_start ops /\ length (hashes (run zob_real ex_start ops)) = 6%nat.
Proof. vm_compute. repeat split; reflexivity. Qed.

Example C03_ex_zob_real : zob_w64 zob_real.
Proof. exact zob_real_w64. Qed.

(* the field layout of the reverse token in board.go is the one the model (and the proofs) use *)
Theorem C03_token_layout :
  token_layout = [fiftyCntMask; fiftyCntShift; castlingChangeMask; castlingChangeShift;
                  epChangeMask; epChangeShift; captureMask; captureShift].
Proof. exact token_layout_ok. Qed.
