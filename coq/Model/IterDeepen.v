(* Layer B of C06/C07/C08: the decision logic of search.iterativeDeepen (search/search.go:43-145)
   over an abstract stream of alphaBeta results, and the `go depth` argument handling of
   uci.handleGo (uci/uci.go:486-488).  Definitions only; proofs are in Proofs/IterDeepenProofs.v.

   What is modelled line by line: the iteration loop and its bound, the aspiration loop with its
   int16 window arithmetic, the abort test after every root call, the abort info line, the fallback
   to the first legal generated move, adopting the iteration's line (0 / 1 / >= 2 moves; a short
   line clears the ponder move), the info line of a completed iteration, the soft stop between
   iterations, the next window.
   What is abstract: one root call  s.alphaBeta(b, alpha, beta, idD, 0, PVNode, opts)  followed by
   s.abort(opts)  is one question to an oracle (Section variable `ask`), answered by
     AbAborted n          the abort flag is up after the call (hard node budget or stop channel);
     AbValue s pv n       the value returned, the content of s.pv.active() and Counters.Nodes.
   Pondering (opts.PonderHit) is not modelled: the loop bound `|| opts.PonderHit != nil`, the
   ponderhit select and the time base are left out; the wall clock enters through `time_up`. *)
From Coq Require Import ZArith Bool List.
Import ListNotations.
From Chess3 Require Import Base.Word Gen.IdConsts.
Open Scope Z_scope.

Inductive ab_result :=
| AbAborted (nodes : Z)
| AbValue (score : Z) (pv : list Z) (nodes : Z).

(* a printed line: `info depth D score S nodes N ... pv ...` or the short `info depth D nodes N` *)
Inductive report :=
| RLine (depth score nodes : Z) (pv : list Z)
| RAbort (depth nodes : Z).

Inductive status := Finished | SoftStopped | Aborted | Diverged.

Record result := { r_score : Z; r_move : Z; r_ponder : Z; r_reports : list report; r_status : status }.

Record limits := { l_depth : Z;        (* opts.Depth, an int8 *)
                   l_soft_nodes : Z }. (* opts.SoftNodes; <= 0: none *)

Section Deepen.
  Variable St : Type.                                   (* state of the rest of the engine *)
  Variable ask : St -> Z -> Z -> Z -> ab_result * St.    (* alpha beta depth *)
  Variable W : Z.                                        (* params.WindowSize *)
  Variable time_up : Z -> bool.                          (* SoftTime > 0 && elapsed > SoftTime after depth d *)
  Variable root_moves : list Z.                          (* GenNoisy ++ GenNotNoisy at the root, in order *)
  Variable legal : Z -> bool.                            (* MakeMove; !InCheck(mover) *)

  (* search.go:86-102: the first generated move that is legal, else the null move *)
  Definition fallback : Z :=
    match filter legal root_moves with m :: _ => m | [] => 0 end.

  (* search.go:106-117 *)
  Definition adopt (pv : list Z) (mv pd : Z) : Z * Z :=
    match pv with
    | [] => (mv, pd)
    | [m] => (m, 0)
    | m :: p :: _ => (m, p)
    end.

  Inductive asp :=
  | AspOk (score : Z) (pv : list Z) (nodes : Z) (o : St)
  | AspAbort (nodes : Z) (o : St)
  | AspFuel.

  (* search.go:56-74 with Score = int16.  `fuel` bounds the number of re-searches (Coq needs a
     structural argument; running out of it is the outcome Diverged). *)
  Fixpoint aspire (fuel : nat) (o : St) (alpha beta factor d : Z) : asp :=
    match fuel with
    | O => AspFuel
    | S fuel' =>
        let '(r, o') := ask o alpha beta d in
        match r with
        | AbAborted n => AspAbort n o'
        | AbValue s pv n =>
            if s <=? alpha then
              aspire fuel' o' (wrap16 (alpha - wrap16 (factor * wrap16 W))) beta (wrap16 (factor * 2)) d
            else if beta <=? s then
              aspire fuel' o' alpha (wrap16 (beta + wrap16 (factor * wrap16 W))) (wrap16 (factor * 2)) d
            else AspOk s pv n o'
        end
    end.

  Definition soft_abort (lim : limits) (d nodes : Z) : bool :=
    time_up d || ((0 <? l_soft_nodes lim) && (l_soft_nodes lim <? nodes)).

  Definition mk (sc mv pd : Z) (rev_reports : list report) (st : status) : result :=
    {| r_score := sc; r_move := mv; r_ponder := pd; r_reports := rev rev_reports; r_status := st |}.

  (* search.go:51-144.  `todo` counts the iterations left (idD runs over 0..MaxPlies-1). *)
  Fixpoint deepen (fuel : nat) (lim : limits) (todo : nat) (o : St) (d alpha beta sc mv pd : Z)
           (reps : list report) : result :=
    match todo with
    | O => mk sc mv pd reps Finished
    | S todo' =>
        if negb ((d <? MaxPlies) && (d <=? l_depth lim)) then mk sc mv pd reps Finished
        else
          match aspire fuel o alpha beta 1 d with
          | AspFuel => mk sc mv pd reps Diverged
          | AspAbort n _ =>
              let reps' := RAbort d n :: reps in
              if mv =? 0 then mk sc fallback 0 reps' Aborted else mk sc mv pd reps' Aborted
          | AspOk s pv n o' =>
              let '(mv', pd') := adopt pv mv pd in
              let reps' := RLine d s n pv :: reps in
              if negb (mv' =? 0) && soft_abort lim d n then mk s mv' pd' reps' SoftStopped
              else deepen fuel lim todo' o' (d + 1) (wrap16 (s - wrap16 W)) (wrap16 (s + wrap16 W)) s mv' pd' reps'
          end
    end.

  (* search.go:43-49: alpha = -Inf-1, beta = Inf+1, named results zero *)
  Definition iterative_deepen (fuel : nat) (lim : limits) (o : St) : result :=
    deepen fuel lim (Z.to_nat MaxPlies) o 0 (- ScoreInf - 1) (ScoreInf + 1) 0 0 0 [].
End Deepen.

(* ------------------------------------------------------------------------------------------- *)
(* hard node budget seen from the decision layer: a root call that stays within the budget answers
   as it would without one; a call that would pass it comes back aborted with exactly the budget
   on the counter (search.go:162-170; Layer A proves the counter never passes the budget). *)
Definition with_budget {St : Type} (ask : St -> Z -> Z -> Z -> ab_result * St) (budget : Z)
  : St -> Z -> Z -> Z -> ab_result * St :=
  fun o a b d =>
    let '(r, o') := ask o a b d in
    match r with
    | AbValue s pv n => if n <=? budget then (AbValue s pv n, o') else (AbAborted budget, o')
    | AbAborted n => (AbAborted (Z.min n budget), o')
    end.

(* search.go:162-170 incrementNodes (not pondering): (counter, aborted) after one call *)
Definition increment_nodes (budget nodes : Z) (aborted : bool) : Z * bool :=
  if (budget =? -1) || (nodes <? budget) then (nodes + 1, aborted) else (nodes, true).

(* ------------------------------------------------------------------------------------------- *)
(* uci.handleGo, case "depth":  depth := Depth(Clamp(parseInt(args[i+1]), 1, MaxPlies))
   parseInt = strconv.Atoi with every error mapped to 0 (uci.go:610-616); int is 64 bits. *)
Definition is_digit (c : Z) : bool := (48 <=? c) && (c <=? 57).

Fixpoint digits_value (acc : Z) (cs : list Z) : option Z :=
  match cs with
  | [] => Some acc
  | c :: r => if is_digit c then digits_value (acc * 10 + (c - 48)) r else None
  end.

(* strconv.Atoi: optional sign, at least one digit, only digits, value within int64; else error *)
Definition atoi (cs : list Z) : option Z :=
  let '(neg, body) := match cs with
                      | 45 :: r => (true, r)
                      | 43 :: r => (false, r)
                      | _ => (false, cs)
                      end in
  match body with
  | [] => None
  | _ => match digits_value 0 body with
         | None => None
         | Some v => let x := if neg then - v else v in
                     if (-9223372036854775808 <=? x) && (x <=? 9223372036854775807) then Some x else None
         end
  end.

Definition parse_int (cs : list Z) : Z := match atoi cs with Some v => v | None => 0 end.

(* after commit c771937 *)
Definition uci_go_depth (arg : list Z) : Z := wrap8 (clamp (parse_int arg) 1 MaxPlies).
(* before it: Depth(parseInt(arg)) *)
Definition uci_go_depth_unclamped (arg : list Z) : Z := wrap8 (parse_int arg).

(* c06arg stream: argument bytes -> [seen; depth handed to the search] *)
Definition run_c06arg (input : list Z) : list Z := [1; uci_go_depth input].

(* ------------------------------------------------------------------------------------------- *)
(* c07id stream: the decision layer replayed against what a real search printed.
   input:  request header (8) nFen fen.. nMoves moves.. | firstLegal W nLines (kind depth nodes scoreKnown score pvlen pv0 pv1)*
   The oracle answers the next printed line until the model accepts it (the engine's re-searches
   inside one iteration are not printed; their only observable effect is the accepted result). *)
Definition line_in := (Z * Z * Z * Z * Z * Z * Z * Z)%type.

Fixpoint parse_lines (n : nat) (l : list Z) : list line_in :=
  match n, l with
  | S n', k :: d :: nd :: sk :: s :: pl :: p0 :: p1 :: r => (k, d, nd, sk, s, pl, p0, p1) :: parse_lines n' r
  | _, _ => []
  end.

Definition pv_of (pl p0 p1 : Z) : list Z :=
  if pl <=? 0 then [] else if pl =? 1 then [p0] else if pl =? 2 then [p0; p1] else [p0; p1; 0].

Definition replay_ask (o : list line_in) (alpha beta d : Z) : ab_result * list line_in :=
  match o with
  | [] => (AbAborted (-1), [])                       (* transcript exhausted: marked by nodes = -1 *)
  | (k, _, nd, _, s, pl, p0, p1) :: r =>
      if k =? 2 then (AbAborted nd, r)
      else if (alpha <? s) && (s <? beta) then (AbValue s (pv_of pl p0 p1) nd, r)
      else (AbValue s (pv_of pl p0 p1) nd, o)
  end.

Definition report_depth (r : report) : Z := match r with RLine d _ _ _ => d | RAbort d _ => d end.
Definition report_nodes (r : report) : Z := match r with RLine _ _ n _ => n | RAbort _ n => n end.
(* what is visible from outside: the abort flag (finished and soft-stopped look the same) *)
Definition status_code (s : status) : Z :=
  match s with Finished => 0 | SoftStopped => 0 | Aborted => 1 | Diverged => 3 end.

(* a score whose exact value the transcript does not determine (mate scores are printed rounded) *)
Definition unknown_score : Z := 12345.

Definition run_c07id (input : list Z) : list Z :=
  match input with
  | _ :: _ :: hd :: dep :: _ :: soft :: _ :: _ :: r =>
      match r with
      | nf :: r1 =>
          match skipn (Z.to_nat nf) r1 with
          | nm :: r2 =>
              match skipn (Z.to_nat nm) r2 with
              | first :: w :: nl :: r3 =>
                  let lines := parse_lines (Z.to_nat nl) r3 in
                  let lim := {| l_depth := if hd =? 0 then MaxPlies else dep; l_soft_nodes := soft |} in
                  let res := iterative_deepen (list line_in) replay_ask w (fun _ => false)
                               (if first =? 0 then [] else [first]) (fun _ => true) 64 lim lines in
                  let known := forallb (fun '(k, _, _, sk, _, _, _, _) => (k =? 2) || (sk =? 1)) lines in
                  [ r_move res; r_ponder res; Z.of_nat (length (r_reports res));
                    status_code (r_status res);
                    if known then r_score res else unknown_score ]
              | _ => [99]
              end
          | _ => [99]
          end
      | _ => [99]
      end
  | _ => [99]
  end.
