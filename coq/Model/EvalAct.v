(* Term-activation measurement for stream c17 (a measurement of the INPUT DISTRIBUTION, not part
   of any theorem): which evaluation terms contribute, for which colour, to which phase
   accumulator, on a given position.

   The generic evaluation is run once at the plain-integer score structure [ops_act] (no wrap-around,
   T(n) = |n|, sigmoid = 0) with the generated marker coefficient set [coeff_mark], in which every
   entry of coefficient group d is mark_base^d.  The value of an accumulator is then a
   base-mark_base number whose digit d is the (weighted) number of contributions of group d.  The
   king-attack groups accumulate in ka.score; they are reported under the phase of that score.
   In addition, with the REAL coefficients: is the sigmoid of each king-attack score non-zero
   (this is what makes the king-attack term visible in the result). *)
From Coq Require Import NArith ZArith List Bool.
From Chess3 Require Import Base.Bits Base.Word Model.Types Model.BoardDef Gen.Coeffs Model.Eval.
Import ListNotations.
Open Scope Z_scope.

Definition ops_act : score_ops Z :=
  mkOps Z Z.add Z.sub Z.mul Z.abs (fun _ => 0) (fun _ _ _ _ _ => 0).

Definition digit (x d : Z) : Z := Z.land (Z.shiftr x (mark_bits * d)) (mark_base - 1).
Definition nzz (x : Z) : Z := if x =? 0 then 0 else 1.

(* per group: [mg White; mg Black; eg White; eg Black; mg amounts differ; eg amounts differ]
   (a contribution credited to the wrong colour is invisible when both colours contribute the same) *)
Definition group_flags (l : list (bump Z)) : list Z :=
  let t s k c := total ops_act s c l + total ops_act k c l in
  let mgW := t MG KA0 White in let mgB := t MG KA0 Black in
  let egW := t EG KA1 White in let egB := t EG KA1 Black in
  flat_map (fun d => [nzz (digit mgW d); nzz (digit mgB d); nzz (digit egW d); nzz (digit egB d);
                      nzz (digit mgW d - digit mgB d); nzz (digit egW d - digit egB d)])
           (map Z.of_nat (seq 0 (Z.to_nat mark_groups))).

Definition zeros (n : nat) : list Z := repeat 0 n.

(* output: 6 flags per group ++ [sigmoid mg White; mg Black; eg White; eg Black]
           ++ [insufficient material; KNBvK with victim White; KNBvK with victim Black] *)
Definition act_flags (b : board) : list Z :=
  if insufficient_mat b then zeros (6 * Z.to_nat mark_groups + 4) ++ [1; 0; 0] else
  let pv := add_piece_values ops_act coeff_mark b in
  if knbvk b then
    let whiteAttacks := nz (band (pieces b Bishop) (colors b White)) in
    group_flags (pv ++ knbvk_terms ops_act coeff_mark b) ++ zeros 4 ++
    [0; if whiteAttacks then 0 else 1; if whiteAttacks then 1 else 0]
  else
    let lr := main_terms ops_Z Coefficients b in
    group_flags (pv ++ main_terms ops_act coeff_mark b) ++
    [nzz (sigmoid_Z (total ops_Z KA0 White lr)); nzz (sigmoid_Z (total ops_Z KA0 Black lr));
     nzz (sigmoid_Z (total ops_Z KA1 White lr)); nzz (sigmoid_Z (total ops_Z KA1 Black lr))] ++ [0; 0; 0].

(* stream c17act: the input of stream c17 ([n] ++ n board-in records); measured on board 1, the position *)
Definition run_c17act (l : list Z) : list Z :=
  match l with
  | _ :: rest =>
      match decode_board rest with
      | Some (_, rest') => match decode_board rest' with Some (b, _) => act_flags b | None => [] end
      | None => []
      end
  | [] => []
  end.
