(* C03: undo restores the board exactly.  make / make_null in explicit form, the predicate
   [applicable], the single-step theorems and preservation of the invariant. *)
From Coq Require Import NArith ZArith List Bool Lia.
From Chess3 Require Import Base.Bits Base.Word Model.Types Model.Att Model.BoardDef Model.Board Spec.Rep
  Spec.Applicable Proofs.BoardInv.
Import ListNotations.
Open Scope N_scope.

(* ------------------------------------------------------------------------------------------ *)
(* the parts of MakeMove *)

Definition mk_piece (b : board) (m : N) : N := piece_at b (mv_from m).
Definition mk_capture (b : board) (m : N) : N := piece_at b (capture_sq b m).
Definition mk_change (b : board) (m : N) : N := bxor (castles b) (new_castles b m).
Definition mk_canep (b : board) (m : N) : bool :=
  (mk_piece b m =? Pawn) && (abs_diff (mv_from m) (mv_to m) =? 16) && can_en_passant b (mv_to m).
Definition mk_newep (b : board) (m : N) : N := if mk_canep b m then (mv_from m + mv_to m) / 2 else 0.
Definition mk_put (b : board) (m : N) : N := if negb (mv_promo m =? NoPiece) then mv_promo m else mk_piece b m.
Definition mk_fifty (b : board) (m : N) : Z :=
  if (mk_piece b m =? Pawn) || negb (mk_capture b m =? NoPiece) then 0%Z else wrap16 (fifty b + 1).
Definition mk_tok (l : tok_layout) (b : board) (m : N) : N :=
  tok_set_ep l (tok_set_capture l (tok_set_castling l (tok_set_fifty l 0 (fifty b)) (mk_change b m)) (mk_capture b m))
             (bxor (ep b) (mk_newep b m)).

(* the rook's part of castling *)
Definition rook_do (b : board) (me : color) (rs : option (N * N)) : board :=
  match rs with Some (rf, rt) => addp (remp b me Rook rf) me Rook rt | None => b end.
Definition rook_undo (b : board) (me : color) (rs : option (N * N)) : board :=
  match rs with Some (rf, rt) => addp (remp b me Rook rt) me Rook rf | None => b end.

(* the placement after the three piece operations, before the rook *)
Definition mk_pl3 (b : board) (m : N) : board :=
  addp (remp (remp b (flip (stm b)) (mk_capture b m) (capture_sq b m)) (stm b) (mk_piece b m) (mv_from m))
       (stm b) (mk_put b m) (mv_to m).
Definition mk_pl (b : board) (m : N) : board :=
  rook_do (mk_pl3 b m) (stm b) (rook_sqs (mk_piece b m) (mv_from m) (mv_to m)).

Definition mk_hash (z : zobrist) (b : board) (m : N) : N :=
  let me := stm b in
  let h := bxor (cur_hash b) (castle_hash z (mk_change b m)) in
  let h := bxor (bxor (bxor h (dz z (flip me) (mk_capture b m) (capture_sq b m))) (dz z me (mk_piece b m) (mv_from m)))
                (dz z me (mk_put b m) (mv_to m)) in
  let h := if negb (ep b =? 0) then bxor h (z_ep z (sq_file (ep b))) else h in
  let h := if mk_canep b m then bxor h (z_ep z (sq_file (mk_newep b m))) else h in
  let h := match rook_sqs (mk_piece b m) (mv_from m) (mv_to m) with
           | Some (rf, rt) => bxor (bxor h (dz z me Rook rf)) (dz z me Rook rt)
           | None => h
           end in
  bxor h (z_stm z).

Definition mk_board (z : zobrist) (b : board) (m : N) : board :=
  set_hashes (set_stm (set_ep (set_castles (set_fifty (set_full (mk_pl b m)
    (full b + Z.of_N (cix (stm b)))%Z) (mk_fifty b m)) (bxor (castles b) (mk_change b m))) (mk_newep b m)) (flip (stm b)))
    (mk_hash z b m :: hashes b).

Lemma make_eq l z b m : make_l l z b m = (mk_board z b m, mk_tok l b m).
Proof.
  unfold make_l. cbv zeta.
  rewrite remove_piece_eq. cbv beta iota.
  rewrite remove_piece_eq. cbv beta iota.
  rewrite add_piece_eq. cbv beta iota.
  unfold mk_board, mk_pl, mk_hash, mk_tok, rook_sqs. cbv zeta.
  fold (mk_piece b m). fold (mk_capture b m). fold (mk_change b m). fold (mk_canep b m). fold (mk_newep b m).
  fold (mk_put b m).
  destruct (mk_piece b m =? King).
  - destruct (castle_rook (mv_from m) (mv_to m)) as [[rf rt]|].
    + rewrite remove_piece_eq. cbv beta iota. rewrite add_piece_eq. cbv beta iota.
      unfold rook_do, mk_pl3. fold (mk_piece b m). fold (mk_capture b m). fold (mk_put b m).
      autorewrite with push. f_equal. cbn [hashes set_hashes set_stm set_ep set_castles set_fifty set_full].
      autorewrite with brd. reflexivity.
    + unfold rook_do, mk_pl3. fold (mk_piece b m). fold (mk_capture b m). fold (mk_put b m).
      autorewrite with push. f_equal.
      cbn [hashes set_hashes set_stm set_ep set_castles set_fifty set_full]. autorewrite with brd. reflexivity.
  - unfold rook_do, mk_pl3. fold (mk_piece b m). fold (mk_capture b m). fold (mk_put b m).
    autorewrite with push. f_equal.
    cbn [hashes set_hashes set_stm set_ep set_castles set_fifty set_full]. autorewrite with brd. reflexivity.
Qed.

(* ------------------------------------------------------------------------------------------ *)
(* UndoMove in explicit form *)

Definition un_rm (B : board) (m : N) : N := piece_at B (mv_to m).
Definition un_piece (B : board) (m : N) : N := if negb (mv_promo m =? NoPiece) then Pawn else un_rm B m.
Definition un_pl5 (B : board) (m : N) : board :=
  let me := flip (stm B) in
  addp (remp (rook_undo B me (rook_sqs (un_piece B m) (mv_from m) (mv_to m))) me (un_rm B m) (mv_to m))
       me (un_piece B m) (mv_from m).
Definition un_ep (l : tok_layout) (B : board) (r : N) : N := bxor (ep B) (tok_ep l r).
Definition un_csq (l : tok_layout) (B : board) (m r : N) : N := capture_sq (set_ep (un_pl5 B m) (un_ep l B r)) m.
Definition un_pl6 (l : tok_layout) (B : board) (m r : N) : board :=
  addp (un_pl5 B m) (flip (flip (stm B))) (tok_capture l r) (un_csq l B m r).

Definition un_board (l : tok_layout) (B : board) (m r : N) : board :=
  set_full (set_fifty (set_castles (set_ep (set_stm (set_hashes (un_pl6 l B m r) (tl (hashes B))) (flip (stm B)))
    (un_ep l B r)) (bxor (castles B) (tok_castling l r))) (tok_fifty l r)) (full B - Z.of_N (cix (flip (stm B))))%Z.

Lemma rook_undo_push b me rs h s :
  rook_undo (set_stm (set_hashes b h) s) me rs = set_stm (set_hashes (rook_undo b me rs) h) s.
Proof. destruct rs as [[rf rt]|]; cbn [rook_undo]; autorewrite with push; reflexivity. Qed.

Lemma capture_sq_ext b b' m :
  ep b = ep b' -> piece_at b (mv_from m) = piece_at b' (mv_from m) -> capture_sq b m = capture_sq b' m.
Proof. intros A B. unfold capture_sq, is_en_passant. rewrite A, B. reflexivity. Qed.

Lemma piece_at_strip b h s x : piece_at (set_stm (set_hashes b h) s) x = piece_at b x.
Proof. reflexivity. Qed.
Lemma capture_sq_strip b h s e m : capture_sq (set_ep (set_stm (set_hashes b h) s) e) m = capture_sq (set_ep b e) m.
Proof. reflexivity. Qed.

Lemma undo_eq l z B m r : undo_l l z B m r = un_board l B m r.
Proof.
  unfold undo_l. cbv zeta. rewrite !remove_piece_eq, !add_piece_eq. cbn [fst].
  unfold un_board, un_pl6, un_csq, un_pl5, un_ep, un_piece, un_rm, rook_sqs. cbv zeta.
  rewrite !piece_at_strip. cbn [stm hashes set_hashes set_stm].
  set (me := flip (stm B)).
  set (rm := piece_at B (mv_to m)).
  set (pc := if negb (mv_promo m =? NoPiece) then Pawn else rm).
  destruct (pc =? King).
  - destruct (castle_rook (mv_from m) (mv_to m)) as [[rf rt]|].
    + rewrite !remove_piece_eq, !add_piece_eq. cbn [fst rook_undo].
      autorewrite with push. rewrite !capture_sq_strip.
      cbn [ep castles full fifty set_hashes set_stm set_ep set_castles set_fifty set_full].
      autorewrite with brd. reflexivity.
    + cbn [rook_undo]. autorewrite with push. rewrite !capture_sq_strip.
      cbn [ep castles full fifty set_hashes set_stm set_ep set_castles set_fifty set_full].
      autorewrite with brd. reflexivity.
  - cbn [rook_undo]. autorewrite with push. rewrite !capture_sq_strip.
    cbn [ep castles full fifty set_hashes set_stm set_ep set_castles set_fifty set_full].
    autorewrite with brd. reflexivity.
Qed.

(* ------------------------------------------------------------------------------------------ *)
(* what [applicable] and the invariant say about the squares a move touches *)

Lemma testbit_lt_pow2 x k : (forall i, k <= i -> N.testbit x i = false) -> x < 2 ^ k.
Proof.
  intros H. destruct (N.eq_dec x 0) as [->|Hx]; [apply N.neq_0_lt_0, N.pow_nonzero; lia|].
  apply N.log2_lt_pow2; [lia|].
  destruct (N.lt_ge_cases (N.log2 x) k) as [L|L]; [exact L|].
  pose proof (N.bit_log2 x Hx) as B. rewrite H in B by exact L. discriminate.
Qed.

Lemma land_lt_pow2 a c k : c < 2 ^ k -> N.land a c < 2 ^ k.
Proof.
  intros H. apply testbit_lt_pow2. intros i Hi. rewrite N.land_spec, (lt_pow2_testbit c k i H Hi). apply andb_false_r.
Qed.

Lemma lor_lt_pow2 a c k : a < 2 ^ k -> c < 2 ^ k -> N.lor a c < 2 ^ k.
Proof.
  intros Ha Hc. apply testbit_lt_pow2. intros i Hi.
  rewrite N.lor_spec, (lt_pow2_testbit a k i Ha Hi), (lt_pow2_testbit c k i Hc Hi). reflexivity.
Qed.

Lemma lxor_lt_pow2 a c k : a < 2 ^ k -> c < 2 ^ k -> N.lxor a c < 2 ^ k.
Proof.
  intros Ha Hc. apply testbit_lt_pow2. intros i Hi.
  rewrite N.lxor_spec, (lt_pow2_testbit a k i Ha Hi), (lt_pow2_testbit c k i Hc Hi). reflexivity.
Qed.

Lemma ldiff_lt_pow2 a c k : a < 2 ^ k -> N.ldiff a c < 2 ^ k.
Proof.
  intros Ha. apply testbit_lt_pow2. intros i Hi.
  rewrite N.ldiff_spec, (lt_pow2_testbit a k i Ha Hi). reflexivity.
Qed.

Lemma mv_from_lt m : mv_from m < 64.
Proof. unfold mv_from. apply (land_lt_pow2 _ 63 6). reflexivity. Qed.
Lemma mv_to_lt m : mv_to m < 64.
Proof. unfold mv_to. apply (land_lt_pow2 _ 63 6). reflexivity. Qed.
Lemma capture_sq_lt b m : capture_sq b m < 64.
Proof.
  unfold capture_sq. destruct (is_en_passant b m); [|apply mv_to_lt].
  apply (lor_lt_pow2 _ _ 6); [apply (N.lt_trans _ (2 ^ 3)); [apply land_lt_pow2|]|apply land_lt_pow2]; reflexivity.
Qed.

Lemma RepP_zero_empty b s : RepP b -> s < 64 -> piece_at b s = 0 -> Sq_empty b s.
Proof.
  intros R Hs H. destruct (rp_sq b R s Hs) as [E|(c & p & Rg & A & _)]; [exact E|lia].
Qed.

Section Facts.
Variables (b : board) (m : N).
Hypothesis HR : RepP b.
Hypothesis HA : applicable b m = true.

Local Notation from := (mv_from m).
Local Notation to := (mv_to m).
Local Notation me := (stm b).
Local Notation piece := (mk_piece b m).
Local Notation cap := (mk_capture b m).
Local Notation csq := (capture_sq b m).
Local Notation put := (mk_put b m).

Lemma app_parts :
  N.testbit (colors b me) from = true /\ N.testbit (colors b me) to = false /\ N.testbit (colors b me) csq = false /\
  (csq = to \/ piece_at b to = 0) /\
  (mv_promo m = 0 \/ (piece = Pawn /\ mv_promo m <= 6)) /\
  match rook_sqs piece from to with
  | Some (rf, rt) => piece_at b rf = Rook /\ N.testbit (colors b me) rf = true /\ piece_at b rt = 0
  | None => True
  end.
Proof.
  pose proof HA as H. unfold applicable in H. fold piece in H.
  apply andb_true_iff in H; destruct H as [H H6].
  apply andb_true_iff in H; destruct H as [H H5].
  apply andb_true_iff in H; destruct H as [H H4].
  apply andb_true_iff in H; destruct H as [H H3].
  apply andb_true_iff in H; destruct H as [H1 H2].
  apply negb_true_iff in H2, H3.
  repeat split; try assumption.
  - apply orb_true_iff in H4. destruct H4 as [X|X]; apply N.eqb_eq in X; auto.
  - apply orb_true_iff in H5. destruct H5 as [X|X].
    + left. apply N.eqb_eq in X. exact X.
    + right. apply andb_true_iff in X. destruct X as [X Y]. apply N.eqb_eq in X. apply N.leb_le in Y. split; assumption.
  - unfold mk_piece in *. destruct (rook_sqs (piece_at b from) from to) as [[rf rt]|]; [|exact I].
    apply andb_true_iff in H6; destruct H6 as [X Z]; apply andb_true_iff in X; destruct X as [X Y].
    apply N.eqb_eq in X, Z. auto.
Qed.

Lemma fact_from : Sq_has b me piece from.
Proof. apply RepP_own; [exact HR|apply mv_from_lt|apply app_parts]. Qed.

Lemma fact_piece : 1 <= piece <= 6.
Proof. destruct fact_from as (R & _). exact R. Qed.

Lemma fact_csq : (cap = 0 /\ Sq_empty b csq) \/ Sq_has b (flip me) cap csq.
Proof.
  destruct (RepP_not_own b me csq HR (capture_sq_lt b m)) as [E|H]; [apply app_parts| |].
  - left. split; [|exact E]. destruct E as (A & _). exact A.
  - right. exact H.
Qed.

Lemma fact_cap_le : cap <= 6.
Proof. apply RepP_piece_lt; [exact HR|apply capture_sq_lt]. Qed.

Lemma fact_to : csq = to \/ Sq_empty b to.
Proof.
  destruct app_parts as (_ & _ & _ & [H|H] & _); [left; exact H|right].
  apply RepP_zero_empty; [exact HR|apply mv_to_lt|exact H].
Qed.

Lemma fact_csq_ne_from : csq <> from.
Proof.
  intros E. destruct app_parts as (A & _ & C & _). rewrite E in C. congruence.
Qed.

Lemma fact_to_ne_from : to <> from.
Proof.
  intros E. destruct app_parts as (A & B & _). rewrite E in B. congruence.
Qed.

Lemma fact_promo : mv_promo m <> 0 -> piece = Pawn.
Proof. destruct app_parts as (_ & _ & _ & _ & [H|[H _]] & _); [congruence|auto]. Qed.

Lemma fact_put : 1 <= put <= 6.
Proof.
  unfold mk_put. destruct (N.eqb_spec (mv_promo m) NoPiece) as [E|E]; cbn [negb].
  - apply fact_piece.
  - destruct app_parts as (_ & _ & _ & _ & [H|[_ H]] & _); [unfold NoPiece in E; congruence|].
    unfold NoPiece in E. lia.
Qed.

Lemma fact_rook rf rt : rook_sqs piece from to = Some (rf, rt) ->
  Sq_has b me Rook rf /\ Sq_empty b rt /\ csq = to /\
  rf <> from /\ rf <> to /\ rt <> from /\ rt <> to /\ rf <> rt /\ rf < 64 /\ rt < 64.
Proof.
  intros H. destruct app_parts as (_ & _ & _ & _ & _ & X). rewrite H in X. destruct X as (X1 & X2 & X3).
  unfold rook_sqs in H. destruct (N.eqb_spec piece King) as [K|K]; [|discriminate].
  assert (C : csq = to).
  { unfold capture_sq, is_en_passant. unfold mk_piece in K. rewrite K. cbn. rewrite andb_false_r. reflexivity. }
  unfold castle_rook in H.
  assert (B : rf < 64 /\ rt < 64 /\ rf <> from /\ rf <> to /\ rt <> from /\ rt <> to /\ rf <> rt).
  { destruct (N.eqb_spec from E1) as [F|F]; destruct (N.eqb_spec to G1) as [T|T]; cbn [andb] in H;
      [inversion H; subst rf rt; rewrite F, T; cbv; repeat split; congruence|..].
    all: destruct (N.eqb_spec to C1) as [T2|T2]; cbn [andb] in H;
      try (inversion H; subst rf rt; rewrite F, T2; cbv; repeat split; congruence).
    all: destruct (N.eqb_spec from E8) as [F8|F8]; destruct (N.eqb_spec to G8) as [T8|T8]; cbn [andb] in H;
      try (inversion H; subst rf rt; rewrite F8, T8; cbv; repeat split; congruence).
    all: destruct (N.eqb_spec to C8) as [T9|T9]; cbn [andb] in H;
      try (inversion H; subst rf rt; rewrite F8, T9; cbv; repeat split; congruence); try discriminate. }
  destruct B as (B1 & B2 & B3 & B4 & B5 & B6 & B7).
  assert (S1 : Sq_has b me Rook rf) by (rewrite <- X1; apply RepP_own; assumption).
  assert (S2 : Sq_empty b rt) by (apply RepP_zero_empty; assumption).
  exact (conj S1 (conj S2 (conj C (conj B3 (conj B4 (conj B5 (conj B6 (conj B7 (conj B1 B2))))))))).
Qed.
End Facts.

(* other squares keep their state, also when the operation is void (NoPiece) *)
Lemma remp_has_other0 b c p sq c' p' t : Lens b -> sq < 64 -> p <= 6 -> t <> sq ->
  Sq_has b c' p' t -> Sq_has (remp b c p sq) c' p' t.
Proof.
  intros L Hs Hp E H. destruct (N.eq_dec p 0) as [->|N]; [exact H|]. apply remp_has_other; try assumption. lia.
Qed.
Lemma remp_empty_other0 b c p sq t : Lens b -> sq < 64 -> p <= 6 -> t <> sq ->
  Sq_empty b t -> Sq_empty (remp b c p sq) t.
Proof.
  intros L Hs Hp E H. destruct (N.eq_dec p 0) as [->|N]; [exact H|]. apply remp_empty_other; try assumption. lia.
Qed.

Section Chain.
Variables (b : board) (m : N).
Hypothesis HR : RepP b.
Hypothesis HA : applicable b m = true.

Local Notation from := (mv_from m).
Local Notation to := (mv_to m).
Local Notation me := (stm b).
Local Notation piece := (mk_piece b m).
Local Notation cap := (mk_capture b m).
Local Notation csq := (capture_sq b m).
Local Notation put := (mk_put b m).
Local Notation b1 := (remp b (flip (stm b)) (mk_capture b m) (capture_sq b m)).
Local Notation b2 := (remp (remp b (flip (stm b)) (mk_capture b m) (capture_sq b m)) (stm b) (mk_piece b m) (mv_from m)).

Lemma chain1 :
  RepP b1 /\ Sq_empty b1 csq /\ Sq_has b1 me piece from /\ Sq_empty b1 to /\ addp b1 (flip me) cap csq = b.
Proof.
  pose proof (rp_lens b HR) as L. pose proof (capture_sq_lt b m) as Lc.
  pose proof (fact_from b m HR HA) as Ff. pose proof (fact_to b m HR HA) as Ft.
  pose proof (fact_csq_ne_from b m HA) as Nf.
  destruct (fact_csq b m HR HA) as [[Z E]|H].
  - rewrite Z. rewrite remp_0, addp_0.
    refine (conj HR (conj E (conj Ff (conj _ eq_refl)))).
    destruct Ft as [Q|Q]; [rewrite <- Q; exact E|exact Q].
  - pose proof H as (Rg & _).
    assert (Ec : Sq_empty b1 csq) by (apply remp_empty; assumption).
    split; [apply remp_RepP; assumption|].
    split; [exact Ec|].
    split; [apply remp_has_other; try assumption; congruence|].
    split; [|apply addp_remp; assumption].
    destruct (N.eq_dec csq to) as [Q|Q].
    + rewrite <- Q. exact Ec.
    + destruct Ft as [Q'|Q']; [congruence|]. apply remp_empty_other; try assumption. congruence.
Qed.

Lemma chain2 :
  RepP b2 /\ Sq_empty b2 from /\ Sq_empty b2 to /\ addp b2 me piece from = b1.
Proof.
  destruct chain1 as (R1 & E1 & F1 & T1 & _).
  pose proof (rp_lens _ R1) as L. pose proof (mv_from_lt m) as Lf. pose proof (fact_piece b m HR HA) as Rg.
  split; [apply remp_RepP; assumption|].
  split; [apply remp_empty; assumption|].
  split; [apply remp_empty_other; try assumption; apply (fact_to_ne_from b m HA)|].
  apply addp_remp; assumption.
Qed.

Lemma chain3 :
  RepP (mk_pl3 b m) /\ Sq_has (mk_pl3 b m) me put to /\ remp (mk_pl3 b m) me put to = b2.
Proof.
  destruct chain2 as (R2 & F2 & T2 & _). unfold mk_pl3.
  pose proof (rp_lens _ R2) as L. pose proof (mv_to_lt m) as Lt. pose proof (fact_put b m HR HA) as Rg.
  split; [apply addp_RepP; assumption|].
  split; [apply addp_has; assumption|].
  apply remp_addp; assumption.
Qed.

(* squares other than from / to / capture square are untouched by the three operations *)
Lemma pl3_has_other c p t : t <> csq -> t <> from -> t <> to -> Sq_has b c p t -> Sq_has (mk_pl3 b m) c p t.
Proof.
  intros N1 N2 N3 H. destruct chain1 as (R1 & _). destruct chain2 as (R2 & _).
  unfold mk_pl3. apply addp_has_other; try assumption;
    [apply (rp_lens _ R2)|apply mv_to_lt|apply (fact_put b m HR HA)|].
  apply remp_has_other; try assumption; [apply (rp_lens _ R1)|apply mv_from_lt|apply (fact_piece b m HR HA)|].
  apply remp_has_other0; try assumption; [apply (rp_lens _ HR)|apply capture_sq_lt|apply (fact_cap_le b m HR)].
Qed.

Lemma pl3_empty_other t : t <> csq -> t <> from -> t <> to -> Sq_empty b t -> Sq_empty (mk_pl3 b m) t.
Proof.
  intros N1 N2 N3 H. destruct chain1 as (R1 & _). destruct chain2 as (R2 & _).
  unfold mk_pl3. apply addp_empty_other; try assumption;
    [apply (rp_lens _ R2)|apply mv_to_lt|apply (fact_put b m HR HA)|].
  apply remp_empty_other; try assumption; [apply (rp_lens _ R1)|apply mv_from_lt|apply (fact_piece b m HR HA)|].
  apply remp_empty_other0; try assumption; [apply (rp_lens _ HR)|apply capture_sq_lt|apply (fact_cap_le b m HR)].
Qed.

Lemma chain_rook :
  let rs := rook_sqs piece from to in
  RepP (mk_pl b m) /\ Sq_has (mk_pl b m) me put to /\ rook_undo (mk_pl b m) me rs = mk_pl3 b m.
Proof.
  cbv zeta. unfold mk_pl. destruct chain3 as (R3 & T3 & _).
  destruct (rook_sqs piece from to) as [[rf rt]|] eqn:E; cbn [rook_do rook_undo]; [|auto].
  destruct (fact_rook b m HR HA rf rt E) as (S1 & S2 & C & N1 & N2 & N3 & N4 & N5 & L1 & L2).
  assert (RgR : 1 <= Rook <= 6) by (cbv; split; congruence).
  assert (H3 : Sq_has (mk_pl3 b m) me Rook rf) by (apply pl3_has_other; congruence).
  assert (E3 : Sq_empty (mk_pl3 b m) rt) by (apply pl3_empty_other; congruence).
  pose proof (rp_lens _ R3) as L3.
  assert (R4 : RepP (remp (mk_pl3 b m) me Rook rf)) by (apply remp_RepP; assumption).
  pose proof (rp_lens _ R4) as L4.
  assert (E4 : Sq_empty (remp (mk_pl3 b m) me Rook rf) rt) by (apply remp_empty_other; try assumption; congruence).
  split; [apply addp_RepP; assumption|].
  split.
  - apply addp_has_other; try assumption; [congruence|]. apply remp_has_other; try assumption. congruence.
  - rewrite remp_addp by assumption. apply addp_remp; assumption.
Qed.

(* the states the rook part of castling meets (used again by the hash proof) *)
Lemma chain_rook_states rf rt : rook_sqs piece from to = Some (rf, rt) ->
  rf < 64 /\ rt < 64 /\ RepP (mk_pl3 b m) /\ Sq_has (mk_pl3 b m) me Rook rf /\
  RepP (remp (mk_pl3 b m) me Rook rf) /\ Sq_empty (remp (mk_pl3 b m) me Rook rf) rt.
Proof.
  intros E. destruct chain3 as (R3 & T3 & _).
  destruct (fact_rook b m HR HA rf rt E) as (S1 & S2 & C & N1 & N2 & N3 & N4 & N5 & L1 & L2).
  assert (RgR : 1 <= Rook <= 6) by (cbv; split; congruence).
  assert (H3 : Sq_has (mk_pl3 b m) me Rook rf) by (apply pl3_has_other; congruence).
  assert (E3 : Sq_empty (mk_pl3 b m) rt) by (apply pl3_empty_other; congruence).
  pose proof (rp_lens _ R3) as L3.
  assert (R4 : RepP (remp (mk_pl3 b m) me Rook rf)) by (apply remp_RepP; assumption).
  assert (E4 : Sq_empty (remp (mk_pl3 b m) me Rook rf) rt) by (apply remp_empty_other; try assumption; congruence).
  exact (conj L1 (conj L2 (conj R3 (conj H3 (conj R4 E4))))).
Qed.

Theorem pl_roundtrip :
  addp (addp (remp (rook_undo (mk_pl b m) me (rook_sqs piece from to)) me put to) me piece from) (flip me) cap csq = b.
Proof.
  destruct chain_rook as (_ & _ & ->). destruct chain3 as (_ & _ & ->). destruct chain2 as (_ & _ & _ & ->).
  apply chain1.
Qed.
End Chain.

(* ------------------------------------------------------------------------------------------ *)
(* the reverse token carries what undo reads *)

Lemma mk_newep_lt b m : mk_newep b m < 64.
Proof.
  unfold mk_newep. destruct (mk_canep b m); [|reflexivity].
  pose proof (mv_from_lt m). pose proof (mv_to_lt m). apply N.div_lt_upper_bound; lia.
Qed.

Lemma new_castles_lt b m : castles b < 16 -> new_castles b m < 16.
Proof. intros H. unfold new_castles. cbv zeta. apply (ldiff_lt_pow2 _ _ 4). exact H. Qed.

Lemma mk_change_lt b m : castles b < 16 -> mk_change b m < 16.
Proof. intros H. unfold mk_change. apply (lxor_lt_pow2 _ _ 4); [exact H|apply new_castles_lt; exact H]. Qed.

Lemma mk_tok_fields l b m : layout_ok l = true ->
  ep b < 64 -> castles b < 16 -> mk_capture b m <= 6 -> (-32768 <= fifty b < 32768)%Z ->
  tok_ep l (mk_tok l b m) = bxor (ep b) (mk_newep b m) /\ tok_capture l (mk_tok l b m) = mk_capture b m /\
  tok_castling l (mk_tok l b m) = mk_change b m /\ tok_fifty l (mk_tok l b m) = fifty b.
Proof.
  intros HL He Hc Hp Hf. unfold mk_tok.
  assert (E : bxor (ep b) (mk_newep b m) < 64) by (apply (lxor_lt_pow2 _ _ 6); [exact He|apply mk_newep_lt]).
  assert (C : mk_change b m < 16) by (apply mk_change_lt; exact Hc).
  assert (P : mk_capture b m < 8) by lia.
  repeat split.
  - apply (tok_ep_set_ep l HL). exact E.
  - rewrite (tok_capture_set_ep l HL) by exact E. apply (tok_capture_set_capture l HL). exact P.
  - rewrite (tok_castling_set_ep l HL) by exact E. rewrite (tok_castling_set_capture l HL) by exact P.
    apply (tok_castling_set_castling l HL). exact C.
  - rewrite (tok_fifty_set_ep l HL) by exact E. rewrite (tok_fifty_set_capture l HL) by exact P.
    rewrite (tok_fifty_set_castling l HL) by exact C. apply (tok_fifty_set_fifty l HL). exact Hf.
Qed.

(* ------------------------------------------------------------------------------------------ *)
(* placement of one board with the scalar fields of another *)

Definition scal (p s : board) : board :=
  mkBoard (sq2p p) (pcs p) (cols p) (hashes s) (full s) (stm s) (ep s) (castles s) (fifty s).

Lemma addp_scal p s c x sq : addp (scal p s) c x sq = scal (addp p c x sq) s.
Proof. unfold addp, scal. destruct (x =? NoPiece); reflexivity. Qed.
Lemma remp_scal p s c x sq : remp (scal p s) c x sq = scal (remp p c x sq) s.
Proof. unfold remp, scal. destruct (x =? NoPiece); reflexivity. Qed.
Lemma rook_undo_scal p s c rs : rook_undo (scal p s) c rs = scal (rook_undo p c rs) s.
Proof. destruct rs as [[rf rt]|]; cbn [rook_undo]; [rewrite remp_scal, addp_scal|]; reflexivity. Qed.
Lemma piece_at_scal p s x : piece_at (scal p s) x = piece_at p x.
Proof. reflexivity. Qed.

Lemma lxor_cancel a c : bxor (bxor a c) c = a.
Proof. unfold bxor. rewrite N.lxor_assoc, N.lxor_nilpotent, N.lxor_0_r. reflexivity. Qed.
Lemma lxor_cancel' a c : bxor c (bxor a c) = a.
Proof. unfold bxor. rewrite (N.lxor_comm a c), <- N.lxor_assoc, N.lxor_nilpotent, N.lxor_0_l. reflexivity. Qed.

(* ------------------------------------------------------------------------------------------ *)
(* C03, one move *)

Theorem undo_make l z b m : layout_ok l = true -> RepW b -> applicable b m = true ->
  undo_l l z (fst (make_l l z b m)) m (snd (make_l l z b m)) = b.
Proof.
  intros HL [HR He Hc Hh Hf] HA. rewrite make_eq. cbn [fst snd]. rewrite undo_eq.
  destruct (mk_tok_fields l b m HL He Hc (fact_cap_le b m HR) Hf) as (T1 & T2 & T3 & T4).
  set (B := mk_board z b m).
  assert (EB : B = scal (mk_pl b m) B) by reflexivity.
  assert (Hstm : flip (stm B) = stm b) by (apply flip_flip).
  destruct (chain_rook b m HR HA) as (_ & (_ & Hto & _) & Hrook).
  destruct (chain3 b m HR HA) as (_ & _ & H3).
  destruct (chain2 b m HR HA) as (_ & _ & _ & H2).
  destruct (chain1 b m HR HA) as (_ & _ & (_ & Hfrom & _) & _ & H1).
  assert (Hrm : un_rm B m = mk_put b m) by exact Hto.
  assert (Hpc : un_piece B m = mk_piece b m).
  { unfold un_piece. rewrite Hrm. unfold mk_put. destruct (N.eqb_spec (mv_promo m) NoPiece) as [E|E]; cbn [negb].
    - reflexivity.
    - symmetry. apply (fact_promo b m HA). exact E. }
  assert (P5 : un_pl5 B m = scal (remp b (flip (stm b)) (mk_capture b m) (capture_sq b m)) B).
  { unfold un_pl5. rewrite Hstm, Hrm, Hpc. rewrite EB at 1.
    rewrite rook_undo_scal, remp_scal, addp_scal, Hrook, H3, H2. reflexivity. }
  assert (Eep : un_ep l B (mk_tok l b m) = ep b).
  { unfold un_ep. rewrite T1. change (ep B) with (mk_newep b m). apply lxor_cancel'. }
  assert (Csq : un_csq l B m (mk_tok l b m) = capture_sq b m).
  { unfold un_csq. apply capture_sq_ext.
    - exact Eep.
    - rewrite P5. exact Hfrom. }
  unfold un_board, un_pl6. rewrite Csq, P5, T2, T3, T4, Eep, addp_scal.
  replace (flip (flip (stm B))) with (flip (stm b)) by (rewrite Hstm; reflexivity).
  rewrite H1, Hstm.
  apply board_ext; cbn [sq2p pcs cols hashes full stm ep castles fifty scal
                        set_hashes set_stm set_ep set_castles set_fifty set_full]; try reflexivity.
  - change (full B) with (full b + Z.of_N (cix (stm b)))%Z. lia.
  - change (castles B) with (bxor (castles b) (mk_change b m)). apply lxor_cancel.
Qed.

(* ------------------------------------------------------------------------------------------ *)
(* C03, null move *)

Theorem undo_null_make_null l z b : layout_ok l = true -> RepW b ->
  undo_null_l l (fst (make_null_l l z b)) (snd (make_null_l l z b)) = b.
Proof.
  intros HL [HR He Hc Hh Hf]. unfold make_null_l, undo_null_l. cbv zeta.
  destruct (N.eqb_spec (ep b) 0) as [E|E]; cbn [negb fst snd];
    apply board_ext; cbn [sq2p pcs cols hashes full stm ep castles fifty
                          set_hashes set_stm set_ep set_castles set_fifty set_full tl]; try reflexivity.
  - apply flip_flip.
  - rewrite (tok_ep_0 l HL). congruence.
  - apply flip_flip.
  - apply (tok_ep_set_ep l HL). exact He.
Qed.

(* ------------------------------------------------------------------------------------------ *)
(* the invariant is preserved *)

Lemma RepP_scal p s : RepP p -> RepP (scal p s).
Proof. intros [L P0 W1 W2 S]. constructor; assumption. Qed.

Lemma mk_fifty_range b m : (-32768 <= mk_fifty b m < 32768)%Z.
Proof. unfold mk_fifty. destruct (_ || _); [lia|apply wrap16_range]. Qed.

Theorem make_RepW l z b m : RepW b -> applicable b m = true -> RepW (fst (make_l l z b m)).
Proof.
  intros [HR He Hc Hh Hf] HA. rewrite make_eq. cbn [fst].
  constructor.
  - change (mk_board z b m) with (scal (mk_pl b m) (mk_board z b m)). apply RepP_scal.
    apply (chain_rook b m HR HA).
  - apply mk_newep_lt.
  - change (castles (mk_board z b m)) with (bxor (castles b) (mk_change b m)).
    apply (lxor_lt_pow2 _ _ 4); [exact Hc|apply mk_change_lt; exact Hc].
  - discriminate.
  - apply mk_fifty_range.
Qed.

Theorem make_null_RepW l z b : RepW b -> RepW (fst (make_null_l l z b)).
Proof.
  intros [[L P0 W1 W2 S] He Hc Hh Hf]. unfold make_null_l. cbv zeta.
  destruct (N.eqb_spec (ep b) 0) as [E|E]; cbn [negb fst]; (constructor; [constructor; assumption|..]);
    cbn [ep castles hashes fifty set_hashes set_stm set_ep]; try assumption; try discriminate; reflexivity.
Qed.

(* 64-bit hashes: needs 64-bit Zobrist entries *)
Definition zob_w64 (z : zobrist) : Prop :=
  (forall c p s, z_piece z c p s < two64) /\ z_stm z < two64 /\ (forall i, z_castle z i < two64) /\
  (forall f, z_ep z f < two64).

Lemma bxor_w64 a c : a < two64 -> c < two64 -> bxor a c < two64.
Proof. apply (lxor_lt_pow2 a c 64). Qed.

Lemma castle_hash_w64 z ch : zob_w64 z -> castle_hash z ch < two64.
Proof.
  intros (_ & _ & Z & _). unfold castle_hash. cbn [fold_left].
  repeat match goal with |- context [if ?c then _ else _] => destruct c end;
  repeat apply bxor_w64; try apply Z; reflexivity.
Qed.

Lemma dz_w64 z c p s : zob_w64 z -> dz z c p s < two64.
Proof. intros (Z & _). unfold dz. destruct (p =? NoPiece); [reflexivity|apply Z]. Qed.

Lemma cur_hash_w64 b : w64l (hashes b) -> cur_hash b < two64.
Proof. unfold cur_hash. intros H. destruct H; [reflexivity|assumption]. Qed.

Lemma mk_hash_w64 z b m : zob_w64 z -> w64l (hashes b) -> mk_hash z b m < two64.
Proof.
  intros Z W. pose proof Z as (_ & Zs & _ & Ze). unfold mk_hash. cbv zeta.
  apply bxor_w64; [|exact Zs].
  assert (A : bxor (bxor (bxor (bxor (cur_hash b) (castle_hash z (mk_change b m)))
              (dz z (flip (stm b)) (mk_capture b m) (capture_sq b m))) (dz z (stm b) (mk_piece b m) (mv_from m)))
              (dz z (stm b) (mk_put b m) (mv_to m)) < two64).
  { repeat apply bxor_w64; try apply dz_w64; try apply castle_hash_w64; try apply cur_hash_w64; assumption. }
  set (h0 := bxor _ (dz z (stm b) (mk_put b m) (mv_to m))) in *.
  assert (B : (if negb (ep b =? 0) then bxor h0 (z_ep z (sq_file (ep b))) else h0) < two64).
  { destruct (negb _); [apply bxor_w64; [exact A|apply Ze]|exact A]. }
  set (h1 := if negb (ep b =? 0) then _ else _) in *.
  assert (C : (if mk_canep b m then bxor h1 (z_ep z (sq_file (mk_newep b m))) else h1) < two64).
  { destruct (mk_canep b m); [apply bxor_w64; [exact B|apply Ze]|exact B]. }
  set (h2 := if mk_canep b m then _ else _) in *.
  destruct (rook_sqs _ _ _) as [[rf rt]|]; [|exact C].
  repeat apply bxor_w64; try apply dz_w64; assumption.
Qed.

Theorem make_Rep l z b m : zob_w64 z -> Rep b -> applicable b m = true -> Rep (fst (make_l l z b m)).
Proof.
  intros Z HR HA. apply Rep_iff in HR. destruct HR as [HW Hh]. apply RepW_Rep.
  - apply make_RepW; assumption.
  - rewrite make_eq. cbn [fst]. change (hashes (mk_board z b m)) with (mk_hash z b m :: hashes b).
    constructor; [apply mk_hash_w64; assumption|exact Hh].
Qed.

Theorem make_null_Rep l z b : zob_w64 z -> Rep b -> Rep (fst (make_null_l l z b)).
Proof.
  intros Z HR. apply Rep_iff in HR. destruct HR as [HW Hh]. apply RepW_Rep.
  - apply make_null_RepW; assumption.
  - pose proof Z as (_ & Zs & _ & Ze). pose proof (cur_hash_w64 b Hh) as Hc.
    unfold make_null_l. cbv zeta. destruct (negb (ep b =? 0)); cbn [fst hashes set_hashes set_stm set_ep];
      (constructor; [|exact Hh]); repeat apply bxor_w64; auto.
Qed.

(* ------------------------------------------------------------------------------------------ *)
(* operations (move | null move), nesting *)

Section Nest.
Variable l : tok_layout.
Variable z : zobrist.
Hypothesis HL : layout_ok l = true.

Lemma unstep_step b o : RepW b -> op_applicable b o = true ->
  unstep l z (fst (step l z b o)) o (snd (step l z b o)) = b.
Proof.
  intros HR HA. destruct o as [m|]; cbn [step unstep op_applicable] in *.
  - apply undo_make; assumption.
  - apply undo_null_make_null; assumption.
Qed.

Lemma step_RepW b o : RepW b -> op_applicable b o = true -> RepW (fst (step l z b o)).
Proof.
  intros HR HA. destruct o as [m|]; cbn [step op_applicable] in *.
  - apply make_RepW; assumption.
  - apply make_null_RepW; assumption.
Qed.

Lemma step_Rep b o : zob_w64 z -> Rep b -> op_applicable b o = true -> Rep (fst (step l z b o)).
Proof.
  intros Z HR HA. destruct o as [m|]; cbn [step op_applicable] in *.
  - apply make_Rep; assumption.
  - apply make_null_Rep; assumption.
Qed.

Lemma make_all_run b ops st : fst (make_all l z b ops st) = run l z b ops.
Proof.
  revert b st. induction ops as [|o rest IH]; intros b st; cbn [make_all run]; [reflexivity|].
  destruct (step l z b o) as [b' r]. cbn [fst]. apply IH.
Qed.

Theorem undo_all_make_all ops : forall b st, RepW b -> applicable_all l z b ops ->
  undo_all l z (fst (make_all l z b ops st)) (snd (make_all l z b ops st)) = undo_all l z b st.
Proof.
  induction ops as [|o rest IH]; intros b st HR HA; cbn [make_all]; [reflexivity|].
  destruct HA as [HA1 HA2].
  pose proof (unstep_step b o HR HA1) as U. pose proof (step_RepW b o HR HA1) as R.
  destruct (step l z b o) as [b' r]. cbn [fst snd] in *.
  rewrite IH by assumption. cbn [undo_all]. rewrite U. reflexivity.
Qed.

Theorem run_RepW ops : forall b, RepW b -> applicable_all l z b ops -> RepW (run l z b ops).
Proof.
  induction ops as [|o rest IH]; intros b HR HA; cbn [run]; [exact HR|].
  destruct HA as [HA1 HA2]. apply IH; [apply step_RepW; assumption|exact HA2].
Qed.

Theorem run_Rep ops : zob_w64 z -> forall b, Rep b -> applicable_all l z b ops -> Rep (run l z b ops).
Proof.
  intros Z. induction ops as [|o rest IH]; intros b HR HA; cbn [run]; [exact HR|].
  destruct HA as [HA1 HA2]. apply IH; [apply step_Rep; assumption|exact HA2].
Qed.

(* the depth-first walk of the search: every board on the stack is restored exactly *)
Inductive stack_ok : board -> list (op * N) -> board -> Prop :=
| so_nil b : stack_ok b [] b
| so_cons b o r st b0 bp : RepW bp -> op_applicable bp o = true -> step l z bp o = (b, r) ->
    stack_ok bp st b0 -> stack_ok b ((o, r) :: st) b0.

Lemma stack_ok_undo_all b st b0 : stack_ok b st b0 -> undo_all l z b st = b0.
Proof.
  induction 1 as [b|b o r st b0 bp HR HA E S IH]; cbn [undo_all]; [reflexivity|].
  pose proof (unstep_step bp o HR HA) as U. rewrite E in U. cbn [fst snd] in U. rewrite U. exact IH.
Qed.

Theorem walk_inv evs : forall b st b0, RepW b -> stack_ok b st b0 -> walk_ok l z b st evs ->
  RepW (fst (walk l z b st evs)) /\ stack_ok (fst (walk l z b st evs)) (snd (walk l z b st evs)) b0.
Proof.
  induction evs as [|e rest IH]; intros b st b0 HR HS HW; cbn [walk]; [split; assumption|].
  destruct e as [o|]; cbn [walk_ok] in HW.
  - destruct HW as [HA HW]. pose proof (step_RepW b o HR HA) as R.
    destruct (step l z b o) as [b' r] eqn:E. cbn [fst] in R. apply IH; try assumption.
    exact (so_cons b' o r st b0 b HR HA E HS).
  - destruct st as [|[o r] st'].
    + apply IH; assumption.
    + inversion HS as [|? ? ? ? ? bp HRp HAp Ep Sp]; subst.
      pose proof (unstep_step bp o HRp HAp) as U. rewrite Ep in U. cbn [fst snd] in U.
      rewrite U in *. apply IH; assumption.
Qed.

Theorem walk_restores evs b : RepW b -> walk_ok l z b [] evs ->
  undo_all l z (fst (walk l z b [] evs)) (snd (walk l z b [] evs)) = b.
Proof.
  intros HR HW. apply stack_ok_undo_all. apply (walk_inv evs b [] b HR (so_nil b) HW).
Qed.
End Nest.
