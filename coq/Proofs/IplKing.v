(* C05: Board.IsPseudoLegal against the rules for king moves: the king step and the four castlings.
   Both sides test the same three conditions (right, empty squares, unattacked squares); the rules'
   "king and rook on their home squares" follows from [valid]'s "a right implies king and rook at home". *)
From Coq Require Import NArith ZArith List Bool Lia.
From Chess3 Require Import Base.Bits Model.Types Spec.Geometry Model.Att Model.BoardDef Model.Board
  Model.Movegen Spec.Chess Spec.Rep Proofs.GenBase Proofs.IplBase Proofs.AttackedSpec Proofs.IplPieces.
Import ListNotations.
Open Scope N_scope.

Lemma valid_rights p : valid p = true -> rights_consistent p = true.
Proof.
  unfold valid. intros H. rewrite !andb_true_iff in H.
  destruct H as [[[[[[_ _] _] _] _] V6] _]. exact V6.
Qed.

Lemma valid_right_home p c long : valid p = true -> has_right p c long = true ->
  holds p (king_home c) c King = true /\ holds p (rook_home c long) c Rook = true.
Proof.
  intros HV HRt. apply valid_rights in HV. unfold rights_consistent in HV. rewrite forallb_forall in HV.
  specialize (HV (c, long)). cbv beta iota in HV.
  assert (I : In (c, long) [(White, false); (White, true); (Black, false); (Black, true)]).
  { destruct c, long; cbn; auto. }
  specialize (HV I). rewrite HRt in HV. cbn [negb orb] in HV. apply andb_prop in HV. exact HV.
Qed.

Lemma bb_w64 a b c : a < 64 -> b < 64 -> c < 64 -> w64p (bb3 a b c).
Proof.
  intros Ha Hb Hc. unfold w64p. apply testbit_lt_two64. intros i Hi. unfold bb3. rewrite !bor_tb, !bit_testbit.
  rewrite !(proj2 (N.eqb_neq _ _)) by lia. reflexivity.
Qed.

Section Castle.
  Variable b : board.
  Hypothesis HR : Rep b.
  Hypothesis HV : valid (abs b) = true.

  Let occ := bor (colors b White) (colors b Black).

  (* one statement for the four castlings; the concrete squares are checked by computation *)
  Lemma ipl_castle_spec (c : color) (long : bool) (right e1 e2 e3 s1 s2 s3 : N) :
    stm b = c ->
    holds (abs b) (king_home c) c King = true ->
    right = castle_bit c long ->
    e1 < 64 -> e2 < 64 -> e3 < 64 -> s1 < 64 -> s2 < 64 -> s3 < 64 ->
    (forall f, forallb f (between (king_home c) (rook_home c long)) = f e1 && f e2 && f e3) ->
    (forall f, existsb f (bits_of (bb3 s1 s2 s3)) = f s1 || f s2 || f s3) ->
    (forall f, forallb f (if long then [king_home c; king_home c - 1; king_home c - 2]
                          else [king_home c; king_home c + 1; king_home c + 2]) = f s1 && f s2 && f s3) ->
    ipl_castle b occ right (bb3 e1 e2 e3) (bb3 s1 s2 s3) = castle_ok (abs b) long.
  Proof.
    intros Hstm HK -> He1 He2 He3 Hs1 Hs2 Hs3 Hbetween Hbits Hsafe.
    unfold ipl_castle, castle_ok. change (turn (abs b)) with (stm b). rewrite Hstm.
    rewrite Hbetween, Hsafe, HK. unfold occ. fold (occupancy b).
    rewrite (is_attacked_spec b (flip c) _ HR (bb_w64 _ _ _ Hs1 Hs2 Hs3)), Hbits.
    rewrite !(empty_abs b HR) by assumption.
    unfold bb3. replace (band (bor (bor (bit e1) (bit e2)) (bit e3)) (occupancy b)) with (band (occupancy b) (bor (bor (bit e1) (bit e2)) (bit e3)))
      by (unfold band; apply N.land_comm).
    rewrite !band_bor_eq0, !band_bit_eq0.
    unfold has_right. change (rights (abs b)) with (castles b). fold (band (castles b) (castle_bit c long)).
    destruct (band (castles b) (castle_bit c long) =? 0) eqn:R; cbn [negb orb andb]; [reflexivity|].
    assert (HRt : has_right (abs b) c long = true).
    { unfold has_right. change (rights (abs b)) with (castles b). fold (band (castles b) (castle_bit c long)). rewrite R. reflexivity. }
    destruct (valid_right_home _ c long HV HRt) as [_ HRook]. rewrite HRook.
    destruct (N.testbit (occupancy b) e1), (N.testbit (occupancy b) e2), (N.testbit (occupancy b) e3),
      (attacked_by (abs b) (flip c) s1), (attacked_by (abs b) (flip c) s2), (attacked_by (abs b) (flip c) s3); reflexivity.
  Qed.
End Castle.

(* the short castlings test two squares for emptiness: bb3 with a repeated square *)
Lemma bor_bb3 a b : bor (bit a) (bit b) = bb3 a a b.
Proof. unfold bb3, bor. rewrite N.lor_diag. reflexivity. Qed.

Lemma king_step_all :
  (N.testbit (king_attacks E1) G1 || N.testbit (king_attacks E1) C1 ||
   N.testbit (king_attacks E8) G8 || N.testbit (king_attacks E8) C8) = false.
Proof. vm_compute. reflexivity. Qed.

Section King.
  Variable b : board.
  Hypothesis HR : Rep b.
  Hypothesis HV : valid (abs b) = true.
  Variable m : N.
  Hypothesis Hown : N.testbit (colors b (stm b)) (mv_from m) = true.
  Hypothesis E : piece_at b (mv_from m) = King.

  Lemma king_case : ipl_body b m = spec_body (abs b) m King.
  Proof.
    pose proof (mv_from_lt m) as Hf. pose proof (mv_to_lt m) as Ht.
    assert (HK : holds (abs b) (mv_from m) (stm b) King = true).
    { rewrite (holds_abs b HR _ _ _ Hf) by (unfold King; discriminate). rewrite Hown, E. reflexivity. }
    unfold ipl_body, spec_body. cbv zeta. rewrite E. change (turn (abs b)) with (stm b).
    change (King =? Pawn) with false. change (King =? Knight) with false. change (King =? Bishop) with false.
    change (King =? Rook) with false. change (King =? Queen) with false. change (King =? King) with true.
    cbv iota. unfold NoPiece. cbn [negb]. rewrite andb_true_r.
    destruct (mv_promo m =? 0); cbn [negb andb]; [|reflexivity].
    rewrite band_bit_eq0, negb_involutive. unfold king_moves, mem.
    set (from := mv_from m) in *. set (to := mv_to m) in *. clearbody from to.
    pose proof king_step_all as KS. rewrite !orb_false_iff in KS. destruct KS as [[[KS1 KS2] KS3] KS4].
    destruct (stm b) eqn:Hstm.
    - (* White *)
      change (king_home White) with 4. rewrite !andb_false_r. cbv iota.
      destruct (N.eqb_spec from 4) as [->|Nf].
      + change (4 =? E1) with true. change (4 =? E8) with false. cbn [andb]. cbv iota.
        destruct (N.eqb_spec to 6) as [->|Nt6].
        * change (6 =? G1) with true. cbn [andb color_eqb]. cbv iota.
          change (6 =? 4 + 2) with true. change (6 + 2 =? 4) with false. cbn [andb orb].
          change (N.testbit (king_attacks 4) 6) with (N.testbit (king_attacks E1) G1). rewrite KS1. cbn [orb].
          rewrite orb_false_r. rewrite bor_bb3.
          apply (ipl_castle_spec b HR HV White false); try exact Hstm; try exact HK; try reflexivity;
            intros f; vm_compute; destruct (f 5), (f 6); try reflexivity; destruct (f 4); reflexivity.
        * rewrite (proj2 (N.eqb_neq to G1)) by exact Nt6. cbn [andb]. cbv iota.
          destruct (N.eqb_spec to 2) as [->|Nt2].
          -- change (2 =? C1) with true. cbn [andb color_eqb]. cbv iota.
             change (2 =? 4 + 2) with false. change (2 + 2 =? 4) with true. cbn [andb orb].
             change (N.testbit (king_attacks 4) 2) with (N.testbit (king_attacks E1) C1). rewrite KS2. cbn [orb].
             apply (ipl_castle_spec b HR HV White true); try exact Hstm; try exact HK; try reflexivity;
               intros f; vm_compute; destruct (f 1), (f 2), (f 3); try reflexivity; destruct (f 4); reflexivity.
          -- rewrite (proj2 (N.eqb_neq to C1)) by exact Nt2. cbn [andb]. cbv iota.
             rewrite (proj2 (N.eqb_neq to (4 + 2))) by (change (4 + 2) with 6; exact Nt6).
             rewrite (proj2 (N.eqb_neq (to + 2) 4)) by lia.
             cbn [andb]. rewrite !orb_false_r. reflexivity.
      + rewrite (proj2 (N.eqb_neq from E1)) by exact Nf. cbn [andb]. cbv iota.
        rewrite ?(proj2 (N.eqb_neq from 4) Nf). cbn [andb]. rewrite !orb_false_r. reflexivity.
    - (* Black *)
      change (king_home Black) with 60. rewrite !andb_false_r. cbv iota.
      destruct (N.eqb_spec from 60) as [->|Nf].
      + change (60 =? E8) with true. cbn [andb]. cbv iota.
        destruct (N.eqb_spec to 62) as [->|Nt6].
        * change (62 =? G8) with true. cbn [andb color_eqb]. cbv iota.
          change (62 =? 60 + 2) with true. change (62 + 2 =? 60) with false. cbn [andb orb].
          change (N.testbit (king_attacks 60) 62) with (N.testbit (king_attacks E8) G8). rewrite KS3. cbn [orb].
          rewrite orb_false_r. rewrite bor_bb3.
          apply (ipl_castle_spec b HR HV Black false); try exact Hstm; try exact HK; try reflexivity;
            intros f; vm_compute; destruct (f 61), (f 62); try reflexivity; destruct (f 60); reflexivity.
        * rewrite (proj2 (N.eqb_neq to G8)) by exact Nt6. cbn [andb]. cbv iota.
          destruct (N.eqb_spec to 58) as [->|Nt2].
          -- change (58 =? C8) with true. cbn [andb color_eqb]. cbv iota.
             change (58 =? 60 + 2) with false. change (58 + 2 =? 60) with true. cbn [andb orb].
             change (N.testbit (king_attacks 60) 58) with (N.testbit (king_attacks E8) C8). rewrite KS4. cbn [orb].
             apply (ipl_castle_spec b HR HV Black true); try exact Hstm; try exact HK; try reflexivity;
               intros f; vm_compute; destruct (f 57), (f 58), (f 59); try reflexivity; destruct (f 60); reflexivity.
          -- rewrite (proj2 (N.eqb_neq to C8)) by exact Nt2. cbn [andb]. cbv iota.
             rewrite (proj2 (N.eqb_neq to (60 + 2))) by (change (60 + 2) with 62; exact Nt6).
             rewrite (proj2 (N.eqb_neq (to + 2) 60)) by lia.
             cbn [andb]. rewrite !orb_false_r. reflexivity.
      + rewrite (proj2 (N.eqb_neq from E8)) by exact Nf. cbn [andb]. cbv iota.
        rewrite ?(proj2 (N.eqb_neq from 60) Nf). cbn [andb]. rewrite !orb_false_r. reflexivity.
  Qed.
End King.
