(* C06 - Search returns a legal move unless the game is over; board left untouched.
   Decision layer (Layer B: iterativeDeepen's logic over an abstract alphaBeta oracle) and the UCI
   depth argument.  Statements only; proofs in Proofs/IterDeepenProofs.v.
   Board restoration ("the position object is identical afterwards"), `refresh` and the node budget are
   statements about the generated control skeleton of search.go: Layer A (Properties/C06_skel.v).

   Reading guide.  iterative_deepen St ask W time_up root_moves legal fuel lim o  is the model of
   search.iterativeDeepen: St/ask = the rest of the engine (one root call alphaBeta + abort test is
   one question  ask o alpha beta depth), W = params.WindowSize, time_up = the wall clock's part of
   softAbort, root_moves = the generated moves at the root in order, legal = the legality test,
   fuel = bound on re-searches per iteration (r_status = Diverged when exhausted), lim = depth and
   soft node limits.  Pondering is not modelled. *)
From Coq Require Import ZArith List Bool.
Import ListNotations.
From Chess3 Require Import Base.Word Gen.IdConsts Model.IterDeepen Proofs.IterDeepenProofs.
Open Scope Z_scope.

(* The returned move is null or a playable root move, for every oracle whose in-window answers
   carry a line that is empty or starts with a playable root move - at every abort point (answers
   AbAborted), for all limits. *)
Theorem C06_move :
  forall (St : Type) (ask : St -> Z -> Z -> Z -> ab_result * St) (W : Z) (time_up : Z -> bool)
         (root_moves : list Z) (legal : Z -> bool),
  (forall o a b d s m rest n o', ask o a b d = (AbValue s (m :: rest) n, o') -> a < s < b ->
                                 In m (filter legal root_moves)) ->
  forall fuel lim o,
  let mv := r_move (iterative_deepen St ask W time_up root_moves legal fuel lim o) in
  mv = 0 \/ In mv (filter legal root_moves).
Proof. exact move_ok. Qed.
Print Assumptions C06_move.

(* The null move is returned only on a final root (no playable move, or `root_final`: the root call
   answered inside the window with an empty line at depth >= 1, which alphaBeta does for clock >= 100
   and third occurrence), when the depth limit is at least 1. *)
Theorem C06_null_only_final :
  forall (St : Type) (ask : St -> Z -> Z -> Z -> ab_result * St) (W : Z) (time_up : Z -> bool)
         (root_moves : list Z) (legal : Z -> bool) (root_final : Prop),
  legal 0 = false ->
  (forall o a b d s m rest n o', ask o a b d = (AbValue s (m :: rest) n, o') -> a < s < b ->
                                 In m (filter legal root_moves)) ->
  (forall o a b d s n o', 1 <= d -> ask o a b d = (AbValue s [] n, o') -> a < s < b -> root_final) ->
  forall fuel lim o, 1 <= l_depth lim ->
  let res := iterative_deepen St ask W time_up root_moves legal fuel lim o in
  r_status res <> Diverged -> r_move res = 0 -> filter legal root_moves = [] \/ root_final.
Proof. exact null_only_final. Qed.
Print Assumptions C06_null_only_final.

(* A search that is not aborted on a root where every root call answers (s0, empty line), s0 = 0
   (draws, stalemate) or -Inf (checkmate), returns (s0, null move, no ponder move). *)
Theorem C06_final_score :
  forall (St : Type) (ask : St -> Z -> Z -> Z -> ab_result * St) (W : Z) (time_up : Z -> bool)
         (root_moves : list Z) (legal : Z -> bool) (s0 : Z),
  s0 = 0 \/ s0 = - ScoreInf -> 0 < W <= 1000 ->
  (forall o a b d, exists n o', ask o a b d = (AbValue s0 [] n, o')) ->
  forall fuel lim o, 0 <= l_depth lim ->
  let res := iterative_deepen St ask W time_up root_moves legal (S fuel) lim o in
  r_move res = 0 /\ r_ponder res = 0 /\ r_status res = Finished /\ r_score res = s0.
Proof. exact final_score. Qed.
Print Assumptions C06_final_score.

(* uci.handleGo: whatever text follows `go depth`, the search is handed a depth in [1, MaxPlies];
   with such a depth the iterations 0 and 1 are entered, which is what C06_null_only_final needs *)
Theorem C06_uci_depth : forall arg : list Z, 1 <= uci_go_depth arg <= MaxPlies.
Proof. exact uci_depth_range. Qed.
Print Assumptions C06_uci_depth.

(* the state before commit c771937 *)
Theorem C06_uci_unclamped_refuted : exists arg : list Z, uci_go_depth_unclamped arg < 0.
Proof. exact uci_depth_unclamped_refuted. Qed.
Print Assumptions C06_uci_unclamped_refuted.

(* what is NOT proved here: that the real alphaBeta meets the two hypotheses on `ask` for every table
   state (observed by the c06/c07 streams; commit d1717eb repaired a violation), and that the fixed
   buffers suffice (store_ok, DESIGN O2). *)
Definition C06_full_statement : Prop :=
  forall (St : Type) (ask : St -> Z -> Z -> Z -> ab_result * St) (W : Z) (time_up : Z -> bool)
         (root_moves : list Z) (legal : Z -> bool) (root_final : Prop) fuel lim o,
  1 <= l_depth lim ->
  let res := iterative_deepen St ask W time_up root_moves legal fuel lim o in
  (r_move res = 0 \/ In (r_move res) (filter legal root_moves)) /\
  (r_move res = 0 -> filter legal root_moves = [] \/ root_final).

(* non-vacuity: an oracle meeting the hypotheses, and what the model returns on it *)
Example C06_nonvacuous :
  let ask := fun (o : Z) (a b d : Z) =>
               if 300 <? o then (AbAborted o, o)
               else (AbValue 25 (if d =? 0 then [] else [1357; 2468]) (o + 100), o + 100) in
  let legal := fun m => (m =? 1357) || (m =? 99) in
  (forall o a b d s m rest n o', ask o a b d = (AbValue s (m :: rest) n, o') -> a < s < b ->
                                 In m (filter legal [7; 99; 1357])) /\
  let res := iterative_deepen Z ask 44 (fun _ => false) [7; 99; 1357] legal 20 {| l_depth := 64; l_soft_nodes := 0 |} 0 in
  r_move res = 1357 /\ r_ponder res = 2468 /\ r_status res = Aborted /\
  let res0 := iterative_deepen Z ask 44 (fun _ => false) [7; 99; 1357] legal 20 {| l_depth := 64; l_soft_nodes := 0 |} 250 in
  r_move res0 = 99 /\ r_status res0 = Aborted.
Proof.
  cbn zeta. split.
  - intros o a b d s m rest n o' H _. destruct (300 <? o); [discriminate|].
    destruct (d =? 0); [discriminate|]. inversion H; subst. cbn. auto.
  - vm_compute. repeat split; reflexivity.
Qed.

Example C06_uci_depth_examples :
  uci_go_depth [49; 50; 56] = 64 /\ uci_go_depth [45; 49] = 1 /\ uci_go_depth [120] = 1 /\ uci_go_depth [53] = 5
  /\ uci_go_depth_unclamped [49; 50; 56] = -128.
Proof. vm_compute. repeat split. Qed.
