package streams

import (
	"fmt"

	"github.com/paulsonkoly/chess-3/board"
	. "github.com/paulsonkoly/chess-3/chess"
	"github.com/paulsonkoly/chess-3/debug"

	"verifharness/hx"
	"verifharness/posgen"
)

// perft: board-in ++ [depth] -> [debug.Perft(board, depth, false)].
// The other side is the spec's own perft (coq/Spec/PerftSpec.v: legal_moves + succ_spec), so whole
// trees of make/undo + generation + legality filter, exactly as the engine's perft command walks them,
// are compared with the rules. The expensive side is the spec (one legal_moves per interior node), so
// the depth of each root is chosen from the size of its tree.
func init() {
	hx.Register(&hx.Stream{Name: "perft", Gen: genPerft, Run: runPerft})
}

func runPerft(a hx.Args) string {
	b, i := a.Board(0)
	d := a.Int(i)
	if d < 0 || d > 5 {
		return ""
	}
	return (&hx.Nums{}).Int(debug.Perft(b, Depth(d), false)).String()
}

// interior returns the number of nodes of the depth-d tree below b that the spec has to expand
// (all nodes at depth < d-1 plus those at depth d-1, whose moves are counted): sum of perft(k), k < d.
func interior(b *board.Board, d int) int {
	n := 0
	for k := 0; k < d; k++ {
		n += debug.Perft(b, Depth(k), false)
	}
	return n
}

func genPerft(rng *hx.Rng, n int, tier string, emit func(hx.Input)) {
	// budget per root in expanded spec nodes, and the largest depth
	maxDepth, budget := 3, 130
	if tier == "thorough" {
		maxDepth, budget = 4, 1500
	}
	type item struct {
		fen, desc string
		kind      string
	}
	var items []item
	seen := map[string]bool{}
	add := func(fen, desc, kind string) {
		if !seen[fen] && len(items) < n {
			seen[fen] = true
			items = append(items, item{fen, desc, kind})
		}
	}
	// the hand-made roots first (castling, en passant, promotions, pins ...), then roots of
	// standard.epd in random order (at most half of the rest), then positions reached by play / sparse
	hand := posgen.HandRoots()
	for _, r := range hand {
		add(r, "fen "+r, "hand")
	}
	all := posgen.Roots()
	epd := append([]string(nil), all[len(hand):]...)
	for i := len(epd) - 1; i > 0; i-- {
		j := rng.Intn(i + 1)
		epd[i], epd[j] = epd[j], epd[i]
	}
	quota := len(items) + (n-len(items))/2
	for _, r := range epd {
		if len(items) >= quota {
			break
		}
		add(r, "fen "+r, "epd")
	}
	// (one position in 25 of the shared position stream, so that they come from many play-outs)
	pick := rng.Fork()
	for tries := 0; len(items) < n && tries < 50; tries++ {
		posgen.Stream(rng, 25*(n-len(items)), func(p posgen.Pos) {
			if pick.Intn(25) == 0 {
				add(p.B.FEN(), p.Desc(), p.Kind)
			}
		})
	}
	// shuffle so that the contiguous shards of the model run cost about the same
	for i := len(items) - 1; i > 0; i-- {
		j := rng.Intn(i + 1)
		items[i], items[j] = items[j], items[i]
	}
	for _, it := range items {
		b, err := board.FromFEN(it.fen)
		if err != nil {
			continue
		}
		d := 1
		for d < maxDepth && interior(b, d+1) <= budget {
			d++
		}
		emit(hx.Input{In: (&hx.Nums{}).BoardIn(b).Int(d).String(),
			Desc:       fmt.Sprintf("perft depth %d %s", d, it.desc),
			Tags:       append(posgen.Tags(b), it.kind, fmt.Sprintf("depth%d", d)),
			NonTrivial: d >= 2, Key: fmt.Sprintf("%s|%d", it.fen, d)})
	}
}
