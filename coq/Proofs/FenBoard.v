(* C11 round trip, part 3: replaying the piece writes for all 64 squares of a board whose three
   placement encodings agree ([wf]) rebuilds exactly these three encodings. *)
From Coq Require Import NArith ZArith List Bool Lia PeanoNat.
From Chess3 Require Import Base.Bits Base.Word Model.Types Model.BoardDef Model.Board Model.Fen
  Spec.FenSpec Proofs.FenFields Proofs.FenPlacement.
Import ListNotations.
Open Scope N_scope.

(* ---- list updates ---- *)
Lemma upd_length {A} (l : list A) : forall i x, length (upd l i x) = length l.
Proof. induction l as [|h t IH]; intros [|i] x; cbn; auto. Qed.

Lemma nth_upd_eq {A} (l : list A) : forall i x d, (i < length l)%nat -> nth i (upd l i x) d = x.
Proof. induction l as [|h t IH]; intros [|i] x d H; cbn in *; try lia; auto. apply IH. lia. Qed.

Lemma nth_upd_neq {A} (l : list A) : forall i j x d, i <> j -> nth j (upd l i x) d = nth j l d.
Proof.
  induction l as [|h t IH]; intros [|i] [|j] x d H; cbn in *; try congruence; auto.
Qed.

Lemma nthN_updN {A} (l : list A) i j x d : i < N.of_nat (length l) ->
  nthN (updN l i x) j d = if j =? i then x else nthN l j d.
Proof.
  intros H. unfold nthN, updN. destruct (N.eqb_spec j i) as [->|E].
  - apply nth_upd_eq. lia.
  - apply nth_upd_neq. lia.
Qed.

(* b.Colors[White] & (1 << sq) != 0 is the membership test *)
Lemma land_bit_eqb x s : (band x (bit s) =? 0) = negb (N.testbit x s).
Proof.
  unfold band. destruct (N.testbit x s) eqn:T; cbn [negb].
  - apply N.eqb_neq. intros H. apply (f_equal (fun y => N.testbit y s)) in H.
    rewrite N.land_spec, bit_testbit, N.eqb_refl, T, N.bits_0 in H. discriminate.
  - apply N.eqb_eq. apply N.bits_inj_0. intros i. rewrite N.land_spec, bit_testbit.
    destruct (N.eqb_spec s i) as [->|_]; [rewrite T|rewrite andb_false_r]; reflexivity.
Qed.

Definition is_white (b : board) (s : N) : bool := N.testbit (colors b White) s.

Lemma col_at_white b s : col_at b s = if is_white b s then White else Black.
Proof. unfold col_at, is_white. rewrite land_bit_eqb, negb_involutive. reflexivity. Qed.

Definition mem (L : list N) (s : N) : bool := existsb (N.eqb s) L.

(* what the accumulated board looks like after the squares of L have been replayed *)
Record inv (b acc : board) (L : list N) : Prop := {
  inv_len_sq : length (sq2p acc) = 64%nat;
  inv_len_pcs : length (pcs acc) = 7%nat;
  inv_len_cols : length (cols acc) = 2%nat;
  inv_sq : forall s, piece_at acc s = if mem L s then piece_at b s else 0;
  inv_pcs : forall p s, 1 <= p <= 6 -> N.testbit (pieces acc p) s = mem L s && (piece_at b s =? p);
  inv_p0 : pieces acc 0 = 0;
  inv_white : forall s, N.testbit (colors acc White) s = mem L s && negb (piece_at b s =? 0) && is_white b s;
  inv_black : forall s, N.testbit (colors acc Black) s = mem L s && negb (piece_at b s =? 0) && negb (is_white b s);
  inv_rest : hashes acc = [] /\ full acc = 0%Z /\ stm acc = White /\ ep acc = 0 /\ castles acc = 0 /\ fifty acc = 0%Z
}.

Lemma inv_empty b : inv b empty_board [].
Proof.
  constructor; try reflexivity; cbn [mem existsb].
  - intros s. unfold piece_at, nthN. cbn [sq2p empty_board].
    destruct (Nat.lt_ge_cases (N.to_nat s) 64) as [H|H].
    + apply nth_repeat.
    + apply nth_overflow. rewrite repeat_length. exact H.
  - intros p s Hp. cbn [andb]. unfold pieces, nthN. cbn [pcs empty_board].
    assert (E : nth (N.to_nat p) (repeat 0 7) 0 = 0).
    { destruct (Nat.lt_ge_cases (N.to_nat p) 7); [apply nth_repeat|apply nth_overflow; rewrite repeat_length; assumption]. }
    rewrite E. apply N.bits_0.
  - repeat split.
Qed.

Lemma mem_snoc L s0 s : mem (L ++ [s0]) s = mem L s || (s =? s0).
Proof. unfold mem. rewrite existsb_app. cbn. rewrite orb_false_r. reflexivity. Qed.

Lemma inv_step b acc L s0 : codes_ok b -> s0 < 64 -> inv b acc L -> inv b (place_sq b acc s0) (L ++ [s0]).
Proof.
  intros Hcodes Hs0 I. unfold place_sq.
  destruct (N.eqb_spec (piece_at b s0) NoPiece) as [E|E].
  - (* empty square: nothing written *)
    destruct I. constructor; auto; intros; rewrite mem_snoc.
    + rewrite inv_sq0. destruct (N.eqb_spec s s0) as [->|_]; [|rewrite orb_false_r; reflexivity].
      rewrite orb_true_r, E. destruct (mem L s0); reflexivity.
    + rewrite inv_pcs0 by assumption. destruct (N.eqb_spec s s0) as [->|_]; [|rewrite orb_false_r; reflexivity].
      rewrite E. replace (NoPiece =? p) with false by (symmetry; apply N.eqb_neq; unfold NoPiece; lia).
      rewrite !andb_false_r. reflexivity.
    + rewrite inv_white0. destruct (N.eqb_spec s s0) as [->|_]; [|rewrite orb_false_r; reflexivity].
      rewrite E. cbn. rewrite !andb_false_r. reflexivity.
    + rewrite inv_black0. destruct (N.eqb_spec s s0) as [->|_]; [|rewrite orb_false_r; reflexivity].
      rewrite E. cbn. rewrite !andb_false_r. reflexivity.
  - remember (piece_at b s0) as p0 eqn:Ep0.
    assert (Hp0 : 1 <= p0 <= 6) by (pose proof (Hcodes s0 Hs0) as Hc0; rewrite <- Ep0 in Hc0; unfold NoPiece in E; lia).
    assert (Hz : (p0 =? 0) = false) by (apply N.eqb_neq; lia).
    destruct I.
    assert (Hsq : forall s, piece_at (place_at acc (col_at b s0) p0 s0) s = if s =? s0 then p0 else piece_at acc s).
    { intros s. unfold piece_at, place_at. cbn [sq2p set_sq2p]. apply nthN_updN. rewrite inv_len_sq0. lia. }
    assert (Hpc : forall p, pieces (place_at acc (col_at b s0) p0 s0) p =
                            if p =? p0 then bor (pieces acc p0) (bit s0) else pieces acc p).
    { intros p. unfold pieces at 1, place_at. cbn [pcs set_sq2p set_cols set_pcs]. apply nthN_updN. rewrite inv_len_pcs0. lia. }
    assert (Hco : forall c, colors (place_at acc (col_at b s0) p0 s0) c =
                            if cix c =? cix (col_at b s0) then bor (colors acc (col_at b s0)) (bit s0) else colors acc c).
    { intros c. unfold colors at 1, place_at. cbn [cols set_sq2p set_cols set_pcs]. apply nthN_updN. rewrite inv_len_cols0.
      destruct (col_at b s0); cbn; lia. }
    constructor.
    + unfold place_at. cbn [sq2p set_sq2p]. unfold updN. rewrite upd_length. assumption.
    + unfold place_at. cbn [pcs set_sq2p set_cols set_pcs]. unfold updN. rewrite upd_length. assumption.
    + unfold place_at. cbn [cols set_sq2p set_cols set_pcs]. unfold updN. rewrite upd_length. assumption.
    + intros s. rewrite Hsq, mem_snoc, inv_sq0. destruct (N.eqb_spec s s0) as [->|_].
      * rewrite orb_true_r. exact Ep0.
      * rewrite orb_false_r. reflexivity.
    + intros p s Hp. rewrite Hpc, mem_snoc. destruct (N.eqb_spec p p0) as [->|Hne].
      * unfold bor. rewrite N.lor_spec, bit_testbit, inv_pcs0 by assumption.
        rewrite (N.eqb_sym s0 s).
        destruct (N.eqb_spec s s0) as [->|Hn].
        -- rewrite <- Ep0, N.eqb_refl. destruct (mem L s0); reflexivity.
        -- rewrite !orb_false_r. reflexivity.
      * rewrite inv_pcs0 by assumption. destruct (N.eqb_spec s s0) as [->|_]; [|rewrite orb_false_r; reflexivity].
        rewrite <- Ep0. replace (p0 =? p) with false by (symmetry; apply N.eqb_neq; congruence).
        rewrite !andb_false_r. reflexivity.
    + rewrite Hpc. replace (0 =? p0) with false by (symmetry; apply N.eqb_neq; lia). assumption.
    + intros s. rewrite Hco, mem_snoc, col_at_white. destruct (is_white b s0) eqn:W; cbn [cix N.eqb Pos.eqb].
      * unfold bor. rewrite N.lor_spec, bit_testbit, inv_white0. rewrite (N.eqb_sym s0 s).
        destruct (N.eqb_spec s s0) as [->|Hn].
        -- rewrite <- Ep0, Hz, W. destruct (mem L s0); reflexivity.
        -- rewrite !orb_false_r. reflexivity.
      * rewrite inv_white0. destruct (N.eqb_spec s s0) as [->|_]; [|rewrite orb_false_r; reflexivity].
        rewrite W, !andb_false_r. reflexivity.
    + intros s. rewrite Hco, mem_snoc, col_at_white. destruct (is_white b s0) eqn:W; cbn [cix N.eqb Pos.eqb].
      * rewrite inv_black0. destruct (N.eqb_spec s s0) as [->|_]; [|rewrite orb_false_r; reflexivity].
        rewrite W. cbn [negb]. rewrite !andb_false_r. reflexivity.
      * unfold bor. rewrite N.lor_spec, bit_testbit, inv_black0. rewrite (N.eqb_sym s0 s).
        destruct (N.eqb_spec s s0) as [->|Hn].
        -- rewrite <- Ep0, Hz, W. destruct (mem L s0); reflexivity.
        -- rewrite !orb_false_r. reflexivity.
    + exact inv_rest0.
Qed.

Lemma inv_fold b : codes_ok b -> forall L acc L0, Forall (fun s => s < 64) L -> inv b acc L0 ->
  inv b (fold_left (place_sq b) L acc) (L0 ++ L).
Proof.
  intros Hc. induction L as [|s0 L IH]; intros acc L0 HL I; cbn [fold_left].
  - rewrite app_nil_r. exact I.
  - inversion HL as [|? ? H1 H2]; subst.
    replace (L0 ++ s0 :: L) with ((L0 ++ [s0]) ++ L) by (rewrite <- app_assoc; reflexivity).
    apply IH; [exact H2|]. apply inv_step; assumption.
Qed.

(* the printer visits every square *)
Definition fen_squares : list N := all_squares (desc 7).

Lemma fen_squares_lt : Forall (fun s => s < 64) fen_squares.
Proof.
  apply Forall_forall. intros x Hx. apply N.ltb_lt.
  assert (A : forallb (fun s => s <? 64) fen_squares = true) by (vm_compute; reflexivity).
  exact (proj1 (forallb_forall _ _) A x Hx).
Qed.

Lemma mem_fen_squares s : mem fen_squares s = (s <? 64).
Proof.
  destruct (N.ltb_spec s 64) as [H|H].
  - assert (A : forallb (fun x => mem fen_squares x) squares64 = true) by (vm_compute; reflexivity).
    apply (proj1 (forallb_forall _ _) A). unfold squares64. apply in_map_iff.
    exists (N.to_nat s). split; [lia|]. apply in_seq. lia.
  - unfold mem. destruct (existsb (N.eqb s) fen_squares) eqn:Ex; [|reflexivity].
    apply existsb_exists in Ex. destruct Ex as (x & Hx & Ex). apply N.eqb_eq in Ex. subst x.
    pose proof (proj1 (Forall_forall _ _) fen_squares_lt s Hx) as Hlt. cbv beta in Hlt. lia.
Qed.

Lemma wf_codes_ok b : wf b -> codes_ok b.
Proof. intros W sq H. apply (wf_codes b W sq H). Qed.

Lemma inv_all b : wf b -> inv b (fold_left (place_sq b) fen_squares empty_board) fen_squares.
Proof.
  intros W.
  exact (inv_fold b (wf_codes_ok b W) fen_squares empty_board [] fen_squares_lt (inv_empty b)).
Qed.

Lemma rebuild_sq2p b acc : wf b -> inv b acc fen_squares -> sq2p acc = sq2p b.
Proof.
  intros W I. destruct I as [L1 L2 L3 Isq Ipcs Ip0 Iw Ib _].
  apply (nth_ext _ _ 0 0); [rewrite L1; symmetry; apply (wf_len_sq b W)|]. intros n Hn. rewrite L1 in Hn.
  pose proof (Isq (N.of_nat n)) as Q. unfold piece_at, nthN in Q. rewrite Nat2N.id in Q.
  rewrite Q, mem_fen_squares. destruct (N.ltb_spec (N.of_nat n) 64); [reflexivity|lia].
Qed.

Lemma rebuild_pcs b acc : wf b -> inv b acc fen_squares -> pcs acc = pcs b.
Proof.
  intros W I. destruct I as [L1 L2 L3 Isq Ipcs Ip0 Iw Ib _].
  apply (nth_ext _ _ 0 0); [rewrite L2; symmetry; apply (wf_len_pcs b W)|]. intros n Hn. rewrite L2 in Hn.
  assert (Q : forall p, N.to_nat p = n -> pieces acc p = pieces b p -> nth n (pcs acc) 0 = nth n (pcs b) 0).
  { intros p <- H. exact H. }
  apply (Q (N.of_nat n)); [apply Nat2N.id|].
  destruct n as [|n].
  - change (N.of_nat 0) with NoPiece. rewrite (wf_nopiece b W). exact Ip0.
  - apply N.bits_inj. intros s. rewrite Ipcs by lia. rewrite (wf_pieces b W) by lia.
    rewrite mem_fen_squares. reflexivity.
Qed.

Lemma rebuild_cols b acc : wf b -> inv b acc fen_squares -> cols acc = cols b.
Proof.
  intros W I. destruct I as [L1 L2 L3 Isq Ipcs Ip0 Iw Ib _].
  apply (nth_ext _ _ 0 0); [rewrite L3; symmetry; apply (wf_len_cols b W)|]. intros n Hn. rewrite L3 in Hn.
  destruct n as [|[|n]]; [| |lia].
  - change (colors acc White = colors b White). apply N.bits_inj. intros s.
    rewrite Iw, mem_fen_squares. unfold is_white.
    destruct (N.testbit (colors b White) s) eqn:T; [|rewrite andb_false_r; reflexivity].
    destruct (wf_white b W s T) as [H1 H2]. apply N.ltb_lt in H1. apply N.eqb_neq in H2. rewrite H1, H2. reflexivity.
  - change (colors acc Black = colors b Black). apply N.bits_inj. intros s.
    rewrite Ib, mem_fen_squares, (wf_black b W). reflexivity.
Qed.

(* the result of parsing the placement printed for a wf board *)
Theorem replay_rebuilds b : wf b ->
  fold_left (place_sq b) fen_squares empty_board =
  mkBoard (sq2p b) (pcs b) (cols b) [] 0%Z White 0 0 0%Z.
Proof.
  intros W. pose proof (inv_all b W) as I.
  pose proof (rebuild_sq2p b _ W I) as E1. pose proof (rebuild_pcs b _ W I) as E2.
  pose proof (rebuild_cols b _ W I) as E3.
  destruct I as [_ _ _ _ _ _ _ _ (R1 & R2 & R3 & R4 & R5 & R6)].
  revert E1 E2 E3 R1 R2 R3 R4 R5 R6.
  generalize (fold_left (place_sq b) fen_squares empty_board). intros acc.
  destruct acc as [a1 a2 a3 a4 a5 a6 a7 a8 a9]. cbn [sq2p pcs cols hashes full stm ep castles fifty].
  intros -> -> -> -> -> -> -> -> ->. reflexivity.
Qed.
