(* Model of the UCI driver's goroutines (uci/uci.go: Run, readInput, handleInput, writeOutput,
   handleCommand, handleGo with its interrupt goroutine) as an executable labelled transition
   system. Definitions only; the proofs are in Proofs/Uci*.v.

   Processes                          Go code
   ---------                          -------
   Reader  (rd)                       readInput + the deferred close(d.inputLines)        uci.go:144-147,161-170
   Handler (hd), runs the Search      handleInput / handleCommand / handleGo             uci.go:149-152,186-256,467-608
   Interrupter (it), one per go       the goroutine started in handleGo                   uci.go:530-588
   Writer  (out -> written)           writeOutput                                         uci.go:154-156,172-184
   Timer   (timer)                    hardTimer                                           uci.go:535-539,570-574
   Search  (fuel, ph_got)             d.search.Go, abstract                               search/search.go:40-145

   Channels: inputLines is a rendezvous between Reader (holding a line, RHold) and whichever of
   Handler (top level, HIdle) / Interrupter (in its select, ISel) takes it; closed = Reader is RDone.
   output is the FIFO [out] of capacity OutputBufDepth, closed by the Handler when its loop ends.
   stop is closed exactly when the Interrupter is IDone (defer close(stop)); searchFin is [fin];
   ponderHit (capacity 1) holds a token iff [ph_chan].

   Environment: the GUI's script is [script]; a line is read (LRead) only when the GUI would send
   it: "guarded" lines (uci, go, position, ucinewgame, setoption) only after the bestmove of every
   earlier go has appeared on stdout (seen_best = sent_go). Time is not modelled: a blocking mock or
   a long search simply has no enabled Search step; the timer may fire whenever it is armed. *)
From Coq Require Import ZArith Bool List Arith Lia PArith FMapPositive.
Import ListNotations.

(* ---------------------------------------------------------------------------------------------- *)
(* output lines (one buffer per Write call; atomic in the model) *)
Inductive item :=
| IId | IOpt | IUciok | IReadyok
| IInfo (i : nat)      (* an info line of search i *)
| IBest (i : nat)      (* the bestmove line of search i *)
| IAck (i : nat).      (* mock search only: "info string ponderhit i", printed on receiving the ponderhit *)

(* attributes of one go command *)
Record goattr := {
  g_ponder : bool;     (* "ponder" argument present *)
  g_timed : bool;      (* tc.timedMode(stm) *)
  g_selffin : bool;    (* the search comes to an end without being stopped (depth/nodes/soft time/MaxPlies) *)
  g_phgate : bool;     (* (mock) a pondering search finishes on its own only after it received the ponderhit *)
  g_ack : bool;        (* (mock) the search prints IAck when it receives the ponderhit *)
  g_infos : nat        (* upper bound on the number of info lines of the search *)
}.

Inductive cmd :=
| CUci | CIsready | CStop | CPonderhit | CQuit
| CGo (g : goattr)
| CSetPonder (b : bool)   (* setoption name Ponder value true|false *)
| CIdle                   (* position / ucinewgame / setoption Hash: sent between searches, no reply *)
| CNop.                   (* debug on|off: may be sent at any time, no reply *)

Inductive rstate := RIdle | RHold (c : cmd) | RDone.
Inductive hstate := HIdle | HEmit (l : list item) | HSearch | HJoin | HDone.
Inductive istate := IOff | ISel | IEmit | IDone.

Record state := {
  script : list cmd;      (* lines the GUI has not sent yet *)
  sent_go : nat;          (* GUI: go lines sent *)
  seen_best : nat;        (* GUI: bestmove lines seen on stdout *)
  rd : rstate;
  hd : hstate;
  d_ponder : bool;        (* d.ponder *)
  cur : nat;              (* number of go commands the handler has started = index of the current search *)
  cur_g : goattr;         (* its attributes; g_ponder here is the effective one (argument && d.ponder) *)
  fuel : nat;             (* info lines the current search may still print *)
  ph_got : bool;          (* the search has received the ponderhit (opts.PonderHit = nil) *)
  it : istate;
  timer : bool;           (* hardC armed *)
  ph_chan : bool;         (* a token sits in the ponderHit channel *)
  ph_sent : bool;         (* the interrupter has sent it (its ponderHit variable is nil) *)
  fin : bool;             (* searchFin closed *)
  out : list item;        (* d.output.channel *)
  out_closed : bool;
  wr_done : bool;         (* writeOutput returned *)
  written : list item     (* stdout, oldest first *)
}.

Definition set_script v (s : state) : state :=
  {| script := v; sent_go := sent_go s; seen_best := seen_best s; rd := rd s; hd := hd s; d_ponder := d_ponder s; cur := cur s; cur_g := cur_g s; fuel := fuel s; ph_got := ph_got s; it := it s; timer := timer s; ph_chan := ph_chan s; ph_sent := ph_sent s; fin := fin s; out := out s; out_closed := out_closed s; wr_done := wr_done s; written := written s |}.
Definition set_sent_go v (s : state) : state :=
  {| script := script s; sent_go := v; seen_best := seen_best s; rd := rd s; hd := hd s; d_ponder := d_ponder s; cur := cur s; cur_g := cur_g s; fuel := fuel s; ph_got := ph_got s; it := it s; timer := timer s; ph_chan := ph_chan s; ph_sent := ph_sent s; fin := fin s; out := out s; out_closed := out_closed s; wr_done := wr_done s; written := written s |}.
Definition set_seen_best v (s : state) : state :=
  {| script := script s; sent_go := sent_go s; seen_best := v; rd := rd s; hd := hd s; d_ponder := d_ponder s; cur := cur s; cur_g := cur_g s; fuel := fuel s; ph_got := ph_got s; it := it s; timer := timer s; ph_chan := ph_chan s; ph_sent := ph_sent s; fin := fin s; out := out s; out_closed := out_closed s; wr_done := wr_done s; written := written s |}.
Definition set_rd v (s : state) : state :=
  {| script := script s; sent_go := sent_go s; seen_best := seen_best s; rd := v; hd := hd s; d_ponder := d_ponder s; cur := cur s; cur_g := cur_g s; fuel := fuel s; ph_got := ph_got s; it := it s; timer := timer s; ph_chan := ph_chan s; ph_sent := ph_sent s; fin := fin s; out := out s; out_closed := out_closed s; wr_done := wr_done s; written := written s |}.
Definition set_hd v (s : state) : state :=
  {| script := script s; sent_go := sent_go s; seen_best := seen_best s; rd := rd s; hd := v; d_ponder := d_ponder s; cur := cur s; cur_g := cur_g s; fuel := fuel s; ph_got := ph_got s; it := it s; timer := timer s; ph_chan := ph_chan s; ph_sent := ph_sent s; fin := fin s; out := out s; out_closed := out_closed s; wr_done := wr_done s; written := written s |}.
Definition set_d_ponder v (s : state) : state :=
  {| script := script s; sent_go := sent_go s; seen_best := seen_best s; rd := rd s; hd := hd s; d_ponder := v; cur := cur s; cur_g := cur_g s; fuel := fuel s; ph_got := ph_got s; it := it s; timer := timer s; ph_chan := ph_chan s; ph_sent := ph_sent s; fin := fin s; out := out s; out_closed := out_closed s; wr_done := wr_done s; written := written s |}.
Definition set_cur v (s : state) : state :=
  {| script := script s; sent_go := sent_go s; seen_best := seen_best s; rd := rd s; hd := hd s; d_ponder := d_ponder s; cur := v; cur_g := cur_g s; fuel := fuel s; ph_got := ph_got s; it := it s; timer := timer s; ph_chan := ph_chan s; ph_sent := ph_sent s; fin := fin s; out := out s; out_closed := out_closed s; wr_done := wr_done s; written := written s |}.
Definition set_cur_g v (s : state) : state :=
  {| script := script s; sent_go := sent_go s; seen_best := seen_best s; rd := rd s; hd := hd s; d_ponder := d_ponder s; cur := cur s; cur_g := v; fuel := fuel s; ph_got := ph_got s; it := it s; timer := timer s; ph_chan := ph_chan s; ph_sent := ph_sent s; fin := fin s; out := out s; out_closed := out_closed s; wr_done := wr_done s; written := written s |}.
Definition set_fuel v (s : state) : state :=
  {| script := script s; sent_go := sent_go s; seen_best := seen_best s; rd := rd s; hd := hd s; d_ponder := d_ponder s; cur := cur s; cur_g := cur_g s; fuel := v; ph_got := ph_got s; it := it s; timer := timer s; ph_chan := ph_chan s; ph_sent := ph_sent s; fin := fin s; out := out s; out_closed := out_closed s; wr_done := wr_done s; written := written s |}.
Definition set_ph_got v (s : state) : state :=
  {| script := script s; sent_go := sent_go s; seen_best := seen_best s; rd := rd s; hd := hd s; d_ponder := d_ponder s; cur := cur s; cur_g := cur_g s; fuel := fuel s; ph_got := v; it := it s; timer := timer s; ph_chan := ph_chan s; ph_sent := ph_sent s; fin := fin s; out := out s; out_closed := out_closed s; wr_done := wr_done s; written := written s |}.
Definition set_it v (s : state) : state :=
  {| script := script s; sent_go := sent_go s; seen_best := seen_best s; rd := rd s; hd := hd s; d_ponder := d_ponder s; cur := cur s; cur_g := cur_g s; fuel := fuel s; ph_got := ph_got s; it := v; timer := timer s; ph_chan := ph_chan s; ph_sent := ph_sent s; fin := fin s; out := out s; out_closed := out_closed s; wr_done := wr_done s; written := written s |}.
Definition set_timer v (s : state) : state :=
  {| script := script s; sent_go := sent_go s; seen_best := seen_best s; rd := rd s; hd := hd s; d_ponder := d_ponder s; cur := cur s; cur_g := cur_g s; fuel := fuel s; ph_got := ph_got s; it := it s; timer := v; ph_chan := ph_chan s; ph_sent := ph_sent s; fin := fin s; out := out s; out_closed := out_closed s; wr_done := wr_done s; written := written s |}.
Definition set_ph_chan v (s : state) : state :=
  {| script := script s; sent_go := sent_go s; seen_best := seen_best s; rd := rd s; hd := hd s; d_ponder := d_ponder s; cur := cur s; cur_g := cur_g s; fuel := fuel s; ph_got := ph_got s; it := it s; timer := timer s; ph_chan := v; ph_sent := ph_sent s; fin := fin s; out := out s; out_closed := out_closed s; wr_done := wr_done s; written := written s |}.
Definition set_ph_sent v (s : state) : state :=
  {| script := script s; sent_go := sent_go s; seen_best := seen_best s; rd := rd s; hd := hd s; d_ponder := d_ponder s; cur := cur s; cur_g := cur_g s; fuel := fuel s; ph_got := ph_got s; it := it s; timer := timer s; ph_chan := ph_chan s; ph_sent := v; fin := fin s; out := out s; out_closed := out_closed s; wr_done := wr_done s; written := written s |}.
Definition set_fin v (s : state) : state :=
  {| script := script s; sent_go := sent_go s; seen_best := seen_best s; rd := rd s; hd := hd s; d_ponder := d_ponder s; cur := cur s; cur_g := cur_g s; fuel := fuel s; ph_got := ph_got s; it := it s; timer := timer s; ph_chan := ph_chan s; ph_sent := ph_sent s; fin := v; out := out s; out_closed := out_closed s; wr_done := wr_done s; written := written s |}.
Definition set_out v (s : state) : state :=
  {| script := script s; sent_go := sent_go s; seen_best := seen_best s; rd := rd s; hd := hd s; d_ponder := d_ponder s; cur := cur s; cur_g := cur_g s; fuel := fuel s; ph_got := ph_got s; it := it s; timer := timer s; ph_chan := ph_chan s; ph_sent := ph_sent s; fin := fin s; out := v; out_closed := out_closed s; wr_done := wr_done s; written := written s |}.
Definition set_out_closed v (s : state) : state :=
  {| script := script s; sent_go := sent_go s; seen_best := seen_best s; rd := rd s; hd := hd s; d_ponder := d_ponder s; cur := cur s; cur_g := cur_g s; fuel := fuel s; ph_got := ph_got s; it := it s; timer := timer s; ph_chan := ph_chan s; ph_sent := ph_sent s; fin := fin s; out := out s; out_closed := v; wr_done := wr_done s; written := written s |}.
Definition set_wr_done v (s : state) : state :=
  {| script := script s; sent_go := sent_go s; seen_best := seen_best s; rd := rd s; hd := hd s; d_ponder := d_ponder s; cur := cur s; cur_g := cur_g s; fuel := fuel s; ph_got := ph_got s; it := it s; timer := timer s; ph_chan := ph_chan s; ph_sent := ph_sent s; fin := fin s; out := out s; out_closed := out_closed s; wr_done := v; written := written s |}.
Definition set_written v (s : state) : state :=
  {| script := script s; sent_go := sent_go s; seen_best := seen_best s; rd := rd s; hd := hd s; d_ponder := d_ponder s; cur := cur s; cur_g := cur_g s; fuel := fuel s; ph_got := ph_got s; it := it s; timer := timer s; ph_chan := ph_chan s; ph_sent := ph_sent s; fin := fin s; out := out s; out_closed := out_closed s; wr_done := wr_done s; written := v |}.

Inductive label :=
| LRead | LEof                                                   (* GUI + Reader *)
| LRecvTop | LEmit | LInfo | LPoll | LFin | LJoin | LHClose      (* Handler (with the Search inside) *)
| LRecvInt | LIntEmit | LIntFin | LIntTimer | LIntEof            (* Interrupter (+ Timer) *)
| LWrite | LWDone.                                               (* Writer *)

Definition all_labels : list label :=
  [LRead; LEof; LRecvTop; LEmit; LInfo; LPoll; LFin; LJoin; LHClose;
   LRecvInt; LIntEmit; LIntFin; LIntTimer; LIntEof; LWrite; LWDone].

Definition out_cap : nat := 4.   (* OutputBufDepth, uci.go:30 *)

Definition full (s : state) : bool := out_cap <=? length (out s).

Definition guarded (c : cmd) : bool :=
  match c with CUci | CGo _ | CSetPonder _ | CIdle => true | _ => false end.

Definition stop_closed (s : state) : bool := match it s with IDone => true | _ => false end.

(* may d.search.Go return now? *)
Definition fin_ok (s : state) : bool :=
  let g := cur_g s in
  stop_closed s || (g_selffin g && (negb (g_phgate g && g_ponder g) || ph_got s)).

Definition guard (s : state) (l : label) : bool :=
  match l with
  | LRead => match rd s, script s with
             | RIdle, c :: _ => negb (guarded c) || (seen_best s =? sent_go s)
             | _, _ => false end
  | LEof => match rd s, script s with RIdle, [] => true | _, _ => false end
  | LRecvTop => match hd s, rd s with HIdle, RHold _ => true | _, _ => false end
  | LEmit => match hd s with HEmit (_ :: _) => negb (full s) | _ => false end
  | LInfo => match hd s with HSearch => (0 <? fuel s) && negb (full s) | _ => false end
  | LPoll => match hd s with HSearch => ph_chan s && negb (g_ack (cur_g s) && full s) | _ => false end
  | LFin => match hd s with HSearch => fin_ok s | _ => false end
  | LJoin => match hd s, it s with HJoin, IDone => true | _, _ => false end
  | LHClose => match hd s, rd s with HIdle, RDone => true | _, _ => false end
  | LRecvInt => match it s, rd s with ISel, RHold _ => true | _, _ => false end
  | LIntEmit => match it s with IEmit => negb (full s) | _ => false end
  | LIntFin => match it s with ISel => fin s | _ => false end
  | LIntTimer => match it s with ISel => timer s | _ => false end
  | LIntEof => match it s, rd s with ISel, RDone => true | _, _ => false end
  | LWrite => match out s with _ :: _ => negb (wr_done s) | [] => false end
  | LWDone => match out s with [] => out_closed s && negb (wr_done s) | _ => false end
  end.

Definition enabled (s : state) : list label := filter (guard s) all_labels.

Definition enq (x : item) (s : state) : state := set_out (out s ++ [x]) s.

(* uci.go:200-208: seven Write calls (the sixth is params.UCIOptions(), possibly empty) *)
Definition uci_reply : list item := [IId; IId; IOpt; IOpt; IOpt; IOpt; IUciok].

Definition after_emit (l : list item) : hstate := match l with [] => HIdle | _ => HEmit l end.

Definition eff (g : goattr) (dp : bool) : goattr :=
  {| g_ponder := g_ponder g && dp; g_timed := g_timed g; g_selffin := g_selffin g;
     g_phgate := g_phgate g; g_ack := g_ack g; g_infos := g_infos g |}.

(* uci.go:467-588 up to the call of d.search.Go; c is the go line being taken from the reader.
   (Every step below builds its successor with one record expression.) *)
Definition after_deliver (c : cmd) : rstate := match c with CQuit => RDone | _ => RIdle end.

Definition start_search (g : goattr) (c : cmd) (s : state) : state :=
  let ge := eff g (d_ponder s) in
  {| script := script s; sent_go := sent_go s; seen_best := seen_best s; rd := after_deliver c;
     hd := HSearch; d_ponder := d_ponder s; cur := S (cur s); cur_g := ge; fuel := g_infos g;
     ph_got := false; it := ISel; timer := g_timed ge && negb (g_ponder ge); ph_chan := false;
     ph_sent := false; fin := false; out := out s; out_closed := out_closed s;
     wr_done := wr_done s; written := written s |}.

Definition step (s : state) (l : label) : state :=
  match l with
  | LRead =>
      match script s with
      | c :: r =>
          {| script := r; sent_go := match c with CGo _ => S (sent_go s) | _ => sent_go s end;
             seen_best := seen_best s; rd := RHold c; hd := hd s; d_ponder := d_ponder s;
             cur := cur s; cur_g := cur_g s; fuel := fuel s; ph_got := ph_got s; it := it s;
             timer := timer s; ph_chan := ph_chan s; ph_sent := ph_sent s; fin := fin s;
             out := out s; out_closed := out_closed s; wr_done := wr_done s; written := written s |}
      | [] => s
      end
  | LEof => set_rd RDone s
  | LRecvTop =>                                  (* handleCommand, uci.go:192-256 *)
      match rd s with
      | RHold c =>
          match c with
          | CUci => set_hd (HEmit uci_reply) (set_rd (after_deliver c) s)
          | CIsready => set_hd (HEmit [IReadyok]) (set_rd (after_deliver c) s)
          | CGo g => start_search g c s
          | CSetPonder b => set_d_ponder b (set_rd (after_deliver c) s)
          | _ => set_rd (after_deliver c) s
          end
      | _ => s
      end
  | LEmit =>
      match hd s with
      | HEmit (x :: r) => set_hd (after_emit r) (enq x s)
      | _ => s
      end
  | LInfo => set_fuel (pred (fuel s)) (enq (IInfo (cur s)) s)
  | LPoll =>
      {| script := script s; sent_go := sent_go s; seen_best := seen_best s; rd := rd s;
         hd := hd s; d_ponder := d_ponder s; cur := cur s; cur_g := cur_g s; fuel := fuel s;
         ph_got := true; it := it s; timer := timer s; ph_chan := false; ph_sent := ph_sent s;
         fin := fin s; out := if g_ack (cur_g s) then out s ++ [IAck (cur s)] else out s;
         out_closed := out_closed s; wr_done := wr_done s; written := written s |}
  | LFin => set_fin true (set_hd HJoin s)        (* Go returns; close(searchFin) *)
  | LJoin =>                                     (* wg.Wait() over; bestmove; deferred close(ponderHit) *)
      {| script := script s; sent_go := sent_go s; seen_best := seen_best s; rd := rd s;
         hd := HEmit [IBest (cur s)]; d_ponder := d_ponder s; cur := cur s; cur_g := cur_g s;
         fuel := fuel s; ph_got := ph_got s; it := IOff; timer := false; ph_chan := false;
         ph_sent := ph_sent s; fin := fin s; out := out s; out_closed := out_closed s;
         wr_done := wr_done s; written := written s |}
  | LHClose => set_out_closed true (set_hd HDone s)
  | LRecvInt =>                                  (* uci.go:555-586 *)
      match rd s with
      | RHold c =>
          match c with
          | CIsready => set_it IEmit (set_rd (after_deliver c) s)
          | CStop | CQuit => set_it IDone (set_rd (after_deliver c) s)
          | CPonderhit =>
              let g := cur_g s in
              let send := g_ponder g && negb (ph_sent s) in
              {| script := script s; sent_go := sent_go s; seen_best := seen_best s;
                 rd := after_deliver c; hd := hd s; d_ponder := d_ponder s; cur := cur s;
                 cur_g := cur_g s; fuel := fuel s; ph_got := ph_got s; it := it s;
                 timer := if g_ponder g && g_timed g then true else timer s;
                 ph_chan := if send then true else ph_chan s;
                 ph_sent := if send then true else ph_sent s; fin := fin s; out := out s;
                 out_closed := out_closed s; wr_done := wr_done s; written := written s |}
          | _ => set_rd (after_deliver c) s
          end
      | _ => s
      end
  | LIntEmit => set_it ISel (enq IReadyok s)
  | LIntFin | LIntTimer | LIntEof => set_it IDone s
  | LWrite =>
      match out s with
      | x :: q =>
          {| script := script s; sent_go := sent_go s;
             seen_best := match x with IBest _ => S (seen_best s) | _ => seen_best s end;
             rd := rd s; hd := hd s; d_ponder := d_ponder s; cur := cur s; cur_g := cur_g s;
             fuel := fuel s; ph_got := ph_got s; it := it s; timer := timer s;
             ph_chan := ph_chan s; ph_sent := ph_sent s; fin := fin s; out := q;
             out_closed := out_closed s; wr_done := wr_done s; written := written s ++ [x] |}
      | [] => s
      end
  | LWDone => set_wr_done true s
  end.

Definition no_go : goattr :=
  {| g_ponder := false; g_timed := false; g_selffin := true; g_phgate := false; g_ack := false; g_infos := 0 |}.

Definition init (sc : list cmd) : state :=
  {| script := sc; sent_go := 0; seen_best := 0; rd := RIdle; hd := HIdle; d_ponder := false;
     cur := 0; cur_g := no_go; fuel := 0; ph_got := false; it := IOff; timer := false;
     ph_chan := false; ph_sent := false; fin := false; out := []; out_closed := false;
     wr_done := false; written := [] |}.

(* Run has returned: the three pipeline goroutines are finished, no interrupter is left, every
   channel is closed and drained *)
Definition terminal (s : state) : bool :=
  match rd s, hd s, it s with
  | RDone, HDone, IOff => wr_done s && out_closed s && match out s with [] => true | _ => false end
  | _, _, _ => false
  end.

(* ---------------------------------------------------------------------------------------------- *)
(* Runs: any interleaving of enabled steps is a path; a schedule is the list of labels taken. *)
Inductive steps : state -> list label -> state -> Prop :=
| steps_nil : forall s, steps s [] s
| steps_cons : forall s l ls s', guard s l = true -> steps (step s l) ls s' -> steps s (l :: ls) s'.

Definition reachable (sc : list cmd) (s : state) : Prop := exists ls, steps (init sc) ls s.

(* a run that cannot be extended *)
Definition maximal (s : state) : Prop := enabled s = [].

(* ---------------------------------------------------------------------------------------------- *)
(* Conforming scripts. What the GUI still owes a running search before it may wait for bestmove. *)
Inductive need := NeedNone | NeedPh | NeedStop.

Definition need_of (g : goattr) : need :=
  if g_selffin g then (if g_phgate g && g_ponder g then NeedPh else NeedNone)
  else if g_timed g then (if g_ponder g then NeedPh else NeedNone)
  else NeedStop.

Fixpoint conf (n : need) (l : list cmd) : bool :=
  match l with
  | [] => true                       (* end of input stops the search *)
  | c :: r =>
      match c with
      | CQuit => match r with [] => true | _ => false end      (* quit is the last line *)
      | CStop => conf NeedNone r
      | CPonderhit => conf (match n with NeedPh => NeedNone | _ => n end) r
      | CIsready | CNop => conf n r
      | CGo g => match n with NeedNone => conf (need_of g) r | _ => false end
      | CUci | CSetPonder _ | CIdle => match n with NeedNone => conf NeedNone r | _ => false end
      end
  end.

Definition conforming (sc : list cmd) : bool := conf NeedNone sc.

(* ---------------------------------------------------------------------------------------------- *)
(* Termination measure: strictly decreases on every enabled step (Proofs/UciTerm.v). *)
Definition cmd_w (c : cmd) : nat :=
  match c with
  | CUci => 16
  | CGo g => 2 * g_infos g + 8
  | _ => 4
  end.

Definition script_w (l : list cmd) : nat := fold_right (fun c a => cmd_w c + a) 0 l.

Definition mu (s : state) : nat :=
  script_w (script s)
  + match rd s with RIdle => 1 | RHold c => cmd_w c | RDone => 0 end
  + match hd s with HIdle => 1 | HEmit l => 1 + 2 * length l | HSearch => 5 | HJoin => 4 | HDone => 0 end
  + 2 * fuel s
  + match it s with IOff => 0 | IDone => 1 | ISel => 2 | IEmit => 4 end
  + (if ph_chan s then 2 else 0)
  + length (out s)
  + (if wr_done s then 0 else 1).

(* ---------------------------------------------------------------------------------------------- *)
(* Trace acceptance: is the observed stdout one of the outcomes the LTS admits for the script?
   Depth-first search of the product (model state, unread part of the observation), memoising the
   product states from which no accepting run exists. [seen] holds, per script line, how many
   output lines the GUI had received when it sent the line (a lower bound on the writes that
   precede the read in any run that explains the observation). Runs of IOpt are collapsed on the
   observation side (the harness reports "one or more option lines" as one token). *)

Definition item_eqb (a b : item) : bool :=
  match a, b with
  | IId, IId | IOpt, IOpt | IUciok, IUciok | IReadyok, IReadyok => true
  | IInfo i, IInfo j | IBest i, IBest j | IAck i, IAck j => i =? j
  | _, _ => false
  end.

Definition is_opt (x : item) : bool := match x with IOpt => true | _ => false end.

Record pstate := {
  ps : state;
  obs : list item;       (* observation not yet matched *)
  nread : nat;           (* script lines read so far *)
  lastopt : bool         (* the last matched write was an option line *)
}.

Section Accept.
Variable total : nat.          (* length of the whole observation *)
Variable seen : list nat.

Definition psucc (p : pstate) (l : label) : option pstate :=
  let s := ps p in
  match l with
  | LWrite =>
      match out s with
      | x :: _ =>
          if is_opt x && lastopt p then
            Some {| ps := set_written [] (step s l); obs := obs p; nread := nread p; lastopt := true |}
          else match obs p with
               | y :: r => if item_eqb x y
                           then Some {| ps := set_written [] (step s l); obs := r; nread := nread p; lastopt := is_opt x |}
                           else None
               | [] => None
               end
      | [] => None
      end
  | LRead =>
      if nth (nread p) seen 0 <=? total - length (obs p)
      then Some {| ps := step s l; obs := obs p; nread := S (nread p); lastopt := lastopt p |}
      else None
  | _ => Some {| ps := step s l; obs := obs p; nread := nread p; lastopt := lastopt p |}
  end.

Definition pterminal (p : pstate) : bool :=
  terminal (ps p) && match obs p with [] => true | _ => false end.

(* injective packing of a product state into a positive (fixed-width fields pushed bit by bit) *)
Fixpoint pushbits (w : nat) (v : N) (acc : positive) : positive :=
  match w with
  | O => acc
  | S w' => pushbits w' (N.div2 v) (if N.odd v then xI acc else xO acc)
  end.
Definition pushn (n : nat) (acc : positive) : positive := pushbits 12 (N.of_nat n) acc.
Definition pushb (b : bool) (acc : positive) : positive := if b then xI acc else xO acc.

Definition item_code (x : item) : nat * nat :=
  match x with
  | IId => (1, 0) | IOpt => (2, 0) | IUciok => (3, 0) | IReadyok => (4, 0)
  | IInfo i => (5, i) | IBest i => (6, i) | IAck i => (7, i)
  end.
Definition pushitem (x : item) (acc : positive) : positive :=
  let '(k, i) := item_code x in pushbits 3 (N.of_nat k) (pushn i acc).
Definition pushitems (l : list item) (acc : positive) : positive :=
  pushn (length l) (fold_right pushitem acc l).

Definition key (p : pstate) : positive :=
  let s := ps p in
  let a := xH in
  let a := pushn (length (script s)) a in
  let a := pushn (length (obs p)) a in
  let a := pushb (lastopt p) a in
  let a := pushbits 2 (match rd s with RIdle => 0 | RHold _ => 1 | RDone => 2 end)%N a in
  let a := match hd s with
           | HIdle => pushbits 3 0%N a
           | HEmit l => pushbits 3 1%N (pushitems l a)
           | HSearch => pushbits 3 2%N a
           | HJoin => pushbits 3 3%N a
           | HDone => pushbits 3 4%N a
           end in
  let a := pushb (d_ponder s) a in
  let a := pushn (cur s) a in
  let a := pushn (fuel s) a in
  let a := pushb (ph_got s) a in
  let a := pushbits 2 (match it s with IOff => 0 | ISel => 1 | IEmit => 2 | IDone => 3 end)%N a in
  let a := pushb (timer s) a in
  let a := pushb (ph_chan s) a in
  let a := pushb (ph_sent s) a in
  let a := pushb (fin s) a in
  let a := pushitems (out s) a in
  let a := pushb (out_closed s) a in
  pushb (wr_done s) a.

Definition memo := PositiveMap.t unit.

(* try the successors of p along the labels ls, threading the memo through *)
Fixpoint try_list (f : pstate -> memo -> bool * memo) (p : pstate) (ls : list label) (m : memo)
  : bool * memo :=
  match ls with
  | [] => (false, m)
  | l :: ls' =>
      match psucc p l with
      | None => try_list f p ls' m
      | Some p' => let '(r, m') := f p' m in
                   if r then (true, m') else try_list f p ls' m'
      end
  end.

Fixpoint dfs (n : nat) (p : pstate) (m : memo) : bool * memo :=
  match n with
  | O => (false, m)
  | S n' =>
      if pterminal p then (true, m) else
      let k := key p in
      match PositiveMap.find k m with
      | Some _ => (false, m)
      | None =>
          let '(r, m1) := try_list (dfs n') p (enabled (ps p)) m in
          if r then (true, m1) else (false, PositiveMap.add k tt m1)
      end
  end.
End Accept.

Definition accepts (sc : list cmd) (ob : list item) (seen : list nat) : bool :=
  let p0 := {| ps := init sc; obs := ob; nread := 0; lastopt := false |} in
  fst (dfs (length ob) seen (S (mu (init sc))) p0 (PositiveMap.empty unit)).

(* ---------------------------------------------------------------------------------------------- *)
(* Wire format of the c13 stream.
   input  = n :: mode :: unit :: tail :: n records [code; a; b; c; delay; dur]
            code 1 uci, 2 isready, 3 stop, 4 ponderhit, 5 quit, 6 go (a = flags: 1 ponder argument,
            2 timed, 4 finishes on its own, 8 ponderhit gate, 16 ponderhit ack; b = bound on info lines),
            7 position/ucinewgame/setoption Hash, 8 setoption Ponder (a = 0/1), 9 debug;
            c (text variant), delay, dur, mode, unit, tail concern the harness only.
   output = ret :: gor :: crash :: nout :: nout tokens (kind + 16 * search index; kinds 1 id, 2 option,
            3 uciok, 4 readyok, 5 info, 6 bestmove, 7 ponderhit ack, 8 anything else)
            ++ nseen :: nseen numbers. *)
Open Scope Z_scope.

Definition dec_cmd (code a b : Z) : cmd :=
  if code =? 1 then CUci else if code =? 2 then CIsready else if code =? 3 then CStop
  else if code =? 4 then CPonderhit else if code =? 5 then CQuit
  else if code =? 6 then
    CGo {| g_ponder := Z.testbit a 0; g_timed := Z.testbit a 1; g_selffin := Z.testbit a 2;
           g_phgate := Z.testbit a 3; g_ack := Z.testbit a 4; g_infos := Z.to_nat b |}
  else if code =? 7 then CIdle
  else if code =? 8 then CSetPonder (negb (a =? 0))
  else CNop.

Fixpoint dec_lines (n : nat) (l : list Z) : option (list cmd * list Z) :=
  match n with
  | O => Some ([], l)
  | S n' =>
      match l with
      | code :: a :: b :: _ :: _ :: _ :: r =>
          match dec_lines n' r with
          | Some (cs, r') => Some (dec_cmd code a b :: cs, r')
          | None => None
          end
      | _ => None
      end
  end.

Definition dec_item (z : Z) : option item :=
  let k := z mod 16 in
  let i := Z.to_nat (z / 16) in
  if k =? 1 then Some IId else if k =? 2 then Some IOpt else if k =? 3 then Some IUciok
  else if k =? 4 then Some IReadyok else if k =? 5 then Some (IInfo i)
  else if k =? 6 then Some (IBest i) else if k =? 7 then Some (IAck i) else None.

Fixpoint dec_items (n : nat) (l : list Z) : option (list item * list Z) :=
  match n with
  | O => Some ([], l)
  | S n' =>
      match l with
      | z :: r =>
          match dec_item z, dec_items n' r with
          | Some x, Some (xs, r') => Some (x :: xs, r')
          | _, _ => None
          end
      | [] => None
      end
  end.

(* [1] accepted; [0;1] malformed; [0;2] the run did not end normally (nothing to match);
   [0;3] the model has no run with this output; [0;4] an output line of unknown shape *)
Definition accepts_c13 (io : list Z) : list Z :=
  match io with
  | n :: _ :: _ :: _ :: rest =>
      match dec_lines (Z.to_nat n) rest with
      | Some (sc, ret :: gor :: crash :: nout :: rest1) =>
          if negb ((ret =? 1) && (crash =? 0)) then [0; 2] else
          match dec_items (Z.to_nat nout) rest1 with
          | Some (ob, _ :: seen) =>
              if accepts sc ob (map Z.to_nat seen) then [1] else [0; 3]
          | Some (_, []) => [0; 1]
          | None => [0; 4]
          end
      | _ => [0; 1]
      end
  | _ => [0; 1]
  end.
