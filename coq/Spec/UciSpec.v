(* C13, read off the property text, directly on one observation of the real driver (no transition
   system involved; independent of Model/Uci.v):

     the driver neither crashes nor races, Run returns and its goroutines are gone,
     every go is answered by exactly one bestmove that comes after all info lines of that search,
     every isready by exactly one readyok, every output line is a well-formed line of a known kind.

   Wire format (harness/streams/c13.go):
   input  = n :: mode :: unit :: tail :: n records [code; a; b; c; delay; dur]
            code 1 uci, 2 isready, 3 stop, 4 ponderhit, 5 quit, 6 go, 7 position/ucinewgame/setoption,
            8 setoption Ponder, 9 debug
   output = ret :: gor :: crash :: nout :: nout tokens ++ nseen :: nseen numbers
            ret = 1 Run returned before the deadline; gor = 1 goroutine count back to the baseline;
            crash = 0 none, 1 panic / fatal error, 2 data race reported by the race detector;
            token = kind + 16 * search index; kinds 1 id, 2 option(s), 3 uciok, 4 readyok, 5 info,
            6 bestmove, 7 ponderhit acknowledgement of the mock search, 8 anything else (torn, unknown). *)
From Coq Require Import ZArith Bool List.
Import ListNotations.
Open Scope Z_scope.

(* the command codes of the script: every 6th number of the records *)
Fixpoint codes (n : nat) (l : list Z) : list Z * list Z :=
  match n with
  | O => ([], l)
  | S n' =>
      match l with
      | code :: _ :: _ :: _ :: _ :: _ :: r => let '(cs, r') := codes n' r in (code :: cs, r')
      | _ => ([], [])
      end
  end.

Definition count (k : Z) (l : list Z) : Z := Z.of_nat (length (filter (Z.eqb k) l)).

(* quit, if present, is the last line (what a script must satisfy to be in the property's domain) *)
Fixpoint quit_last (cs : list Z) : bool :=
  match cs with
  | [] => true
  | c :: r => if c =? 5 then match r with [] => true | _ => false end else quit_last r
  end.

Definition kind (t : Z) : Z := t mod 16.
Definition index (t : Z) : Z := t / 16.

Definition known (t : Z) : bool := (1 <=? kind t) && (kind t <=? 7) && (0 <=? t).

(* Left to right over stdout. hi = number of bestmove lines so far, ack = the current search has
   acknowledged a ponderhit. bestmove must carry index hi+1; info / ack lines must belong to search
   hi+1, i.e. come after bestmove hi and before bestmove hi+1. Result: final hi, or the failed clause. *)
Fixpoint scan (hi : Z) (ack : bool) (ts : list Z) : Z + Z :=
  match ts with
  | [] => inl hi
  | t :: r =>
      if kind t =? 6 then (if index t =? hi + 1 then scan (hi + 1) false r else inr 6)
      else if kind t =? 5 then (if index t =? hi + 1 then scan hi ack r else inr 7)
      else if kind t =? 7 then (if (index t =? hi + 1) && negb ack then scan hi true r else inr 10)
      else scan hi ack r
  end.

Definition judge_c13 (io : list Z) : list Z :=
  match io with
  | n :: _ :: _ :: _ :: rest =>
      let '(cs, rest1) := codes (Z.to_nat n) rest in
      if negb (Z.of_nat (length cs) =? n) then [0; 99] else
      if negb (quit_last cs) then [1] else
      match rest1 with
      | ret :: gor :: crash :: nout :: rest2 =>
          let ts := firstn (Z.to_nat nout) rest2 in
          if crash =? 2 then [0; 2]
          else if negb (crash =? 0) then [0; 1]
          else if negb (ret =? 1) then [0; 3]
          else if negb (gor =? 1) then [0; 4]
          else if negb (Z.of_nat (length ts) =? nout) then [0; 99]
          else if negb (forallb known ts) then [0; 5]
          else match scan 0 false ts with
               | inr c => [0; c]
               | inl hi =>
                   if negb (hi =? count 6 cs) then [0; 6]
                   else if negb (count 4 (map kind ts) =? count 2 cs) then [0; 8]
                   else if negb ((count 3 (map kind ts) =? count 1 cs) && (count 1 (map kind ts) =? 2 * count 1 cs)
                                 && (count 2 (map kind ts) =? count 1 cs)) then [0; 9]
                   else if negb (count 7 (map kind ts) <=? count 4 cs) then [0; 10]
                   else [1]
               end
      | _ => [0; 99]
      end
  | _ => [0; 99]
  end.
