(* All correspondence entry points, extracted to OCaml as build/modelrun.
   Every stream is a function list Z -> list Z; the generic driver (Extract/driver.ml) reads one
   case per line and prints the model's answer. Only ExtrOcamlBasic is used: N, Z, positive and nat
   stay inductive. *)
From Coq Require Import ZArith List.
From Coq Require Extraction ExtrOcamlBasic.
From Chess3 Require Export Model.TimeCtl.
From Chess3 Require Export Model.BoardDef.
From Chess3 Require Export Model.BoardStreams.
From Chess3 Require Export Spec.ChessJudge.
From Chess3 Require Export Spec.PerftSpec.
From Chess3 Require Export Spec.C01Judge.

Extraction Language OCaml.
