(* C01: the same in every position reached from a valid one by a line of legal moves. *)
From Coq Require Import NArith ZArith List Bool Lia.
From Chess3 Require Import Base.Bits Model.Types Spec.Geometry Model.Att Model.BoardDef Model.Board
  Model.Movegen Spec.Chess Spec.Rep Spec.Play Proofs.GenBase Proofs.GenRep Proofs.GenLegal Proofs.GenSpec
  Proofs.GenTop Proofs.GenReach.
Import ListNotations.
Open Scope N_scope.

(* reached by play *)
Lemma run_inv z ms : forall b, MRep b -> valid (abs b) = true -> legal_line z b ms ->
  MRep (run z b ms) /\ valid (abs (run z b ms)) = true.
Proof.
  induction ms as [|m r IH]; intros b HM HV HL; cbn [run]; [tauto|].
  cbn [legal_line] in HL. destruct HL as [L1 L2].
  assert (P : pseudo_spec (abs b) m = true) by (unfold legal_spec in L1; apply andb_true_iff in L1; tauto).
  apply IH; [apply make_MRep; assumption|apply make_valid; assumption|exact L2].
Qed.

Theorem playable_legal_reach : forall z b0 ms, Rep b0 -> valid (abs b0) = true -> legal_line z b0 ms ->
  valid (abs (run z b0 ms)) = true /\
  (forall m, In m (playable z (run z b0 ms)) <-> In m (legal_moves (abs (run z b0 ms)))) /\
  NoDup (playable z (run z b0 ms)).
Proof.
  intros z b0 ms HR HV HL. destruct (run_inv z ms b0 (Rep_MRep b0 HR) HV HL) as [HM HV'].
  split; [exact HV'|]. destruct (playable_legal_M z _ HM HV') as [A B]. split; [|exact B].
  intros m. rewrite in_legal_moves. apply A.
Qed.
