(* Property C19 (a): with the SHIPPED coefficients no accumulator of the integer evaluation leaves the
   int16 range on any valid position - the hypothesis [no_wrap] of the envelope theorem is a theorem.

   Proofs/EvalBound.v bounds every accumulator by an expression in the coefficient tables that is linear
   in the numbers of pawns / knights / bishops / rooks / queens of the colour.  Here the tables are the
   generated ones (Gen/Coeffs.v): the table ranges become numerals (vm_compute), the material rule of
   [valid] (one king, pawns + promoted excess <= 8) bounds the counts, and lia finishes.  A retuned
   coefficient set for which the bound no longer fits makes this file fail - which is the intended
   behaviour (the envelope theorem would lose its footing). *)
From Coq Require Import NArith ZArith List Bool Lia Permutation.
From Chess3 Require Import Base.Bits Base.Word Model.Types Model.Att Model.BoardDef Gen.Coeffs
  Model.Eval Model.EvalU Spec.Chess Spec.Rep Proofs.MateGeom Proofs.MateAbs Proofs.HashInv Proofs.GenCastle
  Proofs.EvalMorph Proofs.EvalBound.
Import ListNotations.
Open Scope Z_scope.

(* ------------------------------------------------------------------------------------------ *)
(* the piece counts of the spec are the population counts of the bitboards *)

Lemma count_abs b c k : Rep b -> (1 <= k <= 6)%N -> count (abs b) c k = nn b c k.
Proof.
  intros HR Hk. unfold count, nn. rewrite cnt_len. f_equal.
  rewrite (filter_ext_in (fun s => holds (abs b) s c k) (N.testbit (band (pieces b k) (colors b c)))).
  - symmetry. apply Permutation_length, bits_of_perm. apply band_w64p_l. exact (pieces_lt b HR k).
  - intros s Hs. apply squares64_spec in Hs. rewrite (holds_abs b HR s c k Hs Hk), band_testbit. reflexivity.
Qed.

Definition material (b : board) (c : color) : Prop :=
  0 <= nn b c Pawn /\ 0 <= nn b c Knight /\ 0 <= nn b c Bishop /\ 0 <= nn b c Rook /\ 0 <= nn b c Queen /\
  nn b c Pawn + Z.max 0 (nn b c Knight - 2) + Z.max 0 (nn b c Bishop - 2) + Z.max 0 (nn b c Rook - 2)
  + Z.max 0 (nn b c Queen - 1) <= 8.

Lemma material_of_valid b c : Rep b -> valid (abs b) = true -> material b c.
Proof.
  intros HR HV. pose proof (valid_material (abs b) c HV) as HM. rewrite material_ok_unfold in HM.
  apply andb_prop in HM. destruct HM as [_ HM]. apply Z.leb_le in HM.
  rewrite (count_abs b c Pawn HR) in HM by (cbv; split; discriminate).
  rewrite (count_abs b c Knight HR) in HM by (cbv; split; discriminate).
  rewrite (count_abs b c Bishop HR) in HM by (cbv; split; discriminate).
  rewrite (count_abs b c Rook HR) in HM by (cbv; split; discriminate).
  rewrite (count_abs b c Queen HR) in HM by (cbv; split; discriminate).
  unfold material. repeat split; try apply cnt_nonneg. exact HM.
Qed.

(* ------------------------------------------------------------------------------------------ *)
(* numerals for the shipped tables *)

Ltac numeralize H :=
  unfold bKnbvk, bAll, bPre, bPV, bSig, bTempo, bPair, bPass, bDbl, bIso, bPieces, bSafety, kdist, uPass,
         uQ, uR, uB, uN, uP, psq, kapr, pv in H;
  cbn [mv kv ismain phn] in H;
  repeat match type of H with
  | context [lmin ?t] => let v := eval vm_compute in (lmin t) in change (lmin t) with v in H
  | context [lmax ?t] => let v := eval vm_compute in (lmax t) in change (lmax t) with v in H
  | context [co2 ops_U ?a ?i ?j] => let v := eval vm_compute in (co2 ops_U a i j) in change (co2 ops_U a i j) with v in H
  end.

Section Shipped.
Variable b : board.
Hypothesis HR : Rep b.
Hypothesis HV : valid (abs b) = true.

Let Hcol : forall c', (colors b c' < two64)%N := colors_lt b HR.

(* sp.mg[c], sp.eg[c] when taperedScore reads them, ka.score[ph][c] when addKingAttacks reads them *)
Definition main_lo : Z := -8000.
Definition main_hi : Z := 24000.

Lemma main_acc_bound s c : ismain s = true ->
  main_lo <= tot s c (all_terms ops_U Coefficients b) <= main_hi.
Proof.
  intros Hs. pose proof (material_of_valid b c HR HV) as M. unfold material in M.
  pose proof (all_terms_bound Coefficients s b c Hcol) as H.
  destruct s; try discriminate; numeralize H; unfold main_lo, main_hi;
  generalize dependent (nn b c Pawn); generalize dependent (nn b c Knight); generalize dependent (nn b c Bishop);
  generalize dependent (nn b c Rook); generalize dependent (nn b c Queen); intros; lia.
Qed.

Lemma ka_acc_bound s c : ismain s = false ->
  -8000 <= tot s c (pre_terms ops_U Coefficients b) <= 8000.
Proof.
  intros Hs. pose proof (material_of_valid b c HR HV) as M. unfold material in M.
  pose proof (pre_terms_bound Coefficients s b c Hcol) as H.
  destruct s; try discriminate; numeralize H;
  generalize dependent (nn b c Pawn); generalize dependent (nn b c Knight); generalize dependent (nn b c Bishop);
  generalize dependent (nn b c Rook); generalize dependent (nn b c Queen); intros; lia.
Qed.

Lemma knbvk_acc_bound c :
  -8000 <= tot EG c (add_piece_values ops_U Coefficients b ++ knbvk_terms ops_U Coefficients b) <= 24000.
Proof.
  pose proof (material_of_valid b c HR HV) as M. unfold material in M.
  pose proof (knbvk_bound Coefficients EG b c Hcol) as H. numeralize H.
  generalize dependent (nn b c Pawn); generalize dependent (nn b c Knight); generalize dependent (nn b c Bishop);
  generalize dependent (nn b c Rook); generalize dependent (nn b c Queen); intros; lia.
Qed.

End Shipped.

(* ------------------------------------------------------------------------------------------ *)
(* no_wrap *)

Lemma in_score_intro x : -32768 <= x < 32768 -> in_score x = true.
Proof.
  intros H. unfold in_score. change (2 ^ (score_bits - 1)) with 32768.
  apply andb_true_intro. split; [apply Z.leb_le | apply Z.ltb_lt]; lia.
Qed.

Ltac Zify.zify_post_hook ::= Z.to_euclidean_division_equations.

Lemma taper_bound mg eg p q f : -32000 <= mg <= 32000 -> -32000 <= eg <= 32000 ->
  0 <= p -> 0 <= q -> p + q = 24 -> 0 <= f <= 200 ->
  -32000 <= taper_U mg eg p q f <= 32000.
Proof.
  intros Hm He Hp Hq Hpq Hf. unfold taper_U. cbv zeta.
  assert (Hw : wrapS fifty_bits (100 - f) = 100 - f).
  { unfold wrapS. change (2 ^ (fifty_bits - 1)) with 32768. lia. }
  rewrite Hw. change MaxPhase with 24.
  set (A := mg * p + eg * q).
  assert (HA : -768000 <= A <= 768000) by (unfold A; nia).
  clearbody A. set (w := 100 - f). assert (Hw' : -100 <= w <= 100) by (unfold w; lia). clearbody w.
  assert (Hv : -76800000 <= A * w <= 76800000) by nia.
  set (v := A * w) in *. clearbody v.
  rewrite Z.quot_quot by lia. change (24 * 100) with 2400. lia.
Qed.

Lemma phase_nonneg_Z b : 0 <= phase_of b.
Proof.
  unfold phase_of, piece_types. cbn [fold_left].
  assert (Hc : forall x, 0 <= cnt x) by (intros x; unfold cnt; lia).
  change (nthN Phase Pawn 0) with 0. change (nthN Phase Knight 0) with 1. change (nthN Phase Bishop 0) with 1.
  change (nthN Phase Rook 0) with 2. change (nthN Phase Queen 0) with 4.
  repeat match goal with |- context [cnt ?x] => let h := fresh in pose proof (Hc x) as h; generalize dependent (cnt x); intros end.
  nia.
Qed.

(* generic packaging lemmas (over variables, so that every conversion the kernel has to check is tiny) *)
Lemma in_score_of_bounds x lo hi : lo <= x <= hi -> -32768 <= lo -> hi < 32768 -> in_score x = true.
Proof. intros. apply in_score_intro. lia. Qed.

Lemma sub_in_score x y lo hi : lo <= x <= hi -> lo <= y <= hi -> hi - lo < 32768 ->
  in_score (s_sub ops_U x y) = true.
Proof. intros. apply in_score_intro. change (s_sub ops_U x y) with (x - y). lia. Qed.

Lemma taper_in_score x1 y1 x2 y2 lo hi p f : lo <= x1 <= hi -> lo <= y1 <= hi -> lo <= x2 <= hi -> lo <= y2 <= hi ->
  hi - lo <= 32000 -> 0 <= p -> 0 <= f <= 200 ->
  in_score (s_taper ops_U (s_sub ops_U x1 y1) (s_sub ops_U x2 y2) (Z.min p MaxPhase) (MaxPhase - Z.min p MaxPhase) f) = true.
Proof.
  intros. apply in_score_intro. change (s_sub ops_U x1 y1) with (x1 - y1). change (s_sub ops_U x2 y2) with (x2 - y2).
  change (s_taper ops_U ?a ?b ?c ?d ?e) with (taper_U a b c d e).
  pose proof (taper_bound (x1 - y1) (x2 - y2) (Z.min p MaxPhase) (MaxPhase - Z.min p MaxPhase) f) as T.
  change MaxPhase with 24 in *. lia.
Qed.

Lemma and7 (a b c d e f g : bool) : a = true -> b = true -> c = true -> d = true -> e = true -> f = true -> g = true ->
  a && b && c && d && e && f && g = true.
Proof. intros -> -> -> -> -> -> ->. reflexivity. Qed.

(* unfolding equations, generic so that their own proofs are trivial; the theorem only REWRITES with them
   (an `unfold` would leave a cast that the kernel checks by evaluating the accumulators) *)
Lemma endgame_unf {T} (O : score_ops T) b l :
  endgame_score O b l = s_sub O (total O EG (stm b) l) (total O EG (flip (stm b)) l).
Proof. reflexivity. Qed.
Lemma mg_score_unf {T} (O : score_ops T) C b :
  mg_score O C b = s_sub O (total O MG (stm b) (all_terms O C b)) (total O MG (flip (stm b)) (all_terms O C b)).
Proof. reflexivity. Qed.
Lemma eg_score_unf {T} (O : score_ops T) C b :
  eg_score O C b = s_sub O (total O EG (stm b) (all_terms O C b)) (total O EG (flip (stm b)) (all_terms O C b)).
Proof. reflexivity. Qed.
Lemma ka_sum_unf {T} (O : score_ops T) C b s c : ka_sum O C b s c = total O s c (pre_terms O C b).
Proof. reflexivity. Qed.
Lemma tot_unf s c l : tot s c l = total ops_U s c l.
Proof. reflexivity. Qed.

Theorem no_wrap_valid b : Rep b -> valid (abs b) = true -> 0 <= fifty b <= 200 ->
  no_wrap Coefficients b = true.
Proof.
  intros HR HV Hf. unfold no_wrap, eval_U. rewrite eval_gen_unfold.
  destruct (insufficient_mat b); [reflexivity|].
  destruct (knbvk b).
  - pose proof (knbvk_acc_bound b HR HV (stm b)) as N1. pose proof (knbvk_acc_bound b HR HV (flip (stm b))) as N2.
    rewrite tot_unf in N1, N2. rewrite endgame_unf.
    exact (sub_in_score _ _ _ _ N1 N2 eq_refl).
  - pose proof (main_acc_bound b HR HV MG (stm b) eq_refl) as M1. pose proof (main_acc_bound b HR HV MG (flip (stm b)) eq_refl) as M2.
    pose proof (main_acc_bound b HR HV EG (stm b) eq_refl) as E1. pose proof (main_acc_bound b HR HV EG (flip (stm b)) eq_refl) as E2.
    pose proof (ka_acc_bound b HR HV KA0 White eq_refl) as K1. pose proof (ka_acc_bound b HR HV KA0 Black eq_refl) as K2.
    pose proof (ka_acc_bound b HR HV KA1 White eq_refl) as K3. pose proof (ka_acc_bound b HR HV KA1 Black eq_refl) as K4.
    rewrite tot_unf in M1, M2, E1, E2, K1, K2, K3, K4.
    rewrite !ka_sum_unf, mg_score_unf, eg_score_unf. apply and7.
    + exact (in_score_of_bounds _ _ _ K1 ltac:(discriminate) eq_refl).
    + exact (in_score_of_bounds _ _ _ K2 ltac:(discriminate) eq_refl).
    + exact (in_score_of_bounds _ _ _ K3 ltac:(discriminate) eq_refl).
    + exact (in_score_of_bounds _ _ _ K4 ltac:(discriminate) eq_refl).
    + exact (sub_in_score _ _ _ _ M1 M2 eq_refl).
    + exact (sub_in_score _ _ _ _ E1 E2 eq_refl).
    + exact (taper_in_score _ _ _ _ _ _ _ _ M1 M2 E1 E2 ltac:(discriminate) (phase_nonneg_Z b) Hf).
Qed.
