#!/usr/bin/env python3
"""Print the markdown table of seeded changes (seeded/*/meta.json) for DESIGN.md section 9.3."""
import glob, json, os, re
rows = []
for d in sorted(glob.glob("/verif/seeded/*/")):
    m = json.load(open(os.path.join(d, "meta.json")))
    r = m["result"]
    notes = open(os.path.join(d, "notes.md")).read() if os.path.exists(os.path.join(d, "notes.md")) else ""
    files = sorted(set(re.findall(r"^\+\+\+ b/(\S+)", open(os.path.join(d, "patch.diff")).read(), re.M)))
    caught = []
    for c, v in r["checks"].items():
        if v["exit"] == 1:
            kinds = []
            fr = v.get("first_replay", {})
            nf = any("no-failing-input-found" in l for l in v["violation_lines"])
            caught.append(c + (" (witness: " + fr.get("stream", "?") + ")" if fr.get("kind") == "witness" else (" (no-failing-input-found)" if nf else "")))
    missed = [c for c, v in r["checks"].items() if v["exit"] != 1]
    rows.append((os.path.basename(d.rstrip("/")), ", ".join(files), "; ".join(caught) or "—", ", ".join(missed) or "—"))
print("| seed | files changed | flagged by (quick tier) | run but silent |")
print("|---|---|---|---|")
for r in rows:
    print("| " + " | ".join(r) + " |")
