(* C03 - Undoing a move restores the position exactly.
   Statements only; proofs live in Proofs/BoardInv.v and Proofs/UndoMove.v.

   [make_l l] / [undo_l l] / [make_null_l l] / [undo_null_l l] (Model/Board.v) are line-by-line models
   of Board.MakeMove / UndoMove / MakeNullMove / UndoNullMove for a reverse token with layout l
   (Model/TokLayout.v: the four masks and shifts and the width of type Reverse); the theorems hold
   for EVERY layout with [layout_ok l = true] (masks are runs of ones at their shifts, halfmove field
   >= 16 bits, castling delta >= 4, en-passant delta >= 6, captured piece >= 3, inside the word,
   pairwise disjoint).  [make] / [undo] / [make_null] / [undo_null] are these functions at
   [gen_layout], the layout regenerated from board.go on every run; C03_layout_ok re-checks on every
   run that it is sound, so a harmless re-packing of the token re-proves silently and a field that is
   too narrow or overlaps another one fails here.  The models are tied to the Go code by the streams
   mk and mkseq (raw token value included) on every run.  [Rep] is the shared representation invariant (Spec/Rep.v), [applicable] the
   explicit condition of Spec/Applicable.v (weaker than IsPseudoLegal and than membership in the
   generated moves of a valid position; it includes the moves that leave the own king attacked).
   All theorems hold for an ARBITRARY Zobrist table z.  The equalities are equalities of the whole
   board record: per-square map, piece sets, colour sets, the ENTIRE hash history, fullmove number,
   side to move, en-passant square, castling rights, halfmove clock. *)
From Coq Require Import NArith ZArith List Bool.
From Chess3 Require Import Base.Bits Model.Types Model.BoardDef Model.Board Model.Movegen Gen.Zobrist Spec.Rep
  Spec.Applicable Proofs.BoardInv Proofs.UndoMove Proofs.PseudoApplicable Proofs.BoardExamples Proofs.Statements Proofs.LayoutNow.
Import ListNotations.
Open Scope N_scope.

Theorem C03_layout_ok : layout_ok gen_layout = true.
Proof. exact generated_layout_ok. Qed.
Print Assumptions C03_layout_ok.

Theorem C03_move : forall l z b m, layout_ok l = true -> Rep b -> applicable b m = true ->
  let '(b', t) := make_l l z b m in undo_l l z b' m t = b.
Proof. exact C03_move_l. Qed.
Print Assumptions C03_move.

Theorem C03_null : forall l z b, layout_ok l = true -> Rep b ->
  let '(b', t) := make_null_l l z b in undo_null_l l b' t = b.
Proof. exact C03_null_l. Qed.
Print Assumptions C03_null.

(* the engine as it is now (the functions every other property uses) *)
Theorem C03_move_now : forall z b m, Rep b -> applicable b m = true ->
  let '(b', t) := make z b m in undo z b' m t = b.
Proof. exact C03_move_now_l. Qed.
Print Assumptions C03_move_now.

Theorem C03_null_now : forall z b, Rep b ->
  let '(b', t) := make_null z b in undo_null b' t = b.
Proof. exact C03_null_now_l. Qed.
Print Assumptions C03_null_now.

(* every move accepted by IsPseudoLegal (legal or not) is covered, on boards whose en-passant target is
   empty with no own piece behind it and whose castling rights have the rook on its corner - both
   hold in every valid position, and IsPseudoLegal does not test them *)
Theorem C03_pseudo_legal_applicable : forall b m,
  Rep b -> ep_inv b = true -> castle_inv b = true -> is_pseudo_legal b m = true -> applicable b m = true.
Proof. exact pseudo_legal_applicable. Qed.
Print Assumptions C03_pseudo_legal_applicable.

Theorem C03_pseudo_legal_move : forall l z b m, layout_ok l = true ->
  Rep b -> ep_inv b = true -> castle_inv b = true -> is_pseudo_legal b m = true ->
  let '(b', t) := make_l l z b m in undo_l l z b' m t = b.
Proof. exact C03_pseudo_legal_move_l. Qed.
Print Assumptions C03_pseudo_legal_move.

(* the same for the generated moves is stated, not proved: Proofs/PseudoApplicable.v *)
Definition C03_generated_moves_statement : Prop := gen_applicable_statement.

(* any sequence of moves and null moves, then the reverse sequence of undos *)
Theorem C03_nested : forall l z ops b, layout_ok l = true -> Rep b -> applicable_all l z b ops ->
  let '(b', st) := make_all l z b ops [] in undo_all l z b' st = b.
Proof. exact C03_nested_l. Qed.
Print Assumptions C03_nested.

(* the search's depth-first walk: makes, null moves and undos of the latest operation interleaved in
   any way, followed by undoing whatever is still on the stack *)
Theorem C03_walk : forall l z evs b, layout_ok l = true -> Rep b -> walk_ok l z b [] evs ->
  let '(b', st) := walk l z b [] evs in undo_all l z b' st = b.
Proof. exact C03_walk_l. Qed.
Print Assumptions C03_walk.

(* the invariant is kept (so that the theorems apply again after every make); the 64-bit bound on
   the hashes in Rep needs 64-bit table entries *)
Theorem C03_make_Rep : forall l z b m, zob_w64 z -> Rep b -> applicable b m = true -> Rep (fst (make_l l z b m)).
Proof. exact make_Rep. Qed.
Print Assumptions C03_make_Rep.

Theorem C03_make_null_Rep : forall l z b, zob_w64 z -> Rep b -> Rep (fst (make_null_l l z b)).
Proof. exact make_null_Rep. Qed.
Print Assumptions C03_make_null_Rep.

(* the reverse token: every field is read back unchanged whatever the other fields hold, for all
   tokens (proved for arbitrary N, in particular all 64-bit values) *)
Theorem C03_token_fields : forall l r fc c e p, layout_ok l = true ->
  (-32768 <= fc < 32768)%Z -> c < 16 -> e < 64 -> p < 8 ->
  let t := tok_set_ep l (tok_set_capture l (tok_set_castling l (tok_set_fifty l r fc) c) p) e in
  tok_fifty l t = fc /\ tok_castling l t = c /\ tok_capture l t = p /\ tok_ep l t = e.
Proof. exact C03_token_fields_l. Qed.
Print Assumptions C03_token_fields.

(* non-vacuity: concrete positions and moves meet the hypotheses, and the moves do something *)
Example C03_ex_double_push :
  Rep ex_start /\ applicable ex_start e2e4 = true /\ stm (fst (make zob_real ex_start e2e4)) = Black.
Proof. vm_compute. repeat split; reflexivity. Qed.

Example C03_ex_castling :
  Rep ex_castle /\ applicable ex_castle e1g1 = true /\ applicable ex_castle e1c1 = true /\
  piece_at (fst (make zob_real ex_castle e1g1)) F1 = Rook /\ castles (fst (make zob_real ex_castle e1c1)) = 12.
Proof. vm_compute. repeat split; reflexivity. Qed.

Example C03_ex_en_passant :
  Rep ex_ep /\ applicable ex_ep d5c6 = true /\ capture_sq ex_ep d5c6 = 34 /\
  piece_at (fst (make zob_real ex_ep d5c6)) 34 = NoPiece /\ tok_capture gen_layout (snd (make zob_real ex_ep d5c6)) = Pawn.
Proof. vm_compute. repeat split; reflexivity. Qed.

Example C03_ex_promotion_capture :
  Rep ex_promo /\ applicable ex_promo b7a8q = true /\ piece_at (fst (make zob_real ex_promo b7a8q)) A8 = Queen.
Proof. vm_compute. repeat split; reflexivity. Qed.

Example C03_ex_pseudo_legal :
  ep_inv ex_ep = true /\ castle_inv ex_castle = true /\ ep_inv ex_castle = true /\ castle_inv ex_ep = true /\
  is_pseudo_legal ex_ep d5c6 = true /\ is_pseudo_legal ex_castle e1g1 = true /\ is_pseudo_legal ex_start e2e4 = true.
Proof. vm_compute. repeat split; reflexivity. Qed.

Example C03_ex_nested :
  let ops := [OpMove e2e4; OpMove e7e5; OpNull; OpMove b8c6; OpMove g1f3] in
  Rep ex_start /\ applicable_all gen_layout zob_real ex_start ops /\ length (hashes (run gen_layout zob_real ex_start ops)) = 6%nat.
Proof. vm_compute. repeat split; reflexivity. Qed.

Example C03_ex_zob_real : zob_w64 zob_real.
Proof. exact zob_real_w64. Qed.
