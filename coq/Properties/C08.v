(* C08 - Search is reproducible and never overspends its node budget.
   Statements only; proofs in Proofs/IterDeepenProofs.v.  Decision layer only: the budget invariant
   over all of alphaBeta/quiescence is Layer A (Properties/C08_skel.v); determinism of the real
   process with respect to scheduling and the wall clock is observed (stream c08), not proved. *)
From Coq Require Import ZArith List Bool Lia.
Import ListNotations.
From Chess3 Require Import Base.Word Gen.IdConsts Model.IterDeepen Proofs.IterDeepenProofs.
Open Scope Z_scope.

(* A run that stopped at its soft limit after N nodes is reproduced by the run under the hard budget
   N (no soft limit): same score, move and ponder move, and the same printed lines followed by at
   most the one abort line `info depth d+1 nodes N`.
   ask = the engine without a budget; with_budget ask N = the same engine under budget N: a root call
   that stays within N answers identically, one that would pass N comes back aborted at exactly N.
   cnt = Counters.Nodes; every root call counts at least one node. No time limit (no_time). *)
Theorem C08_soft_hard :
  forall (St : Type) (ask : St -> Z -> Z -> Z -> ab_result * St) (W : Z)
         (root_moves : list Z) (legal : Z -> bool) (cnt : St -> Z),
  (forall o a b d r o', ask o a b d = (r, o') -> cnt o < nodes_of r /\ cnt o' = nodes_of r) ->
  forall fuel lim o,
  let r1 := iterative_deepen St ask W no_time root_moves legal fuel lim o in
  r_status r1 = SoftStopped ->
  let N := last_nodes r1 in
  let r2 := iterative_deepen St (with_budget ask N) W no_time root_moves legal fuel (hard_lim lim) o in
  r_score r2 = r_score r1 /\ r_move r2 = r_move r1 /\ r_ponder r2 = r_ponder r1 /\
  ((r_status r2 = Aborted /\ exists dl, r_reports r2 = r_reports r1 ++ [RAbort dl N]) \/
   (r_status r2 = Finished /\ r_reports r2 = r_reports r1)).
Proof. exact soft_hard. Qed.
Print Assumptions C08_soft_hard.

(* incrementNodes: the counter never passes the budget; it moves by at most one; the abort flag is
   raised exactly when a node is refused at the budget *)
Theorem C08_budget_step : forall budget nodes aborted, 0 <= budget -> nodes <= budget ->
  let '(n', ab') := increment_nodes budget nodes aborted in
  n' <= budget /\ nodes <= n' <= nodes + 1 /\ (ab' = aborted \/ (ab' = true /\ n' = nodes /\ nodes = budget)).
Proof. exact increment_nodes_budget. Qed.
Print Assumptions C08_budget_step.

(* "results are a function only of stored state, position with history and limits": in the model this
   is the fact that iterative_deepen is a Coq function of (oracle state, limits); for the real engine
   it is observed: two engines, same requests, concurrent, under load (stream c08). *)
Definition C08_full_statement : Prop :=
  forall (engine_state position_with_history limits result : Type)
         (go : engine_state -> position_with_history -> limits -> result * engine_state)
         (real_run : engine_state -> position_with_history -> limits -> nat (* schedule / clock *) -> result * engine_state),
  forall s p l sched, real_run s p l sched = go s p l.

Example C08_nonvacuous :
  let ask := fun (o : Z) (a b d : Z) => (AbValue 25 [1357; 2468] (o + 100), o + 100) in
  (forall o a b d r o', ask o a b d = (r, o') -> o < nodes_of r /\ o' = nodes_of r) /\
  let lim := {| l_depth := 64; l_soft_nodes := 250 |} in
  let r1 := iterative_deepen Z ask 44 no_time [1357] (fun _ => true) 20 lim 0 in
  r_status r1 = SoftStopped /\ last_nodes r1 = 300 /\
  let r2 := iterative_deepen Z (with_budget ask 300) 44 no_time [1357] (fun _ => true) 20 (hard_lim lim) 0 in
  r_status r2 = Aborted /\ r_move r2 = 1357 /\ length (r_reports r2) = 4%nat /\
  increment_nodes 300 300 false = (300, true).
Proof.
  cbn zeta. split.
  - intros o a b d r o' H. inversion H; subst. cbn. lia.
  - vm_compute. repeat split; reflexivity.
Qed.
