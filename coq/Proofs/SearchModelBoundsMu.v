(* A measure on positions that every move played by quiescence decreases.

     mu b = (number of men on the board) + (number of pawns on the board)

   A capture (en passant included) removes a man, a promotion turns a pawn into a piece: a move that is
   not `quiet` in the sense of search.go (captured != NoPiece or promo != NoPiece) takes at least 1 off
   mu; on a valid position 2 <= mu <= 48 (two kings; at most 16 men and 8 pawns a side).  Every move
   GenNoisy emits is of that kind.  The counting is the one of Proofs/GenReach.v (material of the
   successor position): MakeMove is a chain of point updates of the placement. *)
From Coq Require Import NArith ZArith List Bool Lia.
From Chess3 Require Import Base.Bits Model.Types Spec.Geometry Model.Att Model.BoardDef Model.Board
  Model.Movegen Spec.Chess Spec.Rep Proofs.GenBase Proofs.GenRep Proofs.GenPieces Proofs.GenPawns
  Proofs.GenMake Proofs.GenLegal Proofs.GenReach Proofs.GenNoDup Proofs.GenTop.
Import ListNotations.
Open Scope N_scope.

(* ------------------------------------------------------------------------------------------ *)
(* the measure *)

Definition mu_side (p : pos) (c : color) : Z :=
  (2 * count p c Pawn + count p c Knight + count p c Bishop + count p c Rook + count p c Queen + count p c King)%Z.
Definition mu_pos (p : pos) : Z := (mu_side p White + mu_side p Black)%Z.
Definition mu (b : board) : Z := mu_pos (abs b).

Lemma count_nonneg p c k : (0 <= count p c k)%Z.
Proof. unfold count. lia. Qed.

Lemma mu_side_arith (pw kn bi ro qu ki : Z) : (0 <= pw -> 0 <= kn -> 0 <= bi -> 0 <= ro -> 0 <= qu ->
  ki = 1 -> msum pw kn bi ro qu <= 8 -> 1 <= 2 * pw + kn + bi + ro + qu + ki <= 24)%Z.
Proof. unfold msum. lia. Qed.

Lemma mu_side_bound p c : material_ok p c = true -> (1 <= mu_side p c <= 24)%Z.
Proof.
  intros H. apply material_iff in H. destruct H as [K S]. unfold mu_side.
  apply mu_side_arith; try apply count_nonneg; assumption.
Qed.

Lemma mu_pos_bound p : valid p = true -> (2 <= mu_pos p <= 48)%Z.
Proof.
  intros HV. destruct (valid_split _ HV) as [_ [MW [MB _]]].
  pose proof (mu_side_bound p White MW). pose proof (mu_side_bound p Black MB). unfold mu_pos. lia.
Qed.

Lemma mu_bound b : valid (abs b) = true -> (2 <= mu b <= 48)%Z.
Proof. apply mu_pos_bound. Qed.

(* ------------------------------------------------------------------------------------------ *)
(* the counting argument on abstract count vectors *)

Definition ssum (F : color -> N -> Z) : Z :=
  (2 * F White Pawn + F White Knight + F White Bishop + F White Rook + F White Queen + F White King +
   (2 * F Black Pawn + F Black Knight + F Black Bishop + F Black Rook + F Black Queen + F Black King))%Z.

Lemma mu_arith (F G : color -> N -> Z) (me : color) (piece put : N) (cap : option (color * N)) :
  (forall c k, G c k + bz (tst c k cap) + bz (tst c k (Some (me, piece))) = F c k + bz (tst c k (Some (me, put))))%Z ->
  1 <= piece <= 6 -> (put = piece \/ (piece = Pawn /\ 2 <= put <= 5)) ->
  (cap = None \/ exists k', cap = Some (flip me, k') /\ 1 <= k' <= 6) ->
  (cap <> None \/ put <> piece) ->
  (ssum G + 1 <= ssum F)%Z.
Proof.
  intros E Hp Hput Hcap Hn.
  pose proof (E White Pawn) as W1. pose proof (E White Knight) as W2. pose proof (E White Bishop) as W3.
  pose proof (E White Rook) as W4. pose proof (E White Queen) as W5. pose proof (E White King) as W6.
  pose proof (E Black Pawn) as B1. pose proof (E Black Knight) as B2. pose proof (E Black Bishop) as B3.
  pose proof (E Black Rook) as B4. pose proof (E Black Queen) as B5. pose proof (E Black King) as B6.
  clear E. unfold ssum, Pawn, Knight, Bishop, Rook, Queen, King in *.
  assert (Dp : piece = 1 \/ piece = 2 \/ piece = 3 \/ piece = 4 \/ piece = 5 \/ piece = 6) by lia.
  assert (Dput : put = piece \/ (piece = 1 /\ (put = 2 \/ put = 3 \/ put = 4 \/ put = 5))) by lia.
  clear Hp Hput.
  assert (Dcap : (cap = None /\ put <> piece) \/
                 exists k', cap = Some (flip me, k') /\ (k' = 1 \/ k' = 2 \/ k' = 3 \/ k' = 4 \/ k' = 5 \/ k' = 6)).
  { destruct Hcap as [->|(k' & -> & R)].
    - left. split; [reflexivity|]. destruct Hn as [Hn|Hn]; [congruence|exact Hn].
    - right. exists k'. split; [reflexivity|lia]. }
  clear Hcap Hn.
  destruct Dcap as [[-> Hne]|(k' & -> & Dk)].
  - destruct Dput as [->|[-> Dput]]; [congruence|].
    destruct me; destruct Dput as [->|[->|[->| ->]]];
      cbn [tst bz color_eqb N.eqb Pos.eqb andb] in *; lia.
  - destruct me; cbn [flip] in *;
      destruct Dk as [->|[->|[->|[->|[->| ->]]]]];
      (destruct Dput as [->|[-> Dput]];
       [destruct Dp as [->|[->|[->|[->|[->| ->]]]]]|destruct Dput as [->|[->|[->| ->]]]]);
      cbn [tst bz color_eqb N.eqb Pos.eqb andb] in *; lia.
Qed.

(* ------------------------------------------------------------------------------------------ *)
(* MakeMove of a move that is not quiet *)

(* search.go: quiet := captured == NoPiece && m.Promo() == NoPiece *)
Definition is_quiet (b : board) (m : N) : bool :=
  (piece_at b (capture_sq b m) =? NoPiece) && (mv_promo m =? NoPiece).

Lemma ssum_count p : ssum (count p) = mu_pos p.
Proof. unfold ssum, mu_pos, mu_side. reflexivity. Qed.

Lemma mu_make z b m : PRep b -> valid (abs b) = true -> pseudo_spec (abs b) m = true ->
  is_quiet b m = false -> (mu (fst (make z b m)) + 1 <= mu b)%Z.
Proof.
  intros HR HV HP HQ. unfold mu. rewrite <- !ssum_count.
  destruct (make_Pw_spec z b m HR HV HP) as [HR' W].
  assert (Hq : Lf (at_ (abs (fst (make z b m)))) (eng_fun b m)) by (eapply Lf_ext; [apply Lf_abs|exact W]).
  pose proof (pseudo_shape b m HR HV HP) as Sh.
  apply (mu_arith (count (abs b)) (count (abs (fst (make z b m)))) (stm b) (piece_at b (mv_from m)) (mk_put b m)
                  (who (abs b) (capture_sq b m))).
  - intros c k. rewrite (count_q b m _ Hq), count_cz. apply cz_eng; assumption.
  - apply piece_range; assumption.
  - apply put_cases; assumption.
  - destruct (Fcsq b m HR HV HP) as [H|(k' & H & _)]; [left; exact H|right]. exists k'. split; [exact H|].
    apply (who_piece_range b HR _ _ _ H).
  - unfold is_quiet in HQ. apply andb_false_iff in HQ. destruct HQ as [HQ|HQ].
    + left. intros Hn. rewrite (who_kind b _ HR (capture_sq_lt b m)), Hn in HQ. discriminate HQ.
    + right. unfold mk_put. rewrite HQ. cbn [negb]. unfold NoPiece in HQ. apply N.eqb_neq in HQ.
      destruct (sh_promo b m Sh) as [E|[E R]]; [contradiction|]. rewrite E. unfold Pawn. lia.
Qed.

(* ------------------------------------------------------------------------------------------ *)
(* GenNoisy only emits such moves *)

Section Noisy.
Variable b : board.
Hypothesis HR : PRep b.
Hypothesis HV : valid (abs b) = true.

Local Notation them := (colors b (flip (stm b))).

Lemma them_piece s : N.testbit them s = true -> (piece_at b s =? NoPiece) = false.
Proof.
  intros H. assert (Hs : s < 64) by (eapply tb_lt64; [apply (colors_w64 b HR (flip (stm b)))|exact H]).
  pose proof (colors_occ b (flip (stm b)) s H) as O. rewrite (occupancy_tb b HR s Hs) in O.
  apply negb_true_iff in O. exact O.
Qed.

Lemma quiet_capture m : is_en_passant b m = false -> N.testbit them (mv_to m) = true -> is_quiet b m = false.
Proof.
  intros E T. unfold is_quiet. rewrite (capture_sq_noep b m E), (them_piece _ T). reflexivity.
Qed.

Lemma quiet_promo m : is_promo_piece (mv_promo m) = true -> is_quiet b m = false.
Proof. intros H. unfold is_quiet, NoPiece. rewrite (promo_nz _ H). apply andb_false_r. Qed.

Lemma ep_not_them m : N.testbit them (mv_to m) = true -> is_en_passant b m = false.
Proof.
  intros T. unfold is_en_passant. destruct (N.eqb_spec (ep b) 0) as [E0|E0]; [reflexivity|]. cbn [negb andb].
  destruct (N.eqb_spec (ep b) (mv_to m)) as [E1|E1]; [|reflexivity]. exfalso.
  destruct (ep_facts b HR HV E0) as [_ [_ [_ [O _]]]]. rewrite E1 in O.
  rewrite (colors_occ b (flip (stm b)) _ T) in O. discriminate O.
Qed.

Lemma gen_noisy_not_quiet m : pseudo_spec (abs b) m = true -> In m (gen_noisy b) -> is_quiet b m = false.
Proof.
  intros HP Hin.
  assert (Hm : m < 32768) by (apply (gen_all_lt b); unfold gen_all; apply in_or_app; left; exact Hin).
  assert (K : Knight = Knight \/ Knight = Bishop \/ Knight = Rook \/ Knight = Queen) by tauto.
  assert (B : Bishop = Knight \/ Bishop = Bishop \/ Bishop = Rook \/ Bishop = Queen) by tauto.
  assert (R : Rook = Knight \/ Rook = Bishop \/ Rook = Rook \/ Rook = Queen) by tauto.
  assert (Q : Queen = Knight \/ Queen = Bishop \/ Queen = Rook \/ Queen = Queen) by tauto.
  unfold gen_noisy in Hin. cbv zeta in Hin. cbn [g_them gen_of] in Hin.
  repeat (apply in_app_or in Hin; destruct Hin as [Hin|Hin]).
  - destruct (king_tag b HR HV _ _ Hin) as (_ & _ & T). apply quiet_capture; [apply ep_not_them|]; exact T.
  - destruct (simple_cls b HR Knight _ m K Hin) as (_ & _ & T). apply quiet_capture; [apply ep_not_them|]; exact T.
  - destruct (simple_cls b HR Bishop _ m B Hin) as (_ & _ & T). apply quiet_capture; [apply ep_not_them|]; exact T.
  - destruct (simple_cls b HR Rook _ m R Hin) as (_ & _ & T). apply quiet_capture; [apply ep_not_them|]; exact T.
  - destruct (simple_cls b HR Queen _ m Q Hin) as (_ & _ & T). apply quiet_capture; [apply ep_not_them|]; exact T.
  - apply (promo_push_in b HR HV m Hm) in Hin. apply quiet_promo. tauto.
  - apply (captures_in b m Hm) in Hin. destruct Hin as [(_ & _ & _ & _ & T) _].
    apply quiet_capture; [apply ep_not_them|]; exact T.
  - apply (cap_promos_in b HR m Hm) in Hin. apply quiet_promo. tauto.
  - apply (ep_in b HR HV m Hm) in Hin. destruct Hin as [(E0 & A & Bp & _ & E) _].
    assert (Hpa : piece_at b (mv_from m) = Pawn) by (apply (piece_at_of b HR); [unfold Pawn; lia|exact A|exact Bp]).
    assert (Ep : is_en_passant b m = true).
    { unfold is_en_passant. rewrite Hpa, E. apply N.eqb_neq in E0. rewrite E0, !N.eqb_refl. reflexivity. }
    assert (Hw : who (abs b) (mv_from m) = Some (stm b, Pawn)).
    { pose proof (sh_from b m (pseudo_shape b m HR HV HP)) as F. rewrite Hpa in F. exact F. }
    destruct (ep_capture_sq b m HR HV Hw HP Ep) as [Hc _].
    unfold is_quiet. rewrite (who_kind b _ HR (capture_sq_lt b m)), Hc. reflexivity.
Qed.
End Noisy.

(* ------------------------------------------------------------------------------------------ *)
(* as the search sees it: a generated noisy move that passed the legality filter *)

Lemma noisy_playable_mu z b m : Rep b -> valid (abs b) = true ->
  In m (gen_noisy b) -> In m (playable z b) -> (mu (fst (make z b m)) + 1 <= mu b)%Z.
Proof.
  intros HR HV Hn Hp. pose proof (Rep_PRep b HR) as HP.
  apply (proj1 (playable_legal z b HR HV)) in Hp. destruct Hp as [_ HL].
  unfold legal_spec in HL. apply andb_true_iff in HL. destruct HL as [HL _].
  apply mu_make; try assumption. apply gen_noisy_not_quiet; assumption.
Qed.
