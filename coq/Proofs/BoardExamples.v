(* Concrete boards for the non-vacuity examples of C03 / C04. *)
From Coq Require Import NArith ZArith List Bool.
From Chess3 Require Import Base.Bits Model.Types Model.BoardDef Model.Board Gen.Zobrist Spec.Rep Spec.Applicable.
Import ListNotations.
Open Scope N_scope.

(* piece sets P1..P6, colour sets, side to move, en-passant square, castling rights *)
Definition board_of (ps : list N) (w bl : N) (s : color) (e c : N) : board :=
  reset_hash zob_real (mkBoard (sq2p_of_sets ps) (0 :: ps) [w; bl] [] 1 s e c 0).

(* rnbqkbnr/pppppppp/8/8/8/8/PPPPPPPP/RNBQKBNR w KQkq - 0 1 *)
Definition ex_start : board :=
  board_of [0x00ff00000000ff00; 0x4200000000000042; 0x2400000000000024; 0x8100000000000081;
            0x0800000000000008; 0x1000000000000010] 0xffff 0xffff000000000000 White 0 15.

(* r3k2r/8/8/8/8/8/8/R3K2R w KQkq - 0 1 *)
Definition ex_castle : board :=
  board_of [0; 0; 0; 0x8100000000000081; 0; 0x1000000000000010] 0x91 0x9100000000000000 White 0 15.

(* 4k3/8/8/2pP4/8/8/8/4K3 w - c6 0 2 *)
Definition ex_ep : board :=
  board_of [0x0000000c00000000; 0; 0; 0; 0; 0x1000000000000010] 0x0000000800000010 0x1000000400000000 White 42 0.

(* 4k3/1P6/8/8/8/8/K7/8 w - - 0 1 with a black rook on a8 to capture *)
Definition ex_promo : board :=
  board_of [0x0002000000000000; 0; 0; 0x0100000000000000; 0; 0x1000000000000100]
           0x0002000000000100 0x1100000000000000 White 0 0.

Definition e2e4 : N := mk_move 12 28 0.
Definition e7e5 : N := mk_move 52 36 0.
Definition g1f3 : N := mk_move 6 21 0.
Definition b8c6 : N := mk_move 57 42 0.
Definition e1g1 : N := mk_move 4 6 0.
Definition e1c1 : N := mk_move 4 2 0.
Definition d5c6 : N := mk_move 35 42 0.
Definition b7a8q : N := mk_move 49 56 Queen.

(* the engine's Zobrist entries are 64-bit words (re-checked against the regenerated Gen/Zobrist.v on
   every run) *)
From Chess3 Require Import Proofs.BoardInv Proofs.UndoMove.

Lemma forallb_Forall {A} (f : A -> bool) (P : A -> Prop) l :
  (forall x, f x = true -> P x) -> forallb f l = true -> Forall P l.
Proof.
  intros H. induction l as [|a t IH]; cbn; intros E; constructor.
  - apply H. apply andb_true_iff in E. tauto.
  - apply IH. apply andb_true_iff in E. tauto.
Qed.

Lemma zob_real_w64 : zob_w64 zob_real.
Proof.
  assert (L1 : forall l, forallb (fun x => x <? two64) l = true -> w64l l).
  { intros l. apply forallb_Forall. intros x. apply N.ltb_lt. }
  assert (L2 : forall l, forallb (forallb (fun x => x <? two64)) l = true -> Forall w64l l).
  { intros l. apply forallb_Forall. exact L1. }
  assert (L3 : forall l, forallb (forallb (forallb (fun x => x <? two64))) l = true -> Forall (Forall w64l) l).
  { intros l. apply forallb_Forall. exact L2. }
  assert (P : Forall (Forall w64l) zob_pieces) by (apply L3; vm_compute; reflexivity).
  assert (C : w64l zob_castling) by (apply L1; vm_compute; reflexivity).
  assert (E : w64l zob_ep) by (apply L1; vm_compute; reflexivity).
  repeat split.
  - intros c p s. cbn [zob_real z_piece]. apply w64l_nthN.
    unfold nthN at 1. apply (Forall_nth w64l); [|constructor].
    unfold nthN. apply (Forall_nth (Forall w64l)); [exact P|constructor].
  - intros i. cbn [zob_real z_castle]. apply w64l_nthN. exact C.
  - intros f. cbn [zob_real z_ep]. apply w64l_nthN. exact E.
Qed.
