(* C05: Board.IsPseudoLegal against the rules of chess (pseudo_spec), everything except castling:
   the frame (from holds an own piece, to does not), knights, bishops, rooks, queens and pawns
   (single / double push, capture, en passant, promotion bits). *)
From Coq Require Import NArith ZArith List Bool Lia.
From Chess3 Require Import Base.Bits Model.Types Spec.Geometry Model.Att Model.BoardDef Model.Board
  Model.Movegen Spec.Chess Spec.Rep Proofs.GenBase Proofs.IplBase.
Import ListNotations.
Open Scope N_scope.

(* ------------------------------------------------------------------------------------------ *)
(* both predicates as  frame && body(kind of the moving piece) *)

Definition ipl_body (b : board) (m : N) : bool :=
  let from := mv_from m in
  let fromBB := bit from in
  let to := mv_to m in
  let toBB := bit to in
  let me := stm b in
  let piece := piece_at b from in
  let occ := bor (colors b White) (colors b Black) in
  let promo := mv_promo m in
  if negb (promo =? NoPiece) && negb (piece =? Pawn) then false else
  if piece =? Knight then negb (band (knight_moves from) toBB =? 0)
  else if piece =? Bishop then negb (band (bishop_moves from occ) toBB =? 0)
  else if piece =? Rook then negb (band (rook_moves from occ) toBB =? 0)
  else if piece =? Queen then negb (band (bor (rook_moves from occ) (bishop_moves from occ)) toBB =? 0)
  else if piece =? King then
    if (from =? E1) && (to =? G1) && color_eqb me White then
      ipl_castle b occ ShortWhite (bor (bit F1) (bit G1)) (bb3 E1 F1 G1)
    else if (from =? E1) && (to =? C1) && color_eqb me White then
      ipl_castle b occ LongWhite (bb3 D1 C1 B1) (bb3 E1 D1 C1)
    else if (from =? E8) && (to =? G8) && color_eqb me Black then
      ipl_castle b occ ShortBlack (bor (bit F8) (bit G8)) (bb3 E8 F8 G8)
    else if (from =? E8) && (to =? C8) && color_eqb me Black then
      ipl_castle b occ LongBlack (bb3 D8 C8 B8) (bb3 E8 D8 C8)
    else negb (band (king_moves from) toBB =? 0)
  else if piece =? Pawn then
    if ((from <? to) && color_eqb me Black) || ((to <? from) && color_eqb me White) then false else
    let on7 := negb (band (rank_from me SeventhRank) fromBB =? 0) in
    if on7 && ((promo <? Knight) || (Queen <? promo)) then false else
    if negb on7 && negb (promo =? NoPiece) then false else
    let fd := abs_diff (sq_file from) (sq_file to) in
    let rd := abs_diff (sq_rank from) (sq_rank to) in
    if fd =? 0 then
      if rd =? 1 then band occ toBB =? 0
      else if rd =? 2 then
        if band fromBB (rank_from me SecondRank) =? 0 then false
        else band occ (bor toBB (bit ((from + to) / 2))) =? 0
      else false
    else if fd =? 1 then
      if negb (rd =? 1) then false else
      let enp := if negb (ep b =? 0) then bit (ep b) else 0 in
      negb (band (bor (colors b (flip me)) enp) toBB =? 0)
    else false
  else true.

Lemma ipl_frame b m :
  is_pseudo_legal b m =
  N.testbit (colors b (stm b)) (mv_from m) && negb (N.testbit (colors b (stm b)) (mv_to m)) && ipl_body b m.
Proof.
  unfold is_pseudo_legal, ipl_body. cbv zeta. rewrite !band_bit_eq0.
  destruct (N.testbit (colors b (stm b)) (mv_from m)); cbn [negb andb]; [|reflexivity].
  destruct (N.testbit (colors b (stm b)) (mv_to m)); cbn [negb andb]; reflexivity.
Qed.

Definition spec_body (p : pos) (m : N) (k : N) : bool :=
  let from := mv_from m in let to := mv_to m in let pr := mv_promo m in
  let c := turn p in
  if k =? Pawn then
    let promo_ok := if rank_n to =? last_rank c then is_promo_piece pr else pr =? 0 in
    promo_ok &&
    ( ((to =? fwd c from) && negb (rank_n from =? last_rank c) && empty p to)
      || ((rank_n from =? second_rank c) && (to =? fwd c (fwd c from)) && empty p (fwd c from) && empty p to)
      || (mem (pawn_attacks c from) to &&
          (owned_by p to (flip c) || match epsq p with Some e => e =? to | None => false end)))
  else if k =? King then
    (pr =? 0) &&
    (mem (king_attacks from) to
     || ((from =? king_home c) && (to =? from + 2) && castle_ok p false)
     || ((from =? king_home c) && (to + 2 =? from) && castle_ok p true))
  else (pr =? 0) && mem (attacks_from c k from (occ_of p)) to.

Lemma spec_frame p m :
  pseudo_spec p m =
  owned_by p (mv_from m) (turn p) && negb (owned_by p (mv_to m) (turn p)) && spec_body p m (kind_at p (mv_from m)).
Proof.
  unfold pseudo_spec, spec_body, kind_at, owned_by. cbv zeta.
  destruct (who p (mv_from m)) as [[c' k]|]; reflexivity.
Qed.


(* ------------------------------------------------------------------------------------------ *)
(* finite geometry of pawn moves: the engine's file/rank-distance tests against the rules *)

Definition p_db (c : color) (from to : N) : bool :=
  ((from <? to) && color_eqb c Black) || ((to <? from) && color_eqb c White).
Definition p_on7 (c : color) (from : N) : bool := negb (band (rank_from c SeventhRank) (bit from) =? 0).
Definition p_off2 (c : color) (from : N) : bool := band (bit from) (rank_from c SecondRank) =? 0.
Definition p_fd (from to : N) : N := abs_diff (sq_file from) (sq_file to).
Definition p_rd (from to : N) : N := abs_diff (sq_rank from) (sq_rank to).
Definition p_g1 c from to := negb (p_db c from to) && (p_fd from to =? 0) && (p_rd from to =? 1).
Definition p_g2 c from to := negb (p_db c from to) && (p_fd from to =? 0) && (p_rd from to =? 2) && negb (p_off2 c from).
Definition p_g3 c from to := negb (p_db c from to) && (p_fd from to =? 1) && (p_rd from to =? 1).

Definition pawn_geom_check (c : color) (from to : N) : bool :=
  Bool.eqb ((to =? fwd c from) && negb (rank_n from =? last_rank c)) (p_g1 c from to) &&
  Bool.eqb ((rank_n from =? second_rank c) && (to =? fwd c (fwd c from))) (p_g2 c from to) &&
  Bool.eqb (mem (pawn_attacks c from) to) (p_g3 c from to) &&
  (negb (p_g2 c from to) || (fwd c from =? (from + to) / 2)) &&
  (negb (p_g1 c from to || p_g3 c from to) || Bool.eqb (rank_n to =? last_rank c) (p_on7 c from)) &&
  (negb (p_g2 c from to) || (negb (rank_n to =? last_rank c) && negb (p_on7 c from))).

Lemma pawn_geom_all :
  forallb (fun c => forallb (fun from => forallb (pawn_geom_check c from) squares64) squares64) [White; Black] = true.
Proof. vm_compute. reflexivity. Qed.

Lemma pawn_geom c from to : from < 64 -> to < 64 -> pawn_geom_check c from to = true.
Proof.
  intros Hf Ht. pose proof pawn_geom_all as H. rewrite forallb_forall in H.
  specialize (H c ltac:(destruct c; cbn; auto)). apply (all64_2 _ H); assumption.
Qed.

Lemma promo_piece_range pr : pr < 8 -> is_promo_piece pr = negb ((pr <? Knight) || (Queen <? pr)).
Proof.
  intros H. assert (C : pr = 0 \/ pr = 1 \/ pr = 2 \/ pr = 3 \/ pr = 4 \/ pr = 5 \/ pr = 6 \/ pr = 7) by lia.
  repeat (destruct C as [->|C]; [reflexivity|]). subst. reflexivity.
Qed.

(* the boolean skeleton of the pawn case *)
Lemma pawn_bool (db fd0 fd1 rd1 rd2 off2 on7 lastr bad z e_to e_mid cap : bool) :
  fd0 && fd1 = false -> rd1 && rd2 = false ->
  (negb db && fd0 && rd1 || negb db && fd1 && rd1 = true -> lastr = on7) ->
  (negb db && fd0 && rd2 && negb off2 = true -> lastr = false /\ on7 = false) ->
  (if db then false else
   if on7 && bad then false else
   if negb on7 && negb z then false else
   if fd0 then (if rd1 then e_to else if rd2 then (if off2 then false else e_to && e_mid) else false)
   else if fd1 then (if negb rd1 then false else cap) else false)
  =
  (if lastr then negb bad else z) &&
  ((negb db && fd0 && rd1 && e_to) || (negb db && fd0 && rd2 && negb off2 && e_mid && e_to) ||
   (negb db && fd1 && rd1 && cap)).
Proof.
  intros Hfd Hrd H13 H2.
  destruct db; [cbn; rewrite andb_false_r; reflexivity|].
  destruct fd0, fd1, rd1, rd2; try discriminate; cbn [negb andb orb] in *;
    destruct off2, on7, lastr; cbn [negb andb orb] in *;
    try (specialize (H13 eq_refl); discriminate);
    try (destruct (H2 eq_refl); discriminate);
    destruct bad, z, e_to, e_mid, cap; reflexivity.
Qed.

(* ------------------------------------------------------------------------------------------ *)

Section Pieces.
  Variable b : board.
  Hypothesis HR : Rep b.
  Variable m : N.

  Let from := mv_from m.
  Let to := mv_to m.
  Let pr := mv_promo m.

  Lemma from_lt : from < 64. Proof. apply mv_from_lt. Qed.
  Lemma to_lt : to < 64. Proof. apply mv_to_lt. Qed.
  Lemma pr_lt : pr < 8. Proof. apply mv_promo_lt. Qed.

  Lemma occ_eq : bor (colors b White) (colors b Black) = occ_of (abs b).
  Proof. rewrite (occ_of_abs b HR). reflexivity. Qed.

  Lemma knight_case : piece_at b from = Knight -> ipl_body b m = spec_body (abs b) m Knight.
  Proof.
    intros E. unfold ipl_body, spec_body. cbv zeta. fold from to pr. rewrite E.
    unfold NoPiece, Pawn, Knight, King, attacks_from, mem, knight_moves. cbn [N.eqb Pos.eqb negb].
    rewrite andb_true_r, band_bit_eq0, negb_involutive.
    unfold Pawn, Knight. cbn [N.eqb Pos.eqb].
    destruct (pr =? 0); reflexivity.
  Qed.

  Lemma bishop_case : piece_at b from = Bishop -> ipl_body b m = spec_body (abs b) m Bishop.
  Proof.
    intros E. unfold ipl_body, spec_body. cbv zeta. fold from to pr. rewrite E, occ_eq.
    unfold NoPiece, Pawn, Knight, Bishop, King, attacks_from, mem, bishop_moves. cbn [N.eqb Pos.eqb negb].
    rewrite andb_true_r, band_bit_eq0, negb_involutive.
    unfold Pawn, Knight, Bishop. cbn [N.eqb Pos.eqb].
    destruct (pr =? 0); reflexivity.
  Qed.

  Lemma rook_case : piece_at b from = Rook -> ipl_body b m = spec_body (abs b) m Rook.
  Proof.
    intros E. unfold ipl_body, spec_body. cbv zeta. fold from to pr. rewrite E, occ_eq.
    unfold NoPiece, Pawn, Knight, Bishop, Rook, King, attacks_from, mem, rook_moves. cbn [N.eqb Pos.eqb negb].
    rewrite andb_true_r, band_bit_eq0, negb_involutive.
    unfold Pawn, Knight, Bishop, Rook. cbn [N.eqb Pos.eqb].
    destruct (pr =? 0); reflexivity.
  Qed.

  Lemma queen_case : piece_at b from = Queen -> ipl_body b m = spec_body (abs b) m Queen.
  Proof.
    intros E. unfold ipl_body, spec_body. cbv zeta. fold from to pr. rewrite E, occ_eq.
    unfold NoPiece, Pawn, Knight, Bishop, Rook, Queen, King, attacks_from, mem, rook_moves, bishop_moves, queen_attacks, bor.
    cbn [N.eqb Pos.eqb negb].
    rewrite andb_true_r, band_bit_eq0, negb_involutive.
    unfold Pawn, Knight, Bishop, Rook, Queen. cbn [N.eqb Pos.eqb].
    destruct (pr =? 0); reflexivity.
  Qed.

  Lemma pawn_case : piece_at b from = Pawn -> ipl_body b m = spec_body (abs b) m Pawn.
  Proof.
    intros E. pose proof from_lt as Hf. pose proof to_lt as Ht. pose proof pr_lt as Hp.
    set (c := stm b).
    pose proof (pawn_geom c from to Hf Ht) as G. unfold pawn_geom_check in G.
    rewrite !andb_true_iff in G. destruct G as [[[[[G1 G2] G3] G4] G5] G6].
    apply eqb_prop in G1, G2, G3.
    (* the engine side *)
    assert (HI : ipl_body b m =
      (if p_db c from to then false else
       if p_on7 c from && ((pr <? Knight) || (Queen <? pr)) then false else
       if negb (p_on7 c from) && negb (pr =? 0) then false else
       if p_fd from to =? 0 then
         (if p_rd from to =? 1 then negb (N.testbit (occupancy b) to)
          else if p_rd from to =? 2 then
            (if p_off2 c from then false
             else negb (N.testbit (occupancy b) to) && negb (N.testbit (occupancy b) ((from + to) / 2)))
          else false)
       else if p_fd from to =? 1 then
         (if negb (p_rd from to =? 1) then false
          else N.testbit (colors b (flip c)) to || (negb (ep b =? 0) && (ep b =? to)))
       else false)).
    { unfold ipl_body. cbv zeta. fold from to pr c. rewrite E.
      fold (occupancy b). fold (p_db c from to) (p_on7 c from) (p_off2 c from) (p_fd from to) (p_rd from to).
      change (Pawn =? Pawn) with true. change (Pawn =? Knight) with false. change (Pawn =? Bishop) with false.
      change (Pawn =? Rook) with false. change (Pawn =? Queen) with false. change (Pawn =? King) with false.
      cbn [negb]. rewrite andb_false_r. cbv iota. unfold NoPiece.
      rewrite band_bor_eq0, !band_bit_eq0, negb_involutive, bor_tb.
      replace (N.testbit (if negb (ep b =? 0) then bit (ep b) else 0) to) with (negb (ep b =? 0) && (ep b =? to)).
      2:{ destruct (ep b =? 0); cbn [negb andb]; [rewrite N.bits_0|rewrite bit_testbit]; reflexivity. }
      reflexivity. }
    (* the rules side *)
    assert (Hmid : (from + to) / 2 < 64).
    { apply N.div_lt_upper_bound; [discriminate|lia]. }
    assert (HS : spec_body (abs b) m Pawn =
      (if rank_n to =? last_rank c then negb ((pr <? Knight) || (Queen <? pr)) else pr =? 0) &&
      ((p_g1 c from to && negb (N.testbit (occupancy b) to))
       || (p_g2 c from to && negb (N.testbit (occupancy b) ((from + to) / 2)) && negb (N.testbit (occupancy b) to))
       || (p_g3 c from to && (N.testbit (colors b (flip c)) to || (negb (ep b =? 0) && (ep b =? to)))))).
    { unfold spec_body. cbv zeta. fold from to pr. change (turn (abs b)) with c.
      change (Pawn =? Pawn) with true. cbv iota.
      rewrite (promo_piece_range pr Hp), G1, G3, (empty_abs b HR to Ht), (owned_by_abs b HR to (flip c) Ht).
      rewrite G2. rewrite (epsq_abs b).
      replace (match (if ep b =? 0 then None else Some (ep b)) with Some e => e =? to | None => false end)
        with (negb (ep b =? 0) && (ep b =? to)) by (destruct (ep b =? 0); reflexivity).
      destruct (p_g2 c from to) eqn:E2; cbn [andb orb negb] in *.
      - apply N.eqb_eq in G4. rewrite G4. rewrite (empty_abs b HR _ Hmid). reflexivity.
      - reflexivity. }
    rewrite HI, HS. clear HI HS.
    unfold p_g1, p_g2, p_g3 in *.
    set (e_mid := negb (N.testbit (occupancy b) ((from + to) / 2))).
    set (e_to := negb (N.testbit (occupancy b) to)).
    set (cap := N.testbit (colors b (flip c)) to || negb (ep b =? 0) && (ep b =? to)).
    clearbody e_mid e_to cap.
    assert (Hfd : (p_fd from to =? 0) && (p_fd from to =? 1) = false).
    { destruct (N.eqb_spec (p_fd from to) 0) as [->|]; reflexivity. }
    assert (Hrd : (p_rd from to =? 1) && (p_rd from to =? 2) = false).
    { destruct (N.eqb_spec (p_rd from to) 1) as [->|]; reflexivity. }
    apply pawn_bool; try assumption.
    - intros X. rewrite X in G5. cbn [negb orb] in G5. apply eqb_prop in G5. exact G5.
    - intros X. rewrite X in G6. cbn [negb orb] in G6. apply andb_prop in G6. destruct G6 as [A B].
      apply negb_true_iff in A, B. split; assumption.
  Qed.
End Pieces.
