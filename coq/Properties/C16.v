(* C16 - Move picker yields every pseudo-legal move exactly once, hash move first; history weights
   stay within their designed bands for any sequence of updates.
   Statements only; proofs live in Proofs/HistProofs.v, Proofs/PickerProofs.v, Proofs/C16Proofs.v.
   MaxHistory, Captures, CaptureRange, HashMove, the history bonus parameters, the piece codes, the
   move encoding layout and StoreSize come from Gen/HeurConsts.v, regenerated from /repo on every
   run; every statement below is re-checked against the regenerated values.

   Vocabulary (Proofs/HistProofs.v, Proofs/PickerProofs.v):
     in_history_band h      := -MaxHistory <= h <= MaxHistory
     in_quiet_band w        := -3*MaxHistory <= w <= 3*MaxHistory
     in_good_capture_band w := Captures <= w < Captures + CaptureRange
     in_bad_capture_band w  := -Captures - CaptureRange <= w < -Captures
     sentinel               := -HashMove       (weight of the hash move's second copy)
     rest_threshold         := -HashMove + 1   (yieldRest yields a move iff its weight is above it)
     reachable r            := r arises from the cleared MoveRanker by any sequence of FailHigh
                               calls (any arguments) and Add calls on the four tables
     moves_of e             := the generated moves (noisy ++ quiet) of the environment e
     fresh_frame s          := the caller pushed a frame for the picker (its top frame is empty)
     store_room s e         := allocated + 1 + |noisy| + |quiet| <= StoreSize   (store_ok, DESIGN O2) *)
From Coq Require Import ZArith List Bool Permutation.
Import ListNotations.
From Chess3 Require Import Base.Word Gen.HeurConsts Model.Hist Model.Picker Spec.PickerSpec
  Proofs.HistProofs Proofs.PickerProofs Proofs.PickerPoked Proofs.C16Proofs Proofs.PickerSpecProofs.
Open Scope Z_scope.

(* ---- history weights ---------------------------------------------------------------------- *)

(* one gravity update, for EVERY stored value of the band and EVERY bonus (no range restriction on
   the bonus is needed; Go passes an int16): the result is in the band, and the Go expression with
   its three int16 conversions computes exactly the unbounded-integer value *)
Theorem C16_gravity : forall h bonus, - MaxHistory <= h <= MaxHistory ->
  - MaxHistory <= hist_add h bonus <= MaxHistory
  /\ hist_add h bonus =
       h + (clamp bonus (- MaxHistory) MaxHistory
            - Z.quot (h * Z.abs (clamp bonus (- MaxHistory) MaxHistory)) MaxHistory).
Proof. exact gravity. Qed.
Print Assumptions C16_gravity.

(* lifted to any sequence of updates: every cell of every table of every reachable ranker *)
Theorem C16_history_cells : forall r, reachable r ->
  forall k, in_history_band (tget (r_hist r) k) /\ in_history_band (tget (r_capt r) k)
         /\ in_history_band (tget (r_cont0 r) k) /\ in_history_band (tget (r_cont1 r) k).
Proof. intros r H k. destruct (reachable_ok r H) as (H1 & H2 & H3 & H4). auto. Qed.
Print Assumptions C16_history_cells.

Theorem C16_quiet_weight : forall r stm m moved top0 top1 w, reachable r ->
  rank_quiet r stm m moved top0 top1 = Some w -> - 3 * MaxHistory <= w <= 3 * MaxHistory.
Proof. intros r stm m moved top0 top1 w H. apply rank_quiet_band. apply reachable_ok. exact H. Qed.
Print Assumptions C16_quiet_weight.

Theorem C16_noisy_weight : forall m attacker victim (see : bool),
  0 <= attacker <= King -> 0 <= victim <= King ->
  (if see then in_good_capture_band else in_bad_capture_band) (rank_noisy (move_promo m) attacker victim see).
Proof. intros m a v see Ha Hv. apply rank_noisy_band; auto. apply move_promo_range. Qed.
Print Assumptions C16_noisy_weight.

(* layout of the bands: no ranked weight is the sentinel, is at or below the yieldRest threshold or
   reaches HashMove; all are Scores; bad captures < quiets < good captures, good captures positive *)
Theorem C16_band_layout :
  (forall w, in_noisy_band w -> w <> sentinel /\ rest_threshold < w /\ w < HashMove /\ -32768 <= w <= 32767)
  /\ (forall w, in_quiet_band w -> w <> sentinel /\ rest_threshold < w /\ w < HashMove /\ -32768 <= w <= 32767
                                   /\ ~ in_good_capture_band w /\ ~ in_bad_capture_band w)
  /\ (forall wb wq wg, in_bad_capture_band wb -> in_quiet_band wq -> in_good_capture_band wg ->
        rest_threshold < wb /\ wb < wq /\ wq < wg /\ wb < 0 /\ 0 < wg /\ wg < HashMove).
Proof. exact (conj noisy_band_layout (conj quiet_band_layout band_order)). Qed.
Print Assumptions C16_band_layout.

(* ---- picker ------------------------------------------------------------------------------- *)

(* hm: hash move; e: IsPseudoLegal(hm), the generated noisy and quiet moves with their weights.
   The first two hypotheses are what C05 / C01 provide for a valid position. *)
Theorem C16_picker : forall s hm e,
  fresh_frame s -> store_room s e ->
  (e_ipl e = true <-> In hm (moves_of e)) ->
  NoDup (moves_of e) ->
  weights_in_band e ->
  exists ys q,
    drain_from (drain_fuel e) e (picker_new s hm) = Some (ys, q)
    /\ drain e (picker_new s hm) = Some ys
    /\ Permutation (map fst ys) (moves_of e)
    /\ (e_ipl e = true -> hd_error ys = Some (hm, HashMove))
    /\ store_pop (p_store q) = store_pop s.
Proof. exact picker_correct_bands. Qed.
Print Assumptions C16_picker.

(* the same with the only fact about the weights the picker needs: above the yieldRest threshold *)
Theorem C16_picker_threshold : forall s hm e,
  fresh_frame s -> store_room s e ->
  (e_ipl e = true <-> In hm (moves_of e)) ->
  NoDup (moves_of e) ->
  (forall mw, In mw (e_noisy e ++ e_quiet e) -> rest_threshold < snd mw) ->
  exists ys q,
    drain_from (drain_fuel e) e (picker_new s hm) = Some (ys, q)
    /\ drain e (picker_new s hm) = Some ys
    /\ Permutation (map fst ys) (moves_of e)
    /\ (e_ipl e = true -> hd_error ys = Some (hm, HashMove))
    /\ store_pop (p_store q) = store_pop s.
Proof. exact picker_correct. Qed.
Print Assumptions C16_picker_threshold.

(* both halves together: weights computed by RankNoisy / RankQuiet from any reachable state of the
   histories, for any position abstraction *)
Theorem C16_end_to_end : forall r stm top0 top1 ipl noisy quiet e s hm,
  reachable r -> Forall attrs_ok noisy ->
  ranked_env r stm top0 top1 ipl noisy quiet = Some e ->
  fresh_frame s -> store_room s e ->
  (ipl = true <-> In hm (map na_move noisy ++ map qa_move quiet)) ->
  NoDup (map na_move noisy ++ map qa_move quiet) ->
  weights_in_band e
  /\ exists ys q,
    drain_from (drain_fuel e) e (picker_new s hm) = Some (ys, q)
    /\ drain e (picker_new s hm) = Some ys
    /\ Permutation (map fst ys) (map na_move noisy ++ map qa_move quiet)
    /\ (ipl = true -> hd_error ys = Some (hm, HashMove))
    /\ store_pop (p_store q) = store_pop s.
Proof. exact picker_end_to_end. Qed.
Print Assumptions C16_end_to_end.

(* the situation inside the search: after every yield the caller overwrites the weight of the entry
   it was handed (search.go: w.Weight = value / -Inf) with ANY value (pokes: one optional value per
   yield); the drained sequence is still every generated move exactly once, hash move first *)
Theorem C16_picker_under_search_writes : forall s hm e pokes,
  fresh_frame s -> store_room s e ->
  (e_ipl e = true <-> In hm (moves_of e)) ->
  NoDup (moves_of e) ->
  weights_in_band e ->
  exists ys q,
    drain_poked (drain_fuel e) pokes e (picker_new s hm) = Some (ys, q)
    /\ Permutation (map fst ys) (moves_of e)
    /\ (e_ipl e = true -> hd_error ys = Some (hm, HashMove))
    /\ store_pop (p_store q) = store_pop s.
Proof.
  intros s hm e pokes Hf Hr Hi Hn Hw. apply picker_correct_poked; auto.
  apply weights_in_band_above_threshold. exact Hw.
Qed.
Print Assumptions C16_picker_under_search_writes.

(* FailHigh does not panic on what the search hands it (so [reachable] is closed under every such
   call): side to move 0/1, moved piece pawn..king, captured piece none..queen, history stack
   entries with a real piece on a real square; any depth, any weights, any move encodings *)
Theorem C16_fail_high_total : forall d stm top0 top1 moves r,
  0 <= stm <= 1 -> top_ok top0 -> top_ok top1 -> Forall fh_move_ok moves ->
  exists r', fail_high d stm top0 top1 moves r = Some r'.
Proof. intros. now apply fail_high_total. Qed.
Print Assumptions C16_fail_high_total.

(* the oracle of the witness search (Spec/PickerSpec.v, used by judge_c16p) decides exactly
   "yielded is a duplicate-free rearrangement of the generated moves" *)
Theorem C16_judge_oracle : forall yielded generated,
  (exactly_once yielded generated = true -> Permutation yielded generated /\ NoDup yielded /\ NoDup generated)
  /\ (Permutation yielded generated -> NoDup generated -> exactly_once yielded generated = true).
Proof. intros y g. split; [apply exactly_once_sound|apply exactly_once_complete]. Qed.
Print Assumptions C16_judge_oracle.

(* ---- examples ----------------------------------------------------------------------------- *)

(* non-vacuity of C16_gravity / the reachability notion: a saturated cell *)
Example C16_gravity_nonvacuous :
  hist_add 1000 1024 = 1024 /\ hist_add 1024 (-300) = 424 /\ hist_add (-1024) (-32768) = -1024
  /\ exists r, reachable r /\ history_get r 0 12 28 = Some 1024.
Proof.
  repeat split; try (vm_compute; reflexivity).
  (* FailHigh(d = 127) in the start position with the single move e2e4 (from 12, to 28, a pawn) *)
  eexists. split.
  - eapply (reach_fail_high ranker_new 127 0 None None
             [{| fm_move := 796; fm_moved := Pawn; fm_captured := NoPiece; fm_weight := 0 |}]).
    + apply reach_new.
    + vm_compute. reflexivity.
  - vm_compute. reflexivity.
Qed.

(* a concrete environment meeting every hypothesis of C16_picker: two captures (one good, one bad),
   three quiet moves, the hash move is the second quiet move; the lower frame holds two moves *)
Definition ex_env : env :=
  {| e_ipl := true;
     e_noisy := [(1893, 7174); (2404, -8180)];
     e_quiet := [(796, 12); (405, -3072); (528, 3072)] |}.
Definition ex_store : store := store_push {| s_data := [(8, 1); (15, 2)]; s_frames := [0%nat] |}.

Example C16_picker_nonvacuous :
  fresh_frame ex_store /\ store_room ex_store ex_env
  /\ (e_ipl ex_env = true <-> In 405 (moves_of ex_env)) /\ NoDup (moves_of ex_env)
  /\ weights_in_band ex_env
  /\ drain ex_env (picker_new ex_store 405)
     = Some [(405, HashMove); (1893, 7174); (528, 3072); (796, 12); (2404, -8180)].
Proof.
  split; [apply push_fresh|].
  split; [vm_compute; discriminate|].
  split; [split; [intros _; vm_compute; tauto|reflexivity]|].
  split.
  { unfold moves_of, ex_env. cbn [map app e_noisy e_quiet fst].
    repeat (constructor; [cbn [In]; intros H; repeat destruct H as [H|H]; try discriminate H; try exact H|]).
    constructor. }
  split.
  { unfold weights_in_band, ex_env, in_noisy_band, in_quiet_band, in_good_capture_band, in_bad_capture_band.
    cbn [e_noisy e_quiet]. split; repeat constructor; cbn [snd]; vm_compute; intuition discriminate. }
  vm_compute. reflexivity.
Qed.

(* the same environment with the search writing -Inf, the sentinel, HashMove ... into the yielded entries *)
Example C16_picker_under_search_writes_example :
  option_map fst (drain_poked (drain_fuel ex_env) [Some (-10000); Some (- HashMove); None; Some HashMove; Some 32767] ex_env (picker_new ex_store 405))
  = Some [(405, HashMove); (1893, 7174); (528, 3072); (796, 12); (2404, -8180)].
Proof. vm_compute. reflexivity. Qed.

(* What happens when the first hypothesis fails.
   (a) IsPseudoLegal accepts a move the generator does not produce (defect F1: e2e3 with promotion
       bits, encoding 0x5314, in the start position; fixed in 06f039b): the picker yields 21 moves,
       one of them not generated. *)
Definition startpos_quiet : list wmove :=
  map (fun m => (m, 0)) [80; 82; 405; 407; 528; 593; 658; 723; 788; 853; 918; 983; 536; 601; 666; 731; 796; 861; 926; 991].

Example C16_picker_refuted_when_ipl_accepts_a_non_generated_move :
  let e := {| e_ipl := true; e_noisy := []; e_quiet := startpos_quiet |} in
  let hm := 21268 in
  NoDup (moves_of e) /\ weights_in_band e /\ ~ In hm (moves_of e)
  /\ exists ys, drain e (picker_new (store_push store_new) hm) = Some ys
       /\ length ys = 21%nat /\ hd_error ys = Some (hm, HashMove)
       /\ ~ Permutation (map fst ys) (moves_of e).
Proof.
  cbv zeta. split; [|split; [|split]].
  - unfold moves_of. cbn [e_noisy e_quiet app].
    unfold startpos_quiet. rewrite map_map. cbn [map fst].
    repeat (constructor; [cbn [In]; intros H; repeat destruct H as [H|H]; try discriminate H; try exact H|]).
    constructor.
  - unfold weights_in_band. cbn [e_noisy e_quiet]. split; [constructor|].
    unfold startpos_quiet. apply Forall_forall. intros mw Hin. apply in_map_iff in Hin.
    destruct Hin as (m & <- & _). cbn [snd]. unfold in_quiet_band, MaxHistory. split; discriminate.
  - vm_compute. intros H. repeat destruct H as [H|H]; try discriminate H; exact H.
  - eexists. split; [vm_compute; reflexivity|]. split; [reflexivity|]. split; [reflexivity|].
    intros Hp. apply Permutation_length in Hp. vm_compute in Hp. discriminate Hp.
Qed.

(* (b) the converse failure: IsPseudoLegal rejects a generated move given as hash move: its only
       copy is suppressed as "already yielded" and the move is lost. *)
Example C16_picker_refuted_when_ipl_rejects_a_generated_move :
  let e := {| e_ipl := false; e_noisy := []; e_quiet := startpos_quiet |} in
  let hm := 796 in
  In hm (moves_of e)
  /\ exists ys, drain e (picker_new (store_push store_new) hm) = Some ys
       /\ length ys = 19%nat /\ ~ In hm (map fst ys).
Proof.
  cbv zeta. split.
  - vm_compute. tauto.
  - eexists. split; [vm_compute; reflexivity|]. split; [reflexivity|].
    vm_compute. intros H. repeat destruct H as [H|H]; try discriminate H; exact H.
Qed.

(* (c) outside the band the sentinel mechanism does lose moves: a weight at the yieldRest threshold
       is never yielded (so the band theorem above is what keeps quiet moves from being mistaken for
       already-yielded duplicates) *)
Example C16_weight_at_threshold_is_dropped :
  let e := {| e_ipl := false; e_noisy := []; e_quiet := [(796, 0); (405, rest_threshold)] |} in
  drain e (picker_new (store_push store_new) 0) = Some [(796, 0)].
Proof. vm_compute. reflexivity. Qed.
