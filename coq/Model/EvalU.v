(* Property C19: the evaluation over the integers WITHOUT int16 wrap-around, the hypothesis "no
   int16 overflow" in executable form, and the stream that checks both on real positions.
   Definitions only.

   [eval_Z] (Model/Eval.v) reduces every + - * and conversion modulo 2^16, as the Go code does on
   Score = int16.  The real-number evaluation can only be compared with it where these reductions
   are the identity.  Reduction modulo 2^16 is a ring morphism, so it is enough that the values that
   are fed to a NON-ring operation are in range: the four king-attack sums (clamped and looked up in
   the sigmoid table), the two score differences (converted to int and tapered) and the result.
   [no_wrap] says exactly that about the non-wrapping evaluation [eval_U].                        *)
From Coq Require Import NArith ZArith List Bool.
From Chess3 Require Import Base.Bits Base.Word Model.Types Model.Att Model.BoardDef Gen.Coeffs Model.Eval.
Import ListNotations.
Open Scope Z_scope.

(* sigmoidal[Score] / taperedScore[Score] without the final conversion to int16 *)
Definition sigmoid_U (n : Z) : Z :=
  nth (Z.to_nat (clamp n 0 (Z.of_nat (length sigm) - 1))) sigm 0.

Definition taper_U (mg eg mgPhase egPhase fifty : Z) : Z :=
  let v := mg * mgPhase + eg * egPhase in
  let v := v * wrapS fifty_bits (100 - fifty) in
  Z.quot (Z.quot v MaxPhase) 100.

Definition ops_U : score_ops Z := mkOps Z Z.add Z.sub Z.mul (fun n => n) sigmoid_U taper_U.

Definition eval_U (c : CoeffSet Z) (b : board) : Z := eval_gen ops_U c b.

Section Parts.
Context {T : Type} (O : score_ops T) (C : CoeffSet T).

(* the statements of Eval between the KNBvK test and `sp.addKingAttacks(ka)` - the let-bound list
   inside [main_terms] *)
Definition pre_terms (b : board) : list (bump T) :=
  let pw := calc_pw_pre b in
  let ptW := piece_terms O C b pw White in
  let ptB := piece_terms O C b pw Black in
  let mk (c : color) (a : N * N * N * N) :=
    mkAtt (sel (pw_att_pawn pw) c) (fst (fst (fst a))) (snd (fst (fst a))) (snd (fst a)) (snd a) (sel (pw_att_king pw) c) in
  let att := (mk White (fst ptW), mk Black (fst ptB)) in
  add_tempo O C b ++ add_bishop_pair O C b ++
  add_passers O C b pw ++ add_doubled O C pw ++ add_isolated O C pw ++
  snd ptW ++ snd ptB ++
  safety_terms O C b pw att White ++ safety_terms O C b pw att Black.

(* ka.score[ph][c] when addKingAttacks runs *)
Definition ka_sum (b : board) (s : slot) (c : color) : T := total O s c (pre_terms b).

(* mgScore / egScore of taperedScore *)
Definition all_terms (b : board) : list (bump T) := add_piece_values O C b ++ main_terms O C b.
Definition mg_score (b : board) : T := s_sub O (total O MG (stm b) (all_terms b)) (total O MG (flip (stm b)) (all_terms b)).
Definition eg_score (b : board) : T := s_sub O (total O EG (stm b) (all_terms b)) (total O EG (flip (stm b)) (all_terms b)).

End Parts.

Definition in_score (x : Z) : bool := (- 2 ^ (score_bits - 1) <=? x) && (x <? 2 ^ (score_bits - 1)).

Definition no_wrap (c : CoeffSet Z) (b : board) : bool :=
  if insufficient_mat b then true else
  if knbvk b then in_score (eval_U c b) else
  in_score (ka_sum ops_U c b KA0 White) && in_score (ka_sum ops_U c b KA0 Black) &&
  in_score (ka_sum ops_U c b KA1 White) && in_score (ka_sum ops_U c b KA1 Black) &&
  in_score (mg_score ops_U c b) && in_score (eg_score ops_U c b) && in_score (eval_U c b).

(* the tuner's sign convention (EngineRep.Eval): scores are reported from White's point of view *)
Definition white_rel_Z (b : board) (x : Z) : Z := match stm b with White => x | Black => - x end.

(* [eval_U] and [no_wrap] in one pass (the bump list is computed once); Proofs/EvalMorph.v proves
   eval_nowrap_fast c b = (eval_U c b, no_wrap c b) *)
Definition eval_nowrap_fast (c : CoeffSet Z) (b : board) : Z * bool :=
  if insufficient_mat b then (0, true) else
  let pv := add_piece_values ops_U c b in
  if knbvk b then
    let r := endgame_score ops_U b (pv ++ knbvk_terms ops_U c b) in (r, in_score r)
  else
    let pre := pre_terms ops_U c b in
    let all := pv ++ pre ++ add_king_attacks ops_U pre in
    let mg := total ops_U MG (stm b) all - total ops_U MG (flip (stm b)) all in
    let eg := total ops_U EG (stm b) all - total ops_U EG (flip (stm b)) all in
    let mgPhase := Z.min (phase_of b) MaxPhase in
    let r := taper_U mg eg mgPhase (MaxPhase - mgPhase) (fifty b) in
    (r, in_score (total ops_U KA0 White pre) && in_score (total ops_U KA0 Black pre) &&
        in_score (total ops_U KA1 White pre) && in_score (total ops_U KA1 Black pre) &&
        in_score mg && in_score eg && in_score r).

(* stream c19z: board-in -> [eval_Z; eval_U; no_wrap] (the implementation prints its int16 result twice and 1) *)
Definition run_c19z (l : list Z) : list Z :=
  match decode_board l with
  | Some (b, _) =>
      let un := eval_nowrap_fast Coefficients b in
      [eval_Z Coefficients b; fst un; if snd un then 1 else 0]
  | None => []
  end.
