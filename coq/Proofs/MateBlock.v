(* C09, soundness of the interposition exit of IsCheckmate:

     blocked := InBetween[kingSq][aSq] & ^(king | attacker);  defenders := Block(blocked, me)
     for each defender { nocc := (occ &^ defender) | blocked
                         if no enemy bishop/rook/queen hits kingSq in nocc { return false } }

   If the loop returns, that defender can legally move to a square between king and checker.
   (The pin test fills ALL blocked squares although the move fills one: sound because a ray from the
   king that meets a blocked square is the ray of the checker.) *)
From Coq Require Import NArith ZArith List Bool Lia.
From Chess3 Require Import Base.Bits Model.Types Spec.Geometry Model.Att Model.BoardDef Model.Board
     Model.Movegen Model.Mate Spec.Chess Spec.Rep Proofs.MateGeom Proofs.MateAbs Proofs.MateKing
     Proofs.MateMove Proofs.MateCapture Proofs.MateBlockGeom.
Import ListNotations.
Open Scope N_scope.

(* ------------------------------------------------------------------------------------------ *)
(* the line of the checker *)

Lemma hit_prefix dirs s occ t : hit dirs s occ t = true ->
  exists dir pre, In dir dirs /\ prefix_to (ray s dir) t = Some pre /\ all_clear occ pre = true.
Proof.
  unfold hit. intros H. apply existsb_exists in H. destruct H as [dir [Hd H]].
  destruct (prefix_to (ray s dir) t) as [pre|] eqn:E; [|discriminate]. exists dir, pre. tauto.
Qed.

Lemma all_clear_in occ pre x : all_clear occ pre = true -> In x pre -> N.testbit occ x = false.
Proof. unfold all_clear. rewrite forallb_forall. intros H Hx. apply negb_true_iff. apply H. exact Hx. Qed.

Lemma set_of_in l x : N.testbit (set_of l) x = true <-> In x l.
Proof.
  rewrite set_of_testbit. rewrite existsb_exists. split.
  - intros [y [Hy E]]. apply N.eqb_eq in E. subst. exact Hy.
  - intros H. exists x. split; [exact H|apply N.eqb_refl].
Qed.

Section Block.
Variable b : board.
Hypothesis HR : Rep b.
Hypothesis HV : valid (abs b) = true.
Let me := stm b.
Let them := flip me.
Let occ := occupancy b.

Variables k0 a : N.
Hypothesis Hk0 : k0 < 64.
Hypothesis Hking : forall s, s < 64 -> holds (abs b) s me King = (s =? k0).
Hypothesis Ha : a < 64.
Hypothesis Haopp : N.testbit (colors b them) a = true.
Hypothesis Hatk : N.testbit (attackers b (bit k0) occ them) a = true.
Hypothesis Hsingle : forall u, N.testbit (attackers b (bit k0) occ them) u = true -> u = a.

(* the blocked squares are the empty squares of one ray prefix - or there are none *)
Lemma blocked_line :
  blocked_of k0 a = 0 \/
  exists pre, blocked_of k0 a = set_of pre /\ all_clear occ pre = true.
Proof.
  pose proof Hatk as H. rewrite attackers_testbit in H by exact Hk0. apply andb_prop in H. destruct H as [_ H].
  assert (Hleap : N.testbit (king_attacks a) k0 = true \/ N.testbit (knight_attacks a) k0 = true -> blocked_of k0 a = 0).
  { intros Hl. pose proof (leaper_blocked k0 a Hk0 Ha) as C. unfold leaper_blocked_check in C.
    destruct Hl as [Hl|Hl]; rewrite Hl in C; rewrite ?orb_true_r in C; cbn [orb] in C; apply N.eqb_eq; exact C. }
  repeat (apply orb_true_iff in H; destruct H as [H|H]); apply andb_prop in H; destruct H as [Hm _].
  - left. apply Hleap. left. unfold king_moves in Hm. rewrite king_sym by assumption. exact Hm.
  - left. apply Hleap. right. unfold knight_moves in Hm. rewrite knight_sym by assumption. exact Hm.
  - right. unfold bishop_moves in Hm. rewrite bishop_testbit in Hm.
    destruct (hit_prefix _ _ _ _ Hm) as (dir & pre & Hd & Hp & Hc). exists pre. split; [|exact Hc].
    pose proof (bishop_blocked_check k0 a Hk0 Ha) as C. unfold blocked_check in C. rewrite forallb_forall in C.
    specialize (C dir Hd). rewrite Hp in C. apply N.eqb_eq. exact C.
  - right. unfold rook_moves in Hm. rewrite rook_testbit in Hm.
    destruct (hit_prefix _ _ _ _ Hm) as (dir & pre & Hd & Hp & Hc). exists pre. split; [|exact Hc].
    pose proof (rook_blocked_check k0 a Hk0 Ha) as C. unfold blocked_check in C. rewrite forallb_forall in C.
    specialize (C dir Hd). rewrite Hp in C. apply N.eqb_eq. exact C.
  - left. apply Hleap. left. rewrite (pawn_sym them k0 a Hk0 Ha) in Hm.
    apply (pawn_in_king _ a k0 Ha Hm).
Qed.

Lemma blocked_clear x : N.testbit (blocked_of k0 a) x = true -> N.testbit occ x = false.
Proof.
  intros Hx. destruct blocked_line as [E|[pre [E Hc]]].
  - rewrite E, N.bits_0 in Hx. discriminate.
  - rewrite E in Hx. apply set_of_in in Hx. apply (all_clear_in occ pre x Hc Hx).
Qed.

Lemma blocked_lt x : N.testbit (blocked_of k0 a) x = true -> x < 64 /\ x <> a /\ x <> k0.
Proof.
  unfold blocked_of, band. rewrite N.land_spec, bnot_testbit. intros H. apply andb_prop in H. destruct H as [_ H].
  apply andb_prop in H. destruct H as [H1 H2]. apply N.ltb_lt in H1. apply negb_true_iff in H2.
  unfold bor in H2. rewrite N.lor_spec, !bit_testbit in H2. apply orb_false_elim in H2. destruct H2 as [A B].
  apply N.eqb_neq in A, B. repeat split; congruence.
Qed.

(* ------------------------------------------------------------------------------------------ *)
(* a man other than the king that moves onto a blocked square and passes the pin test *)

Variables d sq : N.
Hypothesis Hd : d < 64.
Hypothesis Hsq : N.testbit (blocked_of k0 a) sq = true.
Hypothesis Hpin : slider_hits b k0 (bor (band occ (bnot (bit d))) (blocked_of k0 a)) (colors b them) = false.

Let nocc := bor (band occ (bnot (bit d))) (blocked_of k0 a).

Lemma block_slider dirs occ' u :
  (forall s t, s < 64 -> t < 64 -> sym_check dirs s t = true) ->
  (forall s t, s < 64 -> t < 64 -> ends_check dirs s t = true) ->
  (forall k a, k < 64 -> a < 64 -> blocked_check dirs k a = true) ->
  triple_all dirs = true ->
  (forall i, N.testbit occ' i = (i <? 64) && ((sq =? i) || (negb (d =? i) && N.testbit occ i))) ->
  d <> a -> u < 64 -> N.testbit occ u = true ->
  hit dirs u occ' k0 = true -> hit dirs k0 nocc u = true.
Proof.
  intros Hsym Hends Hbl Htr Hocc' Hda Hu Huocc Hhit.
  apply (hit_sym_gen dirs Hsym u k0 occ' Hu Hk0) in Hhit.
  destruct (hit_prefix _ _ _ _ Hhit) as (dir & pre & Hdir & Hp & Hc).
  unfold hit. apply existsb_exists. exists dir. split; [exact Hdir|]. rewrite Hp.
  unfold all_clear. apply forallb_forall. intros x Hx. apply negb_true_iff.
  pose proof (all_clear_in occ' pre x Hc Hx) as Hx'. rewrite Hocc' in Hx'.
  (* x < 64 *)
  pose proof (Hends k0 u Hk0 Hu) as He. unfold ends_check in He. rewrite forallb_forall in He.
  specialize (He dir Hdir). rewrite Hp in He. apply andb_prop in He. destruct He as [_ He].
  rewrite forallb_forall in He. specialize (He x Hx). rewrite He in Hx'. cbn [andb] in Hx'.
  apply orb_false_elim in Hx'. destruct Hx' as [Hxsq Hxd].
  unfold nocc, bor, band. rewrite N.lor_spec, N.land_spec, bnot_testbit, bit_testbit, He. cbn [andb].
  rewrite (andb_comm (N.testbit occ x)), Hxd. cbn [orb].
  destruct (N.testbit (blocked_of k0 a) x) eqn:Hbx; [|reflexivity]. exfalso.
  pose proof (triple_lift dirs Htr k0 a u Hk0 Ha Hu) as T. unfold triple_check in T. cbv zeta in T.
  rewrite forallb_forall in T. specialize (T dir Hdir). rewrite Hp in T.
  assert (Hmeet : (N.land (set_of pre) (blocked_of k0 a) =? 0) = false).
  { apply N.eqb_neq. apply (testbit_nonzero _ x). rewrite N.land_spec, Hbx, andb_true_r. apply set_of_in. exact Hx. }
  rewrite Hmeet in T. cbn [orb] in T.
  apply orb_true_iff in T. destruct T as [T|T]; [apply orb_true_iff in T; destruct T as [T|T]|].
  - (* the checker stands on the prefix: it is occupied *)
    apply existsb_exists in T. destruct T as [y [Hy E]]. apply N.eqb_eq in E. subst y.
    pose proof (all_clear_in occ' pre a Hc Hy) as F. rewrite Hocc' in F.
    destruct (N.ltb_spec a 64); [|lia]. cbn [andb] in F. apply orb_false_elim in F. destruct F as [_ F].
    destruct (N.eqb_spec d a); [contradiction|]. cbn [negb andb] in F.
    unfold occ in F. rewrite (occupancy_of_color b them a Haopp) in F. discriminate.
  - (* u stands between king and checker: but those squares are empty *)
    rewrite (blocked_clear u T) in Huocc. discriminate.
  - (* u is the checker: the blocked square sq is on the prefix and occupied after the move *)
    apply N.eqb_eq in T. subst u.
    pose proof (Hbl k0 a Hk0 Ha) as C. unfold blocked_check in C. rewrite forallb_forall in C.
    specialize (C dir Hdir). rewrite Hp in C. apply N.eqb_eq in C.
    pose proof Hsq as S. rewrite C in S. apply set_of_in in S.
    pose proof (all_clear_in occ' pre sq Hc S) as F. rewrite Hocc' in F.
    destruct (blocked_lt sq Hsq) as (L & _ & _). destruct (N.ltb_spec sq 64); [|lia].
    rewrite N.eqb_refl in F. discriminate.
Qed.

Lemma block_safe kd pr :
  who (abs b) d = Some (me, kd) -> kd <> King -> In pr [0; Knight; Bishop; Rook; Queen] ->
  is_ep_capture (abs b) (mk_move d sq pr) = false ->
  pseudo_spec (abs b) (mk_move d sq pr) = true ->
  legal_spec (abs b) (mk_move d sq pr) = true.
Proof.
  intros Hwd Hkd Hpr Hnep Hps.
  destruct (blocked_lt sq Hsq) as (Hsq64 & Hsqa & Hsqk).
  pose proof (blocked_clear sq Hsq) as Hsqempty.
  destruct (who_abs_inv b HR d me kd Hd Hwd) as (_ & _ & Hdown & _).
  assert (Hdsq : d <> sq).
  { intros E. subst sq. unfold occ in Hsqempty. rewrite (occupancy_of_color b me d Hdown) in Hsqempty. discriminate. }
  assert (Hda : d <> a).
  { intros E. subst a. rewrite (colors_disjoint b HR me d Hd Haopp) in Hdown. discriminate. }
  apply (move_legal b d sq kd pr k0 Hd Hsq64 Hk0 Hking Hwd Hkd Hpr Hdsq Hsqk Hnep Hps).
  intros u ku Hu Husq Hwu Hmem. fold me in Hwu. fold them in Hwu, Hmem.
  destruct (who_abs_inv b HR u them ku Hu Hwu) as (Hku & Hpu & Hcu & _).
  set (occ' := occ_of _) in Hmem.
  assert (Hocc' : forall i, N.testbit occ' i = (i <? 64) && ((sq =? i) || (negb (d =? i) && N.testbit occ i))).
  { intros i. unfold occ'. apply (move_occ b HR d sq kd pr k0 Hd Hsq64 Hk0 Hwd Hkd Hpr Hdsq Hsqk Hnep i). }
  assert (Huocc : N.testbit occ u = true) by (apply (occupancy_of_color b them u Hcu)).
  destruct (slider_hits_false b k0 _ _ u Hpin Hcu) as [Hdiag Hline].
  unfold mem in Hmem.
  (* a leaper that gives check is the checker, and then nothing can be blocked *)
  assert (Hleap : N.testbit (king_attacks u) k0 = true \/ N.testbit (knight_attacks u) k0 = true ->
                  N.testbit (attackers b (bit k0) occ them) u = true -> False).
  { intros Hl Hin. apply Hsingle in Hin. subst u.
    pose proof (leaper_blocked k0 a Hk0 Ha) as C. unfold leaper_blocked_check in C.
    destruct Hl as [Hl|Hl]; rewrite Hl in C; rewrite ?orb_true_r in C; cbn [orb] in C; apply N.eqb_eq in C;
      rewrite C, N.bits_0 in Hsq; discriminate. }
  assert (ku = 1 \/ ku = 2 \/ ku = 3 \/ ku = 4 \/ ku = 5 \/ ku = 6) as [->|[->|[->|[->|[->| ->]]]]] by lia.
  - apply Hleap.
    + left. apply (pawn_in_king them u k0 Hu). exact Hmem.
    + apply (attackers_complete b them 1 u k0 _ HR Hu Hk0 Hwu). exact Hmem.
  - apply Hleap.
    + right. exact Hmem.
    + apply (attackers_complete b them 2 u k0 _ HR Hu Hk0 Hwu). exact Hmem.
  - assert (Hh : hit bishop_dirs u occ' k0 = true) by (rewrite <- bishop_testbit; exact Hmem).
    apply (block_slider bishop_dirs occ' u bishop_sym_check bishop_ends_check bishop_blocked_check triple_all_bishop Hocc' Hda Hu Huocc) in Hh.
    rewrite <- bishop_testbit in Hh. apply (Hdiag Hh). change Bishop with 3. rewrite Hpu. reflexivity.
  - assert (Hh : hit rook_dirs u occ' k0 = true) by (rewrite <- rook_testbit; exact Hmem).
    apply (block_slider rook_dirs occ' u rook_sym_check rook_ends_check rook_blocked_check triple_all_rook Hocc' Hda Hu Huocc) in Hh.
    rewrite <- rook_testbit in Hh. apply (Hline Hh). change Rook with 4. rewrite Hpu. reflexivity.
  - assert (Hq : N.testbit (N.lor (rook_attacks u occ') (bishop_attacks u occ')) k0 = true) by exact Hmem.
    rewrite N.lor_spec in Hq. apply orb_true_iff in Hq. destruct Hq as [Hq|Hq].
    + rewrite rook_testbit in Hq.
      apply (block_slider rook_dirs occ' u rook_sym_check rook_ends_check rook_blocked_check triple_all_rook Hocc' Hda Hu Huocc) in Hq.
      rewrite <- rook_testbit in Hq. apply (Hline Hq). change Queen with 5. rewrite Hpu. apply orb_true_r.
    + rewrite bishop_testbit in Hq.
      apply (block_slider bishop_dirs occ' u bishop_sym_check bishop_ends_check bishop_blocked_check triple_all_bishop Hocc' Hda Hu Huocc) in Hq.
      rewrite <- bishop_testbit in Hq. apply (Hdiag Hq). change Queen with 5. rewrite Hpu. apply orb_true_r.
  - apply Hleap.
    + left. exact Hmem.
    + apply (attackers_complete b them 6 u k0 _ HR Hu Hk0 Hwu). exact Hmem.
Qed.

End Block.

(* ------------------------------------------------------------------------------------------ *)
(* set-wise pawn operations as unions over the members *)

Lemma set_of_bits_of x : set_of (bits_of x) = x.
Proof.
  apply N.bits_inj. intro i. apply Bool.eq_true_iff_eq. rewrite set_of_in. apply bits_of_spec.
Qed.

Lemma pspm_lor x y c : pawn_single_push_moves (N.lor x y) c =
  N.lor (pawn_single_push_moves x c) (pawn_single_push_moves y c).
Proof.
  unfold pawn_single_push_moves, bor. rewrite !shl_lor, !shr_lor, !shl_lor.
  apply N.bits_inj. intro i. rewrite !N.lor_spec.
  repeat match goal with |- context [N.testbit ?x i] => is_var i; let v := fresh "v" in generalize (N.testbit x i) as v; intro v end.
  intros. repeat match goal with v : bool |- _ => destruct v end; reflexivity.
Qed.

Lemma pspm_set_of l c i : N.testbit (pawn_single_push_moves (set_of l) c) i =
  existsb (fun s => N.testbit (pawn_single_push_moves (bit s) c) i) l.
Proof.
  induction l as [|s r IH]; cbn [set_of fold_right existsb].
  - destruct c; apply N.bits_0.
  - fold (set_of r). rewrite pspm_lor, N.lor_spec, IH. reflexivity.
Qed.

Lemma pspm_member x c i : N.testbit (pawn_single_push_moves x c) i = true ->
  exists s, N.testbit x s = true /\ N.testbit (pawn_single_push_moves (bit s) c) i = true.
Proof.
  rewrite <- (set_of_bits_of x) at 1. rewrite pspm_set_of. intros H. apply existsb_exists in H.
  destruct H as [s [Hs H]]. exists s. split; [apply bits_of_spec; exact Hs|exact H].
Qed.

Lemma pcm_set_of l c i : N.testbit (pawn_capture_moves (set_of l) c) i =
  existsb (fun s => N.testbit (pawn_capture_moves (bit s) c) i) l.
Proof.
  induction l as [|s r IH]; cbn [set_of fold_right existsb].
  - destruct c; apply N.bits_0.
  - fold (set_of r). rewrite pcm_lor, N.lor_spec, IH. reflexivity.
Qed.

Lemma pcm_member x c i : N.testbit (pawn_capture_moves x c) i = true ->
  exists s, N.testbit x s = true /\ N.testbit (pawn_capture_moves (bit s) c) i = true.
Proof.
  rewrite <- (set_of_bits_of x) at 1. rewrite pcm_set_of. intros H. apply existsb_exists in H.
  destruct H as [s [Hs H]]. exists s. split; [apply bits_of_spec; exact Hs|exact H].
Qed.

(* one step back from s (against the direction of colour c) is the square whose forward square is s *)
Definition push_check (c : color) (s d : N) : bool :=
  if N.testbit (pawn_single_push_moves (bit s) (flip c)) d
  then (d <? 64) && (s =? fwd c d) && negb (rank_n d =? last_rank c) else true.
Lemma push_back c s d : s < 64 -> N.testbit (pawn_single_push_moves (bit s) (flip c)) d = true ->
  d < 64 /\ s = fwd c d /\ rank_n d <> last_rank c.
Proof.
  intros Hs H.
  assert (C : forallb (fun d => push_check c s d) (bits_of (pawn_single_push_moves (bit s) (flip c))) = true).
  { clear H. revert s Hs. destruct c.
    - apply (forall_sq (fun s => forallb (fun d => push_check White s d) (bits_of (pawn_single_push_moves (bit s) (flip White))))). vm_compute. reflexivity.
    - apply (forall_sq (fun s => forallb (fun d => push_check Black s d) (bits_of (pawn_single_push_moves (bit s) (flip Black))))). vm_compute. reflexivity. }
  rewrite forallb_forall in C. specialize (C d (proj2 (bits_of_spec _ _) H)). unfold push_check in C. rewrite H in C.
  apply andb_prop in C. destruct C as [C C3]. apply andb_prop in C. destruct C as [C1 C2].
  apply N.ltb_lt in C1. apply N.eqb_eq in C2. apply negb_true_iff, N.eqb_neq in C3. tauto.
Qed.

Definition rank4_check (c : color) (s d : N) : bool :=
  if N.testbit (rank_from c FourthRank) s && (s =? fwd c (fwd c d))
  then (rank_n d =? second_rank c) && negb (rank_n s =? last_rank c) else true.
Lemma rank4_back c s d : s < 64 -> d < 64 -> N.testbit (rank_from c FourthRank) s = true -> s = fwd c (fwd c d) ->
  rank_n d = second_rank c /\ rank_n s <> last_rank c.
Proof.
  intros Hs Hd H1 H2.
  assert (C : rank4_check c s d = true).
  { revert s d Hs Hd H1 H2. destruct c; intros s d Hs Hd _ _.
    - apply (forall_sq2 (rank4_check White)); [vm_compute; reflexivity|exact Hs|exact Hd].
    - apply (forall_sq2 (rank4_check Black)); [vm_compute; reflexivity|exact Hs|exact Hd]. }
  unfold rank4_check in C. rewrite H1 in C. destruct (N.eqb_spec s (fwd c (fwd c d))); [|contradiction].
  cbn [andb] in C. apply andb_prop in C. destruct C as [C1 C2].
  apply N.eqb_eq in C1. apply negb_true_iff, N.eqb_neq in C2. tauto.
Qed.

(* ------------------------------------------------------------------------------------------ *)
(* pawn pushes are possible moves *)

Lemma pseudo_push1 b : Rep b -> forall d, d < 64 -> fwd (stm b) d < 64 ->
  who (abs b) d = Some (stm b, Pawn) -> rank_n d <> last_rank (stm b) ->
  N.testbit (occupancy b) (fwd (stm b) d) = false ->
  pseudo_spec (abs b) (mk_move d (fwd (stm b) d) (promo_for b (fwd (stm b) d))) = true.
Proof.
  intros HR d Hd Hf Hw Hr Hemp. set (t := fwd (stm b) d) in *.
  destruct (mk_move_fields_pr d t (promo_for b t) Hd Hf (promo_for_in b t)) as (Ef & Et & Ep).
  unfold pseudo_spec. rewrite Ef, Et, Ep. cbv zeta. rewrite Hw. change (turn (abs b)) with (stm b).
  rewrite color_eqb_refl, (owned_abs b HR t (stm b) Hf).
  assert (N.testbit (colors b (stm b)) t = false) as ->.
  { destruct (N.testbit (colors b (stm b)) t) eqn:E; [|reflexivity].
    rewrite (occupancy_of_color b (stm b) t E) in Hemp. discriminate. }
  cbn [negb andb]. change (Pawn =? Pawn) with true. cbv iota.
  assert ((if rank_n t =? last_rank (stm b) then is_promo_piece (promo_for b t) else promo_for b t =? 0) = true) as ->.
  { unfold promo_for. destruct (rank_n t =? last_rank (stm b)); reflexivity. }
  fold t. rewrite N.eqb_refl. destruct (N.eqb_spec (rank_n d) (last_rank (stm b))); [contradiction|].
  rewrite (empty_abs b HR t Hf), Hemp. reflexivity.
Qed.

Lemma pseudo_push2 b : Rep b -> forall d, d < 64 -> fwd (stm b) d < 64 -> fwd (stm b) (fwd (stm b) d) < 64 ->
  who (abs b) d = Some (stm b, Pawn) -> rank_n d = second_rank (stm b) ->
  rank_n (fwd (stm b) (fwd (stm b) d)) <> last_rank (stm b) ->
  N.testbit (occupancy b) (fwd (stm b) d) = false ->
  N.testbit (occupancy b) (fwd (stm b) (fwd (stm b) d)) = false ->
  pseudo_spec (abs b) (mk_move d (fwd (stm b) (fwd (stm b) d)) 0) = true.
Proof.
  intros HR d Hd Hf1 Hf2 Hw Hr Hnl He1 He2. set (t := fwd (stm b) (fwd (stm b) d)) in *.
  destruct (mk_move_fields d t Hd Hf2) as (Ef & Et & Ep).
  unfold pseudo_spec. rewrite Ef, Et, Ep. cbv zeta. rewrite Hw. change (turn (abs b)) with (stm b).
  rewrite color_eqb_refl, (owned_abs b HR t (stm b) Hf2).
  assert (N.testbit (colors b (stm b)) t = false) as ->.
  { destruct (N.testbit (colors b (stm b)) t) eqn:E; [|reflexivity].
    rewrite (occupancy_of_color b (stm b) t E) in He2. discriminate. }
  cbn [negb andb]. change (Pawn =? Pawn) with true. cbv iota.
  destruct (N.eqb_spec (rank_n t) (last_rank (stm b))); [contradiction|]. change (0 =? 0) with true. cbn [andb].
  rewrite Hr, N.eqb_refl. fold t. rewrite N.eqb_refl.
  rewrite (empty_abs b HR _ Hf1), He1, (empty_abs b HR t Hf2), He2. cbn [negb andb]. rewrite orb_true_r. reflexivity.
Qed.

(* ------------------------------------------------------------------------------------------ *)
(* Block, unfolded *)

Definition block_pieces_at (b : board) (sq : N) (c : color) : N :=
  let occ := bor (colors b White) (colors b Black) in
  band (bor (bor (band (knight_moves sq) (pieces b Knight)) (band (bishop_moves sq occ) (diag_sliders b)))
            (band (rook_moves sq occ) (line_sliders b))) (colors b c).

Definition block_single (b : board) (squares : N) (c : color) : N :=
  let occ := bor (colors b White) (colors b Black) in
  let occNoPawn := band occ (bnot (band (pieces b Pawn) (colors b c))) in
  band (pawn_single_push_moves squares (flip c)) (bnot occNoPawn).

Definition block_double (b : board) (squares : N) (c : color) : N :=
  let occ := bor (colors b White) (colors b Black) in
  let occNoPawn := band occ (bnot (band (pieces b Pawn) (colors b c))) in
  bandn (pawn_single_push_moves
           (bandn (pawn_single_push_moves (band (rank_from c FourthRank) squares) (flip c)) occ) (flip c)) occNoPawn.

Lemma block_unfold b squares c :
  block b squares c =
  bor (fold_left (fun res sq => bor res (block_pieces_at b sq c)) (bits_of squares) 0)
      (band (band (bor (block_single b squares c) (block_double b squares c)) (colors b c)) (pieces b Pawn)).
Proof. reflexivity. Qed.

Lemma fold_bor_testbit (f : N -> N) l acc i :
  N.testbit (fold_left (fun res sq => bor res (f sq)) l acc) i = N.testbit acc i || existsb (fun sq => N.testbit (f sq) i) l.
Proof.
  revert acc. induction l as [|s r IH]; intros acc; cbn [fold_left existsb]; [rewrite orb_false_r; reflexivity|].
  rewrite IH. unfold bor. rewrite N.lor_spec, orb_assoc. reflexivity.
Qed.

Lemma block_cases b squares c d : N.testbit (block b squares c) d = true ->
  N.testbit (colors b c) d = true /\
  ( (exists sq, N.testbit squares sq = true /\
       ( (N.testbit (knight_moves sq) d = true /\ N.testbit (pieces b Knight) d = true)
         \/ (N.testbit (bishop_moves sq (occupancy b)) d = true /\ (N.testbit (pieces b Bishop) d || N.testbit (pieces b Queen) d) = true)
         \/ (N.testbit (rook_moves sq (occupancy b)) d = true /\ (N.testbit (pieces b Rook) d || N.testbit (pieces b Queen) d) = true)))
    \/ (N.testbit (pieces b Pawn) d = true /\
        (N.testbit (block_single b squares c) d = true \/ N.testbit (block_double b squares c) d = true)) ).
Proof.
  rewrite block_unfold. unfold bor at 1. rewrite N.lor_spec, fold_bor_testbit, N.bits_0. cbn [orb].
  intros H. apply orb_true_iff in H. destruct H as [H|H].
  - apply existsb_exists in H. destruct H as [sq [Hsq H]]. apply bits_of_spec in Hsq.
    unfold block_pieces_at, band, bor, diag_sliders, line_sliders, bor in H. cbv zeta in H.
    rewrite !N.land_spec, !N.lor_spec, !N.land_spec, !N.lor_spec in H.
    apply andb_prop in H. destruct H as [H Hc]. split; [exact Hc|]. left. exists sq. split; [exact Hsq|].
    apply orb_true_iff in H. destruct H as [H|H]; [apply orb_true_iff in H; destruct H as [H|H]|];
      apply andb_prop in H; destruct H as [H1 H2].
    + left. tauto.
    + right. left. tauto.
    + right. right. tauto.
  - unfold band in H. rewrite !N.land_spec in H. unfold bor in H. rewrite N.lor_spec in H.
    apply andb_prop in H. destruct H as [H Hp]. apply andb_prop in H. destruct H as [H Hc].
    split; [exact Hc|]. right. split; [exact Hp|]. apply orb_true_iff in H. exact H.
Qed.

(* ------------------------------------------------------------------------------------------ *)
(* a pawn push never lands on the en-passant target *)

Ltac div_lia := let H := fresh in (Zify.zify; Z.to_euclidean_division_equations; lia).

Lemma ep_ok_facts p e : ep_ok p = true -> epsq p = Some e ->
  rank_n e = (match turn p with White => 5 | Black => 2 end) /\
  holds p (fwd (flip (turn p)) e) (flip (turn p)) Pawn = true.
Proof.
  unfold ep_ok. intros H He. rewrite He in H.
  repeat (apply andb_prop in H; destruct H as [H ?]).
  split; [apply N.eqb_eq; assumption|assumption].
Qed.

Lemma not_ep_push1 b d pr : Rep b -> valid (abs b) = true -> d < 64 -> fwd (stm b) d < 64 ->
  In pr [0; Knight; Bishop; Rook; Queen] -> who (abs b) d = Some (stm b, Pawn) -> rank_n d <> last_rank (stm b) ->
  is_ep_capture (abs b) (mk_move d (fwd (stm b) d) pr) = false.
Proof.
  intros HR HV Hd Hf Hpr Hw Hr. destruct (mk_move_fields_pr d _ pr Hd Hf Hpr) as (_ & Et & _).
  unfold is_ep_capture. rewrite Et. destruct (epsq (abs b)) as [e|] eqn:He; [|apply andb_false_r].
  destruct (N.eqb_spec e (fwd (stm b) d)) as [E|]; [|apply andb_false_r]. exfalso.
  destruct (ep_ok_facts _ e (valid_ep_ok _ HV) He) as [_ Hh]. change (turn (abs b)) with (stm b) in Hh.
  assert (Hback : fwd (flip (stm b)) e = d).
  { rewrite E. unfold rank_n, last_rank in Hr. destruct (stm b); cbn [flip fwd] in *; div_lia. }
  rewrite Hback in Hh. unfold holds in Hh. rewrite Hw, color_eqb_flip in Hh. discriminate.
Qed.

Lemma not_ep_push2 b d : Rep b -> valid (abs b) = true -> d < 64 -> fwd (stm b) (fwd (stm b) d) < 64 ->
  rank_n d = second_rank (stm b) ->
  is_ep_capture (abs b) (mk_move d (fwd (stm b) (fwd (stm b) d)) 0) = false.
Proof.
  intros HR HV Hd Hf Hr. destruct (mk_move_fields d _ Hd Hf) as (_ & Et & _).
  unfold is_ep_capture. rewrite Et. destruct (epsq (abs b)) as [e|] eqn:He; [|apply andb_false_r].
  destruct (N.eqb_spec e (fwd (stm b) (fwd (stm b) d))) as [E|]; [|apply andb_false_r]. exfalso.
  destruct (ep_ok_facts _ e (valid_ep_ok _ HV) He) as [Hrk _]. change (turn (abs b)) with (stm b) in Hrk.
  rewrite E in Hrk. unfold rank_n, second_rank in *.
  destruct (stm b); cbn [fwd] in *; div_lia.
Qed.

(* ------------------------------------------------------------------------------------------ *)
(* in check: Attackers of the king's square is not empty *)

Lemma band_bit_nonzero x k : negb (band x (bit k) =? 0) = true -> N.testbit x k = true.
Proof.
  intros H. apply negb_true_iff, N.eqb_neq in H. pose proof (lsb_testbit _ H) as T.
  unfold band in T. rewrite N.land_spec, bit_testbit in T. apply andb_prop in T. destruct T as [T1 T2].
  apply N.eqb_eq in T2. rewrite T2. exact T1.
Qed.

Lemma band3_some x y z : negb (band (band x y) z =? 0) = true ->
  exists u, N.testbit x u = true /\ N.testbit y u = true /\ N.testbit z u = true.
Proof.
  intros H. apply negb_true_iff, N.eqb_neq in H. pose proof (lsb_testbit _ H) as T.
  unfold band in T. rewrite !N.land_spec in T. apply andb_prop in T. destruct T as [T T3].
  apply andb_prop in T. destruct T as [T1 T2]. eexists. repeat split; eassumption.
Qed.

Lemma in_check_attackers b k0 : Rep b -> k0 < 64 ->
  band (pieces b King) (colors b (stm b)) = bit k0 -> in_check b (stm b) = true ->
  attackers b (bit k0) (occupancy b) (flip (stm b)) <> 0.
Proof.
  intros HR Hk0 Hking Hchk. unfold in_check in Hchk.
  replace (band (colors b (stm b)) (pieces b King)) with (bit k0) in Hchk by (rewrite <- Hking; apply N.land_comm).
  rewrite is_attacked_single in Hchk by exact Hk0. cbv zeta in Hchk.
  set (them := flip (stm b)) in *.
  assert (Hin : forall u, N.testbit (attackers b (bit k0) (occupancy b) them) u = true ->
                attackers b (bit k0) (occupancy b) them <> 0) by (intros u Hu; apply (testbit_nonzero _ u Hu)).
  apply orb_true_iff in Hchk. destruct Hchk as [H|H].
  - apply band_bit_nonzero in H. apply pcm_member in H. destruct H as [u [Hu H]].
    unfold band in Hu. rewrite N.land_spec in Hu. apply andb_prop in Hu. destruct Hu as [Hp Hc].
    assert (Hu64 : u < 64) by (destruct (N.lt_ge_cases u 64) as [L|L]; [exact L|rewrite (colors_high b HR _ u L) in Hc; discriminate]).
    rewrite pcm_bit in H by assumption.
    apply (Hin u). rewrite attackers_testbit by exact Hk0. rewrite Hc, Hp, (pawn_sym them k0 u Hk0 Hu64), H.
    cbn [andb]. rewrite !orb_true_r. reflexivity.
  - repeat (apply orb_true_iff in H; destruct H as [H|H]);
      apply band3_some in H; destruct H as [u [H1 [H2 H3]]]; apply (Hin u);
      rewrite attackers_testbit by exact Hk0; rewrite H3; cbn [andb]; unfold bor in H2; try rewrite N.lor_spec in H2.
    + rewrite H1, H2. reflexivity.
    + rewrite H1, H2. cbn [andb]. rewrite !orb_true_r. reflexivity.
    + rewrite H1, (orb_comm (N.testbit (pieces b Bishop) u)), H2. cbn [andb]. rewrite !orb_true_r. reflexivity.
    + rewrite H1, H2. cbn [andb]. rewrite !orb_true_r. reflexivity.
Qed.

(* ------------------------------------------------------------------------------------------ *)
(* assembling the exit *)

Theorem block_exit_sound b : Rep b -> valid (abs b) = true -> in_check b (stm b) = true ->
  let me := stm b in
  let king := band (pieces b King) (colors b me) in
  let occ := bor (colors b White) (colors b Black) in
  let atk := attackers b king occ (flip me) in
  let blocked := band (in_between (lsb king) (lsb atk)) (bnot (bor king atk)) in
  (1 <? popcount atk) = false ->
  mate_block_loop b (lsb king) occ blocked (bits_of (block b blocked me)) = true ->
  legal_moves (abs b) <> [].
Proof.
  intros HR HV Hchk me king occ atk blocked Hpop Hloop.
  destruct (king_is_bit b HR HV me) as [k0 [Hk0 [Hking [Hholds Hwho]]]].
  fold king in Hking. subst blocked atk. rewrite Hking in *. rewrite (lsb_bit k0 Hk0) in Hloop.
  change occ with (occupancy b) in *.
  set (atk := attackers b (bit k0) (occupancy b) (flip me)) in *.
  assert (Hatk0 : atk <> 0) by (apply (in_check_attackers b k0 HR Hk0 Hking Hchk)).
  pose proof (popcount_le1_bit atk Hatk0 Hpop) as Hbit. set (a := lsb atk) in *.
  assert (Haatk : N.testbit atk a = true) by (apply lsb_testbit; exact Hatk0).
  assert (Haopp : N.testbit (colors b (flip me)) a = true).
  { unfold atk in Haatk. rewrite attackers_testbit in Haatk by exact Hk0. apply andb_prop in Haatk. tauto. }
  assert (Ha : a < 64).
  { destruct (N.lt_ge_cases a 64) as [L|L]; [exact L|]. rewrite (colors_high b HR _ a L) in Haopp. discriminate. }
  assert (Hsingle : forall u, N.testbit atk u = true -> u = a).
  { intros u Hu. rewrite Hbit, bit_testbit in Hu. apply N.eqb_eq in Hu. congruence. }
  rewrite Hbit in Hloop. change (band (in_between k0 a) (bnot (bor (bit k0) (bit a)))) with (blocked_of k0 a) in Hloop.
  unfold mate_block_loop in Hloop. apply existsb_exists in Hloop. destruct Hloop as [d [Hdin Hpin]].
  apply negb_true_iff in Hpin. apply bits_of_spec in Hdin.
  destruct (block_cases b _ me d Hdin) as [Hdown Hcases].
  assert (Hd : d < 64).
  { destruct (N.lt_ge_cases d 64) as [L|L]; [exact L|]. rewrite (colors_high b HR _ d L) in Hdown. discriminate. }
  pose proof (blocked_clear b k0 a Hk0 Ha Haatk) as Hclear.
  pose proof (blocked_lt k0 a) as Hblt.
  (* one lemma for all movers *)
  assert (Hfin : forall sq kd pr, N.testbit (blocked_of k0 a) sq = true ->
                 who (abs b) d = Some (me, kd) -> kd <> King -> In pr [0; Knight; Bishop; Rook; Queen] ->
                 is_ep_capture (abs b) (mk_move d sq pr) = false ->
                 pseudo_spec (abs b) (mk_move d sq pr) = true -> legal_moves (abs b) <> []).
  { intros sq kd pr Hsq Hw Hkd Hpr Hnep Hps. destruct (Hblt sq Hsq) as (Hsq64 & _ & _).
    apply (legal_moves_nonempty _ d sq pr Hd Hsq64 Hpr).
    apply (block_safe b HR k0 a Hk0 Hholds Ha Haopp Haatk Hsingle d sq Hd Hsq Hpin kd pr Hw Hkd Hpr Hnep Hps). }
  assert (Hpiece : forall sq kd, N.testbit (blocked_of k0 a) sq = true -> 1 <= kd <= 6 -> kd <> Pawn -> kd <> King ->
                   N.testbit (pieces b kd) d = true -> mem (attacks_from me kd d (occupancy b)) sq = true ->
                   legal_moves (abs b) <> []).
  { intros sq kd Hsq Hr Hnp Hnk Hp Hm. destruct (Hblt sq Hsq) as (Hsq64 & _ & _).
    assert (Hw : who (abs b) d = Some (me, kd)) by (apply (who_abs_intro b HR); assumption).
    apply (Hfin sq kd 0 Hsq Hw Hnk); [left; reflexivity| |].
    - apply (not_ep_piece b d sq kd 0 Hd Hsq64 (or_introl eq_refl) Hw Hnp).
    - apply (pseudo_piece b HR d sq kd Hd Hsq64 Hw Hnp Hnk); [|exact Hm].
      destruct (N.testbit (colors b me) sq) eqn:E; [|exact E]. exfalso.
      specialize (Hclear sq Hsq). rewrite (occupancy_of_color b me sq E) in Hclear. discriminate. }
  destruct Hcases as [[sq [Hsq Hc]]|[Hpawn Hc]].
  - destruct (Hblt sq Hsq) as (Hsq64 & _ & _). destruct Hc as [[Hm Hp]|[[Hm Hp]|[Hm Hp]]].
    + apply (Hpiece sq Knight Hsq); try (unfold Knight, Pawn, King; lia); [exact Hp|].
      unfold mem. change (attacks_from me Knight d (occupancy b)) with (knight_attacks d).
      rewrite knight_sym by assumption. exact Hm.
    + apply bishop_sym in Hm; try assumption. apply orb_true_iff in Hp. destruct Hp as [Hp|Hp].
      * apply (Hpiece sq Bishop Hsq); try (unfold Bishop, Pawn, King; lia); [exact Hp|exact Hm].
      * apply (Hpiece sq Queen Hsq); try (unfold Queen, Pawn, King; lia); [exact Hp|].
        unfold mem. change (attacks_from me Queen d (occupancy b)) with (N.lor (rook_attacks d (occupancy b)) (bishop_attacks d (occupancy b))).
        rewrite N.lor_spec. unfold bishop_moves in Hm. rewrite Hm. apply orb_true_r.
    + apply rook_sym in Hm; try assumption. apply orb_true_iff in Hp. destruct Hp as [Hp|Hp].
      * apply (Hpiece sq Rook Hsq); try (unfold Rook, Pawn, King; lia); [exact Hp|exact Hm].
      * apply (Hpiece sq Queen Hsq); try (unfold Queen, Pawn, King; lia); [exact Hp|].
        unfold mem. change (attacks_from me Queen d (occupancy b)) with (N.lor (rook_attacks d (occupancy b)) (bishop_attacks d (occupancy b))).
        rewrite N.lor_spec. unfold rook_moves in Hm. rewrite Hm. reflexivity.
  - assert (Hw : who (abs b) d = Some (me, Pawn)) by (apply (who_abs_intro b HR); try assumption; unfold Pawn; lia).
    destruct Hc as [Hs|Hdb].
    + (* single push *)
      unfold block_single in Hs. cbv zeta in Hs. unfold band in Hs at 1. rewrite N.land_spec in Hs.
      apply andb_prop in Hs. destruct Hs as [Hs _]. apply pspm_member in Hs. destruct Hs as [sq [Hsq Hs]].
      destruct (Hblt sq Hsq) as (Hsq64 & _ & _).
      destruct (push_back me sq d Hsq64 Hs) as (_ & Efwd & Hrk). subst sq.
      apply (Hfin (fwd me d) Pawn (promo_for b (fwd me d)) Hsq Hw); [unfold Pawn, King; lia|apply promo_for_in| |].
      * apply (not_ep_push1 b d _ HR HV Hd Hsq64 (promo_for_in b _) Hw Hrk).
      * apply (pseudo_push1 b HR d Hd Hsq64 Hw Hrk). apply Hclear. exact Hsq.
    + (* double push *)
      unfold block_double in Hdb. cbv zeta in Hdb. unfold bandn in Hdb at 1. rewrite N.ldiff_spec in Hdb.
      apply andb_prop in Hdb. destruct Hdb as [Hdb _]. apply pspm_member in Hdb. destruct Hdb as [m1 [Hm1 Hdb]].
      unfold bandn in Hm1. rewrite N.ldiff_spec in Hm1. apply andb_prop in Hm1. destruct Hm1 as [Hm1 Hm1occ].
      apply negb_true_iff in Hm1occ.
      apply pspm_member in Hm1. destruct Hm1 as [sq [Hsq Hm1]].
      unfold band in Hsq. rewrite N.land_spec in Hsq. apply andb_prop in Hsq. destruct Hsq as [Hr4 Hsq].
      destruct (Hblt sq Hsq) as (Hsq64 & _ & _).
      destruct (push_back me sq m1 Hsq64 Hm1) as (Hm164 & Esq & _).
      destruct (push_back me m1 d Hm164 Hdb) as (_ & Em1 & _). subst m1.
      destruct (rank4_back me sq d Hsq64 Hd Hr4 Esq) as [Hr2 Hnl]. subst sq.
      apply (Hfin (fwd me (fwd me d)) Pawn 0 Hsq Hw); [unfold Pawn, King; lia|left; reflexivity| |].
      * apply (not_ep_push2 b d HR HV Hd Hsq64 Hr2).
      * apply (pseudo_push2 b HR d Hd Hm164 Hsq64 Hw Hr2 Hnl Hm1occ). apply Hclear. exact Hsq.
Qed.
