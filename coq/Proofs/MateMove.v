(* C09: a move of a man other than the king (no castling, no en-passant capture): the placement
   after it, and a criterion for the own king to be safe afterwards in terms of the squares and men
   of the position BEFORE the move.  Used by the capture / interposition / mobility exits. *)
From Coq Require Import NArith ZArith List Bool Lia.
From Chess3 Require Import Base.Bits Model.Types Spec.Geometry Model.Att Model.BoardDef Model.Board
     Model.Movegen Model.Mate Spec.Chess Spec.Rep Proofs.MateGeom Proofs.MateAbs Proofs.MateKing.
Import ListNotations.
Open Scope N_scope.

Lemma mk_move_fields_pr from to pr : from < 64 -> to < 64 -> In pr [0; Knight; Bishop; Rook; Queen] ->
  mv_from (mk_move from to pr) = from /\ mv_to (mk_move from to pr) = to /\ mv_promo (mk_move from to pr) = pr.
Proof.
  intros Hf Ht Hp.
  assert (C := forall_sq2 (fun f t => forallb (fun pr =>
                 (mv_from (mk_move f t pr) =? f) && (mv_to (mk_move f t pr) =? t) && (mv_promo (mk_move f t pr) =? pr))
                 [0; Knight; Bishop; Rook; Queen])
                          ltac:(vm_compute; reflexivity) from to Hf Ht).
  cbv beta in C. rewrite forallb_forall in C. specialize (C pr Hp).
  apply andb_prop in C. destruct C as [C C3]. apply andb_prop in C. destruct C as [C1 C2].
  apply N.eqb_eq in C1, C2, C3. tauto.
Qed.

(* generic projections of [valid] (on an abstract position: unfolding [valid (abs b)] in a hypothesis
   makes the kernel evaluate the 64-square filters) *)
Lemma valid_ep_ok p : valid p = true -> ep_ok p = true.
Proof. unfold valid. intros H. apply andb_prop in H. destruct H as [_ H]. exact H. Qed.

Lemma ep_ok_empty p e : ep_ok p = true -> epsq p = Some e -> empty p e = true.
Proof.
  unfold ep_ok. intros H He. rewrite He in H.
  repeat (apply andb_prop in H; destruct H as [H ?]). assumption.
Qed.

Section Move.
Variable b : board.
Hypothesis HR : Rep b.
Hypothesis HV : valid (abs b) = true.

Let me := stm b.

(* the moving man: kind kd on d, destination t, promotion code pr *)
Variables d t kd pr k0 : N.
Hypothesis Hd : d < 64.
Hypothesis Ht : t < 64.
Hypothesis Hk0 : k0 < 64.
Hypothesis Hking : forall s, s < 64 -> holds (abs b) s me King = (s =? k0).
Hypothesis Hwd : who (abs b) d = Some (me, kd).
Hypothesis Hkd : kd <> King.
Hypothesis Hpr : In pr [0; Knight; Bishop; Rook; Queen].
Hypothesis Hdt : d <> t.
Hypothesis Htk : t <> k0.
Hypothesis Hnep : is_ep_capture (abs b) (mk_move d t pr) = false.

Let m := mk_move d t pr.
Let k' := if pr =? 0 then kd else pr.
Let p' := with_placement (abs b) (place_after (abs b) m).

Lemma move_d_not_king : d <> k0.
Proof.
  intros E. subst d. pose proof (Hking k0 Hk0) as H. rewrite N.eqb_refl in H.
  unfold holds in H. rewrite Hwd in H. apply andb_prop in H. destruct H as [_ H].
  apply N.eqb_eq in H. congruence.
Qed.

Lemma move_k'_not_king : k' <> King.
Proof.
  unfold k'. destruct (N.eqb_spec pr 0); [exact Hkd|].
  cbn in Hpr. unfold Knight, Bishop, Rook, Queen, King in *. intros E. lia.
Qed.

Lemma move_place : place_after (abs b) m = put (put (at_ (abs b)) d None) t (Some (me, k')).
Proof.
  destruct (mk_move_fields_pr d t pr Hd Ht Hpr) as (Ef & Et & Ep).
  unfold m. unfold place_after. rewrite Hnep. rewrite Ef, Et, Ep. cbv zeta. rewrite Hwd.
  change (turn (abs b)) with me.
  assert (is_castling (abs b) (mk_move d t pr) = false) as ->.
  { unfold is_castling. rewrite Ef. unfold holds. rewrite Hwd. change (turn (abs b)) with me.
    destruct (N.eqb_spec King kd); [congruence|]. rewrite andb_false_r. reflexivity. }
  reflexivity.
Qed.

Lemma move_who s : who p' s = if t =? s then Some (me, k') else if d =? s then None else who (abs b) s.
Proof.
  unfold p', who, with_placement. cbn [at_]. rewrite move_place. unfold put.
  rewrite nthN_updN by (unfold updN; rewrite upd_length, at_length; lia).
  destruct (t =? s); [reflexivity|].
  rewrite nthN_updN by (rewrite at_length; lia). reflexivity.
Qed.

Lemma move_king_sq : king_sq p' me = k0.
Proof.
  pose proof move_d_not_king as Hdk. pose proof move_k'_not_king as Hk'.
  unfold king_sq. rewrite (filter_single _ squares64 k0); [reflexivity|apply squares64_NoDup|apply squares64_spec; exact Hk0|].
  intros s Hs. apply squares64_spec in Hs. unfold holds. rewrite move_who.
  destruct (N.eqb_spec t s) as [->|E1].
  - rewrite color_eqb_refl. destruct (N.eqb_spec King k'); [congruence|]. split; [discriminate|congruence].
  - destruct (N.eqb_spec d s) as [->|E2]; [split; [discriminate|congruence]|].
    pose proof (Hking s Hs) as Hh. unfold holds in Hh. rewrite Hh. apply N.eqb_eq.
Qed.

Lemma move_occ i : N.testbit (occ_of p') i = (i <? 64) && ((t =? i) || (negb (d =? i) && N.testbit (occupancy b) i)).
Proof.
  rewrite occ_of_testbit. destruct (N.ltb_spec i 64) as [L|L]; [|reflexivity]. cbn [andb].
  unfold empty. rewrite move_who. destruct (t =? i); [reflexivity|]. destruct (d =? i); [reflexivity|].
  cbn [orb negb andb]. pose proof (empty_abs b HR i L) as He. unfold empty in He. rewrite He. apply negb_involutive.
Qed.

(* the criterion: no enemy man left on the board attacks the king's square in the new occupancy *)
Lemma move_safe :
  (forall u ku, u < 64 -> u <> t -> who (abs b) u = Some (flip me, ku) ->
                mem (attacks_from (flip me) ku u (occ_of p')) k0 = true -> False) ->
  in_check_spec p' me = false.
Proof.
  intros Hno. unfold in_check_spec. rewrite move_king_sq.
  destruct (attacked_by p' (flip me) k0) eqn:Hatt; [|reflexivity]. exfalso.
  unfold attacked_by in Hatt. apply existsb_exists in Hatt. destruct Hatt as [u [Hu Hatt]].
  apply squares64_spec in Hu. rewrite move_who in Hatt.
  destruct (N.eqb_spec t u) as [->|E1]; [rewrite color_eqb_flip in Hatt; discriminate|].
  destruct (N.eqb_spec d u) as [->|E2]; [discriminate|].
  destruct (who (abs b) u) as [[c' ku]|] eqn:Hwu; [|discriminate].
  apply andb_prop in Hatt. destruct Hatt as [Hcol Hmem]. apply color_eqb_eq in Hcol. subst c'.
  apply (Hno u ku Hu (fun E => E1 (eq_sym E)) Hwu Hmem).
Qed.

Lemma move_legal :
  pseudo_spec (abs b) m = true ->
  (forall u ku, u < 64 -> u <> t -> who (abs b) u = Some (flip me, ku) ->
                mem (attacks_from (flip me) ku u (occ_of p')) k0 = true -> False) ->
  legal_spec (abs b) m = true.
Proof.
  intros Hps Hno. unfold legal_spec. rewrite Hps. fold p'. change (turn (abs b)) with me.
  rewrite (move_safe Hno). reflexivity.
Qed.

End Move.
