"""Change-directed depth of the correspondence streams.

The theorems are re-checked on every run whatever happened to the source. The correspondence streams
are differential runs whose power is bounded by how many cases they see. `lib/source_pins.json`
records a comment- and layout-insensitive fingerprint of every non-test Go file of /repo at the tree
the quick-tier case counts were chosen for. When a check runs against a tree in which a file that is
RELEVANT to its property differs from the pin (or is new / gone), the quick tier multiplies the case
count of every stream of that property (`ESCALATE`) - the code under the model has changed, so the tie
between model and code is re-examined more deeply exactly there. On the pinned tree nothing changes;
a stale pin costs time only, never a verdict: escalation adds generated cases, it never changes a
judge, a theorem or a comparison.

  ./check pins      rewrite lib/source_pins.json from /repo (after a hook or fix commit)
  VERIF_ESCALATE=0  switch the mechanism off;  VERIF_ESCALATE=<k>  force factor k
"""
import hashlib, json, os, re

PINS = os.path.join(os.path.dirname(os.path.abspath(__file__)), "source_pins.json")

# property -> path prefixes (relative to the repository root) whose change deepens its streams
_BOARD = ["board/", "attacks/", "chess/", "move/"]
_SEARCH = ["search/", "picker/", "heur/", "transp/", "eval/", "movegen/", "stack/", "params/"] + _BOARD
RELEVANT = {
    "C01": _BOARD + ["movegen/", "debug/perft.go"],
    "C02": _BOARD + ["uci/"],
    "C03": _BOARD,
    "C04": _BOARD,
    "C05": _BOARD + ["movegen/", "uci/"],
    "C06": _SEARCH + ["uci/"],
    "C07": _SEARCH + ["uci/"],
    "C08": _SEARCH,
    "C09": _BOARD,
    "C10": _BOARD + ["uci/"],
    "C11": _BOARD + ["uci/", "tools/tuner/epd/"],
    "C12": ["attacks/", "chess/"],
    "C13": ["uci/", "search/"],
    "C14": ["uci/", "chess/"],
    "C15": ["transp/", "chess/"],
    "C16": _BOARD + ["picker/", "heur/", "movegen/", "stack/"],
    "C17": _BOARD + ["eval/"],
    "C18": _BOARD + ["heur/"],
    "C19": _BOARD + ["eval/", "tools/tuner/tuning/", "tools/tuner/epd/"],
    "C20": ["tools/tuner/epd/", "tools/tuner/tuning/"],
}
# factor per property, chosen so that an escalated quick check stays within a few minutes
ESCALATE = {"C04": 2.0, "C06": 2.5, "C07": 3.0, "C08": 1.5, "C12": 2.0, "C13": 2.0, "C15": 3.0}
DEFAULT_ESCALATE = 4.0

_COMMENT = re.compile(r'"(?:\\.|[^"\\\n])*"|`[^`]*`|\'(?:\\.|[^\'\\\n])+\'|//[^\n]*|/\*.*?\*/', re.S)


def _normalise(text):
    """Drop comments (string / rune / raw-string literals are kept) and all white space."""
    def sub(m):
        s = m.group(0)
        return "" if s.startswith("//") or s.startswith("/*") else s
    return re.sub(r"\s+", "", _COMMENT.sub(sub, text))


def fingerprint(repo):
    out = {}
    for root, dirs, names in os.walk(repo):
        dirs[:] = [d for d in dirs if d not in (".git", "vendor", "testdata")]
        for n in names:
            if not n.endswith(".go") or n.endswith("_test.go") or n.startswith("export_verif"):
                continue
            p = os.path.join(root, n)
            rel = os.path.relpath(p, repo)
            try:
                out[rel] = hashlib.sha256(_normalise(open(p, errors="replace").read()).encode()).hexdigest()[:16]
            except OSError:
                pass
    return out


def write_pins(repo, commit=""):
    with open(PINS, "w") as f:
        json.dump({"commit": commit, "files": fingerprint(repo)}, f, indent=0, sort_keys=True)


def changed_files(repo):
    """Files that differ from the pin, are new, or are gone. None when there is no pin file."""
    if not os.path.exists(PINS):
        return None
    pin = json.load(open(PINS))["files"]
    now = fingerprint(repo)
    return sorted(f for f in set(pin) | set(now) if pin.get(f) != now.get(f))


def escalation(pid, repo):
    """(factor, relevant changed files) for one property check against `repo`."""
    env = os.environ.get("VERIF_ESCALATE", "")
    if env == "0":
        return 1.0, []
    ch = changed_files(repo)
    if not ch:
        return 1.0, []
    rel = [f for f in ch if any(f.startswith(p) for p in RELEVANT.get(pid, []))]
    if not rel:
        return 1.0, []
    try:
        k = float(env) if env else ESCALATE.get(pid, DEFAULT_ESCALATE)
    except ValueError:
        k = ESCALATE.get(pid, DEFAULT_ESCALATE)
    return max(k, 1.0), rel
