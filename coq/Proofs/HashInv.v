(* C04: the incrementally maintained hash equals the hash computed from scratch.
   calc_hash is written as an xor-sum over the 64 squares; addPiece / removePiece change exactly one
   summand; castling rights, en-passant file and side to move are separate terms. *)
From Coq Require Import NArith ZArith List Bool Lia Permutation Btauto.
From Chess3 Require Import Base.Bits Base.Word Model.Types Model.Att Model.BoardDef Model.Board Spec.Rep
  Spec.Applicable Proofs.BoardInv Proofs.UndoMove.
Import ListNotations.
Open Scope N_scope.

(* decide an identity between xor expressions over N, bit by bit *)
Ltac xor_solve :=
  unfold bxor; apply N.bits_inj; intro; rewrite ?N.lxor_spec, ?N.bits_0; btauto.

(* ------------------------------------------------------------------------------------------ *)
(* xor sums *)

Definition xsum (f : N -> N) (l : list N) : N := fold_right (fun s acc => bxor (f s) acc) 0 l.

Lemma xsum_nil f : xsum f [] = 0.
Proof. reflexivity. Qed.
Lemma xsum_cons f a t : xsum f (a :: t) = bxor (f a) (xsum f t).
Proof. reflexivity. Qed.

Lemma fold_left_xsum f l : forall h, fold_left (fun h sq => bxor h (f sq)) l h = bxor h (xsum f l).
Proof.
  induction l as [|a t IH]; intros h; cbn [fold_left].
  - rewrite xsum_nil. xor_solve.
  - rewrite IH, xsum_cons. xor_solve.
Qed.

Lemma xsum_perm f l l' : Permutation l l' -> xsum f l = xsum f l'.
Proof.
  induction 1; rewrite ?xsum_cons.
  - reflexivity.
  - rewrite IHPermutation. reflexivity.
  - xor_solve.
  - congruence.
Qed.

Lemma xsum_filter f P l : xsum f (filter P l) = xsum (fun s => if P s then f s else 0) l.
Proof.
  induction l as [|a t IH]; cbn [filter]; [reflexivity|].
  rewrite (xsum_cons (fun s => if P s then f s else 0)). destruct (P a); rewrite ?xsum_cons, IH.
  - reflexivity.
  - xor_solve.
Qed.

Lemma xsum_ext_in f g l : (forall s, In s l -> f s = g s) -> xsum f l = xsum g l.
Proof.
  induction l as [|a t IH]; intros H; [reflexivity|]. rewrite !xsum_cons.
  rewrite H by (left; reflexivity). rewrite IH by (intros s Hs; apply H; right; exact Hs). reflexivity.
Qed.

Lemma xsum_bxor f g l : xsum (fun s => bxor (f s) (g s)) l = bxor (xsum f l) (xsum g l).
Proof.
  induction l as [|a t IH]; [reflexivity|]. rewrite !xsum_cons, IH. xor_solve.
Qed.

Lemma xsum_zero l s0 d : ~ In s0 l -> xsum (fun s => if s =? s0 then d else 0) l = 0.
Proof.
  induction l as [|a t IH]; intros H; [reflexivity|]. rewrite xsum_cons.
  rewrite IH by (intros X; apply H; right; exact X).
  destruct (N.eqb_spec a s0) as [->|E]; [exfalso; apply H; left; reflexivity|reflexivity].
Qed.

Lemma xsum_single l s0 d : NoDup l -> In s0 l -> xsum (fun s => if s =? s0 then d else 0) l = d.
Proof.
  induction 1 as [|a t Ha Ht IH]; intros H; [destruct H|]. rewrite xsum_cons.
  destruct (N.eqb_spec a s0) as [->|E].
  - rewrite xsum_zero by exact Ha. xor_solve.
  - destruct H as [H|H]; [congruence|]. rewrite IH by exact H. xor_solve.
Qed.

Lemma squares64_NoDup : NoDup squares64.
Proof.
  unfold squares64. apply FinFun.Injective_map_NoDup; [|apply seq_NoDup].
  intros x y. apply Nat2N.inj.
Qed.

Lemma bits_of_perm x : x < two64 -> Permutation (bits_of x) (filter (N.testbit x) squares64).
Proof.
  intros H. apply NoDup_Permutation.
  - apply bits_of_NoDup.
  - apply NoDup_filter. apply squares64_NoDup.
  - intros s. rewrite filter_In, In_squares64, bits_of_spec. split; [|tauto].
    intros T. split; [|exact T]. destruct (N.lt_ge_cases s 64) as [L|L]; [exact L|].
    rewrite (lt_two64_testbit x H s L) in T. discriminate.
Qed.

(* ------------------------------------------------------------------------------------------ *)
(* calc_hash as a sum of terms *)

Section Hash.
Variable z : zobrist.

Definition pterm (b : board) (c : color) (s : N) : N :=
  if N.testbit (colors b c) s then z_piece z c (piece_at b s) s else 0.
Definition phash (b : board) : N := bxor (xsum (pterm b White) squares64) (xsum (pterm b Black) squares64).
Definition stm_term (c : color) : N := match c with White => 0 | Black => z_stm z end.
Definition ep_term (e : N) : N := if e =? 0 then 0 else z_ep z (e mod 8).
Definition cterm (c i : N) : N := if N.testbit c i then z_castle z i else 0.

Lemma castle_hash_terms c : castle_hash z c = bxor (bxor (bxor (cterm c 0) (cterm c 1)) (cterm c 2)) (cterm c 3).
Proof.
  unfold castle_hash, cterm. cbn [fold_left].
  destruct (N.testbit c 0), (N.testbit c 1), (N.testbit c 2), (N.testbit c 3); xor_solve.
Qed.

Lemma castle_fold c h :
  fold_left (fun h i => if N.testbit c i then bxor h (z_castle z i) else h) [0; 1; 2; 3] h = bxor h (castle_hash z c).
Proof.
  unfold castle_hash. cbn [fold_left].
  destruct (N.testbit c 0), (N.testbit c 1), (N.testbit c 2), (N.testbit c 3); xor_solve.
Qed.

Lemma cterm_xor a c i : cterm (bxor a c) i = bxor (cterm a i) (cterm c i).
Proof.
  unfold cterm. unfold bxor at 1. rewrite N.lxor_spec.
  destruct (N.testbit a i), (N.testbit c i); cbn [xorb]; xor_solve.
Qed.

Lemma castle_hash_xor a c : castle_hash z (bxor a c) = bxor (castle_hash z a) (castle_hash z c).
Proof. rewrite !castle_hash_terms, !cterm_xor. xor_solve. Qed.

Lemma stm_term_flip c : stm_term (flip c) = bxor (stm_term c) (z_stm z).
Proof. destruct c; cbn [flip stm_term]; xor_solve. Qed.

Theorem calc_hash_terms b : w64l (cols b) ->
  calc_hash z b = bxor (bxor (bxor (phash b) (stm_term (stm b))) (castle_hash z (castles b))) (ep_term (ep b)).
Proof.
  intros W. unfold calc_hash. cbv zeta. rewrite castle_fold. rewrite !fold_left_xsum.
  assert (S : forall c, xsum (fun sq => z_piece z c (piece_at b sq) sq) (bits_of (colors b c)) = xsum (pterm b c) squares64).
  { intros c. rewrite (xsum_perm _ _ _ (bits_of_perm (colors b c) (w64l_nthN _ _ W))). apply xsum_filter. }
  rewrite !S. unfold phash, ep_term.
  destruct (stm b), (N.eqb_spec (ep b) 0); cbn [negb stm_term]; xor_solve.
Qed.

(* ------------------------------------------------------------------------------------------ *)
(* addPiece / removePiece change one summand *)

Lemma pterm_delta b b' c c0 p s0 :
  (forall s, s <> s0 -> pterm b' c s = pterm b c s) ->
  bxor (pterm b c s0) (pterm b' c s0) = (if color_eqb c c0 then z_piece z c0 p s0 else 0) ->
  s0 < 64 ->
  xsum (pterm b' c) squares64 = bxor (xsum (pterm b c) squares64) (if color_eqb c c0 then z_piece z c0 p s0 else 0).
Proof.
  intros Ho Hs L. set (d := if color_eqb c c0 then z_piece z c0 p s0 else 0) in *.
  rewrite <- (xsum_single squares64 s0 d squares64_NoDup) by (apply In_squares64; exact L).
  rewrite <- xsum_bxor. apply xsum_ext_in. intros s _.
  destruct (N.eqb_spec s s0) as [->|E].
  - rewrite <- Hs. xor_solve.
  - rewrite Ho by exact E. xor_solve.
Qed.

Lemma phash_of_deltas b b' c0 p s0 :
  (forall c, xsum (pterm b' c) squares64 = bxor (xsum (pterm b c) squares64) (if color_eqb c c0 then z_piece z c0 p s0 else 0)) ->
  phash b' = bxor (phash b) (z_piece z c0 p s0).
Proof. intros H. unfold phash. rewrite !H. destruct c0; cbn [color_eqb]; xor_solve. Qed.

Lemma phash_addp b c0 p s0 : Lens b -> s0 < 64 -> 1 <= p <= 6 -> Sq_empty b s0 ->
  phash (addp b c0 p s0) = bxor (phash b) (z_piece z c0 p s0).
Proof.
  intros L Hs Hp (A & B & C). apply phash_of_deltas. intros c. apply pterm_delta; [| |exact Hs].
  - intros s E. unfold pterm. rewrite cb_addp, pa_addp by assumption.
    assert (F : (s0 =? s) = false) by (apply N.eqb_neq; congruence). rewrite F, andb_false_r, orb_false_r. reflexivity.
  - unfold pterm. rewrite cb_addp, pa_addp by assumption. rewrite C, N.eqb_refl, andb_true_r. cbn [orb].
    destruct (color_eqb_spec c c0) as [->|E]; xor_solve.
Qed.

Lemma phash_remp b c0 p s0 : Lens b -> s0 < 64 -> Sq_has b c0 p s0 ->
  phash (remp b c0 p s0) = bxor (phash b) (z_piece z c0 p s0).
Proof.
  intros L Hs (Hp & A & B & C). apply phash_of_deltas. intros c. apply pterm_delta; [| |exact Hs].
  - intros s E. unfold pterm. rewrite cb_remp, pa_remp by assumption.
    assert (F : (s0 =? s) = false) by (apply N.eqb_neq; congruence). rewrite F, andb_false_r. cbn [negb]. rewrite andb_true_r. reflexivity.
  - unfold pterm. rewrite cb_remp, pa_remp by assumption. rewrite C, A, N.eqb_refl, andb_true_r.
    destruct (color_eqb_spec c c0) as [->|E]; cbn [negb andb]; xor_solve.
Qed.

Lemma phash_scal p s : phash (scal p s) = phash p.
Proof. reflexivity. Qed.
End Hash.

(* ------------------------------------------------------------------------------------------ *)
(* make and make_null keep  current hash = hash from scratch *)

Section HashOk.
Variable z : zobrist.

Definition hash_ok (b : board) : Prop := cur_hash b = calc_hash z b.

Lemma dz_pos c p s : 1 <= p <= 6 -> dz z c p s = z_piece z c p s.
Proof. intros H. unfold dz. rewrite p_not0 by exact H. reflexivity. Qed.

Lemma sq_file_mod e : sq_file e = e mod 8.
Proof. unfold sq_file. change 7 with (N.ones 3). rewrite N.land_ones. reflexivity. Qed.

Lemma mk_canep_newep b m : mk_canep b m = true -> mk_newep b m <> 0.
Proof.
  intros H. unfold mk_newep. rewrite H. unfold mk_canep in H.
  apply andb_true_iff in H. destruct H as [H _]. apply andb_true_iff in H. destruct H as [_ H].
  apply N.eqb_eq in H. unfold abs_diff in H.
  intros E. apply N.div_small_iff in E; [|discriminate].
  destruct (N.ltb_spec (mv_from m) (mv_to m)); lia.
Qed.

Lemma phash_mk_pl b m : RepP b -> applicable b m = true ->
  phash z (mk_pl b m) =
  bxor (bxor (bxor (bxor (phash z b) (dz z (flip (stm b)) (mk_capture b m) (capture_sq b m)))
                   (dz z (stm b) (mk_piece b m) (mv_from m))) (dz z (stm b) (mk_put b m) (mv_to m)))
       (match rook_sqs (mk_piece b m) (mv_from m) (mv_to m) with
        | Some (rf, rt) => bxor (dz z (stm b) Rook rf) (dz z (stm b) Rook rt)
        | None => 0
        end).
Proof.
  intros HR HA.
  destruct (chain1 b m HR HA) as (R1 & _ & F1 & _ & _).
  destruct (chain2 b m HR HA) as (R2 & _ & T2 & _).
  assert (S1 : phash z (remp b (flip (stm b)) (mk_capture b m) (capture_sq b m)) =
               bxor (phash z b) (dz z (flip (stm b)) (mk_capture b m) (capture_sq b m))).
  { destruct (fact_csq b m HR HA) as [[Z _]|H].
    - rewrite Z. rewrite remp_0. unfold dz. cbn. xor_solve.
    - pose proof H as (Rg & _). rewrite dz_pos by exact Rg.
      apply phash_remp; [apply (rp_lens _ HR)|apply capture_sq_lt|exact H]. }
  assert (S2 : phash z (remp (remp b (flip (stm b)) (mk_capture b m) (capture_sq b m)) (stm b) (mk_piece b m) (mv_from m)) =
               bxor (phash z (remp b (flip (stm b)) (mk_capture b m) (capture_sq b m))) (dz z (stm b) (mk_piece b m) (mv_from m))).
  { rewrite dz_pos by (apply (fact_piece b m HR HA)).
    apply phash_remp; [apply (rp_lens _ R1)|apply mv_from_lt|exact F1]. }
  assert (S3 : phash z (mk_pl3 b m) =
               bxor (phash z (remp (remp b (flip (stm b)) (mk_capture b m) (capture_sq b m)) (stm b) (mk_piece b m) (mv_from m)))
                    (dz z (stm b) (mk_put b m) (mv_to m))).
  { rewrite dz_pos by (apply (fact_put b m HR HA)). unfold mk_pl3.
    apply phash_addp; [apply (rp_lens _ R2)|apply mv_to_lt|apply (fact_put b m HR HA)|exact T2]. }
  unfold mk_pl. destruct (rook_sqs (mk_piece b m) (mv_from m) (mv_to m)) as [[rf rt]|] eqn:E; cbn [rook_do].
  - destruct (chain_rook_states b m HR HA rf rt E) as (L1 & L2 & R3 & H3 & R4 & E4).
    assert (RgR : 1 <= Rook <= 6) by (cbv; split; congruence).
    rewrite phash_addp by (try assumption; apply (rp_lens _ R4)).
    rewrite phash_remp by (try assumption; apply (rp_lens _ R3)).
    rewrite S3, S2, S1. rewrite !(dz_pos (stm b) Rook) by exact RgR. xor_solve.
  - rewrite S3, S2, S1. xor_solve.
Qed.

Theorem hash_ok_make l b m : RepW b -> applicable b m = true -> hash_ok b -> hash_ok (fst (make_l l z b m)).
Proof.
  intros [HR He Hc Hh Hf] HA HO. rewrite make_eq. cbn [fst]. unfold hash_ok in *.
  change (cur_hash (mk_board z b m)) with (mk_hash z b m).
  destruct (chain_rook b m HR HA) as (RP & _ & _).
  rewrite calc_hash_terms by (apply (rp_cols64 _ RP)).
  change (phash z (mk_board z b m)) with (phash z (mk_pl b m)).
  change (stm (mk_board z b m)) with (flip (stm b)).
  change (castles (mk_board z b m)) with (bxor (castles b) (mk_change b m)).
  change (ep (mk_board z b m)) with (mk_newep b m).
  rewrite phash_mk_pl by assumption. rewrite stm_term_flip, castle_hash_xor.
  unfold mk_hash. cbv zeta. rewrite HO. rewrite (calc_hash_terms z b) by (apply (rp_cols64 _ HR)).
  assert (E1 : ep_term z (mk_newep b m) = if mk_canep b m then z_ep z (sq_file (mk_newep b m)) else 0).
  { destruct (mk_canep b m) eqn:C.
    - unfold ep_term. pose proof (mk_canep_newep b m C) as N. apply N.eqb_neq in N. rewrite N, sq_file_mod. reflexivity.
    - unfold mk_newep. rewrite C. reflexivity. }
  rewrite E1. unfold ep_term. rewrite <- sq_file_mod.
  destruct (ep b =? 0), (mk_canep b m), (rook_sqs (mk_piece b m) (mv_from m) (mv_to m)) as [[rf rt]|];
    cbn [negb]; xor_solve.
Qed.

Lemma phash_ext b b' : sq2p b = sq2p b' -> cols b = cols b' -> phash z b = phash z b'.
Proof. intros A B. unfold phash, pterm, piece_at, colors. rewrite A, B. reflexivity. Qed.

Theorem hash_ok_make_null l b : RepW b -> hash_ok b -> hash_ok (fst (make_null_l l z b)).
Proof.
  intros [HR He Hc Hh Hf] HO. unfold hash_ok in *.
  pose proof (rp_cols64 _ HR) as W.
  rewrite (calc_hash_terms z b) in HO by exact W.
  unfold make_null_l. cbv zeta.
  destruct (N.eqb_spec (ep b) 0) as [E|E]; cbn [negb fst]; unfold cur_hash at 1;
    cbn [hashes set_hashes hd]; rewrite calc_hash_terms by exact W;
    cbn [stm castles ep set_hashes set_stm set_ep]; rewrite stm_term_flip; rewrite HO.
  - rewrite (phash_ext (set_hashes _ _) b) by reflexivity. rewrite E. xor_solve.
  - rewrite (phash_ext (set_hashes _ _) b) by reflexivity. unfold ep_term. apply N.eqb_neq in E. rewrite E, <- sq_file_mod.
    cbn [N.eqb]. xor_solve.
Qed.
End HashOk.

(* ------------------------------------------------------------------------------------------ *)
(* sequences, reset, transpositions *)

Section C04.
Variable l : tok_layout.
Variable z : zobrist.
Hypothesis HL : layout_ok l = true.

Lemma hash_ok_step b o : RepW b -> op_applicable b o = true -> hash_ok z b -> hash_ok z (fst (step l z b o)).
Proof.
  intros HR HA HO. destruct o as [m|]; cbn [step op_applicable] in *.
  - apply hash_ok_make; assumption.
  - apply hash_ok_make_null; assumption.
Qed.

Theorem run_hash_ok ops : forall b, RepW b -> hash_ok z b -> applicable_all l z b ops ->
  RepW (run l z b ops) /\ hash_ok z (run l z b ops).
Proof.
  induction ops as [|o rest IH]; intros b HR HO HA; cbn [run]; [split; assumption|].
  destruct HA as [HA1 HA2]. apply IH; [apply step_RepW|apply hash_ok_step|]; assumption.
Qed.

Theorem reset_hash_ok b : hash_ok z (reset_hash z b).
Proof. reflexivity. Qed.

Theorem reset_hash_RepW b : RepW b -> RepW (reset_hash z b).
Proof.
  intros [[L P0 W1 W2 S] He Hc Hh Hf]. constructor; [constructor|..]; try assumption. discriminate.
Qed.

Lemma xsum_w64 f sl : (forall s, f s < two64) -> xsum f sl < two64.
Proof.
  intros H. induction sl as [|a t IH]; [reflexivity|]. rewrite xsum_cons. apply bxor_w64; [apply H|exact IH].
Qed.

Lemma calc_hash_w64 b : zob_w64 z -> w64l (cols b) -> calc_hash z b < two64.
Proof.
  intros Z W. pose proof Z as (Zp & Zs & Zc & Ze). rewrite calc_hash_terms by exact W.
  apply bxor_w64; [apply bxor_w64; [apply bxor_w64; [unfold phash; apply bxor_w64|]|]|].
  - apply xsum_w64. intros s. unfold pterm. destruct (N.testbit _ _); [apply Zp|reflexivity].
  - apply xsum_w64. intros s. unfold pterm. destruct (N.testbit _ _); [apply Zp|reflexivity].
  - destruct (stm b); [reflexivity|exact Zs].
  - apply castle_hash_w64. exact Z.
  - unfold ep_term. destruct (_ =? _); [reflexivity|apply Ze].
Qed.

Theorem reset_hash_Rep b : zob_w64 z -> RepW b -> Rep (reset_hash z b).
Proof.
  intros Z HR. apply RepW_Rep; [apply reset_hash_RepW; exact HR|].
  constructor; [|constructor]. apply calc_hash_w64; [exact Z|]. apply (rp_cols64 _ (rw_p _ HR)).
Qed.

(* what the hash depends on: placement (per-square map and colour sets), side to move, castling
   rights, and the en-passant FILE (none when no target is set) *)
Definition hkey (b : board) : list N * list N * color * N * option N :=
  (sq2p b, cols b, stm b, castles b, if ep b =? 0 then None else Some (ep b mod 8)).

Theorem calc_hash_key b b' : hkey b = hkey b' -> calc_hash z b = calc_hash z b'.
Proof.
  unfold hkey. intros H. injection H as A B C D E.
  unfold calc_hash, piece_at, colors. cbv zeta. rewrite A, B, C, D.
  destruct (ep b =? 0), (ep b' =? 0); cbn [negb]; try discriminate; [reflexivity|].
  injection E as E. rewrite E. reflexivity.
Qed.

Theorem transposition ops1 ops2 b0 : RepW b0 -> hash_ok z b0 ->
  applicable_all l z b0 ops1 -> applicable_all l z b0 ops2 ->
  hkey (run l z b0 ops1) = hkey (run l z b0 ops2) -> cur_hash (run l z b0 ops1) = cur_hash (run l z b0 ops2).
Proof.
  intros HR HO A1 A2 K.
  destruct (run_hash_ok ops1 b0 HR HO A1) as (_ & H1). destruct (run_hash_ok ops2 b0 HR HO A2) as (_ & H2).
  unfold hash_ok in *. rewrite H1, H2. apply calc_hash_key. exact K.
Qed.

(* the depth-first walk with undos: the hash is right at every point *)
Inductive stack_okh : board -> list (op * N) -> Prop :=
| soh_nil b : stack_okh b []
| soh_cons b o r st bp : RepW bp -> hash_ok z bp -> op_applicable bp o = true -> step l z bp o = (b, r) ->
    stack_okh bp st -> stack_okh b ((o, r) :: st).

Theorem walk_hash_ok evs : forall b st, RepW b -> hash_ok z b -> stack_okh b st -> walk_ok l z b st evs ->
  RepW (fst (walk l z b st evs)) /\ hash_ok z (fst (walk l z b st evs)).
Proof.
  induction evs as [|e rest IH]; intros b st HR HO HS HW; cbn [walk]; [split; assumption|].
  destruct e as [o|]; cbn [walk_ok] in HW.
  - destruct HW as [HA HW]. pose proof (step_RepW l z b o HR HA) as R. pose proof (hash_ok_step b o HR HA HO) as O.
    destruct (step l z b o) as [b' r] eqn:E. cbn [fst] in R, O. apply IH; try assumption.
    exact (soh_cons b' o r st b HR HO HA E HS).
  - destruct st as [|[o r] st'].
    + apply IH; assumption.
    + inversion HS as [|? ? ? ? bp HRp HOp HAp Ep Sp]; subst.
      pose proof (unstep_step l z HL bp o HRp HAp) as U. rewrite Ep in U. cbn [fst snd] in U.
      rewrite U in *. apply IH; assumption.
Qed.
End C04.
