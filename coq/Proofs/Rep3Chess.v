(* C10, part 2: facts about the chess specification (Spec/Chess.v) that justify the engine's scan.
   - turns alternate, so equal positions are an even number of plies apart;
   - no position recurs after exactly two plies (the square the first mover left is empty or holds
     an enemy piece after the reply);
   - a position reached by a double step (in particular every position with an en-passant square)
     has a placement that never occurred before: a pawn standing on its initial rank has always
     stood there;
   - every successor position records an en-passant square only when a capture is legal. *)
From Coq Require Import NArith ZArith List Bool Lia Arith.
From Chess3 Require Import Base.Bits Model.Types Model.BoardDef Spec.Geometry Spec.Chess Spec.RepSpec Spec.RepLinks.
Import ListNotations.
Open Scope N_scope.

(* ------------------------------------------------------------------------------------------ *)
(* list updates *)

Lemma upd_len {A} (l : list A) i x : length (upd l i x) = length l.
Proof. revert i; induction l as [|h t IH]; intros [|i]; simpl; auto. Qed.
Lemma nth_upd_eq {A} (l : list A) i x d : (i < length l)%nat -> nth i (upd l i x) d = x.
Proof. revert i; induction l as [|h t IH]; intros [|i] H; simpl in *; try lia; auto. apply IH; lia. Qed.
Lemma nth_upd_neq {A} (l : list A) i j x d : i <> j -> nth j (upd l i x) d = nth j l d.
Proof. revert i j; induction l as [|h t IH]; intros [|i] [|j] H; simpl; auto; try congruence. Qed.
Lemma upd_beyond {A} (l : list A) i x : (length l <= i)%nat -> upd l i x = l.
Proof. revert i; induction l as [|h t IH]; intros [|i] H; simpl in *; auto; try lia. f_equal. apply IH. lia. Qed.

Lemma nthN_updN_eq {A} (l : list A) i x d : (N.to_nat i < length l)%nat -> nthN (updN l i x) i d = x.
Proof. apply nth_upd_eq. Qed.
Lemma nthN_updN_neq {A} (l : list A) i j x d : i <> j -> nthN (updN l i x) j d = nthN l j d.
Proof. intros H. apply nth_upd_neq. intros E. apply H. now apply N2Nat.inj. Qed.
Lemma nthN_updN_cases {A} (l : list A) i j x d :
  nthN (updN l i x) j d = x \/ nthN (updN l i x) j d = nthN l j d.
Proof.
  destruct (N.eq_dec i j) as [->|Hn].
  - destruct (lt_dec (N.to_nat j) (length l)).
    + left. now apply nthN_updN_eq.
    + right. unfold updN. rewrite upd_beyond by lia. reflexivity.
  - right. now apply nthN_updN_neq.
Qed.
Lemma updN_len {A} (l : list A) i x : length (updN l i x) = length l.
Proof. apply upd_len. Qed.

(* ------------------------------------------------------------------------------------------ *)
(* small facts *)

Lemma color_eqb_eq c c' : color_eqb c c' = true <-> c = c'.
Proof. destruct c, c'; simpl; split; congruence. Qed.
Lemma flip_neq c : flip c <> c.
Proof. destruct c; discriminate. Qed.
Lemma mv_from_lt m : mv_from m < 64.
Proof. unfold mv_from. change 63 with (N.ones 6). rewrite N.land_ones. now apply N.mod_lt. Qed.
Lemma mv_to_lt m : mv_to m < 64.
Proof. unfold mv_to. change 63 with (N.ones 6). rewrite N.land_ones. now apply N.mod_lt. Qed.

Lemma In_squares64 s : s < 64 -> In s squares64.
Proof.
  intros H. unfold squares64. rewrite <- (N2Nat.id s). apply in_map. apply in_seq. lia.
Qed.
Lemma squares64_lt s : In s squares64 -> s < 64.
Proof.
  unfold squares64. intros H. apply in_map_iff in H. destruct H as (x & <- & H). apply in_seq in H. lia.
Qed.

Lemma succ_at p m : at_ (succ_spec p m) = place_after p m.
Proof. unfold succ_spec. match goal with |- context [if ?c then _ else _] => destruct c end; reflexivity. Qed.
Lemma succ_turn p m : turn (succ_spec p m) = flip (turn p).
Proof. unfold succ_spec. match goal with |- context [if ?c then _ else _] => destruct c end; reflexivity. Qed.

Lemma valid_len p : valid p = true -> length (at_ p) = 64%nat.
Proof.
  unfold valid. intros H. repeat (apply andb_prop in H; destruct H as [H ?]). now apply Nat.eqb_eq in H.
Qed.
Lemma valid_edge p : valid p = true -> no_pawn_on_edge p = true.
Proof.
  unfold valid. intros H. repeat (apply andb_prop in H; destruct H as [H ?]). assumption.
Qed.

(* ------------------------------------------------------------------------------------------ *)
(* what a pseudo-legal move says about its from-square *)

Lemma pseudo_from p m : pseudo_spec p m = true ->
  exists k, who p (mv_from m) = Some (turn p, k) /\ mv_from m <> mv_to m.
Proof.
  unfold pseudo_spec. destruct (who p (mv_from m)) as [[c' k]|] eqn:W; [|discriminate].
  intros H. apply andb_prop in H. destruct H as [H _]. apply andb_prop in H. destruct H as [Hc Ho].
  apply color_eqb_eq in Hc. subst c'. exists k. split; [reflexivity|].
  intros E. rewrite <- E in Ho. unfold owned_by in Ho. rewrite W in Ho.
  assert (color_eqb (turn p) (turn p) = true) as X by now apply color_eqb_eq.
  rewrite X in Ho. discriminate.
Qed.

Lemma legal_pseudo p m : legal_spec p m = true -> pseudo_spec p m = true.
Proof. unfold legal_spec. intros H. now apply andb_prop in H. Qed.

(* the square a move leaves is empty afterwards *)
Lemma place_after_from p m : pseudo_spec p m = true -> length (at_ p) = 64%nat ->
  nthN (place_after p m) (mv_from m) None = None.
Proof.
  intros Hp Hl. destruct (pseudo_from p m Hp) as (k & W & Hne).
  pose proof (mv_from_lt m) as Hf.
  assert (Keep : forall l i, nthN l (mv_from m) None = None ->
                 nthN (updN l i (@None (color * N))) (mv_from m) None = None).
  { intros l i H. destruct (nthN_updN_cases l i (mv_from m) None None) as [E|E]; congruence. }
  unfold place_after. cbv zeta. unfold put.
  set (l0 := updN (updN (at_ p) (mv_from m) None) (mv_to m) _).
  assert (H0 : nthN l0 (mv_from m) None = None).
  { unfold l0. rewrite nthN_updN_neq by congruence. apply nthN_updN_eq. rewrite Hl. lia. }
  set (l1 := if is_ep_capture p m then _ else l0).
  assert (H1 : nthN l1 (mv_from m) None = None).
  { unfold l1. destruct (is_ep_capture p m); [now apply Keep | exact H0]. }
  destruct (is_castling p m) eqn:Hc; [|exact H1].
  destruct (mv_to m =? mv_from m + 2) eqn:E.
  - rewrite nthN_updN_neq by lia. now apply Keep.
  - unfold is_castling in Hc. apply andb_prop in Hc. destruct Hc as [_ Hc].
    rewrite E in Hc. simpl in Hc. apply N.eqb_eq in Hc.
    rewrite nthN_updN_neq by lia. now apply Keep.
Qed.

(* every square afterwards holds what it held, nothing, or a piece of the mover *)
Lemma place_after_any p m s :
  let v := nthN (place_after p m) s None in
  v = nthN (at_ p) s None \/ v = None \/ exists k, v = Some (turn p, k).
Proof.
  set (Good := fun l : list (option (color * N)) =>
     nthN l s None = nthN (at_ p) s None \/ nthN l s None = None \/ exists k, nthN l s None = Some (turn p, k)).
  assert (GN : forall l i, Good l -> Good (updN l i None)).
  { intros l i G. unfold Good. destruct (nthN_updN_cases l i s None None) as [E|E]; rewrite E; auto. }
  assert (GS : forall l i k, Good l -> Good (updN l i (Some (turn p, k)))).
  { intros l i k G. unfold Good. destruct (nthN_updN_cases l i s (Some (turn p, k)) None) as [E|E]; rewrite E; eauto. }
  assert (G0 : Good (at_ p)) by (left; reflexivity).
  cbv zeta. change (Good (place_after p m)).
  unfold place_after. cbv zeta. unfold put.
  repeat match goal with
         | |- Good (if ?c then _ else _) => destruct c
         | |- Good (updN _ _ None) => apply GN
         | |- Good (updN _ _ (Some (turn p, _))) => apply GS
         end; exact G0.
Qed.

(* no position recurs after exactly two plies *)
Lemma no_repeat_at_2 p m m' :
  length (at_ p) = 64%nat -> pseudo_spec p m = true ->
  at_ (succ_spec (succ_spec p m) m') <> at_ p.
Proof.
  intros Hl Hp E.
  destruct (pseudo_from p m Hp) as (k & W & _).
  pose proof (place_after_from p m Hp Hl) as H1.
  pose proof (place_after_any (succ_spec p m) m' (mv_from m)) as H2. cbv zeta in H2.
  rewrite succ_at in E. rewrite E in H2. rewrite succ_at, H1, succ_turn in H2.
  unfold who in W. rewrite W in H2.
  destruct H2 as [H2|[H2|(k' & H2)]]; try discriminate.
  inversion H2 as [[Hc Hk]]. symmetry in Hc. now apply flip_neq in Hc.
Qed.

(* ------------------------------------------------------------------------------------------ *)
(* pawn geometry, by a finite check over all (colour, from, to) *)

Definition pawn_geom (c : color) (from to : N) : bool :=
  (to =? fwd c from) || ((rank_n from =? second_rank c) && (to =? fwd c (fwd c from)))
  || mem (pawn_attacks c from) to.

Definition geom_table1 : bool :=
  forallb (fun c => forallb (fun from => forallb (fun to =>
    negb (pawn_geom c from to) || negb (rank_n to =? second_rank c) || (rank_n from =? home_rank c))
    squares64) squares64) [White; Black].
Definition geom_table2 : bool :=
  forallb (fun c => forallb (fun from => forallb (fun to =>
    negb (pawn_geom c from to && ((to =? from + 16) || (to + 16 =? from))) || (rank_n from =? second_rank c))
    squares64) squares64) [White; Black].
Lemma geom_table1_ok : geom_table1 = true. Proof. vm_compute. reflexivity. Qed.
Lemma geom_table2_ok : geom_table2 = true. Proof. vm_compute. reflexivity. Qed.

Lemma In_colors c : In c [White; Black]. Proof. destruct c; simpl; auto. Qed.

Lemma geom1 c from to : from < 64 -> to < 64 -> pawn_geom c from to = true ->
  rank_n to = second_rank c -> rank_n from = home_rank c.
Proof.
  intros Hf Ht G R. pose proof geom_table1_ok as T. unfold geom_table1 in T.
  rewrite forallb_forall in T. specialize (T c (In_colors c)).
  rewrite forallb_forall in T. specialize (T from (In_squares64 _ Hf)).
  rewrite forallb_forall in T. specialize (T to (In_squares64 _ Ht)).
  rewrite G, R, N.eqb_refl in T. simpl in T. now apply N.eqb_eq.
Qed.
Lemma geom2 c from to : from < 64 -> to < 64 -> pawn_geom c from to = true ->
  ((to =? from + 16) || (to + 16 =? from)) = true -> rank_n from = second_rank c.
Proof.
  intros Hf Ht G R. pose proof geom_table2_ok as T. unfold geom_table2 in T.
  rewrite forallb_forall in T. specialize (T c (In_colors c)).
  rewrite forallb_forall in T. specialize (T from (In_squares64 _ Hf)).
  rewrite forallb_forall in T. specialize (T to (In_squares64 _ Ht)).
  rewrite G, R in T. simpl in T. now apply N.eqb_eq.
Qed.

(* a pseudo-legal move of a pawn: no promotion piece unless to the last rank, and pawn geometry *)
Lemma pseudo_pawn p m : pseudo_spec p m = true -> who p (mv_from m) = Some (turn p, Pawn) ->
  pawn_geom (turn p) (mv_from m) (mv_to m) = true /\
  (mv_promo m = 0 \/ (rank_n (mv_to m) = last_rank (turn p) /\ is_promo_piece (mv_promo m) = true)).
Proof.
  unfold pseudo_spec. intros H W. rewrite W in H. change (Pawn =? Pawn) with true in H. cbv iota in H.
  apply andb_prop in H. destruct H as [_ H]. apply andb_prop in H. destruct H as [Hpr Hg].
  split.
  - unfold pawn_geom.
    destruct (mv_to m =? fwd (turn p) (mv_from m)); [reflexivity|].
    destruct (rank_n (mv_from m) =? second_rank (turn p));
    destruct (mv_to m =? fwd (turn p) (fwd (turn p) (mv_from m)));
    destruct (mem (pawn_attacks (turn p) (mv_from m)) (mv_to m)); simpl in *; try reflexivity; discriminate.
  - destruct (rank_n (mv_to m) =? last_rank (turn p)) eqn:E.
    + right. apply N.eqb_eq in E. auto.
    + left. now apply N.eqb_eq.
Qed.

(* a piece that is not a pawn moves without a promotion piece *)
Lemma pseudo_nonpawn p m k : pseudo_spec p m = true -> who p (mv_from m) = Some (turn p, k) ->
  k <> Pawn -> mv_promo m = 0.
Proof.
  unfold pseudo_spec. intros H W Hk. rewrite W in H.
  apply N.eqb_neq in Hk. rewrite Hk in H.
  apply andb_prop in H. destruct H as [_ H].
  destruct (k =? King); apply andb_prop in H; destruct H as [H _]; now apply N.eqb_eq.
Qed.

Lemma edge_no_pawn p c s : no_pawn_on_edge p = true -> s < 64 -> rank_n s = home_rank c ->
  who p s <> Some (c, Pawn).
Proof.
  intros E Hs R W. unfold no_pawn_on_edge in E. rewrite forallb_forall in E.
  specialize (E s (In_squares64 _ Hs)).
  assert (X : (rank_n s =? 0) || (rank_n s =? 7) = true) by (rewrite R; destruct c; reflexivity).
  rewrite X in E. simpl in E.
  assert (Y : holds p s White Pawn || holds p s Black Pawn = true).
  { unfold holds. rewrite W. destruct c; simpl; reflexivity. }
  rewrite Y in E. discriminate.
Qed.

(* a pawn that stands on its initial rank after a move stood there before the move *)
Lemma back_pawn_step p m c s : valid p = true -> legal_spec p m = true -> s < 64 ->
  rank_n s = second_rank c ->
  who (succ_spec p m) s = Some (c, Pawn) -> who p s = Some (c, Pawn).
Proof.
  intros Hv Hlg Hs R.
  pose proof (legal_pseudo _ _ Hlg) as Hp.
  destruct (pseudo_from p m Hp) as (k & W & Hne).
  unfold who at 1. rewrite succ_at.
  set (Good := fun l : list (option (color * N)) =>
     nthN l s None = Some (c, Pawn) -> nthN (at_ p) s None = Some (c, Pawn)).
  assert (GN : forall l i, Good l -> Good (updN l i None)).
  { intros l i G. unfold Good. destruct (nthN_updN_cases l i s None None) as [E|E]; rewrite E; [discriminate|exact G]. }
  assert (GR : forall l i, Good l -> Good (updN l i (Some (turn p, Rook)))).
  { intros l i G. unfold Good. destruct (nthN_updN_cases l i s (Some (turn p, Rook)) None) as [E|E]; rewrite E; [discriminate|exact G]. }
  assert (G0 : Good (at_ p)) by (intro; assumption).
  (* the moved piece lands on [to]: it cannot be a pawn arriving on its own initial rank *)
  assert (GT : forall l, Good l ->
     Good (updN l (mv_to m) (Some (turn p, if mv_promo m =? 0 then k else mv_promo m)))).
  { intros l G. unfold Good.
    destruct (N.eq_dec (mv_to m) s) as [Hts|Hts].
    2:{ rewrite nthN_updN_neq by exact Hts. exact G. }
    destruct (nthN_updN_cases l (mv_to m) s (Some (turn p, if mv_promo m =? 0 then k else mv_promo m)) None) as [E|E];
      rewrite E; [|exact G].
    intros X. exfalso. inversion X as [[Hc Hk]]. clear X.
    destruct (N.eq_dec k Pawn) as [Hkp|Hkp].
    - subst k. destruct (pseudo_pawn p m Hp W) as [Hg _].
      assert (Hr : rank_n (mv_from m) = home_rank (turn p)).
      { apply (geom1 _ _ (mv_to m)); auto using mv_from_lt, mv_to_lt. rewrite Hts, Hc. exact R. }
      exact (edge_no_pawn p (turn p) (mv_from m) (valid_edge _ Hv) (mv_from_lt m) Hr W).
    - rewrite (pseudo_nonpawn p m k Hp W Hkp) in Hk. simpl in Hk. congruence. }
  change (Good (place_after p m)).
  unfold place_after. cbv zeta. unfold put. rewrite W.
  repeat match goal with
         | |- Good (if ?c then _ else _) => destruct c
         | |- Good (updN _ _ None) => apply GN
         | |- Good (updN _ _ (Some (turn p, Rook))) => apply GR
         | |- Good (updN _ (mv_to m) _) => apply GT
         end; exact G0.
Qed.

(* an en-passant square after a move: the move was a double step of a pawn from its initial rank *)
Lemma ep_origin p m e : legal_spec p m = true -> epsq (succ_spec p m) = Some e ->
  who p (mv_from m) = Some (turn p, Pawn) /\ rank_n (mv_from m) = second_rank (turn p).
Proof.
  intros Hlg H. pose proof (legal_pseudo _ _ Hlg) as Hp.
  assert (D : holds p (mv_from m) (turn p) Pawn &&
              ((mv_to m =? mv_from m + 16) || (mv_to m + 16 =? mv_from m)) = true).
  { unfold succ_spec in H. cbv zeta in H.
    destruct (holds p (mv_from m) (turn p) Pawn &&
              ((mv_to m =? mv_from m + 16) || (mv_to m + 16 =? mv_from m))); [reflexivity|].
    simpl in H. discriminate. }
  apply andb_prop in D. destruct D as [Hh Hd].
  assert (W : who p (mv_from m) = Some (turn p, Pawn)).
  { unfold holds in Hh. destruct (who p (mv_from m)) as [[c' k']|]; [|discriminate].
    apply andb_prop in Hh. destruct Hh as [Hc Hk]. apply color_eqb_eq in Hc. apply N.eqb_eq in Hk. now subst. }
  split; [exact W|].
  destruct (pseudo_pawn p m Hp W) as [Hg _].
  apply (geom2 _ _ (mv_to m)); auto using mv_from_lt, mv_to_lt.
Qed.

(* successor positions follow the engine's convention: a square is recorded only if a capture is legal *)
Lemma succ_normal p m : normal_ep (succ_spec p m) = true.
Proof.
  unfold succ_spec. cbv zeta.
  match goal with |- context [if ?c then _ else _] => destruct c eqn:C end.
  - apply andb_prop in C. destruct C as [_ C].
    unfold normal_ep. cbn [epsq]. unfold ep_capturable in *. cbn [at_ turn rights half fullm] in *. exact C.
  - reflexivity.
Qed.

(* ------------------------------------------------------------------------------------------ *)
(* histories, pointwise *)

Lemma spec_hist_len ms : forall p, length (spec_hist p ms) = S (length ms).
Proof. induction ms as [|m r IH]; intros p; simpl; [reflexivity|]. now rewrite IH. Qed.

Lemma spec_hist_0 p ms d : nth 0 (spec_hist p ms) d = p.
Proof. destruct ms; reflexivity. Qed.

Lemma spec_hist_step ms : forall p i d, (i < length ms)%nat ->
  nth (S i) (spec_hist p ms) d = succ_spec (nth i (spec_hist p ms) d) (nth i ms 0).
Proof.
  induction ms as [|m r IH]; intros p i d H; simpl in H; [lia|].
  destruct i as [|i].
  - simpl. now rewrite spec_hist_0.
  - change (nth (S (S i)) (spec_hist p (m :: r)) d) with (nth (S i) (spec_hist (succ_spec p m) r) d).
    change (nth (S i) (spec_hist p (m :: r)) d) with (nth i (spec_hist (succ_spec p m) r) d).
    change (nth (S i) (m :: r) 0) with (nth i r 0). apply IH. lia.
Qed.

Lemma legal_chain_nth ms : forall p i d, legal_chain p ms = true -> (i < length ms)%nat ->
  legal_spec (nth i (spec_hist p ms) d) (nth i ms 0) = true.
Proof.
  induction ms as [|m r IH]; intros p i d L H; simpl in H; [lia|].
  simpl in L. apply andb_prop in L. destruct L as [L1 L2].
  destruct i as [|i]; [exact L1|].
  change (nth (S i) (spec_hist p (m :: r)) d) with (nth i (spec_hist (succ_spec p m) r) d).
  change (nth (S i) (m :: r) 0) with (nth i r 0). apply IH; [exact L2 | lia].
Qed.

Lemma pos_key_at p q : pos_key p = pos_key q -> at_ p = at_ q.
Proof. intros K. exact (f_equal (fun k : poskey => fst (fst (fst k))) K). Qed.
Lemma pos_key_turn p q : pos_key p = pos_key q -> turn p = turn q.
Proof. intros K. exact (f_equal (fun k : poskey => snd (fst (fst k))) K). Qed.
Lemma pos_key_rights p q : pos_key p = pos_key q -> rights p = rights q.
Proof. intros K. exact (f_equal (fun k : poskey => snd (fst k)) K). Qed.
Lemma pos_key_ep p q : pos_key p = pos_key q ->
  match epsq p with Some e => ep_capturable p e | None => false end =
  match epsq q with Some e => ep_capturable q e | None => false end.
Proof. intros K. exact (f_equal (fun k : poskey => snd k) K). Qed.

Section Chain.
  Variable p0 : pos.
  Variable ms : list N.
  Hypothesis VL : valid_link.
  Hypothesis V0 : valid p0 = true.
  Hypothesis N0 : normal_ep p0 = true.
  Hypothesis LC : legal_chain p0 ms = true.

  Let P (i : nat) : pos := nth i (spec_hist p0 ms) p0.
  Let n := length ms.

  Lemma P_step i : (i < n)%nat -> P (S i) = succ_spec (P i) (nth i ms 0).
  Proof. intros H. apply spec_hist_step. exact H. Qed.
  Lemma P_legal i : (i < n)%nat -> legal_spec (P i) (nth i ms 0) = true.
  Proof. intros H. apply legal_chain_nth; assumption. Qed.
  Lemma P_valid i : (i <= n)%nat -> valid (P i) = true.
  Proof.
    induction i as [|i IH]; intros H.
    - unfold P. rewrite spec_hist_0. exact V0.
    - rewrite P_step by lia. apply VL; [apply IH; lia | apply P_legal; lia].
  Qed.
  Lemma P_normal i : (i <= n)%nat -> normal_ep (P i) = true.
  Proof.
    destruct i as [|i]; intros H.
    - unfold P. rewrite spec_hist_0. exact N0.
    - rewrite P_step by lia. apply succ_normal.
  Qed.

  (* turns alternate *)
  Lemma P_turn i d : (i + d <= n)%nat ->
    turn (P (i + d)) = if Nat.even d then turn (P i) else flip (turn (P i)).
  Proof.
    induction d as [|d IH]; intros H.
    - rewrite Nat.add_0_r. reflexivity.
    - rewrite Nat.add_succ_r, P_step, succ_turn, IH by lia.
      rewrite Nat.even_succ, <- Nat.negb_even. destruct (Nat.even d); simpl; [reflexivity|].
      now destruct (turn (P i)).
  Qed.

  (* equal positions are an even number of plies apart *)
  Lemma key_parity i d : (i + d <= n)%nat -> turn (P (i + d)) = turn (P i) -> Nat.even d = true.
  Proof.
    intros H E. rewrite P_turn in E by exact H. destruct (Nat.even d); [reflexivity|].
    exfalso. exact (flip_neq _ E).
  Qed.

  (* ... and never exactly two *)
  Lemma P_no_repeat_at_2 i : (i + 2 <= n)%nat -> at_ (P (i + 2)) <> at_ (P i).
  Proof.
    intros H. replace (i + 2)%nat with (S (S i)) by lia.
    rewrite (P_step (S i)), (P_step i) by lia.
    apply no_repeat_at_2.
    - apply valid_len, P_valid. lia.
    - apply legal_pseudo, P_legal. lia.
  Qed.

  (* a pawn on its initial rank has always been there *)
  Lemma P_back_pawn c s j : (j <= n)%nat -> s < 64 -> rank_n s = second_rank c ->
    who (P j) s = Some (c, Pawn) -> forall i, (i <= j)%nat -> who (P i) s = Some (c, Pawn).
  Proof.
    intros Hj Hs R. induction j as [|j IH]; intros W i Hi.
    - replace i with 0%nat by lia. exact W.
    - destruct (Nat.eq_dec i (S j)) as [->|Hne]; [exact W|].
      apply IH; [lia| |lia].
      rewrite P_step in W by lia.
      apply (back_pawn_step (P j) (nth j ms 0) c s); auto.
      + apply P_valid. lia.
      + apply P_legal. lia.
  Qed.

  (* the placement of a position with an en-passant square never occurred before *)
  Lemma P_ep_fresh i j e : (i < j)%nat -> (j <= n)%nat -> epsq (P j) = Some e -> at_ (P i) <> at_ (P j).
  Proof.
    intros Hij Hj E A. destruct j as [|j]; [lia|].
    rewrite P_step in E by lia.
    destruct (ep_origin _ _ _ (P_legal j ltac:(lia)) E) as [W R].
    assert (Wi : who (P i) (mv_from (nth j ms 0)) = Some (turn (P j), Pawn)).
    { apply (P_back_pawn (turn (P j)) _ j); auto using mv_from_lt; lia. }
    assert (Wj : who (P (S j)) (mv_from (nth j ms 0)) = None).
    { unfold who. rewrite P_step, succ_at by lia. apply place_after_from.
      - apply legal_pseudo, P_legal. lia.
      - apply valid_len, P_valid. lia. }
    unfold who in Wi, Wj. rewrite A in Wi. congruence.
  Qed.

  (* two different plies with the same position key: neither has an en-passant square *)
  Lemma P_key_no_ep i j : (i < j)%nat -> (j <= n)%nat -> pos_key (P i) = pos_key (P j) ->
    epsq (P i) = None /\ epsq (P j) = None.
  Proof.
    intros Hij Hj K. pose proof (pos_key_at _ _ K) as A. pose proof (pos_key_ep _ _ K) as E.
    assert (Ej : epsq (P j) = None).
    { destruct (epsq (P j)) as [e|] eqn:X; [|reflexivity]. exfalso. exact (P_ep_fresh i j e Hij Hj X A). }
    split; [|exact Ej].
    rewrite Ej in E. pose proof (P_normal i ltac:(lia)) as Ni. unfold normal_ep in Ni.
    destruct (epsq (P i)) as [e|]; [|reflexivity]. congruence.
  Qed.
End Chain.
