(* C09, soundness of the IsStalemate exits for queens, bishops and rooks.  These loops answer "not
   stalemate" as soon as the piece has any target square, for a piece that may well be pinned along
   one of its own lines ("queens can't be pinned to the extent that they can't move, for instance they
   can always capture the pinner").  The proofs follow the comment: if the piece passes the slider test
   every target is a legal move; otherwise capturing the pinner is. *)
From Coq Require Import NArith ZArith List Bool Lia.
From Chess3 Require Import Base.Bits Model.Types Spec.Geometry Model.Att Model.BoardDef Model.Board
     Model.Movegen Model.Mate Spec.Chess Spec.Rep Proofs.MateGeom Proofs.MateAbs Proofs.MateKing
     Proofs.MateMove Proofs.MateCapture Proofs.MateBlockGeom Proofs.MateBlock Proofs.MateStale Proofs.MatePinGeom.
Import ListNotations.
Open Scope N_scope.

(* a family of ray directions with the finite facts we need *)
Record good_dirs (dirs : list (Z * Z)) : Prop := {
  gd_sym : forall s t, s < 64 -> t < 64 -> sym_check dirs s t = true;
  gd_ends : forall s t, s < 64 -> t < 64 -> ends_check dirs s t = true;
  gd_uniq : forall k u, k < 64 -> u < 64 -> uniq_check dirs k u = true;
  gd_suffix : forall k u, k < 64 -> u < 64 -> suffix_check dirs k u = true
}.
Lemma good_rook : good_dirs rook_dirs.
Proof. constructor; [exact rook_sym_check|exact rook_ends_check|exact rook_uniq|exact rook_suffix]. Qed.
Lemma good_bishop : good_dirs bishop_dirs.
Proof. constructor; [exact bishop_sym_check|exact bishop_ends_check|exact bishop_uniq|exact bishop_suffix]. Qed.

Lemma hit_pfx dirs k occ u : k < 64 -> u < 64 -> good_dirs dirs -> hit dirs k occ u = true ->
  exists pre, pfx dirs k u = Some pre /\ all_clear occ pre = true /\ (forall x, In x pre -> x < 64 /\ x <> k /\ x <> u).
Proof.
  intros Hk Hu G H. destruct (hit_prefix _ _ _ _ H) as (dir & pre & Hd & Hp & Hc).
  exists pre. split; [apply (pfx_of_dir dirs k u dir pre (gd_uniq _ G k u Hk Hu) Hd Hp)|]. split; [exact Hc|].
  intros x Hx. pose proof (gd_ends _ G k u Hk Hu) as E. unfold ends_check in E. rewrite forallb_forall in E.
  specialize (E dir Hd). rewrite Hp in E. apply andb_prop in E. destruct E as [E E3]. apply andb_prop in E. destruct E as [E1 E2].
  rewrite forallb_forall in E3. specialize (E3 x Hx). apply N.ltb_lt in E3.
  apply negb_true_iff in E1, E2. split; [exact E3|]. split.
  - exact (not_existsb_eqb _ _ E1 x Hx).
  - exact (not_existsb_eqb _ _ E2 x Hx).
Qed.

Lemma pfx_hit dirs k occ u pre : pfx dirs k u = Some pre -> all_clear occ pre = true -> hit dirs k occ u = true.
Proof.
  unfold hit. induction dirs as [|d r IH]; cbn [pfx existsb]; intros Hp Hc; [discriminate|].
  destruct (prefix_to (ray k d) u) as [p0|] eqn:E.
  - injection Hp as ->. rewrite Hc. reflexivity.
  - rewrite (IH Hp Hc). apply orb_true_r.
Qed.

(* ------------------------------------------------------------------------------------------ *)

Section Pin.
Variable b : board.
Hypothesis HR : Rep b.
Hypothesis HV : valid (abs b) = true.
Hypothesis Hchk : in_check b (stm b) = false.
Let me := stm b.
Let them := flip me.
Let own := colors b me.
Let opp := colors b them.
Let occ := occupancy b.
Variable k0 : N.
Hypothesis Hk0 : k0 < 64.
Hypothesis Hkbit : band (pieces b King) own = bit k0.
Hypothesis Hking : forall s, s < 64 -> holds (abs b) s me King = (s =? k0).

(* the moving piece *)
Variables d kd : N.
Hypothesis Hd : d < 64.
Hypothesis Hwd : who (abs b) d = Some (me, kd).
Hypothesis Hkd : kd <> King.
Variable pr : N.
Hypothesis Hpr : In pr [0; Knight; Bishop; Rook; Queen].
Let nocc := band occ (bnot (bit d)).

Lemma nocc_testbit x : N.testbit nocc x = N.testbit occ x && negb (d =? x).
Proof.
  unfold nocc, band. rewrite N.land_spec, bnot_testbit, bit_testbit.
  destruct (N.ltb_spec x 64) as [L|L]; [reflexivity|]. unfold occ. rewrite (occ_high b HR x L). reflexivity.
Qed.

(* an enemy slider u that is seen from the king along [dirs] once d is lifted, where kd moves along dirs *)
Variables (dirs : list (Z * Z)) (u : N).
Hypothesis Gd : good_dirs dirs.
Hypothesis Hdirs_kd : forall occ2 t, hit dirs d occ2 t = true -> mem (attacks_from me kd d occ2) t = true.
Hypothesis Hu : u < 64.
Hypothesis Huopp : N.testbit opp u = true.
Hypothesis Hhit : hit dirs k0 nocc u = true.
(* u really is a slider along dirs *)
Hypothesis Hshare_b : share_all dirs bishop_dirs = true.
Hypothesis Hshare_r : share_all dirs rook_dirs = true.
Hypothesis Hu_attacks : forall occ2, hit dirs u occ2 k0 = true -> exists ku, who (abs b) u = Some (them, ku) /\ mem (attacks_from them ku u occ2) k0 = true.

Lemma pin_not_attacking : hit dirs k0 occ u = false.
Proof.
  destruct (hit dirs k0 occ u) eqn:E; [|reflexivity]. exfalso.
  apply (hit_sym_gen dirs (gd_sym _ Gd) k0 u occ Hk0 Hu) in E.
  destruct (Hu_attacks occ E) as [ku [Hw Hm]].
  apply (not_attacked b HR Hchk k0 Hk0 Hkbit u ku occ Hu Hw Hm). intros; reflexivity.
Qed.

Lemma pin_geometry : exists pre, pfx dirs k0 u = Some pre /\ all_clear nocc pre = true /\ In d pre /\
  (forall x, In x pre -> x < 64 /\ x <> k0 /\ x <> u).
Proof.
  clear Hdirs_kd.
  destruct (hit_pfx dirs k0 nocc u Hk0 Hu Gd Hhit) as [pre [Hp [Hc Hr]]]. exists pre. split; [exact Hp|]. split; [exact Hc|].
  split; [|exact Hr].
  (* some square of the prefix is occupied; lifted d makes it empty: it is d *)
  destruct (all_clear occ pre) eqn:E.
  - pose proof pin_not_attacking as Hna. rewrite (pfx_hit dirs k0 occ u pre Hp E) in Hna. discriminate Hna.
  - unfold all_clear in E. apply Bool.not_true_iff_false in E. rewrite forallb_forall in E.
    destruct (in_dec N.eq_dec d pre) as [Hin|Hnin]; [exact Hin|]. exfalso. apply E. intros x Hx.
    pose proof (all_clear_in nocc pre x Hc Hx) as F. rewrite nocc_testbit in F.
    destruct (N.eqb_spec d x) as [->|]; [contradiction|]. rewrite andb_true_r in F. rewrite F. reflexivity.
Qed.

Lemma pin_capture_pseudo : N.testbit own u = false /\ mem (attacks_from me kd d occ) u = true /\ d <> u.
Proof.
  destruct pin_geometry as [pre [Hp [Hc [Hin Hr]]]].
  assert (Hown : N.testbit own u = false) by (apply (colors_disjoint b HR me u Hu Huopp)).
  split; [exact Hown|]. destruct (Hr d Hin) as (_ & _ & Hdu). split; [|exact Hdu].
  apply Hdirs_kd.
  pose proof (gd_suffix _ Gd k0 u Hk0 Hu) as S. unfold suffix_check in S. rewrite Hp in S.
  rewrite forallb_forall in S. specialize (S d Hin).
  destruct (pfx dirs d u) as [post|] eqn:Epost; [|discriminate].
  apply (pfx_hit dirs d occ u post Epost).
  unfold all_clear. apply forallb_forall. intros x Hx. apply negb_true_iff.
  rewrite forallb_forall in S. specialize (S x Hx). apply andb_prop in S. destruct S as [S1 S2].
  apply memb_In in S1. apply negb_true_iff, N.eqb_neq in S2.
  pose proof (all_clear_in nocc pre x Hc S1) as F. rewrite nocc_testbit in F.
  destruct (N.eqb_spec d x); [congruence|]. rewrite andb_true_r in F. exact F.
Qed.

(* capturing the pinner is legal *)
Lemma pin_capture_legal :
  is_ep_capture (abs b) (mk_move d u pr) = false -> pseudo_spec (abs b) (mk_move d u pr) = true ->
  legal_spec (abs b) (mk_move d u pr) = true.
Proof.
  clear Hdirs_kd.
  intros Hnep Hps. destruct pin_geometry as [pre [Hp [Hc [Hin Hr]]]].
  assert (Hown : N.testbit own u = false) by (apply (colors_disjoint b HR me u Hu Huopp)).
  destruct (Hr d Hin) as (_ & _ & Hdu).
  assert (Huk : u <> k0).
  { intros ->. assert (N.testbit (bit k0) k0 = true) as Hb by (rewrite bit_testbit; apply N.eqb_refl).
    rewrite <- Hkbit in Hb. unfold band in Hb. rewrite N.land_spec in Hb. apply andb_prop in Hb. destruct Hb as [_ Hb].
    rewrite Hb in Hown. discriminate. }
  pose proof Hkd as Hkdk.
  apply (move_legal b d u kd pr k0 Hd Hu Hk0 Hking Hwd Hkdk Hpr Hdu Huk Hnep Hps).
  intros v kv Hv Hvu Hwv Hmem. fold me in Hwv. fold them in Hwv, Hmem.
  destruct (who_abs_inv b HR v them kv Hv Hwv) as (Hkv & Hpv & Hcv & _).
  set (occ' := occ_of _) in Hmem.
  assert (Hocc' : forall i, N.testbit occ' i = N.testbit nocc i).
  { intros i. unfold occ'. rewrite (move_occ b HR d u kd pr k0 Hd Hu Hk0 Hwd Hkdk Hpr Hdu Huk Hnep i).
    rewrite nocc_testbit. destruct (N.ltb_spec i 64) as [L|L]; [|unfold occ; rewrite (occ_high b HR i L); reflexivity]. cbn [andb].
    destruct (N.eqb_spec u i) as [<-|E].
    - destruct (N.eqb_spec d u); [contradiction|]. unfold occ. rewrite (occupancy_of_color b them u Huopp). reflexivity.
    - cbn [orb]. apply andb_comm. }
  assert (Hleap : mem (attacks_from them kv v occ) k0 = true -> False).
  { intros Hm. apply (not_attacked b HR Hchk k0 Hk0 Hkbit v kv occ Hv Hwv Hm). intros; reflexivity. }
  (* a slider v along dirsV that attacks after the capture *)
  assert (Hslide : forall dirsV, good_dirs dirsV -> share_all dirs dirsV = true ->
            (hit dirsV v occ k0 = true -> False) -> hit dirsV v occ' k0 = true -> False).
  { intros dirsV GV Hshare Hnot Hh.
    apply (hit_sym_gen dirsV (gd_sym _ GV) v k0 occ' Hv Hk0) in Hh.
    assert (Hh2 : hit dirsV k0 nocc v = true).
    { destruct (hit_prefix _ _ _ _ Hh) as (dir & p & Hdir & Hpp & Hcc). unfold hit. apply existsb_exists. exists dir.
      split; [exact Hdir|]. rewrite Hpp. unfold all_clear in *. rewrite forallb_forall in *. intros x Hx.
      rewrite <- Hocc'. apply Hcc. exact Hx. }
    destruct (hit_pfx dirsV k0 nocc v Hk0 Hv GV Hh2) as [pv [Hpv' [Hcv' Hrv]]].
    (* d is on v's prefix, otherwise v attacked before *)
    assert (Hdv : In d pv).
    { destruct (in_dec N.eq_dec d pv) as [I|I]; [exact I|]. exfalso. apply Hnot.
      apply (hit_sym_gen dirsV (gd_sym _ GV) k0 v occ Hk0 Hv). apply (pfx_hit dirsV k0 occ v pv Hpv').
      unfold all_clear. apply forallb_forall. intros x Hx. apply negb_true_iff.
      pose proof (all_clear_in nocc pv x Hcv' Hx) as F. rewrite nocc_testbit in F.
      destruct (N.eqb_spec d x) as [->|]; [contradiction|]. rewrite andb_true_r in F. exact F. }
    pose proof (share_lift dirs dirsV Hshare k0 u v Hk0 Hu Hv) as S. unfold share_check in S. rewrite Hp, Hpv' in S.
    assert (existsb (fun x => memb x pv) pre = true) as Hex.
    { apply existsb_exists. exists d. split; [exact Hin|apply memb_In; exact Hdv]. }
    rewrite Hex in S. apply orb_true_iff in S. destruct S as [S|S]; [apply orb_true_iff in S; destruct S as [S|S]|].
    - (* u on v's prefix: occupied *)
      apply memb_In in S. pose proof (all_clear_in nocc pv u Hcv' S) as F. rewrite nocc_testbit in F.
      unfold occ in F. rewrite (occupancy_of_color b them u Huopp) in F. destruct (N.eqb_spec d u); [contradiction|]. discriminate.
    - (* v on u's prefix: occupied *)
      apply memb_In in S. pose proof (all_clear_in nocc pre v Hc S) as F. rewrite nocc_testbit in F.
      unfold occ in F. rewrite (occupancy_of_color b them v Hcv) in F.
      destruct (N.eqb_spec d v) as [->|]; [|discriminate].
      destruct (who_abs_inv b HR v me kd Hv Hwd) as (_ & _ & Hc2 & _).
      rewrite (colors_disjoint b HR me v Hv Hcv) in Hc2. discriminate.
    - apply N.eqb_eq in S. congruence. }
  unfold mem in Hmem.
  assert (kv = 1 \/ kv = 2 \/ kv = 3 \/ kv = 4 \/ kv = 5 \/ kv = 6) as [->|[->|[->|[->|[->| ->]]]]] by lia.
  - apply Hleap. exact Hmem.
  - apply Hleap. exact Hmem.
  - apply (Hslide bishop_dirs good_bishop).
    + exact Hshare_b.
    + intros Hh. apply Hleap. unfold mem. change (attacks_from them 3 v occ) with (bishop_attacks v occ). rewrite bishop_testbit. exact Hh.
    + rewrite <- bishop_testbit. exact Hmem.
  - apply (Hslide rook_dirs good_rook).
    + exact Hshare_r.
    + intros Hh. apply Hleap. unfold mem. change (attacks_from them 4 v occ) with (rook_attacks v occ). rewrite rook_testbit. exact Hh.
    + rewrite <- rook_testbit. exact Hmem.
  - assert (Hq : N.testbit (N.lor (rook_attacks v occ') (bishop_attacks v occ')) k0 = true) by exact Hmem.
    rewrite N.lor_spec in Hq. apply orb_true_iff in Hq. destruct Hq as [Hq|Hq].
    + apply (Hslide rook_dirs good_rook).
      * exact Hshare_r.
      * intros Hh. apply Hleap. unfold mem.
        change (attacks_from them 5 v occ) with (N.lor (rook_attacks v occ) (bishop_attacks v occ)).
        rewrite N.lor_spec, rook_testbit, Hh. reflexivity.
      * rewrite <- rook_testbit. exact Hq.
    + apply (Hslide bishop_dirs good_bishop).
      * exact Hshare_b.
      * intros Hh. apply Hleap. unfold mem.
        change (attacks_from them 5 v occ) with (N.lor (rook_attacks v occ) (bishop_attacks v occ)).
        rewrite N.lor_spec, bishop_testbit, Hh. apply orb_true_r.
      * rewrite <- bishop_testbit. exact Hq.
  - apply Hleap. exact Hmem.
Qed.

End Pin.

(* ------------------------------------------------------------------------------------------ *)
(* the exits *)

Section PinExits.
Variable b : board.
Hypothesis HR : Rep b.
Hypothesis HV : valid (abs b) = true.
Hypothesis Hchk : in_check b (stm b) = false.
Let me := stm b.
Let them := flip me.
Let own := colors b me.
Let opp := colors b them.
Let occ := occupancy b.
Variable k0 : N.
Hypothesis Hk0 : k0 < 64.
Hypothesis Hkbit : band (pieces b King) own = bit k0.
Hypothesis Hking : forall s, s < 64 -> holds (abs b) s me King = (s =? k0).

Lemma diag_attacker u occ2 : u < 64 -> N.testbit opp u = true -> N.testbit (diag_sliders b) u = true ->
  hit bishop_dirs u occ2 k0 = true ->
  exists ku, who (abs b) u = Some (them, ku) /\ mem (attacks_from them ku u occ2) k0 = true.
Proof.
  intros Hu Ho Hd Hh. unfold diag_sliders, bor in Hd. rewrite N.lor_spec in Hd. apply orb_true_iff in Hd.
  destruct Hd as [Hd|Hd].
  - exists Bishop. split; [apply (who_abs_intro b HR); try assumption; unfold Bishop; lia|].
    unfold mem. change (attacks_from them Bishop u occ2) with (bishop_attacks u occ2). rewrite bishop_testbit. exact Hh.
  - exists Queen. split; [apply (who_abs_intro b HR); try assumption; unfold Queen; lia|].
    unfold mem. change (attacks_from them Queen u occ2) with (N.lor (rook_attacks u occ2) (bishop_attacks u occ2)).
    rewrite N.lor_spec, bishop_testbit, Hh. apply orb_true_r.
Qed.

Lemma line_attacker u occ2 : u < 64 -> N.testbit opp u = true -> N.testbit (line_sliders b) u = true ->
  hit rook_dirs u occ2 k0 = true ->
  exists ku, who (abs b) u = Some (them, ku) /\ mem (attacks_from them ku u occ2) k0 = true.
Proof.
  intros Hu Ho Hd Hh. unfold line_sliders, bor in Hd. rewrite N.lor_spec in Hd. apply orb_true_iff in Hd.
  destruct Hd as [Hd|Hd].
  - exists Rook. split; [apply (who_abs_intro b HR); try assumption; unfold Rook; lia|].
    unfold mem. change (attacks_from them Rook u occ2) with (rook_attacks u occ2). rewrite rook_testbit. exact Hh.
  - exists Queen. split; [apply (who_abs_intro b HR); try assumption; unfold Queen; lia|].
    unfold mem. change (attacks_from them Queen u occ2) with (N.lor (rook_attacks u occ2) (bishop_attacks u occ2)).
    rewrite N.lor_spec, rook_testbit, Hh. reflexivity.
Qed.

Lemma opp_lt u : N.testbit opp u = true -> u < 64.
Proof. intros H. destruct (N.lt_ge_cases u 64) as [L|L]; [exact L|]. unfold opp in H. rewrite (colors_high b HR _ u L) in H. discriminate. Qed.

(* a bishop, rook or queen on d with a target; for each line family it does not move along, no pin *)
Lemma slider_piece_sound d kd t :
  d < 64 -> who (abs b) d = Some (me, kd) -> kd = Bishop \/ kd = Rook \/ kd = Queen ->
  t < 64 -> N.testbit own t = false -> mem (attacks_from me kd d occ) t = true ->
  (kd = Bishop -> (band (band (rook_moves k0 (band occ (bnot (bit d)))) (line_sliders b)) opp =? 0) = true) ->
  (kd = Rook -> (band (band (bishop_moves k0 (band occ (bnot (bit d)))) (diag_sliders b)) opp =? 0) = true) ->
  legal_moves (abs b) <> [].
Proof.
  intros Hd Hwd Hkd Ht Hnown Hm HnoLine HnoDiag.
  assert (Hnp : kd <> Pawn) by (unfold Bishop, Rook, Queen, Pawn in *; lia).
  assert (Hnk : kd <> King) by (unfold Bishop, Rook, Queen, King in *; lia).
  set (nocc := band occ (bnot (bit d))) in *.
  destruct (slider_hits b k0 nocc opp) eqn:Epin.
  - (* pinned along one of its own lines: take the pinner *)
    unfold slider_hits in Epin. apply orb_true_iff in Epin.
    assert (Hcap : forall u, u < 64 -> N.testbit own u = false -> d <> u ->
              mem (attacks_from me kd d occ) u = true ->
              legal_spec (abs b) (mk_move d u 0) = true -> legal_moves (abs b) <> []).
    { intros u Hu _ _ _ Hl. apply (legal_moves_nonempty _ d u 0 Hd Hu (or_introl eq_refl) Hl). }
    destruct Epin as [E|E]; apply band3_some in E; destruct E as [u [Hatt [Hsl Hopp]]]; pose proof (opp_lt u Hopp) as Hu.
    + (* diagonal pin: the piece is a bishop or a queen *)
      assert (Hk2 : kd = Bishop \/ kd = Queen).
      { destruct Hkd as [-> | [-> | ->]]; [left; reflexivity| |right; reflexivity]. exfalso.
        pose proof (HnoDiag eq_refl) as Z. apply (band_zero_testbit _ _ u) in Z; [congruence|].
        unfold band. rewrite N.land_spec, Hatt, Hsl. reflexivity. }
      assert (Hmove : forall occ2 t', hit bishop_dirs d occ2 t' = true -> mem (attacks_from me kd d occ2) t' = true).
      { intros occ2 t' Hh. unfold mem. destruct Hk2 as [-> | ->].
        - change (attacks_from me Bishop d occ2) with (bishop_attacks d occ2). rewrite bishop_testbit. exact Hh.
        - change (attacks_from me Queen d occ2) with (N.lor (rook_attacks d occ2) (bishop_attacks d occ2)).
          rewrite N.lor_spec, bishop_testbit, Hh. apply orb_true_r. }
      unfold bishop_moves in Hatt. rewrite bishop_testbit in Hatt.
      pose proof (pin_capture_pseudo b HR Hchk k0 Hk0 Hkbit d kd Hd Hwd bishop_dirs u good_bishop Hmove Hu Hopp Hatt
                    (fun occ2 Hh => diag_attacker u occ2 Hu Hopp Hsl Hh)) as (Hown & Hmu & Hdu).
      apply (Hcap u Hu Hown Hdu Hmu).
      apply (pin_capture_legal b HR Hchk k0 Hk0 Hkbit Hking d kd Hd Hwd Hnk 0 (or_introl eq_refl) bishop_dirs u good_bishop Hu Hopp Hatt
               share_bb share_br (fun occ2 Hh => diag_attacker u occ2 Hu Hopp Hsl Hh)).
      * apply (not_ep_piece b d u kd 0 Hd Hu (or_introl eq_refl) Hwd Hnp).
      * apply (pseudo_piece b HR d u kd Hd Hu Hwd Hnp Hnk Hown Hmu).
    + (* pin along a rank or file: the piece is a rook or a queen *)
      assert (Hk2 : kd = Rook \/ kd = Queen).
      { destruct Hkd as [-> | [-> | ->]]; [|left; reflexivity|right; reflexivity]. exfalso.
        pose proof (HnoLine eq_refl) as Z. apply (band_zero_testbit _ _ u) in Z; [congruence|].
        unfold band. rewrite N.land_spec, Hatt, Hsl. reflexivity. }
      assert (Hmove : forall occ2 t', hit rook_dirs d occ2 t' = true -> mem (attacks_from me kd d occ2) t' = true).
      { intros occ2 t' Hh. unfold mem. destruct Hk2 as [-> | ->].
        - change (attacks_from me Rook d occ2) with (rook_attacks d occ2). rewrite rook_testbit. exact Hh.
        - change (attacks_from me Queen d occ2) with (N.lor (rook_attacks d occ2) (bishop_attacks d occ2)).
          rewrite N.lor_spec, rook_testbit, Hh. reflexivity. }
      unfold rook_moves in Hatt. rewrite rook_testbit in Hatt.
      pose proof (pin_capture_pseudo b HR Hchk k0 Hk0 Hkbit d kd Hd Hwd rook_dirs u good_rook Hmove Hu Hopp Hatt
                    (fun occ2 Hh => line_attacker u occ2 Hu Hopp Hsl Hh)) as (Hown & Hmu & Hdu).
      apply (Hcap u Hu Hown Hdu Hmu).
      apply (pin_capture_legal b HR Hchk k0 Hk0 Hkbit Hking d kd Hd Hwd Hnk 0 (or_introl eq_refl) rook_dirs u good_rook Hu Hopp Hatt
               share_rb share_rr (fun occ2 Hh => line_attacker u occ2 Hu Hopp Hsl Hh)).
      * apply (not_ep_piece b d u kd 0 Hd Hu (or_introl eq_refl) Hwd Hnp).
      * apply (pseudo_piece b HR d u kd Hd Hu Hwd Hnp Hnk Hown Hmu).
  - (* not pinned: the target found by the loop is a legal move *)
    assert (Hdt : d <> t).
    { intros <-. destruct (who_abs_inv b HR d me kd Hd Hwd) as (_ & _ & Hc & _). fold own in Hc. congruence. }
    assert (Htk : t <> k0).
    { intros ->. assert (N.testbit (bit k0) k0 = true) as Hb by (rewrite bit_testbit; apply N.eqb_refl).
      rewrite <- Hkbit in Hb. unfold band in Hb. rewrite N.land_spec in Hb. apply andb_prop in Hb. destruct Hb as [_ Hb]. congruence. }
    apply (legal_moves_nonempty _ d t 0 Hd Ht (or_introl eq_refl)).
    apply (quiet_legal b HR Hchk k0 Hk0 Hkbit Hking d t kd 0 Hd Ht Hwd Hnk (or_introl eq_refl) Hdt Htk).
    + apply (not_ep_piece b d t kd 0 Hd Ht (or_introl eq_refl) Hwd Hnp).
    + apply (pseudo_piece b HR d t kd Hd Ht Hwd Hnp Hnk Hnown Hm).
    + left. exact Epin.
Qed.

End PinExits.
