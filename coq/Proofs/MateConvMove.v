(* C09, converse direction, part 2: the position after ANY move of a man other than the king
   (en-passant captures included), and the survival of a check: a checker that is neither captured
   nor has the destination square on its line still gives check after the move. *)
From Coq Require Import NArith ZArith List Bool Lia.
From Chess3 Require Import Base.Bits Model.Types Spec.Geometry Model.Att Model.BoardDef Model.Board
     Model.Movegen Model.Mate Spec.Chess Spec.Rep Proofs.MateGeom Proofs.MateAbs Proofs.MateKing
     Proofs.MateMove Proofs.MateCapture Proofs.MateBlockGeom Proofs.MateBlock Proofs.MateStale Proofs.MateConv.
Import ListNotations.
Open Scope N_scope.

Lemma csq_lt d t : d < 64 -> sqfr (file_n t) (rank_n d) < 64.
Proof.
  intros Hd. unfold sqfr, file_n, rank_n.
  assert (d / 8 < 8) by (apply N.div_lt_upper_bound; lia).
  assert (t mod 8 < 8) by (apply N.mod_lt; lia). lia.
Qed.

Section NonKing.
Variable b : board.
Hypothesis HR : Rep b.
Hypothesis HV : valid (abs b) = true.
Let me := stm b.
Let them := flip me.
Let occ := occupancy b.
Variable k0 : N.
Hypothesis Hk0 : k0 < 64.
Hypothesis Hholds : forall s, s < 64 -> holds (abs b) s me King = (s =? k0).

Variables d t kd pr : N.
Hypothesis Hd : d < 64.
Hypothesis Ht : t < 64.
Hypothesis Hwd : who (abs b) d = Some (me, kd).
Hypothesis Hkd : kd <> King.
Hypothesis Hpr : In pr [0; Knight; Bishop; Rook; Queen].
Hypothesis Hdt : d <> t.
Hypothesis Htk : t <> k0.

Let m := mk_move d t pr.
Let k' := if pr =? 0 then kd else pr.
Let ep := is_ep_capture (abs b) m.
Let csq := sqfr (file_n t) (rank_n d).
Let p' := with_placement (abs b) (place_after (abs b) m).
(* an en-passant capture removes an enemy man from a third square *)
Hypothesis Hcsq : ep = true -> csq <> t /\ csq <> d /\ csq <> k0.

Lemma nk_place : place_after (abs b) m =
  let l := put (put (at_ (abs b)) d None) t (Some (me, k')) in if ep then put l csq None else l.
Proof.
  destruct (mk_move_fields_pr d t pr Hd Ht Hpr) as (Ef & Et & Ep).
  unfold ep, m. unfold place_after. rewrite Ef, Et, Ep. cbv zeta. rewrite Hwd. change (turn (abs b)) with me.
  assert (is_castling (abs b) (mk_move d t pr) = false) as ->.
  { unfold is_castling. rewrite Ef. unfold holds. rewrite Hwd. change (turn (abs b)) with me.
    destruct (N.eqb_spec King kd); [congruence|]. rewrite andb_false_r. reflexivity. }
  reflexivity.
Qed.

Lemma nk_who s : who p' s =
  if ep && (csq =? s) then None else if t =? s then Some (me, k') else if d =? s then None else who (abs b) s.
Proof.
  unfold p', who, with_placement. cbn [at_]. rewrite nk_place. cbv zeta.
  assert (L1 : (N.to_nat d < length (at_ (abs b)))%nat) by (rewrite (at_length b); lia).
  assert (L2 : (N.to_nat t < length (put (at_ (abs b)) d None))%nat) by (unfold put, updN; rewrite upd_length, (at_length b); lia).
  destruct ep eqn:E.
  - unfold put at 1. rewrite nthN_updN by (unfold put, updN; rewrite !upd_length, (at_length b); pose proof (csq_lt d t Hd); fold csq in H; lia).
    cbn [andb]. destruct (csq =? s); [reflexivity|]. unfold put. rewrite nthN_updN by exact L2.
    destruct (t =? s); [reflexivity|]. rewrite nthN_updN by exact L1. reflexivity.
  - cbn [andb]. unfold put. rewrite nthN_updN by exact L2.
    destruct (t =? s); [reflexivity|]. rewrite nthN_updN by exact L1. reflexivity.
Qed.

Lemma nk_k'_not_king : k' <> King.
Proof.
  unfold k'. destruct (N.eqb_spec pr 0); [exact Hkd|].
  cbn in Hpr. unfold Knight, Bishop, Rook, Queen, King in *. intros E. lia.
Qed.

Lemma nk_d_not_king : d <> k0.
Proof.
  intros E. subst d. pose proof (Hholds k0 Hk0) as H. rewrite N.eqb_refl in H.
  unfold holds in H. rewrite Hwd in H. apply andb_prop in H. destruct H as [_ H].
  apply N.eqb_eq in H. congruence.
Qed.

Lemma nk_king_sq : king_sq p' me = k0.
Proof.
  pose proof nk_d_not_king as Hdk. pose proof nk_k'_not_king as Hk'.
  unfold king_sq. rewrite (filter_single _ squares64 k0); [reflexivity|apply squares64_NoDup|apply squares64_spec; exact Hk0|].
  intros s Hs. apply squares64_spec in Hs. unfold holds. rewrite nk_who.
  destruct (ep && (csq =? s)) eqn:E1.
  - apply andb_prop in E1. destruct E1 as [E1 E2]. apply N.eqb_eq in E2. destruct (Hcsq E1) as (_ & _ & C). split; [discriminate|congruence].
  - destruct (N.eqb_spec t s) as [->|E2].
    + rewrite color_eqb_refl. destruct (N.eqb_spec King k'); [congruence|]. split; [discriminate|congruence].
    + destruct (N.eqb_spec d s) as [->|E3]; [split; [discriminate|congruence]|].
      pose proof (Hholds s Hs) as Hh. unfold holds in Hh. rewrite Hh. apply N.eqb_eq.
Qed.

(* the new occupancy only gains the destination square *)
Lemma nk_occ x : N.testbit (occ_of p') x = true -> N.testbit occ x = true \/ x = t.
Proof.
  rewrite occ_of_testbit. intros H. apply andb_prop in H. destruct H as [L H]. apply N.ltb_lt in L.
  apply negb_true_iff in H. unfold empty in H. rewrite nk_who in H.
  destruct (ep && (csq =? x)); [discriminate|]. destruct (N.eqb_spec t x) as [->|]; [right; reflexivity|].
  destruct (d =? x); [discriminate|]. left.
  pose proof (empty_abs b HR x L) as He. unfold empty in He. rewrite H in He. fold occ in He.
  apply negb_false_iff. exact (eq_sym He).
Qed.

(* an enemy man that is not captured is still there *)
Lemma nk_enemy_stays a ka : a < 64 -> who (abs b) a = Some (them, ka) -> a <> t -> (ep = true -> a <> csq) ->
  who p' a = Some (them, ka).
Proof.
  intros Ha Hwa Hat Hac. rewrite nk_who.
  destruct ep eqn:E.
  - cbn [andb]. destruct (N.eqb_spec csq a) as [Ec|_]; [exfalso; apply (Hac eq_refl); congruence|].
    destruct (N.eqb_spec t a); [congruence|]. destruct (N.eqb_spec d a) as [Ed|_]; [|exact Hwa].
    subst a. rewrite Hwd in Hwa. injection Hwa as Hc _. unfold them in Hc. destruct me; discriminate.
  - cbn [andb]. destruct (N.eqb_spec t a); [congruence|]. destruct (N.eqb_spec d a) as [Ed|_]; [|exact Hwa].
    subst a. rewrite Hwd in Hwa. injection Hwa as Hc _. unfold them in Hc. destruct me; discriminate.
Qed.

(* survival of a check *)
Lemma nk_check_survives a ka : a < 64 -> who (abs b) a = Some (them, ka) -> a <> t -> (ep = true -> a <> csq) ->
  mem (attacks_from them ka a occ) k0 = true ->
  N.testbit (blocked_of k0 a) t = false ->
  in_check_spec p' me = true.
Proof.
  intros Ha Hwa Hat Hac Hm Hnb. unfold in_check_spec. rewrite nk_king_sq.
  unfold attacked_by. apply existsb_exists. exists a. split; [apply squares64_spec; exact Ha|].
  rewrite (nk_enemy_stays a ka Ha Hwa Hat Hac), color_eqb_refl. cbn [andb].
  destruct (who_abs_inv b HR a them ka Ha Hwa) as (Hka & _ & _ & _).
  assert (Hslide : forall dirs,
            (forall s t, s < 64 -> t < 64 -> sym_check dirs s t = true) ->
            (forall k a, k < 64 -> a < 64 -> blocked_check dirs k a = true) ->
            hit dirs a occ k0 = true -> hit dirs a (occ_of p') k0 = true).
  { intros dirs Hsym Hbl Hh. apply (hit_sym_gen dirs Hsym a k0 occ Ha Hk0) in Hh.
    apply (hit_sym_gen dirs Hsym k0 a (occ_of p') Hk0 Ha).
    destruct (hit_prefix _ _ _ _ Hh) as (dir & pre & Hdir & Hp & Hc).
    unfold hit. apply existsb_exists. exists dir. split; [exact Hdir|]. rewrite Hp.
    unfold all_clear. apply forallb_forall. intros x Hx. apply negb_true_iff.
    destruct (N.testbit (occ_of p') x) eqn:E; [|reflexivity]. exfalso.
    destruct (nk_occ x E) as [O|O].
    - rewrite (all_clear_in occ pre x Hc Hx) in O. discriminate.
    - subst x. pose proof (Hbl k0 a Hk0 Ha) as C. unfold blocked_check in C. rewrite forallb_forall in C.
      specialize (C dir Hdir). rewrite Hp in C. apply N.eqb_eq in C. rewrite C in Hnb.
      assert (N.testbit (set_of pre) t = true) by (apply set_of_in; exact Hx). congruence. }
  unfold mem in *.
  assert (ka = 1 \/ ka = 2 \/ ka = 3 \/ ka = 4 \/ ka = 5 \/ ka = 6) as [->|[->|[->|[->|[->| ->]]]]] by lia.
  - exact Hm.
  - exact Hm.
  - enough (X : N.testbit (bishop_attacks a (occ_of p')) k0 = true) by exact X. rewrite bishop_testbit.
    apply (Hslide bishop_dirs bishop_sym_check bishop_blocked_check). rewrite <- bishop_testbit. exact Hm.
  - enough (X : N.testbit (rook_attacks a (occ_of p')) k0 = true) by exact X. rewrite rook_testbit.
    apply (Hslide rook_dirs rook_sym_check rook_blocked_check). rewrite <- rook_testbit. exact Hm.
  - assert (Hq : N.testbit (N.lor (rook_attacks a occ) (bishop_attacks a occ)) k0 = true) by exact Hm.
    enough (X : N.testbit (N.lor (rook_attacks a (occ_of p')) (bishop_attacks a (occ_of p'))) k0 = true) by exact X.
    rewrite N.lor_spec in *. apply orb_true_iff in Hq. destruct Hq as [Hq|Hq].
    + rewrite rook_testbit in Hq. rewrite rook_testbit.
      rewrite (Hslide rook_dirs rook_sym_check rook_blocked_check Hq). reflexivity.
    + rewrite bishop_testbit in Hq. rewrite (bishop_testbit a (occ_of p')).
      rewrite (Hslide bishop_dirs bishop_sym_check bishop_blocked_check Hq). apply orb_true_r.
  - exact Hm.
Qed.

(* "pinned": an enemy slider that is seen from the king in an occupancy at least as full as the new one *)
Lemma nk_pinned nocc opp' :
  slider_hits b k0 nocc opp' = true ->
  (forall u, N.testbit opp' u = true -> N.testbit (colors b them) u = true /\ u <> t /\ (ep = true -> u <> csq)) ->
  (forall x, N.testbit (occ_of p') x = true -> N.testbit nocc x = true) ->
  in_check_spec p' me = true.
Proof.
  intros Hs Hopp Hsub. unfold in_check_spec. rewrite nk_king_sq.
  unfold attacked_by. apply existsb_exists.
  assert (Hgen : forall dirs u ku, (forall s t, s < 64 -> t < 64 -> sym_check dirs s t = true) ->
            N.testbit opp' u = true -> hit dirs k0 nocc u = true -> N.testbit (pieces b ku) u = true -> 1 <= ku <= 6 ->
            (forall occ2, hit dirs u occ2 k0 = true -> mem (attacks_from them ku u occ2) k0 = true) ->
            exists x, In x squares64 /\
              match who p' x with Some (c', k) => color_eqb (flip me) c' && mem (attacks_from (flip me) k x (occ_of p')) k0 | None => false end = true).
  { intros dirs u ku Hsym Huo Hh Hpc Hku Hatt. destruct (Hopp u Huo) as (Hc & Hut & Huc).
    assert (Hu : u < 64).
    { destruct (N.lt_ge_cases u 64) as [L|L]; [exact L|]. rewrite (colors_high b HR _ u L) in Hc. discriminate. }
    assert (Hwu : who (abs b) u = Some (them, ku)) by (apply (who_abs_intro b HR); assumption).
    exists u. split; [apply squares64_spec; exact Hu|].
    rewrite (nk_enemy_stays u ku Hu Hwu Hut Huc). fold them. rewrite color_eqb_refl. cbn [andb].
    apply Hatt. apply (hit_sym_gen dirs Hsym k0 u (occ_of p') Hk0 Hu).
    apply (hit_mono dirs k0 (occ_of p') nocc u Hsub Hh). }
  unfold slider_hits in Hs. apply orb_true_iff in Hs. destruct Hs as [E|E]; apply band3_some in E; destruct E as [u [Hatt [Hsl Huo]]].
  - unfold bishop_moves in Hatt. rewrite bishop_testbit in Hatt.
    unfold diag_sliders, bor in Hsl. rewrite N.lor_spec in Hsl. apply orb_true_iff in Hsl. destruct Hsl as [Hsl|Hsl].
    + apply (Hgen bishop_dirs u Bishop bishop_sym_check Huo Hatt Hsl); [unfold Bishop; lia|].
      intros occ2 Hh. unfold mem. change (attacks_from them Bishop u occ2) with (bishop_attacks u occ2). rewrite bishop_testbit. exact Hh.
    + apply (Hgen bishop_dirs u Queen bishop_sym_check Huo Hatt Hsl); [unfold Queen; lia|].
      intros occ2 Hh. unfold mem. change (attacks_from them Queen u occ2) with (N.lor (rook_attacks u occ2) (bishop_attacks u occ2)).
      rewrite N.lor_spec, bishop_testbit, Hh. apply orb_true_r.
  - unfold rook_moves in Hatt. rewrite rook_testbit in Hatt.
    unfold line_sliders, bor in Hsl. rewrite N.lor_spec in Hsl. apply orb_true_iff in Hsl. destruct Hsl as [Hsl|Hsl].
    + apply (Hgen rook_dirs u Rook rook_sym_check Huo Hatt Hsl); [unfold Rook; lia|].
      intros occ2 Hh. unfold mem. change (attacks_from them Rook u occ2) with (rook_attacks u occ2). rewrite rook_testbit. exact Hh.
    + apply (Hgen rook_dirs u Queen rook_sym_check Huo Hatt Hsl); [unfold Queen; lia|].
      intros occ2 Hh. unfold mem. change (attacks_from them Queen u occ2) with (N.lor (rook_attacks u occ2) (bishop_attacks u occ2)).
      rewrite N.lor_spec, rook_testbit, Hh. reflexivity.
Qed.

(* the new occupancy, exactly, when nothing is captured en passant *)
Lemma nk_occ_exact x : ep = false ->
  N.testbit (occ_of p') x = (x <? 64) && ((t =? x) || (negb (d =? x) && N.testbit occ x)).
Proof.
  intros He. rewrite occ_of_testbit. destruct (N.ltb_spec x 64) as [L|L]; [|reflexivity]. cbn [andb].
  unfold empty. rewrite nk_who, He. cbn [andb]. destruct (t =? x); [reflexivity|]. destruct (d =? x); [reflexivity|].
  cbn [orb negb andb]. pose proof (empty_abs b HR x L) as H. unfold empty in H. rewrite H. apply negb_involutive.
Qed.

End NonKing.
