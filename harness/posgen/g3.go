package posgen

// G3 (DESIGN.md section 4.4): exhaustive / strided enumeration of small-material positions, both sides
// to move, with every consistent en-passant state and castling-right state, filtered by Valid.
// Deterministic (no randomness): the enumeration is a mixed-radix counter over the squares of the
// pieces, visited with a stride that is coprime to the radices (so every square of every piece is
// visited even when strided).

import (
	"github.com/paulsonkoly/chess-3/board"
	. "github.com/paulsonkoly/chess-3/chess"
)

// Materials3 are enumerated completely in the thorough tier, Materials4 with a stride.
// Upper case = White, lower case = Black.
var Materials3 = []string{"KQk", "KRk", "KPk", "Kkp"}
var Materials4 = []string{"Kkq", "Kkr", "KBNk", "KQkr", "KRkp", "KPkp", "KPkr", "KRkr", "KPPk", "Kkpp", "KPkq", "KQkp"}

// rawCount is the number of raw (possibly colliding) placements of material m, times 2 for the side to move.
func rawCount(m string) int {
	n := 2
	for _, c := range m {
		if c == 'p' || c == 'P' {
			n *= 48
		} else {
			n *= 64
		}
	}
	return n
}

// RawCount is the total raw size of a list of materials.
func RawCount(ms []string) int {
	n := 0
	for _, m := range ms {
		n += rawCount(m)
	}
	return n
}

// CoprimeStride returns the smallest s >= want with gcd(s, 6) = 1 (radices are 64, 48 and 2... the
// side to move is the slowest digit, so it does not constrain the stride).
func CoprimeStride(want int) int {
	if want < 1 {
		want = 1
	}
	for want > 1 && (want%2 == 0 || want%3 == 0) {
		want++
	}
	return want
}

// Exhaustive enumerates the placements of material m with the given stride (1 = all) and calls emit
// for every valid position, including the variants with an en-passant target and with castling
// rights that the placement admits. The board handed to emit is only valid during the call.
func Exhaustive(m string, stride int, emit func(Pos)) {
	k := len(m)
	raw := rawCount(m)
	sqs := make([]int, k)
	for idx := 0; idx < raw; idx += stride {
		x := idx
		ok := true
		var sq [64]byte
		for i := 0; i < k; i++ {
			c := m[i]
			if c == 'p' || c == 'P' {
				sqs[i] = 8 + x%48
				x /= 48
			} else {
				sqs[i] = x % 64
				x /= 64
			}
			if sq[sqs[i]] != 0 {
				ok = false
				break
			}
			sq[sqs[i]] = c
		}
		if !ok {
			continue
		}
		stm := Color(x % 2)
		// identical pieces: keep one ordering only (e.g. KPPk with the pawns swapped is the same position)
		dup := false
		for i := 1; i < k; i++ {
			if m[i] == m[i-1] && sqs[i] < sqs[i-1] {
				dup = true
			}
		}
		if dup {
			continue
		}
		// castling-right variants: none, and all rights the placement admits (plus each single one)
		var poss []string
		if sq[E1] == 'K' && sq[H1] == 'R' {
			poss = append(poss, "K")
		}
		if sq[E1] == 'K' && sq[A1] == 'R' {
			poss = append(poss, "Q")
		}
		if sq[E8] == 'k' && sq[H8] == 'r' {
			poss = append(poss, "k")
		}
		if sq[E8] == 'k' && sq[A8] == 'r' {
			poss = append(poss, "q")
		}
		castles := []string{"-"}
		if len(poss) > 0 {
			all := ""
			for _, p := range poss {
				all += p
			}
			castles = append(castles, all)
			if len(poss) > 1 {
				castles = append(castles, poss...)
			}
		}
		// en-passant variants: none, and every target behind an enemy pawn that may just have double pushed
		eps := []string{"-"}
		for f := 0; f < 8; f++ {
			var pawnSq, epSq, origin int
			var pc byte
			if stm == White {
				pawnSq, epSq, origin, pc = 32+f, 40+f, 48+f, 'p'
			} else {
				pawnSq, epSq, origin, pc = 24+f, 16+f, 8+f, 'P'
			}
			if sq[pawnSq] == pc && sq[epSq] == 0 && sq[origin] == 0 {
				eps = append(eps, string([]byte{byte('a' + f), byte('1' + epSq/8)}))
			}
		}
		for _, ca := range castles {
			for _, ep := range eps {
				fen := fenOf(sq, stm, ca, ep, 0, 1)
				b, err := board.FromFEN(fen)
				if err != nil || !Valid(b) {
					continue
				}
				emit(Pos{B: b, Root: fen, Kind: "G3"})
			}
		}
	}
}

// SmallMaterial emits the small-material positions of the thorough tier: the 3-piece materials with stride3
// and the 4-piece materials with stride4 (strides are made coprime to the radices).
func SmallMaterial(stride3, stride4 int, emit func(Pos)) {
	for _, m := range Materials3 {
		Exhaustive(m, CoprimeStride(stride3), emit)
	}
	for _, m := range Materials4 {
		Exhaustive(m, CoprimeStride(stride4), emit)
	}
}

// HandRoots returns the hand-made roots that are valid (they come first in Roots()).
func HandRoots() []string {
	var out []string
	for _, r := range handRoots {
		b, err := board.FromFEN(r)
		if err == nil && Valid(b) {
			out = append(out, r)
		}
	}
	return out
}
