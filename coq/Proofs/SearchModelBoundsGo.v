(* Search.Go on the closed model: the iterations of depth 0 and 1, with values.

   Depth 0 is a quiescence search of the root, depth 1 searches every root move by quiescence
   (Proofs/SearchModelBoundsRoot.v).  With a table holding only scores every value the aspiration loop
   sees lies in [-Inf, Inf]; this bounds the loop:
     a fail low needs alpha >= -Inf, a fail high needs beta <= Inf;  factor doubles at each failure and
     the window is widened by W * factor (W = WindowSize):  with A = alpha + Inf, B = Inf - beta the invariant
         A + B <= 2 Inf - W (factor + 1),   2 A, 2 B >= - W (factor + 1),   factor a power of two <= 1024
     holds ([win_ok]); a side that can still fail has A >= 0 (resp. B >= 0), hence W (factor + 1) <= 4 Inf;
     for the generated parameter values (W = 44: factor <= 512, W * factor <= 22528) the widening stays
     inside int16 ([pows_alive], by computation on the generated constants): no int16 operation of the
     loop wraps, and beta + 1 * RFPScoreFactor fits int16 at depth 1.
   A Search.Go with depth limit >= 1 that returns the null move without having been aborted accepted the
   iteration of depth 1 with an empty line; that root call stands on a final root or left its move loop
   with every move the picker handed out being illegal. *)
From Coq Require Import NArith ZArith List Bool Lia Permutation.
From Chess3 Require Import Proofs.LayoutNow.
From Chess3 Require Import Base.Bits Base.Word Model.Types Model.BoardDef Model.Board Model.Search
  Spec.Chess Spec.Rep Spec.Applicable Proofs.PickerProofs Proofs.SearchModelInv Proofs.SearchModelPicker
  Proofs.SearchModelBoard Proofs.SearchModelLegalBase Proofs.SearchModelLegal Proofs.SearchModelLegalId
  Proofs.SearchModelLegalNull Proofs.SearchModelLegalFuel Proofs.SearchModelBoundsMu Proofs.SearchModelBoundsQ
  Proofs.SearchModelBoundsVal Proofs.SearchModelBoundsRoot Proofs.SearchModelBoundsRk Proofs.HistProofs.
From Chess3 Require Model.Movegen Model.Mate Model.Eval Model.TT Model.Hist Model.Picker Model.See
  Model.Pv Model.IterDeepen Proofs.PvProofs.
Import ListNotations.
Open Scope Z_scope.
Ltac Zify.zify_post_hook ::= Z.to_euclidean_division_equations.

(* ------------------------------------------------------------------------------------------ *)
(* the closed model at the root, depths 0 and 1 *)

Lemma alphaBeta_val01 o fuel : ab_val01 (alphaBeta fuel o).
Proof.
  destruct fuel as [|f]; intros st b al be nt v st' b' Hg Ht H; [discriminate H|].
  cbn [alphaBeta] in H. unfold ab_body in H.
  destruct (Pv.set_null (s_pv st) 1) as [pv1|]; cbn [of_opt bind] in H; [|discriminate H].
  change ((0 =? 0) || (SearchParams.MaxPlies - 1 <=? 1)) with true in H. cbv iota in H.
  apply quiescence_val in H; [exact H|exact Hg|apply ply_ok_entry; [exact (proj2 Hg)|lia]|exact Ht].
Qed.

Definition fin_or_no_legal (st : sstate) (b : board) : Prop :=
  100 <= fifty b \/ 3 <= threefold b \/ root_no_legal st b.

Lemma alphaBeta_root01 o fuel st b al be d v st' b' : good b -> state_ok st -> tt_values_ok (s_tt st) -> d = 0 \/ d = 1 ->
  alphaBeta fuel o st b al be d 0 SearchParams.PVNode = Ok (v, st', b') ->
  tt_values_ok (s_tt st') /\
  (s_aborted st' = false ->
     score_ok v /\
     (d = 1 -> -32768 <= be -> be + SearchParams.RFPScoreFactor <= 32767 -> al < v < be -> Pv.active (s_pv st') = [] -> fin_or_no_legal st b)).
Proof.
  intros Hg Hs Ht Hd H. destruct fuel as [|f]; [discriminate H|]. cbn [alphaBeta] in H.
  destruct Hd as [-> | ->].
  - unfold ab_body in H.
    destruct (Pv.set_null (s_pv st) 0) as [pv1|]; cbn [of_opt bind] in H; [|discriminate H].
    change ((0 =? 0) || (SearchParams.MaxPlies - 1 <=? 0)) with true in H. cbv iota in H.
    apply quiescence_val in H; [|exact Hg|apply ply_ok_entry; [exact (proj2 Hg)|lia]|exact Ht].
    destruct H as [H1 H2]. split; [exact H1|]. intros Ha. split; [apply val0_score, H2, Ha|]. intros F. discriminate F.
  - apply (ab_body_root1 (alphaBeta f o) (quiescence f o) (alphaBeta_leg o f) (alphaBeta_val01 o f)) in H;
      [|exact Hg|exact Hs|exact Ht].
    destruct H as [H1 H2]. split; [exact H1|]. intros Ha. destruct (H2 Ha) as [H3 H4]. split; [exact H3|].
    intros _. exact H4.
Qed.

(* ------------------------------------------------------------------------------------------ *)
(* the aspiration window *)

Definition pows : list Z := [1; 2; 4; 8; 16; 32; 64; 128; 256; 512; 1024].

(* W = params.WindowSize.  With A = alpha + Inf, B = Inf - beta:
     A + B <= 2 Inf - W (factor + 1),   2 A >= - W (factor + 1),   2 B >= - W (factor + 1) *)
Definition win_ok (al be f : Z) : Prop :=
  In f pows /\
  (al + SearchParams.Inf) + (SearchParams.Inf - be) <= 2 * SearchParams.Inf - SearchParams.WindowSize * (f + 1) /\
  - (SearchParams.WindowSize * (f + 1)) <= 2 * (al + SearchParams.Inf) /\
  - (SearchParams.WindowSize * (f + 1)) <= 2 * (SearchParams.Inf - be).

(* the generated parameter values enter by unfolding only: a retuned value re-proves as long as the
   arithmetic facts below stay true (they are what the absence of int16 wrap needs) *)
Ltac params := unfold win_ok, score_ok, SearchParams.Inf, SearchParams.WindowSize, SearchParams.RFPScoreFactor in *.

Lemma wsize_16 : wrap16 SearchParams.WindowSize = SearchParams.WindowSize /\ 0 < SearchParams.WindowSize.
Proof. vm_compute. split; reflexivity. Qed.

Lemma pows_range f : In f pows -> 1 <= f <= 1024.
Proof. unfold pows. cbn [In]. lia. Qed.

(* a side of the window that can still fail: the widening and the doubled factor stay small *)
Lemma pows_alive f : In f pows -> SearchParams.WindowSize * (f + 1) <= 4 * SearchParams.Inf ->
  In (f * 2) pows /\ SearchParams.WindowSize * f <= 32767 - SearchParams.Inf /\ f * 2 <= 32767.
Proof.
  unfold pows. params. cbn [In]. intros H Hle.
  repeat (destruct H as [<-|H]; [first [split; [cbn; tauto|lia]|exfalso; lia]|]). destruct H.
Qed.

(* every call of the loop: alpha, beta inside int16, beta + RFPScoreFactor too *)
Lemma win_range al be f : win_ok al be f ->
  -32768 <= al <= SearchParams.Inf /\ - SearchParams.Inf <= be /\ be + SearchParams.RFPScoreFactor <= 32767.
Proof. intros (Hf & H1 & H2 & H3). apply pows_range in Hf. params. lia. Qed.

Lemma win_init : win_ok (wrap16 (- SearchParams.Inf - 1)) (wrap16 (SearchParams.Inf + 1)) 1.
Proof. split; [left; reflexivity|]. vm_compute. repeat split; discriminate. Qed.

Lemma win_next s : score_ok s -> win_ok (sub16 s (wrap16 SearchParams.WindowSize)) (add16 s (wrap16 SearchParams.WindowSize)) 1.
Proof.
  intros H. rewrite (proj1 wsize_16). unfold sub16, add16. params.
  rewrite !wrap16_id by lia. split; [left; reflexivity|]. lia.
Qed.

Lemma win_low_eq al be f : win_ok al be f -> - SearchParams.Inf <= al ->
  sub16 al (wrap16 (f * wrap16 SearchParams.WindowSize)) = al - f * SearchParams.WindowSize /\ wrap16 (f * 2) = f * 2.
Proof.
  intros (Hf & H1 & H2 & H3) Ha. rewrite (proj1 wsize_16).
  destruct (pows_alive f Hf ltac:(lia)) as (Hf2 & Hle & Hd). pose proof (pows_range f Hf) as Hr. pose proof (proj2 wsize_16) as Hw.
  assert (Hpos : 0 <= f * SearchParams.WindowSize) by nia.
  rewrite (wrap16_id (f * SearchParams.WindowSize)) by (unfold SearchParams.Inf in *; lia).
  rewrite (wrap16_id (f * 2)) by lia. unfold sub16. rewrite wrap16_id by (unfold SearchParams.Inf in *; lia). split; reflexivity.
Qed.

Lemma win_high_eq al be f : win_ok al be f -> be <= SearchParams.Inf ->
  add16 be (wrap16 (f * wrap16 SearchParams.WindowSize)) = be + f * SearchParams.WindowSize /\ wrap16 (f * 2) = f * 2.
Proof.
  intros (Hf & H1 & H2 & H3) Hb. rewrite (proj1 wsize_16).
  destruct (pows_alive f Hf ltac:(lia)) as (Hf2 & Hle & Hd). pose proof (pows_range f Hf) as Hr. pose proof (proj2 wsize_16) as Hw.
  assert (Hpos : 0 <= f * SearchParams.WindowSize) by nia.
  rewrite (wrap16_id (f * SearchParams.WindowSize)) by (unfold SearchParams.Inf in *; lia).
  rewrite (wrap16_id (f * 2)) by lia. unfold add16. rewrite wrap16_id by (unfold SearchParams.Inf in *; lia). split; reflexivity.
Qed.

Lemma win_low al be f : win_ok al be f -> - SearchParams.Inf <= al ->
  win_ok (sub16 al (wrap16 (f * wrap16 SearchParams.WindowSize))) be (wrap16 (f * 2)).
Proof.
  intros Hw Ha. destruct (win_low_eq al be f Hw Ha) as [-> ->]. destruct Hw as (Hf & H1 & H2 & H3).
  destruct (pows_alive f Hf ltac:(lia)) as (Hf2 & _). pose proof (pows_range f Hf) as Hr. pose proof (proj2 wsize_16) as Hw.
  split; [exact Hf2|]. nia.
Qed.

Lemma win_high al be f : win_ok al be f -> be <= SearchParams.Inf ->
  win_ok al (add16 be (wrap16 (f * wrap16 SearchParams.WindowSize))) (wrap16 (f * 2)).
Proof.
  intros Hw Hb. destruct (win_high_eq al be f Hw Hb) as [-> ->]. destruct Hw as (Hf & H1 & H2 & H3).
  destruct (pows_alive f Hf ltac:(lia)) as (Hf2 & _). pose proof (pows_range f Hf) as Hr. pose proof (proj2 wsize_16) as Hw.
  split; [exact Hf2|]. nia.
Qed.

(* ------------------------------------------------------------------------------------------ *)
(* the engine state between root calls *)

Definition Jst (st : sstate) : Prop :=
  state_ok st /\ tt_values_ok (s_tt st) /\ s_hs st = [] /\ reachable (s_rk st).

(* what a null move out of Search.Go means *)
Definition final_or_no_legal (b : board) : Prop :=
  100 <= fifty b \/ 3 <= threefold b \/ exists st0, Jst st0 /\ root_no_legal st0 b.

Section DeepenVal.
  Variable fuel : nat.
  Variable o : opts.

  Lemma aspire_val : forall n st b al be f d a, good b -> Jst st -> d = 0 \/ d = 1 -> win_ok al be f ->
    aspire fuel o n st b al be f d = Ok a ->
    match a with
    | AspOk s st1 b1 => Jst st1 /\ score_ok s /\ (d = 1 -> Pv.active (s_pv st1) = [] -> final_or_no_legal b)
    | AspAbort st1 b1 => s_aborted st1 = true /\ Jst st1
    end.
  Proof.
    induction n as [|n IH]; intros st b al be f d a Hg HJ Hd Hw H; [discriminate H|].
    cbn [aspire] in H.
    destruct (alphaBeta fuel o st b al be d 0 SearchParams.PVNode) as [[[s st1] b1]| |] eqn:E; cbn [bind] in H; try discriminate H.
    destruct HJ as (Hs & Ht & Hh & Hr).
    pose proof (alphaBeta_root01 o fuel st b al be d s st1 b1 Hg Hs Ht Hd E) as [Ht1 Hv].
    pose proof (rkR_elim _ _ (alphaBeta_rk o fuel _ _ _ _ _ _ _ _ _ _ E) Hr) as Hr1.
    pose proof E as E'. apply alphaBeta_leg in E'; [|exact Hg|exact Hs|lia]. destruct E' as (-> & [_ Hh1] & Hs1 & _ & _).
    assert (HJ1 : Jst st1) by (split; [exact Hs1|split; [exact Ht1|split; [congruence|exact Hr1]]]).
    destruct (s_aborted st1) eqn:A; [walk; split; [exact A|exact HJ1]|].
    destruct (Hv eq_refl) as [Hsc Hfin]. unfold score_ok, SearchParams.Inf in Hsc.
    destruct (s <=? al) eqn:C1.
    { apply Z.leb_le in C1. eapply IH; [exact Hg|exact HJ1|exact Hd| |exact H]. apply win_low; [exact Hw|unfold SearchParams.Inf; lia]. }
    destruct (be <=? s) eqn:C2.
    { apply Z.leb_le in C2. eapply IH; [exact Hg|exact HJ1|exact Hd| |exact H]. apply win_high; [exact Hw|unfold SearchParams.Inf; lia]. }
    walk. apply Z.leb_gt in C1, C2. split; [exact HJ1|]. split; [exact Hsc|]. intros Hd1 Hpv.
    pose proof (win_range _ _ _ Hw) as (_ & Hbe1 & Hbe2). unfold SearchParams.Inf in Hbe1.
    destruct (Hfin Hd1 ltac:(lia) Hbe2 ltac:(lia) Hpv) as [F|[F|F]]; [left; exact F|right; left; exact F|].
    right. right. exists st. split; [|exact F]. split; [exact Hs|split; [exact Ht|split; [exact Hh|exact Hr]]].
  Qed.

  (* iteration 1 with no move so far *)
  Lemma deepen_fin_1 t st b al be sc pd reps r st' b' : good b -> Jst st -> win_ok al be 1 -> 1 <= o_depth o ->
    deepen fuel o (S t) st b 1 al be sc 0 pd reps = Ok (r, st', b') -> s_aborted st' = false -> r_move r = 0 ->
    final_or_no_legal b.
  Proof.
    intros Hg HJ Hw Hd H Hna Hr. cbn [deepen] in H.
    assert (Cn : negb ((1 <? SearchParams.MaxPlies) && (1 <=? o_depth o)) = false)
      by (apply Z.leb_le in Hd; rewrite Hd; reflexivity).
    rewrite Cn in H.
    destruct (aspire fuel o 64 st b al be 1 1) as [a| |] eqn:Ea; cbn [bind] in H; try discriminate H.
    pose proof (aspire_val _ _ _ _ _ _ _ _ Hg HJ (or_intror eq_refl) Hw Ea) as Hn.
    apply aspire_leg in Ea; [|exact Hg|exact (proj1 HJ)]. destruct a as [s st1 b1|st1 b1].
    - destruct Ea as (-> & Hs1 & Hz). destruct Hn as (_ & _ & Hfin).
      destruct (Pv.active (s_pv st1)) as [|m rest] eqn:Epv; [exact (Hfin eq_refl eq_refl)|].
      exfalso.
      destruct (IterDeepen.adopt (m :: rest) 0 pd) as [mv1 pd1] eqn:Ead.
      assert (Hm1 : mv1 <> 0) by (eapply adopt_nonzero; [exact Hg|exact Hz|exact Ead|right; discriminate]).
      walk; [exact (Hm1 Hr)|].
      match goal with E : deepen _ _ _ _ _ _ _ _ _ _ _ _ = Ok _ |- _ => apply deepen_nonzero in E; auto end.
    - exfalso. rewrite Z.eqb_refl in H.
      destruct (fallback st1 b1) as [[[m x] y]| |] eqn:F; cbn [bind] in H; try discriminate H.
      apply fallback_aborted in F. walk. destruct Hn as [Hn _]. congruence.
  Qed.

  (* iteration 0 *)
  Lemma deepen_fin_0 t st b r st' b' : good b -> Jst st -> 1 <= o_depth o -> (1 <= t)%nat ->
    deepen fuel o (S t) st b 0 (wrap16 (- SearchParams.Inf - 1)) (wrap16 (SearchParams.Inf + 1)) 0 0 0 [] = Ok (r, st', b') ->
    s_aborted st' = false -> r_move r = 0 -> final_or_no_legal b.
  Proof.
    intros Hg HJ Hd Ht H Hna Hr. cbn [deepen] in H.
    assert (Cn : negb ((0 <? SearchParams.MaxPlies) && (0 <=? o_depth o)) = false)
      by (assert (H0d : (0 <=? o_depth o) = true) by (apply Z.leb_le; lia); rewrite H0d; reflexivity).
    rewrite Cn in H.
    destruct (aspire fuel o 64 st b _ _ 1 0) as [a| |] eqn:Ea; cbn [bind] in H; try discriminate H.
    pose proof (aspire_val _ _ _ _ _ _ _ _ Hg HJ (or_introl eq_refl) win_init Ea) as Hn.
    apply aspire_leg in Ea; [|exact Hg|exact (proj1 HJ)]. destruct a as [s st1 b1|st1 b1].
    - destruct Ea as (-> & Hs1 & Hz). destruct Hn as (HJ1 & Hsc & _).
      destruct (IterDeepen.adopt (Pv.active (s_pv st1)) 0 0) as [mv1 pd1] eqn:Ead.
      destruct (Pv.active (s_pv st1)) as [|m rest] eqn:Epv.
      + cbn in Ead. injection Ead as <- <-. rewrite Z.eqb_refl in H. cbn [negb andb] in H.
        destruct (hashfull (s_tt st1) (s_gen st1)) as [hf| |]; cbn [bind] in H; try discriminate H.
        rewrite Z.add_0_l in H.
        destruct t as [|t]; [lia|].
        exact (deepen_fin_1 _ _ _ _ _ _ _ _ _ _ _ Hg HJ1 (win_next _ Hsc) Hd H Hna Hr).
      + exfalso.
        assert (Hm1 : mv1 <> 0) by (eapply adopt_nonzero; [exact Hg|exact Hz|exact Ead|right; discriminate]).
        walk; [exact (Hm1 Hr)|].
        match goal with E : deepen _ _ _ _ _ _ _ _ _ _ _ _ = Ok _ |- _ => apply deepen_nonzero in E; auto end.
    - exfalso. rewrite Z.eqb_refl in H.
      destruct (fallback st1 b1) as [[[m x] y]| |] eqn:F; cbn [bind] in H; try discriminate H.
      apply fallback_aborted in F. walk. destruct Hn as [Hn _]. congruence.
  Qed.

  (* with a depth limit <= 1 the whole of iterative deepening keeps the table invariant *)
  Lemma fallback_tt st b mv st' b' : fallback st b = Ok (mv, st', b') -> s_tt st' = s_tt st.
  Proof. intros H. unfold fallback in H. walk. reflexivity. Qed.

  Lemma deepen_J01 : forall todo st b d al be sc mv pd reps r st' b', good b -> Jst st -> o_depth o <= 1 ->
    0 <= d -> win_ok al be 1 ->
    deepen fuel o todo st b d al be sc mv pd reps = Ok (r, st', b') -> tt_values_ok (s_tt st').
  Proof.
    induction todo as [|t IH]; intros st b d al be sc mv pd reps r st' b' Hg HJ Ho Hd0 Hw H; cbn [deepen] in H.
    - walk. exact (proj1 (proj2 HJ)).
    - destruct (negb ((d <? SearchParams.MaxPlies) && (d <=? o_depth o))) eqn:Cn; [walk; exact (proj1 (proj2 HJ))|].
      apply negb_false_iff, andb_true_iff in Cn. destruct Cn as [_ Cn]. apply Z.leb_le in Cn.
      assert (Hd : d = 0 \/ d = 1) by lia.
      destruct (aspire fuel o 64 st b al be 1 d) as [a| |] eqn:Ea; cbn [bind] in H; try discriminate H.
      pose proof (aspire_val _ _ _ _ _ _ _ _ Hg HJ Hd Hw Ea) as Hn.
      apply aspire_leg in Ea; [|exact Hg|exact (proj1 HJ)]. destruct a as [s st1 b1|st1 b1].
      + destruct Ea as (-> & _ & _). destruct Hn as (HJ1 & Hsc & _).
        destruct (IterDeepen.adopt (Pv.active (s_pv st1)) mv pd) as [mv1 pd1].
        destruct (hashfull (s_tt st1) (s_gen st1)) as [hf| |]; cbn [bind] in H; try discriminate H.
        destruct (negb (mv1 =? 0) && soft_abort o (s_nodes st1)); [walk; exact (proj1 (proj2 HJ1))|].
        eapply IH; [exact Hg|exact HJ1|exact Ho| |apply win_next; exact Hsc|exact H]. lia.
      + destruct Hn as [_ HJ1]. destruct (mv =? 0).
        * destruct (fallback st1 b1) as [[[m x] y]| |] eqn:F; cbn [bind] in H; try discriminate H.
          apply fallback_tt in F. walk. rewrite F. exact (proj1 (proj2 HJ1)).
        * walk. exact (proj1 (proj2 HJ1)).
  Qed.
End DeepenVal.

Lemma refresh_J st : state_ok st -> tt_values_ok (s_tt st) -> reachable (s_rk st) -> Jst (refresh st).
Proof. intros Hs Ht Hr. split; [apply refresh_ok; exact Hs|]. split; [exact Ht|]. split; [reflexivity|exact Hr]. Qed.

Theorem go_null_fin fuel o st b r st' b' : good b -> state_ok st -> tt_values_ok (s_tt st) -> reachable (s_rk st) ->
  1 <= o_depth o -> go fuel o st b = Ok (r, st', b') -> s_aborted st' = false -> r_move r = 0 ->
  final_or_no_legal b.
Proof.
  intros Hg Hs Ht Hrk Hd H Hna Hr. unfold go, iterative_deepen in H.
  change (Z.to_nat SearchParams.MaxPlies) with (S 63) in H.
  destruct (deepen fuel o (S 63) (refresh st) b 0 _ _ 0 0 0 []) as [[[r0 s1] b1]| |] eqn:E; cbn [bind] in H; try discriminate H.
  injection H as <- <- <-. cbn [s_aborted set_gen] in Hna.
  exact (deepen_fin_0 fuel o 63%nat _ _ _ _ _ Hg (refresh_J _ Hs Ht Hrk) Hd ltac:(lia) E Hna Hr).
Qed.

(* with the picker's completeness (C16) on the root: no playable move *)
Theorem go_null_final fuel o st b r st' b' : good b -> state_ok st -> tt_values_ok (s_tt st) -> reachable (s_rk st) ->
  (forall rk, reachable rk -> picker_complete rk [] b) ->
  1 <= o_depth o -> go fuel o st b = Ok (r, st', b') -> s_aborted st' = false -> r_move r = 0 ->
  Movegen.playable zob b = [] \/ 100 <= fifty b \/ 3 <= threefold b.
Proof.
  intros Hg Hs Ht Hrk Hpc Hd H Hna Hr.
  destruct (go_null_fin fuel o st b r st' b' Hg Hs Ht Hrk Hd H Hna Hr) as [F|[F|(st0 & HJ & s & hm & ys & Hhm & Hdr & Hall)]]; auto.
  left. destruct HJ as (_ & _ & Hh0 & Hr0). rewrite Hh0 in Hdr.
  exact (complete_no_playable _ _ _ _ _ _ (Hpc _ Hr0) Hhm Hdr Hall).
Qed.

(* Search.Go with a depth limit <= 1 keeps the table invariant (at larger depths null move pruning returns
   window bounds that are not re-based: see Properties/C06_bounds.v) *)
Theorem go_keeps_values_depth1 fuel o st b r st' b' : good b -> state_ok st -> tt_values_ok (s_tt st) -> reachable (s_rk st) ->
  o_depth o <= 1 -> go fuel o st b = Ok (r, st', b') -> tt_values_ok (s_tt st').
Proof.
  intros Hg Hs Ht Hrk Hd H. unfold go, iterative_deepen in H.
  destruct (deepen fuel o _ (refresh st) b 0 _ _ 0 0 0 []) as [[[r0 s1] b1]| |] eqn:E; cbn [bind] in H; try discriminate H.
  injection H as <- <- <-. cbn [s_tt set_gen].
  exact (deepen_J01 fuel o _ _ _ _ _ _ _ _ _ _ _ _ _ Hg (refresh_J _ Hs Ht Hrk) Hd (Z.le_refl 0) win_init E).
Qed.
