(* C12: the bounded loops of the model (reference walkers of calcRookAttacks / calcBishopAttacks and
   the walk of initInBetween) behave as Go's unbounded loops: more fuel never changes the result. *)
From Coq Require Import NArith ZArith List Bool Lia.
From Chess3 Require Import Base.Bits Model.Types Gen.AttackTables Model.Attacks.
Open Scope Z_scope.

(* once the loop condition is false at round n, rounds beyond n are never entered *)
Lemma scan_more n : forall k cond dr df rr ff occ res,
  cond (rr + Z.of_nat n * dr) (ff + Z.of_nat n * df) = false ->
  scan (n + k) cond dr df rr ff occ res = scan n cond dr df rr ff occ res.
Proof.
  induction n as [|m IH]; intros k cond dr df rr ff occ res H.
  - cbn [Z.of_nat] in H. rewrite !Z.mul_0_l, !Z.add_0_r in H.
    cbn [plus scan]. destruct k as [|k]; cbn [scan]; [reflexivity|]. rewrite H. reflexivity.
  - cbn [plus scan]. destruct (cond rr ff); [|reflexivity].
    destruct (negb (band occ (sqbit ff rr) =? 0)%N); [reflexivity|].
    apply IH. rewrite <- H. f_equal; rewrite Nat2Z.inj_succ; ring.
Qed.

Lemma sq_coords sq : (sq < 64)%N -> 0 <= Z.of_N (sq / 8) <= 7 /\ 0 <= Z.of_N (sq mod 8) <= 7.
Proof.
  intros H. pose proof (N.mod_lt sq 8 ltac:(discriminate)) as B.
  assert (A : (sq / 8 < 8)%N) by (apply N.div_lt_upper_bound; [discriminate|exact H]).
  revert A B. generalize (sq / 8)%N (sq mod 8)%N. intros q m A B. lia.
Qed.

Lemma calc_fuel_enough k sq occ : (sq < 64)%N ->
  calc_rook_attacks_fuel (8 + k) sq occ = calc_rook_attacks sq occ /\
  calc_bishop_attacks_fuel (8 + k) sq occ = calc_bishop_attacks sq occ.
Proof.
  intros H. destruct (sq_coords sq H) as [Hr Hf].
  unfold calc_rook_attacks, calc_bishop_attacks, calc_rook_attacks_fuel, calc_bishop_attacks_fuel.
  set (r := Z.of_N (sq / 8)) in *. set (f := Z.of_N (sq mod 8)) in *. cbv zeta.
  split.
  - rewrite !scan_more; [reflexivity| | | |]; cbv beta; change (Z.of_nat 8) with 8;
      first [apply Z.leb_gt; lia].
  - rewrite !scan_more; [reflexivity| | | |]; cbv beta; change (Z.of_nat 8) with 8;
      apply andb_false_iff; first [left; apply Z.leb_gt; lia | right; apply Z.leb_gt; lia].
Qed.

(* initInBetween: once iter reaches B at round n, rounds beyond n are never entered *)
Lemma between_walk_more n : forall k iterF iterR fileB rankB fileD rankD res,
  iterF + Z.of_nat n * fileD = fileB -> iterR + Z.of_nat n * rankD = rankB ->
  between_walk (n + k) iterF iterR fileB rankB fileD rankD res =
  between_walk n iterF iterR fileB rankB fileD rankD res.
Proof.
  induction n as [|m IH]; intros k iterF iterR fileB rankB fileD rankD res HF HR.
  - cbn [Z.of_nat] in HF, HR. rewrite Z.mul_0_l, Z.add_0_r in HF, HR. subst.
    cbn [plus between_walk]. destruct k as [|k]; cbn [between_walk]; [reflexivity|].
    rewrite !Z.eqb_refl. reflexivity.
  - cbn [plus between_walk].
    destruct (negb (iterF =? fileB) || negb (iterR =? rankB)); [|reflexivity].
    apply IH; rewrite Nat2Z.inj_succ in *; [rewrite <- HF|rewrite <- HR]; ring.
Qed.

Lemma in_between_cell_fuel_enough k fa ra fb rb :
  0 <= fa <= 7 -> 0 <= ra <= 7 -> 0 <= fb <= 7 -> 0 <= rb <= 7 ->
  in_between_cell_fuel (8 + k) fa ra fb rb = in_between_cell fa ra fb rb.
Proof.
  intros Hfa Hra Hfb Hrb. unfold in_between_cell, in_between_cell_fuel.
  destruct ((fa =? fb) || (ra =? rb) || (Z.abs (fa - fb) =? Z.abs (ra - rb))) eqn:A; [|reflexivity].
  cbv zeta. f_equal.
  set (n := Z.to_nat (Z.max (Z.abs (fb - fa)) (Z.abs (rb - ra)))).
  assert (Hn : (n <= 8)%nat) by (unfold n; lia).
  assert (HF : fa + Z.of_nat n * signum (fb - fa) = fb /\ ra + Z.of_nat n * signum (rb - ra) = rb).
  { apply orb_true_iff in A. destruct A as [A|A]; [apply orb_true_iff in A; destruct A as [A|A]|];
      apply Z.eqb_eq in A; unfold n, signum;
      destruct (fb - fa <? 0) eqn:E1; destruct (0 <? fb - fa) eqn:E2;
      destruct (rb - ra <? 0) eqn:E3; destruct (0 <? rb - ra) eqn:E4; lia. }
  destruct HF as [HF HR].
  replace (8 + k)%nat with (n + (8 - n + k))%nat by lia.
  replace 8%nat with (n + (8 - n))%nat at 2 by lia.
  rewrite !between_walk_more by assumption. reflexivity.
Qed.
