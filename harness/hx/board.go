package hx

import (
	"math/big"

	"github.com/paulsonkoly/chess-3/board"
	. "github.com/paulsonkoly/chess-3/chess"
)

// Wire format of boards (see coq/Model/BoardDef.v).
//
//	board-in  = P1..P6 C0 C1 stm ep castles fifty full nh h_1..h_nh      (oldest hash first)
//	board-out = P0..P6 C0 C1 stm ep castles fifty full SQ nh h_1..h_nh   (SQ = sum piece(s)*8^s)

// BoardIn appends the input encoding of b.
func (n *Nums) BoardIn(b *board.Board) *Nums {
	s := b.VerifSnapshot()
	for p := Pawn; p <= King; p++ {
		n.U(uint64(s.Pieces[p]))
	}
	n.U(uint64(s.Colors[0]), uint64(s.Colors[1]), uint64(s.STM), uint64(s.EnPassant), uint64(s.Castles))
	n.Int(s.FiftyCnt, s.FullMoves, len(s.Hashes))
	for _, h := range s.Hashes {
		n.U(uint64(h))
	}
	return n
}

func packSq(s *board.VerifSnap) *big.Int {
	v := new(big.Int)
	for sq := 63; sq >= 0; sq-- {
		v.Lsh(v, 3)
		v.Or(v, big.NewInt(int64(s.SquaresToPiece[sq])))
	}
	return v
}

// Big appends an arbitrary precision integer.
func (n *Nums) Big(v *big.Int) *Nums {
	if n.sb.Len() > 0 {
		n.sb.WriteByte(' ')
	}
	n.sb.WriteString(v.Text(16))
	return n
}

// BoardOut appends the output encoding of b (every attribute, hash history included).
func (n *Nums) BoardOut(b *board.Board) *Nums { return n.boardOut(b, true) }

// BoardOutNoHist appends the output encoding of b without the hash history.
func (n *Nums) BoardOutNoHist(b *board.Board) *Nums { return n.boardOut(b, false) }

func (n *Nums) boardOut(b *board.Board, hist bool) *Nums {
	s := b.VerifSnapshot()
	for p := NoPiece; p <= King; p++ {
		n.U(uint64(s.Pieces[p]))
	}
	n.U(uint64(s.Colors[0]), uint64(s.Colors[1]), uint64(s.STM), uint64(s.EnPassant), uint64(s.Castles))
	n.Int(s.FiftyCnt, s.FullMoves)
	n.Big(packSq(&s))
	if hist {
		n.Int(len(s.Hashes))
		for _, h := range s.Hashes {
			n.U(uint64(h))
		}
	}
	return n
}

// Board decodes a board-in encoding starting at index i and returns the index after it.
func (a Args) Board(i int) (*board.Board, int) {
	var s board.VerifSnap
	for p := Pawn; p <= King; p++ {
		s.Pieces[p] = BitBoard(a.U64(i))
		i++
	}
	s.Colors[0], s.Colors[1] = BitBoard(a.U64(i)), BitBoard(a.U64(i+1))
	s.STM = Color(a.U64(i + 2))
	s.EnPassant = Square(a.U64(i + 3))
	s.Castles = Castles(a.U64(i + 4))
	s.FiftyCnt = a.Int(i + 5)
	s.FullMoves = a.Int(i + 6)
	nh := a.Int(i + 7)
	i += 8
	for k := 0; k < nh; k++ {
		s.Hashes = append(s.Hashes, board.Hash(a.U64(i)))
		i++
	}
	for sq := 0; sq < 64; sq++ {
		for p := Pawn; p <= King; p++ {
			if s.Pieces[p]&(1<<uint(sq)) != 0 {
				s.SquaresToPiece[sq] = p
				break
			}
		}
	}
	return board.VerifRestore(s), i
}
