(* Layer A, domain 1 (balance): every execution of a checked function leaves the board, the move
   store and the history stack as it found them (C06 "board untouched", mechanism "every
   MakeMove/MakeNullMove is paired with its undo on all paths, including the abort returns"). *)
From Coq Require Import String List ZArith Bool Lia.
From Chess3 Require Import Model.Skel Model.SkelCheck Proofs.SkelProofs.
Import ListNotations.
Open Scope string_scope.

Lemma lookup_In f b t : lookup f t = Some b -> In (f, b) t.
Proof.
  induction t as [|[g b'] t IH]; cbn; [discriminate|].
  destruct (String.eqb f g) eqn:E.
  - apply String.eqb_eq in E. subst. intros H. inversion H. left. reflexivity.
  - intros H. right. apply IH, H.
Qed.

Lemma table_ok_lookup D t : table_ok D t = true -> forall f b, lookup f t = Some b -> fn_ok D f b = true.
Proof.
  unfold table_ok. rewrite forallb_forall. intros H f b L. apply (H (f, b)), lookup_In, L.
Qed.

Lemma tok_eqb_eq a b : tok_eqb a b = true -> a = b.
Proof. destruct a, b; cbn; intros H; try discriminate; eqb_tac; reflexivity. Qed.

Lemma tok_eqb_refl a : tok_eqb a a = true.
Proof. destruct a; cbn; rewrite ?String.eqb_refl; reflexivity. Qed.

Lemma bal_eqb_eq a b : bal_eqb a b = true -> a = b.
Proof.
  destruct a, b. unfold bal_eqb. cbn. intros H. eqb_tac.
  apply (list_eqb_eq _ tok_eqb_eq) in H. subst. reflexivity.
Qed.

Lemma bal_eqb_refl a : bal_eqb a a = true.
Proof.
  destruct a. unfold bal_eqb. cbn.
  rewrite (list_eqb_refl _ tok_eqb_refl), !Bool.eqb_reflx, !Nat.eqb_refl. reflexivity.
Qed.

Section Balance.
Variables B M T : Type.
Variable make : M -> B -> B * T.
Variable undo : M -> T -> B -> B.
Variable make_null : B -> B * T.
Variable undo_null : T -> B -> B.
Variable ftable : list (string * stmt).
Variable resetters : list string.

(* C03, proved elsewhere: undoing a move with the token its make returned restores the position *)
Hypothesis undo_make_id : forall m b b' t, make m b = (b', t) -> undo m t b' = b.
Hypothesis undo_null_id : forall b b' t, make_null b = (b', t) -> undo_null t b' = b.

Notation glob := (glob B M).
Notation locals := (locals M T).
Notation cstate := (cstate B M T).
Notation astep := (astep B M T make undo make_null undo_null).
Notation exec := (exec B M T make undo make_null undo_null ftable).
Notation D := (bal_dom resetters).

(* the board is the base board with the outstanding (symbolic) makes applied, innermost first *)
Fixpoint chain (l : locals) (b0 : B) (ts : list tok) (b : B) : Prop :=
  match ts with
  | [] => b = b0
  | TMove x p r :: rest => exists bp, chain l b0 rest bp /\ make (menv M T l x p) bp = (b, tenv M T l r)
  | TNull r :: rest => exists bp, chain l b0 rest bp /\ make_null bp = (b, tenv M T l r)
  end.

Fixpoint ms_rel (n : nat) (base cur : nat * list nat) : Prop :=
  match n with
  | O => cur = base
  | S n' => match snd cur with [] => False | a :: fs => ms_rel n' base (a, fs) end
  end.

Definition Gbal (e : glob) (x : bal) (c : cstate) : Prop :=
  chain (snd c) (board B M e) (toks x) (board B M (fst c))
  /\ ms_rel (nfr x) (if ms_abs x then (0, []) else (ms_alloc B M e, ms_frames B M e))
            (ms_alloc B M (fst c), ms_frames B M (fst c))
  /\ hdepth B M (fst c) = (if h_abs x then 0 else hdepth B M e) + nh x.

Definition agree (l l' : locals) (t : tok) : Prop :=
  match t with
  | TMove x p r => menv M T l' x p = menv M T l x p /\ tenv M T l' r = tenv M T l r
  | TNull r => tenv M T l' r = tenv M T l r
  end.

Lemma chain_ext l l' b0 ts : (forall t, In t ts -> agree l l' t) -> forall b, chain l b0 ts b -> chain l' b0 ts b.
Proof.
  induction ts as [|t ts IH]; intros Hag b Hc; [exact Hc|].
  assert (Hag' : forall t0, In t0 ts -> agree l l' t0) by (intros; apply Hag; right; assumption).
  specialize (Hag t (or_introl eq_refl)).
  destruct t as [x p r|r]; cbn in *; destruct Hc as [bp [Hc Hm]]; exists bp; (split; [apply IH; assumption|]).
  - destruct Hag as [Hm1 Ht1]. rewrite Hm1, Ht1. exact Hm.
  - rewrite Hag. exact Hm.
Qed.

Lemma agree_set_tenv l r t ts :
  existsb (fun t0 => String.eqb r (tok_token t0)) ts = false ->
  forall t0, In t0 ts -> agree l (set_tenv M T l r t) t0.
Proof.
  intros Hex t0 Hin.
  assert (Hne : String.eqb r (tok_token t0) = false).
  { destruct (String.eqb r (tok_token t0)) eqn:E; [|reflexivity].
    assert (existsb (fun t1 => String.eqb r (tok_token t1)) ts = true)
      by (apply existsb_exists; exists t0; auto). congruence. }
  destruct t0 as [x p r0|r0]; cbn in *; rewrite String.eqb_sym in Hne; rewrite Hne; auto.
Qed.

Lemma ms_rel_frames n base a a' fs : ms_rel (S n) base (a, fs) -> ms_rel (S n) base (a', fs).
Proof. cbn. exact (fun H => H). Qed.

Lemma bal_atom_sound e a ax ay c c' : bal_atom a ax = Some ay -> Gbal e ax c -> astep a c c' -> Gbal e ay c'.
Proof.
  intros Htf HG Hst. destruct HG as [Hc [Hm Hh]].
  inversion Hst; subst; cbn in Htf; cbn [fst snd] in *;
    try (inversion Htf; subst; split; [exact Hc | split; [exact Hm | exact Hh]]).
  - (* Make *)
    destruct (existsb (fun t0 => String.eqb r (tok_token t0)) (toks ax)) eqn:Ex; [discriminate|].
    injection Htf as <-. split; [|split; [exact Hm | exact Hh]]. cbn.
    exists (board B M g). split.
    + eapply chain_ext; [apply agree_set_tenv; exact Ex | exact Hc].
    + rewrite String.eqb_refl. exact H.
  - (* Undo *)
    destruct (toks ax) as [|t0 rest] eqn:Tk; [discriminate|].
    destruct (tok_eqb t0 (TMove x p r)) eqn:Te; [|discriminate]. apply tok_eqb_eq in Te. subst t0.
    injection Htf as <-. split; [|split; [exact Hm | exact Hh]]. cbn.
    cbn in Hc. destruct Hc as [bp [Hc Hmk]]. rewrite (undo_make_id _ _ _ _ Hmk). exact Hc.
  - (* MakeNull *)
    destruct (existsb (fun t0 => String.eqb r (tok_token t0)) (toks ax)) eqn:Ex; [discriminate|].
    injection Htf as <-. split; [|split; [exact Hm | exact Hh]]. cbn.
    exists (board B M g). split.
    + eapply chain_ext; [apply agree_set_tenv; exact Ex | exact Hc].
    + rewrite String.eqb_refl. exact H.
  - (* UndoNull *)
    destruct (toks ax) as [|t0 rest] eqn:Tk; [discriminate|].
    destruct (tok_eqb t0 (TNull r)) eqn:Te; [|discriminate]. apply tok_eqb_eq in Te. subst t0.
    injection Htf as <-. split; [|split; [exact Hm | exact Hh]]. cbn.
    cbn in Hc. destruct Hc as [bp [Hc Hmk]]. rewrite (undo_null_id _ _ _ Hmk). exact Hc.
  - (* Havoc *)
    destruct (existsb (tok_uses x) (toks ax)) eqn:Ex; [discriminate|].
    injection Htf as <-. split; [|split; [exact Hm | exact Hh]].
    eapply chain_ext; [|exact Hc]. intros t0 Hin.
    assert (Hu : tok_uses x t0 = false).
    { destruct (tok_uses x t0) eqn:E; [|reflexivity].
      assert (existsb (tok_uses x) (toks ax) = true) by (apply existsb_exists; exists t0; auto). congruence. }
    destruct t0 as [m p r|r]; cbn in *.
    + apply orb_false_iff in Hu as [U1 U2]. apply String.eqb_neq in U1, U2.
      split; [rewrite (proj1 (H m ltac:(congruence))); reflexivity | apply (H r); congruence].
    + apply String.eqb_neq in Hu. apply (H r). congruence.
  - (* MsPop *)
    destruct (nfr ax) as [|n] eqn:Nf; [discriminate|]. injection Htf as <-.
    cbn in Hm. destruct (ms_frames B M g) as [|a0 fs] eqn:Fr; [contradiction|].
    split; [exact Hc | split; [exact Hm | exact Hh]].
  - (* MsAlloc *)
    destruct (nfr ax) as [|n] eqn:Nf; [discriminate|]. inversion Htf; subst.
    split; [exact Hc | split; [|exact Hh]]. rewrite Nf. cbn in Hm |- *. exact Hm.
  - (* MsClear *) injection Htf as <-. split; [exact Hc | split; [reflexivity | exact Hh]].
  - (* HPush *) injection Htf as <-. split; [exact Hc | split; [exact Hm|]]. cbn. rewrite Hh. lia.
  - (* HPop *)
    destruct (nh ax) as [|n] eqn:Nh; [discriminate|]. inversion Htf; subst.
    split; [exact Hc | split; [exact Hm|]]. cbn. rewrite Hh. lia.
  - (* HReset *) injection Htf as <-. split; [exact Hc | split; [exact Hm | reflexivity]].
  - (* IncNodes *) injection Htf as <-. unfold inc_nodes.
    destruct ((budget B M g =? -1)%Z || (nodes B M g <? budget B M g)%Z); [|destruct (ponder B M g)];
      (split; [exact Hc | split; [exact Hm | exact Hh]]).
  - (* SetC *) injection Htf as <-. split; [|split; [exact Hm | exact Hh]].
    eapply chain_ext; [|exact Hc]. intros [m p r|r] _; cbn; auto.
Qed.

Definition bal_Inv (c : cstate) : Prop := True.

Lemma bal_call_sound e x c f p xin xout me te ce :
  bal_call resetters f p x = Some (xin, xout) -> Gbal e x c ->
  exists e', Gbal e' xin (enter B M T p c me te ce) /\
             forall xe c2, Gbal e' xe c2 -> bal_exit resetters f xin xe = true -> Gbal e xout (leave B M T p c c2).
Proof.
  intros Hcp [Hc [Hm Hh]]. exists (fst (enter B M T p c me te ce)).
  assert (Hin : xin = bal_zero) by (unfold bal_call in Hcp; destruct (mem f resetters); inversion Hcp; reflexivity).
  subst xin. split.
  { split; [reflexivity | split; [reflexivity | cbn; lia]]. }
  intros xe c2 [Hc2 [Hm2 Hh2]] Hex. unfold bal_exit in Hex. unfold bal_call in Hcp.
  assert (Hb : board B M (fst (leave B M T p c c2)) = board B M (fst c2))
    by (unfold leave; destruct (is_search_call p); reflexivity).
  assert (Hma : ms_alloc B M (fst (leave B M T p c c2)) = ms_alloc B M (fst c2))
    by (unfold leave; destruct (is_search_call p); reflexivity).
  assert (Hmf : ms_frames B M (fst (leave B M T p c c2)) = ms_frames B M (fst c2))
    by (unfold leave; destruct (is_search_call p); reflexivity).
  assert (Hhd : hdepth B M (fst (leave B M T p c c2)) = hdepth B M (fst c2))
    by (unfold leave; destruct (is_search_call p); reflexivity).
  assert (Eb : board B M (fst (enter B M T p c me te ce)) = board B M (fst c))
    by (unfold enter; destruct (is_search_call p); reflexivity).
  assert (Ema : ms_alloc B M (fst (enter B M T p c me te ce)) = ms_alloc B M (fst c))
    by (unfold enter; destruct (is_search_call p); reflexivity).
  assert (Emf : ms_frames B M (fst (enter B M T p c me te ce)) = ms_frames B M (fst c))
    by (unfold enter; destruct (is_search_call p); reflexivity).
  assert (Ehd : hdepth B M (fst (enter B M T p c me te ce)) = hdepth B M (fst c))
    by (unfold enter; destruct (is_search_call p); reflexivity).
  destruct c as [g l]. destruct c2 as [g2 l2]. cbn [fst snd] in *.
  destruct (mem f resetters); inversion Hcp; subst xout; apply bal_eqb_eq in Hex; subst xe;
    cbn [chain toks bal_zero bal_reset nfr nh ms_abs h_abs ms_rel set_ms set_h] in Hc2, Hm2, Hh2;
    unfold Gbal; cbn [fst snd]; rewrite Hb, Hma, Hmf, Hhd;
    cbn [chain toks bal_zero bal_reset nfr nh ms_abs h_abs ms_rel set_ms set_h].
  - split; [|split].
    + rewrite Hc2, Eb. exact Hc.
    + inversion Hm2. reflexivity.
    + rewrite Hh2. reflexivity.
  - split; [|split].
    + rewrite Hc2, Eb. exact Hc.
    + injection Hm2 as Ha Hf. rewrite Ha, Hf. destruct (is_search_call p); exact Hm.
    + rewrite Hh2, Ehd. rewrite Hh. lia.
Qed.

Hypothesis table_checked : table_ok D ftable = true.

Theorem bal_sound : forall s c o c', exec s c o c' ->
  forall e x r, an D s x = Some r -> Gbal e (fst x) c -> defers M T (snd c) = snd x ->
  post B M T D glob Gbal bal_Inv e r o c'.
Proof.
  apply (an_sound B M T make undo make_null undo_null ftable D glob Gbal bal_Inv).
  - exact bal_eqb_eq.
  - intros e x y c Hle HG. apply bal_eqb_eq in Hle. subst. exact HG.
  - intros e x c HG. exact HG.
  - intros; exact I.
  - exact bal_atom_sound.
  - intros e x g l HG. exact HG.
  - intros e x g l HG _. exists x. split; [reflexivity | exact HG].
  - intros e x g l c vs v HG _. exists x. split; [reflexivity | exact HG].
  - intros e x g l a [Hc [Hm Hh]]. split; [|split; assumption].
    eapply chain_ext; [|exact Hc]. intros [m p r|r] _; cbn; auto.
  - exact bal_call_sound.
  - apply table_ok_lookup. exact table_checked.
Qed.

Lemma bal_call_checked f p c o c' e x xin xout :
  exec (Call f p) c o c' -> bal_call resetters f p x = Some (xin, xout) -> In xin [bal_zero] -> Gbal e x c ->
  match o with OHalt => bal_Inv c' | ONormal => Gbal e xout c' | _ => False end.
Proof.
  apply (call_checked B M T make undo make_null undo_null ftable D glob Gbal bal_Inv).
  - exact bal_eqb_eq.
  - intros e0 x0 y c0 Hle HG. apply bal_eqb_eq in Hle. subst. exact HG.
  - intros e0 x0 c0 HG. exact HG.
  - intros; exact I.
  - exact bal_atom_sound.
  - intros e0 x0 g l HG. exact HG.
  - intros e0 x0 g l HG _. exists x0. split; [reflexivity | exact HG].
  - intros e0 x0 g l c0 vs v HG _. exists x0. split; [reflexivity | exact HG].
  - intros e0 x0 g l a [Hc [Hm Hh]]. split; [|split; assumption].
    eapply chain_ext; [|exact Hc]. intros [m p0 r|r] _; cbn; auto.
  - exact bal_call_sound.
  - apply table_ok_lookup. exact table_checked.
  - exact bal_eqb_refl.
Qed.

(* every call of a function of the checked table *)
Theorem call_balanced f p c c' :
  exec (Call f p) c ONormal c' ->
  board B M (fst c') = board B M (fst c)
  /\ if mem f resetters
     then ms_alloc B M (fst c') = 0 /\ ms_frames B M (fst c') = [] /\ hdepth B M (fst c') = 0
     else ms_alloc B M (fst c') = ms_alloc B M (fst c) /\ ms_frames B M (fst c') = ms_frames B M (fst c)
          /\ hdepth B M (fst c') = hdepth B M (fst c).
Proof.
  intros Hex.
  assert (HG0 : Gbal (fst c) bal_zero c) by (split; [reflexivity | split; [reflexivity | cbn; lia]]).
  destruct (bal_call resetters f p bal_zero) as [[xin xout]|] eqn:Cp;
    [|unfold bal_call in Cp; destruct (mem f resetters); discriminate].
  assert (Hx : xin = bal_zero) by (unfold bal_call in Cp; destruct (mem f resetters); inversion Cp; reflexivity).
  pose proof (bal_call_checked _ _ _ _ _ _ _ _ _ Hex Cp ltac:(left; symmetry; exact Hx) HG0) as [Hc [Hm Hh]].
  unfold bal_call in Cp. destruct (mem f resetters); inversion Cp; subst xout; cbn in Hc, Hm, Hh.
  - split; [exact Hc|]. injection Hm as Ha Hf. auto.
  - split; [exact Hc|]. injection Hm as Ha Hf. repeat split; auto. lia.
Qed.

End Balance.
