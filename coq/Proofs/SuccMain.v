(* C02: the board after MakeMove is the successor position of the rules (single step), assembled
   from the clause lemmas; then chains of moves, the UCI move list, and the clock. *)
From Coq Require Import NArith ZArith List Bool Lia.
From Chess3 Require Import Base.Bits Base.Word Model.Types Model.Att Model.BoardDef Model.Board Model.Movegen Model.ApplyMoves.
From Chess3 Require Import Spec.Geometry Spec.Chess Spec.Rep.
From Chess3 Require Import Proofs.SuccLists Proofs.SuccCore Proofs.SuccCells Proofs.SuccFacts Proofs.SuccPlace
                           Proofs.SuccSmall Proofs.SuccAttack Proofs.SuccEpBase Proofs.SuccEp.
Import ListNotations.
Open Scope N_scope.
Ltac Zify.zify_post_hook ::= Z.to_euclidean_division_equations.

Lemma abs_set_hashes b l : abs (set_hashes b l) = abs b.
Proof. reflexivity. Qed.

Lemma abs_core b m :
  abs (core b m) = mkPos (at_ (abs (core b m))) (flip (stm b)) (new_castles b m)
                         (if new_ep b m =? 0 then None else Some (new_ep b m)) (new_fifty b m)
                         (full b + Z.of_N (cix (stm b)))%Z.
Proof.
  destruct (core_small_fields b m) as [F1 [F2 [F3 [F4 [F5 _]]]]].
  unfold abs at 1. rewrite F1, F2, F3, F4, F5. reflexivity.
Qed.

Lemma abs_diff_16 from to : (abs_diff from to =? 16) = (to =? from + 16) || (to + 16 =? from).
Proof.
  unfold abs_diff. destruct (N.ltb_spec from to) as [L|L];
    destruct (N.eqb_spec (to - from) 16); destruct (N.eqb_spec (from - to) 16);
    destruct (N.eqb_spec to (from + 16)); destruct (N.eqb_spec (to + 16) from); try reflexivity; lia.
Qed.

Lemma succ_spec_unfold b m :
  succ_spec (abs b) m =
  let q := q0 b m in
  let mid := (mv_from m + mv_to m) / 2 in
  if holds (abs b) (mv_from m) (stm b) Pawn && ((mv_to m =? mv_from m + 16) || (mv_to m + 16 =? mv_from m)) &&
     ep_capturable q mid
  then mkPos (at_ q) (turn q) (rights q) (Some mid) (half q) (fullm q) else q.
Proof. reflexivity. Qed.

Lemma q0_eq b m k : cell b (mv_from m) = Some (stm b, k) ->
  q0 b m = mkPos (place_after (abs b) m) (flip (stm b)) (rights_after (abs b) m) None
                 (if (k =? Pawn)%N || is_capture (abs b) m then 0 else fifty b + 1)%Z
                 (match stm b with Black => full b + 1 | White => full b end)%Z.
Proof.
  intros Hc. unfold q0. rewrite (holds_abs b (mv_from m) (stm b) Pawn (mv_from_lt m)), Hc, color_eqb_refl.
  cbn [andb]. rewrite (N.eqb_sym Pawn k). reflexivity.
Qed.

Theorem succ_core b m : Rep b -> valid_core (abs b) = true -> (0 <= fifty b < 32767)%Z -> legal_spec (abs b) m = true ->
  abs (core b m) = succ_spec (abs b) m.
Proof.
  intros HR HV HF HL.
  rewrite abs_core, (core_placement b m HR HV HL), (core_rights b m HL), (core_fifty b m HL HF), (core_full b m).
  rewrite succ_spec_unfold. cbv zeta.
  destruct (facts b m HL) as [k [Hc _]]. destruct (cell_Some _ _ _ _ Hc) as [Hp _].
  pose proof (q0_eq b m k Hc) as EQ.
  unfold new_ep. rewrite Hp, abs_diff_16.
  rewrite (holds_abs b (mv_from m) (stm b) Pawn (mv_from_lt m)), Hc, color_eqb_refl. cbn [andb].
  rewrite (N.eqb_sym Pawn k).
  destruct (N.eqb_spec k Pawn) as [EK|EK]; cbn [andb].
  2:{ rewrite EQ. reflexivity. }
  destruct ((mv_to m =? mv_from m + 16) || (mv_to m + 16 =? mv_from m)) eqn:ED; cbn [andb].
  2:{ rewrite EQ. reflexivity. }
  assert (Hd : mv_to m = mv_from m + 16 \/ mv_to m + 16 = mv_from m).
  { apply orb_true_iff in ED. destruct ED as [E|E]; apply N.eqb_eq in E; tauto. }
  rewrite EK in Hc.
  rewrite (can_ep_eq b m HR HV HL Hc Hd).
  destruct (dfacts b m HL Hc Hd) as [_ [_ [_ [_ [_ [Hmid _]]]]]]. rewrite Hmid.
  destruct (ep_capturable (q0 b m) (dp_mid (stm b) (mv_to m))).
  2:{ rewrite EQ. reflexivity. }
  assert (Hnz : dp_mid (stm b) (mv_to m) <> 0) by (rewrite <- Hmid; destruct Hd; lia).
  rewrite (proj2 (N.eqb_neq _ 0) Hnz). rewrite EQ. reflexivity.
Qed.

Theorem C02_succ_proof z b m : Rep b -> valid_core (abs b) = true -> (0 <= fifty b < 32767)%Z ->
  legal_spec (abs b) m = true -> abs (fst (make z b m)) = succ_spec (abs b) m.
Proof.
  intros HR HV HF HL. destruct (make_core z b m) as [h E]. rewrite E, abs_set_hashes.
  apply succ_core; assumption.
Qed.

(* ------------------------------------------------------------------------------------------ *)
(* chains of moves *)

Fixpoint play (z : zobrist) (b : board) (ms : list N) : board :=
  match ms with [] => b | m :: r => play z (fst (make z b m)) r end.
Fixpoint play_spec (p : pos) (ms : list N) : pos :=
  match ms with [] => p | m :: r => play_spec (succ_spec p m) r end.
Fixpoint legal_chain (p : pos) (ms : list N) : bool :=
  match ms with [] => true | m :: r => legal_spec p m && legal_chain (succ_spec p m) r end.

(* the two invariants a chain needs *)
Definition valid_step_statement : Prop :=
  forall p m, valid_core p = true -> legal_spec p m = true -> valid_core (succ_spec p m) = true.
Definition make_Rep_statement (z : zobrist) : Prop :=
  forall b m, Rep b -> valid_core (abs b) = true -> legal_spec (abs b) m = true -> (0 <= fifty b < 32767)%Z ->
              Rep (fst (make z b m)).

(* the clock: no wrap below 32767 *)
Lemma make_fifty z b m : fifty (fst (make z b m)) = new_fifty b m.
Proof.
  destruct (make_core z b m) as [h E]. rewrite E. cbn [fifty set_hashes]. apply (core_small_fields b m).
Qed.

Lemma new_fifty_step b m : (0 <= fifty b < 32767)%Z ->
  new_fifty b m = 0%Z \/ new_fifty b m = (fifty b + 1)%Z.
Proof.
  intros H. unfold new_fifty. destruct (_ || _); [left; reflexivity|right]. apply wrap16_id. lia.
Qed.

Theorem clock_step z b m : (0 <= fifty b < 32767)%Z ->
  fifty (fst (make z b m)) = 0%Z \/ fifty (fst (make z b m)) = (fifty b + 1)%Z.
Proof. intros H. rewrite make_fifty. apply new_fifty_step. exact H. Qed.

Theorem clock_chain z ms : forall b, (0 <= fifty b)%Z -> (fifty b + Z.of_nat (length ms) < 32768)%Z ->
  (0 <= fifty (play z b ms) <= fifty b + Z.of_nat (length ms))%Z.
Proof.
  induction ms as [|m r IH]; intros b H0 H1; cbn [play length] in *; [lia|].
  destruct (clock_step z b m ltac:(lia)) as [E|E];
    specialize (IH (fst (make z b m))); rewrite E in IH; lia.
Qed.

Theorem chain_proof z : valid_step_statement -> make_Rep_statement z ->
  forall ms b, Rep b -> valid_core (abs b) = true -> (0 <= fifty b)%Z -> (fifty b + Z.of_nat (length ms) < 32768)%Z ->
  legal_chain (abs b) ms = true ->
  abs (play z b ms) = play_spec (abs b) ms /\ Rep (play z b ms) /\ valid_core (abs (play z b ms)) = true.
Proof.
  intros VS MR. induction ms as [|m r IH]; intros b HR HV H0 H1 HL; cbn [play play_spec legal_chain length] in *.
  - tauto.
  - apply andb_true_iff in HL. destruct HL as [HL1 HL2].
    assert (HF : (0 <= fifty b < 32767)%Z) by lia.
    pose proof (C02_succ_proof z b m HR HV HF HL1) as E.
    rewrite <- E in HL2 |- *.
    destruct (clock_step z b m HF) as [EF|EF].
    + apply IH; try assumption.
      * apply MR; assumption.
      * rewrite E. apply VS; assumption.
      * rewrite EF. lia.
      * rewrite EF. lia.
    + apply IH; try assumption.
      * apply MR; assumption.
      * rewrite E. apply VS; assumption.
      * rewrite EF. lia.
      * rewrite EF. lia.
Qed.

(* ------------------------------------------------------------------------------------------ *)
(* the UCI move list: exactly the longest prefix of tokens that parse to pseudo-legal moves is played *)

Fixpoint parses (z : zobrist) (b : board) (toks : list (list N)) (ms : list N) : Prop :=
  match toks, ms with
  | [], [] => True
  | t :: toks', m :: ms' => parse_uci_move b t = Some m /\ parses z (fst (make z b m)) toks' ms'
  | _, _ => False
  end.

Lemma parse_pseudo_legal b t m : parse_uci_move b t = Some m -> is_pseudo_legal b m = true.
Proof.
  unfold parse_uci_move. destruct t as [|c0 [|c1 [|c2 [|c3 rest]]]]; try discriminate.
  destruct (uci_promo rest) as [pr|]; [|discriminate].
  destruct (_ || _)%bool; [discriminate|].
  destruct (is_pseudo_legal b _) eqn:E; [|discriminate]. intros H. inversion H. subst m. exact E.
Qed.

Theorem uci_proof z toks : forall b,
  let ms := accepted_moves z b toks in
  apply_moves z b toks = play z b ms /\
  exists pre rest, toks = pre ++ rest /\ parses z b pre ms /\
                   match rest with [] => True | t :: _ => parse_uci_move (play z b ms) t = None end.
Proof.
  induction toks as [|t r IH]; intros b; cbn [accepted_moves apply_moves].
  - split; [reflexivity|]. exists [], []. repeat split.
  - destruct (parse_uci_move b t) as [m|] eqn:E.
    + destruct (IH (fst (make z b m))) as [I1 [pre [rest [I2 [I3 I4]]]]]. cbv zeta in *.
      split; [exact I1|]. exists (t :: pre), rest. split; [cbn; rewrite I2; reflexivity|].
      split; [cbn [parses]; split; assumption|exact I4].
    + cbv zeta. split; [reflexivity|]. exists [], (t :: r). repeat split. exact E.
Qed.

Lemma parses_all_pseudo_legal z toks : forall b ms, parses z b toks ms ->
  match ms with [] => True | m :: _ => is_pseudo_legal b m = true end.
Proof.
  intros b ms. destruct toks, ms; cbn [parses]; try tauto. intros [H _]. exact (parse_pseudo_legal _ _ _ H).
Qed.

(* what the int8 clock did (before fix cb6b25d): 130 reversible plies from 0 read -126 *)
Definition clock8_step (f : Z) : Z := wrap8 (f + 1).
Lemma clock8_130 : Nat.iter 130 clock8_step 0%Z = (-126)%Z.
Proof. vm_compute. reflexivity. Qed.
(* and the int16 clock at its limit *)
Lemma clock16_limit : wrap16 (32767 + 1) = (-32768)%Z.
Proof. vm_compute. reflexivity. Qed.

(* the en-passant clause in the vocabulary of the specification *)
Theorem can_en_passant_succ b m : Rep b -> valid_core (abs b) = true -> legal_spec (abs b) m = true ->
  holds (abs b) (mv_from m) (stm b) Pawn = true ->
  (mv_to m = mv_from m + 16 \/ mv_to m + 16 = mv_from m) ->
  (can_en_passant b (mv_to m) = true <-> epsq (succ_spec (abs b) m) = Some ((mv_from m + mv_to m) / 2)).
Proof.
  intros HR HV HL Hh Hd.
  assert (Hc : cell b (mv_from m) = Some (stm b, Pawn)).
  { rewrite (holds_abs b _ _ _ (mv_from_lt m)) in Hh. destruct (cell b (mv_from m)) as [[c' k']|]; [|discriminate].
    apply andb_true_iff in Hh. destruct Hh as [H1 H2]. apply color_eqb_eq in H1. apply N.eqb_eq in H2. congruence. }
  rewrite succ_spec_unfold. cbv zeta. rewrite Hh.
  assert (ED : (mv_to m =? mv_from m + 16) || (mv_to m + 16 =? mv_from m) = true).
  { apply orb_true_iff. destruct Hd as [E|E]; [left|right]; apply N.eqb_eq; exact E. }
  rewrite ED. cbn [andb].
  rewrite (can_ep_eq b m HR HV HL Hc Hd).
  destruct (dfacts b m HL Hc Hd) as [_ [_ [_ [_ [_ [Hmid _]]]]]]. rewrite Hmid.
  destruct (ep_capturable (q0 b m) (dp_mid (stm b) (mv_to m))); cbn [epsq].
  - tauto.
  - unfold q0. cbn [epsq]. split; discriminate.
Qed.

(* the UCI list, when the accepted tokens are legal moves *)
Theorem uci_legal_proof z : valid_step_statement -> make_Rep_statement z ->
  forall toks b, Rep b -> valid_core (abs b) = true -> (0 <= fifty b)%Z ->
  (fifty b + Z.of_nat (length (accepted_moves z b toks)) < 32768)%Z ->
  legal_chain (abs b) (accepted_moves z b toks) = true ->
  abs (apply_moves z b toks) = play_spec (abs b) (accepted_moves z b toks).
Proof.
  intros VS MR toks b HR HV H0 H1 HL. destruct (uci_proof z toks b) as [E _]. cbv zeta in E. rewrite E.
  apply (chain_proof z VS MR); assumption.
Qed.
