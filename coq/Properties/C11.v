(* C11 - FEN parsing and printing are inverse and robust; the UCI position command.
   Statements only; proofs live in Proofs/Fen*.v.  The model (Model/Fen.v) is a line-by-line
   transliteration of board/fen.go, Board.InvalidPieceCount, epd.Parse and the board-installing part
   of uci handlePosition, with EXPLICIT BOUNDS: every fen[ix] is nth_error, every array write is
   checked against the array size, and an out-of-range access is the outcome [Panic]; a loop that
   runs out of fuel is the outcome [Diverge]. *)
From Coq Require Import NArith ZArith List Bool.
From Chess3 Require Import Base.Bits Base.Word Model.Types Model.BoardDef Model.Board Model.Fen Gen.Zobrist
  Spec.FenSpec Proofs.FenSafe Proofs.FenGate Proofs.FenRound Proofs.FenUci Proofs.FenWf Model.ApplyMoves Model.FenSeq.
Import ListNotations.

(* ---- robustness: all byte lists, of any length ---- *)

Theorem C11_no_panic : forall s : list N, parse_fen s <> Panic.
Proof. exact parse_fen_no_panic. Qed.
Print Assumptions C11_no_panic.

Theorem C11_terminates : forall s : list N, parse_fen s <> Diverge.
Proof. exact parse_fen_terminates. Qed.
Print Assumptions C11_terminates.

Theorem C11_error_or_board : forall s : list N,
  (exists b, parse_fen s = Ok b) \/ (exists e, parse_fen s = Err e).
Proof. exact parse_fen_total. Qed.
Print Assumptions C11_error_or_board.

(* the tuner's input path *)
Theorem C11_epd_no_panic : forall line : list N, epd_parse line <> EpdPanic.
Proof. exact epd_parse_no_panic. Qed.
Print Assumptions C11_epd_no_panic.

(* ---- round trip.  wf = the three encodings of the placement agree, ep < 64, castles < 16; no
   chess validity is needed.  The clock bound is the parser's documented range (known finding F6,
   see C11_clock_refuted); the fullmove bound is the range of Go's int. ---- *)

Theorem C11_roundtrip : forall (z : zobrist) (b : board),
  wf b -> (0 <= fifty b <= 100)%Z -> (1 <= full b < 2 ^ 63)%Z ->
  from_fen z (print_fen b) = Ok (reset_hash z b).
Proof. exact from_fen_print. Qed.
Print Assumptions C11_roundtrip.

Theorem C11_roundtrip_parse : forall b : board,
  wf b -> (0 <= fifty b <= 100)%Z -> (1 <= full b < 2 ^ 63)%Z ->
  parse_fen (print_fen b) = Ok (set_hashes b []).
Proof. exact parse_print. Qed.
Print Assumptions C11_roundtrip_parse.

(* canonical texts (= the printer's image) are fixed points of parse-then-print *)
Theorem C11_text : forall b : board,
  wf b -> (0 <= fifty b <= 100)%Z -> (1 <= full b < 2 ^ 63)%Z ->
  exists b', parse_fen (print_fen b) = Ok b' /\ print_fen b' = print_fen b.
Proof. exact print_parse_print. Qed.
Print Assumptions C11_text.

(* ---- the piece-count gate and the UCI position command ---- *)

(* one king and pawns + promoted excess <= 8 per side, however the excess is distributed *)
Theorem C11_gate : forall b : board, valid_material b = true -> invalid_piece_count b = false.
Proof. exact gate_accepts_valid_material. Qed.
Print Assumptions C11_gate.

Theorem C11_uci_accepts : forall (z : zobrist) (d b : board) (rest : list (list N)),
  wf b -> valid_material b = true -> (0 <= fifty b <= 100)%Z -> (1 <= full b < 2 ^ 63)%Z ->
  (length rest >= 6)%nat -> join_sp (firstn 6 rest) = print_fen b ->
  handle_position z d (tok_fen :: rest) = Ok (reset_hash z b, 0%N).
Proof. exact uci_accepts_valid. Qed.
Print Assumptions C11_uci_accepts.

(* a rejected position (parser error or gate) leaves the current board as it was *)
Theorem C11_uci_keep : forall (z : zobrist) (d : board) (rest : list (list N)),
  (length rest >= 6)%nat ->
  ((exists e, from_fen z (join_sp (firstn 6 rest)) = Err e) \/
   (exists b, from_fen z (join_sp (firstn 6 rest)) = Ok b /\ invalid_piece_count b = true)) ->
  exists code, handle_position z d (tok_fen :: rest) = Ok (d, code) /\ code <> 0%N.
Proof. exact handle_position_keep. Qed.
Print Assumptions C11_uci_keep.

(* for every argument list: no panic, and whenever something is written to the error stream the
   board is unchanged *)
Theorem C11_uci_total : forall (z : zobrist) (d : board) (args : list (list N)),
  exists d' code, handle_position z d args = Ok (d', code) /\ (code <> 0%N -> d' = d).
Proof. exact handle_position_total. Qed.
Print Assumptions C11_uci_total.

(* the whole position command, move list included (Model/FenSeq.v).  The model's only state is the
   board - as in uci.go, where handlePosition reads and writes d.board and nothing else - so the
   statement covers every command of every command sequence: a rejected command (1 too few
   arguments, 2 parser error, 3 piece-count gate) leaves the board it found. *)
Theorem C11_uci_moves_keep : forall (z : zobrist) (d : board) (args : list (list N)),
  exists d' code, handle_position_moves z d args = Ok (d', code) /\
                  (code = 1%N \/ code = 2%N \/ code = 3%N -> d' = d).
Proof. exact handle_position_moves_keep. Qed.
Print Assumptions C11_uci_moves_keep.

(* ---- known finding F6: the clock hypothesis of the round trip cannot be dropped ---- *)

Definition startpos_board : board :=
  match parse_fen startpos_fen with Ok b => b | _ => empty_board end.

Definition C11_roundtrip_any_clock_statement : Prop :=
  forall b : board, wf b -> (0 <= fifty b < 2 ^ 15)%Z -> (1 <= full b < 2 ^ 63)%Z ->
  parse_fen (print_fen b) = Ok (set_hashes b []).

Theorem C11_clock_refuted :
  exists b : board, wf b /\ valid_material b = true /\ fifty b = 101%Z /\ full b = 1%Z /\
                    parse_fen (print_fen b) = Err EFiftyRange.
Proof.
  exists (set_fifty startpos_board 101%Z).
  split; [apply wf_b_sound; vm_compute; reflexivity|]. repeat split; vm_compute; reflexivity.
Qed.
Print Assumptions C11_clock_refuted.

Theorem C11_roundtrip_any_clock_refuted : ~ C11_roundtrip_any_clock_statement.
Proof.
  intros H. destruct C11_clock_refuted as (b & W & _ & F & M & E).
  rewrite (H b W) in E; [discriminate|rewrite F|rewrite M]; split; vm_compute; congruence.
Qed.
Print Assumptions C11_roundtrip_any_clock_refuted.

(* ---- observation (not part of the fixed property text): an accepted string need not denote a
   position.  A rank may overflow into the next one: in "Q7/8P6/..." the pawn lands on a8, where the
   queen already is; the parser accepts, the three encodings disagree, and the piece-count gate of
   `position fen` lets the board through. ---- *)

Definition C11_parse_wf_statement : Prop := forall s b, parse_fen s = Ok b -> wf b.

Definition overflow_fen : list N :=   (* "Q7/8P6/8/8/8/8/7k/K7 w - - 0 1" *)
  [81;55;47;56;80;54;47;56;47;56;47;56;47;56;47;55;107;47;75;55;32;119;32;45;32;45;32;48;32;49].

Theorem C11_parse_wf_refuted :
  exists b, parse_fen overflow_fen = Ok b /\ N.testbit (pieces b Queen) 56 = true /\
            N.testbit (pieces b Pawn) 56 = true /\ piece_at b 56 = Pawn /\ invalid_piece_count b = false.
Proof. eexists. split; [vm_compute; reflexivity|]. repeat split; vm_compute; reflexivity. Qed.
Print Assumptions C11_parse_wf_refuted.

Theorem C11_parse_wf_statement_refuted : ~ C11_parse_wf_statement.
Proof.
  intros H. destruct C11_parse_wf_refuted as (b & P & Q & Pw & At & _).
  pose proof (wf_pieces b (H _ b P) Queen 56%N) as W. rewrite Q, At in W.
  specialize (W ltac:(unfold Queen; split; discriminate)). vm_compute in W. discriminate.
Qed.
Print Assumptions C11_parse_wf_statement_refuted.

(* ---- non-vacuity ---- *)

Example C11_roundtrip_nonvacuous :
  wf startpos_board /\ (0 <= fifty startpos_board <= 100)%Z /\ (1 <= full startpos_board < 2 ^ 63)%Z /\
  valid_material startpos_board = true /\ print_fen startpos_board = startpos_fen.
Proof.
  split; [apply wf_b_sound; vm_compute; reflexivity|]. repeat split; vm_compute; congruence.
Qed.

(* maximal promoted material passes the gate: 9 queens, 10 rooks, 10 bishops, 10 knights *)
Definition board_of (s : list N) : board := match parse_fen s with Ok b => b | _ => empty_board end.
Definition nine_queens : list N :=    (* "QQQQQQQQ/Q7/8/8/8/8/7k/K7 b - - 0 1" *)
  [81;81;81;81;81;81;81;81;47;81;55;47;56;47;56;47;56;47;56;47;55;107;47;75;55;32;98;32;45;32;45;32;48;32;49].
Definition ten_rooks : list N :=      (* "RRRRRRRR/RR6/8/8/8/8/7k/K7 b - - 0 1" *)
  [82;82;82;82;82;82;82;82;47;82;82;54;47;56;47;56;47;56;47;56;47;55;107;47;75;55;32;98;32;45;32;45;32;48;32;49].
Definition ten_bishops : list N :=    (* "bbbbbbbb/bb6/8/8/8/8/8/k6K w - - 0 1" *)
  [98;98;98;98;98;98;98;98;47;98;98;54;47;56;47;56;47;56;47;56;47;56;47;107;54;75;32;119;32;45;32;45;32;48;32;49].
Definition ten_knights : list N :=    (* "nnnnnnnn/nn6/8/8/8/8/8/k6K w - - 0 1" *)
  [110;110;110;110;110;110;110;110;47;110;110;54;47;56;47;56;47;56;47;56;47;56;47;107;54;75;32;119;32;45;32;45;32;48;32;49].

Example C11_gate_nonvacuous :
  forallb (fun s => wf_b (board_of s) && valid_material (board_of s) && negb (invalid_piece_count (board_of s)))
          [nine_queens; ten_rooks; ten_bishops; ten_knights] = true.
Proof. vm_compute. reflexivity. Qed.

(* and the gate is not vacuous the other way: ten queens are rejected, the rejected command keeps the board *)
Definition ten_queens : list (list N) :=   (* QQQQQQQQ/QQ6/8/8/8/8/7k/K7 b - - 0 1 *)
  [[81;81;81;81;81;81;81;81;47;81;81;54;47;56;47;56;47;56;47;56;47;55;107;47;75;55]; [98]; [45]; [45]; [48]; [49]].
Example C11_uci_keep_nonvacuous :
  handle_position zob_real startpos_board (tok_fen :: ten_queens) = Ok (startpos_board, 3%N).
Proof. vm_compute. reflexivity. Qed.
