(* Legality at the level of iterative deepening and Search.Go of the closed search model: the move
   returned is null or playable in the root, the ponder move is null or playable after it, every
   reported variation is a line of playable moves from the root, move and ponder move are the first two
   moves of the last non-empty reported variation.  Consequences of Proofs/SearchModelLegal.v
   (alphaBeta_leg at ply 0) by induction over the aspiration loop and the iteration loop. *)
From Coq Require Import NArith ZArith List Bool Lia.
From Chess3 Require Import Base.Bits Base.Word Model.Types Model.BoardDef Model.Board Model.Search
  Spec.Chess Spec.Rep Spec.Applicable Proofs.PickerProofs Proofs.SearchModelInv Proofs.SearchModelBoard
  Proofs.SearchModelLegalBase Proofs.SearchModelLegal.
From Chess3 Require Model.Movegen Model.TT Model.Picker Model.Pv Model.IterDeepen Proofs.PvProofs Proofs.GenMake Proofs.SpecLemmas Proofs.SearchModelId.
Import ListNotations.
Open Scope Z_scope.

(* ---- the fallback after an abort: the first playable move, null when there is none ---- *)

Lemma first_legal_leg : forall ms b, good b -> (forall m, In m ms -> In m (Movegen.gen_all b)) ->
  snd (first_legal b ms) = b /\
  fst (first_legal b ms) = hd 0 (map zN (filter (fun m => negb (in_check (fst (make zob b m)) (stm b))) ms)).
Proof.
  induction ms as [|m ms IH]; intros b Hg HA; cbn [first_legal filter map hd]; [split; reflexivity|].
  destruct (make zob b m) as [b1 t] eqn:Em. cbn [fst].
  assert (Hu : undo zob b1 m t = b).
  { eapply good_undo; [exact Hg| |exact Em]. apply good_gen_applicable; [exact Hg|]. apply HA. now left. }
  assert (Hs : flip (stm b1) = stm b).
  { replace b1 with (fst (make zob b m)) by now rewrite Em. rewrite GenMake.make_stm. apply SpecLemmas.flip_flip. }
  rewrite Hs. destruct (negb (in_check b1 (stm b))); cbn [fst snd map hd]; [split; [exact Hu|reflexivity]|].
  rewrite Hu. apply IH; [exact Hg|]. intros m' Hm'. apply HA. now right.
Qed.

Lemma fallback_leg st b mv st' b' : good b -> fallback st b = Ok (mv, st', b') ->
  b' = b /\ mv = hd 0 (map zN (Movegen.playable zob b)) /\ s_tt st' = s_tt st /\ s_pv st' = s_pv st.
Proof.
  intros Hg H. unfold fallback in H. walk.
  pose proof (push_framed (s_ms st)) as F0.
  match goal with E : Picker.store_alloc_all (Picker.store_push _) _ = Some _ |- _ => pose proof (alloc_all_framed _ _ _ _ _ _ E F0) as F1 end.
  match goal with E : Picker.store_alloc_all _ (map zN (Movegen.gen_quiet b)) = Some _ |- _ => pose proof (alloc_all_framed _ _ _ _ _ _ E F1) as F2 end.
  rewrite (framed_frame _ _ _ _ F2) in *. cbn [app] in *. rewrite map_app, !map_map in *. cbn [fst] in *.
  assert (Hid : forall l : list N, map (fun x => Z.to_N (zN x)) l = l).
  { intros l. rewrite <- (map_id l) at 2. apply map_ext. intros x. unfold zN. apply N2Z.id. }
  rewrite !Hid in *.
  change (Movegen.gen_noisy b ++ Movegen.gen_quiet b) with (Movegen.gen_all b) in *.
  destruct (first_legal_leg (Movegen.gen_all b) b Hg (fun m H => H)) as [F1' F2'].
  match goal with E : first_legal _ _ = _ |- _ => rewrite E in F1', F2'; cbn [fst snd] in F1', F2' end.
  subst. splits; reflexivity.
Qed.

Lemma hd_playable b mv : mv = hd 0 (map zN (Movegen.playable zob b)) ->
  mv = 0 \/ In mv (map zN (Movegen.playable zob b)).
Proof. intros ->. destruct (map zN (Movegen.playable zob b)); [left; reflexivity|right; left; reflexivity]. Qed.

(* ---- what is returned and reported ---- *)

Definition mvpd_ok (b : board) (mv pd : Z) : Prop :=
  (mv = 0 /\ pd = 0) \/
  (In mv (map zN (Movegen.playable zob b)) /\
   (pd = 0 \/ In pd (map zN (Movegen.playable zob (fst (make zob b (Z.to_N mv))))))).

Definition line_ok (b : board) (r : report) : Prop :=
  match r with RLine _ _ _ _ pv => zline b pv | RAbort _ _ => True end.

(* the last non-empty variation, in a list of reports that has the NEWEST first *)
Fixpoint last_pv (reps : list report) : option (list Z) :=
  match reps with
  | [] => None
  | RLine _ _ _ _ (m :: l) :: _ => Some (m :: l)
  | _ :: r => last_pv r
  end.

Definition head_rel (b : board) (reps : list report) (mv pd : Z) : Prop :=
  match last_pv reps with
  | Some (m :: p :: _) => mv = m /\ pd = p
  | Some [m] => mv = m /\ pd = 0
  | Some [] => False
  | None => pd = 0 /\ (mv = 0 \/ mv = hd 0 (map zN (Movegen.playable zob b)))
  end.

Lemma adopt_ok b pv mv pd mv1 pd1 : zline b pv -> mvpd_ok b mv pd -> IterDeepen.adopt pv mv pd = (mv1, pd1) ->
  mvpd_ok b mv1 pd1.
Proof.
  intros Hz Hm H. unfold IterDeepen.adopt in H. destruct pv as [|m [|p rest]]; injection H as <- <-.
  - exact Hm.
  - right. cbn in Hz. split; [tauto|left; reflexivity].
  - right. cbn in Hz. destruct Hz as (H1 & H2 & _). split; [exact H1|right; exact H2].
Qed.

Lemma adopt_head b d s n hf pv reps mv pd mv1 pd1 : head_rel b reps mv pd -> IterDeepen.adopt pv mv pd = (mv1, pd1) ->
  head_rel b (RLine d s n hf pv :: reps) mv1 pd1.
Proof.
  intros Hh H. unfold IterDeepen.adopt in H. unfold head_rel. destruct pv as [|m [|p rest]]; injection H as <- <-; cbn [last_pv].
  - exact Hh.
  - split; reflexivity.
  - split; reflexivity.
Qed.

Ltac unrev := repeat match goal with |- context [rev ?l ++ [?x]] => change (rev l ++ [x]) with (rev (x :: l)) end.

Section Deepen.
  Variable fuel : nat.
  Variable o : opts.

  Lemma aspire_leg : forall n st b al be f d a, good b -> state_ok st ->
    aspire fuel o n st b al be f d = Ok a ->
    match a with
    | AspOk _ st1 b1 => b1 = b /\ state_ok st1 /\ zline b (Pv.active (s_pv st1))
    | AspAbort st1 b1 => b1 = b /\ state_ok st1
    end.
  Proof.
    induction n as [|n IH]; intros st b al be f d a Hg Hs H; [discriminate H|].
    cbn [aspire] in H.
    destruct (alphaBeta fuel o st b al be d 0 SearchParams.PVNode) as [[[s st1] b1]| |] eqn:E; cbn [bind] in H; try discriminate H.
    apply alphaBeta_leg in E; [|exact Hg|exact Hs|lia]. destruct E as (-> & _ & Hs1 & Hz & _).
    walk; try (eapply IH; eassumption); auto.
  Qed.

  Lemma deepen_leg : forall todo st b d al be sc mv pd reps r st' b', good b -> state_ok st ->
    mvpd_ok b mv pd -> Forall (line_ok b) reps -> head_rel b reps mv pd ->
    deepen fuel o todo st b d al be sc mv pd reps = Ok (r, st', b') ->
    b' = b /\ state_ok st' /\ mvpd_ok b (r_move r) (r_ponder r) /\ Forall (line_ok b) (r_reports r) /\
    head_rel b (rev (r_reports r)) (r_move r) (r_ponder r).
  Proof.
    assert (Fin : forall b st sc mv pd reps, state_ok st -> mvpd_ok b mv pd -> Forall (line_ok b) reps -> head_rel b reps mv pd ->
              b = b /\ state_ok st /\ mvpd_ok b (r_move (mkR sc mv pd (rev reps))) (r_ponder (mkR sc mv pd (rev reps))) /\
              Forall (line_ok b) (r_reports (mkR sc mv pd (rev reps))) /\
              head_rel b (rev (r_reports (mkR sc mv pd (rev reps)))) (r_move (mkR sc mv pd (rev reps))) (r_ponder (mkR sc mv pd (rev reps)))).
    { intros b st sc mv pd reps Hs Hm Hl Hh. cbn [r_move r_ponder r_reports]. rewrite rev_involutive.
      splits; auto. apply Forall_rev. exact Hl. }
    induction todo as [|t IH]; intros st b d al be sc mv pd reps r st' b' Hg Hs Hm Hl Hh H; cbn [deepen] in H.
    - walk. now apply Fin.
    - destruct (negb ((d <? SearchParams.MaxPlies) && (d <=? o_depth o))); [walk; now apply Fin|].
      destruct (aspire fuel o 64 st b al be 1 d) as [a| |] eqn:Ea; cbn [bind] in H; try discriminate H.
      apply aspire_leg in Ea; [|exact Hg|exact Hs]. destruct a as [s st1 b1|st1 b1].
      + destruct Ea as (-> & Hs1 & Hz).
        destruct (IterDeepen.adopt (Pv.active (s_pv st1)) mv pd) as [mv1 pd1] eqn:Ead.
        pose proof (adopt_ok _ _ _ _ _ _ Hz Hm Ead) as Hm1.
        destruct (hashfull (s_tt st1) (s_gen st1)) as [hf| |]; cbn [bind] in H; try discriminate H.
        pose proof (adopt_head b d s (s_nodes st1) hf _ _ _ _ _ _ Hh Ead) as Hh1.
        assert (Hl1 : Forall (line_ok b) (RLine d s (s_nodes st1) hf (Pv.active (s_pv st1)) :: reps)) by (constructor; assumption).
        walk; [unrev; now apply Fin|]. eapply IH; eassumption.
      + destruct Ea as (-> & Hs1).
        assert (Hl1 : Forall (line_ok b) (RAbort d (s_nodes st1) :: reps)) by (constructor; [exact I|assumption]).
        assert (Hh1 : head_rel b (RAbort d (s_nodes st1) :: reps) mv pd) by exact Hh.
        destruct (mv =? 0) eqn:C0.
        * destruct (fallback st1 b) as [[[m x] y]| |] eqn:F; cbn [bind] in H; try discriminate H.
          apply fallback_leg in F; [|exact Hg]. destruct F as (-> & Hmv & Ft & Fp). walk.
          apply Z.eqb_eq in C0. subst mv. unrev.
          apply Fin; auto.
          -- destruct Hs1 as [A B]. split; congruence.
          -- destruct (hd_playable _ _ Hmv) as [->|Hi]; [left; split; reflexivity|right; split; [exact Hi|left; reflexivity]].
          -- (* the move was null: no non-empty variation has been reported (its first move would be playable) *)
             unfold head_rel in *. cbn [last_pv] in *.
             assert (Hn : last_pv reps = None \/ exists m0 l, last_pv reps = Some (m0 :: l) /\ In m0 (map zN (Movegen.playable zob b))).
             { clear -Hl. induction reps as [|x reps IHr]; [left; reflexivity|]. apply Forall_cons_iff in Hl. destruct Hl as [Hx Hl].
               destruct x as [dd ss nn hh [|m0 l]|dd nn]; cbn [last_pv]; auto. right. exists m0, l. split; [reflexivity|]. cbn in Hx. tauto. }
             destruct Hn as [Hn|(m0 & l & Hn & Hi)]; rewrite Hn in *.
             ++ split; [reflexivity|right; exact Hmv].
             ++ exfalso. apply (zero_not_playable b Hg). destruct l as [|p0 l]; destruct Hh as [<- _]; exact Hi.
        * walk. unrev. now apply Fin.
  Qed.
End Deepen.

(* ---- Search.Go ---- *)

Lemma refresh_ok st : state_ok st -> state_ok (refresh st).
Proof. intros H. exact H. Qed.

Theorem go_leg fuel o st b r st' b' : good b -> state_ok st -> go fuel o st b = Ok (r, st', b') ->
  b' = b /\ state_ok st' /\ mvpd_ok b (r_move r) (r_ponder r) /\ Forall (line_ok b) (r_reports r) /\
  head_rel b (rev (r_reports r)) (r_move r) (r_ponder r).
Proof.
  intros Hg Hs H. unfold go, iterative_deepen in H. walk.
  match goal with E : deepen _ _ _ _ _ _ _ _ _ _ _ _ = Ok _ |- _ =>
    apply deepen_leg in E; [|exact Hg|apply refresh_ok; exact Hs|left; split; reflexivity|constructor| ] end.
  - destruct E as (-> & Hs' & Hm & Hl & Hh). splits; auto.
  - unfold head_rel. cbn. auto.
Qed.

(* ---- the engine state invariant at the API ---- *)

Lemma new_state_ok size st : new_state size = Ok st -> tt_ok (s_tt st) /\ PvProofs.wf (s_pv st).
Proof.
  unfold new_state. intros H. walk. cbn [s_tt s_pv]. split; [eapply tt_ok_new; eassumption|exact PvProofs.wf_new].
Qed.

Lemma clear_state_ok st : PvProofs.wf (s_pv st) -> tt_ok (s_tt (clear_state st)) /\ PvProofs.wf (s_pv (clear_state st)).
Proof. intros H. unfold clear_state. cbn [s_tt s_pv set_rk set_tt set_gen]. split; [apply tt_ok_clear|exact H]. Qed.

(* Layer B's vocabulary (Proofs/SearchModelId.v): the legal root moves are the playable moves *)
Lemma filter_map {A B} (f : B -> bool) (g : A -> B) l : filter f (map g l) = map g (filter (fun x => f (g x)) l).
Proof. induction l as [|a l IH]; cbn [map filter]; [reflexivity|]. destruct (f (g a)); cbn [map]; now rewrite IH. Qed.

Lemma root_filter_playable b :
  filter (SearchModelId.root_legal b) (SearchModelId.root_moves b) = map Z.of_N (Movegen.playable zob b).
Proof.
  unfold SearchModelId.root_moves, Movegen.playable. rewrite filter_map. change zN with Z.of_N. f_equal.
  apply filter_ext. intros m. unfold SearchModelId.root_legal. rewrite N2Z.id, GenMake.make_stm, SpecLemmas.flip_flip. reflexivity.
Qed.
