(* C06 on the closed executable model of the whole search (Model/Search.v), main clause:
   THE MOVE Search.Go RETURNS IS THE NULL MOVE OR A PLAYABLE (= legal, C01) MOVE OF THE ROOT.
   This is Layer B's oracle hypothesis `head_playable` (Properties/C06.v, C06_move) proved for the
   model's own alphaBeta, together with the abort fallback - so C06's first clause is a theorem about a
   model whose whole searches are compared with the engine's on every run (stream "search").

   Hypotheses, all of them about the INPUT of Search.Go:
     Rep b, valid (abs b)     the root is a representable valid position (the property's domain);
     tt_ok (s_tt st)          every move stored in the transposition table is a 15-bit encoding.
                              Needed: IsPseudoLegal ignores bit 15 of an encoding, so a table holding a
                              move with that bit set lets the search play and return an encoding the
                              generator never emits.  The search keeps the invariant (it only stores
                              moves the picker handed to it): C06_model_state_kept; a new or cleared
                              engine state has it: C06_model_state_new;
     PvProofs.wf (s_pv st)    the PV buffer has its fixed lengths and line lengths within bounds (true of
                              the zero value, kept by the search).
   No hypothesis on limits, fuel, history tables, abort point.  The theorems speak about runs with outcome
   Ok; for the outcome OutOfFuel see C06_model_fuel_* below.
   Statements only; proofs in Proofs/SearchModelLegal*.v. *)
From Coq Require Import NArith ZArith List Bool.
From Chess3 Require Import Base.Bits Model.Types Model.BoardDef Model.Board Model.Movegen Model.Search
  Spec.Chess Spec.Rep Proofs.BoardExamples Proofs.SearchModelLegalBase Proofs.SearchModelLegal Proofs.SearchModelLegalId Proofs.SearchModelLegalNull Proofs.SearchModelLegalFuel.
From Chess3 Require Model.TT Model.Pv Model.IterDeepen Proofs.PvProofs Proofs.SearchModelId.
Import ListNotations.
Open Scope Z_scope.

Theorem C06_model_move_playable :
  forall fuel o st b r st' b',
  Rep b -> valid (abs b) = true -> tt_ok (s_tt st) -> PvProofs.wf (s_pv st) ->
  go fuel o st b = Ok (r, st', b') ->
  r_move r = 0 \/ In (r_move r) (map Z.of_N (playable zob b)).
Proof.
  intros fuel o st b r st' b' HR HV Ht Hw H.
  destruct (go_leg fuel o st b r st' b' (conj HR HV) (conj Ht Hw) H) as (_ & _ & Hm & _).
  destruct Hm as [[Hm _]|[Hm _]]; [left|right]; exact Hm.
Qed.
Print Assumptions C06_model_move_playable.

(* the same in the vocabulary of Layer B (Properties/C06.v C06_move: `filter legal root_moves`) *)
Theorem C06_model_move_layer_b :
  forall fuel o st b r st' b',
  Rep b -> valid (abs b) = true -> tt_ok (s_tt st) -> PvProofs.wf (s_pv st) ->
  go fuel o st b = Ok (r, st', b') ->
  r_move r = 0 \/ In (r_move r) (filter (SearchModelId.root_legal b) (SearchModelId.root_moves b)).
Proof.
  intros fuel o st b r st' b' HR HV Ht Hw H. rewrite root_filter_playable.
  destruct (go_leg fuel o st b r st' b' (conj HR HV) (conj Ht Hw) H) as (_ & _ & Hm & _).
  destruct Hm as [[Hm _]|[Hm _]]; [left|right]; exact Hm.
Qed.
Print Assumptions C06_model_move_layer_b.

(* Layer B's oracle hypothesis itself (`head_playable`, the first hypothesis of C06_move / C06_null_only_final /
   C07_best in Properties/C06.v, C07.v), for the model's oracle ask_model (Proofs/SearchModelId.v) on the
   states the search is in: an answer with a non-empty line has a playable head, and the oracle's next
   state is again such a state on the same board *)
Theorem C06_model_head_playable :
  forall fuel o st b al be d s m rest n x',
  Rep b -> valid (abs b) = true -> tt_ok (s_tt st) -> PvProofs.wf (s_pv st) ->
  SearchModelId.ask_model fuel o (Ok (st, b)) al be d = (IterDeepen.AbValue s (m :: rest) n, x') ->
  In m (filter (SearchModelId.root_legal b) (SearchModelId.root_moves b)) /\
  exists st', x' = Ok (st', b) /\ tt_ok (s_tt st') /\ PvProofs.wf (s_pv st').
Proof.
  intros fuel o st b al be d s m rest n x' HR HV Ht Hw H. unfold SearchModelId.ask_model in H.
  destruct (alphaBeta fuel o st b al be d 0 SearchParams.PVNode) as [[[v st1] b1]| |] eqn:E; try discriminate H.
  destruct (alphaBeta_leg o fuel st b al be d 0 _ v st1 b1 (conj HR HV) (conj Ht Hw) ltac:(split; discriminate) E)
    as (-> & _ & [Ht' Hw'] & Hz & _).
  destruct (s_aborted st1); [discriminate H|]. injection H as _ Hpv _ <-.
  change (Pv.active (s_pv st1)) with (Pv.line (s_pv st1) 0) in Hpv. rewrite Hpv in Hz. destruct Hz as [Hm _].
  rewrite root_filter_playable. split; [exact Hm|]. exists st1. auto.
Qed.
Print Assumptions C06_model_head_playable.

(* the ply-0 invariant behind it: whatever window, depth, node type: after a root call the line of ply
   0 is a line of playable moves from the root (in particular empty or headed by a playable move), the
   board is the one passed in, and the state is again of the kind the theorem asks for *)
Theorem C06_model_root_call :
  forall fuel o st b al be d nt v st' b',
  Rep b -> valid (abs b) = true -> tt_ok (s_tt st) -> PvProofs.wf (s_pv st) ->
  alphaBeta fuel o st b al be d 0 nt = Ok (v, st', b') ->
  b' = b /\ tt_ok (s_tt st') /\ PvProofs.wf (s_pv st') /\ zline b (Pv.active (s_pv st')).
Proof.
  intros fuel o st b al be d nt v st' b' HR HV Ht Hw H.
  destruct (alphaBeta_leg o fuel st b al be d 0 nt v st' b' (conj HR HV) (conj Ht Hw) ltac:(split; discriminate) H)
    as (E & _ & [Ht' Hw'] & Hz & _).
  exact (conj E (conj Ht' (conj Hw' Hz))).
Qed.
Print Assumptions C06_model_root_call.

(* the hypotheses on the engine state are an invariant of the engine: true of search.New and after
   Search.Clear, kept by every Search.Go *)
Theorem C06_model_state_new : forall size st, new_state size = Ok st -> tt_ok (s_tt st) /\ PvProofs.wf (s_pv st).
Proof. exact new_state_ok. Qed.
Print Assumptions C06_model_state_new.

Theorem C06_model_state_cleared : forall st, PvProofs.wf (s_pv st) ->
  tt_ok (s_tt (clear_state st)) /\ PvProofs.wf (s_pv (clear_state st)).
Proof. exact clear_state_ok. Qed.
Print Assumptions C06_model_state_cleared.

Theorem C06_model_state_kept :
  forall fuel o st b r st' b',
  Rep b -> valid (abs b) = true -> tt_ok (s_tt st) -> PvProofs.wf (s_pv st) ->
  go fuel o st b = Ok (r, st', b') ->
  b' = b /\ tt_ok (s_tt st') /\ PvProofs.wf (s_pv st').
Proof.
  intros fuel o st b r st' b' HR HV Ht Hw H.
  destruct (go_leg fuel o st b r st' b' (conj HR HV) (conj Ht Hw) H) as (E & [Ht' Hw'] & _).
  exact (conj E (conj Ht' Hw')).
Qed.
Print Assumptions C06_model_state_kept.

(* ------------------------------------------------------------------------------------------ *)
(* second clause: the null move only on a final root.

   FULL STATEMENT (not proved).  tt_values_ok: every value stored in the table lies in [-Inf, Inf]. *)
Definition C06_model_null_only_final_statement : Prop :=
  forall fuel o st b r st' b',
  Rep b -> valid (abs b) = true -> tt_ok (s_tt st) -> tt_values_ok (s_tt st) -> PvProofs.wf (s_pv st) ->
  1 <= o_depth o -> go fuel o st b = Ok (r, st', b') -> s_aborted st' = false -> r_move r = 0 ->
  playable zob b = [] \/ 100 <= fifty b \/ 3 <= threefold b.

(* PROVED: a classification of every way the model can return the null move when it was not aborted and the
   depth limit is at least 1.  The iteration of depth 1 was accepted (not aborted, value strictly inside
   its window) with an empty line, and then
     - the fifty-move clock is >= 100, or the position occurred three times, or
     - the accepted value is the mate / stalemate score: the root's move loop ended without a legal move
       (equal to "no playable move" given that the picker hands out every generated move: C16), or
     - ANOMALY 1 [bad_ply1]: some search one ply below the root, not aborted, returned a value v whose
       negation is below -Inf (v > Inf or v = -32768).  This is how a table entry with an out-of-range
       value acts (commit d1717eb); excluding it for sane tables needs bounds on ALL values of the
       search (ply-relative, because of the mate-distance adjustment of stored values), which in turn
       need a bound on the nesting of quiescence - not proved;
     - ANOMALY 2: the accepted root call of depth 1 had beta > 32053, where reverse futility pruning's
       beta + depth*102 leaves int16.  It needs about nine re-searches of the iteration with values
       above Inf.
   No hypothesis on the table's values: the theorem says what can go wrong, not that it does not. *)
Theorem C06_model_null_only_final_partial :
  forall fuel o st b r st' b',
  Rep b -> valid (abs b) = true -> tt_ok (s_tt st) -> PvProofs.wf (s_pv st) -> 1 <= o_depth o ->
  go (S fuel) o st b = Ok (r, st', b') -> s_aborted st' = false -> r_move r = 0 ->
  100 <= fifty b \/ 3 <= threefold b
  \/ (exists s st1, accepted (S fuel) o b 1 s st1 /\ Pv.active (s_pv st1) = [] /\ s = terminal_score (in_check b (stm b)))
  \/ bad_ply1 fuel o
  \/ (exists s st1 st0 al be, alphaBeta (S fuel) o st0 b al be 1 0 SearchParams.PVNode = Ok (s, st1, b) /\ 32053 < be).
Proof.
  intros fuel o st b r st' b' HR HV Ht Hw Hd. exact (go_null_classified fuel o st b r st' b' (conj HR HV) (conj Ht Hw) Hd).
Qed.
Print Assumptions C06_model_null_only_final_partial.

(* the same for ONE root call, any depth >= 1 and any window with -32768 <= beta <= 32053 *)
Theorem C06_model_root_null_classified :
  forall fuel o st b al be d v st' b',
  Rep b -> valid (abs b) = true -> tt_ok (s_tt st) -> PvProofs.wf (s_pv st) -> 1 <= d -> -32768 <= be <= 32053 ->
  alphaBeta (S fuel) o st b al be d 0 SearchParams.PVNode = Ok (v, st', b') ->
  s_aborted st' = false -> al < v < be -> Pv.active (s_pv st') = [] ->
  bad_ply1 fuel o \/ 100 <= fifty b \/ 3 <= threefold b \/ v = terminal_score (in_check b (stm b)).
Proof.
  intros fuel o st b al be d v st' b' HR HV Ht Hw. exact (alphaBeta_null fuel o st b al be d v st' b' (conj HR HV) (conj Ht Hw)).
Qed.
Print Assumptions C06_model_root_null_classified.

(* the decision-layer part alone: null move, not aborted, depth limit >= 1 => the iteration of depth 1 was
   accepted with an empty line (this is Layer B's `root_final` premise, Properties/C06.v) *)
Theorem C06_model_null_accepted_empty :
  forall fuel o st b r st' b',
  Rep b -> valid (abs b) = true -> tt_ok (s_tt st) -> PvProofs.wf (s_pv st) -> 1 <= o_depth o ->
  go fuel o st b = Ok (r, st', b') -> s_aborted st' = false -> r_move r = 0 ->
  exists s st1, accepted fuel o b 1 s st1 /\ Pv.active (s_pv st1) = [].
Proof.
  intros fuel o st b r st' b' HR HV Ht Hw Hd. exact (go_null_accepted fuel o st b r st' b' (conj HR HV) (conj Ht Hw) Hd).
Qed.
Print Assumptions C06_model_null_accepted_empty.

(* non-vacuity: a stalemated and a checkmated root (white Kh1 against Qf2 / Qg2 and Kg3): valid, no
   playable move; the model returns the null move, not aborted, with the score 0 / -Inf *)
Definition ex_stalemate : board := board_of [0; 0; 0; 0; 8192; 4194432]%N 128 4202496 White 0 0.
Definition ex_checkmate : board := board_of [0; 0; 0; 0; 16384; 4194432]%N 128 4210688 White 0 0.

Example C06_model2_final_roots :
  Rep ex_stalemate /\ valid (abs ex_stalemate) = true /\ playable zob ex_stalemate = [] /\
  Rep ex_checkmate /\ valid (abs ex_checkmate) = true /\ playable zob ex_checkmate = [] /\
  match new_state 32000 with
  | Ok s0 =>
      match go search_fuel (mkO (-1) (-1) 3) s0 ex_stalemate, go search_fuel (mkO (-1) (-1) 3) s0 ex_checkmate with
      | Ok (r, s1, _), Ok (r2, s2, _) =>
          r_move r = 0 /\ s_aborted s1 = false /\ r_score r = terminal_score (in_check ex_stalemate White) /\ r_score r = 0 /\
          r_move r2 = 0 /\ s_aborted s2 = false /\ r_score r2 = terminal_score (in_check ex_checkmate White) /\ r_score r2 = -10000
      | _, _ => False end
  | _ => False end.
Proof. vm_compute. repeat split; reflexivity. Qed.

(* ------------------------------------------------------------------------------------------ *)
(* the outcome OutOfFuel (the model's recursion fuel and loop counters; the Go code has neither).
   Proved: alphaBeta stops nesting at ply 63 (so 64 - ply units pay for the alphaBeta part of any line);
   the counter of quiescence's move loop never runs out. *)
Theorem C06_model_fuel_alphaBeta_depth : forall f o st b al be d nt,
  alphaBeta (S f) o st b al be d 63 nt =
  (do pv1 <- of_opt (Pv.set_null (s_pv st) 63);; quiescence f o (set_pv st pv1) b al be 63).
Proof. exact alphaBeta_at_max_ply. Qed.
Print Assumptions C06_model_fuel_alphaBeta_depth.

Theorem C06_model_fuel_quiescence_loop : forall qchild st b al be ply standPat,
  qs_pushed qchild st b al be ply standPat = OutOfFuel ->
  exists st1 b1 al1 be1 ply1, qchild st1 b1 al1 be1 ply1 = OutOfFuel.
Proof. exact qs_pushed_counter. Qed.
Print Assumptions C06_model_fuel_quiescence_loop.

(* NOT proved: OutOfFuel never happens with the fuel Search.Go is run with.  Missing: quiescence nests at
   most 48 deep on a valid position (every move it plays captures or promotes; GenNoisy is not
   characterised anywhere), a valid position has at most 398 generated moves (move loop counter 400),
   an iteration needs fewer than 64 re-searches (needs bounds on the values of the search). *)
Definition C06_model_no_out_of_fuel_statement : Prop := no_out_of_fuel_statement.
Definition C06_model_quiescence_depth_statement : Prop := quiescence_depth_statement.
Definition C06_model_gen_count_statement : Prop := gen_count_statement.

(* the table hypothesis cannot be dropped: IsPseudoLegal accepts e2e4 with bit 15 set on the start
   position, and that encoding is not a generated move *)
Example C06_model_bit15_accepted :
  is_pseudo_legal ex_start (e2e4 + 32768) = true /\ ~ In (e2e4 + 32768)%N (gen_all ex_start).
Proof.
  split; [vm_compute; reflexivity|]. intros H.
  assert (F : existsb (N.eqb (e2e4 + 32768)) (gen_all ex_start) = false) by (vm_compute; reflexivity).
  assert (T : existsb (N.eqb (e2e4 + 32768)) (gen_all ex_start) = true); [|congruence].
  apply existsb_exists. exists (e2e4 + 32768)%N. split; [exact H|apply N.eqb_refl].
Qed.

(* ... and with such a move in the table the conclusion fails on the model: a new engine state whose table got
   one entry for the start position holding g1f3 (731, the model's own depth-1 choice) with bit 15 set;
   Search.Go (depth 1) returns the encoding 33499 = 731 + 32768, which is not a playable move.  (The engine
   cannot get into this state by itself: C06_model_state_kept.) *)
Definition poisoned_state : res sstate :=
  match new_state 32000 with
  | Ok s0 => Ok (set_tt s0 (TT.insert (s_tt s0) (zN (cur_hash ex_start)) 0 1 0 (731 + 32768) 0 SearchParams.Exact))
  | _ => Panic
  end.

Example C06_model_move_playable_needs_tt_ok :
  match poisoned_state with
  | Ok s0 =>
      s_pv s0 = Pv.new_pv /\       (* well-formed: PvProofs.wf_new *)
      match go search_fuel (mkO (-1) (-1) 1) s0 ex_start with
      | Ok (r, _, _) => r_move r = 33499 /\ existsb (Z.eqb (r_move r)) (map Z.of_N (playable zob ex_start)) = false
      | _ => False end
  | _ => False end.
Proof. vm_compute. repeat split; reflexivity. Qed.

(* non-vacuity: the start position with a new engine state meets the hypotheses; a real run of the model
   (depth 2) returns a playable move, and an aborted run (3 nodes: no iteration completes with a move)
   returns the fallback move, which is playable too *)
Example C06_model2_hypotheses :
  Rep ex_start /\ valid (abs ex_start) = true /\
  match new_state 32000 with Ok s0 => tt_ok (s_tt s0) /\ PvProofs.wf (s_pv s0) | _ => False end.
Proof.
  split; [vm_compute; reflexivity|]. split; [vm_compute; reflexivity|].
  destruct (new_state 32000) as [s0| |] eqn:E; [exact (new_state_ok _ _ E)|vm_compute in E; discriminate E..].
Qed.

Example C06_model2_run :
  match new_state 32000 with
  | Ok s0 =>
      match go search_fuel (mkO (-1) (-1) 2) s0 ex_start, go search_fuel (mkO 3 (-1) 5) s0 ex_start with
      | Ok (r, _, _), Ok (r2, s2, _) =>
          existsb (Z.eqb (r_move r)) (map Z.of_N (playable zob ex_start)) = true /\ r_move r <> 0 /\
          s_aborted s2 = true /\ existsb (Z.eqb (r_move r2)) (map Z.of_N (playable zob ex_start)) = true /\ r_move r2 <> 0
      | _, _ => False end
  | _ => False end.
Proof. vm_compute. repeat split; discriminate. Qed.
