(* Faster oracles for the C01 streams.  [legal_moves_fast] enumerates the candidate encodings only for
   from-squares that hold a piece of the side to move (every other candidate is rejected by the first
   test of [pseudo_spec]); Proofs/JudgeC01.v proves [legal_moves_fast p = legal_moves p], and that the
   judges below answer exactly like the plain ones of Spec/ChessJudge.v and Spec/PerftSpec.v.
   [judge_c01x] additionally reports (clause 8) a board that does not satisfy the representation
   invariant [rep_ok] - the hypothesis [Rep b] of the theorems - before judging the moves.
   Definitions only. *)
From Coq Require Import NArith ZArith List Bool.
From Chess3 Require Import Base.Bits Model.Types Spec.Geometry Model.BoardDef Spec.Chess Spec.Rep
  Spec.ChessJudge Spec.PerftSpec.
Import ListNotations.
Open Scope Z_scope.

Definition moves_from (from : N) : list N :=
  flat_map (fun to => map (fun pr => mk_move from to pr) [0; Knight; Bishop; Rook; Queen]%N) squares64.

Definition legal_moves_fast (p : pos) : list N :=
  flat_map (fun from => if owned_by p from (turn p) then filter (legal_spec p) (moves_from from) else [])
           squares64.

(* judge for stream "gen": as judge_c01, plus clause 8 = the board violates rep_ok *)
Definition judge_c01x (l : list Z) : list Z :=
  match decode_board l with
  | Some (b, rest) =>
      let p := abs b in
      if negb (rep_ok b) then [0; 8] else
      if negb (valid p) then [1] else
      let '(_, r1) := take_counted rest in
      let '(_, r2) := take_counted r1 in
      let '(pl, _) := take_counted r2 in
      let pl := map Z.to_N pl in
      let lg := legal_moves_fast p in
      if negb (subset pl lg) then [0; 1]
      else if negb (subset lg pl) then [0; 2]
      else if negb (nodup_b pl) then [0; 3]
      else [1]
  | None => [0; 9]
  end.

Fixpoint perft_fast (d : nat) (p : pos) : Z :=
  match d with
  | O => 1
  | S O => Z.of_nat (length (legal_moves_fast p))
  | S d' => fold_left (fun acc m => acc + perft_fast d' (succ_spec p m)) (legal_moves_fast p) 0
  end.

Definition judge_perftx (l : list Z) : list Z :=
  match decode_board l with
  | Some (b, d :: n :: _) =>
      if negb ((0 <=? d) && (d <=? max_perft_depth)) then [0; 9]
      else if negb (valid (abs b)) then [1]
      else if perft_fast (Z.to_nat d) (abs b) =? n then [1] else [0; 1]
  | _ => [0; 9]
  end.
