(* C01 / C05: the generated moves are exactly the moves of [pseudo_spec] ([gen_iff_spec], the lemma
   shared with C05), the generator is duplicate free, and the playable moves are exactly the legal
   moves - final assembly with the castling clause of Proofs/GenCastle.v.

   The engine-side invariant needed is [MRep] (GenLegal.v): [Rep] without the hash history and the
   clock.  GenCastle.v is stated for [Rep]; it is applied to [norm2 b], the same board with those two
   fields reset, which the generator and the specification cannot tell from [b]. *)
From Coq Require Import NArith ZArith List Bool Lia.
From Chess3 Require Import Base.Bits Model.Types Spec.Geometry Model.Att Model.BoardDef Model.Board
  Model.Movegen Spec.Chess Spec.Rep Proofs.GenBase Proofs.GenRep Proofs.GenSpecPre Proofs.GenNoDup Proofs.GenLegal.
From Chess3 Require Proofs.GenCastle.
Import ListNotations.
Open Scope N_scope.

Definition norm2 (b : board) : board :=
  mkBoard (sq2p b) (pcs b) (cols b) [0] (full b) (stm b) (ep b) (castles b) 0%Z.

Lemma MRep_norm2 b : MRep b -> Rep (norm2 b).
Proof.
  intros [HP [He Hc]]. unfold PRep, prep_ok in HP. unfold Rep, rep_ok.
  rewrite !andb_true_iff in HP. rewrite !andb_true_iff. cbn [sq2p pcs cols hashes ep castles fifty norm2].
  apply N.ltb_lt in He, Hc.
  repeat split; try tauto; try reflexivity.
Qed.
Lemma castle_lists_norm2 b : castle_lists (norm2 b) = castle_lists b.
Proof. reflexivity. Qed.

Ltac pos_unfold := unfold valid, material_ok, count, no_pawn_on_edge, rights_consistent, ep_ok, castle_ok, in_check_spec, king_sq,
  attacked_by, occ_of, empty, holds, owned_by, has_right, who, with_placement; cbn [at_ turn rights epsq half fullm].

Lemma valid_congr p q : at_ p = at_ q -> turn p = turn q -> rights p = rights q -> epsq p = epsq q -> valid p = valid q.
Proof.
  destruct p as [a t r e h f], q as [a' t' r' e' h' f']. cbn [at_ turn rights epsq]. intros -> -> -> ->. pos_unfold. reflexivity.
Qed.
Lemma castle_ok_congr p q long : at_ p = at_ q -> turn p = turn q -> rights p = rights q -> castle_ok p long = castle_ok q long.
Proof.
  destruct p as [a t r e h f], q as [a' t' r' e' h' f']. cbn [at_ turn rights epsq]. intros -> -> ->. pos_unfold. reflexivity.
Qed.
Lemma holds_congr p q s c k : at_ p = at_ q -> holds p s c k = holds q s c k.
Proof. unfold holds, who. intros ->. reflexivity. Qed.
Lemma at_norm2 b : at_ (abs (norm2 b)) = at_ (abs b).
Proof. reflexivity. Qed.

Lemma valid_norm2 b : valid (abs (norm2 b)) = valid (abs b).
Proof. apply valid_congr; [apply at_norm2|reflexivity|reflexivity|reflexivity]. Qed.

Lemma castle_clause_norm2 b m : castle_clause (norm2 b) m <-> castle_clause b m.
Proof.
  unfold castle_clause. change (stm (norm2 b)) with (stm b).
  rewrite (holds_congr (abs (norm2 b)) (abs b) _ _ _ (at_norm2 b)).
  rewrite !(castle_ok_congr (abs (norm2 b)) (abs b) _ (at_norm2 b) eq_refl eq_refl). tauto.
Qed.

Lemma castle_spec_M b m : MRep b -> valid (abs b) = true -> m < 32768 ->
  (In m (castle_lists b) <-> castle_clause b m).
Proof.
  intros HM HV Hm. rewrite <- castle_lists_norm2, <- castle_clause_norm2.
  apply (GenCastle.gen_castle_spec (norm2 b) m (MRep_norm2 b HM)); [rewrite valid_norm2; exact HV|exact Hm].
Qed.

Lemma castle_NoDup_M b : MRep b -> valid (abs b) = true -> NoDup (castle_lists b).
Proof.
  intros HM HV. rewrite <- castle_lists_norm2.
  apply (GenCastle.gen_castle_NoDup (norm2 b) (MRep_norm2 b HM)). rewrite valid_norm2. exact HV.
Qed.

(* the generated moves are exactly the pseudo-legal moves of the specification *)
Lemma gen_iff_spec_M : forall b m, MRep b -> valid (abs b) = true -> m < 32768 ->
  (In m (gen_all b) <-> pseudo_spec (abs b) m = true).
Proof.
  intros b m HM HV Hm. apply (gen_iff_spec_P b (proj1 HM) HV); [|exact Hm].
  intros m' Hm'. apply castle_spec_M; assumption.
Qed.

Lemma gen_iff_spec : forall b m, Rep b -> valid (abs b) = true -> m < 32768 ->
  (In m (gen_all b) <-> pseudo_spec (abs b) m = true).
Proof. intros b m HR. apply gen_iff_spec_M. apply Rep_MRep. exact HR. Qed.

Lemma gen_all_NoDup : forall b, MRep b -> valid (abs b) = true -> NoDup (gen_all b).
Proof.
  intros b HM HV. apply (gen_all_NoDup_P b (proj1 HM) HV).
  - intros m Hm. apply castle_spec_M; assumption.
  - apply castle_NoDup_M; assumption.
Qed.

(* C01 for a board satisfying MRep *)
Theorem playable_legal_M : forall z b, MRep b -> valid (abs b) = true ->
  (forall m, In m (playable z b) <-> (m < 32768 /\ legal_spec (abs b) m = true)) /\ NoDup (playable z b).
Proof.
  intros z b HM HV. split.
  - intros m. apply (playable_iff_P z b (proj1 HM) HV). intros m' Hm'. apply castle_spec_M; assumption.
  - apply (playable_NoDup_P z b (proj1 HM) HV).
    + intros m' Hm'. apply castle_spec_M; assumption.
    + apply castle_NoDup_M; assumption.
Qed.
