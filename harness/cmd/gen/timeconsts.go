package main

import "github.com/paulsonkoly/chess-3/uci"

func init() {
	generators = append(generators, func() {
		f := newFile("TimeConsts.v", "From Coq Require Import ZArith.\nOpen Scope Z_scope.")
		f.p("Definition TimeSafetyMargin : Z := %d.\n", int64(uci.TimeSafetyMargin))
		f.p("Definition PredictedMoves : Z := %d.\n", int64(uci.PredictedMoves))
		f.p("Definition TimeInf : Z := %d.\n", int64(uci.TimeInf))
	})
}
