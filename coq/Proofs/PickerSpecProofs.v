(* The judge's "every generated move exactly once" test (Spec/PickerSpec.v) means what it says. *)
From Coq Require Import ZArith Lia Bool List Permutation.
Import ListNotations.
From Chess3 Require Import Gen.HeurConsts Spec.PickerSpec.
Open Scope Z_scope.

Lemma insert_sorted_perm x l : Permutation (x :: l) (insert_sorted x l).
Proof.
  induction l as [|y t IH]; cbn [insert_sorted]; [apply Permutation_refl|].
  destruct (x <=? y); [apply Permutation_refl|].
  eapply Permutation_trans; [apply perm_swap|]. apply perm_skip. exact IH.
Qed.

Lemma sort_z_perm l : Permutation l (sort_z l).
Proof.
  induction l as [|x l IH]; cbn; [constructor|].
  eapply Permutation_trans; [apply perm_skip; exact IH|]. apply insert_sorted_perm.
Qed.

Lemma list_eqb_eq a : forall b, list_eqb a b = true -> a = b.
Proof.
  induction a as [|x a IH]; intros [|y b] H; cbn in H; try discriminate; [reflexivity|].
  apply andb_true_iff in H. destruct H as [H1 H2]. apply Z.eqb_eq in H1. subst. f_equal. now apply IH.
Qed.

Lemma strictly_increasing_lb l : forall x, strictly_increasing (x :: l) = true -> forall y, In y l -> x < y.
Proof.
  induction l as [|z l IH]; intros x H y Hin; [contradiction|].
  cbn [strictly_increasing] in H. apply andb_true_iff in H. destruct H as [H1 H2]. apply Z.ltb_lt in H1.
  destruct Hin as [<-|Hin]; [exact H1|]. specialize (IH z H2 y Hin). lia.
Qed.

Lemma strictly_increasing_nodup l : strictly_increasing l = true -> NoDup l.
Proof.
  induction l as [|x l IH]; intros H; [constructor|]. constructor.
  - intros Hin. pose proof (strictly_increasing_lb l x H x Hin). lia.
  - apply IH. destruct l as [|y l]; [reflexivity|]. cbn [strictly_increasing] in H.
    apply andb_true_iff in H. apply H.
Qed.

(* soundness of the judge's oracle *)
Theorem exactly_once_sound yielded generated : exactly_once yielded generated = true ->
  Permutation yielded generated /\ NoDup yielded /\ NoDup generated.
Proof.
  unfold exactly_once. intros H. apply andb_true_iff in H. destruct H as [He Hs].
  apply list_eqb_eq in He. apply strictly_increasing_nodup in Hs.
  assert (Hp : Permutation yielded generated).
  { eapply Permutation_trans; [apply sort_z_perm|]. rewrite He. apply Permutation_sym, sort_z_perm. }
  split; [exact Hp|]. 
  assert (Hy : NoDup yielded).
  { eapply Permutation_NoDup; [apply Permutation_sym, sort_z_perm|exact Hs]. }
  split; [exact Hy|]. eapply Permutation_NoDup; eassumption.
Qed.

(* and completeness: a duplicate-free rearrangement is accepted *)
Lemma insert_sorted_sorted x l : strictly_increasing l = true -> ~ In x l -> strictly_increasing (insert_sorted x l) = true.
Proof.
  induction l as [|y t IH]; intros Hs Hn; cbn [insert_sorted]; [reflexivity|].
  destruct (x <=? y) eqn:E.
  - apply Z.leb_le in E. cbn [strictly_increasing]. apply andb_true_iff. split; [|exact Hs].
    apply Z.ltb_lt. assert (x <> y) by (intros ->; apply Hn; now left). lia.
  - apply Z.leb_gt in E.
    assert (Ht : strictly_increasing t = true).
    { destruct t as [|z t]; [reflexivity|]. cbn [strictly_increasing] in Hs. apply andb_true_iff in Hs. apply Hs. }
    assert (IH' := IH Ht (fun H => Hn (or_intror H))).
    destruct t as [|z t].
    + cbn. apply andb_true_iff. split; [now apply Z.ltb_lt|reflexivity].
    + cbn [insert_sorted] in *. cbn [strictly_increasing] in Hs. apply andb_true_iff in Hs. destruct Hs as [Hyz Hs].
      destruct (x <=? z); cbn [strictly_increasing]; apply andb_true_iff; split; try (apply Z.ltb_lt; lia); auto.
Qed.

Lemma sort_z_sorted l : NoDup l -> strictly_increasing (sort_z l) = true.
Proof.
  induction 1 as [|x l Hn _ IH]; cbn; [reflexivity|].
  apply insert_sorted_sorted; [exact IH|]. intros Hin. apply Hn.
  eapply Permutation_in; [apply Permutation_sym, sort_z_perm|exact Hin].
Qed.

Lemma sorted_perm_eq : forall a b, strictly_increasing a = true -> strictly_increasing b = true ->
  Permutation a b -> a = b.
Proof.
  induction a as [|x a IH]; intros b Ha Hb Hp.
  - apply Permutation_nil in Hp. now subst.
  - destruct b as [|y b]; [apply Permutation_sym, Permutation_nil in Hp; discriminate|].
    assert (Hxy : x = y).
    { assert (Hx : In x (y :: b)) by (eapply Permutation_in; [exact Hp|now left]).
      assert (Hy : In y (x :: a)) by (eapply Permutation_in; [apply Permutation_sym; exact Hp|now left]).
      destruct Hx as [<-|Hx]; [reflexivity|]. destruct Hy as [<-|Hy]; [reflexivity|].
      pose proof (strictly_increasing_lb b y Hb x Hx). pose proof (strictly_increasing_lb a x Ha y Hy). lia. }
    subst y. f_equal. apply Permutation_cons_inv in Hp.
    apply IH; auto.
    + destruct a as [|z a]; [reflexivity|]. cbn [strictly_increasing] in Ha. apply andb_true_iff in Ha. apply Ha.
    + destruct b as [|z b]; [reflexivity|]. cbn [strictly_increasing] in Hb. apply andb_true_iff in Hb. apply Hb.
Qed.

Lemma list_eqb_refl a : list_eqb a a = true.
Proof. induction a as [|x a IH]; cbn; [reflexivity|]. now rewrite Z.eqb_refl, IH. Qed.

Theorem exactly_once_complete yielded generated :
  Permutation yielded generated -> NoDup generated -> exactly_once yielded generated = true.
Proof.
  intros Hp Hg. assert (Hy : NoDup yielded) by (eapply Permutation_NoDup; [apply Permutation_sym; exact Hp|exact Hg]).
  unfold exactly_once. apply andb_true_iff. split; [|now apply sort_z_sorted].
  replace (sort_z yielded) with (sort_z generated); [apply list_eqb_refl|].
  apply sorted_perm_eq; try now apply sort_z_sorted.
  eapply Permutation_trans; [apply Permutation_sym, sort_z_perm|].
  eapply Permutation_trans; [apply Permutation_sym; exact Hp|apply sort_z_perm].
Qed.
