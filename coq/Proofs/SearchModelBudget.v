(* The node budget on the closed search model (C08): Counters.Nodes never decreases, never passes
   max(its value at the start, the hard budget), and the abort flag is sticky - for quiescence,
   alphaBeta, iterative deepening and Go.  Instance of the generic invariant of Proofs/SearchModelInv.v. *)
From Coq Require Import NArith ZArith List Bool Lia.
From Chess3 Require Import Base.Word Model.BoardDef Model.Board Model.Search Proofs.SearchModelInv.
From Chess3 Require Model.IterDeepen Model.Pv.
Import ListNotations.
Open Scope Z_scope.

Definition budget_rel (o : opts) (s s' : sstate) : Prop :=
  s_nodes s <= s_nodes s'
  /\ (o_nodes o <> -1 -> s_nodes s' <= Z.max (s_nodes s) (o_nodes o))
  /\ (s_aborted s = true -> s_aborted s' = true)
  /\ s_gen s' = s_gen s.

Section Budget.
  Variable o : opts.
  Let R := budget_rel o.

  Lemma bR_refl s : R s s.
  Proof. unfold R, budget_rel. repeat split; auto; lia. Qed.
  Lemma bR_trans a b c : R a b -> R b c -> R a c.
  Proof.
    unfold R, budget_rel. intros (A1 & A2 & A3 & A4) (B1 & B2 & B3 & B4).
    split; [lia|]. split; [intros H; specialize (A2 H); specialize (B2 H); lia|]. split; [auto|congruence].
  Qed.
  Lemma bR_tt s v : R s (set_tt s v). Proof. unfold R, budget_rel; cbn; repeat split; auto; lia. Qed.
  Lemma bR_rk s v : R s (set_rk s v). Proof. unfold R, budget_rel; cbn; repeat split; auto; lia. Qed.
  Lemma bR_ms s v : R s (set_ms s v). Proof. unfold R, budget_rel; cbn; repeat split; auto; lia. Qed.
  Lemma bR_hs s v : R s (set_hs s v). Proof. unfold R, budget_rel; cbn; repeat split; auto; lia. Qed.
  Lemma bR_pv s v : R s (set_pv s v). Proof. unfold R, budget_rel; cbn; repeat split; auto; lia. Qed.
  Lemma bR_trace s v : R s (set_trace s v). Proof. unfold R, budget_rel; cbn; repeat split; auto; lia. Qed.
  Lemma bR_inc s : R s (inc_nodes o s).
  Proof.
    unfold R, budget_rel, inc_nodes, IterDeepen.increment_nodes.
    destruct ((o_nodes o =? -1) || (s_nodes s <? o_nodes o)) eqn:C; cbn [s_nodes s_aborted s_gen set_nodes set_aborted].
    - apply orb_true_iff in C. split; [lia|]. split; [intros H; destruct C as [C|C]; lia|]. split; auto.
    - split; [lia|]. split; [lia|]. split; auto.
  Qed.

  Lemma bR_pv_null s ply v : Pv.set_null (s_pv s) ply = Some v -> R s (set_pv s v).
  Proof. intros _. apply bR_pv. Qed.
  Lemma bR_pv_ins s ply m v : Pv.insert (s_pv s) ply m = Some v -> R s (set_pv s v).
  Proof. intros _. apply bR_pv. Qed.

  Definition ab_budget := alphaBeta_R o R bR_refl bR_trans bR_tt bR_rk bR_ms bR_hs bR_pv_null bR_pv_ins bR_trace bR_inc.
  Definition qs_budget := quiescence_R o R bR_refl bR_trans bR_tt bR_ms bR_trace bR_inc.
  Definition deepen_budget := deepen_R o R bR_refl bR_trans bR_tt bR_rk bR_ms bR_hs bR_pv_null bR_pv_ins bR_trace bR_inc.
End Budget.

Lemma alphaBeta_budget fuel o st b al be d ply nt v st' b' :
  alphaBeta fuel o st b al be d ply nt = Ok (v, st', b') -> budget_rel o st st'.
Proof. apply ab_budget. Qed.

Lemma quiescence_budget fuel o st b al be ply v st' b' :
  quiescence fuel o st b al be ply = Ok (v, st', b') -> budget_rel o st st'.
Proof. apply qs_budget. Qed.

(* Go: refresh lowers the abort flag and the generation counter advances, the node counter is only
   touched by the search *)
Lemma go_budget fuel o st b r st' b' :
  go fuel o st b = Ok (r, st', b') ->
  s_nodes st <= s_nodes st' /\ (o_nodes o <> -1 -> s_nodes st' <= Z.max (s_nodes st) (o_nodes o))
  /\ s_gen st' = Z.land (s_gen st + 1) 255.
Proof.
  intros H. unfold go, iterative_deepen in H. walk.
  match goal with E : deepen _ _ _ _ _ _ _ _ _ _ _ _ = Ok _ |- _ => apply deepen_budget in E; destruct E as (A1 & A2 & _ & A4) end.
  cbn in *. rewrite A4. repeat split; auto.
Qed.
