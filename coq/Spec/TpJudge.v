(* Spec-level judge of the transposition stream mktp (C04), rule-level version (fifth session).
   The two end positions are compared by the position key of the RULES (Spec/Chess.v pos_key: placement,
   side to move, castling rights, en-passant CAPTURABILITY computed from the placement), not by the
   en-passant field the implementation printed: a flag recorded without a legal capture does not make two
   positions different. Verdicts as judge_c04tp: [1] fine, [0;7;0] equal keys with different hashes,
   [0;98;0] malformed. *)
From Coq Require Import ZArith NArith List Bool.
From Chess3 Require Import Model.BoardDef Spec.Chess Spec.SnapJudge.
Import ListNotations.
Open Scope Z_scope.

(* one 16-token record of encode_board_nohist ++ [hash] -> board (no hash history) *)
Definition board_of_rec (r : list Z) : board :=
  let ps := map Z.to_N (takeZ 6 (dropZ 1 r)) in
  mkBoard (sq2p_of_sets ps) (0%N :: ps) [Z.to_N (nthZ r 7); Z.to_N (nthZ r 8)] [] (nthZ r 13)
          (color_of_Z (nthZ r 9)) (Z.to_N (nthZ r 10)) (Z.to_N (nthZ r 11)) (nthZ r 12).

Definition ep_component (r : list Z) : Z :=
  let p := abs (board_of_rec r) in
  match epsq p with
  | Some e => if ep_capturable p e then Z.land (Z.of_N e) 7 else -1
  | None => -1
  end.

Definition tp_key_rules (r : list Z) : list Z :=
  takeZ 10 r ++ [nthZ r 11; nthZ r 14; ep_component r].

Definition judge_c04tp_rules (io : list Z) : list Z :=
  let n := length io in
  if (n <? 32)%nat then [0; 98; 0] else
  let out := skipn (n - 32) io in
  let r1 := takeZ 16 out in
  let r2 := dropZ 16 out in
  match first_diff (tp_key_rules r1) (tp_key_rules r2) 0 with
  | Some _ => [1]
  | None => if nthZ r1 15 =? nthZ r2 15 then [1] else [0; 7; 0]
  end.
