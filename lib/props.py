"""Per-property configuration and the generic run of one property check."""
import json, os, re, time
import vcheck as V


class StreamCfg:
    def __init__(self, name, quick, thorough, judge=None, rule="", model=True, race=False):
        self.name, self.quick, self.thorough, self.judge, self.rule = name, quick, thorough, judge, rule
        self.model = model      # False: implementation-only stream judged by `judge`
        self.race = race


class Prop:
    def __init__(self, pid, title, coq, streams, allowed_axioms=(), trusted=(), assumptions=(),
                 extra=None, classify=None, design_ref=""):
        self.pid, self.title, self.coq, self.streams = pid, title, coq, streams
        self.allowed_axioms = set(allowed_axioms)
        self.trusted, self.assumptions = list(trusted), list(assumptions)
        self.extra = extra          # callable(prop, res) for property specific steps
        self.classify = classify    # callable(witness dict) -> known-finding id or None
        self.design_ref = design_ref


COMMON_TRUSTED = [
    "Coq 8.16.1 kernel (coqc, full .vo build; vm_compute for finite sweeps; no native_compute)",
    "translator /verif/harness/cmd/gen (Go compiler evaluating the repo's own constants through the verif hooks) -> coq/Gen/*.v, regenerated on this run",
    "extraction: Require ExtrOcamlBasic only (its Extract Inductive bool/option/unit/prod/list/sumbool/sumor and Extract Inlined Constant andb/orb/negb/fst/snd...); N, Z, positive, nat stay inductive; generic OCaml driver Extract/driver.ml (hex <-> positive, no arithmetic)",
    "correspondence harness /verif/harness (Go, built from /repo's working tree with -tags verif) and the line diff in lib/vcheck.py",
]

PROPS = {}


def reg(p):
    PROPS[p.pid] = p


# ------------------------------------------------------------------------------------------------
# generic run

def check_obligations(prop, res):
    """Re-check the property's theorems against the regenerated Gen files."""
    rel = prop.coq
    names = V.theorem_names(rel)
    res.obligations = len(names)
    res.theorems = names
    ok, out = V.coq_make([rel[:-2] + ".vo"])
    with open(os.path.join(V.BUILD, "logs", f"{prop.pid}-make.log"), "w") as f:
        f.write(out)
    if not ok:
        loc = V.locate_failure(out) or {"file": rel, "statement": None, "error": out[-800:]}
        res.broken.append({"kind": "obligation", "name": f"{loc.get('file')}:{loc.get('statement')}", "detail": loc})
        V.log(f"proof obligation broken: {loc.get('file')} {loc.get('statement')}")
        return False
    ok, out = V.coqc_file(rel)
    if not ok:
        loc = V.locate_failure(out) or {"file": rel, "statement": None, "error": out[-800:]}
        res.broken.append({"kind": "obligation", "name": f"{loc.get('file')}:{loc.get('statement')}", "detail": loc})
        return False
    blocks = V.parse_assumptions(out)
    axioms = sorted(set(a for b in blocks for a in b))
    res.assumptions = axioms
    res.assumption_blocks = len(blocks)
    unexpected = [a for a in axioms if a not in prop.allowed_axioms]
    if unexpected:
        res.broken.append({"kind": "obligation", "name": "Print Assumptions allow-list",
                           "detail": {"unexpected_axioms": unexpected}})
        return False
    res.discharged = len(names)
    return True


def run_stream(prop, res, sc, workdir):
    n = sc.quick if res.tier == "quick" else sc.thorough
    prefix = os.path.join(workdir, sc.name)
    info = {"stream": sc.name, "requested": n}
    t0 = time.time()
    # corpus (minimised earlier failures) first
    corpus = os.path.join(V.VERIF, "corpus", sc.name + ".in")
    rc, out = V.run_h(["gen", sc.name, str(n), res.tier, prefix], race=sc.race)
    if rc != 0:
        res.broken.append({"kind": "correspondence", "name": f"stream {sc.name}: harness failed",
                           "detail": {"log": out[-2000:]}})
        return info
    if os.path.exists(corpus):
        cin = V.read_lines(corpus)
        cin = [l for l in cin if l.strip() and not l.startswith("#")]
        rc, cout = V.run_h(["run", sc.name], inp="\n".join(cin) + "\n")
        couts = cout.split("\n")[:len(cin)]
        # prepend
        for suf, extra in ((".in", cin), (".impl", couts), (".desc", ["corpus"] * len(cin))):
            body = open(prefix + suf).read()
            with open(prefix + suf, "w") as f:
                f.write("\n".join(extra) + "\n" + body)
        info["corpus"] = len(cin)
    stats = json.load(open(prefix + ".stats.json"))
    info["harness_s"] = round(time.time() - t0, 2)
    ins, impl, desc = (V.read_lines(prefix + s) for s in (".in", ".impl", ".desc"))
    res.evaluations += len(ins)
    res.distinct += stats.get("distinct_nontrivial", 0)
    for k, v in stats.get("tags", {}).items():
        res.tags[f"{sc.name}:{k}"] = v
    if ins:
        for j in (0, len(ins) // 2, len(ins) - 1):
            res.samples.append({"stream": sc.name, "input": desc[j] if j < len(desc) else ins[j], "impl": impl[j][:200]})
    info.update(cases=len(ins), distinct_nontrivial=stats.get("distinct_nontrivial", 0))
    mism = []
    if sc.model:
        t1 = time.time()
        rc, err = V.run_model_sharded(sc.name, prefix + ".in", prefix + ".model")
        info["model_s"] = round(time.time() - t1, 2)
        if rc != 0:
            res.broken.append({"kind": "correspondence", "name": f"stream {sc.name}: modelrun failed",
                               "detail": {"log": err[-2000:]}})
            return info
        n_cmp, mism = V.compare(prefix)
        info["compared"] = n_cmp
        info["mismatches"] = len(mism)
        if mism:
            res.broken.append({"kind": "correspondence", "name": f"stream {sc.name}: model and implementation disagree",
                               "detail": {"count": len(mism), "first": mism[:3]}})
            V.log(f"correspondence {sc.name}: {len(mism)} mismatches, first: {mism[0]['desc']} impl={mism[0]['impl'][:120]} model={mism[0]['model'][:120]}")
    info["_mism"] = mism
    info["_prefix"] = prefix
    return info


def witness_search(prop, res, infos):
    """Run the property judges over everything the streams observed on the implementation."""
    found = 0
    for sc, info in infos:
        if not sc.judge or "_prefix" not in info:
            continue
        prefix = info["_prefix"]
        ins, impl, desc = (V.read_lines(prefix + s) for s in (".in", ".impl", ".desc"))
        bad = V.judge(sc.judge, ins, impl, os.path.dirname(prefix), sc.name)
        info["judged"] = len(ins)
        info["judge_failures"] = len(bad)
        seen = set()
        for idx, verdict in bad:
            w = {"stream": sc.name, "input": ins[idx], "desc": desc[idx] if idx < len(desc) else "",
                 "impl_output": impl[idx], "verdict": verdict,
                 "replay_hint": f"echo '{ins[idx]}' | build/bin/h run {sc.name}"}
            kid = prop.classify(w) if prop.classify else None
            if kid:
                if kid not in seen:
                    seen.add(kid)
                    res.known.append((kid, w))
                continue
            cls = verdict
            if cls in seen:
                continue
            seen.add(cls)
            found += 1
            res.add_violation("witness", w, True)
            if found >= 5:
                break
    return found


def write_evidence(prop, res, infos, checker_cmd):
    cov = {
        "obligations": max(res.obligations, 1),
        "discharged": res.discharged,
        "checker_cmd": checker_cmd,
        "trusted_base": COMMON_TRUSTED + prop.trusted + [
            "axioms reported by Print Assumptions on this run: " + (", ".join(res.assumptions) if res.assumptions else "none (Closed under the global context)")],
        "theorems": getattr(res, "theorems", []),
        "evaluations": res.evaluations,
        "distinct_nontrivial": res.distinct,
        "rule": "; ".join(f"{sc.name}: {sc.rule}" for sc, _ in infos if sc.rule),
        "samples": res.samples[:12] or [{"note": "no correspondence stream ran"}],
        "input_distribution": res.tags,
        "streams": [{k: v for k, v in info.items() if not k.startswith("_")} for _, info in infos],
        "broken": [b["name"] for b in res.broken],
        "known_findings_reported": [k for k, _ in res.known],
        "notes": res.notes,
    }
    if cov["discharged"] < 1:
        # schema: a proof-level file with discharged = 0 is not valid; fall back to the generic keys
        cov["discharged_count"] = cov.pop("discharged")
    ev = {
        "property_id": prop.pid,
        "tier": res.tier,
        "seed": res.seed,
        "level": "proof",
        "coverage": cov,
        "assumptions": prop.assumptions,
        "wall_s": round(time.time() - res.t0, 2),
        "violations": len(res.violations),
    }
    os.makedirs(os.path.join(V.VERIF, "evidence"), exist_ok=True)
    with open(os.path.join(V.VERIF, "evidence", f"{prop.pid}.json"), "w") as f:
        json.dump(ev, f, indent=1)


def run(prop, res):
    workdir = os.path.join(V.BUILD, "run", f"{prop.pid}-{res.tier}")
    os.makedirs(workdir, exist_ok=True)
    os.makedirs(os.path.join(V.BUILD, "logs"), exist_ok=True)
    checker_cmd = (f"make -C coq -j16 {prop.coq[:-2]}.vo && coqc -Q coq Chess3 coq/{prop.coq}  "
                   f"(Print Assumptions under every theorem; hygiene grep over coq/**/*.v)")
    proofs_ok = check_obligations(prop, res)
    bad = V.hygiene()
    if bad:
        res.broken.append({"kind": "obligation", "name": "hygiene (Admitted/Axiom/...)", "detail": {"hits": bad[:20]}})
    infos = []
    model_ok = True
    try:
        V.build_modelrun()
    except V.BuildError as e:
        model_ok = False
        loc = V.locate_failure(e.log) or {}
        res.broken.append({"kind": "correspondence", "name": f"executable model does not build ({e.stage})",
                           "detail": {"log": e.log[-1500:], **loc}})
    for sc in prop.streams:
        if sc.model and not model_ok:
            # still run the implementation side so that the witness search has observations
            sc2 = StreamCfg(sc.name, sc.quick, sc.thorough, sc.judge, sc.rule, model=False, race=sc.race)
            infos.append((sc, run_stream(prop, res, sc2, workdir)))
        else:
            infos.append((sc, run_stream(prop, res, sc, workdir)))
    if prop.extra:
        prop.extra(prop, res, workdir)
    if res.tier == "thorough" and os.environ.get("VERIF_COQCHK", "1") == "1" and proofs_ok:
        rc, out = V.sh(["coqchk", "-silent", "-o", "-Q", ".", "Chess3", "Chess3." + prop.coq[:-2].replace("/", ".")],
                       cwd=V.COQ, timeout=5400)
        with open(os.path.join(V.BUILD, "logs", f"{prop.pid}-coqchk.log"), "w") as f:
            f.write(out)
        res.notes.append("coqchk -silent -o: " + ("ok" if rc == 0 else "FAILED") + "; " +
                         " ".join(out.strip().split("\n")[-12:])[:1500])
        if rc != 0:
            res.broken.append({"kind": "obligation", "name": "coqchk", "detail": {"log": out[-1500:]}})
    # witness search: after any break, and always in the thorough tier (and always when cheap)
    if model_ok and (res.broken or res.tier == "thorough" or True):
        witness_search(prop, res, infos)
    rc = 0
    for kid, w in res.known:
        print(f"KNOWN-FINDING: property={prop.pid} {kid} {w.get('desc', '')[:200]}")
    if res.broken and not res.violations:
        res.add_violation("unchecked", {"no_longer_checks": res.broken,
                                        "note": "a proof obligation or a correspondence broke and the witness search found no input on which the property fails"}, False)
    for path, found in res.violations:
        rc = 1
        print(f"VIOLATION property={prop.pid} replay={path}" + ("" if found else " no-failing-input-found"))
    write_evidence(prop, res, infos, checker_cmd)
    V.log(f"{prop.pid} {res.tier}: obligations {res.discharged}/{res.obligations}, cases {res.evaluations}, "
          f"violations {len(res.violations)}, {round(time.time() - res.t0, 1)} s")
    return rc


def replay(prop, res, path):
    body = json.load(open(path))
    if body.get("kind") == "witness":
        stream = body["stream"]
        sc = [s for s in prop.streams if s.name == stream][0]
        rc, out = V.run_h(["run", stream], inp=body["input"] + "\n")
        impl = out.strip().split("\n")[0]
        print("input :", body.get("desc") or body["input"])
        print("impl  :", impl)
        try:
            V.build_modelrun()
            wd = os.path.join(V.BUILD, "run", "replay")
            os.makedirs(wd, exist_ok=True)
            bad = V.judge(sc.judge, [body["input"]], [impl], wd, "replay") if sc.judge else []
        except V.BuildError as e:
            print("model does not build:", e.stage)
            return 1
        if bad:
            print(f"VIOLATION property={prop.pid} replay={path}")
            return 1
        print("property holds on this input now")
        return 0
    # unchecked obligation/correspondence: re-run the quick check
    return run(prop, res)


# ------------------------------------------------------------------------------------------------
# the properties

reg(Prop("C14", "Time budget granted to a search never exceeds the clock", "Properties/C14.v",
         [StreamCfg("c14", 20000, 400000, judge="judge_c14",
                    rule="dense grid remaining in -2..257 x 15 increments x colour x 8 move times plus random "
                         "(small, 10^12-range, wild 64-bit) clock states; non-trivial = mover has a clock or a move time; "
                         "distinct by input tuple")],
         trusted=["hook uci/export_verif.go (VerifSoftLimit/VerifHardLimit/VerifTimedMode call the unexported methods)",
                  "modelled, not verified: arming of time.Timer and the wall clock (runtime); see C13 for the protocol side"],
         assumptions=["remaining time 1..9*10^12 ms, increment 0..2^60 ms (superset of the stated 10^12 / 10^9 domain)",
                      "time.Duration(h)*time.Millisecond is int64 multiplication by 10^6"],
         design_ref="5/C14"))

reg(Prop("C01", "Playable moves are exactly the legal moves of chess", "Properties/C01.v",
         [StreamCfg("gen", 4000, 120000, judge="judge_c01x",
                    rule="positions: every root of harness/posgen (hand roots for castling next to/through attacked or "
                         "occupied squares, en passant incl. pins and file-edge cases, promotions, double checks, bare "
                         "kings; 127 roots of debug/standard.epd), then ~60 % random legal play-outs (<= 120 plies, biased "
                         "to captures/checks/promotions/castling/double pushes/en passant), ~30 % random sparse placements "
                         "(2-12 pieces, promoted material, castling/ep flags), ~10 % single-piece mutations; thorough tier "
                         "adds every placement of KQK, KRK, KPK (both pawn colours, both sides to move, all consistent "
                         "ep/castling states) and a strided subset of twelve 4-piece materials; every position passed the "
                         "harness filter posgen.Valid, and the judge re-checks rep_ok (violation clause 8) and Spec `valid` "
                         "(positions outside it are accepted unjudged); compared: exact noisy list, quiet list and playable "
                         "list against the model, and the playable list against legal_spec enumerated over all candidate "
                         "encodings (clauses 1 not legal / 2 missing / 3 duplicate); non-trivial = every such position; "
                         "distinct by FEN (placement, side to move, rights, ep target, clocks)"),
          StreamCfg("perft", 120, 420, judge="judge_perftx", model=False,
                    rule="debug.Perft against the spec's perft (legal_moves + succ_spec): hand roots, then random roots "
                         "of debug/standard.epd, then positions reached by play; depth = the largest d <= 3 (thorough: 4) "
                         "whose tree needs <= 130 (thorough: 1500) expanded spec nodes; non-trivial = depth >= 2; "
                         "distinct by (FEN, depth)"),
          StreamCfg("c01valid", 4000, 120000,
                    rule="the harness-side domain filter posgen.Valid (and the engine's en-passant convention) against Spec "
                         "`valid` / `normal_ep` on the very positions of stream gen (same generator and seed): a position "
                         "the harness calls valid but the specification does not would be accepted unjudged by stream gen, "
                         "so the two must agree; not counted in distinct_nontrivial (same positions as stream gen)")],
         trusted=["hook board/export_verif.go (VerifSnapshot/VerifRestore: the harness builds engine boards from the wire "
                  "format and from FEN through board.FromFEN)",
                  "harness/posgen.Legal is the glue 'GenNoisy + GenNotNoisy, MakeMove, InCheck(mover), UndoMove' copied "
                  "from search.go/debug/perft.go; debug.Perft itself is run unmodified in stream perft",
                  "attack tables: the model uses the geometric sliders/leapers of Spec/Geometry.v; that the engine's magic "
                  "tables compute them is property C12 and is exercised here by the exact-list comparison of stream gen"],
         assumptions=["position valid in the sense of Spec/Chess.v `valid` (DESIGN.md 4.3: one king per side, no pawns on "
                      "ranks 1/8, promotion-reachable material, side not to move not in check, castling rights only with king "
                      "and rook at home, en-passant target only behind a pawn that could just have double-pushed incl. "
                      "ep_pred_ok); board satisfies the representation invariant Rep (Spec/Rep.v; re-checked on every "
                      "sampled board by the judge)",
                      "moves are the 15-bit encodings of move.Move (from, to, promotion piece); the Zobrist table is arbitrary"],
         design_ref="5/C01"))
