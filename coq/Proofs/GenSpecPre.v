(* C01 / C05: assembling the per-kind results - the generated moves are exactly the moves of
   [pseudo_spec].  The castling clause enters as a Section hypothesis here (proved in
   Proofs/GenCastle.v, instantiated in Proofs/GenSpec.v). *)
From Coq Require Import NArith ZArith List Bool Lia.
From Chess3 Require Import Base.Bits Model.Types Spec.Geometry Model.Att Model.BoardDef Model.Board
  Model.Movegen Spec.Chess Spec.Rep Proofs.GenBase Proofs.GenRep Proofs.GenPieces Proofs.GenPawns.
Import ListNotations.
Open Scope N_scope.

Definition castle_lists (b : board) : list N :=
  gen_short_castle (gen_of b) b Full ++ gen_long_castle (gen_of b) b Full.

Definition castle_clause (b : board) (m : N) : Prop :=
  holds (abs b) (mv_from m) (stm b) King = true /\ mv_promo m = 0 /\ mv_from m = king_home (stm b) /\
  ((mv_to m = mv_from m + 2 /\ castle_ok (abs b) false = true) \/
   (mv_to m + 2 = mv_from m /\ castle_ok (abs b) true = true)).

Lemma between_home_all :
  forallb (fun c =>
    (existsb (N.eqb (king_home c + 2)) (between (king_home c) (rook_home c false))) &&
    (existsb (N.eqb (king_home c - 2)) (between (king_home c) (rook_home c true)))) [White; Black] = true.
Proof. vm_compute. reflexivity. Qed.

Lemma castle_to_empty p long : castle_ok p long = true ->
  empty p (if long then king_home (turn p) - 2 else king_home (turn p) + 2) = true.
Proof.
  unfold castle_ok. rewrite !andb_true_iff. intros [[_ E] _].
  rewrite forallb_forall in E. apply E.
  pose proof between_home_all as H. rewrite forallb_forall in H.
  specialize (H (turn p) ltac:(destruct (turn p); cbn; auto)). apply andb_true_iff in H.
  destruct long; [destruct H as [_ H]|destruct H as [H _]]; apply existsb_exists in H;
    destruct H as [x [Hx E']]; apply N.eqb_eq in E'; subst x; exact Hx.
Qed.

Section Assemble.
Variable b : board.
Hypothesis HR : PRep b.
Hypothesis HV : valid (abs b) = true.
Hypothesis castle_H : forall m, m < 32768 -> (In m (castle_lists b) <-> castle_clause b m).

Local Notation c := (stm b).
Local Notation self := (colors b (stm b)).
Local Notation them := (colors b (flip (stm b))).
Local Notation p := (abs b).

Lemma gen_king_iff m : m < 32768 ->
  ((In m (gen_king_moves (gen_of b) b Full them) \/ In m (gen_king_moves (gen_of b) b Full (bnot them)) \/
    In m (castle_lists b)) <->
   (who p (mv_from m) = Some (c, King) /\ pseudo_spec p m = true)).
Proof.
  intros Hm. rewrite (castle_H m Hm). unfold castle_clause.
  assert (K6 : 1 <= King <= 6) by (unfold King; lia).
  rewrite holds_iff. split.
  - intros H. pose proof (proj1 (gen_king_both b HR HV m Hm)) as G.
    assert (Hw : who p (mv_from m) = Some (c, King)).
    { destruct H as [H|[H|H]]; [| |tauto].
      - destruct (G (or_introl H)) as [? [? _]]. apply who_self_iff; [exact HR|exact K6|tauto].
      - destruct (G (or_intror H)) as [? [? _]]. apply who_self_iff; [exact HR|exact K6|tauto]. }
    split; [exact Hw|]. apply (pseudo_king b HR m Hw).
    destruct H as [H|[H|H]].
    + pose proof (G (or_introl H)). tauto.
    + pose proof (G (or_intror H)). tauto.
    + destruct H as [_ [Pr [Hk Cs]]]. split; [|tauto].
      assert (E : empty p (mv_to m) = true).
      { destruct Cs as [[Et Ck]|[Et Ck]]; pose proof (castle_to_empty p _ Ck) as Q; cbv iota in Q;
          change (turn p) with c in Q; rewrite <- Hk in Q.
        - rewrite Et. exact Q.
        - replace (mv_to m) with (mv_from m - 2) by lia. exact Q. }
      rewrite (empty_abs b HR), negb_true_iff in E. apply (not_occ_not_self b). exact E.
  - intros [Hw Hp]. apply (pseudo_king b HR m Hw) in Hp. destruct Hp as [NS [Pr [KA|Cs]]].
    + assert (G : In m (gen_king_moves (gen_of b) b Full them) \/ In m (gen_king_moves (gen_of b) b Full (bnot them))).
      { apply (gen_king_both b HR HV m Hm). apply who_self_iff in Hw; [|exact HR|exact K6]. tauto. }
      tauto.
    + right. right. tauto.
Qed.

Lemma pseudo_who m : pseudo_spec p m = true -> exists k, who p (mv_from m) = Some (c, k) /\ 1 <= k <= 6.
Proof.
  unfold pseudo_spec. destruct (who p (mv_from m)) as [[c' k]|] eqn:E; [|discriminate].
  change (turn p) with c. intros H. rewrite !andb_true_iff in H. destruct H as [[H _] _].
  apply color_eqb_true in H. subst c'. exists k. split; [reflexivity|].
  apply (who_piece_range b HR) in E. tauto.
Qed.

Lemma gen_all_split m :
  In m (gen_all b) <->
  ((In m (gen_king_moves (gen_of b) b Full them) \/ In m (gen_king_moves (gen_of b) b Full (bnot them)) \/
    In m (castle_lists b)) \/
   (In m (simple_moves b Knight them) \/ In m (simple_moves b Knight (bnot them))) \/
   (In m (simple_moves b Bishop them) \/ In m (simple_moves b Bishop (bnot them))) \/
   (In m (simple_moves b Rook them) \/ In m (simple_moves b Rook (bnot them))) \/
   (In m (simple_moves b Queen them) \/ In m (simple_moves b Queen (bnot them))) \/
   In m (pawn_lists b)).
Proof.
  unfold gen_all, gen_noisy, gen_quiet, castle_lists, pawn_lists, simple_moves. cbv zeta.
  change (Knight =? Knight) with true. change (Bishop =? Knight) with false. change (Bishop =? Bishop) with true.
  change (Rook =? Knight) with false. change (Rook =? Bishop) with false. change (Rook =? Rook) with true.
  change (Queen =? Knight) with false. change (Queen =? Bishop) with false. change (Queen =? Rook) with false.
  cbv iota. cbn [g_them gen_of]. rewrite !in_app_iff. tauto.
Qed.

Lemma gen_iff_spec_P m : m < 32768 -> (In m (gen_all b) <-> pseudo_spec p m = true).
Proof.
  intros Hm. rewrite gen_all_split.
  rewrite (gen_king_iff m Hm).
  rewrite (gen_simple_iff b HR m Knight Hm) by tauto.
  rewrite (gen_simple_iff b HR m Bishop Hm) by tauto.
  rewrite (gen_simple_iff b HR m Rook Hm) by tauto.
  rewrite (gen_simple_iff b HR m Queen Hm) by tauto.
  rewrite (gen_pawn_iff b HR HV m Hm).
  split; [tauto|]. intros H. destruct (pseudo_who m H) as [k [Hw Hk]].
  assert (D : k = 1 \/ k = 2 \/ k = 3 \/ k = 4 \/ k = 5 \/ k = 6) by lia.
  unfold King, Knight, Bishop, Rook, Queen, Pawn.
  destruct D as [->|[->|[->|[->|[->| ->]]]]]; tauto.
Qed.

End Assemble.
