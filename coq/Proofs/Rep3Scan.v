(* C10, part 1: what Threefold computes, for EVERY hash history (a pure list fact).
   threefold_hashes hs = min 3 (1 + number of entries at distance 4, 6, 8, ... equal to the newest). *)
From Coq Require Import NArith ZArith List Bool Lia Arith.
From Chess3 Require Import Base.Bits Model.Types Model.BoardDef Model.Board Spec.Chess Spec.RepSpec.
Import ListNotations.

Lemma list_ind2 {A} (P : list A -> Prop) :
  P [] -> (forall x, P [x]) -> (forall x y l, P l -> P (x :: y :: l)) -> forall l, P l.
Proof.
  intros H0 H1 H2. fix IH 1. intros [|x [|y l]]; [exact H0 | apply H1 | apply H2, IH].
Qed.

Lemma filter_map_comm {A B} (f : A -> B) (p : B -> bool) l :
  filter p (map f l) = map f (filter (fun x => p (f x)) l).
Proof. induction l as [|x l IH]; simpl; [reflexivity|]. destruct (p (f x)); simpl; now rewrite IH. Qed.

Lemma seq_shift_k k s n : seq (k + s) n = map (Nat.add k) (seq s n).
Proof.
  induction k as [|k IH]; simpl.
  - now rewrite map_id.
  - rewrite <- seq_shift, IH, map_map. reflexivity.
Qed.

(* the scan: count matches, stop at three *)
Definition cnt (h : N) (l : list N) : Z := Z.of_nat (length (filter (fun x => (x =? h)%N) l)).

Lemma three_scan_spec h l : forall c, (c < 3)%Z -> three_scan h l c = Z.min 3 (c + cnt h l).
Proof.
  unfold cnt. induction l as [|x l IH]; intros c Hc; simpl.
  - lia.
  - destruct (x =? h)%N; simpl length.
    + destruct (3 <=? c + 1)%Z eqn:E.
      * apply Z.leb_le in E. lia.
      * apply Z.leb_gt in E. rewrite IH by lia. lia.
    + now apply IH.
Qed.

(* every_other takes the entries with even index *)
Lemma every_other_nth (l : list N) :
  every_other l = map (fun i => nth i l 0%N) (filter Nat.even (seq 0 (length l))).
Proof.
  induction l as [| x | x y l IH] using list_ind2; try reflexivity.
  change (every_other (x :: y :: l)) with (x :: every_other l).
  change (length (x :: y :: l)) with (S (S (length l))).
  change (seq 0 (S (S (length l)))) with (0%nat :: 1%nat :: seq (2 + 0) (length l)).
  rewrite seq_shift_k. cbn [filter Nat.even map nth].
  rewrite filter_map_comm, map_map, IH. reflexivity.
Qed.

Lemma nth_skipn_add {A} k : forall (l : list A) i d, nth i (skipn k l) d = nth (k + i) l d.
Proof.
  induction k as [|k IH]; intros l i d; simpl; [reflexivity|].
  destruct l as [|x l]; simpl; [now destruct i | apply IH].
Qed.

Lemma scan_indices_shift n :
  scan_indices n = map (Nat.add 4) (filter Nat.even (seq 0 (n - 4))).
Proof.
  unfold scan_indices.
  destruct (le_lt_dec 4 n) as [H|H].
  - replace n with (4 + (n - 4))%nat at 1 by lia.
    rewrite seq_app. rewrite filter_app.
    change (filter _ (seq 0 4)) with (@nil nat). cbn [app].
    change (0 + 4)%nat with (4 + 0)%nat. rewrite seq_shift_k, filter_map_comm. reflexivity.
  - replace (n - 4)%nat with 0%nat by lia. cbn [seq filter map].
    destruct n as [|[|[|[|n]]]]; try reflexivity. lia.
Qed.

Lemma length_filter_map {A B} (f : A -> B) p l :
  length (filter p (map f l)) = length (filter (fun x => p (f x)) l).
Proof. now rewrite filter_map_comm, map_length. Qed.

Theorem threefold_count (hs : list N) :
  threefold_hashes hs = Z.min 3 (1 + far_even_matches hs).
Proof.
  destruct hs as [|h t]; [reflexivity|].
  unfold threefold_hashes, far_even_matches.
  rewrite three_scan_spec by lia. f_equal. f_equal. unfold cnt. f_equal.
  rewrite every_other_nth, scan_indices_shift, skipn_length.
  rewrite !length_filter_map. f_equal.
  apply filter_ext. intros i. rewrite nth_skipn_add. reflexivity.
Qed.
