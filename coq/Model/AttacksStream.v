(* Correspondence entry points of property C12.

   run_c12 (model side: the engine model of Model/Attacks.v and the pawn formulas of Model/Att.v)
     [0; sq; occ_1 .. occ_n] -> [BishopMoves(sq, occ_i) ...]     (one table fill, n lookups)
     [1; sq; occ_1 .. occ_n] -> [RookMoves(sq, occ_i) ...]
     [2; sq]                 -> [KingMoves(sq)]
     [3; sq]                 -> [KnightMoves(sq)]
     [4; colour; b]          -> [PawnCaptureMoves(b, colour)]
     [5; colour; b]          -> [PawnSinglePushMoves(b, colour)]
     [6; a; b]               -> [InBetween[a][b] & ^(1<<a | 1<<b)]  (end squares disregarded, as the
                                property says and as the only consumer, board/attacks.go, does)
   a square outside 0..63 is an index out of range in Go: [-1; -1; -1].

   judge_c12 (independent of the model: Spec/Geometry.v only) takes input ++ observed output and
   answers [1], or [0; clause; sq/colour/a; occ/b; observed; expected] for the first failing lookup. *)
From Coq Require Import NArith ZArith List Bool.
From Chess3 Require Import Base.Bits Model.Types Spec.Geometry Model.Att Model.Attacks.
Import ListNotations.
Open Scope Z_scope.

Definition c12_panic : list Z := [-1; -1; -1].
Definition sq_ok (s : Z) : bool := (0 <=? s) && (s <? 64).
Definition zN (x : N) : Z := Z.of_N x.
Definition u64 (z : Z) : N := w64 (Z.to_N z).

Definition run_c12 (input : list Z) : list Z :=
  match input with
  | 0 :: sq :: occs =>
      if sq_ok sq then
        let s := Z.to_N sq in let row := bishop_row s in
        map (fun o => zN (bishop_lookup row s (u64 o))) occs
      else c12_panic
  | 1 :: sq :: occs =>
      if sq_ok sq then
        let s := Z.to_N sq in let row := rook_row s in
        map (fun o => zN (rook_lookup row s (u64 o))) occs
      else c12_panic
  | 2 :: sq :: nil => if sq_ok sq then [zN (engine_king_moves (Z.to_N sq))] else c12_panic
  | 3 :: sq :: nil => if sq_ok sq then [zN (engine_knight_moves (Z.to_N sq))] else c12_panic
  | 4 :: c :: b :: nil => [zN (pawn_capture_moves (u64 b) (color_of_N (Z.to_N c)))]
  | 5 :: c :: b :: nil => [zN (pawn_single_push_moves (u64 b) (color_of_N (Z.to_N c)))]
  | 6 :: a :: b :: nil =>
      if sq_ok a && sq_ok b then
        let an := Z.to_N a in let bn := Z.to_N b in
        [zN (N.ldiff (in_between_direct an bn) (N.lor (bit an) (bit bn)))]
      else c12_panic
  | _ => nil
  end.

(* first pair (occ, observed) for which the geometric attack set differs *)
Fixpoint first_bad (geom : N -> N) (occs atts : list Z) : option (Z * Z * Z) :=
  match occs, atts with
  | o :: os, a :: ats =>
      let g := zN (geom (u64 o)) in
      if a =? g then first_bad geom os ats else Some (o, a, g)
  | nil, nil => None
  | _, _ => Some (-1, -1, -1)
  end.

Definition judge_slider (clause : Z) (geom : N -> N -> N) (sq : Z) (rest : list Z) : list Z :=
  if sq_ok sq then
    let n := Nat.div2 (length rest) in
    match first_bad (geom (Z.to_N sq)) (firstn n rest) (skipn n rest) with
    | None => [1]
    | Some (o, a, g) => [0; clause; sq; o; a; g]
    end
  else [1].

Definition judge_cell (clause x y observed : Z) (expected : N) : list Z :=
  if observed =? zN expected then [1] else [0; clause; x; y; observed; zN expected].

Definition judge_c12 (io : list Z) : list Z :=
  match io with
  | 0 :: sq :: rest => judge_slider 1 bishop_attacks sq rest
  | 1 :: sq :: rest => judge_slider 2 rook_attacks sq rest
  | 2 :: sq :: att :: nil => if sq_ok sq then judge_cell 3 sq 0 att (king_attacks (Z.to_N sq)) else [1]
  | 3 :: sq :: att :: nil => if sq_ok sq then judge_cell 4 sq 0 att (knight_attacks (Z.to_N sq)) else [1]
  | 4 :: c :: b :: att :: nil => judge_cell 5 c b att (pawn_attacks_set (color_of_N (Z.to_N c)) (u64 b))
  | 5 :: c :: b :: att :: nil => judge_cell 6 c b att (pawn_push1_set (color_of_N (Z.to_N c)) (u64 b))
  | 6 :: a :: b :: masked :: nil =>
      if sq_ok a && sq_ok b then judge_cell 7 a b masked (between_bb (Z.to_N a) (Z.to_N b)) else [1]
  | _ => [0; 99]
  end.
