(* All correspondence entry points, extracted to OCaml as build/modelrun.
   Every stream is a function list Z -> list Z; the generic driver (Extract/driver.ml) reads one
   case per line and prints the model's answer. Only ExtrOcamlBasic is used: N, Z, positive and nat
   stay inductive. *)
From Coq Require Import ZArith List.
From Coq Require Extraction ExtrOcamlBasic.
From Chess3 Require Export Model.TimeCtl.
From Chess3 Require Export Model.TimeArm Spec.TimeArmJudge.  (* C14, arming of the deadline under virtual time *)
From Chess3 Require Export Model.BoardDef.
From Chess3 Require Export Model.BoardStreams.
From Chess3 Require Export Spec.ChessJudge.
From Chess3 Require Export Model.SeqStreams.
From Chess3 Require Export Spec.SnapJudge.
From Chess3 Require Export Spec.TpJudge.  (* C04, rule-level key of the transposition judge *)
From Chess3 Require Export Model.TT Spec.TTSpec.
From Chess3 Require Export Model.Hist Model.Picker Spec.PickerSpec.  (* C16 *)
From Chess3 Require Export Model.PickerSession Spec.PickerSessionSpec.  (* C16, store sessions *)
From Chess3 Require Export Model.FenStreams.
From Chess3 Require Export Model.FenSeq.
From Chess3 Require Export Spec.FenSpec.
From Chess3 Require Export Model.AttacksStream.
From Chess3 Require Export Model.SeeStreams.
From Chess3 Require Export Spec.SearchObs Model.Pv Model.IterDeepen.
From Chess3 Require Export Model.Rep3Stream.
From Chess3 Require Export Spec.RepJudge.
From Chess3 Require Export Model.Rep3Multi.
From Chess3 Require Export Spec.RepMultiJudge.
From Chess3 Require Export Model.Shuffle Model.Batch Model.Chunker Spec.Perm.
From Chess3 Require Export Model.Eval.
From Chess3 Require Export Model.EvalAct.
From Chess3 Require Export Model.EvalSession.
From Chess3 Require Export Spec.EvalSym.
From Chess3 Require Export Model.C05Streams.
From Chess3 Require Export Spec.C05Judge.
From Chess3 Require Export Model.C05Sess Spec.C05SessJudge.  (* C05 on one long-lived board *)
From Chess3 Require Export Model.Uci Spec.UciSpec.
From Chess3 Require Export Model.Vector Model.EvalU Spec.TunerSpec.
From Chess3 Require Export Model.MateStreams.
From Chess3 Require Export Spec.MateJudge.
From Chess3 Require Export Model.SuccStreams.
From Chess3 Require Export Spec.SuccJudge.
From Chess3 Require Export Spec.PerftSpec.
From Chess3 Require Export Spec.C01Judge.
From Chess3 Require Export Model.Search Model.SearchStreams Spec.SearchModelJudge.  (* closed search model: C06/C07/C08 *)

Extraction Language OCaml.
