(* C06 on the closed executable model of the whole search (Model/Search.v): the board is left
   untouched.  In the model alphaBeta / quiescence / Go RETURN the board they leave behind (the Go code
   mutates one board and undoes its moves), and the transposition-table stores after the move loops
   hash THAT board; the theorems say it is the board that was passed in, whatever the engine state,
   limits, window, depth or abort point, and that the move store and the history stack are balanced.
   Proof: induction over the real recursion, C03's undo . make = id for every move played, the staged
   picker only ever yields the hash move accepted by IsPseudoLegal or a generated move
   (Proofs/SearchModelPicker.v).  The model is tied to the engine by the stream "search".
   Statements only; proofs in Proofs/SearchModelBoard.v. *)
From Coq Require Import NArith ZArith List Bool.
From Chess3 Require Import Base.Bits Model.Types Model.BoardDef Model.Board Model.Movegen Model.Search Gen.Zobrist
  Spec.Rep Spec.Applicable Proofs.BoardInv Proofs.PseudoApplicable Proofs.BoardExamples Proofs.SearchModelBoard.
Import ListNotations.
Open Scope Z_scope.

(* the positions the theorems talk about: C03's invariant (Rep, the en-passant target is empty with
   no own piece behind it, castling rights have their rook on the corner - all hold in every valid
   position) *)
Definition search_board (b : board) : Prop := Rep b /\ ep_inv b = true /\ castle_inv b = true.

(* the two statements the proof rests on that are NOT proved (named hypotheses of the theorems):
   C03's open statement about generated moves, and that the invariant survives a move / a null move
   (for Rep this is C03_make_Rep; for ep_inv / castle_inv it follows from C02, not proved on the model) *)
Definition gen_applicable : Prop := gen_applicable_statement.
Definition invariant_kept : Prop :=
  (forall b m, search_board b -> applicable b m = true -> search_board (fst (make zob b m))) /\
  (forall b, search_board b -> search_board (fst (make_null zob b))).

(* board_restored, general form: for ANY class of positions `good` closed under the moves played, on
   which the hash move test and the generator only produce applicable moves *)
Theorem C06_model_board_restored_alphaBeta :
  forall good : board -> Prop,
  (forall b, good b -> Rep b) ->
  (forall b m, good b -> is_pseudo_legal b m = true -> applicable b m = true) ->
  (forall b m, good b -> In m (gen_all b) -> applicable b m = true) ->
  (forall b m, good b -> applicable b m = true -> good (fst (make zob b m))) ->
  (forall b, good b -> good (fst (make_null zob b))) ->
  forall o fuel st b al be d ply nt v st' b', good b ->
  alphaBeta fuel o st b al be d ply nt = Ok (v, st', b') ->
  b' = b /\ s_ms st' = s_ms st /\ s_hs st' = s_hs st.
Proof. intros good H1 H2 H3 H4 H5 o fuel. exact (alphaBeta_good good H1 H2 H3 H4 H5 o fuel). Qed.
Print Assumptions C06_model_board_restored_alphaBeta.

Theorem C06_model_board_restored_quiescence :
  forall good : board -> Prop,
  (forall b, good b -> Rep b) ->
  (forall b m, good b -> is_pseudo_legal b m = true -> applicable b m = true) ->
  (forall b m, good b -> In m (gen_all b) -> applicable b m = true) ->
  (forall b m, good b -> applicable b m = true -> good (fst (make zob b m))) ->
  (forall b, good b -> good (fst (make_null zob b))) ->
  forall o fuel st b al be ply v st' b', good b ->
  quiescence fuel o st b al be ply = Ok (v, st', b') ->
  b' = b /\ s_ms st' = s_ms st /\ s_hs st' = s_hs st.
Proof. intros good H1 H2 H3 H4 H5 o fuel. exact (quiescence_good good H1 H2 H3 H4 H5 o fuel). Qed.
Print Assumptions C06_model_board_restored_quiescence.

(* a whole Search.Go on C03's invariant: the hash move half is proved (C03_pseudo_legal_applicable),
   the generated-move half and the preservation of the invariant are the two named hypotheses *)
Theorem C06_model_board_restored_partial : gen_applicable -> invariant_kept ->
  forall fuel o st b r st' b', search_board b -> go fuel o st b = Ok (r, st', b') -> b' = b.
Proof.
  intros Hgen [Hmk Hnull] fuel o st b r st' b'.
  apply (go_good search_board).
  - intros x H. exact (proj1 H).
  - intros x m (HR & HE & HC) Hi. now apply pseudo_legal_applicable.
  - intros x m (HR & HE & HC) Hi. now apply Hgen.
  - exact Hmk.
  - exact Hnull.
Qed.
Print Assumptions C06_model_board_restored_partial.

(* the full statement: no hypotheses besides the position's invariant *)
Definition C06_model_board_restored_statement : Prop :=
  forall fuel o st b r st' b', search_board b -> go fuel o st b = Ok (r, st', b') -> b' = b.

(* non-vacuity: the start position is in the class; a real run of the model on it (depth 2, 32000-byte
   table) completes and returns the board it was given *)
Example C06_model_start_in_class : search_board ex_start.
Proof. vm_compute. repeat split; reflexivity. Qed.

Example C06_model_run_example :
  match new_state 32000 with
  | Ok s0 => match go search_fuel (mkO (-1) (-1) 2) s0 ex_start with
             | Ok (r, s1, b1) => b1 = ex_start /\ r_move r <> 0 /\ s_aborted s1 = false /\ length (r_reports r) = 3%nat
             | _ => False end
  | _ => False end.
Proof. vm_compute. repeat split; discriminate. Qed.
