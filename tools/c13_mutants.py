#!/usr/bin/env python3
"""Mutation trial for C13: applies one edit to uci/uci.go in a PRIVATE worktree of /repo
(usage: c13_mutants.py <worktree> <name>|list|reset). Not used by ./check."""
import subprocess, sys
wt = sys.argv[1]
f = wt + "/uci/uci.go"
M = {
 # bestmove printed before the interrupt goroutine has been joined
 "best_before_join": [("""	close(searchFin)

	wg.Wait()

""", """	close(searchFin)

"""), ("""		fmt.Fprintf(d.output, "bestmove %s\\n", bm)
	}

	return quit""", """		fmt.Fprintf(d.output, "bestmove %s\\n", bm)
	}

	wg.Wait()

	return quit""")],
 # isready during a search answered twice
 "isready_twice": [("""				case "isready":
					fmt.Fprintln(d.output, "readyok")
				}""", """				case "isready":
					fmt.Fprintln(d.output, "readyok")
					fmt.Fprintln(d.output, "readyok")
				}""")],
 # isready during a search not answered
 "isready_dropped": [("""				case "isready":
					fmt.Fprintln(d.output, "readyok")
				}
			}""", """				}
			}""")],
 # stop closes the stop channel itself and keeps serving; the deferred close then panics
 "stop_closed_twice": [("""				case "stop":
					return
""", """				case "stop":
					close(stop)
""")],
 # output channel closed by the reader side: a bestmove after quit / EOF hits a closed channel
 "output_closed_early": [("""		d.readInput()
		close(d.inputLines)
	})""", """		d.readInput()
		close(d.inputLines)
		close(d.output.channel)
	})"""), ("""		d.handleInput()
		close(d.output.channel)
	})""", """		d.handleInput()
	})""")],
 # ponderhit consumed but never handed to the search
 "ponderhit_lost": [("""					if ponderHit != nil {
						ponderHit <- time.Now()
						ponderHit = nil
					}""", """					if ponderHit != nil {
						ponderHit = nil
					}""")],
 # the interrupter forgets to close stop when the input ends (EOF during a search hangs)
 "eof_not_stopping": [("""				if !ok {
					return // d.readInput is finished.
				}""", """				if !ok {
					<-searchFin
					return // d.readInput is finished.
				}""")],
 # a goroutine per go that never ends
 "goroutine_leak": [("""	_, bm, pm := d.search.Go(d.board, opts...)""", """	go func() { <-make(chan struct{}) }()
	_, bm, pm := d.search.Go(d.board, opts...)""")],
 # bestmove written directly to the underlying writer, bypassing the serialising channel
 "best_bypasses_channel": [("""		fmt.Fprintf(d.output, "bestmove %s\\n", bm)
	}

	return quit""", """		fmt.Fprintf(d.output.writer, "bestmove %s\\n", bm)
	}

	return quit""")],
 # quit flag set by the interrupter without synchronisation being waited for: data race
 "unsynchronised_ponder_flag": [("""				case "isready":
					fmt.Fprintln(d.output, "readyok")
				}""", """				case "isready":
					d.debug = !d.debug
					d.debug = !d.debug
					fmt.Fprintln(d.output, "readyok")
				}"""), ("""	_, bm, pm := d.search.Go(d.board, opts...)""", """	_, bm, pm := d.search.Go(d.board, opts...)
	if d.debug {
		opts = nil
	}""")],
}
if sys.argv[2] == "list":
    print("\n".join(M)); sys.exit(0)
subprocess.run(["git", "-C", wt, "checkout", "--", "uci/uci.go"], check=True)
if sys.argv[2] == "reset":
    sys.exit(0)
s = open(f).read()
for a, b in M[sys.argv[2]]:
    assert s.count(a) == 1, (sys.argv[2], a)
    s = s.replace(a, b)
open(f, "w").write(s)
