(* Correspondence entry points for the board model (streams over list Z). *)
From Coq Require Import NArith ZArith List Bool.
From Chess3 Require Import Base.Bits Model.Types Model.Att Model.BoardDef Model.Board Gen.Zobrist.
Import ListNotations.
Open Scope Z_scope.

Definition zb (b : bool) : Z := if b then 1 else 0.

(* stream "mk": board-in ++ [kind; move]   kind 0 = MakeMove/UndoMove, 1 = MakeNullMove/UndoNullMove
   output: board-out after make ++ [token] ++ board-out after undo
           ++ [calculateHash after make; Threefold after make; InCheck(mover) after make; InCheck(side to move) after make] *)
Definition run_mk (l : list Z) : list Z :=
  match decode_board l with
  | Some (b, kind :: m :: _) =>
      let m := Z.to_N m in
      let '(b1, r) := if kind =? 0 then make zob_real b m else make_null zob_real b in
      let b2 := if kind =? 0 then undo zob_real b1 m r else undo_null b1 r in
      encode_board b1 ++ [Z.of_N r] ++ encode_board b2 ++
      [Z.of_N (calc_hash zob_real b1); threefold b1; zb (in_check b1 (stm b)); zb (in_check b1 (stm b1))]
  | _ => []
  end.
