(* board_restored on the closed search model (C06): the board returned by quiescence / alphaBeta /
   iterative deepening / Go is the board they were given, the move store and the history stack are
   balanced.  Uses C03's theorem undo . make = id (Proofs/UndoMove.v) for every move the search plays:
   the hash move (accepted by IsPseudoLegal: Proofs/PseudoApplicable.v) and the generated moves
   (hypothesis good_gen = the still open gen_applicable_statement). *)
From Coq Require Import NArith ZArith List Bool Lia Permutation.
From Chess3 Require Import Proofs.LayoutNow.
From Chess3 Require Import Base.Bits Base.Word Model.Types Model.BoardDef Model.Board Model.Search
  Spec.Rep Spec.Applicable Proofs.Statements Proofs.PseudoApplicable Proofs.PickerProofs Proofs.SearchModelInv Proofs.SearchModelPicker.
From Chess3 Require Model.Movegen Model.Mate Model.Eval Model.TT Model.Hist Model.Picker Model.See
  Model.Pv Model.IterDeepen.
Import ListNotations.
Open Scope Z_scope.

(* ---- lists and the store ---- *)

Lemma map_res_fst (f : N -> res Z) : forall ms l,
  ranked f ms = Ok l -> map fst l = map zN ms.
Proof.
  unfold ranked. induction ms as [|m ms IH]; intros l H; cbn [map_res] in H.
  - injection H as <-. reflexivity.
  - walk. cbn [map fst]. f_equal. apply IH. reflexivity.
Qed.

Definition alloc_all_framed := alloc_all_framed'.

Lemma push_framed s : framed (Picker.store_push s) (length (Picker.s_data s) :: Picker.s_frames s) (Picker.s_data s) [].
Proof. unfold framed, Picker.store_push. cbn. rewrite app_nil_r. auto. Qed.

Lemma pop_framed s0 s X :
  framed s (length (Picker.s_data s0) :: Picker.s_frames s0) (Picker.s_data s0) X -> Picker.store_pop s = s0.
Proof.
  intros (Hd & Hf & _). unfold Picker.store_pop. rewrite Hf, Hd, firstn_app_len. destruct s0; reflexivity.
Qed.

(* selection on a plain list: the list version of select_spec *)
Lemma scan_swap (Y R : list Picker.wmove) thr :
  match Picker.scan R (length Y) thr None with
  | None => True
  | Some best => exists y Rm, Picker.swap (Y ++ R) (length Y) best = (Y ++ [y]) ++ Rm /\ Permutation (y :: Rm) R
  end.
Proof.
  destruct (scan_spec R (length Y) thr None) as [[Hr _]|(B & y & C & HR & Hr & _)]; rewrite Hr; [exact I|].
  destruct B as [|x B]; subst R; cbn [length app].
  - rewrite Nat.add_0_r, swap_same. exists y, C. split; [now rewrite <- app_assoc|apply Permutation_refl].
  - rewrite swap_far. exists y, (B ++ x :: C). split; [now rewrite <- app_assoc|].
    eapply Permutation_trans; [apply perm_skip; apply Permutation_sym; apply Permutation_middle|].
    eapply Permutation_trans; [apply perm_swap|]. apply perm_skip. apply Permutation_middle.
Qed.

(* updates that leave the move store and the history stack alone *)
Lemma ms_trace s p e : s_ms (trace s p e) = s_ms s.
Proof. unfold trace. destruct (p <=? s_tracing s); reflexivity. Qed.
Lemma hs_trace s p e : s_hs (trace s p e) = s_hs s.
Proof. unfold trace. destruct (p <=? s_tracing s); reflexivity. Qed.
Lemma ms_inc o s : s_ms (inc_nodes o s) = s_ms s.
Proof. unfold inc_nodes. destruct (IterDeepen.increment_nodes _ _ _). reflexivity. Qed.
Lemma hs_inc o s : s_hs (inc_nodes o s) = s_hs s.
Proof. unfold inc_nodes. destruct (IterDeepen.increment_nodes _ _ _). reflexivity. Qed.
Lemma ms_insert s b d ply sm v t : s_ms (tt_insert s b d ply sm v t) = s_ms s.
Proof. reflexivity. Qed.
Lemma hs_insert s b d ply sm v t : s_hs (tt_insert s b d ply sm v t) = s_hs s.
Proof. reflexivity. Qed.

Ltac proj_simpl :=
  repeat (rewrite ?ms_trace, ?hs_trace, ?ms_inc, ?hs_inc, ?ms_insert, ?hs_insert in *;
          cbn [s_ms s_hs set_ms set_hs set_pv set_tt set_rk set_trace set_nodes set_aborted set_gen] in * ).

Section Board.
  (* the positions the search visits *)
  Variable good : board -> Prop.
  Hypothesis good_Rep : forall b, good b -> Rep b.
  Hypothesis good_ipl : forall b m, good b -> Movegen.is_pseudo_legal b m = true -> applicable b m = true.
  Hypothesis good_gen : forall b m, good b -> In m (Movegen.gen_all b) -> applicable b m = true.
  Hypothesis make_good : forall b m, good b -> applicable b m = true -> good (fst (make zob b m)).
  Hypothesis null_good : forall b, good b -> good (fst (make_null zob b)).

  Definition appl (b : board) (mw : Picker.wmove) : Prop := applicable b (Z.to_N (fst mw)) = true.

  Lemma play_undo b m b1 r : good b -> applicable b m = true -> make zob b m = (b1, r) ->
    good b1 /\ undo zob b1 m r = b.
  Proof.
    intros Hg Ha E. split.
    - pose proof (make_good b m Hg Ha) as H. now rewrite E in H.
    - pose proof (C03_move_now_l zob b m (good_Rep b Hg) Ha) as H. now rewrite E in H.
  Qed.

  Lemma null_undo b b1 r : good b -> make_null zob b = (b1, r) -> good b1 /\ undo_null b1 r = b.
  Proof.
    intros Hg E. split.
    - pose proof (null_good b Hg) as H. now rewrite E in H.
    - pose proof (C03_null_now_l zob b (good_Rep b Hg)) as H. now rewrite E in H.
  Qed.

  Lemma ranked_appl f b ms l : good b -> (forall m, In m ms -> In m (Movegen.gen_all b)) ->
    ranked f ms = Ok l -> Forall (appl b) l.
  Proof.
    intros Hg Hin H. apply map_res_fst in H. apply Forall_forall. intros mw Hmw.
    assert (In (fst mw) (map zN ms)) as Hi by (rewrite <- H; now apply in_map).
    apply in_map_iff in Hi. destruct Hi as (m & Hm & Hi). unfold appl. rewrite <- Hm. unfold zN. rewrite N2Z.id.
    apply good_gen; auto.
  Qed.

  Definition balq (st st' : sstate) : Prop := s_ms st' = s_ms st /\ s_hs st' = s_hs st.

  Definition q_good (f : sstate -> board -> Z -> Z -> Z -> res rt) : Prop :=
    forall st b al be ply v st' b', good b -> f st b al be ply = Ok (v, st', b') -> b' = b /\ balq st st'.
  Definition ab_good (f : sstate -> board -> Z -> Z -> Z -> Z -> Z -> res rt) : Prop :=
    forall st b al be d ply nt v st' b', good b -> f st b al be d ply nt = Ok (v, st', b') -> b' = b /\ balq st st'.

  (* ---- quiescence ---- *)
  Section Q.
    Variable qchild : sstate -> board -> Z -> Z -> Z -> res rt.
    Hypothesis Hq : q_good qchild.

    Lemma qs_loop_good fr L : forall n st b Y R al be maxim delta ply v st' b',
      good b -> Forall (appl b) (Y ++ R) -> (exists X, framed (s_ms st) fr L X) ->
      qs_loop qchild n st b (Y ++ R) (length Y) al be maxim delta ply = Ok (v, st', b') ->
      b' = b /\ s_hs st' = s_hs st /\ exists X', framed (s_ms st') fr L X'.
    Proof.
      induction n as [|n IH]; intros st b Y R al be maxim delta ply v st' b' Hg HA [X HX] H; [discriminate H|].
      cbn [qs_loop] in H. rewrite skipn_app_len in H.
      pose proof (scan_swap Y R (wrap16 (- SearchParams.Inf - 1))) as Hs.
      destruct (Picker.scan R (length Y) (wrap16 (- SearchParams.Inf - 1)) None) as [best|].
      2:{ walk. cbn. eauto. }
      destruct Hs as (y & Rm & Hsw & Hperm). rewrite Hsw in H.
      assert (HA' : Forall (appl b) ((Y ++ [y]) ++ Rm)).
      { rewrite <- app_assoc. cbn [app]. apply Forall_app in HA. destruct HA as [HY HR].
        apply Forall_app. split; [exact HY|]. eapply Permutation_Forall; [apply Permutation_sym; exact Hperm|exact HR]. }
      assert (Hy : nth (length Y) ((Y ++ [y]) ++ Rm) (0, 0) = y).
      { rewrite <- app_assoc. cbn [app]. apply nth_middle. }
      rewrite Hy in H.
      assert (Ay : appl b y).
      { apply Forall_app in HA'. destruct HA' as [HA' _]. apply Forall_app in HA'. destruct HA' as [_ HA'].
        now inversion HA'. }
      assert (HX' : framed (Picker.store_write_frame (s_ms st) ((Y ++ [y]) ++ Rm)) fr L ((Y ++ [y]) ++ Rm)).
      { eapply framed_write. exact HX. }
      assert (Hlen : S (length Y) = length (Y ++ [y])) by (rewrite app_length; cbn; lia).
      rewrite Hlen in H.
      destruct (snd y <? 0) eqn:Cw.
      { walk. cbn. eauto. }
      destruct (make zob b (Z.to_N (fst y))) as [b1 r] eqn:Em.
      destruct (play_undo _ _ _ _ Hg Ay Em) as [Hg1 Hu].
      destruct (in_check b1 (flip (stm b1))) eqn:Ck.
      { rewrite Hu in H. eapply IH in H; eauto. }
      walk;
        try match goal with E : qchild _ _ _ _ _ = Ok _ |- _ =>
              apply Hq in E; [|exact Hg1]; destruct E as [-> [QQ1 QQ2]]; cbn [s_ms s_hs set_ms] in QQ1, QQ2 end;
        rewrite ?Hu in *.
      all: try (match goal with E : qs_loop _ _ _ _ _ _ _ _ _ _ _ = Ok _ |- _ =>
                  eapply IH in E; [ | exact Hg | exact HA' | rewrite QQ1; eauto ];
                  destruct E as (-> & Hh & HX2); rewrite Hh, QQ2; cbn [s_hs set_ms]; auto end).
      all: unfold tt_insert; cbn [s_ms s_hs set_ms set_tt]; rewrite ?QQ1, ?QQ2; cbn [s_ms s_hs set_ms set_tt]; eauto.
    Qed.

    Lemma qs_body_good o : q_good (qs_body o qchild).
    Proof.
      intros st b al be ply v st' b' Hg H. unfold qs_body, qs_pushed in H. walk; unfold balq; proj_simpl; auto.
      match goal with E : qs_loop _ _ _ _ _ _ _ _ _ _ _ = Ok _ |- _ =>
        eapply (qs_loop_good (length (Picker.s_data (s_ms st)) :: Picker.s_frames (s_ms st)) (Picker.s_data (s_ms st))
                             _ _ _ [] _) in E;
        [ destruct E as (-> & Hh & X' & HX'); proj_simpl; split; [reflexivity|]; split; [|exact Hh];
          eapply pop_framed; exact HX'
        | exact Hg
        | cbn [app]; eapply ranked_appl; [exact Hg| |eassumption];
          intros m Hm; unfold Movegen.gen_all; apply in_or_app; now left
        | proj_simpl; eexists; eapply framed_write; eapply alloc_all_framed; [eassumption|]; apply push_framed ] end.
    Qed.
  End Q.

  Lemma quiescence_good o : forall fuel, q_good (quiescence fuel o).
  Proof.
    induction fuel as [|f IH]; intros st b al be ply v st' b' Hg H; [discriminate H|].
    cbn [quiescence] in H. exact (qs_body_good _ IH o _ _ _ _ _ _ _ _ Hg H).
  Qed.

  (* ---- alphaBeta ---- *)
  Lemma appl_w b m w w' : appl b (m, w) -> appl b (m, w').
  Proof. exact (fun H => H). Qed.

  Lemma pws_id p : p_with_store p (Picker.p_store p) = p.
  Proof. destruct p; reflexivity. Qed.

  Definition ppost b fr L p p' (more : bool) := post (appl b) fr L p p' more.

  Lemma pnext_quiet_inv rk hs b fr L p ipl noisy more p' : good b -> pinv (appl b) fr L p ->
    (ipl = true -> appl b (Picker.p_hash p, 0)) -> Forall (appl b) noisy ->
    pnext_quiet rk hs b p ipl noisy = Ok (more, p') -> ppost b fr L p p' more.
  Proof.
    intros Hg Hp Hipl HN H. unfold pnext_quiet in H. walk.
    - eapply (next_inv (appl b) (appl_w b)); [exact Hp| | | |eassumption]; cbn; auto.
      eapply ranked_appl; [exact Hg| |eassumption]. intros m Hm. unfold Movegen.gen_all. apply in_or_app. now right.
    - eapply (next_inv (appl b) (appl_w b)); [exact Hp| | | |eassumption]; cbn; auto.
  Qed.

  Lemma pnext_noisy_inv rk hs b fr L p ipl more p' : good b -> pinv (appl b) fr L p ->
    (ipl = true -> appl b (Picker.p_hash p, 0)) ->
    pnext_noisy rk hs b p ipl = Ok (more, p') -> ppost b fr L p p' more.
  Proof.
    intros Hg Hp Hipl H. unfold pnext_noisy in H. walk.
    eapply pnext_quiet_inv; [exact Hg|exact Hp|exact Hipl| |eassumption].
    eapply ranked_appl; [exact Hg| |eassumption]. intros m Hm. unfold Movegen.gen_all. apply in_or_app. now left.
  Qed.

  Lemma pnext_inv rk hs b fr L p more p' : good b -> pinv (appl b) fr L p ->
    pnext rk hs b p = Ok (more, p') -> ppost b fr L p p' more.
  Proof.
    intros Hg Hp H. unfold pnext in H. destruct (Picker.p_state p) eqn:Hst.
    - destruct (Movegen.is_pseudo_legal b (Z.to_N (Picker.p_hash p))) eqn:Ei.
      + walk. eapply (next_inv (appl b) (appl_w b)); [exact Hp| | | |eassumption]; cbn; auto.
        intros _. unfold appl. cbn [fst]. now apply good_ipl.
      + eapply pnext_noisy_inv; [exact Hg|exact Hp| |exact H]; discriminate.
    - eapply pnext_noisy_inv; [exact Hg|exact Hp| |exact H]; discriminate.
    - eapply pnext_quiet_inv; [exact Hg|exact Hp| |constructor|exact H]; discriminate.
    - eapply pnext_quiet_inv; [exact Hg|exact Hp| |constructor|exact H]; discriminate.
    - walk. eapply (next_inv (appl b) (appl_w b)); [exact Hp| | | |eassumption]; cbn; auto. discriminate.
  Qed.

  Section Node.
    Variable child : sstate -> board -> Z -> Z -> Z -> Z -> Z -> res rt.
    Variable qs : sstate -> board -> Z -> Z -> Z -> res rt.
    Hypothesis Hc : ab_good child.
    Hypothesis Hq : q_good qs.

    Lemma balq_refl s : balq s s. Proof. split; reflexivity. Qed.
    Lemma balq_trans a b c : balq a b -> balq b c -> balq a c.
    Proof. intros [A1 A2] [B1 B2]. split; congruence. Qed.

    Ltac use_child Hg1 :=
      repeat match goal with E : child _ _ _ _ _ _ _ = Ok _ |- _ =>
               apply Hc in E; [|exact Hg1]; let Q := fresh "Q" in destruct E as [-> Q] end.

    Lemma search_move_good st b1 al be d ply nt next mc qc ic imp v st' b' : good b1 ->
      search_move child st b1 al be d ply nt next mc qc ic imp = Ok (v, st', b') -> b' = b1 /\ balq st st'.
    Proof.
      intros Hg H. unfold search_move in H. walk; use_child Hg; use_child Hg; use_child Hg;
        (split; [reflexivity|]); eauto using balq_refl, balq_trans.
    Qed.

    Lemma hs_push_ok hs e hs1 : hs_push hs e = Ok hs1 -> hs1 = e :: hs.
    Proof. unfold hs_push. destruct (_ <? _); [now injection 1|discriminate]. Qed.
    Lemma hs_pop_ok hs hs2 : hs_pop hs = Ok hs2 -> exists e, hs = e :: hs2.
    Proof. unfold hs_pop. destruct hs; [discriminate|]. injection 1 as <-. eauto. Qed.

    Lemma ab_finish_good st b d ply maxim best ic hl fl v st' b' :
      ab_finish st b d ply maxim best ic hl fl = Ok (v, st', b') -> b' = b /\ balq st st'.
    Proof.
      intros H. unfold ab_finish in H. walk. split; [reflexivity|].
      destruct (if hl then fl else false); split; reflexivity.
    Qed.

    Lemma pinv_framed b fr L p : pinv (appl b) fr L p -> exists X, framed (Picker.p_store p) fr L X.
    Proof. intros (Y & Rr & Hf & _). eauto. Qed.

    Lemma ab_loop_good fr L : forall n st b p al be d ply nt se maxim best ic imp hl fl mc qc v st' b',
      good b -> pinv (appl b) fr L (p_with_store p (s_ms st)) ->
      ab_loop child n st b p al be d ply nt se maxim best ic imp hl fl mc qc = Ok (v, st', b') ->
      b' = b /\ s_hs st' = s_hs st /\ exists X, framed (s_ms st') fr L X.
    Proof.
      induction n as [|n IH]; intros st b p al be d ply nt se maxim best ic imp hl fl mc qc v st' b' Hg Hp H; [discriminate H|].
      cbn [ab_loop] in H.
      destruct (pnext (s_rk st) (s_hs st) b (p_with_store p (s_ms st))) as [[more p1]| |] eqn:Ep; cbn [bind] in H; try discriminate H.
      destruct (pnext_inv _ _ _ _ _ _ _ _ Hg Hp Ep) as (Hp1 & Hh1 & Hcur).
      destruct more; cbn [negb] in H.
      2:{ apply ab_finish_good in H. destruct H as [-> [Q1 Q2]]. proj_simpl. rewrite Q1, Q2.
          split; [reflexivity|]. split; [reflexivity|]. eapply pinv_framed; exact Hp1. }
      destruct (Hcur eq_refl) as [Acur Hix1]. clear Hcur.
      destruct (make zob b (Z.to_N (fst (Picker.current p1)))) as [b1 r] eqn:Em.
      destruct (play_undo _ _ _ _ Hg Acur Em) as [Hg1 Hu].
      destruct (in_check b1 (flip (stm b1))) eqn:Ck.
      { rewrite Hu in H. eapply IH in H; [ | exact Hg | proj_simpl; rewrite pws_id; exact Hp1 ].
        proj_simpl. exact H. }
      destruct (hs_push _ _) as [hs1| |] eqn:Eh; cbn [bind] in H; try discriminate H.
      apply hs_push_ok in Eh. subst hs1.
      destruct (search_move _ _ _ _ _ _ _ _ _ _ _ _ _) as [[[value st2] b2]| |] eqn:Es; cbn [bind] in H; try discriminate H.
      apply search_move_good in Es; [|exact Hg1]. destruct Es as [-> [Q1 Q2]]. proj_simpl.
      rewrite Hu in H.
      destruct (hs_pop (s_hs st2)) as [hs2| |] eqn:Eo; cbn [bind] in H; try discriminate H.
      rewrite Q2 in Eo. cbn [hs_pop] in Eo. injection Eo as <-.
      rewrite ?Q1, ?pws_id in H.
      destruct (poke_inv (appl b) (appl_w b) fr L p1 (Some value) Hp1 Hix1) as [Hp2 _].
      destruct (poke_inv (appl b) (appl_w b) fr L p1 (Some (wrap16 (- SearchParams.Inf))) Hp1 Hix1) as [Hp3 _].
      walk.
      all: proj_simpl; rewrite ?Q1, ?pws_id in *.
      all: try (match goal with E : ab_finish _ _ _ _ _ _ _ _ _ = Ok _ |- _ =>
                  apply ab_finish_good in E; destruct E as [-> [R1 R2]]; proj_simpl; rewrite R1, R2 end).
      all: try (match goal with E : ab_loop _ _ _ _ _ _ _ _ _ _ _ _ _ _ _ _ _ _ _ = Ok _ |- _ =>
                  eapply IH in E; [ | exact Hg | proj_simpl; rewrite ?pws_id; first [exact Hp2|exact Hp3] ];
                  destruct E as (-> & R1 & R2); proj_simpl; rewrite R1 end).
      all: proj_simpl; rewrite ?Q1; (split; [reflexivity|]); (split; [reflexivity|]);
           first [ assumption | eapply pinv_framed; first [exact Hp1|exact Hp2|exact Hp3] ].
    Qed.

    Lemma ab_static_good st b be d ply ic e st' b' : good b ->
      ab_static child st b be d ply ic = Ok (e, st', b') -> b' = b /\ balq st st'.
    Proof.
      intros Hg H. unfold ab_static in H.
      destruct ic; [walk; split; [reflexivity|apply balq_refl]|].
      destruct (make_null zob b) as [b1 rev] eqn:En. destruct (null_undo _ _ _ Hg En) as [Hg1 Hu].
      walk; use_child Hg1; rewrite ?Hu; (split; [reflexivity|]); auto using balq_refl.
    Qed.

    Lemma ab_body_good o : ab_good (ab_body o child qs).
    Proof.
      intros st b al be d ply nt v st' b' Hg H. unfold ab_body in H.
      destruct (of_opt (Pv.set_null (s_pv st) ply)) as [pv1| |] eqn:Epv; cbn [bind] in H; try discriminate H.
      destruct ((d =? 0) || (SearchParams.MaxPlies - 1 <=? ply)).
      { apply Hq in H; [|exact Hg]. destruct H as [-> [Q1 Q2]]. split; [reflexivity|]. split; assumption. }
      set (st0 := trace (inc_nodes o (set_pv st pv1)) ply [1; ply; d; al; be; nt; s_nodes (inc_nodes o (set_pv st pv1))]) in *.
      assert (M0 : s_ms st0 = s_ms st) by (unfold st0; proj_simpl; reflexivity).
      assert (H0 : s_hs st0 = s_hs st) by (unfold st0; proj_simpl; reflexivity).
      destruct (s_aborted st0); [walk; split; [reflexivity|split; assumption]|].
      destruct ((100 <=? fifty b) || (wrap8 (3 - Z.min ply 1) <=? threefold b)); [walk; split; [reflexivity|split; assumption]|].
      match type of H with match ?e with _ => _ end = _ => destruct e end; [walk; split; [reflexivity|split; assumption]|].
      destruct (ab_static child st0 b be d ply (in_check b (stm b))) as [[[e st1] b1]| |] eqn:Es; cbn [bind] in H; try discriminate H.
      apply ab_static_good in Es; [|exact Hg]. destruct Es as [-> [M1 H1]].
      destruct e as [v0|se imp]; [walk; split; [reflexivity|split; congruence]|].
      match type of H with bind ?e _ = _ => destruct e as [[[v1 st2] b2]| |] eqn:El end; cbn [bind] in H; try discriminate H.
      walk.
      eapply (ab_loop_good (length (Picker.s_data (s_ms st1)) :: Picker.s_frames (s_ms st1)) (Picker.s_data (s_ms st1))) in El;
        [ | exact Hg | ].
      - destruct El as (-> & H2 & X & HX). split; [reflexivity|]. unfold balq. proj_simpl.
        split; [|congruence]. rewrite (pop_framed _ _ _ HX). congruence.
      - proj_simpl. exists [], []. cbn [app]. unfold p_with_store, Picker.picker_new. cbn.
        repeat split; auto. apply push_framed.
    Qed.
  End Node.

  Lemma alphaBeta_good o : forall fuel, ab_good (alphaBeta fuel o).
  Proof.
    induction fuel as [|f IH]; intros st b al be d ply nt v st' b' Hg H; [discriminate H|].
    cbn [alphaBeta] in H. exact (ab_body_good _ _ IH (quiescence_good o f) o _ _ _ _ _ _ _ _ _ _ Hg H).
  Qed.

  (* ---- iterative deepening, Go ---- *)
  Lemma first_legal_good : forall ms b, good b -> (forall m, In m ms -> applicable b m = true) ->
    snd (first_legal b ms) = b.
  Proof.
    induction ms as [|m ms IH]; intros b Hg HA; cbn [first_legal]; [reflexivity|].
    destruct (make zob b m) as [b1 t] eqn:Em.
    destruct (play_undo _ _ _ _ Hg (HA m (or_introl eq_refl)) Em) as [_ Hu].
    destruct (negb (in_check b1 (flip (stm b1)))); cbn [snd]; [exact Hu|].
    rewrite Hu. apply IH; [exact Hg|]. intros m' Hm'. apply HA. now right.
  Qed.

  Lemma fallback_good st b mv st' b' : good b -> fallback st b = Ok (mv, st', b') -> b' = b.
  Proof.
    intros Hg H. unfold fallback in H. walk.
    match goal with E : first_legal _ _ = _ |- _ => apply (f_equal snd) in E; cbn [snd] in E; rewrite <- E end.
    apply first_legal_good; [exact Hg|]. intros m Hm.
    pose proof (push_framed (s_ms st)) as F0.
    match goal with E : Picker.store_alloc_all (Picker.store_push _) _ = Some _ |- _ => pose proof (alloc_all_framed _ _ _ _ _ _ E F0) as F1 end.
    match goal with E : Picker.store_alloc_all _ (map zN (Movegen.gen_quiet b)) = Some _ |- _ => pose proof (alloc_all_framed _ _ _ _ _ _ E F1) as F2 end.
    rewrite (framed_frame _ _ _ _ F2) in Hm. cbn [app] in Hm. rewrite map_app, !map_map in Hm. cbn [fst] in Hm.
    apply good_gen; [exact Hg|]. unfold Movegen.gen_all. apply in_app_or in Hm. apply in_or_app.
    destruct Hm as [Hm|Hm]; [left|right]; apply in_map_iff in Hm; destruct Hm as (x & <- & Hx); unfold zN; now rewrite N2Z.id.
  Qed.

  Lemma aspire_good fuel o : forall n st b al be f d a, good b ->
    aspire fuel o n st b al be f d = Ok a ->
    match a with AspOk _ _ b' => b' = b | AspAbort _ b' => b' = b end.
  Proof.
    induction n as [|n IH]; intros st b al be f d a Hg H; [discriminate H|].
    cbn [aspire] in H.
    destruct (alphaBeta fuel o st b al be d 0 SearchParams.PVNode) as [[[s st1] b1]| |] eqn:E; cbn [bind] in H; try discriminate H.
    apply alphaBeta_good in E; [|exact Hg]. destruct E as [-> _].
    walk; try reflexivity; eapply IH; eauto.
  Qed.

  Lemma deepen_good fuel o : forall todo st b d al be sc mv pd reps r st' b', good b ->
    deepen fuel o todo st b d al be sc mv pd reps = Ok (r, st', b') -> b' = b.
  Proof.
    induction todo as [|t IH]; intros st b d al be sc mv pd reps r st' b' Hg H; cbn [deepen] in H.
    - walk. reflexivity.
    - destruct (negb ((d <? SearchParams.MaxPlies) && (d <=? o_depth o))); [walk; reflexivity|].
      destruct (aspire fuel o 64 st b al be 1 d) as [a| |] eqn:Ea; cbn [bind] in H; try discriminate H.
      apply aspire_good in Ea; [|exact Hg]. destruct a as [s st1 b1|st1 b1]; subst b1.
      + walk; try reflexivity. eapply IH; eauto.
      + walk; try reflexivity. eapply fallback_good; eauto.
  Qed.

  Theorem go_good fuel o st b r st' b' : good b -> go fuel o st b = Ok (r, st', b') -> b' = b.
  Proof.
    intros Hg H. unfold go, iterative_deepen in H. walk. eapply deepen_good; eauto.
  Qed.
End Board.
