(* C02, the en-passant clause: after a double push, CanEnPassant (occupancy surgery on the board
   BEFORE the push) answers exactly "some en-passant capture is legal in the successor position". *)
From Coq Require Import NArith ZArith List Bool Lia.
From Chess3 Require Import Base.Bits Base.Word Model.Types Model.Att Model.BoardDef Model.Board.
From Chess3 Require Import Spec.Geometry Spec.Chess Spec.Rep.
From Chess3 Require Import Proofs.SuccLists Proofs.SuccCore Proofs.SuccCells Proofs.SuccFacts Proofs.SuccPlace
                           Proofs.SuccSmall Proofs.SuccAttack Proofs.SuccEpBase.
Import ListNotations.
Open Scope N_scope.
Ltac Zify.zify_post_hook ::= Z.to_euclidean_division_equations.

Lemma flip_flip c : flip (flip c) = c. Proof. destruct c; reflexivity. Qed.
Lemma flip_neq c : c <> flip c. Proof. destruct c; discriminate. Qed.

Section Ep.
Variable b : board.
Variable m : N.
Hypothesis HR : Rep b.
Hypothesis HV : valid_core (abs b) = true.
Hypothesis HL : legal_spec (abs b) m = true.

Let from := mv_from m.
Let to := mv_to m.
Let me := stm b.
Let them := flip me.
Let mid := dp_mid me to.

Hypothesis Hc : cell b from = Some (me, Pawn).
Hypothesis Hd : to = from + 16 \/ to + 16 = from.

Lemma Ho : owned_by (abs b) to me = false.
Proof. destruct (facts b m HL) as [k [_ [H _]]]. exact H. Qed.

Lemma Hk : pawn_part (abs b) m = true.
Proof.
  destruct (facts b m HL) as [k [H1 [_ H]]]. fold from me in H1. rewrite Hc in H1. inversion H1. subst k.
  exact H.
Qed.

Lemma dfacts :
  dp_range me to = true /\ from = dp_from me to /\ piece_at b mid = 0 /\ piece_at b to = 0 /\
  mv_promo m = 0 /\ (from + to) / 2 = mid /\ mid < 64 /\ mid <> to /\ mid <> from /\ from <> to.
Proof.
  pose proof Hk as K. unfold pawn_part in K. fold from to in K. cbn [turn abs] in K. fold me in K.
  apply andb_true_iff in K. destruct K as [Kp K].
  pose proof (mv_from_lt m) as Hf. pose proof (mv_to_lt m) as Ht. fold from in Hf. fold to in Ht.
  assert (KB : (rank_n from =? second_rank me) && (to =? fwd me (fwd me from)) && empty (abs b) (fwd me from) &&
               empty (abs b) to = true).
  { apply orb_true_iff in K. destruct K as [K|K]; [apply orb_true_iff in K; destruct K as [K|K]|].
    - exfalso. repeat (apply andb_true_iff in K; destruct K as [K ?]). apply N.eqb_eq in K.
      destruct me; cbn [fwd] in K; lia.
    - exact K.
    - exfalso. apply andb_true_iff in K. destruct K as [K _].
      destruct (pawn_capture_not_double me from to Hf Ht K). tauto. }
  repeat (apply andb_true_iff in KB; destruct KB as [KB ?]).
  apply N.eqb_eq in KB. apply N.eqb_eq in H1. unfold rank_n in KB.
  unfold mid. destruct me eqn:Eme; cbn [second_rank fwd dp_range dp_from dp_mid last_rank] in *.
  - assert (8 <= from < 16) by lia.
    rewrite empty_abs in H0 by lia. rewrite empty_abs in H by lia. apply N.eqb_eq in H0, H.
    replace (to - 8) with (from + 8) by lia.
    assert (rank_n to =? 7 = false) by (apply N.eqb_neq; unfold rank_n; lia). rewrite H3 in Kp.
    apply N.eqb_eq in Kp.
    repeat split; try assumption; try lia.
    apply andb_true_iff. split; [apply N.leb_le|apply N.ltb_lt]; lia.
  - assert (48 <= from < 56) by lia.
    rewrite empty_abs in H0 by lia. rewrite empty_abs in H by lia. apply N.eqb_eq in H0, H.
    replace (to + 8) with (from - 8) by lia.
    assert (rank_n to =? 0 = false) by (apply N.eqb_neq; unfold rank_n; lia). rewrite H3 in Kp.
    apply N.eqb_eq in Kp.
    repeat split; try assumption; try lia.
    apply andb_true_iff. split; [apply N.leb_le|apply N.ltb_lt]; lia.
Qed.

Lemma not_ep : is_en_passant b m = false.
Proof.
  destruct (is_en_passant b m) eqn:E; [|reflexivity]. exfalso.
  destruct (ep_shape b m HV Pawn Hc Ho) as [_ [_ [H _]]]; [exact Hk|exact E|].
  destruct (pawn_capture_not_double me from to (mv_from_lt m) (mv_to_lt m) H). fold from to in Hd. tauto.
Qed.

(* the squares after the push *)
Lemma cell_after s : s < 64 ->
  cell (core b m) s = if s =? to then Some (me, Pawn) else if s =? from then None else cell b s.
Proof.
  intros Hs. rewrite core_b3. destruct (cell_Some _ _ _ _ Hc) as [Hp _]. fold from. rewrite Hp.
  change (Pawn =? King) with false. cbv zeta iota. rewrite cell_set_stm, cell_set_ep.
  rewrite (cell_b3_plain b m HR Pawn s Hc Ho not_ep Hs). fold to from me.
  unfold put_piece. fold from. rewrite Hp. destruct dfacts as [_ [_ [_ [_ [Hpr _]]]]]. rewrite Hpr. reflexivity.
Qed.

(* the successor position without / with the target *)
Definition q0 : pos :=
  mkPos (place_after (abs b) m) them (rights_after (abs b) m) None
        (if holds (abs b) from me Pawn || is_capture (abs b) m then 0 else half (abs b) + 1)%Z
        (match me with Black => fullm (abs b) + 1 | White => fullm (abs b) end)%Z.
Definition q1 : pos := mkPos (at_ q0) (turn q0) (rights q0) (Some mid) (half q0) (fullm q0).

Lemma who_q1 s : s < 64 ->
  who q1 s = if s =? to then Some (me, Pawn) else if s =? from then None else cell b s.
Proof.
  intros Hs. unfold who, q1, q0. cbn [at_]. rewrite <- (core_cell b m HR HV HL s Hs). apply cell_after. exact Hs.
Qed.

Lemma at_q1_length : length (at_ q1) = 64%nat.
Proof. unfold q1, q0. cbn [at_]. rewrite <- (core_placement b m HR HV HL). apply abs_at_length. Qed.

(* ---------------------------------------------------------------------------------------- *)
(* who can capture: the engine's candidate set = the pawns with a pseudo-legal en-passant move *)

Definition ables : N := band (band (adj to) (pieces b Pawn)) (colors b them).

Lemma to_lt' : to < 64. Proof. apply mv_to_lt. Qed.
Lemma from_lt' : from < 64. Proof. apply mv_from_lt. Qed.

Lemma geom a : a < 64 -> dp_geom me to a = true.
Proof. intros Ha. apply dp_geom_ok; [apply to_lt'|exact Ha|apply dfacts]. Qed.

Lemma color_from c : N.testbit (colors b c) from = color_eqb c me.
Proof.
  destruct (cell_Some _ _ _ _ Hc) as [Hp [_ Hcol]].
  rewrite (Rep_color_of b from c HR from_lt') by (rewrite Hp; discriminate). rewrite Hcol. reflexivity.
Qed.

Lemma empty_colors s c : s < 64 -> piece_at b s = 0 -> N.testbit (colors b c) s = false.
Proof.
  intros Hs H0. destruct (Rep_colors b s HR Hs) as [H1 _]. rewrite H0 in H1. cbn in H1.
  apply orb_false_iff in H1. destruct c; tauto.
Qed.

Lemma holds_q1 a : a < 64 ->
  holds q1 a them Pawn = negb (a =? to) && negb (a =? from) && (piece_at b a =? Pawn) && N.testbit (colors b them) a.
Proof.
  intros Ha. unfold holds. rewrite (who_q1 a Ha).
  destruct (N.eqb_spec a to) as [E1|E1]; cbn [negb andb].
  - unfold them. rewrite color_eqb_flip'. reflexivity.
  - destruct (N.eqb_spec a from) as [E2|E2]; cbn [negb andb]; [reflexivity|].
    unfold cell. destruct (N.eqb_spec (piece_at b a) 0) as [E3|E3].
    + rewrite E3. reflexivity.
    + rewrite (Rep_color_of b a them HR Ha E3). rewrite (N.eqb_sym Pawn). apply andb_comm.
Qed.

Lemma pseudo_q1 a : a < 64 -> holds q1 a them Pawn = true ->
  pseudo_spec q1 (mk_move a mid 0) = mem (pawn_attacks them a) mid.
Proof.
  intros Ha Hh. destruct dfacts as [_ [_ [Hm0 [_ [_ [_ [Hml [Hmt [Hmf _]]]]]]]]].
  destruct (mk_move_proj a mid Ha Hml) as [P1 [P2 P3]].
  unfold pseudo_spec. rewrite P1, P2, P3.
  unfold holds in Hh. destruct (who q1 a) as [[c' k']|] eqn:W; [|discriminate].
  apply andb_true_iff in Hh. destruct Hh as [Hh1 Hh2]. apply color_eqb_eq in Hh1. apply N.eqb_eq in Hh2. subst c' k'.
  change (turn q1) with them. rewrite color_eqb_refl. cbn [andb].
  assert (Wm : who q1 mid = None).
  { rewrite (who_q1 mid Hml). rewrite (proj2 (N.eqb_neq mid to)) by exact Hmt.
    rewrite (proj2 (N.eqb_neq mid from)) by exact Hmf. unfold cell. rewrite Hm0. reflexivity. }
  unfold owned_by, empty. rewrite Wm. cbn [negb andb].
  change (Pawn =? Pawn) with true. cbv iota.
  pose proof (geom a Ha) as G. unfold dp_geom in G. fold them mid in G.
  repeat (apply andb_true_iff in G; destruct G as [G ?]).
  apply negb_true_iff in H. rewrite H. change (0 =? 0) with true. cbn [andb].
  (* single step *)
  assert (S1 : (mid =? fwd them a) = false).
  { destruct (mid =? fwd them a) eqn:E; [|reflexivity]. cbn [implb] in H1. apply N.eqb_eq in H1. subst a.
    rewrite (who_q1 to to_lt'), N.eqb_refl in W. assert (X : me = them) by congruence. destruct (flip_neq me X). }
  rewrite S1. cbn [andb orb].
  apply negb_true_iff in H0. 
  rewrite H0. cbn [andb orb]. cbn [epsq q1]. rewrite N.eqb_refl, andb_true_r. reflexivity.
Qed.

Lemma ables_testbit a : a < 64 ->
  N.testbit ables a = mem (pawn_attacks them a) mid && (piece_at b a =? Pawn) && N.testbit (colors b them) a.
Proof.
  intros Ha. unfold ables. rewrite !band_testbit.
  rewrite (Rep_pieces b a Pawn HR Ha) by (unfold Pawn; lia).
  pose proof (geom a Ha) as G. unfold dp_geom in G. fold them mid in G.
  repeat (apply andb_true_iff in G; destruct G as [G ?]). apply eqb_prop in G. rewrite G. reflexivity.
Qed.

Lemma ables_lt : ables < two64.
Proof. unfold ables. apply band_lt. apply (Rep_words b HR). Qed.

Lemma cand_eq a : a < 64 ->
  holds q1 a them Pawn && pseudo_spec q1 (mk_move a mid 0) = N.testbit ables a.
Proof.
  intros Ha. rewrite (ables_testbit a Ha).
  destruct (holds q1 a them Pawn) eqn:Hh.
  - rewrite (pseudo_q1 a Ha Hh). rewrite (holds_q1 a Ha) in Hh.
    repeat (apply andb_true_iff in Hh; destruct Hh as [Hh ?]). rewrite H, H0. cbn [andb].
    rewrite !andb_true_r. reflexivity.
  - cbn [andb]. rewrite (holds_q1 a Ha) in Hh. symmetry.
    destruct (N.eqb_spec a to) as [E1|E1].
    + subst a. destruct dfacts as [_ [_ [_ [Ht0 _]]]]. rewrite Ht0. cbn. rewrite andb_false_r. reflexivity.
    + destruct (N.eqb_spec a from) as [E2|E2].
      * subst a. rewrite color_from. unfold them. rewrite color_eqb_flip'. apply andb_false_r.
      * cbn [negb andb] in Hh. rewrite <- andb_assoc, Hh. apply andb_false_r.
Qed.

(* ---------------------------------------------------------------------------------------- *)
(* one candidate a: the occupancy surgery = the position after the en-passant capture *)

Section Cap.
Variable a : N.
Hypothesis Ha : a < 64.
Hypothesis Hab : N.testbit ables a = true.

Lemma afacts : a <> to /\ a <> mid /\ a <> from /\ sqfr (file_n mid) (rank_n a) = to /\ piece_at b a = Pawn /\
  N.testbit (colors b them) a = true /\ who q1 a = Some (them, Pawn).
Proof.
  pose proof Hab as H. rewrite (ables_testbit a Ha) in H.
  repeat (apply andb_true_iff in H; destruct H as [H ?]). apply N.eqb_eq in H1.
  pose proof (geom a Ha) as G. unfold dp_geom in G. fold them mid in G.
  repeat (apply andb_true_iff in G; destruct G as [G ?]). apply eqb_prop in G. rewrite G, H in H5. cbn [implb] in H5.
  repeat (apply andb_true_iff in H5; destruct H5 as [H5 ?]).
  apply negb_true_iff in H5, H7, H8. apply N.eqb_neq in H5, H7, H8. apply N.eqb_eq in H6.
  destruct dfacts as [_ [Hfr _]]. rewrite <- Hfr in H7.
  repeat split; try assumption.
  assert (Hh : holds q1 a them Pawn = true).
  { rewrite (holds_q1 a Ha). rewrite (proj2 (N.eqb_neq a to)) by assumption.
    rewrite (proj2 (N.eqb_neq a from)) by assumption. rewrite H1, H0. reflexivity. }
  unfold holds in Hh. destruct (who q1 a) as [[c' k']|]; [|discriminate].
  apply andb_true_iff in Hh. destruct Hh as [Hh1 Hh2]. apply color_eqb_eq in Hh1. apply N.eqb_eq in Hh2. congruence.
Qed.

Definition q2 : pos := with_placement q1 (place_after q1 (mk_move a mid 0)).

Lemma who_q2 s : s < 64 ->
  who q2 s = if s =? to then None else if s =? mid then Some (them, Pawn) else if s =? a then None else who q1 s.
Proof.
  intros Hs. destruct afacts as [A1 [A2 [A3 [A4 [A5 [A6 A7]]]]]].
  destruct dfacts as [_ [_ [_ [_ [_ [_ [Hml _]]]]]]].
  destruct (mk_move_proj a mid Ha Hml) as [P1 [P2 P3]].
  unfold who at 1. unfold q2. cbn [at_ with_placement]. unfold place_after. rewrite P1, P2, P3, A7.
  change (0 =? 0) with true. cbv iota.
  unfold is_ep_capture, is_castling, holds. rewrite P1, P2, A7. change (turn q1) with them.
  rewrite color_eqb_refl. change (Pawn =? Pawn) with true. change (King =? Pawn) with false.
  cbn [andb epsq q1]. rewrite N.eqb_refl, A4.
  rewrite !nthN_put by (rewrite ?length_put; try apply at_q1_length; assumption || apply to_lt').
  reflexivity.
Qed.

(* every square of the position after the capture, in terms of the board before the push *)
Lemma who_q2' s : s < 64 ->
  who q2 s = if s =? to then None else if s =? mid then Some (them, Pawn) else if s =? a then None
             else if s =? from then None else cell b s.
Proof.
  intros Hs. rewrite (who_q2 s Hs), (who_q1 s Hs).
  destruct (N.eqb_spec s to); [reflexivity|]. reflexivity.
Qed.

Lemma piece_mid : piece_at b mid = 0. Proof. apply dfacts. Qed.
Lemma piece_to : piece_at b to = 0. Proof. apply dfacts. Qed.
Lemma mid_lt : mid < 64. Proof. apply dfacts. Qed.

Lemma holds_king_q2 s : s < 64 -> holds q2 s them King = holds (abs b) s them King.
Proof.
  intros Hs. destruct afacts as [A1 [A2 [A3 [A4 [A5 [A6 A7]]]]]].
  unfold holds. rewrite (who_q2' s Hs), (who_abs b s Hs).
  destruct (N.eqb_spec s to) as [E|E]; [subst s; unfold cell; rewrite piece_to; reflexivity|].
  destruct (N.eqb_spec s mid) as [E1|E1]; [subst s; unfold cell; rewrite piece_mid; rewrite andb_false_r; reflexivity|].
  destruct (N.eqb_spec s a) as [E2|E2]; [subst s; unfold cell; rewrite A5; cbn; rewrite andb_false_r; reflexivity|].
  destruct (N.eqb_spec s from) as [E3|E3]; [subst s; rewrite Hc; rewrite andb_false_r; reflexivity|].
  reflexivity.
Qed.

Definition t0 : N := king_sq (abs b) them.

Lemma king_q2 : king_sq q2 them = t0.
Proof.
  unfold t0, king_sq. f_equal. apply filter_ext_in. intros s Hs. apply holds_king_q2. apply squares64_In. exact Hs.
Qed.

Lemma t0_facts : t0 < 64 /\ cell b t0 = Some (them, King) /\
  (forall s, s < 64 -> cell b s = Some (them, King) -> s = t0).
Proof.
  unfold t0. destruct (unique_king (abs b) them (valid_core_king _ them HV)) as [U1 [U2 U3]].
  split; [exact U1|].
  assert (C : forall s, s < 64 -> holds (abs b) s them King = true <-> cell b s = Some (them, King)).
  { intros s Hs. rewrite (holds_abs b s them King Hs). destruct (cell b s) as [[c' k']|]; split; try discriminate.
    - intros H. apply andb_true_iff in H. destruct H as [H1 H2]. apply color_eqb_eq in H1. apply N.eqb_eq in H2. congruence.
    - intros H. inversion H. rewrite color_eqb_refl. reflexivity. }
  split.
  - apply C; assumption.
  - intros s Hs H. apply U3; [exact Hs|]. apply C; assumption.
Qed.

Definition occ_a : N :=
  bandn (bor (bor (colors b White) (colors b Black)) (bit mid)) (bor (bor (bit to) (bit a)) (bit from)).

Lemma occ_eq : occ_a = occ_of q2.
Proof.
  destruct afacts as [A1 [A2 [A3 [A4 [A5 [A6 A7]]]]]].
  destruct dfacts as [_ [_ [_ [_ [_ [_ [Hml [Hmt [Hmf Hft]]]]]]]]].
  apply N.bits_inj. intros s. unfold occ_a.
  rewrite bandn_testbit, !bor_testbit, !bit_testbit, occ_of_testbit.
  destruct (N.ltb_spec s 64) as [L|L]; cbn [andb].
  - unfold empty. rewrite (who_q2' s L). destruct (Rep_colors b s HR L) as [RC _]. rewrite RC.
    rewrite (N.eqb_sym mid s), (N.eqb_sym to s), (N.eqb_sym a s), (N.eqb_sym from s).
    destruct (N.eqb_spec s to) as [E|E].
    + rewrite !orb_true_l. cbn [negb]. apply andb_false_r.
    + destruct (N.eqb_spec s mid) as [E1|E1].
      * subst s. rewrite (proj2 (N.eqb_neq mid a)) by congruence. rewrite (proj2 (N.eqb_neq mid from)) by congruence.
        rewrite orb_true_r. reflexivity.
      * destruct (N.eqb_spec s a) as [E2|E2]; [cbn; apply andb_false_r|].
        destruct (N.eqb_spec s from) as [E3|E3]; [cbn; apply andb_false_r|].
        cbn [orb negb]. rewrite orb_false_r, andb_true_r. unfold cell.
        destruct (piece_at b s =? 0); reflexivity.
  - destruct (Rep_words b HR) as [_ HC].
    rewrite (lt_two64_testbit _ (HC White) s L), (lt_two64_testbit _ (HC Black) s L).
    rewrite (proj2 (N.eqb_neq mid s)) by lia. reflexivity.
Qed.

Lemma king_bits t : N.testbit (band (pieces b King) (colors b them)) t = true <-> t = t0.
Proof.
  destruct t0_facts as [T1 [T2 T3]]. destruct (Rep_words b HR) as [HP HC]. rewrite band_testbit. split.
  - intros H. apply andb_true_iff in H. destruct H as [H1 H2].
    pose proof (testbit_lt64 _ _ (HC them) H2) as Ht. apply T3; [exact Ht|].
    rewrite (Rep_pieces b t King HR Ht) in H1 by (unfold King; lia). apply N.eqb_eq in H1.
    unfold cell. rewrite H1. change (King =? 0) with false. cbv iota.
    rewrite (Rep_color_of b t them HR Ht) in H2 by (rewrite H1; discriminate).
    apply color_eqb_eq in H2. rewrite <- H2. reflexivity.
  - intros ->. destruct (cell_Some _ _ _ _ T2) as [Q1 [Q2 Q3]].
    rewrite (Rep_pieces b t0 King HR T1) by (unfold King; lia). rewrite Q1, N.eqb_refl. cbn [andb].
    rewrite (Rep_color_of b t0 them HR T1) by (rewrite Q1; discriminate). rewrite Q3. apply color_eqb_refl.
Qed.

(* the pawn still standing on its origin square does not attack the enemy king (valid position) *)
Lemma origin_pawn_harmless : mem (pawn_attacks me from) t0 = false.
Proof.
  destruct (valid_core_parts _ HV) as [_ [_ [HC _]]].
  unfold in_check_spec in HC. cbn [turn abs] in HC. rewrite flip_flip in HC. unfold attacked_by in HC.
  unfold t0, them, me.
  pose proof (existsb_false_all _ _ from HC (proj2 (squares64_In from) from_lt')) as K. cbv beta in K.
  rewrite (who_abs b from from_lt'), Hc, color_eqb_refl in K. cbn [andb] in K. exact K.
Qed.

Lemma att_pointwise s : s < 64 ->
  att_from b me occ_a s t0 =
  match who q2 s with
  | Some (c', k) => color_eqb me c' && mem (attacks_from me k s (occ_of q2)) t0
  | None => false
  end.
Proof.
  intros Hs. destruct afacts as [A1 [A2 [A3 [A4 [A5 [A6 A7]]]]]].
  rewrite <- occ_eq, (who_q2' s Hs). unfold att_from.
  destruct (N.eqb_spec s to) as [E|E].
  { subst s. rewrite (empty_colors to me to_lt' piece_to). reflexivity. }
  destruct (N.eqb_spec s mid) as [E1|E1].
  { subst s. rewrite (empty_colors mid me mid_lt piece_mid). unfold them. rewrite color_eqb_flip. reflexivity. }
  destruct (N.eqb_spec s a) as [E2|E2].
  { subst s. assert (Hnz : piece_at b a <> 0) by (rewrite A5; discriminate).
    rewrite (Rep_color_of b a me HR Ha Hnz). rewrite (Rep_color_of b a them HR Ha Hnz) in A6.
    apply color_eqb_eq in A6. rewrite <- A6. unfold them. rewrite color_eqb_flip. reflexivity. }
  destruct (N.eqb_spec s from) as [E3|E3].
  { subst s. destruct (cell_Some _ _ _ _ Hc) as [Hp _]. rewrite Hp.
    change (attacks_from me Pawn from occ_a) with (pawn_attacks me from). rewrite origin_pawn_harmless. apply andb_false_r. }
  unfold cell. destruct (N.eqb_spec (piece_at b s) 0) as [E4|E4].
  - rewrite (empty_colors s me Hs E4). reflexivity.
  - rewrite (Rep_color_of b s me HR Hs E4). reflexivity.
Qed.

Lemma check_eq :
  is_attacked b me occ_a (band (pieces b King) (colors b them)) = in_check_spec q2 them.
Proof.
  unfold in_check_spec. rewrite king_q2. unfold them at 2. rewrite flip_flip.
  assert (E : attacks_sq b me occ_a t0 = attacked_by q2 me t0).
  { unfold attacks_sq, attacked_by. apply existsb_squares64_ext. intros s Hs. apply att_pointwise. exact Hs. }
  rewrite <- E.
  destruct (Rep_words b HR) as [HP HC].
  destruct (attacks_sq b me occ_a t0) eqn:AT.
  - apply (is_attacked_iff b me occ_a _ HR (band_lt _ _ (HC them))). exists t0. split; [|exact AT].
    apply king_bits. reflexivity.
  - destruct (is_attacked b me occ_a (band (pieces b King) (colors b them))) eqn:IA; [|reflexivity].
    apply (is_attacked_iff b me occ_a _ HR (band_lt _ _ (HC them))) in IA. destruct IA as [t [I1 I2]].
    apply king_bits in I1. subst t. congruence.
Qed.

End Cap.

(* CanEnPassant in terms of the names above *)
Lemma can_en_passant_unfold :
  can_en_passant b to =
  existsb (fun a => negb (is_attacked b me (occ_a a) (band (pieces b King) (colors b them)))) (bits_of ables).
Proof.
  unfold can_en_passant. fold me them.
  destruct dfacts as [Hr [Hfr _]].
  destruct (dp_squares me to Hr) as [S1 S2]. cbv zeta in S1, S2. fold mid in S1. rewrite <- Hfr in S2.
  cbv zeta. rewrite S1, S2. reflexivity.
Qed.

Lemma can_ep_eq : can_en_passant b to = ep_capturable q0 mid.
Proof.
  rewrite can_en_passant_unfold. unfold ep_capturable. fold q1. change (turn q1) with them.
  destruct (existsb _ (bits_of ables)) eqn:E1; symmetry.
  - apply existsb_exists in E1. destruct E1 as [a [I1 I2]]. apply bits_of_spec in I1.
    pose proof (testbit_lt64 _ _ ables_lt I1) as Ha.
    apply existsb_squares64. exists a. split; [exact Ha|].
    pose proof (cand_eq a Ha) as C. rewrite I1 in C. apply andb_true_iff in C. destruct C as [C1 C2].
    rewrite C1. cbn [andb]. unfold legal_spec. rewrite C2. cbn [andb].
    rewrite (check_eq a Ha I1) in I2. exact I2.
  - destruct (existsb _ squares64) eqn:E2; [|reflexivity].
    apply existsb_squares64 in E2. destruct E2 as [a [Ha E2]].
    apply andb_true_iff in E2. destruct E2 as [C1 C2]. unfold legal_spec in C2.
    apply andb_true_iff in C2. destruct C2 as [C2 C3].
    assert (I1 : N.testbit ables a = true) by (rewrite <- (cand_eq a Ha), C1, C2; reflexivity).
    assert (X : existsb (fun a0 => negb (is_attacked b me (occ_a a0) (band (pieces b King) (colors b them)))) (bits_of ables) = true).
    { apply existsb_exists. exists a. split; [apply bits_of_spec; exact I1|].
      rewrite (check_eq a Ha I1). exact C3. }
    congruence.
Qed.

End Ep.
