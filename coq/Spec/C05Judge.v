(* Spec-level oracles of property C05.  They look only at what the implementation produced and at
   Spec/Chess.v ([valid], [abs]); the engine model (Model/Movegen.v) is not used.

   judge_c05: input = board-in ++ [#accepted; accepted...; #generated; generated...]
     [1]        the position is not valid (outside the property's domain), or the set of encodings
                accepted by IsPseudoLegal equals the set of generated encodings
     [0; 1; m]  encoding m was accepted but is not generated
     [0; 2; m]  encoding m is generated but was not accepted
     [0; 3; m]  an observed encoding is outside 0..32767
     [0; 9]     malformed observation

   judge_c05u: input = board-in ++ [len; bytes...] ++ [ok; move; #generated; generated...]
     [0; 1; m]  parseUCIMove returned move m, which is not a generated move of the position
     [0; 2; m]  the string is the UCI text of the generated move m but was rejected (or another
                move was returned)  *)
From Coq Require Import NArith ZArith List Bool.
From Chess3 Require Import Base.Bits Model.Types Spec.Geometry Model.BoardDef Spec.Chess Spec.ChessJudge.
Import ListNotations.
Open Scope Z_scope.

Definition memN (x : N) (l : list N) : bool := existsb (N.eqb x) l.
Definition first_not_in (a b : list N) : option N := find (fun x => negb (memN x b)) a.

Definition judge_sets (acc gen : list N) : list Z :=
  match find (fun x => negb (x <? 32768)%N) (acc ++ gen) with
  | Some m => [0; 3; Z.of_N m]
  | None =>
    match first_not_in acc gen with
    | Some m => [0; 1; Z.of_N m]
    | None =>
      match first_not_in gen acc with
      | Some m => [0; 2; Z.of_N m]
      | None => [1]
      end
    end
  end.

Definition judge_c05 (l : list Z) : list Z :=
  match decode_board l with
  | Some (b, rest) =>
      if negb (valid (abs b)) then [1] else
      let '(acc, r1) := take_counted rest in
      let '(gen, r2) := take_counted r1 in
      match rest, r1, r2 with
      | _ :: _, _ :: _, [] => judge_sets (map Z.to_N acc) (map Z.to_N gen)
      | _, _, _ => [0; 9]
      end
  | None => [0; 9]
  end.

(* the UCI long algebraic text of a move encoding, as byte codes: file letter, rank digit of both
   squares, then n / b / r / q for a promotion *)
Definition uci_text (m : N) : list N :=
  let sq (s : N) : list N := [97 + file_n s; 49 + rank_n s]%N in
  sq (mv_from m) ++ sq (mv_to m) ++
  (let pr := mv_promo m in
   if pr =? Knight then [110] else if pr =? Bishop then [98] else if pr =? Rook then [114]
   else if pr =? Queen then [113] else [])%N.

Fixpoint list_eqb (a b : list N) : bool :=
  match a, b with
  | [], [] => true
  | x :: r, y :: s => (x =? y)%N && list_eqb r s
  | _, _ => false
  end.

Definition judge_c05u (l : list Z) : list Z :=
  match decode_board l with
  | Some (b, n :: rest) =>
      if negb (valid (abs b)) then [1] else
      let s := map Z.to_N (firstn (Z.to_nat n) rest) in
      match skipn (Z.to_nat n) rest with
      | ok :: m :: obs =>
          let gen := map Z.to_N (fst (take_counted obs)) in
          let m := Z.to_N m in
          if (ok =? 1) && negb (memN m gen) then [0; 1; Z.of_N m]
          else match find (fun g => list_eqb (uci_text g) s) gen with
               | Some g => if (ok =? 1) && (m =? g)%N then [1] else [0; 2; Z.of_N g]
               | None => [1]
               end
      | _ => [0; 9]
      end
  | _ => [0; 9]
  end.
