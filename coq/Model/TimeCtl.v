(* Model of uci/uci.go:410-465 (timeControl.timedMode / softLimit / hardLimit) on Go int64. *)
From Coq Require Import ZArith Bool List.
Import ListNotations.
From Chess3 Require Import Base.Word Gen.TimeConsts.
Open Scope Z_scope.

Inductive color := White | Black.

Record tc := { wtime : Z; btime : Z; winc : Z; binc : Z; mtime : Z }.

Definition timed_mode (t : tc) (c : color) : bool :=
  match c with
  | White => (0 <? wtime t) || (0 <? mtime t)
  | Black => (0 <? btime t) || (0 <? mtime t)
  end.

(* every Go int64 operation is followed by wrap64 *)
Definition soft_limit (t : tc) (c : color) : Z :=
  if 0 <? mtime t then mtime t else
  match c with
  | White => if 0 <? wtime t then wrap64 (Z.quot (wtime t) PredictedMoves + Z.quot (winc t) 2) else TimeInf
  | Black => if 0 <? btime t then wrap64 (Z.quot (btime t) PredictedMoves + Z.quot (binc t) 2) else TimeInf
  end.

Definition time_left (t : tc) (c : color) : Z :=
  match c with
  | White => if 0 <? wtime t then wtime t else TimeInf
  | Black => if 0 <? btime t then btime t else TimeInf
  end.

Definition hard_limit (t : tc) (c : color) : Z :=
  if 0 <? mtime t then mtime t else
  let left := time_left t c in
  if left <=? TimeSafetyMargin then left
  else clamp (wrap64 (HardLimitFactor * soft_limit t c)) TimeSafetyMargin (wrap64 (left - TimeSafetyMargin)).

(* time.Duration(h) * time.Millisecond : int64 nanoseconds *)
Definition duration_ns (h : Z) : Z := wrap64 (h * 1000000).

(* correspondence entry point: [wtime; btime; winc; binc; mtime; colour] -> [timed; soft; hard; duration] *)
Definition run_c14 (input : list Z) : list Z :=
  match input with
  | w :: b :: wi :: bi :: m :: c :: nil =>
      let t := {| wtime := w; btime := b; winc := wi; binc := bi; mtime := m |} in
      let col := if c =? 0 then White else Black in
      (* the same request with the opponent's clock perturbed (wrap-around as in Go) *)
      let t' := match col with
                | White => {| wtime := w; btime := wrap64 (b + 12345); winc := wi; binc := wrap64 (bi + 777); mtime := m |}
                | Black => {| wtime := wrap64 (w + 12345); btime := b; winc := wrap64 (wi + 777); binc := bi; mtime := m |}
                end in
      (if timed_mode t col then 1 else 0) :: soft_limit t col :: hard_limit t col
        :: duration_ns (hard_limit t col) :: soft_limit t' col :: hard_limit t' col :: nil
  | _ => nil
  end.

(* Property judge used by the witness search: input ++ observed output -> [1] when the observation
   satisfies C14 (or lies outside its domain), [0; clause] otherwise. *)
Definition judge_c14 (io : list Z) : list Z :=
  match io with
  | w :: b :: wi :: bi :: m :: c :: timed :: soft :: hard :: dur :: soft2 :: hard2 :: nil =>
      let rem := if c =? 0 then w else b in
      let inc := if c =? 0 then wi else bi in
      if negb ((soft2 =? soft) && (hard2 =? hard)) then [0; 8]
      else if 0 <? m then
        if negb ((soft =? m) && (hard =? m)) then [0; 5]
        else if (m <=? 9000000000000) && negb (dur =? m * 1000000) then [0; 6]
        else if negb (timed =? 1) then [0; 7] else [1]
      else if negb ((1 <=? rem) && (rem <=? 9000000000000) && (0 <=? inc) && (inc <=? 1152921504606846976) && (m =? 0))
      then [1]
      else if negb (0 <? hard) then [0; 1]
      else if negb (hard <=? rem) then [0; 2]
      else if (TimeSafetyMargin <? rem) && negb (hard <=? rem - TimeSafetyMargin) then [0; 3]
      else if negb (dur =? hard * 1000000) then [0; 4]
      else if negb (timed =? 1) then [0; 7]
      else [1]
  | _ => [0; 99]
  end.
