package streams

import (
	"fmt"
	"sync"

	"github.com/paulsonkoly/chess-3/board"
	. "github.com/paulsonkoly/chess-3/chess"

	"verifharness/hx"
	"verifharness/posgen"
)

// c09:      board-in -> [InCheck(stm), IsCheckmate, IsStalemate, number of playable moves]
//
//	The engine calls IsCheckmate only when the side to move is in check and IsStalemate only when
//	it is not (search.go, quiescence). Outside its domain IsCheckmate indexes InBetween[kingSq][64]
//	and panics, so each function is called only inside its domain; 2 stands for "not called".
//
// c09sweep: same observation; the generator sweeps the small-material classes on the Go side
//
//	(IsCheckmate / IsStalemate against the playable-move count), emits every position on which the two
//	disagree and a sample of the others, so that the extracted model and the spec judge see them.
//
// c09ab:    board-in ++ [squares colour] -> [Attackers(squares, occ, colour), Block(squares, colour)]
func init() {
	hx.Register(&hx.Stream{Name: "c09", Gen: genC09, Run: runC09})
	hx.Register(&hx.Stream{Name: "c09sweep", Gen: genC09Sweep, Run: runC09})
	hx.Register(&hx.Stream{Name: "c09ab", Gen: genC09ab, Run: runC09ab})
}

func verdicts(b *board.Board) (inChk bool, mate, stale uint64) {
	inChk = b.InCheck(b.STM)
	mate, stale = 2, 2
	if inChk {
		mate = 0
		if b.IsCheckmate() {
			mate = 1
		}
	} else {
		stale = 0
		if b.IsStalemate() {
			stale = 1
		}
	}
	return
}

func runC09(a hx.Args) string {
	b, _ := a.Board(0)
	inChk, mate, stale := verdicts(b)
	return (&hx.Nums{}).B(inChk).U(mate, stale).Int(len(posgen.Legal(b))).String()
}

func runC09ab(a hx.Args) string {
	b, i := a.Board(0)
	sq, c := BitBoard(a.U64(i)), Color(a.U64(i+1)&1)
	occ := b.Colors[White] | b.Colors[Black]
	return (&hx.Nums{}).U(uint64(b.Attackers(sq, occ, c)), uint64(b.Block(sq, c))).String()
}

var c09counter = posgen.NewCounter()

func c09Input(p posgen.Pos, extra ...string) hx.Input {
	b := p.B
	tags := append(posgen.Tags(b), p.Kind)
	tags = append(tags, extra...)
	n := c09counter.Count(b, 3)
	inChk := b.InCheck(b.STM)
	switch {
	case n == 0 && inChk:
		tags = append(tags, "checkmate")
	case n == 0:
		tags = append(tags, "stalemate")
	case n <= 2:
		tags = append(tags, "legal<=2")
	}
	if inChk && b.Attackers(b.Pieces[King]&b.Colors[b.STM], b.Colors[White]|b.Colors[Black], b.STM.Flip()).Count() > 1 {
		tags = append(tags, "double-check")
	}
	if posgen.HasPinned(b) {
		tags = append(tags, "pinned-man")
	}
	return hx.Input{In: (&hx.Nums{}).BoardIn(b).String(), Desc: p.Kind + " fen " + b.FEN() + " | " + p.Desc(),
		Tags: tags, NonTrivial: true, Key: b.FEN()}
}

// interesting for this property: in check, a pinned man, an en-passant target, or few legal moves
func c09Interesting(b *board.Board) bool {
	return b.InCheck(b.STM) || b.EnPassant != 0 || posgen.HasPinned(b) || c09counter.Count(b, 3) <= 2
}

func smallSample(rng *hx.Rng) *posgen.Pos {
	// classes are sampled uniformly (not by size), positions inside a class uniformly
	c := posgen.Classes[rng.Intn(len(posgen.Classes))]
	wantEP := c.Name == "KPKP" && rng.Chance(0.4)
	for try := 0; try < 100000; try++ {
		idx := rng.U64() % c.Size()
		if wantEP {
			// indices that carry an en-passant state
			per := c.Size() / uint64(1+pawnCount(c))
			idx = idx%per + per*uint64(1+rng.Intn(pawnCount(c)))
		}
		if b := c.At(idx); b != nil {
			return &posgen.Pos{B: b, Root: b.FEN(), Kind: "G3-" + c.Name}
		}
	}
	return nil
}

func pawnCount(c posgen.Class) int {
	n := 0
	for _, p := range c.Pieces {
		if p.P == Pawn {
			n++
		}
	}
	return n
}

func genC09(rng *hx.Rng, n int, tier string, emit func(hx.Input)) {
	cnt := 0
	out := func(p posgen.Pos, extra ...string) {
		emit(c09Input(p, extra...))
		cnt++
	}
	// G6: constructed positions, their mirrors, and single-piece mutations of them
	cons := posgen.ConstructedAll()
	for _, p := range cons {
		out(p)
	}
	for i := 0; i < n/20; i++ {
		p := cons[rng.Intn(len(cons))]
		if !posgen.Valid(p.B) {
			continue
		}
		if q := posgen.Mutate(rng, p); q != nil {
			q.Kind = "G6m"
			out(*q)
		}
	}
	// G8: constructed "only an en-passant capture can be played" positions and their neighbourhood
	// (about 12 %; the attempts are bounded, the yield of the construction is about one in six)
	for i, tries := 0, 0; i < n*12/100 && tries < 40*n; tries++ {
		if p := posgen.EPOnly(rng); p != nil {
			if p.Kind == "G8-near" && !rng.Chance(0.25) {
				continue
			}
			out(*p)
			i++
		}
	}
	// G3: sampled small material (about 38 %)
	for i := 0; i < n*38/100; i++ {
		if p := smallSample(rng); p != nil {
			out(*p)
		}
	}
	// G7: themed random positions (about 25 %), biased towards few legal moves
	for i, tries := 0, 0; i < n*25/100 && tries < 200*n; tries++ {
		p := posgen.Themed(rng)
		if p == nil {
			continue
		}
		few := c09counter.Count(p.B, 3) <= 2
		if few || (c09Interesting(p.B) && rng.Chance(0.5)) || rng.Chance(0.1) {
			out(*p)
			i++
		}
	}
	// G1/G2/G4: play-outs, sparse placements and mutations, filtered for in-check / pinned / ep / few moves
	for tries := 0; cnt < n && tries < 50; tries++ {
		posgen.Stream(rng.Fork(), 4*(n-cnt)+16, func(p posgen.Pos) {
			if cnt >= n {
				return
			}
			if c09Interesting(p.B) || rng.Chance(0.05) {
				out(p)
			}
		})
	}
}

// genC09Sweep: implementation-side sweep of the small-material classes. quick: a random 1/stride
// sub-lattice of the index space, thorough: everything. n bounds the number of agreeing positions
// that are emitted as a sample; every disagreement is emitted.
func genC09Sweep(rng *hx.Rng, n int, tier string, emit func(hx.Input)) {
	stride := uint64(1)
	if tier != "thorough" {
		stride = 251
	}
	const workers = 16
	type found struct {
		idx   uint64
		class string
		bad   bool
	}
	total := posgen.SmallTotal()
	off := rng.U64() % stride
	cnt := (total - off + stride - 1) / stride
	sampleEvery := uint64(1)
	// estimated share of indices that are positions of the domain: about 0.3
	if est := cnt * 3 / 10; n > 0 && est > uint64(n) {
		sampleEvery = est / uint64(n)
	}
	var mu sync.Mutex
	var results [workers][]found
	swept := map[string]uint64{}
	var wg sync.WaitGroup
	per := (cnt + workers - 1) / workers
	for w := 0; w < workers; w++ {
		wg.Add(1)
		go func(w int) {
			defer wg.Done()
			counter := posgen.NewCounter()
			local := map[string]uint64{}
			lo, hi := uint64(w)*per, uint64(w+1)*per
			if hi > cnt {
				hi = cnt
			}
			var valid uint64
			for j := lo; j < hi; j++ {
				idx := off + j*stride
				c, _, b := posgen.SmallAt(idx)
				if b == nil {
					continue
				}
				valid++
				local[c.Name]++
				inChk, mate, stale := verdicts(b)
				none := counter.Count(b, 1) == 0
				bad := (inChk && (mate == 1) != none) || (!inChk && (stale == 1) != none)
				if bad || valid%sampleEvery == 0 {
					results[w] = append(results[w], found{idx, c.Name, bad})
				}
			}
			mu.Lock()
			for k, v := range local {
				swept[k] += v
			}
			mu.Unlock()
		}(w)
	}
	wg.Wait()
	var all uint64
	for _, v := range swept {
		all += v
	}
	first := true
	for w := 0; w < workers; w++ {
		for _, f := range results[w] {
			_, _, b := posgen.SmallAt(f.idx)
			extra := []string{}
			if f.bad {
				extra = append(extra, "sweep-disagreement")
			}
			if first {
				// the volume of the sweep, recorded in the input-distribution histogram
				extra = append(extra, fmt.Sprintf("swept-positions=%d", all), fmt.Sprintf("swept-indices=%d", cnt))
				for k, v := range swept {
					extra = append(extra, fmt.Sprintf("swept-%s=%d", k, v))
				}
				first = false
			}
			emit(c09Input(posgen.Pos{B: b, Root: b.FEN(), Kind: "G3-" + f.class}, extra...))
		}
	}
}

func genC09ab(rng *hx.Rng, n int, tier string, emit func(hx.Input)) {
	cnt := 0
	one := func(p posgen.Pos) {
		b := p.B
		var sq BitBoard
		switch rng.Intn(5) {
		case 0:
			sq = b.Pieces[King] & b.Colors[b.STM]
		case 1:
			sq = BitBoard(1) << uint(rng.Intn(64))
		case 2:
			sq = BitBoard(rng.U64() & rng.U64() & rng.U64())
		case 3:
			// a line of squares, as IsCheckmate passes to Block
			k := (b.Pieces[King] & b.Colors[b.STM]).LowestSet()
			sq = BitBoard(rng.U64()) & ^(b.Colors[White] | b.Colors[Black])
			_ = k
		default:
			sq = BitBoard(rng.U64())
		}
		c := Color(rng.Intn(2))
		in := (&hx.Nums{}).BoardIn(b).U(uint64(sq), uint64(c)).String()
		emit(hx.Input{In: in, Desc: fmt.Sprintf("%s fen %s squares=%x colour=%d", p.Kind, b.FEN(), uint64(sq), c),
			Tags: append(posgen.Tags(b), p.Kind), NonTrivial: sq != 0, Key: in})
		cnt++
	}
	for _, p := range posgen.ConstructedAll() {
		if cnt < n {
			one(p)
		}
	}
	for cnt < n {
		posgen.Stream(rng.Fork(), n-cnt, func(p posgen.Pos) {
			if cnt < n {
				one(p)
			}
		})
	}
}
