(* The root call of depth 1 (ply 0) on the closed search model, with values.

   At depth 1 every child of the root is a quiescence search at ply 1 (the child call has depth 0), null
   move pruning is off (it needs depth > 1), internal iterative reduction too, and late move reductions
   need depth > 1: the only values that occur are those of quiescence (Proofs/SearchModelBoundsVal.v), the
   static evaluation (reverse futility pruning) and the mate / stalemate score of the root.  Hence, for a
   table holding only scores ([tt_values_ok]):
     - the table keeps holding only scores, the value returned is a score in [-Inf, Inf];
     - every searched move has a value >= -Inf = the initial maximum + 1, so a call that answers strictly
       inside its window with an empty line either stands on a final root (clock, repetition) or left
       its move loop without having found a legal move: all moves the picker handed out were illegal
       ([no_legal_exit]; with the picker's completeness, C16: no playable move). *)
From Coq Require Import NArith ZArith List Bool Lia Permutation.
From Chess3 Require Import Proofs.LayoutNow.
From Chess3 Require Import Base.Bits Base.Word Model.Types Model.BoardDef Model.Board Model.Search
  Spec.Chess Spec.Rep Spec.Applicable Proofs.PickerProofs Proofs.SearchModelInv Proofs.SearchModelPicker
  Proofs.SearchModelBoard Proofs.SearchModelLegalBase Proofs.SearchModelLegal Proofs.SearchModelLegalId
  Proofs.SearchModelLegalNull Proofs.SearchModelLegalFuel Proofs.SearchModelBoundsMu Proofs.SearchModelBoundsQ
  Proofs.SearchModelBoundsVal.
From Chess3 Require Model.Movegen Model.Mate Model.Eval Model.TT Model.Hist Model.Picker Model.See
  Model.Pv Model.IterDeepen Proofs.PvProofs Proofs.GenMake.
Import ListNotations.
Open Scope Z_scope.
Ltac Zify.zify_post_hook ::= Z.to_euclidean_division_equations.

(* ------------------------------------------------------------------------------------------ *)
(* runs of the picker to exhaustion: consecutive calls of Next on an unchanged position, ranker and
   history stack, the moves handed out *)
Inductive drained (rk : Hist.ranker) (hs : list hentry) (b : board) : Picker.picker -> list Z -> Prop :=
| dr_end p p' : pnext rk hs b p = Ok (false, p') -> drained rk hs b p []
| dr_step p p' ys : pnext rk hs b p = Ok (true, p') -> drained rk hs b p' ys ->
                    drained rk hs b p (fst (Picker.current p') :: ys).

(* the picker as alphaBeta sets it up: picker.New(b, hashMove, s.ms, ...); s.ms.Push() *)
Definition fresh_picker (s : Picker.store) (hm : Z) : Picker.picker :=
  p_with_store (Picker.picker_new s hm) (Picker.store_push s).

(* C16 on the search's interface: run to exhaustion, the picker hands out every generated move *)
Definition picker_complete (rk : Hist.ranker) (hs : list hentry) (b : board) : Prop :=
  forall s hm ys, mv_ok hm -> drained rk hs b (fresh_picker s hm) ys ->
    forall m, In m (Movegen.gen_all b) -> In (zN m) ys.

Definition not_playable (b : board) (y : Z) : Prop := ~ In y (map zN (Movegen.playable zob b)).

Lemma in_check_not_playable b y b1 r : make zob b (Z.to_N y) = (b1, r) -> in_check b1 (flip (stm b1)) = true ->
  not_playable b y.
Proof.
  intros Em Ck H. apply in_map_iff in H. destruct H as (m & <- & Hm). rewrite toN_zN in Em.
  unfold Movegen.playable in Hm. apply filter_In in Hm. destruct Hm as [_ Hm]. rewrite Em in Hm. cbn [fst] in Hm.
  replace (stm b) with (flip (stm b1)) in Hm; [rewrite Ck in Hm; discriminate Hm|].
  replace b1 with (fst (make zob b m)) by now rewrite Em. rewrite GenMake.make_stm. apply SpecLemmas.flip_flip.
Qed.

Lemma complete_no_playable rk hs b s hm ys : picker_complete rk hs b -> mv_ok hm ->
  drained rk hs b (fresh_picker s hm) ys -> Forall (not_playable b) ys -> Movegen.playable zob b = [].
Proof.
  intros Hpc Hh Hd Hall. destruct (Movegen.playable zob b) as [|m l] eqn:E; [reflexivity|]. exfalso.
  assert (Hm : In m (Movegen.playable zob b)) by (rewrite E; now left).
  pose proof (Hpc s hm ys Hh Hd m (playable_gen b m Hm)) as Hy.
  eapply Forall_forall in Hall; [|exact Hy]. apply Hall. now apply in_map.
Qed.

(* ------------------------------------------------------------------------------------------ *)

Definition ab_val01 (f : sstate -> board -> Z -> Z -> Z -> Z -> Z -> res rt) : Prop :=
  forall st b al be nt v st' b', good b -> tt_values_ok (s_tt st) ->
    f st b al be 0 1 nt = Ok (v, st', b') ->
    tt_values_ok (s_tt st') /\ (s_aborted st' = false -> val_ok 1 v).

(* the maximum so far: initial value -Inf-1 until a legal move has been searched, a score afterwards *)
Definition mrange (hl : bool) (maxim : Z) : Prop :=
  if hl then val_ok 0 maxim else maxim = - SearchParams.Inf - 1.

Lemma val0_score v : val_ok 0 v -> score_ok v.
Proof. apply val_score. lia. Qed.

Section Root1.
  Variable child : sstate -> board -> Z -> Z -> Z -> Z -> Z -> res rt.
  Variable qs : sstate -> board -> Z -> Z -> Z -> res rt.
  Hypothesis Hc : ab_leg child.
  Hypothesis Hcv : ab_val01 child.

  Lemma search_move_root st b1 al be nt next mc qc ic imp v st' b' : good b1 -> tt_values_ok (s_tt st) ->
    search_move child st b1 al be 1 0 nt next mc qc ic imp = Ok (v, st', b') ->
    tt_values_ok (s_tt st') /\ (s_aborted st' = false -> val_ok 0 v).
  Proof.
    intros Hg Ht H. unfold search_move in H. change (1 <? 1) with false in H. cbn [andb] in H.
    change (wrap8 (1 - 1)) with 0 in H. change (wrap8 (0 + 1)) with 1 in H.
    destruct (child st b1 (neg16 be) (neg16 al) 0 1 next) as [[[v1 st1] b2]| |] eqn:E; cbn [bind] in H; try discriminate H.
    injection H as <- <- <-. destruct (Hcv _ _ _ _ _ _ _ _ Hg Ht E) as [Ht1 Hv1]. split; [exact Ht1|].
    intros Ha. apply val_ok_neg; [lia|]. exact (Hv1 Ha).
  Qed.

  Lemma ab_finish_root st b maxim best ic hl fl v st' b' : tt_values_ok (s_tt st) -> mrange hl maxim ->
    ab_finish st b 1 0 maxim best ic hl fl = Ok (v, st', b') ->
    tt_values_ok (s_tt st') /\ val_ok 0 v /\
    v = (if hl then maxim else terminal_score ic) /\ s_pv st' = s_pv st /\ s_aborted st' = s_aborted st.
  Proof.
    intros Ht Hm H. unfold ab_finish in H.
    assert (Hv : val_ok 0 (if hl then maxim else if ic then add16 (- SearchParams.Inf) (wrap16 0) else 0)).
    { destruct hl; [exact Hm|]. destruct ic; [apply val_ok_mate; lia|apply val_ok_0]. }
    walk. split; [|split; [exact Hv|split; [|split]]].
    - destruct (if hl then fl else false); apply tt_insert_vok; try assumption; lia.
    - unfold terminal_score. destruct hl, ic; reflexivity.
    - destruct (if hl then fl else false); reflexivity.
    - destruct (if hl then fl else false); reflexivity.
  Qed.

  Definition no_legal_exit (st : sstate) (b : board) (p : Picker.picker) : Prop :=
    exists ys, drained (s_rk st) (s_hs st) b (p_with_store p (s_ms st)) ys /\ Forall (not_playable b) ys.

  Lemma ab_loop_root fr L : forall n st b p al be nt se maxim best ic imp hl fl mc qc v st' b',
    good b -> state_ok st -> tt_values_ok (s_tt st) -> pinv (genmv b) fr L (p_with_store p (s_ms st)) ->
    mv_ok (Picker.p_hash p) -> mv_ok best -> zline b (Pv.line (s_pv st) 0) -> mrange hl maxim ->
    ab_loop child n st b p al be 1 0 nt se maxim best ic imp hl fl mc qc = Ok (v, st', b') ->
    tt_values_ok (s_tt st') /\
    (s_aborted st' = false ->
       score_ok v /\
       (Pv.line (s_pv st) 0 <> [] -> Pv.line (s_pv st') 0 <> []) /\
       (maxim_inv hl maxim al ->
        Pv.line (s_pv st') 0 <> [] \/ be <= v \/ v <= al \/ (hl = false /\ no_legal_exit st b p))).
  Proof.
    induction n as [|n IH]; intros st b p al be nt se maxim best ic imp hl fl mc qc v st' b' Hg Hs Htv Hp Hh Hb Hz Hmr H; [discriminate H|].
    cbn [ab_loop] in H.
    destruct (pnext (s_rk st) (s_hs st) b (p_with_store p (s_ms st))) as [[more p1]| |] eqn:Ep; cbn [bind] in H; try discriminate H.
    destruct (pnext_leg b Hg fr L _ _ (p_with_store p (s_ms st)) _ _ Hh Hp Ep) as (Hp1 & Hh1 & Hcur). cbn [p_with_store Picker.p_hash] in Hh1.
    destruct Hs as [Ht Hw].
    destruct more; cbn [negb] in H.
    2:{ apply ab_finish_root in H; [|proj2_simpl; exact Htv|exact Hmr]. destruct H as (Htv' & Hv & -> & Fp & Fa).
        split; [exact Htv'|]. intros _. split; [apply val0_score; exact Hv|]. rewrite Fp. proj2_simpl. split; [auto|].
        intros HM. right. right. unfold maxim_inv in HM. destruct hl; [left; lia|right].
        split; [reflexivity|]. exists []. split; [eapply dr_end; exact Ep|constructor]. }
    destruct (Hcur eq_refl) as [Acur Hix1]. clear Hcur.
    destruct (make zob b (Z.to_N (fst (Picker.current p1)))) as [b1 r] eqn:Em.
    destruct (made_move _ _ _ _ Hg Acur Em) as (Hu & Hok & Hleg).
    destruct (in_check b1 (flip (stm b1))) eqn:Ck.
    { rewrite Hu in H. eapply IH in H; [ | exact Hg | split; proj2_simpl; assumption | proj2_simpl; exact Htv
                                         | proj2_simpl; rewrite pws_id; exact Hp1 | congruence | exact Hb | proj2_simpl; exact Hz | exact Hmr ].
      proj2_simpl. destruct H as [Htv' H]. split; [exact Htv'|]. intros Ha. destruct (H Ha) as (Hsc & H1 & H2).
      split; [exact Hsc|]. split; [exact H1|]. intros HM.
      destruct (H2 HM) as [F|[F|[F|[Fh (ys & Hd & Hall)]]]]; auto.
      right. right. right. split; [exact Fh|]. exists (fst (Picker.current p1) :: ys). split.
      - eapply dr_step; [exact Ep|]. cbn [s_rk s_hs set_ms] in Hd. rewrite pws_id in Hd. exact Hd.
      - constructor; [eapply in_check_not_playable; eassumption|exact Hall]. }
    destruct (Hleg eq_refl) as [Hg1 Hplay]. clear Hleg.
    destruct (hs_push _ _) as [hs1| |] eqn:Eh; cbn [bind] in H; try discriminate H.
    apply hs_push_ok in Eh. subst hs1.
    destruct (search_move _ _ _ _ _ _ _ _ _ _ _ _ _) as [[[value st2] b2]| |] eqn:Es; cbn [bind] in H; try discriminate H.
    pose proof Es as Ev.
    apply search_move_root in Ev; [|exact Hg1|proj2_simpl; exact Htv]. destruct Ev as [Htv2 Hval].
    apply (search_move_leg child Hc) in Es; [|exact Hg1|split; proj2_simpl; assumption|lia].
    destruct Es as (-> & [Q1 Q2] & [Ht2 Hw2] & Hbel & Hzc). proj2_simpl.
    rewrite Hu in H.
    destruct (hs_pop (s_hs st2)) as [hs2| |] eqn:Eo; cbn [bind] in H; try discriminate H.
    rewrite Q2 in Eo. cbn [hs_pop] in Eo. injection Eo as <-.
    rewrite ?Q1, ?pws_id in H.
    destruct (poke_inv (genmv b) (genmv_w b) fr L p1 (Some value) Hp1 Hix1) as [Hp2 Hh2].
    destruct (poke_inv (genmv b) (genmv_w b) fr L p1 (Some (wrap16 (- SearchParams.Inf))) Hp1 Hix1) as [Hp3 Hh3].
    assert (H062 : 0 <= 0 <= 62) by lia.
    assert (Hl2 : Pv.line (s_pv st2) 0 = Pv.line (s_pv st) 0) by (apply Hbel; lia).
    assert (Hz2 : zline b (Pv.line (s_pv st2) 0)) by (rewrite Hl2; exact Hz).
    set (st3 := trace (set_hs st2 (s_hs st)) 0 [2; 0; fst (Picker.current p1); value; s_nodes (set_hs st2 (s_hs st))]) in *.
    assert (A3 : s_aborted st3 = s_aborted st2) by (unfold st3; rewrite aborted_trace; reflexivity).
    assert (T3 : s_tt st3 = s_tt st2) by (unfold st3; proj2_simpl; reflexivity).
    destruct (s_aborted st3) eqn:Ca.
    { walk. rewrite T3. split; [exact Htv2|intros F; congruence]. }
    assert (Hv0 : val_ok 0 value) by (apply Hval; congruence).
    assert (Hmr' : mrange true (if maxim <? value then value else maxim)).
    { unfold mrange in *. destruct (maxim <? value) eqn:C; [exact Hv0|]. destruct hl; [exact Hmr|].
      apply Z.ltb_ge in C. revert Hv0. subst maxim. consts. lia. }
    assert (Hlo : - SearchParams.Inf <= value) by (revert Hv0; consts; lia).
    assert (Htv3 : tt_values_ok (s_tt st3)) by (rewrite T3; exact Htv2).
    unfold st3 in *. clear st3. walk.
    all: proj2_simpl; rewrite ?Q1, ?pws_id in *.
    - (* fail high *)
      split; [apply tt_insert_vok; [proj2_simpl; exact Htv3|exact Hv0|lia]|]. intros _. split; [apply val0_score; exact Hv0|].
      split; [rewrite Hl2; auto|]. intros _. right. left. apply Z.leb_le. assumption.
    - (* alpha raised, late move pruning ends the loop *)
      destruct (insert_line _ _ _ _ Hw2 H062 E0) as (W0 & L0 & O0).
      apply ab_finish_root in H; [|proj2_simpl; exact Htv3|exact Hmr']. destruct H as (Htv' & Hv & -> & Fp & Fa).
      split; [exact Htv'|]. intros _. split; [apply val0_score; exact Hv|]. rewrite Fp. proj2_simpl.
      assert (Pv.line p0 0 <> []) by (rewrite L0; discriminate).
      split; [auto|]. intros _. left. assumption.
    - (* alpha raised, next move *)
      destruct (insert_line _ _ _ _ Hw2 H062 E0) as (W0 & L0 & O0). apply Z.ltb_lt in C.
      assert (Z0 : zline b (Pv.line p0 0)).
      { rewrite L0. cbn [zline]. rewrite Em. cbn [fst]. split; [exact Hplay|apply Hzc, C]. }
      assert (N0 : Pv.line p0 0 <> []) by (rewrite L0; discriminate).
      eapply IH in H; [ | exact Hg | split; proj2_simpl; assumption | proj2_simpl; exact Htv3
                        | proj2_simpl; rewrite ?pws_id; exact Hp2 | congruence | exact Hok | proj2_simpl; exact Z0 | exact Hmr' ].
      destruct H as [Htv' H]. split; [exact Htv'|]. intros Ha. destruct (H Ha) as (Hsc & H1 & _). proj2_simpl.
      specialize (H1 N0). split; [exact Hsc|]. split; [auto|]. intros _. left. exact H1.
    - (* no improvement, late move pruning ends the loop *)
      apply Z.ltb_ge in C.
      apply ab_finish_root in H; [|proj2_simpl; exact Htv3|exact Hmr']. destruct H as (Htv' & Hv & -> & Fp & Fa).
      split; [exact Htv'|]. intros _. split; [apply val0_score; exact Hv|]. rewrite Fp. proj2_simpl.
      split; [rewrite Hl2; auto|]. intros HM.
      pose proof (maxim_step _ _ _ _ HM Hlo C) as HM'. unfold maxim_inv in HM'. right. right. left. lia.
    - (* no improvement, next move *)
      apply Z.ltb_ge in C.
      eapply IH in H; [ | exact Hg | split; proj2_simpl; assumption | proj2_simpl; exact Htv3
                        | proj2_simpl; rewrite ?pws_id; exact Hp3 | congruence | exact Hb
                        | proj2_simpl; exact Hz2 | exact Hmr' ].
      destruct H as [Htv' H]. split; [exact Htv'|]. intros Ha. destruct (H Ha) as (Hsc & H1 & H2).
      proj2_simpl. split; [exact Hsc|]. split; [rewrite <- Hl2; exact H1|]. intros HM.
      destruct (H2 (maxim_step _ _ _ _ HM Hlo C)) as [F|[F|[F|[F _]]]]; auto. discriminate F.
  Qed.

  (* static pruning at depth 1: no null move search; reverse futility pruning returns the static evaluation,
     which is >= beta as long as beta + 102 fits int16 *)
  Lemma ab_static_root st b be ic e st' b' :
    ab_static child st b be 1 0 ic = Ok (e, st', b') ->
    st' = st /\ b' = b /\
    match e with
    | Ret v => val_ok 0 v /\ (-32768 <= be -> be + SearchParams.RFPScoreFactor <= 32767 -> be <= v)
    | GoOn _ _ => True end.
  Proof.
    intros H. unfold ab_static in H.
    assert (En : (wrap8 SearchParams.NMPDepthLimit <? 1) = false) by (vm_compute; reflexivity).
    rewrite En in H. cbn [andb] in H.
    walk; try (split; [reflexivity|split; [reflexivity|exact I]]).
    split; [reflexivity|split; [reflexivity|]]. split; [apply val_ok_static|]. intros Hb1 Hb2.
    match goal with C : _ && _ && _ = true |- _ => apply andb_true_iff in C; destruct C as [C _]; apply andb_true_iff in C; destruct C as [_ C2] end.
    apply Z.leb_le in C2.
    assert (Er : wrap16 (wrap16 1 * wrap16 SearchParams.RFPScoreFactor) = SearchParams.RFPScoreFactor /\ 0 <= SearchParams.RFPScoreFactor)
      by (vm_compute; split; [reflexivity|discriminate]).
    destruct Er as [Er Hr0]. rewrite Er in C2. unfold add16 in C2. rewrite wrap16_id in C2 by lia. lia.
  Qed.

  Lemma rk_trace s p e : s_rk (trace s p e) = s_rk s.
  Proof. unfold trace. destruct (p <=? s_tracing s); reflexivity. Qed.
  Lemma rk_inc o s : s_rk (inc_nodes o s) = s_rk s.
  Proof. unfold inc_nodes. destruct (IterDeepen.increment_nodes _ _ _). reflexivity. Qed.

  Definition root_no_legal (st : sstate) (b : board) : Prop :=
    exists s hm ys, mv_ok hm /\ drained (s_rk st) (s_hs st) b (fresh_picker s hm) ys /\ Forall (not_playable b) ys.

  Lemma ab_body_root1 o st b al be v st' b' : good b -> state_ok st -> tt_values_ok (s_tt st) ->
    ab_body o child qs st b al be 1 0 SearchParams.PVNode = Ok (v, st', b') ->
    tt_values_ok (s_tt st') /\
    (s_aborted st' = false ->
       score_ok v /\
       (-32768 <= be -> be + SearchParams.RFPScoreFactor <= 32767 -> al < v < be -> Pv.line (s_pv st') 0 = [] ->
        100 <= fifty b \/ 3 <= threefold b \/ root_no_legal st b)).
  Proof.
    intros Hg [Ht Hw] Htv H. unfold ab_body in H.
    destruct (Pv.set_null (s_pv st) 0) as [pv1|] eqn:Epv; cbn [of_opt bind] in H; [|discriminate H].
    assert (H063 : 0 <= 0 <= 63) by lia. assert (H062 : 0 <= 0 <= 62) by lia.
    destruct (set_null_line _ _ _ Hw H063 Epv) as (W1 & L1 & O1).
    change ((1 =? 0) || (SearchParams.MaxPlies - 1 <=? 0)) with false in H. cbv iota in H.
    set (st0 := trace (inc_nodes o (set_pv st pv1)) 0 [1; 0; 1; al; be; SearchParams.PVNode; s_nodes (inc_nodes o (set_pv st pv1))]) in *.
    assert (T0 : s_tt st0 = s_tt st) by (unfold st0; proj2_simpl; reflexivity).
    assert (P0 : s_pv st0 = pv1) by (unfold st0; proj2_simpl; reflexivity).
    assert (R0 : s_rk st0 = s_rk st) by (unfold st0; rewrite rk_trace, rk_inc; reflexivity).
    assert (HS0 : s_hs st0 = s_hs st) by (unfold st0; proj2_simpl; reflexivity).
    assert (S0 : state_ok st0) by (split; [rewrite T0; exact Ht|rewrite P0; exact W1]).
    assert (Tv0 : tt_values_ok (s_tt st0)) by (rewrite T0; exact Htv).
    destruct (s_aborted st0) eqn:A0; [walk; split; [exact Tv0|congruence]|].
    change (wrap8 (3 - Z.min 0 1)) with 3 in H.
    destruct ((100 <=? fifty b) || (3 <=? threefold b)) eqn:Cf.
    { walk. split; [exact Tv0|]. intros _. split; [apply val0_score, val_ok_0|]. intros _ _ _.
      apply orb_true_iff in Cf. destruct Cf as [Cf|Cf]; apply Z.leb_le in Cf; auto. }
    assert (Hhm : mv_ok (match TT.lookup (s_tt st0) (zN (cur_hash b)) with Some e => TT.e_move e | None => 0 end)).
    { destruct (TT.lookup (s_tt st0) (zN (cur_hash b))) as [e|] eqn:El; [|exact mv_ok_0].
      eapply tt_ok_lookup; [|exact El]. rewrite T0. exact Ht. }
    change (negb (SearchParams.PVNode =? SearchParams.PVNode)) with false in H. cbn [andb] in H.
    replace (match TT.lookup (s_tt st0) (zN (cur_hash b)) with Some _ => None | None => None end) with (@None Z) in H
      by (destruct (TT.lookup (s_tt st0) (zN (cur_hash b))); reflexivity).
    destruct (ab_static child st0 b be 1 0 (in_check b (stm b))) as [[[e st1] b1]| |] eqn:Es; cbn [bind] in H; try discriminate H.
    apply ab_static_root in Es. destruct Es as (-> & -> & Hret).
    destruct e as [v0|se imp].
    { walk. destruct Hret as [Hv0 Hge]. split; [exact Tv0|]. intros _. split; [apply val0_score; exact Hv0|].
      intros Hb1 Hb2 Hwin _. specialize (Hge Hb1 Hb2). lia. }
    assert (Ei : (wrap8 SearchParams.IIRDepthLimit <? 1) = false) by (vm_compute; reflexivity).
    rewrite Ei, andb_false_r in H. cbn [andb] in H.
    match type of H with bind ?e _ = _ => destruct e as [[[v1 st2] b2]| |] eqn:El end; cbn [bind] in H; try discriminate H.
    walk. cbn [s_tt s_aborted s_pv set_ms].
    eapply (ab_loop_root (length (Picker.s_data (s_ms st0)) :: Picker.s_frames (s_ms st0)) (Picker.s_data (s_ms st0))) in El;
      [ | exact Hg | split; proj2_simpl; [exact (proj1 S0)|exact (proj2 S0)] | proj2_simpl; exact Tv0 | | cbn [Picker.picker_new Picker.p_hash]; exact Hhm
        | exact mv_ok_0 | proj2_simpl; rewrite P0, L1; exact I | reflexivity ].
    - destruct El as [Htv' El]. split; [exact Htv'|]. intros Ha. destruct (El Ha) as (Hsc & _ & Hcl).
      split; [exact Hsc|]. intros Hb1 Hb2 Hwin Hline. right. right.
      destruct Hcl as [N|[F|[F|[_ (ys & Hd & Hall)]]]].
      + unfold maxim_inv. reflexivity.
      + contradiction.
      + lia.
      + lia.
      + cbn [s_rk s_hs s_ms set_ms] in Hd. rewrite R0, HS0 in Hd. eexists _, _, ys. split; [exact Hhm|]. split; [exact Hd|exact Hall].
    - proj2_simpl. exists [], []. cbn [app]. unfold p_with_store, Picker.picker_new. cbn.
      repeat split; auto. apply push_framed.
  Qed.
End Root1.
