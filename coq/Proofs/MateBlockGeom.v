(* Finite geometric facts behind the interposition exit of IsCheckmate: the squares between king and
   checker are the prefix of one ray; a second ray prefix from the king that meets them belongs to the
   same ray (so it contains the checker or ends between king and checker). Discharged by vm_compute
   over all squares. *)
From Coq Require Import NArith ZArith List Bool Lia.
From Chess3 Require Import Base.Bits Model.Types Spec.Geometry Model.Att Model.BoardDef Proofs.MateGeom.
Import ListNotations.
Open Scope N_scope.

(* InBetween[k][a] & ^(king | attacker) *)
Definition blocked_of (k a : N) : N := band (in_between k a) (bnot (bor (bit k) (bit a))).

(* along a ray on which a lies, the blocked squares are exactly the prefix *)
Definition blocked_check (dirs : list (Z * Z)) (k a : N) : bool :=
  forallb (fun dir => match prefix_to (ray k dir) a with
                      | None => true
                      | Some pre => blocked_of k a =? set_of pre
                      end) dirs.
Lemma rook_blocked_check : forall k a, k < 64 -> a < 64 -> blocked_check rook_dirs k a = true.
Proof. apply (forall_sq2 (blocked_check rook_dirs)). vm_compute. reflexivity. Qed.
Lemma bishop_blocked_check : forall k a, k < 64 -> a < 64 -> blocked_check bishop_dirs k a = true.
Proof. apply (forall_sq2 (blocked_check bishop_dirs)). vm_compute. reflexivity. Qed.

(* a leaper that attacks the king leaves nothing to block *)
Definition leaper_blocked_check (k a : N) : bool :=
  if N.testbit (knight_attacks a) k || N.testbit (king_attacks a) k then blocked_of k a =? 0 else true.
Lemma leaper_blocked : forall k a, k < 64 -> a < 64 -> leaper_blocked_check k a = true.
Proof. apply (forall_sq2 leaper_blocked_check). vm_compute. reflexivity. Qed.

Definition pawn_in_king_check (c : color) (a : N) : bool :=
  N.land (pawn_attacks c a) (N.lxor (king_attacks a) ones64) =? 0.
Lemma pawn_in_king c a k : a < 64 -> N.testbit (pawn_attacks c a) k = true -> N.testbit (king_attacks a) k = true.
Proof.
  intros Ha H.
  assert (C : pawn_in_king_check c a = true).
  { clear H. revert a Ha. destruct c; [apply (forall_sq (pawn_in_king_check White))|apply (forall_sq (pawn_in_king_check Black))]; vm_compute; reflexivity. }
  unfold pawn_in_king_check in C. apply N.eqb_eq in C.
  destruct (N.testbit (king_attacks a) k) eqn:E; [reflexivity|]. exfalso.
  assert (N.testbit (N.land (pawn_attacks c a) (N.lxor (king_attacks a) ones64)) k = true) as Hb.
  { rewrite N.land_spec, N.lxor_spec, H, E. cbn [andb xorb].
    destruct (pawn_attacks_range c a k Ha H) as [Hk _]. rewrite ones64_eq, (N.ones_spec_low 64 k Hk). reflexivity. }
  rewrite C, N.bits_0 in Hb. discriminate.
Qed.

(* a ray prefix from k towards u that meets the blocked squares of (k, a) contains a or ends inside them *)
Definition triple_check (dirs : list (Z * Z)) (k a u : N) : bool :=
  let bl := blocked_of k a in
  forallb (fun dir => match prefix_to (ray k dir) u with
                      | None => true
                      | Some pre => (N.land (set_of pre) bl =? 0) || existsb (N.eqb a) pre || N.testbit bl u || (u =? a)
                      end) dirs.
Definition triple_all (dirs : list (Z * Z)) : bool :=
  forallb (fun k => forallb (fun a => forallb (fun u => triple_check dirs k a u) squares64) squares64) squares64.
Lemma triple_all_rook : triple_all rook_dirs = true.
Proof. vm_compute. reflexivity. Qed.
Lemma triple_all_bishop : triple_all bishop_dirs = true.
Proof. vm_compute. reflexivity. Qed.
Lemma triple_lift dirs : triple_all dirs = true -> forall k a u, k < 64 -> a < 64 -> u < 64 -> triple_check dirs k a u = true.
Proof.
  intros H k a u Hk Ha Hu. unfold triple_all in H.
  apply (forall_sq (fun u => triple_check dirs k a u)); [|exact Hu].
  apply (forall_sq (fun a => forallb (fun u => triple_check dirs k a u) squares64)); [|exact Ha].
  apply (forall_sq (fun k => forallb (fun a => forallb (fun u => triple_check dirs k a u) squares64) squares64)); assumption.
Qed.
