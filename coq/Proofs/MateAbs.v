(* What the mailbox position [abs b] of the spec looks like in terms of the bitboards of a board that
   satisfies the representation invariant, and the completeness of the engine's IsAttacked with
   respect to the spec's [attacks_from] (every attack the rules see is seen by IsAttacked). *)
From Coq Require Import NArith ZArith List Bool Lia.
From Chess3 Require Import Base.Bits Model.Types Spec.Geometry Model.Att Model.BoardDef Model.Board
     Spec.Chess Spec.Rep Proofs.MateGeom.
Import ListNotations.
Open Scope N_scope.

(* ------------------------------------------------------------------------------------------ *)
(* lists indexed by N *)

Lemma nthN_map_squares {A} (f : N -> A) s d : s < 64 -> nthN (map f squares64) s d = f s.
Proof.
  intros Hs. unfold nthN, squares64. rewrite map_map.
  rewrite (nth_indep _ d (f (N.of_nat 0))) by (rewrite map_length, seq_length; lia).
  rewrite (map_nth (fun x => f (N.of_nat x))), seq_nth by lia. f_equal. lia.
Qed.

Lemma upd_length {A} (l : list A) i x : length (upd l i x) = length l.
Proof. revert i. induction l as [|a r IH]; intros [|i]; cbn [upd length]; try reflexivity. rewrite IH. reflexivity. Qed.

Lemma nth_upd {A} (l : list A) i j x d : (i < length l)%nat ->
  nth j (upd l i x) d = if Nat.eqb i j then x else nth j l d.
Proof.
  revert i j. induction l as [|a r IH]; intros i j Hi; [cbn in Hi; lia|].
  destruct i as [|i], j as [|j]; cbn [upd nth Nat.eqb]; try reflexivity.
  apply IH. cbn in Hi. lia.
Qed.

Lemma nthN_updN {A} (l : list A) i j x d : (N.to_nat i < length l)%nat ->
  nthN (updN l i x) j d = if i =? j then x else nthN l j d.
Proof.
  intros Hi. unfold nthN, updN. rewrite nth_upd by exact Hi.
  destruct (N.eqb_spec i j) as [->|E]; [rewrite Nat.eqb_refl; reflexivity|].
  destruct (Nat.eqb_spec (N.to_nat i) (N.to_nat j)) as [E'|_]; [|reflexivity]. exfalso. apply E. lia.
Qed.

(* ------------------------------------------------------------------------------------------ *)
(* consequences of Rep *)

Section RepFacts.
Variable b : board.
Hypothesis HR : Rep b.

Lemma rep_unpack :
  length (sq2p b) = 64%nat /\ (forall s, s < 64 -> sq_ok b s = true) /\
  forallb (fun x => x <? two64) (pcs b) = true /\ forallb (fun x => x <? two64) (cols b) = true /\
  length (pcs b) = 7%nat /\ length (cols b) = 2%nat /\ ep b < 64.
Proof.
  pose proof HR as H0. unfold Rep, rep_ok in H0.
  apply andb_prop in H0. destruct H0 as [H0 H12]. apply andb_prop in H0. destruct H0 as [H0 H11].
  apply andb_prop in H0. destruct H0 as [H0 H10]. apply andb_prop in H0. destruct H0 as [H0 H9].
  apply andb_prop in H0. destruct H0 as [H0 H8]. apply andb_prop in H0. destruct H0 as [H0 H7].
  apply andb_prop in H0. destruct H0 as [H0 H6]. apply andb_prop in H0. destruct H0 as [H0 H5].
  apply andb_prop in H0. destruct H0 as [H0 H4]. apply andb_prop in H0. destruct H0 as [H0 H3].
  apply andb_prop in H0. destruct H0 as [H1 H2].
  split; [apply Nat.eqb_eq; exact H1|]. split; [intros s Hs; apply (forall_sq (sq_ok b)); assumption|].
  split; [exact H5|]. split; [exact H6|]. split; [apply Nat.eqb_eq; exact H2|]. split; [apply Nat.eqb_eq; exact H3|].
  apply N.ltb_lt. exact H8.
Qed.

Lemma colors_lt c : colors b c < two64.
Proof.
  destruct rep_unpack as (_ & _ & _ & Hc & _ & Hl & _). rewrite forallb_forall in Hc.
  apply N.ltb_lt, Hc. unfold colors. apply nth_In. rewrite Hl. destruct c; cbn; lia.
Qed.

Lemma pieces_lt k : pieces b k < two64.
Proof.
  destruct rep_unpack as (_ & _ & Hp & _ & Hl & _ & _). rewrite forallb_forall in Hp.
  unfold pieces, nthN. destruct (Nat.lt_ge_cases (N.to_nat k) 7) as [L|L].
  - apply N.ltb_lt, Hp. apply nth_In. rewrite Hl. exact L.
  - rewrite nth_overflow by (rewrite Hl; exact L). reflexivity.
Qed.

Lemma colors_high c s : 64 <= s -> N.testbit (colors b c) s = false.
Proof. apply lt_two64_testbit, colors_lt. Qed.
Lemma pieces_high k s : 64 <= s -> N.testbit (pieces b k) s = false.
Proof. apply lt_two64_testbit, pieces_lt. Qed.

Lemma occupancy_testbit s : N.testbit (occupancy b) s = N.testbit (colors b White) s || N.testbit (colors b Black) s.
Proof. unfold occupancy, bor. apply N.lor_spec. Qed.

(* the per-square facts *)
Lemma sq_facts s : s < 64 ->
  let k := piece_at b s in
  k <= 6 /\ (forall p, 1 <= p <= 6 -> N.testbit (pieces b p) s = (k =? p)) /\
  (N.testbit (colors b White) s || N.testbit (colors b Black) s) = negb (k =? 0) /\
  (N.testbit (colors b White) s && N.testbit (colors b Black) s) = false.
Proof.
  intros Hs k. destruct rep_unpack as (_ & Hq & _). specialize (Hq s Hs). unfold sq_ok in Hq. fold k in Hq.
  repeat (apply andb_prop in Hq; destruct Hq as [Hq ?]).
  repeat split.
  - apply N.leb_le. assumption.
  - intros p Hp.
    match goal with H : forallb _ _ = true |- _ => rewrite forallb_forall in H; rename H into HF end.
    assert (In p [1; 2; 3; 4; 5; 6]) as Hin.
    { assert (p = 1 \/ p = 2 \/ p = 3 \/ p = 4 \/ p = 5 \/ p = 6) as [->|[->|[->|[->|[->| ->]]]]] by lia; cbn; tauto. }
    apply eqb_prop. exact (HF p Hin).
  - apply eqb_prop. assumption.
  - apply negb_true_iff. assumption.
Qed.

Lemma who_abs s : s < 64 ->
  who (abs b) s = if piece_at b s =? 0 then None
                  else Some (if N.testbit (colors b White) s then White else Black, piece_at b s).
Proof. intros Hs. unfold who, abs. cbn [at_]. apply nthN_map_squares. exact Hs. Qed.

Lemma color_bit s c : s < 64 -> piece_at b s <> 0 ->
  color_eqb c (if N.testbit (colors b White) s then White else Black) = N.testbit (colors b c) s.
Proof.
  intros Hs Hk. destruct (sq_facts s Hs) as (_ & _ & H1 & H2).
  apply N.eqb_neq in Hk. rewrite Hk in H1. cbn in H1.
  destruct c; destruct (N.testbit (colors b White) s), (N.testbit (colors b Black) s); cbn in *; congruence.
Qed.

Lemma who_abs_inv s c k : s < 64 -> who (abs b) s = Some (c, k) ->
  1 <= k <= 6 /\ N.testbit (pieces b k) s = true /\ N.testbit (colors b c) s = true /\ piece_at b s = k.
Proof.
  intros Hs H. rewrite who_abs in H by exact Hs.
  destruct (N.eqb_spec (piece_at b s) 0) as [E|E]; [discriminate|]. injection H as Hc Hk.
  destruct (sq_facts s Hs) as (Hle & Hp & _ & _). rewrite Hk in *.
  assert (1 <= k <= 6) as Hr by lia. repeat split; try lia.
  - rewrite (Hp k Hr). apply N.eqb_refl.
  - rewrite <- (color_bit s c Hs) by (rewrite Hk; exact E). rewrite Hc. destruct c; reflexivity.
Qed.

Lemma who_abs_intro s c k : s < 64 -> 1 <= k <= 6 ->
  N.testbit (pieces b k) s = true -> N.testbit (colors b c) s = true -> who (abs b) s = Some (c, k).
Proof.
  intros Hs Hk Hp Hc. destruct (sq_facts s Hs) as (_ & Hq & _ & H2).
  rewrite (Hq k Hk) in Hp. apply N.eqb_eq in Hp. rewrite who_abs by exact Hs. rewrite Hp.
  destruct (N.eqb_spec k 0) as [E|E]; [lia|]. f_equal. f_equal.
  destruct c; destruct (N.testbit (colors b White) s), (N.testbit (colors b Black) s); cbn in *; congruence.
Qed.

Lemma owned_abs s c : s < 64 -> owned_by (abs b) s c = N.testbit (colors b c) s.
Proof.
  intros Hs. unfold owned_by. rewrite who_abs by exact Hs.
  destruct (sq_facts s Hs) as (_ & _ & H1 & H2).
  destruct (N.eqb_spec (piece_at b s) 0) as [E|E].
  - cbn in H1. apply orb_false_elim in H1. destruct H1 as [A B]. destruct c; symmetry; assumption.
  - apply color_bit; assumption.
Qed.

Lemma empty_abs s : s < 64 -> empty (abs b) s = negb (N.testbit (occupancy b) s).
Proof.
  intros Hs. unfold empty. rewrite who_abs by exact Hs. rewrite occupancy_testbit.
  destruct (sq_facts s Hs) as (_ & _ & H1 & _). rewrite H1.
  destruct (piece_at b s =? 0); reflexivity.
Qed.

Lemma holds_abs s c k : s < 64 -> 1 <= k <= 6 ->
  holds (abs b) s c k = N.testbit (pieces b k) s && N.testbit (colors b c) s.
Proof.
  intros Hs Hk. unfold holds. destruct (who (abs b) s) as [[c' k']|] eqn:Hw.
  - destruct (who_abs_inv s c' k' Hs Hw) as (Hk' & Hp & Hc & Hpa).
    destruct (sq_facts s Hs) as (_ & Hq & _ & H2). rewrite (Hq k Hk), Hpa.
    rewrite (N.eqb_sym k' k). destruct (k =? k'); [|rewrite andb_false_r; reflexivity].
    rewrite andb_true_r. cbn [andb].
    destruct c, c'; cbn [color_eqb]; try (symmetry; exact Hc);
      destruct (N.testbit (colors b White) s), (N.testbit (colors b Black) s); cbn in *; congruence.
  - rewrite who_abs in Hw by exact Hs. destruct (N.eqb_spec (piece_at b s) 0) as [E|E]; [|discriminate].
    destruct (sq_facts s Hs) as (_ & Hq & _). rewrite (Hq k Hk), E.
    destruct (N.eqb_spec 0 k); [lia|reflexivity].
Qed.

End RepFacts.

(* ------------------------------------------------------------------------------------------ *)
(* set_of / occ_of *)

Lemma set_of_testbit l i : N.testbit (set_of l) i = existsb (N.eqb i) l.
Proof.
  induction l as [|a r IH]; cbn [set_of fold_right existsb]; [apply N.bits_0|].
  fold (set_of r). rewrite N.lor_spec, bit_testbit, IH, (N.eqb_sym a i). reflexivity.
Qed.

Lemma occ_of_testbit p i : N.testbit (occ_of p) i = (i <? 64) && negb (empty p i).
Proof.
  unfold occ_of. rewrite set_of_testbit. apply Bool.eq_true_iff_eq. rewrite existsb_exists, andb_true_iff. split.
  - intros [x [Hx E]]. apply N.eqb_eq in E. subst x. apply filter_In in Hx. destruct Hx as [Hx Hn].
    apply squares64_spec in Hx. split; [apply N.ltb_lt; exact Hx|exact Hn].
  - intros [Hi Hn]. exists i. split; [|apply N.eqb_refl]. apply filter_In. split; [|exact Hn].
    apply squares64_spec, N.ltb_lt, Hi.
Qed.

Lemma occ_of_abs b : Rep b -> occ_of (abs b) = occupancy b.
Proof.
  intros HR. apply N.bits_inj. intro i. rewrite occ_of_testbit.
  destruct (N.ltb_spec i 64) as [L|L].
  - rewrite (empty_abs b HR i L), negb_involutive. reflexivity.
  - rewrite (occupancy_testbit b), (colors_high b HR), (colors_high b HR) by exact L. reflexivity.
Qed.

(* ------------------------------------------------------------------------------------------ *)
(* IsAttacked sees every attack the rules see *)

Lemma is_attacked_single b by_ occ q : q < 64 ->
  is_attacked b by_ occ (bit q) =
  let other := colors b by_ in
  negb (band (pawn_capture_moves (band (pieces b Pawn) other) by_) (bit q) =? 0) ||
  (negb (band (band (king_moves q) (pieces b King)) other =? 0) ||
   negb (band (band (knight_moves q) (pieces b Knight)) other =? 0) ||
   negb (band (band (bishop_moves q occ) (bor (pieces b Queen) (pieces b Bishop))) other =? 0) ||
   negb (band (band (rook_moves q occ) (bor (pieces b Rook) (pieces b Queen))) other =? 0)).
Proof.
  intros Hq. unfold is_attacked. rewrite (bits_of_bit q Hq). cbn [existsb]. rewrite orb_false_r.
  cbv zeta. destruct (negb _); reflexivity.
Qed.

Lemma band3_nonzero x y z i : N.testbit x i = true -> N.testbit y i = true -> N.testbit z i = true ->
  negb (band (band x y) z =? 0) = true.
Proof.
  intros Hx Hy Hz. apply negb_true_iff. apply (band_nonzero _ _ i); [|exact Hz].
  unfold band. rewrite N.land_spec, Hx, Hy. reflexivity.
Qed.

(* an enemy man of kind k on t attacks q (with occupancy occ2): IsAttacked answers true for every
   occupancy that agrees with occ2 off the two ends *)
Lemma is_attacked_complete b c k t q occ2 occX :
  Rep b -> t < 64 -> q < 64 -> who (abs b) t = Some (c, k) ->
  mem (attacks_from c k t occ2) q = true ->
  (forall u, u <> t -> u <> q -> N.testbit occ2 u = N.testbit occX u) ->
  is_attacked b c occX (bit q) = true.
Proof.
  intros HR Ht Hq Hw Hm Hocc. destruct (who_abs_inv b HR t c k Ht Hw) as (Hk & Hp & Hc & _).
  rewrite is_attacked_single by exact Hq. cbv zeta. unfold mem in Hm.
  assert (k = 1 \/ k = 2 \/ k = 3 \/ k = 4 \/ k = 5 \/ k = 6) as [->|[->|[->|[->|[->| ->]]]]] by lia.
  - (* pawn *)
    change (attacks_from c 1 t occ2) with (pawn_attacks c t) in Hm.
    apply orb_true_iff. left. apply negb_true_iff. apply (band_nonzero _ _ q); [|rewrite bit_testbit; apply N.eqb_refl].
    apply (pcm_mono _ c t q); try assumption.
    unfold band. rewrite N.land_spec. change Pawn with 1. rewrite Hp, Hc. reflexivity.
  - (* knight *)
    change (attacks_from c 2 t occ2) with (knight_attacks t) in Hm.
    rewrite knight_sym in Hm by assumption.
    apply orb_true_iff. right. rewrite !orb_true_iff. left. left. right.
    apply (band3_nonzero _ _ _ t); assumption.
  - (* bishop *)
    change (attacks_from c 3 t occ2) with (bishop_attacks t occ2) in Hm.
    apply bishop_sym in Hm; try assumption.
    rewrite (bishop_ext q t occ2 occX Hq Ht) in Hm by (intros u U1 U2; apply Hocc; assumption).
    apply orb_true_iff. right. rewrite !orb_true_iff. left. right.
    apply (band3_nonzero _ _ _ t); try assumption.
    unfold bor. rewrite N.lor_spec. change Bishop with 3. rewrite Hp. apply orb_true_r.
  - (* rook *)
    change (attacks_from c 4 t occ2) with (rook_attacks t occ2) in Hm.
    apply rook_sym in Hm; try assumption.
    rewrite (rook_ext q t occ2 occX Hq Ht) in Hm by (intros u U1 U2; apply Hocc; assumption).
    apply orb_true_iff. right. rewrite !orb_true_iff. right.
    apply (band3_nonzero _ _ _ t); try assumption.
    unfold bor. rewrite N.lor_spec. change Rook with 4. rewrite Hp. reflexivity.
  - (* queen *)
    change (attacks_from c 5 t occ2) with (N.lor (rook_attacks t occ2) (bishop_attacks t occ2)) in Hm.
    rewrite N.lor_spec in Hm. apply orb_true_iff in Hm. destruct Hm as [Hm|Hm].
    + apply rook_sym in Hm; try assumption.
      rewrite (rook_ext q t occ2 occX Hq Ht) in Hm by (intros u U1 U2; apply Hocc; assumption).
      apply orb_true_iff. right. rewrite !orb_true_iff. right.
      apply (band3_nonzero _ _ _ t); try assumption.
      unfold bor. rewrite N.lor_spec. change Queen with 5. rewrite Hp. apply orb_true_r.
    + apply bishop_sym in Hm; try assumption.
      rewrite (bishop_ext q t occ2 occX Hq Ht) in Hm by (intros u U1 U2; apply Hocc; assumption).
      apply orb_true_iff. right. rewrite !orb_true_iff. left. right.
      apply (band3_nonzero _ _ _ t); try assumption.
      unfold bor. rewrite N.lor_spec. change Queen with 5. rewrite Hp. reflexivity.
  - (* king *)
    change (attacks_from c 6 t occ2) with (king_attacks t) in Hm.
    rewrite king_sym in Hm by assumption.
    apply orb_true_iff. right. rewrite !orb_true_iff. left. left. left.
    apply (band3_nonzero _ _ _ t); assumption.
Qed.
