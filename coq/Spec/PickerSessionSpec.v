(* Judge of stream c16s (store sessions), independent of the model: what the observation of a
   session on ONE shared move store must satisfy.
     - every picker whose last Next returned false (drained to exhaustion) yielded every generated
       move of ITS position exactly once and nothing else;
     - every picker (drained or cut off) yielded only generated moves of its position, none twice,
       and its hash move first whenever IsPseudoLegal accepted it;
     - every probe of Frame() for which the harness recorded what the script itself had allocated
       there (frames no picker has worked in: the frames below a picker's frame) shows exactly that;
     - no panic (the scripts stay far below the capacity of the store).
   clauses: 1 drained picker: not "every generated move exactly once"   2 hash move not first
            3 a lower frame is not intact   6 panic   7 cut-off picker yielded a foreign or repeated move
            99 unreadable *)
From Coq Require Import ZArith List Bool.
Import ListNotations.
From Chess3 Require Import Gen.HeurConsts Spec.PickerSpec.
Open Scope Z_scope.

(* a position as the judge needs it: hash move, IsPseudoLegal flag, generated moves *)
Definition jpos := (Z * Z * list Z)%type.

Definition take_jpos (l : list Z) : jpos * list Z :=
  match l with
  | hm :: ipl :: nN :: rest =>
      let (noisy, r1) := spec_take_pairs (Z.to_nat nN) rest in
      match r1 with
      | nQ :: r2 =>
          let (quiet, r3) := spec_take_pairs (Z.to_nat nQ) r2 in
          ((hm, ipl, map fst noisy ++ map fst quiet), r3)
      | [] => ((hm, ipl, map fst noisy), [])
      end
  | _ => ((0, 0, []), [])
  end.

Fixpoint take_jposs (n : nat) (l : list Z) : list jpos * list Z :=
  match n with
  | O => ([], l)
  | S n' => let (p, r) := take_jpos l in let (ps, r') := take_jposs n' r in (p :: ps, r')
  end.

(* the ops, as far as the trace layout and the probes are concerned:
   inl tt = a Next (3 trace values), inr (flag, expected) = a probe *)
Definition jop := (unit + (Z * list Z))%type.

Fixpoint walk_ops (fuel : nat) (l : list Z) (acc : list jop) : list jop * list Z :=
  match fuel with
  | O => (rev acc, l)
  | S fuel' =>
    match l with
    | 0 :: rest => walk_ops fuel' rest acc
    | 1 :: rest => walk_ops fuel' rest acc
    | 2 :: rest => walk_ops fuel' rest acc
    | 3 :: _ :: _ :: rest => walk_ops fuel' rest acc
    | 4 :: _ :: _ :: rest => walk_ops fuel' rest acc
    | 5 :: _ :: rest => walk_ops fuel' rest (inl tt :: acc)
    | 6 :: f :: n :: rest =>
        walk_ops fuel' (skip_n (2 * Z.to_nat n)%nat rest) (inr (f, firstn (2 * Z.to_nat n)%nat rest) :: acc)
    | _ => (rev acc, l)
    end
  end.

(* skip the positions at the end of the input: per position L fen[L] seed rounds *)
Fixpoint skip_tail (n : nat) (l : list Z) : list Z :=
  match n with
  | O => l
  | S n' => match l with
            | len :: rest => skip_tail n' (skip_n (2 + Z.to_nat len)%nat rest)
            | [] => []
            end
  end.

Fixpoint mem_z (x : Z) (l : list Z) : bool :=
  match l with [] => false | y :: t => (x =? y) || mem_z x t end.

Fixpoint no_repeat (l : list Z) : bool :=
  match l with [] => true | x :: t => negb (mem_z x t) && no_repeat t end.

(* the per-picker blocks: pos done nY {m w}*nY *)
Fixpoint judge_blocks (n : nat) (poss : list jpos) (l : list Z) : option Z * list Z :=
  (* returns the first violated clause, and the rest of the output *)
  match n with
  | O => (None, l)
  | S n' =>
    match l with
    | pos :: done :: nY :: rest =>
        let (ys, rest') := spec_take_pairs (Z.to_nat nY) rest in
        let '(hm, ipl, generated) := nth (Z.to_nat pos) poss (0, 0, []) in
        let yielded := map fst ys in
        let hash_ok := (ipl =? 0) || match yielded with [] => true | m :: _ => m =? hm end in
        if negb (done =? 0) && negb (exactly_once yielded generated) then (Some 1, rest')
        else if negb hash_ok then (Some 2, rest')
        else if negb (forallb (fun m => mem_z m generated) yielded && no_repeat yielded) then (Some 7, rest')
        else judge_blocks n' poss rest'
    | _ => (Some 99, l)
    end
  end.

Fixpoint judge_trace (ops : list jop) (trace : list Z) : option Z :=
  match ops with
  | [] => None
  | inl _ :: rest => judge_trace rest (skip_n 3 trace)
  | inr (f, expected) :: rest =>
      match trace with
      | len :: t =>
          let seen := firstn (2 * Z.to_nat len)%nat t in
          if negb (f =? 0) && negb (list_eqb seen expected) then Some 3
          else judge_trace rest (skip_n (2 * Z.to_nat len)%nat t)
      | [] => Some 99
      end
  end.

Definition judge_c16s (io : list Z) : list Z :=
  match io with
  | nPos :: rest =>
    let (poss, r1) := take_jposs (Z.to_nat nPos) rest in
    match r1 with
    | nOps :: r2 =>
      let (ops, r3) := walk_ops (Z.to_nat nOps) r2 [] in
      let out := skip_tail (Z.to_nat nPos) r3 in
      if is_panic out then [0; 6]
      else
      match out with
      | nInst :: blocks =>
          match judge_blocks (Z.to_nat nInst) poss blocks with
          | (Some c, _) => [0; c]
          | (None, trace) =>
              match judge_trace ops trace with
              | Some c => [0; c]
              | None => [1]
              end
          end
      | [] => [0; 99]
      end
    | [] => [0; 99]
    end
  | [] => [0; 99]
  end.
