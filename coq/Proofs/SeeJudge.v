(* The judge of the c18 stream enumerates every admissible choice: for each admissible choice
   function the balance of the specified capture sequence is a member of [all_balances].  Together
   with theorem C18 (the model's answer is "threshold <= balance" for the admissible choice
   [impl_choice]) this shows that the judge accepts every answer of the model inside the domain. *)
From Coq Require Import NArith ZArith List Bool Lia.
From Chess3 Require Import Base.Bits Model.Types Spec.Geometry Model.BoardDef Gen.SeeConsts Spec.SeeSpec
  Proofs.SeeBits.
Import ListNotations.
Open Scope N_scope.

Lemma candidates_nonempty' A : A <> [] -> candidates A <> [].
Proof.
  intros H. destruct (least_value_attained A H) as [y [Hy E]].
  assert (Hin : In y (candidates A)).
  { unfold candidates. apply filter_In. split; [exact Hy|]. apply Z.eqb_eq. symmetry. exact E. }
  intros Z. rewrite Z in Hin. destruct Hin.
Qed.

Lemma all_replies_complete choice : admissible choice ->
  forall fuel b target side occ standing,
  In (best_reply (captures fuel b choice target side occ standing))
     (all_replies fuel b target side occ standing).
Proof.
  intros Adm. induction fuel as [|k IH]; intros b target side occ standing; cbn [captures all_replies].
  - left. reflexivity.
  - destruct (attackers_of b side occ target) as [|a A'] eqn:EA; [left; reflexivity|].
    set (A := a :: A') in *.
    assert (HA : A <> []) by discriminate.
    pose proof (Adm (candidates A) (candidates_nonempty' A HA)) as Hin.
    unfold dedup. apply nodup_In. apply in_flat_map.
    exists (choice (candidates A)). split; [exact Hin|].
    destruct (choice (candidates A)) as [s p].
    destruct (p =? King).
    + destruct (is_nil (attackers_of b (flip side) occ target)); cbn [best_reply]; left;
        [rewrite Z.sub_0_r|]; reflexivity.
    + cbn [best_reply]. apply in_map_iff.
      exists (best_reply (captures k b choice target (flip side) (clrb occ s) (value p))).
      split; [reflexivity|apply IH].
Qed.

Theorem all_balances_complete b m choice : admissible choice ->
  In (balance (swap_list b m choice)) (all_balances b m).
Proof.
  intros Adm. unfold swap_list, all_balances. cbv zeta. cbn [balance].
  apply in_map_iff. eexists. split; [reflexivity|]. apply all_replies_complete. exact Adm.
Qed.
