(* C16: the history bands feed the picker theorem. *)
From Coq Require Import ZArith Lia Bool List Permutation.
Import ListNotations.
From Chess3 Require Import Base.Word Gen.HeurConsts Model.Hist Model.Picker Proofs.HistProofs Proofs.PickerProofs.
Open Scope Z_scope.

(* the picker theorem with the designed bands as the hypothesis on the weights *)
Definition weights_in_band (e : env) : Prop :=
  Forall (fun mw => in_noisy_band (snd mw)) (e_noisy e) /\ Forall (fun mw => in_quiet_band (snd mw)) (e_quiet e).

Lemma weights_in_band_above_threshold e : weights_in_band e ->
  forall mw, In mw (e_noisy e ++ e_quiet e) -> rest_threshold < snd mw.
Proof.
  intros [Hn Hq] mw Hin. apply in_app_or in Hin. destruct Hin as [Hin|Hin].
  - rewrite Forall_forall in Hn. apply (noisy_band_layout _ (Hn _ Hin)).
  - rewrite Forall_forall in Hq. apply (quiet_band_layout _ (Hq _ Hin)).
Qed.

Theorem picker_correct_bands s hm e :
  fresh_frame s -> store_room s e ->
  (e_ipl e = true <-> In hm (moves_of e)) -> NoDup (moves_of e) -> weights_in_band e ->
  exists ys q,
    drain_from (drain_fuel e) e (picker_new s hm) = Some (ys, q)
    /\ drain e (picker_new s hm) = Some ys
    /\ Permutation (map fst ys) (moves_of e)
    /\ (e_ipl e = true -> hd_error ys = Some (hm, HashMove))
    /\ store_pop (p_store q) = store_pop s.
Proof.
  intros Hfresh Hroom Hipl Hnd Hw. apply picker_correct; auto.
  apply weights_in_band_above_threshold. exact Hw.
Qed.

(* the environment computed from a reachable ranker has its weights in the bands *)
Definition attrs_ok (a : noisy_attr) : Prop := 0 <= na_attacker a <= King /\ 0 <= na_victim a <= King.

Lemma rank_quiet_attrs_spec r stm top0 top1 : ranker_ok r -> forall qs ws,
  rank_quiet_attrs r stm top0 top1 qs = Some ws ->
  map fst ws = map qa_move qs /\ Forall (fun mw => in_quiet_band (snd mw)) ws.
Proof.
  intros Hr. induction qs as [|q qs IH]; intros ws E; cbn [rank_quiet_attrs] in E.
  - injection E as <-. split; [reflexivity|constructor].
  - destruct (rank_quiet r stm (qa_move q) (qa_moved q) top0 top1) as [w|] eqn:Ew; [|discriminate].
    destruct (rank_quiet_attrs r stm top0 top1 qs) as [ws'|]; [|discriminate].
    injection E as <-. destruct (IH ws' eq_refl) as [Hm Hb]. split.
    + cbn. now rewrite Hm.
    + constructor; [|exact Hb]. cbn. eapply rank_quiet_band; eassumption.
Qed.

Lemma ranked_env_spec r stm top0 top1 ipl noisy quiet e :
  ranker_ok r -> Forall attrs_ok noisy -> ranked_env r stm top0 top1 ipl noisy quiet = Some e ->
  weights_in_band e /\ moves_of e = map na_move noisy ++ map qa_move quiet /\ e_ipl e = ipl.
Proof.
  intros Hr Ha E. unfold ranked_env in E.
  destruct (rank_quiet_attrs r stm top0 top1 quiet) as [qs|] eqn:Eq; [|discriminate].
  injection E as <-. destruct (rank_quiet_attrs_spec r stm top0 top1 Hr quiet qs Eq) as [Hm Hb].
  unfold weights_in_band, moves_of. cbn [e_noisy e_quiet e_ipl]. split; [split|split].
  - rewrite Forall_forall in *. intros mw Hin. apply in_map_iff in Hin. destruct Hin as (a & <- & Hin).
    destruct (Ha a Hin) as [H1 H2]. unfold rank_noisy_attr. cbn [snd]. unfold in_noisy_band.
    pose proof (rank_noisy_band (move_promo (na_move a)) (na_attacker a) (na_victim a) (na_see a)
                  (move_promo_range _) H1 H2) as Hband.
    destruct (na_see a); [left|right]; exact Hband.
  - exact Hb.
  - unfold wmove in *. rewrite map_app, Hm, map_map. reflexivity.
  - reflexivity.
Qed.

(* C16, end to end on the model: any reachable state of the histories, any position abstraction *)
Theorem picker_end_to_end r stm top0 top1 ipl noisy quiet e s hm :
  reachable r -> Forall attrs_ok noisy ->
  ranked_env r stm top0 top1 ipl noisy quiet = Some e ->
  fresh_frame s -> store_room s e ->
  (ipl = true <-> In hm (map na_move noisy ++ map qa_move quiet)) ->
  NoDup (map na_move noisy ++ map qa_move quiet) ->
  weights_in_band e
  /\ exists ys q,
    drain_from (drain_fuel e) e (picker_new s hm) = Some (ys, q)
    /\ drain e (picker_new s hm) = Some ys
    /\ Permutation (map fst ys) (map na_move noisy ++ map qa_move quiet)
    /\ (ipl = true -> hd_error ys = Some (hm, HashMove))
    /\ store_pop (p_store q) = store_pop s.
Proof.
  intros Hreach Ha He Hfresh Hroom Hipl Hnd.
  destruct (ranked_env_spec _ _ _ _ _ _ _ _ (reachable_ok r Hreach) Ha He) as (Hw & Hm & Hi).
  split; [exact Hw|]. rewrite <- Hm, <- Hi in *. apply picker_correct_bands; auto.
Qed.
