package streams

import (
	"verifharness/hx"
	"verifharness/posgen"
)

// pos: board-in -> board-out. Self-test of the board wire format and of the position generators:
// the model decodes the input and re-encodes it (Model/BoardDef.v run_pos); the implementation
// side restores a real engine board from the same input and prints its snapshot.
func init() {
	hx.Register(&hx.Stream{Name: "pos", Gen: genPos, Run: runPos})
}

func runPos(a hx.Args) string {
	b, _ := a.Board(0)
	return (&hx.Nums{}).BoardOut(b).String()
}

func genPos(rng *hx.Rng, n int, tier string, emit func(hx.Input)) {
	posgen.Stream(rng, n, func(p posgen.Pos) {
		emit(hx.Input{In: (&hx.Nums{}).BoardIn(p.B).String(), Desc: p.Desc(),
			Tags: append(posgen.Tags(p.B), p.Kind), NonTrivial: true, Key: p.B.FEN()})
	})
}
