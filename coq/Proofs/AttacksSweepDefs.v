(* The boolean checks that the C12 sweeps evaluate by vm_compute, and what each of them means.
   The sweeps themselves (Proofs/AttacksSweepR*.v, AttacksSweepB*.v) only state
   [forallb check squares = true]. *)
From Coq Require Import NArith ZArith List Bool Lia.
From Chess3 Require Import Base.Bits Base.BitsLemmas Model.Types Spec.Geometry Gen.AttackTables Model.Attacks.
Import ListNotations.
Open Scope N_scope.

(* for one square: the init loop leaves through its break within 2^popcount(mask) rounds, and for
   EVERY subset s of the mask (enumerated as pdep i mask, i < 2^popcount mask) the cell the lookup
   reads is inside the Go array and holds the geometric attack set of s *)
Definition slider_sweep_sq (calc : N -> N -> N) (masks magics shifts : list N) (size : N)
                           (geom : N -> N -> N) (sq : N) : bool :=
  let mask := nthN masks sq 0 in
  let magic := nthN magics sq 0 in
  let shift := nthN shifts sq 0 in
  let '(row, finished) := fill calc masks magics shifts sq in
  finished &&
  forall_below (subsets_count mask) (fun i =>
    let s := pdep i mask in
    let ix := magic_hash s magic shift in
    (ix <? size) && (tbl_get row ix =? geom sq s)).

Definition rook_sweep_sq : N -> bool :=
  slider_sweep_sq calc_rook_attacks rook_masks rook_magics rook_shifts rook_table_size rook_attacks.
Definition bishop_sweep_sq : N -> bool :=
  slider_sweep_sq calc_bishop_attacks bishop_masks bishop_magics bishop_shifts bishop_table_size bishop_attacks.

(* squares outside the mask never influence the geometric result: all but the last square of every
   ray are in the mask *)
Definition mask_covers (dirs : list (Z * Z)) (masks : list N) (sq : N) : bool :=
  forallb (fun d => forallb (fun s => N.testbit (nthN masks sq 0) s) (removelast (ray sq d))) dirs.
