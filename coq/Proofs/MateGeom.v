(* Geometry used by the mate/stalemate proofs (C09).

   The sliders of Spec/Geometry.v walk rays; whether square t is attacked from square s depends on
   the occupancy only through the squares strictly between them.  This file makes that explicit in a
   form that computes:   testbit (slide dirs s occ) t = hit dirs s occ t   where [hit] looks up the
   prefix of the ray that leads to t and asks for it to be empty.  Facts that do not mention the
   occupancy any more (symmetry of the prefixes, a ray never returns to its origin, leaper symmetry)
   are then finite statements over 64 x 64 squares, discharged by vm_compute. *)
From Coq Require Import NArith ZArith List Bool Lia.
From Chess3 Require Import Base.Bits Model.Types Spec.Geometry Model.Att Model.BoardDef.
Import ListNotations.
Open Scope N_scope.

(* ------------------------------------------------------------------------------------------ *)
(* small bit facts *)

Lemma testbit_nonzero x i : N.testbit x i = true -> x <> 0.
Proof. intros H E. subst. rewrite N.bits_0 in H. discriminate. Qed.

Lemma band_nonzero x y i : N.testbit x i = true -> N.testbit y i = true -> (band x y =? 0) = false.
Proof.
  intros Hx Hy. apply N.eqb_neq. apply (testbit_nonzero _ i). unfold band. rewrite N.land_spec, Hx, Hy. reflexivity.
Qed.

Lemma band_zero_testbit x y i : (band x y =? 0) = true -> N.testbit x i = true -> N.testbit y i = false.
Proof.
  intros H Hx. apply N.eqb_eq in H. destruct (N.testbit y i) eqn:Hy; [|reflexivity].
  exfalso. apply (testbit_nonzero (band x y) i); [|exact H]. unfold band. rewrite N.land_spec, Hx, Hy. reflexivity.
Qed.

Lemma squares64_spec s : In s squares64 <-> s < 64.
Proof.
  unfold squares64. rewrite in_map_iff. split.
  - intros [n [<- H]]. apply in_seq in H. lia.
  - intros H. exists (N.to_nat s). split; [lia|]. apply in_seq. lia.
Qed.

Lemma squares64_NoDup : NoDup squares64.
Proof.
  unfold squares64. apply NoDup_map_inv with (f := N.to_nat). rewrite map_map.
  rewrite (map_ext _ (fun x => x)) by (intros; apply Nnat.Nat2N.id). rewrite map_id. apply seq_NoDup.
Qed.

(* lifting a computed check over all squares *)
Lemma forall_sq (P : N -> bool) : forallb P squares64 = true -> forall s, s < 64 -> P s = true.
Proof. intros H s Hs. rewrite forallb_forall in H. apply H. apply squares64_spec. exact Hs. Qed.

Lemma forall_sq2 (P : N -> N -> bool) :
  forallb (fun s => forallb (P s) squares64) squares64 = true -> forall s t, s < 64 -> t < 64 -> P s t = true.
Proof. intros H s t Hs Ht. apply (forall_sq (P s)); [|exact Ht]. apply (forall_sq (fun s => forallb (P s) squares64)); assumption. Qed.

Lemma bits_of_bit s : s < 64 -> bits_of (bit s) = [s].
Proof.
  intros Hs.
  assert (H := forall_sq (fun s => match bits_of (bit s) with [x] => x =? s | _ => false end)
                         ltac:(vm_compute; reflexivity) s Hs).
  cbv beta in H. destruct (bits_of (bit s)) as [|x [|y r]]; try discriminate.
  apply N.eqb_eq in H. subst. reflexivity.
Qed.

(* ------------------------------------------------------------------------------------------ *)
(* sliders: attacked = the prefix of the ray up to the target is empty *)

Fixpoint prefix_to (l : list N) (t : N) : option (list N) :=
  match l with
  | [] => None
  | s :: r => if s =? t then Some []
              else match prefix_to r t with Some p => Some (s :: p) | None => None end
  end.

Definition all_clear (occ : N) (l : list N) : bool := forallb (fun u => negb (N.testbit occ u)) l.

Lemma walk_testbit l occ t :
  N.testbit (walk l occ) t = match prefix_to l t with Some p => all_clear occ p | None => false end.
Proof.
  induction l as [|s r IH]; cbn [walk prefix_to].
  - apply N.bits_0.
  - rewrite N.lor_spec, bit_testbit. destruct (N.eqb_spec s t) as [E|E]; [reflexivity|].
    cbn [orb]. destruct (N.testbit occ s) eqn:Ho.
    + rewrite N.bits_0. destruct (prefix_to r t); [|reflexivity]. cbn [all_clear forallb]. rewrite Ho. reflexivity.
    + rewrite IH. destruct (prefix_to r t); [|reflexivity]. cbn [all_clear forallb]. rewrite Ho. reflexivity.
Qed.

Definition hit (dirs : list (Z * Z)) (s occ t : N) : bool :=
  existsb (fun d => match prefix_to (ray s d) t with Some p => all_clear occ p | None => false end) dirs.

Lemma slide_testbit dirs s occ t : N.testbit (slide dirs s occ) t = hit dirs s occ t.
Proof.
  unfold slide, hit. induction dirs as [|d r IH]; cbn [fold_right existsb].
  - apply N.bits_0.
  - rewrite N.lor_spec, walk_testbit, IH. reflexivity.
Qed.

Lemma all_clear_rev occ p : all_clear occ (rev p) = all_clear occ p.
Proof.
  unfold all_clear. apply Bool.eq_true_iff_eq. rewrite !forallb_forall. split; intros H x Hx; apply H.
  - apply -> in_rev. exact Hx.
  - apply in_rev. exact Hx.
Qed.

(* symmetry of the prefixes: a finite statement *)
Definition sym_check (dirs : list (Z * Z)) (s t : N) : bool :=
  forallb (fun d => match prefix_to (ray s d) t with
                    | None => true
                    | Some p => existsb (fun d' => match prefix_to (ray t d') s with
                                                   | Some p' => if list_eq_dec N.eq_dec p' (rev p) then true else false
                                                   | None => false end) dirs
                    end) dirs.

Lemma hit_sym_gen dirs :
  (forall s t, s < 64 -> t < 64 -> sym_check dirs s t = true) ->
  forall s t occ, s < 64 -> t < 64 -> hit dirs s occ t = true -> hit dirs t occ s = true.
Proof.
  intros Hc s t occ Hs Ht H. unfold hit in *. apply existsb_exists in H. destruct H as [d [Hd H]].
  destruct (prefix_to (ray s d) t) as [p|] eqn:Ep; [|discriminate].
  specialize (Hc s t Hs Ht). unfold sym_check in Hc. rewrite forallb_forall in Hc.
  specialize (Hc d Hd). rewrite Ep in Hc. apply existsb_exists in Hc. destruct Hc as [d' [Hd' Hc]].
  apply existsb_exists. exists d'. split; [exact Hd'|].
  destruct (prefix_to (ray t d') s) as [p'|]; [|discriminate].
  destruct (list_eq_dec N.eq_dec p' (rev p)) as [->|]; [|discriminate].
  rewrite all_clear_rev. exact H.
Qed.

Lemma rook_sym_check : forall s t, s < 64 -> t < 64 -> sym_check rook_dirs s t = true.
Proof. apply (forall_sq2 (sym_check rook_dirs)). vm_compute. reflexivity. Qed.
Lemma bishop_sym_check : forall s t, s < 64 -> t < 64 -> sym_check bishop_dirs s t = true.
Proof. apply (forall_sq2 (sym_check bishop_dirs)). vm_compute. reflexivity. Qed.

(* the prefix contains neither end *)
Definition ends_check (dirs : list (Z * Z)) (s t : N) : bool :=
  forallb (fun d => match prefix_to (ray s d) t with
                    | None => true
                    | Some p => negb (existsb (N.eqb s) p) && negb (existsb (N.eqb t) p) &&
                                forallb (fun u => u <? 64) p
                    end) dirs.
Lemma rook_ends_check : forall s t, s < 64 -> t < 64 -> ends_check rook_dirs s t = true.
Proof. apply (forall_sq2 (ends_check rook_dirs)). vm_compute. reflexivity. Qed.
Lemma bishop_ends_check : forall s t, s < 64 -> t < 64 -> ends_check bishop_dirs s t = true.
Proof. apply (forall_sq2 (ends_check bishop_dirs)). vm_compute. reflexivity. Qed.

Lemma not_existsb_eqb x l : existsb (N.eqb x) l = false -> forall u, In u l -> u <> x.
Proof.
  intros H u Hu E. subst u. assert (existsb (N.eqb x) l = true); [|congruence].
  apply existsb_exists. exists x. split; [exact Hu|apply N.eqb_refl].
Qed.

Lemma forallb_ext_in' {A} (f g : A -> bool) l : (forall x, In x l -> f x = g x) -> forallb f l = forallb g l.
Proof.
  induction l as [|a r IH]; intros H; [reflexivity|]. cbn [forallb].
  rewrite (H a (or_introl eq_refl)), IH; [reflexivity|]. intros x Hx. apply H. right. exact Hx.
Qed.

(* the attack depends on the occupancy only off the two ends *)
Lemma hit_ext_gen dirs :
  (forall s t, s < 64 -> t < 64 -> ends_check dirs s t = true) ->
  forall s t occ occ', s < 64 -> t < 64 ->
  (forall u, u <> s -> u <> t -> N.testbit occ u = N.testbit occ' u) ->
  hit dirs s occ t = hit dirs s occ' t.
Proof.
  intros Hc s t occ occ' Hs Ht Hext. unfold hit.
  specialize (Hc s t Hs Ht). unfold ends_check in Hc. rewrite forallb_forall in Hc.
  induction dirs as [|d r IH]; [reflexivity|]. cbn [existsb]. f_equal.
  - specialize (Hc d (or_introl eq_refl)). destruct (prefix_to (ray s d) t) as [p|]; [|reflexivity].
    apply andb_prop in Hc. destruct Hc as [Hc _]. apply andb_prop in Hc. destruct Hc as [H1 H2].
    apply negb_true_iff in H1, H2.
    unfold all_clear. apply forallb_ext_in'. intros u Hu. f_equal. apply Hext.
    + exact (not_existsb_eqb _ _ H1 u Hu).
    + exact (not_existsb_eqb _ _ H2 u Hu).
  - apply IH. intros x Hx. apply Hc. right. exact Hx.
Qed.

Lemma rook_testbit s occ t : N.testbit (rook_attacks s occ) t = hit rook_dirs s occ t.
Proof. apply slide_testbit. Qed.
Lemma bishop_testbit s occ t : N.testbit (bishop_attacks s occ) t = hit bishop_dirs s occ t.
Proof. apply slide_testbit. Qed.

Lemma rook_sym s t occ : s < 64 -> t < 64 -> N.testbit (rook_attacks s occ) t = true -> N.testbit (rook_attacks t occ) s = true.
Proof. rewrite !rook_testbit. apply hit_sym_gen. exact rook_sym_check. Qed.
Lemma bishop_sym s t occ : s < 64 -> t < 64 -> N.testbit (bishop_attacks s occ) t = true -> N.testbit (bishop_attacks t occ) s = true.
Proof. rewrite !bishop_testbit. apply hit_sym_gen. exact bishop_sym_check. Qed.

Lemma rook_ext s t occ occ' : s < 64 -> t < 64 ->
  (forall u, u <> s -> u <> t -> N.testbit occ u = N.testbit occ' u) ->
  N.testbit (rook_attacks s occ) t = N.testbit (rook_attacks s occ') t.
Proof. rewrite !rook_testbit. apply hit_ext_gen. exact rook_ends_check. Qed.
Lemma bishop_ext s t occ occ' : s < 64 -> t < 64 ->
  (forall u, u <> s -> u <> t -> N.testbit occ u = N.testbit occ' u) ->
  N.testbit (bishop_attacks s occ) t = N.testbit (bishop_attacks s occ') t.
Proof. rewrite !bishop_testbit. apply hit_ext_gen. exact bishop_ends_check. Qed.

(* attacked squares are on the board and differ from the origin *)
Definition range_check (dirs : list (Z * Z)) (s : N) : bool :=
  forallb (fun d => forallb (fun u => (u <? 64) && negb (u =? s)) (ray s d)) dirs.
Lemma prefix_to_In l t p : prefix_to l t = Some p -> In t l.
Proof.
  revert p. induction l as [|x r IH]; cbn [prefix_to]; intros p H; [discriminate|].
  destruct (N.eqb_spec x t) as [->|E]; [left; reflexivity|].
  destruct (prefix_to r t) as [q|] eqn:Eq; [|discriminate]. right. eapply IH. reflexivity.
Qed.
Lemma hit_range_gen dirs : (forall s, s < 64 -> range_check dirs s = true) ->
  forall s occ t, s < 64 -> hit dirs s occ t = true -> t < 64 /\ t <> s.
Proof.
  intros Hc s occ t Hs H. unfold hit in H. apply existsb_exists in H. destruct H as [d [Hd H]].
  destruct (prefix_to (ray s d) t) as [p|] eqn:Ep; [|discriminate]. apply prefix_to_In in Ep.
  specialize (Hc s Hs). unfold range_check in Hc. rewrite forallb_forall in Hc. specialize (Hc d Hd).
  rewrite forallb_forall in Hc. specialize (Hc t Ep). apply andb_prop in Hc. destruct Hc as [A B].
  apply N.ltb_lt in A. apply negb_true_iff, N.eqb_neq in B. split; assumption.
Qed.
Lemma rook_range s occ t : s < 64 -> N.testbit (rook_attacks s occ) t = true -> t < 64 /\ t <> s.
Proof. rewrite rook_testbit. apply hit_range_gen. apply (forall_sq (range_check rook_dirs)). vm_compute. reflexivity. Qed.
Lemma bishop_range s occ t : s < 64 -> N.testbit (bishop_attacks s occ) t = true -> t < 64 /\ t <> s.
Proof. rewrite bishop_testbit. apply hit_range_gen. apply (forall_sq (range_check bishop_dirs)). vm_compute. reflexivity. Qed.

(* ------------------------------------------------------------------------------------------ *)
(* leapers *)

Definition leaper_check (f : N -> N) (s t : N) : bool :=
  Bool.eqb (N.testbit (f s) t) (N.testbit (f t) s).
Lemma king_sym s t : s < 64 -> t < 64 -> N.testbit (king_attacks s) t = N.testbit (king_attacks t) s.
Proof. intros Hs Ht. apply eqb_prop. revert s t Hs Ht. apply (forall_sq2 (leaper_check king_attacks)). vm_compute. reflexivity. Qed.
Lemma knight_sym s t : s < 64 -> t < 64 -> N.testbit (knight_attacks s) t = N.testbit (knight_attacks t) s.
Proof. intros Hs Ht. apply eqb_prop. revert s t Hs Ht. apply (forall_sq2 (leaper_check knight_attacks)). vm_compute. reflexivity. Qed.

(* king steps: on the board, not the origin, never two files away (so never mistaken for castling) *)
Lemma king_step_range s t : s < 64 -> N.testbit (king_attacks s) t = true ->
  t < 64 /\ t <> s /\ t <> s + 2 /\ t + 2 <> s.
Proof.
  intros Hs H.
  assert (C := forall_sq (fun s => forallb (fun t => (t <? 64) && negb (t =? s) && negb (t =? s + 2) && negb (t + 2 =? s))
                                            (bits_of (king_attacks s))) ltac:(vm_compute; reflexivity) s Hs).
  cbv beta in C. rewrite forallb_forall in C. specialize (C t (proj2 (bits_of_spec _ _) H)).
  repeat (apply andb_prop in C; destruct C as [C ?]).
  repeat match goal with H : negb _ = true |- _ => apply negb_true_iff, N.eqb_neq in H end.
  apply N.ltb_lt in C. tauto.
Qed.
Lemma knight_range s t : s < 64 -> N.testbit (knight_attacks s) t = true -> t < 64 /\ t <> s.
Proof.
  intros Hs H.
  assert (C := forall_sq (fun s => forallb (fun t => (t <? 64) && negb (t =? s)) (bits_of (knight_attacks s)))
                         ltac:(vm_compute; reflexivity) s Hs).
  cbv beta in C. rewrite forallb_forall in C. specialize (C t (proj2 (bits_of_spec _ _) H)).
  apply andb_prop in C. destruct C as [A B]. apply N.ltb_lt in A. apply negb_true_iff, N.eqb_neq in B. tauto.
Qed.

(* ------------------------------------------------------------------------------------------ *)
(* pawns: the engine's shift formula on a set against the geometric attack of one pawn *)

Lemma pcm_bit c t s : t < 64 -> s < 64 ->
  N.testbit (pawn_capture_moves (bit t) c) s = N.testbit (pawn_attacks c t) s.
Proof.
  intros Ht Hs. apply eqb_prop. revert t s Ht Hs. destruct c.
  - apply (forall_sq2 (fun t s => Bool.eqb (N.testbit (pawn_capture_moves (bit t) White) s) (N.testbit (pawn_attacks White t) s))).
    vm_compute. reflexivity.
  - apply (forall_sq2 (fun t s => Bool.eqb (N.testbit (pawn_capture_moves (bit t) Black) s) (N.testbit (pawn_attacks Black t) s))).
    vm_compute. reflexivity.
Qed.

Lemma pawn_attacks_range c t s : t < 64 -> N.testbit (pawn_attacks c t) s = true -> s < 64 /\ s <> t.
Proof.
  intros Ht H.
  assert (C := forall_sq (fun t => forallb (fun s => (s <? 64) && negb (s =? t)) (bits_of (pawn_attacks c t)))
                         ltac:(destruct c; vm_compute; reflexivity) t Ht).
  cbv beta in C. rewrite forallb_forall in C. specialize (C s (proj2 (bits_of_spec _ _) H)).
  apply andb_prop in C. destruct C as [A B]. apply N.ltb_lt in A. apply negb_true_iff, N.eqb_neq in B. tauto.
Qed.

Lemma ldiff_lor a b m : N.ldiff (N.lor a b) m = N.lor (N.ldiff a m) (N.ldiff b m).
Proof. apply N.bits_inj. intro i. rewrite !N.lor_spec, !N.ldiff_spec, N.lor_spec. destruct (N.testbit a i), (N.testbit b i), (N.testbit m i); reflexivity. Qed.
Lemma shl_lor a b k : shl (N.lor a b) k = N.lor (shl a k) (shl b k).
Proof. unfold shl, w64. rewrite N.shiftl_lor. apply N.land_lor_distr_l. Qed.
Lemma shr_lor a b k : shr (N.lor a b) k = N.lor (shr a k) (shr b k).
Proof. unfold shr. apply N.shiftr_lor. Qed.

Lemma pcm_lor a b c : pawn_capture_moves (N.lor a b) c = N.lor (pawn_capture_moves a c) (pawn_capture_moves b c).
Proof.
  unfold pawn_capture_moves, bor, bandn. rewrite !ldiff_lor, !shl_lor, !shr_lor, !shl_lor.
  apply N.bits_inj. intro i. rewrite !N.lor_spec.
  repeat match goal with |- context [N.testbit ?x i] => is_var i; let v := fresh "v" in generalize (N.testbit x i) as v; intro v end.
  intros. repeat match goal with v : bool |- _ => destruct v end; reflexivity.
Qed.

Lemma pcm_mono P c t s : N.testbit P t = true -> t < 64 -> s < 64 ->
  N.testbit (pawn_attacks c t) s = true -> N.testbit (pawn_capture_moves P c) s = true.
Proof.
  intros HP Ht Hs H.
  assert (E : P = N.lor P (bit t)).
  { apply N.bits_inj. intro i. rewrite N.lor_spec, bit_testbit. destruct (N.eqb_spec t i) as [<-|]; [rewrite HP; reflexivity|apply eq_sym, orb_false_r]. }
  rewrite E, pcm_lor, N.lor_spec, pcm_bit, H by assumption. apply orb_true_r.
Qed.
