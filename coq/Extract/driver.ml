(* Generic driver: modelrun <stream> < cases.in > cases.model
   One case per line: hexadecimal integers separated by blanks ("-" prefix for negatives).
   The extracted Coq datatypes positive / z are built and printed bit by bit; no Coq arithmetic
   and no OCaml bignum library is involved. *)
open Ex

let hexval c = match c with
  | '0'..'9' -> Char.code c - 48
  | 'a'..'f' -> Char.code c - 87
  | 'A'..'F' -> Char.code c - 55
  | _ -> failwith "bad hex digit"

(* bits, most significant first, of a hex string *)
let positive_of_hex (s : String.t) : positive option =
  let acc = ref None in
  String.iter (fun c ->
    let v = hexval c in
    for b = 3 downto 0 do
      let bit = (v lsr b) land 1 = 1 in
      acc := (match !acc with
        | None -> if bit then Some XH else None
        | Some p -> Some (if bit then XI p else XO p))
    done) s;
  !acc

let z_of_token (t : String.t) : z =
  let neg = String.length t > 0 && t.[0] = '-' in
  let body = if neg then String.sub t 1 (String.length t - 1) else t in
  match positive_of_hex body with
  | None -> Z0
  | Some p -> if neg then Zneg p else Zpos p

let hex_of_positive (p : positive) : String.t =
  (* collect bits least significant first *)
  let rec bits p acc = match p with
    | XH -> true :: acc
    | XO q -> bits q (false :: acc)
    | XI q -> bits q (true :: acc) in
  let bl = bits p [] in (* most significant first *)
  let n = List.length bl in
  let pad = (4 - n mod 4) mod 4 in
  let bl = (List.init pad (fun _ -> false)) @ bl in
  let buf = Buffer.create 16 in
  let rec go = function
    | a :: b :: c :: d :: rest ->
        let v = (if a then 8 else 0) + (if b then 4 else 0) + (if c then 2 else 0) + (if d then 1 else 0) in
        Buffer.add_char buf "0123456789abcdef".[v]; go rest
    | [] -> ()
    | _ -> assert false in
  go bl; Buffer.contents buf

let token_of_z = function
  | Z0 -> "0"
  | Zpos p -> hex_of_positive p
  | Zneg p -> "-" ^ hex_of_positive p

let split_ws (s : String.t) : String.t list =
  List.filter (fun t -> t <> "") (String.split_on_char ' ' (String.trim s))

let () =
  if Array.length Sys.argv < 2 then (prerr_endline "usage: modelrun <stream>"; exit 2);
  let name = Sys.argv.(1) in
  let f = match List.assoc_opt name Dispatch.table with
    | Some f -> f
    | None -> prerr_endline ("unknown stream " ^ name); exit 2 in
  let out = Buffer.create (1 lsl 16) in
  (try
    while true do
      let line = input_line stdin in
      let zs = List.rev (List.rev_map z_of_token (split_ws line)) in
      let res = f zs in
      Buffer.add_string out (String.concat " " (List.rev (List.rev_map token_of_z res)));
      Buffer.add_char out '\n';
      if Buffer.length out > (1 lsl 16) then (print_string (Buffer.contents out); Buffer.clear out)
    done
  with End_of_file -> ());
  print_string (Buffer.contents out)
