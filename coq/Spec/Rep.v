(* The representation invariant of an engine board (DESIGN.md 4.2): the three redundant encodings of
   the placement describe one and the same placement, all words are 64-bit, the small fields are in
   range.  Executable ([rep_ok]) so that it can be evaluated on concrete boards and used by judges;
   [Rep] is the Prop the theorems carry. *)
From Coq Require Import NArith ZArith List Bool.
From Chess3 Require Import Base.Bits Model.Types Model.BoardDef.
Import ListNotations.
Open Scope N_scope.

Definition sq_ok (b : board) (s : N) : bool :=
  let k := piece_at b s in
  (k <=? 6) &&
  forallb (fun p => Bool.eqb (N.testbit (pieces b p) s) (k =? p)) [1; 2; 3; 4; 5; 6] &&
  Bool.eqb (N.testbit (colors b White) s || N.testbit (colors b Black) s) (negb (k =? 0)) &&
  negb (N.testbit (colors b White) s && N.testbit (colors b Black) s).

Definition rep_ok (b : board) : bool :=
  (length (sq2p b) =? 64)%nat && (length (pcs b) =? 7)%nat && (length (cols b) =? 2)%nat &&
  (pieces b 0 =? 0) &&
  forallb (fun x => x <? two64) (pcs b) && forallb (fun x => x <? two64) (cols b) &&
  forallb (sq_ok b) squares64 &&
  (ep b <? 64) && (castles b <? 16) &&
  negb (match hashes b with [] => true | _ => false end) &&
  forallb (fun x => x <? two64) (hashes b) &&
  ((-32768 <=? fifty b) && (fifty b <? 32768))%Z.

Definition Rep (b : board) : Prop := rep_ok b = true.
