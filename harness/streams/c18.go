package streams

import (
	"fmt"
	"sort"
	"strings"
	"sync/atomic"
	"time"

	"github.com/paulsonkoly/chess-3/board"
	. "github.com/paulsonkoly/chess-3/chess"
	"github.com/paulsonkoly/chess-3/heur"
	"github.com/paulsonkoly/chess-3/move"

	"verifharness/hx"
	"verifharness/posgen"
)

// c18: board-in ++ [move k v_1 .. v_k n t_1 .. t_n] -> [heur.SEE(b, move, t_i) as 0/1 ...]
// k = 0: the table of the source; k = 7 (configuration mode): the exported variable heur.PieceValues is
// set to v_1 .. v_7 for the call and restored afterwards (the harness is single-threaded per process).
// (see coq/Model/SeeStreams.v run_c18 / judge_c18).
//
// Positions: posgen G1/G2/G4 plus the dedicated battery generator below (stacked sliders and pawns on
// the rays aimed at one square, knights and kings around it, en-passant and promotion variants).
// Every LEGAL move of a position is a case; its thresholds straddle every partial balance of the
// capture sequence (v-1, v, v+1), add a +-queen ladder, and now and then the int16 extremes.
func init() {
	hx.Register(&hx.Stream{Name: "c18", Gen: genC18, Run: runC18})
}

// c18Hung counts calls that did not return in time (the loop of SEE has no bound of its own); after a
// few of them the remaining cases are answered without calling the implementation again.
var c18Hung atomic.Int32

const c18Timeout = "-2 -2 -2"

func runC18(a hx.Args) string {
	b, i := a.Board(0)
	m := hx.U2M(a.U64(i))
	k := a.Int(i + 1)
	if k != 0 && k != len(heur.PieceValues) {
		return "badinput"
	}
	if c18Hung.Load() >= 3 {
		return c18Timeout
	}
	if k != 0 {
		// configuration mode: the piece values in force are part of the input
		saved := heur.PieceValues
		defer func() { heur.PieceValues = saved }()
		for j := 0; j < k; j++ {
			heur.PieceValues[j] = Score(a.I64(i + 2 + j))
		}
	}
	i += 1 + k
	n := a.Int(i + 1)
	type res struct {
		out string
		pan bool
	}
	ch := make(chan res, 1)
	go func() {
		defer func() {
			if r := recover(); r != nil {
				ch <- res{pan: true}
			}
		}()
		eval := func(b *board.Board) string {
			out := &hx.Nums{}
			for k := 0; k < n; k++ {
				out.B(heur.SEE(b, m, Score(a.I64(i+2+k))))
			}
			return out.String()
		}
		out := eval(b)
		// the same position parsed into a RE-USED board (board.ParseFEN is the documented allocation-free
		// way to fill an existing board): the answers must not depend on what the board held before. A
		// deviating answer is what gets reported.
		if rb := c18Reparsed(b, m); rb != nil {
			if out2 := eval(rb); out2 != out {
				out = out2
			}
		}
		ch <- res{out: out}
	}()
	select {
	case r := <-ch:
		if r.pan {
			return hx.PanicOut
		}
		return r.out
	case <-time.After(3 * time.Second):
		c18Hung.Add(1)
		return c18Timeout
	}
}

// c18Reparsed returns the position of b parsed (from its FEN) into a board that held another position
// before: bare kings with an en-passant field naming the destination square of m when that is on the
// 3rd/6th rank (else e3). Done for every pawn move onto the 3rd/6th rank and for every eighth other case;
// nil when not applicable (the FEN printer/parser reject halfmove clocks above 100).
func c18Reparsed(b *board.Board, m move.Move) *board.Board {
	to := m.To()
	onEpRank := to/8 == 2 || to/8 == 5
	if !(onEpRank && b.SquaresToPiece[m.From()] == Pawn) && (uint64(b.Colors[White])*0x9e3779b97f4a7c15+hx.M2U(m))>>61 != 0 {
		return nil
	}
	sq := Square(20)
	if onEpRank {
		sq = to
	}
	var rb board.Board
	if err := board.ParseFEN(&rb, []byte("4k3/8/8/8/8/8/8/4K3 w - "+sq.String()+" 0 1")); err != nil {
		return nil
	}
	if err := board.ParseFEN(&rb, []byte(b.FEN())); err != nil {
		return nil
	}
	return &rb
}

// c18Prefixes returns the running balances g0, g0-g1, g0-g1+g2, ... of a plain least-valuable-attacker
// capture sequence (recomputed from scratch with Board.Attackers after every capture; no king rule).
// It is only used to choose thresholds that straddle every achievable balance.
func c18Prefixes(b *board.Board, m move.Move, tbl [7]int) (sums []int, recaptures int) {
	pv := func(p Piece) int { return tbl[p] }
	from, to := m.From(), m.To()
	occ := (b.Colors[White] | b.Colors[Black]) &^ (BitBoard(1) << from)
	csq := b.CaptureSq(m)
	if b.IsEnPassant(m) {
		occ &^= BitBoard(1) << csq
	}
	promo := 0
	if p := m.Promo(); p != NoPiece && p <= King {
		promo = pv(p) - pv(Pawn)
	}
	cur := pv(b.SquaresToPiece[csq]) + promo
	standing := pv(b.SquaresToPiece[from]) + promo
	sums = append(sums, cur)
	side := b.STM.Flip()
	sign := -1
	for {
		att := b.Attackers(BitBoard(1)<<to, occ, side) & occ
		if att == 0 {
			break
		}
		for p := Pawn; p <= King; p++ {
			if x := att & b.Pieces[p]; x != 0 {
				occ &^= BitBoard(1) << x.LowestSet()
				cur += sign * standing
				standing = pv(p)
				break
			}
		}
		sums = append(sums, cur)
		recaptures++
		sign = -sign
		side = side.Flip()
	}
	return sums, recaptures
}

// c18SameKindTags reports, for the destination square of m under the occupancy after the move, whether
// some side attacks it with two or more pieces of ONE kind (the situation in which "the set of
// attackers of a kind" and "the piece that captures" differ), whether one of those has an x-ray piece
// behind it, and whether that one is the lowest-square one (the one the engine takes first) or not.
func c18SameKindTags(b *board.Board, m move.Move) []string {
	from, to := m.From(), m.To()
	toBB := BitBoard(1) << to
	occ := (b.Colors[White] | b.Colors[Black]) &^ (BitBoard(1) << from)
	if b.IsEnPassant(m) {
		occ &^= BitBoard(1) << b.CaptureSq(m)
	}
	all := func(o BitBoard) BitBoard {
		return (b.Attackers(toBB, o, White) | b.Attackers(toBB, o, Black)) & o
	}
	base := all(occ)
	seen := map[string]bool{}
	var tags []string
	add := func(t string) {
		if !seen[t] {
			seen[t] = true
			tags = append(tags, t)
		}
	}
	names := [...]string{"", "P", "N", "B", "R", "Q", "K"}
	for c := White; c <= Black; c++ {
		for p := Pawn; p <= Queen; p++ {
			set := base & b.Colors[c] & b.Pieces[p]
			if set.Count() < 2 {
				continue
			}
			add("samekind>=2")
			add("samekind>=2:" + names[p])
			first := true
			for x := set; x != 0; x &= x - 1 {
				sq := x.LowestSet()
				o := occ &^ (BitBoard(1) << sq)
				if all(o)&^base != 0 {
					add("samekind>=2+xray")
					add("samekind>=2+xray:" + names[p])
					if first {
						add("samekind>=2+xray-behind-lowest:" + names[p])
					} else {
						add("samekind>=2+xray-behind-higher:" + names[p])
					}
					if (BitBoard(1)<<sq)&(AFileBB|HFileBB|FirstRankBB|EighthRankBB) == 0 && set&(AFileBB|HFileBB|FirstRankBB|EighthRankBB) != 0 {
						add("samekind>=2+xray-behind-inner-with-rim-sibling:" + names[p])
					}
				}
				first = false
			}
		}
	}
	return tags
}

// c18FixedTables are alternative piece-value tables people actually try (index = piece code).
var c18FixedTables = [][7]int{
	{0, 100, 320, 330, 500, 900, 10000},
	{0, 100, 300, 350, 500, 1000, 10000},
	{0, 80, 300, 300, 500, 900, 10000},
	{0, 100, 325, 325, 550, 1000, 10000},
	{0, 82, 337, 365, 477, 1025, 12000},
	{0, 124, 781, 825, 1276, 2538, 10000},
	{0, 1, 3, 3, 5, 9, 200},
}

// c18Table picks the table in force for one case: the one of the source (75 %), a fixed alternative, or a
// random monotone one (pawn < knight <= bishop < rook < queen < king, inside the no-wrap domain).
func c18Table(rng *hx.Rng) ([7]int, string) {
	var def [7]int
	for i, v := range heur.PieceValues {
		def[i] = int(v)
	}
	switch x := rng.Intn(100); {
	case x < 75:
		return def, "default"
	case x < 87:
		return c18FixedTables[rng.Intn(len(c18FixedTables))], "fixed"
	default:
		var t [7]int
		t[Pawn] = int(rng.Range(40, 160))
		t[Knight] = t[Pawn] + int(rng.Range(1, 350))
		t[Bishop] = t[Knight]
		if rng.Chance(0.7) {
			t[Bishop] += int(rng.Range(1, 120))
		}
		t[Rook] = t[Bishop] + int(rng.Range(1, 400))
		t[Queen] = t[Rook] + int(rng.Range(1, 800))
		t[King] = []int{10000, 10000, 12000, 5000, int(rng.Range(3000, 12000))}[rng.Intn(5)]
		return t, "random"
	}
}

func c18TableDesc(tbl [7]int, kind string) string {
	if kind == "default" {
		return ""
	}
	return fmt.Sprintf(" PieceValues %v", tbl)
}

func c18Thresholds(rng *hx.Rng, sums []int, tbl [7]int) []int {
	set := map[int]struct{}{}
	lo, hi := sums[0], sums[0]
	for _, s := range sums {
		set[s-1], set[s], set[s+1] = struct{}{}, struct{}{}, struct{}{}
		lo, hi = min(lo, s), max(hi, s)
	}
	q := tbl[Queen]
	for _, t := range []int{lo - q - 1, lo - q, hi + q, hi + q + 1, 0} {
		set[t] = struct{}{}
	}
	if rng.Chance(0.1) {
		for _, t := range []int{-20001, -20000, 20000, 20001, -32768, 32767, int(int16(rng.U64()))} {
			set[t] = struct{}{}
		}
	}
	var ts []int
	for t := range set {
		if t >= -32768 && t <= 32767 {
			ts = append(ts, t)
		}
	}
	sort.Ints(ts)
	return ts
}

// c18Emit emits one case per legal move of b. focus >= 0 (same-kind generator): every move onto that
// square, the other moves only now and then (the other sources cover every legal move of a position).
func c18Emit(b *board.Board, kind, desc string, focus int, rng *hx.Rng, emit func(hx.Input)) int {
	in := (&hx.Nums{}).BoardIn(b).String()
	fen := b.FEN()
	cnt := 0
	for _, m := range posgen.Legal(b) {
		if focus >= 0 && int(m.To()) != focus && !rng.Chance(0.12) {
			continue
		}
		tbl, tblKind := c18Table(rng)
		sums, rec := c18Prefixes(b, m, tbl)
		ts := c18Thresholds(rng, sums, tbl)
		n := (&hx.Nums{}).U(hx.M2U(m))
		if tblKind == "default" {
			n.Int(0)
		} else {
			n.Int(len(tbl)).Int(tbl[:]...)
		}
		n.Int(len(ts)).Int(ts...)
		tags := []string{kind, "table=" + tblKind}
		switch {
		case b.IsEnPassant(m):
			tags = append(tags, "en-passant")
		case m.Promo() != NoPiece && b.SquaresToPiece[m.To()] != NoPiece:
			tags = append(tags, "promotion-capture")
		case m.Promo() != NoPiece:
			tags = append(tags, "promotion-push")
		case b.SquaresToPiece[m.To()] != NoPiece:
			tags = append(tags, "capture")
		default:
			tags = append(tags, "quiet")
		}
		switch {
		case rec == 0:
			tags = append(tags, "recaptures=0")
		case rec == 1:
			tags = append(tags, "recaptures=1")
		case rec <= 3:
			tags = append(tags, "recaptures=2-3")
		case rec <= 6:
			tags = append(tags, "recaptures=4-6")
		default:
			tags = append(tags, "recaptures>=7")
		}
		if b.SquaresToPiece[m.From()] == King {
			tags = append(tags, "king-moves")
		}
		tags = append(tags, c18SameKindTags(b, m)...)
		reused := ""
		if c18Reparsed(b, m) != nil {
			tags = append(tags, "also-on-reused-board")
			reused = " [also evaluated after ParseFEN into a re-used board that held an en-passant square]"
		}
		emit(hx.Input{In: in + " " + n.String(),
			Desc:       fmt.Sprintf("%s fen %s see %s thresholds %v%s  (%s)", kind, fen, m.String(), ts, c18TableDesc(tbl, tblKind)+reused, desc),
			Tags:       tags,
			NonTrivial: rec >= 1,
			Key:        fen + " " + m.String() + c18TableDesc(tbl, tblKind)})
		cnt++
	}
	return cnt
}

func genC18(rng *hx.Rng, n int, tier string, emit func(hx.Input)) {
	// shares of the CASES (not of the positions): 30 % same-kind generator, 30 % battery generator,
	// 40 % posgen; the source that is furthest below its share goes next
	var got [3]int
	share := [3]float64{0.30, 0.30, 0.40}
	cnt := 0
	for cnt < n {
		src, worst := 0, 2.0
		for k := range got {
			if r := float64(got[k]) / (share[k] * float64(cnt+1)); r < worst {
				src, worst = k, r
			}
		}
		before := cnt
		switch src {
		case 0:
			for k := 0; k < 8 && cnt < n; k++ {
				if p, focus := c18SameKind(rng); p != nil {
					cnt += c18Emit(p.B, p.Kind, p.Root, focus, rng, emit)
				}
			}
		case 1:
			for k := 0; k < 8 && cnt < n; k++ {
				if p := c18Battery(rng); p != nil {
					cnt += c18Emit(p.B, p.Kind, p.Root, -1, rng, emit)
				}
			}
		default:
			posgen.Stream(rng, 6, func(p posgen.Pos) {
				if cnt >= n {
					return
				}
				cnt += c18Emit(p.B, p.Kind, p.Desc(), -1, rng, emit)
			})
		}
		got[src] += cnt - before
		if cnt == before {
			got[src]++ // a source that produced nothing must not be asked forever
		}
	}
}

// ---------------------------------------------------------------------------------------------
// battery generator: kind "B0" plain target, "Bep" en-passant target, "Bpr" promotion target

type c18grid struct{ sq [64]byte }

func (g *c18grid) fen(stm Color, ep string) string {
	var sb strings.Builder
	for r := 7; r >= 0; r-- {
		empty := 0
		for f := 0; f < 8; f++ {
			c := g.sq[r*8+f]
			if c == 0 {
				empty++
				continue
			}
			if empty > 0 {
				sb.WriteByte(byte('0' + empty))
				empty = 0
			}
			sb.WriteByte(c)
		}
		if empty > 0 {
			sb.WriteByte(byte('0' + empty))
		}
		if r > 0 {
			sb.WriteByte('/')
		}
	}
	return sb.String() + " " + string("wb"[stm]) + " - " + ep + " 0 1"
}

func c18col(rng *hx.Rng, c byte, white bool) byte {
	if white {
		return c - 32
	}
	return c
}

// put places a piece unless the square is taken or a pawn would stand on a back rank.
func (g *c18grid) put(s int, c byte) bool {
	if s < 0 || s > 63 || g.sq[s] != 0 {
		return false
	}
	if (c == 'p' || c == 'P') && (s < 8 || s >= 56) {
		return false
	}
	g.sq[s] = c
	return true
}

func pickWeighted(rng *hx.Rng, items string, weights []int) byte {
	tot := 0
	for _, w := range weights {
		tot += w
	}
	x := rng.Intn(tot)
	for i, w := range weights {
		if x < w {
			return items[i]
		}
		x -= w
	}
	return items[0]
}

// aim stacks pieces on the eight rays leaving t; keep lists squares that must stay empty.
func (g *c18grid) aim(rng *hx.Rng, t int, keep map[int]bool, density float64) {
	dirs := [8][2]int{{1, 0}, {-1, 0}, {0, 1}, {0, -1}, {1, 1}, {1, -1}, {-1, 1}, {-1, -1}}
	for di, d := range dirs {
		if !rng.Chance(density) {
			continue
		}
		diag := di >= 4
		want := 1 + rng.Intn(4)
		f, r := t%8, t/8
		white := rng.Bool()
		for placed := 0; placed < want; {
			f, r = f+d[0], r+d[1]
			if f < 0 || f > 7 || r < 0 || r > 7 {
				break
			}
			s := r*8 + f
			if g.sq[s] != 0 || keep[s] {
				continue
			}
			if rng.Chance(0.15) {
				continue // a gap
			}
			var c byte
			if diag {
				c = pickWeighted(rng, "bqprn", []int{35, 30, 22, 6, 7})
			} else {
				c = pickWeighted(rng, "rqpbn", []int{45, 30, 10, 8, 7})
			}
			if !rng.Chance(0.55) {
				white = rng.Bool()
			}
			if g.put(s, c18col(rng, c, white)) {
				placed++
			} else {
				placed++ // do not loop forever on back-rank pawns
			}
		}
	}
	// knights a knight's move away
	for _, d := range [8][2]int{{1, 2}, {2, 1}, {2, -1}, {1, -2}, {-1, -2}, {-2, -1}, {-2, 1}, {-1, 2}} {
		f, r := t%8+d[0], t/8+d[1]
		if f < 0 || f > 7 || r < 0 || r > 7 || keep[r*8+f] || !rng.Chance(0.22) {
			continue
		}
		g.put(r*8+f, c18col(rng, 'n', rng.Bool()))
	}
}

func (g *c18grid) kings(rng *hx.Rng, t int, keep map[int]bool) bool {
	for _, k := range []byte{'K', 'k'} {
		ok := false
		for try := 0; try < 40 && !ok; try++ {
			s := rng.Intn(64)
			if rng.Chance(0.35) {
				// next to the target
				f, r := t%8+rng.Intn(3)-1, t/8+rng.Intn(3)-1
				if f < 0 || f > 7 || r < 0 || r > 7 {
					continue
				}
				s = r*8 + f
			}
			if s == t || keep[s] {
				continue
			}
			ok = g.put(s, k)
		}
		if !ok {
			return false
		}
	}
	return true
}

func c18Battery(rng *hx.Rng) *posgen.Pos {
	for attempt := 0; attempt < 60; attempt++ {
		var g c18grid
		keep := map[int]bool{}
		stm := Color(rng.Intn(2))
		ep := "-"
		kind := "B0"
		var t int
		switch x := rng.Intn(100); {
		case x < 18:
			// en passant: the mover's pawn beside a pawn that has just double pushed
			kind = "Bep"
			f := rng.Intn(8)
			cf := f + 1 - 2*rng.Intn(2)
			if cf < 0 || cf > 7 {
				continue
			}
			var pawnSq, origin int
			if stm == White {
				pawnSq, t, origin = 32+f, 40+f, 48+f
				g.sq[pawnSq], g.sq[32+cf] = 'p', 'P'
			} else {
				pawnSq, t, origin = 24+f, 16+f, 8+f
				g.sq[pawnSq], g.sq[24+cf] = 'P', 'p'
			}
			keep[t], keep[origin] = true, true
			ep = string([]byte{byte('a' + f), byte('1' + t/8)})
			// often a rook or queen of either colour on the file beyond the pawn that is captured (the line
			// from it to the target opens when that pawn is lifted) and one beyond the capturing pawn's
			// diagonal
			if rng.Chance(0.6) {
				step := -8
				if stm == Black {
					step = 8
				}
				for s, d := pawnSq+step, 1+rng.Intn(4); s >= 0 && s < 64; s, d = s+step, d-1 {
					if d <= 1 {
						g.put(s, c18col(rng, pickWeighted(rng, "rq", []int{2, 1}), rng.Bool()))
						break
					}
					keep[s] = true
				}
			}
		case x < 36:
			// promotion (mostly with capture): the mover's pawn one step from the last rank
			kind = "Bpr"
			f := rng.Intn(8)
			pf := f
			if rng.Chance(0.8) {
				pf = f + 1 - 2*rng.Intn(2)
				if pf < 0 || pf > 7 {
					continue
				}
			}
			if stm == White {
				t = 56 + f
				g.sq[48+pf] = 'P'
				if pf != f {
					g.sq[t] = pickWeighted(rng, "nbrq", []int{1, 1, 1, 1})
				}
			} else {
				t = f
				g.sq[8+pf] = 'p'
				if pf != f {
					g.sq[t] = pickWeighted(rng, "NBRQ", []int{1, 1, 1, 1})
				}
			}
			if pf == f {
				keep[t] = true
			}
		default:
			t = rng.Intn(64)
			if rng.Chance(0.75) {
				c := pickWeighted(rng, "pnbrq", []int{30, 20, 20, 15, 15})
				g.put(t, c18col(rng, c, rng.Bool()))
			} else {
				keep[t] = true
			}
		}
		g.aim(rng, t, keep, 0.35+0.4*float64(rng.Intn(100))/100)
		if !g.kings(rng, t, keep) {
			continue
		}
		for k := rng.Intn(4); k > 0; k-- {
			s := rng.Intn(64)
			if !keep[s] {
				g.put(s, c18col(rng, pickWeighted(rng, "pnbrq", []int{40, 15, 15, 15, 15}), rng.Bool()))
			}
		}
		fen := g.fen(stm, ep)
		b, err := board.FromFEN(fen)
		if err != nil || !posgen.Valid(b) {
			continue
		}
		return &posgen.Pos{B: b, Root: fen, Kind: kind}
	}
	return nil
}

// ---------------------------------------------------------------------------------------------
// same-kind generator, kind "Bsk": promoted material aimed at one square. Each side gets one or two
// groups of 2-3 attackers of ONE kind (bishops on one colour complex, queens, rooks, knights, or both
// pawns) that attack the target directly from the lines through it - often from the edge of the board -
// and each attacker may have an x-ray piece (own or enemy bishop/queen/rook) directly behind it. The
// directions are drawn at random, so the attacker with something behind it is the lowest-numbered one
// of its group (the one the engine takes first) as often as not.

var c18Dirs = [8][2]int{{1, 0}, {-1, 0}, {0, 1}, {0, -1}, {1, 1}, {1, -1}, {-1, 1}, {-1, -1}}

// sameKindSlider puts a slider c on a free ray leaving t (dirs: indices into c18Dirs still unused) and
// possibly a piece behind it. It reports whether it placed the attacker.
func (g *c18grid) sameKindSlider(rng *hx.Rng, t int, c byte, diagOK, orthOK bool, used *[8]bool, keep map[int]bool) bool {
	var cand []int
	for di := range c18Dirs {
		if used[di] || (di < 4 && !orthOK) || (di >= 4 && !diagOK) {
			continue
		}
		cand = append(cand, di)
	}
	for len(cand) > 0 {
		k := rng.Intn(len(cand))
		di := cand[k]
		cand = append(cand[:k], cand[k+1:]...)
		d := c18Dirs[di]
		// the free squares of the ray, nearest first
		var ray []int
		f, r := t%8+d[0], t/8+d[1]
		for f >= 0 && f < 8 && r >= 0 && r < 8 && g.sq[r*8+f] == 0 {
			ray = append(ray, r*8+f)
			f, r = f+d[0], r+d[1]
		}
		blockedByPiece := f >= 0 && f < 8 && r >= 0 && r < 8
		if len(ray) == 0 {
			continue
		}
		// distance: the rim square of the ray, or next to the target, or anywhere
		var i int
		switch x := rng.Intn(100); {
		case x < 35 && !blockedByPiece:
			i = len(ray) - 1
		case x < 55:
			i = 0
		default:
			i = rng.Intn(len(ray))
		}
		if keep[ray[i]] {
			continue
		}
		g.sq[ray[i]] = c
		for _, s := range ray[:i] {
			keep[s] = true
		}
		used[di] = true
		// something behind it
		if i+1 < len(ray) && rng.Chance(0.65) {
			j := i + 1
			if j+1 < len(ray) && rng.Chance(0.25) {
				keep[ray[j]] = true // one empty square in between
				j++
			}
			if !keep[ray[j]] {
				var bc byte
				switch {
				case rng.Chance(0.12):
					bc = pickWeighted(rng, "np", []int{1, 1}) // a blocker that is no x-ray piece
				case di >= 4:
					bc = pickWeighted(rng, "bq", []int{1, 1})
				default:
					bc = pickWeighted(rng, "rq", []int{1, 1})
				}
				g.put(ray[j], c18col(rng, bc, rng.Bool()))
			}
		}
		return true
	}
	return false
}

func c18SameKind(rng *hx.Rng) (*posgen.Pos, int) {
	for attempt := 0; attempt < 80; attempt++ {
		var g c18grid
		keep := map[int]bool{}
		var used [8]bool
		// the groups of both sides first: [side][group] = kind
		var plan [2][]byte
		pawns := false
		for side := range plan {
			for gi := 1 + rng.Intn(2); gi > 0; gi-- {
				k := pickWeighted(rng, "bqrnp", []int{30, 20, 17, 11, 22})
				if pawns && rng.Chance(0.6) {
					// against a pawn pair: recapturers that do not re-scan the diagonals themselves
					k = pickWeighted(rng, "nr", []int{1, 1})
				}
				plan[side] = append(plan[side], k)
				pawns = pawns || k == 'p'
			}
		}
		if pawns && rng.Bool() {
			plan[0], plan[1] = plan[1], plan[0]
		}
		t := rng.Intn(64)
		switch x := rng.Intn(100); {
		case pawns && x < 50:
			// b-/g-file: one of the two capturing pawns is a rook pawn
			t = (2+rng.Intn(4))*8 + []int{1, 6, 6, 6}[rng.Intn(4)]
		case x < 35:
			// one step from the rim (b-/g-file or 2nd/7th rank): the neighbouring attackers stand on the rim
			f, r := rng.Intn(8), rng.Intn(8)
			switch rng.Intn(4) {
			case 0:
				f = 1
			case 1:
				f = 6
			case 2:
				r = 1
			default:
				r = 6
			}
			t = r*8 + f
		case x < 80:
			t = (1+rng.Intn(6))*8 + 1 + rng.Intn(6) // off the rim, so that every ray exists
		}
		if rng.Chance(0.8) {
			g.put(t, c18col(rng, pickWeighted(rng, "pnbrq", []int{30, 20, 20, 15, 15}), rng.Bool()))
		}
		keep[t] = true
		for side, white := range []bool{true, false} {
			for _, kind := range plan[side] {
				cnt := 2 + rng.Intn(2)
				switch kind {
				case 'b':
					for k := 0; k < cnt; k++ {
						g.sameKindSlider(rng, t, c18col(rng, 'b', white), true, false, &used, keep)
					}
				case 'r':
					for k := 0; k < cnt; k++ {
						g.sameKindSlider(rng, t, c18col(rng, 'r', white), false, true, &used, keep)
					}
				case 'q':
					for k := 0; k < cnt; k++ {
						g.sameKindSlider(rng, t, c18col(rng, 'q', white), true, true, &used, keep)
					}
				case 'n':
					offs := [8][2]int{{1, 2}, {2, 1}, {2, -1}, {1, -2}, {-1, -2}, {-2, -1}, {-2, 1}, {-1, 2}}
					for k, tries := 0, 0; k < cnt && tries < 20; tries++ {
						d := offs[rng.Intn(8)]
						f, r := t%8+d[0], t/8+d[1]
						if f < 0 || f > 7 || r < 0 || r > 7 || keep[r*8+f] {
							continue
						}
						if g.put(r*8+f, c18col(rng, 'n', white)) {
							k++
						}
					}
				case 'p':
					// both pawns that capture onto t, each with a diagonal slider behind it now and then
					dr := -1
					if !white {
						dr = 1
					}
					for _, df := range []int{-1, 1} {
						f, r := t%8+df, t/8+dr
						if f < 0 || f > 7 || r < 1 || r > 6 || keep[r*8+f] || !g.put(r*8+f, c18col(rng, 'p', white)) {
							continue
						}
						for di := 4; di < 8; di++ {
							if c18Dirs[di][0] == df && c18Dirs[di][1] == dr {
								used[di] = true
							}
						}
						bf, br := f+df, r+dr
						if bf >= 0 && bf < 8 && br >= 0 && br < 8 && !keep[br*8+bf] && rng.Chance(0.8) {
							g.put(br*8+bf, c18col(rng, pickWeighted(rng, "bq", []int{1, 1}), rng.Bool()))
						}
					}
				}
			}
		}
		if !g.kings(rng, t, keep) {
			continue
		}
		for k := rng.Intn(3); k > 0; k-- {
			s := rng.Intn(64)
			if !keep[s] {
				g.put(s, c18col(rng, pickWeighted(rng, "pnbrq", []int{40, 15, 15, 15, 15}), rng.Bool()))
			}
		}
		fen := g.fen(Color(rng.Intn(2)), "-")
		b, err := board.FromFEN(fen)
		if err != nil || !posgen.Valid(b) {
			continue
		}
		return &posgen.Pos{B: b, Root: fen, Kind: "Bsk"}, t
	}
	return nil, -1
}
