package streams

import (
	"bufio"
	"fmt"
	"os"
	"path/filepath"
	"slices"
	"strings"

	"github.com/paulsonkoly/chess-3/board"
	. "github.com/paulsonkoly/chess-3/chess"
	"github.com/paulsonkoly/chess-3/heur"
	"github.com/paulsonkoly/chess-3/move"
	"github.com/paulsonkoly/chess-3/movegen"
	"github.com/paulsonkoly/chess-3/picker"
	"github.com/paulsonkoly/chess-3/stack"

	"verifharness/hx"
	"verifharness/posgen"
)

// Property C16.
//
// c16p (picker): the input carries what the generator / ranker / IsPseudoLegal answered for a real
// position (observed at generation time) followed by the position itself (FEN bytes, history
// stack, seed of the ranker pre-drive). Run re-observes all of it and drains the real picker; the
// model reproduces the yielded sequence from the observed part alone.
//
//	in : base hm ipl nN {m w attacker victim}*nN nQ {m w}*nQ nP {flag v}*nP | L fen[L] K {piece to score}*K seed rounds stale
//	     (stale != 0: the move store is a USED one - every slot of its data array, below and above the
//	     picker's frame, holds a stale move and an adversarial stale weight derived from the seed stale)
//	     (the k-th yielded entry's Weight is overwritten with v, as the search does, when flag k is set)
//	out: ipl nN {m w}*nN nQ {m w}*nQ intact allocAfterPop nY {m w}*nY
//
// c16h (history tables): a sequence of MoveRanker.FailHigh / Add / RankQuiet operations on one
// MoveRanker; every touched cell is read back through LookUp (hook heur.VerifTables).
//
//	in : nOps {op}* | L fen[L]
//	     op 0 (FailHigh) : 0 d stm f0 p0 t0 f1 p1 t1 n {m moved captured weight}*n
//	     op 1 (Add)      : 1 table i1 i2 i3 i4 i5 bonus
//	     op 2 (RankQuiet): 2 stm f0 p0 t0 f1 p1 t1 n {m moved}*n
//	out: per op 0: n * (hist cont0 cont1 capt); per op 1: the cell; per op 2: n weights
func init() {
	hx.Register(&hx.Stream{Name: "c16p", Gen: genC16p, Run: runC16p})
	hx.Register(&hx.Stream{Name: "c16h", Gen: genC16h, Run: runC16h, Shrink: shrinkC16h, Describe: describeC16h})
}

// ---------------------------------------------------------------------------------------------
// shared helpers

func c16Repo() string {
	if r := os.Getenv("VERIF_REPO"); r != "" {
		return r
	}
	return "/repo"
}

var c16RootsCache []string

// root positions: start position + debug/standard.epd
func c16Roots() []string {
	if c16RootsCache != nil {
		return c16RootsCache
	}
	roots := []string{StartPosFEN}
	if f, err := os.Open(filepath.Join(c16Repo(), "debug", "standard.epd")); err == nil {
		sc := bufio.NewScanner(f)
		for sc.Scan() {
			parts := strings.Split(sc.Text(), " ;")
			if len(parts) >= 1 && strings.Count(parts[0], "/") == 7 {
				if _, err := board.FromFEN(strings.TrimSpace(parts[0])); err == nil {
					roots = append(roots, strings.TrimSpace(parts[0]))
				}
			}
		}
		f.Close()
	}
	c16RootsCache = roots
	return roots
}

func c16Generated(b *board.Board) (noisy, quiet []move.Move) {
	ms := move.NewStore()
	ms.Push()
	movegen.GenNoisy(ms, b)
	for _, w := range ms.Frame() {
		noisy = append(noisy, w.Move)
	}
	n := len(ms.Frame())
	movegen.GenNotNoisy(ms, b)
	for _, w := range ms.Frame()[n:] {
		quiet = append(quiet, w.Move)
	}
	return
}

// c16Playout plays plies random legal moves from root; returns the board and the last moves
// played as (piece, to) pairs, most recent first.
func c16Playout(rng *hx.Rng, root string, plies int) (*board.Board, []heur.StackMove) {
	b := Must(board.FromFEN(root))
	var hist []heur.StackMove
	for i := 0; i < plies; i++ {
		noisy, quiet := c16Generated(b)
		all := append(noisy, quiet...)
		// prefer captures now and then so that material changes
		for j := len(all) - 1; j > 0; j-- {
			k := rng.Intn(j + 1)
			all[j], all[k] = all[k], all[j]
		}
		played := false
		for _, m := range all {
			moved := b.SquaresToPiece[m.From()]
			if b.SquaresToPiece[b.CaptureSq(m)] == King {
				continue
			}
			r := b.MakeMove(m)
			if b.InCheck(b.STM.Flip()) {
				b.UndoMove(m, r)
				continue
			}
			hist = append([]heur.StackMove{{Piece: moved, To: m.To(), Score: Score(rng.Range(-500, 500))}}, hist...)
			played = true
			break
		}
		if !played {
			break
		}
	}
	return b, hist
}

// FEN with the clocks normalised (FromFEN rejects a halfmove clock above 100; the picker does not
// look at the clocks).
func c16Fen(b *board.Board) string {
	f := strings.Fields(b.FEN())
	if len(f) >= 6 {
		f[4], f[5] = "0", "1"
	}
	return strings.Join(f, " ")
}

func c16Stack(entries []heur.StackMove) *stack.Stack[heur.StackMove] {
	st := stack.New[heur.StackMove]()
	for i := len(entries) - 1; i >= 0; i-- { // entries[0] is Top(0)
		st.Push(entries[i])
	}
	return st
}

// c16Drive pre-drives a ranker with rounds random FailHigh calls on position b (deterministic in seed).
func c16Drive(mr *heur.MoveRanker, b *board.Board, st *stack.Stack[heur.StackMove], seed uint64, rounds int) {
	noisy, quiet := c16Generated(b)
	all := append(append([]move.Move{}, noisy...), quiet...)
	if len(all) == 0 {
		return
	}
	rng := hx.NewRng(seed)
	mode := rng.Intn(4)
	fav := all[rng.Intn(len(all))]
	for r := 0; r < rounds; r++ {
		ms := make([]move.Weighted, 0, len(all))
		perm := append([]move.Move{}, all...)
		for j := len(perm) - 1; j > 0; j-- {
			k := rng.Intn(j + 1)
			perm[j], perm[k] = perm[k], perm[j]
		}
		k := 1 + rng.Intn(len(perm))
		for _, m := range perm[:k] {
			var w Score
			switch rng.Intn(3) {
			case 0:
				w = -Inf
			case 1:
				w = Score(rng.Range(-400, 400))
			default:
				w = Score(rng.Range(-32768, 32767))
			}
			ms = append(ms, move.Weighted{Move: m, Weight: w})
		}
		if mode >= 2 { // a favourite move fails high again and again: saturation
			ms = append(ms, move.Weighted{Move: fav})
		}
		var d Depth
		switch mode {
		case 0:
			d = Depth(rng.Range(1, 12))
		case 1:
			d = Depth(rng.Range(1, 64))
		case 2:
			d = Depth(rng.Range(40, 127))
		default:
			d = Depth(rng.Range(-128, 127))
		}
		mr.FailHigh(d, b, ms, st)
	}
}

// c16MoveStr prints a move encoding (move.Move.String panics on promo=7).
func c16MoveStr(m move.Move) string {
	if m == 0 {
		return "0000"
	}
	return fmt.Sprintf("%s%s+promo%d", m.From(), m.To(), m.Promo())
}

func c16FenNums(n *hx.Nums, fen string) {
	n.Int(len(fen))
	n.Bytes([]byte(fen))
}

// ---------------------------------------------------------------------------------------------
// c16p

type c16pObs struct {
	ipl          bool
	noisy, quiet []move.Weighted
	att, vic     []Piece
}

type c16Poke struct {
	set bool
	v   Score
}

type c16pCase struct {
	pokes  []c16Poke
	base   int
	hm     move.Move
	fen    string
	stk    []heur.StackMove
	seed   uint64
	rounds int
	stale  uint64
}

// c16UsedStore returns a move store all of whose slots were written before: stale moves and
// adversarial stale weights (the duplicate sentinel, the yieldRest threshold, the band edges ...),
// as in a search where the store is shared by all plies and Clear / Pop only move indices.
// Public API only: StoreSize Allocs, weights written through the returned pointers, Clear.
func c16UsedStore(stale uint64, hm move.Move) *move.Store {
	ms := move.NewStore()
	if stale == 0 {
		return ms
	}
	rng := hx.NewRng(stale)
	mode := rng.Intn(5)
	vals := []Score{-heur.HashMove, -heur.HashMove + 1, -heur.HashMove + 2, heur.HashMove, heur.HashMove - 1,
		heur.Captures, heur.Captures - 1, heur.Captures + heur.CaptureRange - 1, -heur.Captures, -heur.Captures - 1,
		-heur.Captures - heur.CaptureRange, 3 * heur.MaxHistory, -3 * heur.MaxHistory, 32767, -32768, 1, -1}
	ms.Push()
	for i := 0; i < move.StoreSize; i++ {
		m := hx.U2M(uint64(rng.Intn(1 << 15)))
		if rng.Intn(8) == 0 {
			m = hm
		}
		w := ms.Alloc(m)
		switch mode {
		case 0:
			w.Weight = -heur.HashMove
		case 1:
			w.Weight = -heur.HashMove + 1
		case 2:
			if rng.Bool() {
				w.Weight = -heur.HashMove
			} else {
				w.Weight = vals[rng.Intn(len(vals))]
			}
		case 3:
			w.Weight = vals[rng.Intn(len(vals))]
		default:
			w.Weight = Score(rng.Range(-32768, 32767))
		}
	}
	ms.Clear()
	return ms
}

// c16StaleSeed returns a stale-store seed whose fill mode is mode.
func c16StaleSeed(mode int) uint64 {
	for sd := uint64(1); ; sd++ {
		if hx.NewRng(sd).Intn(5) == mode {
			return sd
		}
	}
}

func c16pSetup(c c16pCase) (*board.Board, *stack.Stack[heur.StackMove], *heur.MoveRanker) {
	b := Must(board.FromFEN(c.fen))
	st := c16Stack(c.stk)
	mr := heur.NewMoveRanker()
	c16Drive(&mr, b, st, c.seed, c.rounds)
	return b, st, &mr
}

func c16pObserve(c c16pCase, b *board.Board, st *stack.Stack[heur.StackMove], mr *heur.MoveRanker) c16pObs {
	var o c16pObs
	o.ipl = b.IsPseudoLegal(c.hm)
	noisy, quiet := c16Generated(b)
	for _, m := range noisy {
		o.noisy = append(o.noisy, move.Weighted{Move: m, Weight: mr.RankNoisy(m, b, st)})
		o.att = append(o.att, b.SquaresToPiece[m.From()])
		o.vic = append(o.vic, b.SquaresToPiece[b.CaptureSq(m)])
	}
	for _, m := range quiet {
		o.quiet = append(o.quiet, move.Weighted{Move: m, Weight: mr.RankQuiet(m, b, st)})
	}
	return o
}

func c16pInput(c c16pCase, o c16pObs) string {
	n := &hx.Nums{}
	n.Int(c.base).U(hx.M2U(c.hm)).B(o.ipl)
	n.Int(len(o.noisy))
	for i, w := range o.noisy {
		n.U(hx.M2U(w.Move)).I(int64(w.Weight)).U(uint64(o.att[i]), uint64(o.vic[i]))
	}
	n.Int(len(o.quiet))
	for _, w := range o.quiet {
		n.U(hx.M2U(w.Move)).I(int64(w.Weight))
	}
	n.Int(len(c.pokes))
	for _, pk := range c.pokes {
		n.B(pk.set).I(int64(pk.v))
	}
	c16FenNums(n, c.fen)
	n.Int(len(c.stk))
	for _, s := range c.stk {
		n.U(uint64(s.Piece)).I(int64(s.To), int64(s.Score))
	}
	n.U(c.seed).Int(c.rounds).U(c.stale)
	return n.String()
}

func c16pParse(a hx.Args) c16pCase {
	var c c16pCase
	p := 0
	next := func() int64 { v := a.I64(p); p++; return v }
	c.base = int(next())
	c.hm = hx.U2M(uint64(next()))
	next() // ipl as observed at generation time
	nN := int(next())
	p += 4 * nN
	nQ := int(next())
	p += 2 * nQ
	nP := int(next())
	for i := 0; i < nP; i++ {
		f, v := next(), next()
		c.pokes = append(c.pokes, c16Poke{set: f != 0, v: Score(v)})
	}
	l := int(next())
	c.fen = string(a.Bytes(p, p+l))
	p += l
	k := int(next())
	for i := 0; i < k; i++ {
		pc, to, sc := next(), next(), next()
		c.stk = append(c.stk, heur.StackMove{Piece: Piece(pc), To: Square(to), Score: Score(sc)})
	}
	c.seed = a.U64(p)
	p++
	c.rounds = int(next())
	c.stale = a.U64(p)
	return c
}

func runC16p(a hx.Args) string {
	c := c16pParse(a)
	b, st, mr := c16pSetup(c)
	o := c16pObserve(c, b, st, mr)

	ms := c16UsedStore(c.stale, c.hm)
	ms.Push()
	for i := 0; i < c.base; i++ {
		w := ms.Alloc(hx.U2M(uint64(i*7 + 1)))
		w.Weight = Score(i)
	}
	lower := slices.Clone(ms.Frame())

	pck := picker.New(b, c.hm, ms, mr, st)
	ms.Push()
	var yielded []move.Weighted
	for pck.Next() {
		yielded = append(yielded, *pck.Move())
		if k := len(yielded) - 1; k < len(c.pokes) && c.pokes[k].set {
			pck.Move().Weight = c.pokes[k].v // what the search does with the entry it was handed
		}
		if len(yielded) > 4096 {
			break
		}
	}
	ms.Pop()
	intact := slices.Equal(ms.Frame(), lower)
	after := len(ms.Frame())

	n := &hx.Nums{}
	n.B(o.ipl).Int(len(o.noisy))
	for _, w := range o.noisy {
		n.U(hx.M2U(w.Move)).I(int64(w.Weight))
	}
	n.Int(len(o.quiet))
	for _, w := range o.quiet {
		n.U(hx.M2U(w.Move)).I(int64(w.Weight))
	}
	n.B(intact).Int(after).Int(len(yielded))
	for _, w := range yielded {
		n.U(hx.M2U(w.Move)).I(int64(w.Weight))
	}
	return n.String()
}

func c16pEmit(c c16pCase, kind string, emit func(hx.Input)) {
	b, st, mr := c16pSetup(c)
	o := c16pObserve(c, b, st, mr)
	total := len(o.noisy) + len(o.quiet)
	sat := 0
	for _, w := range o.quiet {
		if w.Weight >= 1024 || w.Weight <= -1024 {
			sat++
		}
	}
	tags := []string{"hm:" + kind}
	if o.ipl {
		tags = append(tags, "ipl")
	}
	if sat > 0 {
		tags = append(tags, "saturated-quiet")
	}
	if c.rounds == 0 {
		tags = append(tags, "empty-history")
	}
	if len(c.pokes) > 0 {
		tags = append(tags, "search-writes-weights")
	}
	if c.stale != 0 {
		tags = append(tags, "used-store")
	}
	if len(o.quiet) <= 2 {
		tags = append(tags, fmt.Sprintf("quiet=%d", len(o.quiet)))
	}
	pending, good := false, false
	for _, w := range o.noisy {
		if w.Weight < 0 {
			pending = true
		} else {
			good = true
		}
	}
	if pending {
		tags = append(tags, "bad-captures-pending")
		if len(o.quiet) <= 2 {
			tags = append(tags, fmt.Sprintf("quiet=%d+bad-captures-pending", len(o.quiet)))
		}
	}
	if good && len(o.quiet) <= 2 {
		tags = append(tags, fmt.Sprintf("quiet=%d+good-captures", len(o.quiet)))
	}
	if c.base+1+total > move.StoreSize {
		tags = append(tags, "store-overflow")
	}
	if total == 0 {
		tags = append(tags, "no-moves")
	}
	switch {
	case total >= 128:
		tags = append(tags, "moves>=128")
	case total >= 64:
		tags = append(tags, "moves>=64")
	}
	emit(hx.Input{
		In: c16pInput(c, o),
		Desc: fmt.Sprintf("fen=%q hash=%s(0x%04x) kind=%s ipl=%v base=%d stack=%v drive=(seed %d, rounds %d) stale-store=%d moves=%d+%d",
			c.fen, c16MoveStr(c.hm), uint16(c.hm), kind, o.ipl, c.base, c.stk, c.seed, c.rounds, c.stale, len(o.noisy), len(o.quiet)),
		Tags:       tags,
		NonTrivial: total > 0,
		Key:        fmt.Sprintf("%s|%d|%d|%d|%d|%d", c.fen, c.hm, c.seed, c.rounds, c.base, c.stale),
	})
}

func genC16p(rng *hx.Rng, n int, tier string, emit func(hx.Input)) {
	roots := c16Roots()
	cnt := 0
	out := func(c c16pCase, kind string) {
		if cnt < n {
			c16pEmit(c, kind, emit)
			cnt++
		}
	}
	// the start position with F1's witnesses first (e2e3 promo=Q, and friends)
	for _, hm := range []move.Move{
		move.From(E2) | move.To(E3) | move.Promo(Queen),
		move.From(E2) | move.To(E4) | move.Promo(Knight),
		move.From(G1) | move.To(F3) | move.Promo(Queen),
		move.From(E2) | move.To(E3),
		0,
	} {
		out(c16pCase{hm: hm, fen: StartPosFEN}, "f1-startpos")
	}
	// hand-made positions without / with a single quiet move (the only legal move is a losing capture,
	// resp. the lone quiet move), on a fresh store and on used stores full of duplicate sentinels
	for _, fen := range []string{
		"7k/8/8/8/n2r4/p7/Prpn4/KB6 w - - 0 1",
		"7k/8/8/8/8/1q6/nPp5/KRn5 w - - 0 1",
		"kb6/pRPN4/P7/N2R4/8/8/8/7K b - - 0 1",
		"7k/8/8/8/8/2P5/nr1r4/Kn6 w - - 0 1",
		"7k/8/8/8/8/1pp5/nP6/K7 w - - 0 1",
	} {
		b := Must(board.FromFEN(fen))
		noisy, _ := c16Generated(b)
		hms := []move.Move{0}
		if len(noisy) > 0 {
			hms = append(hms, noisy[0])
		}
		for _, hm := range hms {
			for _, stale := range []uint64{0, c16StaleSeed(0), c16StaleSeed(1), c16StaleSeed(2)} {
				out(c16pCase{hm: hm, fen: fen, stale: stale}, "few-quiet-hand")
			}
		}
	}
	for pos := 0; cnt < n; pos++ {
		root := roots[pos%len(roots)]
		plies := 0
		if pos >= len(roots) {
			plies = rng.Intn(60)
		}
		if pos%5 == 4 {
			// positions with an en-passant capture available (and their neighbourhood)
			root = c16EpRoots[(pos/5)%len(c16EpRoots)]
			plies = rng.Intn(3)
		}
		b, hist := c16Playout(rng, root, plies)
		if pos%3 == 2 {
			// positions with 0, 1 or 2 quiet pseudo-legal moves (random play never produces them)
			if fb := c16FewQuiet(rng, []int{0, 1, 0, 1, 2}[rng.Intn(5)]); fb != nil {
				b, hist = fb, nil
			}
		}
		if pos%13 == 7 {
			// heavy promoted material: 80..218 pseudo-legal moves (cursor / index widths, store capacity)
			if hp := posgen.Heavy(rng); hp != nil {
				b, hist = hp.B, nil
			}
		}
		fen := c16Fen(b)
		noisy, quiet := c16Generated(b)
		all := append(append([]move.Move{}, noisy...), quiet...)
		base := c16pCase{fen: fen}
		// history stack: the moves that led here (as the search pushes them) or random entries
		switch rng.Intn(4) {
		case 0:
		case 1:
			if len(hist) > 0 {
				base.stk = hist[:1]
			}
		case 2:
			if len(hist) > 1 {
				base.stk = hist[:2]
			} else {
				base.stk = hist
			}
		default:
			for i := rng.Intn(4); i > 0; i-- {
				base.stk = append(base.stk, heur.StackMove{Piece: Piece(rng.Range(1, 6)), To: Square(rng.Intn(64)), Score: Score(rng.Range(-11000, 10000))})
			}
		}
		base.seed = rng.U64() >> 1
		switch rng.Intn(5) {
		case 0:
			base.rounds = 0
		case 1:
			base.rounds = 1 + rng.Intn(3)
		default:
			base.rounds = 5 + rng.Intn(40)
		}
		mk := func(hm move.Move, kind string) {
			c := base
			c.hm = hm
			if rng.Intn(4) != 0 { // a used store is the normal case inside the engine
				c.stale = 1 + rng.U64()>>1
			}
			switch rng.Intn(36) {
			case 0, 1, 2:
				c.base = rng.Intn(40)
			case 3: // around the capacity of the shared store
				c.base = move.StoreSize - len(all) - 2 + rng.Intn(4)
				if rng.Bool() {
					c.base = move.StoreSize - rng.Intn(len(all)+2)
				}
				if c.base < 0 {
					c.base = 0
				}
			}
			// the search overwrites the weight of every entry it was handed
			switch rng.Intn(5) {
			case 0, 1:
				for i := len(all) + 1; i > 0; i-- {
					switch rng.Intn(3) {
					case 0:
						c.pokes = append(c.pokes, c16Poke{true, -Inf})
					case 1:
						c.pokes = append(c.pokes, c16Poke{true, Score(rng.Range(-10000, 10000))})
					default:
						c.pokes = append(c.pokes, c16Poke{false, 0})
					}
				}
			case 2: // adversarial values: the sentinel, the thresholds, the extremes
				vals := []Score{-heur.HashMove, -heur.HashMove + 1, heur.HashMove, 32767, -32768, 0, heur.Captures}
				for i := len(all) + 1; i > 0; i-- {
					c.pokes = append(c.pokes, c16Poke{true, vals[rng.Intn(len(vals))]})
				}
			}
			out(c, kind)
		}
		per := 10
		if tier != "quick" {
			per = 24
		}
		// no hash move
		mk(0, "none")
		// special generated moves always: en-passant captures, promotions and castlings are the moves whose
		// classification as noisy/quiet does not follow from the content of the destination square
		for _, m := range all {
			if b.IsEnPassant(m) || m.Promo() != NoPiece || (b.SquaresToPiece[m.From()] == King && Abs(m.From()-m.To()) == 2) {
				mk(m, "generated-special")
			}
		}
		// generated moves (every one of them for the roots, a sample otherwise)
		if pos < len(roots) && pos < 12 {
			for _, m := range all {
				mk(m, "generated")
			}
		} else {
			for i := 0; i < per/3 && len(all) > 0; i++ {
				mk(all[rng.Intn(len(all))], "generated")
			}
		}
		// random 15 bit encodings
		for i := 0; i < per/3; i++ {
			mk(hx.U2M(uint64(rng.Intn(1<<15))), "random")
		}
		// own piece to a random square
		for i := 0; i < per/6 && len(all) > 0; i++ {
			m := all[rng.Intn(len(all))]
			mk(move.From(m.From())|move.To(Square(rng.Intn(64))), "own-piece-random-target")
		}
		// bogus promotion bits on generated moves (F1)
		for i := 0; i < per/3 && len(all) > 0; i++ {
			m := all[rng.Intn(len(all))]
			plain := move.From(m.From()) | move.To(m.To())
			if m.Promo() != NoPiece {
				mk(plain|move.Promo([]Piece{NoPiece, Pawn, King, 7}[rng.Intn(4)]), "bogus-promo")
			} else {
				mk(plain|move.Promo(Piece(rng.Range(1, 7))), "bogus-promo")
			}
		}
	}
}

var c16EpRoots = []string{
	"rnbqkbnr/ppp1pppp/8/8/3pP3/8/PPPP1PPP/RNBQKBNR b KQkq e3 0 3",
	"rnbqkbnr/pppp1ppp/8/3Pp3/8/8/PPP1PPPP/RNBQKBNR w KQkq e6 0 3",
	"4k3/8/8/2pP4/8/8/8/4K3 w - c6 0 2",
	"8/8/8/8/k2pP2R/8/8/4K3 b - e3 0 1",
	"2r3k1/1q1nbppp/r3p3/3pP3/pPpP4/P1Q2N2/2RN1PPP/2R4K b - b3 0 23",
	"8/6bb/8/8/R1pP2k1/4P3/P7/K7 b - d3 0 1",
	"r3k2r/p1ppqpb1/bn2pnp1/3PN3/Pp2P3/2N2Q1p/1PPBBPPP/R3K2R b KQkq a3 0 1",
	"rnbqkb1r/ppppp1pp/7n/4Pp2/8/8/PPPP1PPP/RNBQKBNR w KQkq f6 0 3",
	"4k3/8/8/1pP1Pp2/8/8/8/4K3 w - b6 0 2",
	"4k3/8/8/8/1pPp4/8/8/4K3 b - c3 0 2",
}

// ---------------------------------------------------------------------------------------------
// c16h

func c16InRange(v, lo, hi int64) bool { return lo <= v && v <= hi }

func runC16h(a hx.Args) string {
	p := 0
	next := func() int64 { v := a.I64(p); p++; return v }
	nOps := int(next())
	// the position is at the end: find it by a first pass over the ops
	q := 1
	for i := 0; i < nOps; i++ {
		switch a.I64(q) {
		case 0:
			q += 10 + 4*int(a.I64(q+9))
		case 1:
			q += 8
		default:
			q += 9 + 2*int(a.I64(q+8))
		}
	}
	l := int(a.I64(q))
	b := Must(board.FromFEN(string(a.Bytes(q+1, q+1+l))))

	mr := heur.NewMoveRanker()
	hist, capt, cont0, cont1 := mr.VerifTables()
	out := &hx.Nums{}
	mkStack := func(f0, p0, t0, f1, p1, t1 int64) *stack.Stack[heur.StackMove] {
		var e []heur.StackMove
		if f0 != 0 {
			e = append(e, heur.StackMove{Piece: Piece(p0), To: Square(t0)})
			if f1 != 0 {
				e = append(e, heur.StackMove{Piece: Piece(p1), To: Square(t1)})
			}
		}
		return c16Stack(e)
	}
	for i := 0; i < nOps; i++ {
		switch next() {
		case 0:
			d, stm := next(), next()
			_ = stm
			f0, p0, t0, f1, p1, t1 := next(), next(), next(), next(), next(), next()
			n := int(next())
			ms := make([]move.Weighted, n)
			moved := make([]int64, n)
			captured := make([]int64, n)
			for j := 0; j < n; j++ {
				ms[j] = move.Weighted{Move: hx.U2M(uint64(next()))}
				moved[j], captured[j] = next(), next()
				ms[j].Weight = Score(next())
			}
			st := mkStack(f0, p0, t0, f1, p1, t1)
			mr.FailHigh(Depth(d), b, ms, st)
			for j, m := range ms {
				out.I(int64(hist.LookUp(b.STM, m.From(), m.To())))
				mvOK := c16InRange(moved[j], 1, 6)
				if f0 != 0 && mvOK && c16InRange(p0, 1, 6) && c16InRange(t0, 0, 63) {
					out.I(int64(cont0.LookUp(b.STM, Piece(p0), Square(t0), Piece(moved[j]), m.To())))
				} else {
					out.I(0)
				}
				if f0 != 0 && f1 != 0 && mvOK && c16InRange(p1, 1, 6) && c16InRange(t1, 0, 63) {
					out.I(int64(cont1.LookUp(b.STM, Piece(p1), Square(t1), Piece(moved[j]), m.To())))
				} else {
					out.I(0)
				}
				if mvOK && c16InRange(captured[j], 1, 5) {
					out.I(int64(capt.LookUp(Piece(moved[j]), Piece(captured[j]), m.To())))
				} else {
					out.I(0)
				}
			}
		case 1:
			tb, i1, i2, i3, i4, i5, bonus := next(), next(), next(), next(), next(), next(), next()
			switch tb {
			case 0:
				hist.Add(Color(i1), Square(i2), Square(i3), Score(bonus))
				out.I(int64(hist.LookUp(Color(i1), Square(i2), Square(i3))))
			case 1:
				capt.Add(Piece(i1), Piece(i2), Square(i3), Score(bonus))
				out.I(int64(capt.LookUp(Piece(i1), Piece(i2), Square(i3))))
			case 2:
				cont0.Add(Color(i1), Piece(i2), Square(i3), Piece(i4), Square(i5), Score(bonus))
				out.I(int64(cont0.LookUp(Color(i1), Piece(i2), Square(i3), Piece(i4), Square(i5))))
			default:
				cont1.Add(Color(i1), Piece(i2), Square(i3), Piece(i4), Square(i5), Score(bonus))
				out.I(int64(cont1.LookUp(Color(i1), Piece(i2), Square(i3), Piece(i4), Square(i5))))
			}
		default:
			next() // stm
			f0, p0, t0, f1, p1, t1 := next(), next(), next(), next(), next(), next()
			n := int(next())
			st := mkStack(f0, p0, t0, f1, p1, t1)
			for j := 0; j < n; j++ {
				m := hx.U2M(uint64(next()))
				next() // moved
				out.I(int64(mr.RankQuiet(m, b, st)))
			}
		}
	}
	return out.String()
}

type c16hBuilder struct {
	n     hx.Nums
	ops   int
	desc  []string
	b     *board.Board
	all   []move.Move
	quiet []move.Move
}

func (x *c16hBuilder) stackNums(st []heur.StackMove) {
	for i := 0; i < 2; i++ {
		if i < len(st) {
			x.n.Int(1).U(uint64(st[i].Piece)).I(int64(st[i].To))
		} else {
			x.n.Int(0, 0, 0)
		}
	}
}

func (x *c16hBuilder) failHigh(d int, st []heur.StackMove, ms []move.Weighted) {
	x.ops++
	x.n.Int(0, d).U(uint64(x.b.STM))
	x.stackNums(st)
	x.n.Int(len(ms))
	var sb strings.Builder
	for _, w := range ms {
		x.n.U(hx.M2U(w.Move), uint64(x.b.SquaresToPiece[w.From()]), uint64(x.b.SquaresToPiece[x.b.CaptureSq(w.Move)])).I(int64(w.Weight))
		fmt.Fprintf(&sb, " %s:%d", c16MoveStr(w.Move), w.Weight)
	}
	x.desc = append(x.desc, fmt.Sprintf("FailHigh(d=%d stack=%v moves=%s)", d, st, sb.String()))
}

func (x *c16hBuilder) add(table int, ix [5]int64, bonus int64) {
	x.ops++
	x.n.Int(1, table).I(ix[:]...).I(bonus)
	x.desc = append(x.desc, fmt.Sprintf("%s.Add(%v, %d)", []string{"history", "captHist", "cont0", "cont1"}[table], ix, bonus))
}

func (x *c16hBuilder) rank(st []heur.StackMove, ms []move.Move) {
	x.ops++
	x.n.Int(2).U(uint64(x.b.STM))
	x.stackNums(st)
	x.n.Int(len(ms))
	for _, m := range ms {
		x.n.U(hx.M2U(m), uint64(x.b.SquaresToPiece[m.From()]))
	}
	x.desc = append(x.desc, fmt.Sprintf("RankQuiet(stack=%v) on %d moves", st, len(ms)))
}

func genC16h(rng *hx.Rng, n int, tier string, emit func(hx.Input)) {
	roots := c16Roots()
	for cnt := 0; cnt < n; cnt++ {
		root := roots[rng.Intn(len(roots))]
		b, hist := c16Playout(rng, root, rng.Intn(50))
		noisy, quiet := c16Generated(b)
		all := append(append([]move.Move{}, noisy...), quiet...)
		if len(all) == 0 {
			b = Must(board.FromFEN(StartPosFEN))
			hist = nil
			noisy, quiet = c16Generated(b)
			all = append(append([]move.Move{}, noisy...), quiet...)
		}
		x := &c16hBuilder{b: b, all: all, quiet: quiet}
		mode := rng.Intn(6)
		tags := []string{fmt.Sprintf("mode%d", mode)}
		malformed := false
		randStack := func() []heur.StackMove {
			var st []heur.StackMove
			switch rng.Intn(4) {
			case 0:
			case 1:
				if len(hist) > 0 {
					st = append(st, hist[0])
				}
				if len(hist) > 1 && rng.Bool() {
					st = append(st, hist[1])
				}
			default:
				for i := 1 + rng.Intn(2); i > 0; i-- {
					st = append(st, heur.StackMove{Piece: Piece(rng.Range(1, 6)), To: Square(rng.Intn(64))})
				}
			}
			return st
		}
		randWeight := func() Score {
			switch rng.Intn(3) {
			case 0:
				return -Inf
			case 1:
				return Score(rng.Range(-400, 400))
			}
			return Score(rng.Range(-32768, 32767))
		}
		randMoves := func() []move.Weighted {
			perm := append([]move.Move{}, all...)
			for j := len(perm) - 1; j > 0; j-- {
				k := rng.Intn(j + 1)
				perm[j], perm[k] = perm[k], perm[j]
			}
			k := 1 + rng.Intn(min(len(perm), 12))
			ms := make([]move.Weighted, 0, k)
			for _, m := range perm[:k] {
				ms = append(ms, move.Weighted{Move: m, Weight: randWeight()})
			}
			return ms
		}
		st := randStack()
		switch mode {
		case 0, 1: // search-like: moderate depths, changing stacks
			for i := 4 + rng.Intn(10); i > 0; i-- {
				if rng.Chance(0.3) {
					st = randStack()
				}
				x.failHigh(int(rng.Range(1, 20)), st, randMoves())
			}
		case 2: // saturation: one favourite fails high again and again with large depth
			fav := all[rng.Intn(len(all))]
			for i := 6 + rng.Intn(20); i > 0; i-- {
				ms := append(randMoves(), move.Weighted{Move: fav})
				x.failHigh(int(rng.Range(30, 127)), st, ms)
			}
		case 3: // many same-sign small updates of a few cells (slow approach to the band edge)
			fav := all[rng.Intn(len(all))]
			d := int(rng.Range(1, 8))
			other := randMoves()
			if rng.Bool() {
				other = other[:1]
			}
			for i := 40 + rng.Intn(80); i > 0; i-- {
				x.failHigh(d, st, append(append([]move.Weighted{}, other...), move.Weighted{Move: fav}))
			}
		case 4: // any int8 depth, any weight
			for i := 4 + rng.Intn(10); i > 0; i-- {
				x.failHigh(int(rng.Range(-128, 127)), randStack(), randMoves())
			}
		default: // direct Add sequences on single cells, arbitrary int16 bonuses
			for i := 3 + rng.Intn(4); i > 0; i-- {
				table := rng.Intn(4)
				var ix [5]int64
				switch table {
				case 0:
					ix = [5]int64{int64(rng.Intn(2)), int64(rng.Intn(64)), int64(rng.Intn(64)), 0, 0}
				case 1:
					ix = [5]int64{rng.Range(1, 6), rng.Range(1, 5), int64(rng.Intn(64)), 0, 0}
				default:
					ix = [5]int64{int64(rng.Intn(2)), rng.Range(1, 6), int64(rng.Intn(64)), rng.Range(1, 6), int64(rng.Intn(64))}
				}
				style := rng.Intn(4)
				fixed := rng.Range(-32768, 32767)
				small := rng.Range(-200, 200)
				for j := 10 + rng.Intn(90); j > 0; j-- {
					var bonus int64
					switch style {
					case 0:
						bonus = rng.Range(-32768, 32767)
					case 1:
						bonus = fixed
					case 2:
						bonus = small
					default:
						bonus = rng.Range(-1100, 1100)
					}
					x.add(table, ix, bonus)
				}
			}
		}
		// a malformed share: history stack entry without a piece, as nothing in the types forbids it
		if rng.Chance(0.03) {
			malformed = true
			tags = append(tags, "malformed-stack")
			x.failHigh(3, []heur.StackMove{{Piece: NoPiece, To: Square(rng.Intn(64))}}, randMoves())
		}
		// finally the weights the picker would see
		if !malformed {
			x.rank(st, quiet)
			if len(st) > 0 {
				x.rank(nil, quiet)
			}
		}
		in := (&hx.Nums{}).Int(x.ops).String() + " " + x.n.String()
		fn := &hx.Nums{}
		c16FenNums(fn, c16Fen(b))
		in += " " + fn.String()
		desc := fmt.Sprintf("fen=%q ops=%d: %s", c16Fen(b), x.ops, strings.Join(x.desc, "; "))
		if len(desc) > 3000 {
			desc = desc[:3000] + " ..."
		}
		emit(hx.Input{In: in, Desc: desc, Tags: tags, NonTrivial: true})
	}
}

// ---------------------------------------------------------------------------------------------
// positions with few quiet moves

func c16BoardOf(sq *[64]byte, stm Color) *board.Board {
	var sb strings.Builder
	for r := 7; r >= 0; r-- {
		empty := 0
		for f := 0; f < 8; f++ {
			c := sq[r*8+f]
			if c == 0 {
				empty++
				continue
			}
			if empty > 0 {
				sb.WriteByte(byte('0' + empty))
				empty = 0
			}
			sb.WriteByte(c)
		}
		if empty > 0 {
			sb.WriteByte(byte('0' + empty))
		}
		if r > 0 {
			sb.WriteByte('/')
		}
	}
	if stm == White {
		sb.WriteString(" w - - 0 1")
	} else {
		sb.WriteString(" b - - 0 1")
	}
	b, err := board.FromFEN(sb.String())
	if err != nil || !posgen.Valid(b) {
		return nil
	}
	return b
}

// c16Constructed builds a position whose side to move has exactly want quiet pseudo-legal moves:
// a king walled in at a corner or an edge by own blocked men and by enemy men (so that captures,
// winning and losing ones, exist), then every remaining quiet move is blocked at its target.
func c16Constructed(rng *hx.Rng, want int) *board.Board {
	for try := 0; try < 60; try++ {
		var sq [64]byte
		stm := Color(rng.Intn(2))
		own := func(c byte) byte {
			if stm == White {
				return c - 32
			}
			return c
		}
		opp := func(c byte) byte {
			if stm == White {
				return c
			}
			return c - 32
		}
		isPawn := func(c byte) bool { return c == 'p' || c == 'P' }
		put := func(s int, c byte) bool {
			if s < 0 || s > 63 || sq[s] != 0 || (isPawn(c) && (s < 8 || s >= 56)) {
				return false
			}
			sq[s] = c
			return true
		}
		var k int
		switch rng.Intn(10) {
		case 0, 1, 2, 3, 4, 5:
			k = []int{0, 7, 56, 63}[rng.Intn(4)]
		case 6, 7, 8:
			if rng.Bool() {
				k = rng.Intn(8) + 56*rng.Intn(2)
			} else {
				k = 8*rng.Intn(8) + 7*rng.Intn(2)
			}
		default:
			k = rng.Intn(64)
		}
		put(k, own('k'))
		for t := 0; t < 50; t++ {
			s := rng.Intn(64)
			df, dr := s%8-k%8, s/8-k/8
			if df*df <= 4 && dr*dr <= 4 {
				continue
			}
			put(s, opp('k'))
			break
		}
		for r := -1; r <= 1; r++ {
			for f := -1; f <= 1; f++ {
				kf, kr := k%8+f, k/8+r
				if (f == 0 && r == 0) || kf < 0 || kf > 7 || kr < 0 || kr > 7 {
					continue
				}
				switch x := rng.Intn(20); {
				case x < 9:
					put(kr*8+kf, opp("ppnnbrq"[rng.Intn(7)]))
				case x < 17:
					put(kr*8+kf, own("pppnb"[rng.Intn(5)]))
				}
			}
		}
		// defenders (enemy) and bystanders (own) near the king
		for i := rng.Intn(5); i > 0; i-- {
			s := (k/8+rng.Intn(7)-3)*8 + k%8 + rng.Intn(7) - 3
			if rng.Intn(3) > 0 {
				put(s, opp("ppnbrq"[rng.Intn(6)]))
			} else {
				put(s, own("ppnb"[rng.Intn(4)]))
			}
		}
		// block the remaining quiet moves at their targets
		ok := false
		for it := 0; it < 24; it++ {
			b := c16BoardOf(&sq, stm)
			if b == nil {
				break
			}
			_, quiet := c16Generated(b)
			if len(quiet) == want {
				ok = true
				break
			}
			if len(quiet) < want {
				break
			}
			t := int(quiet[rng.Intn(len(quiet))].To())
			placed := false
			for a := 0; a < 6 && !placed; a++ {
				var c byte
				if rng.Intn(5) < 3 {
					c = opp("ppnnbrq"[rng.Intn(7)])
				} else {
					c = own("pppnb"[rng.Intn(5)])
				}
				if put(t, c) {
					if c16BoardOf(&sq, stm) != nil {
						placed = true
					} else {
						sq[t] = 0
					}
				}
			}
			if !placed {
				break
			}
		}
		if ok {
			return c16BoardOf(&sq, stm)
		}
	}
	return nil
}

// c16FewQuiet: constructed positions, or the themed / en-passant generators of harness/posgen
// filtered by the number of quiet moves.
func c16FewQuiet(rng *hx.Rng, want int) *board.Board {
	if rng.Intn(4) == 0 {
		for try := 0; try < 300; try++ {
			var p *posgen.Pos
			if rng.Bool() {
				p = posgen.Themed(rng)
			} else {
				p = posgen.EPOnly(rng)
			}
			if p == nil {
				continue
			}
			if _, quiet := c16Generated(p.B); len(quiet) <= 2 {
				return p.B
			}
		}
	}
	return c16Constructed(rng, want)
}
