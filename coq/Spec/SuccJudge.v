(* Spec-level oracles of property C02: they look at what the implementation produced and at
   Spec/Chess.v only (never at the engine model).

   A position is compared through its six FEN fields [pos_fields]; clause numbers:
   1 placement, 2 side to move, 3 castling rights, 4 en-passant target, 5 halfmove clock,
   6 fullmove number; +10 when the difference shows in the text FEN() printed rather than in the
   board fields; 20 = the FEN text was not well formed. *)
From Coq Require Import NArith ZArith List Bool.
From Chess3 Require Import Base.Bits Model.Types Spec.Geometry Model.BoardDef Spec.Chess.
Import ListNotations.
Open Scope Z_scope.

Definition code_of (o : option (color * N)) : N :=
  match o with None => 0 | Some (White, k) => k | Some (Black, k) => 8 + k end%N.
Definition pack_codes (l : list N) : N := fold_right (fun c acc => c + 16 * acc)%N 0%N l.

Definition pos_fields (p : pos) : list Z :=
  [Z.of_N (pack_codes (map code_of (at_ p))); Z.of_N (cix (turn p)); Z.of_N (rights p);
   match epsq p with None => 64 | Some e => Z.of_N e end; half p; fullm p].

(* index (from 1) of the first field in which two field lists differ, 0 if none; a missing field differs *)
Fixpoint first_diff (k : Z) (a b : list Z) : Z :=
  match a, b with
  | [], [] => 0
  | x :: a', y :: b' => if x =? y then first_diff (k + 1) a' b' else k
  | _, _ => k
  end.

(* board-out without history: P0..P6 C0 C1 stm ep castles fifty full SQ *)
Fixpoint unpack8 (n : nat) (v : N) : list N :=
  match n with O => [] | S k => N.land v 7 :: unpack8 k (N.shiftr v 3) end.
Definition decode_board_out (l : list Z) : option board :=
  match l with
  | p0 :: p1 :: p2 :: p3 :: p4 :: p5 :: p6 :: c0 :: c1 :: st :: e :: ca :: fi :: fu :: sq :: _ =>
      Some (mkBoard (unpack8 64 (Z.to_N sq)) (map Z.to_N [p0; p1; p2; p3; p4; p5; p6]) [Z.to_N c0; Z.to_N c1] []
                    fu (color_of_Z st) (Z.to_N e) (Z.to_N ca) fi)
  | _ => None
  end.

(* the domain of the single-step clause: a valid position, a legal move, a clock that cannot wrap *)
Definition c02_domain (p : pos) (m : N) : bool :=
  valid p && legal_spec p m && (0 <=? half p) && (half p <? 32767).

(* judge for stream "c02": input = board-in ++ [move], observed = board-out-nohist ++ FEN fields *)
Definition judge_c02 (l : list Z) : list Z :=
  match decode_board l with
  | Some (b, m :: obs) =>
      let p := abs b in
      let m := Z.to_N m in
      if negb (c02_domain p m) then [1] else
      let want := pos_fields (succ_spec p m) in
      match decode_board_out obs with
      | None => [0; 9]
      | Some b' =>
          let d := first_diff 1 want (pos_fields (abs b')) in
          if negb (d =? 0) then [0; d] else
          let fen := skipn 15 obs in
          match fen with
          | [_; _; _; _; _; _] =>
              let d := first_diff 1 want fen in
              if negb (d =? 0) then [0; 10 + d] else [1]
          | _ => [0; 20]
          end
      end
  | _ => [0; 9]
  end.

(* ------------------------------------------------------------------------------------------ *)
(* UCI: the notation of a move, strictly: file a-h, rank 1-8 twice, optional q r b n.
   A token of the right length and with a proper promotion letter whose SQUARE characters are out of
   range is classified [TOutside]: the engine computes squares with wrap-around byte arithmetic and
   may read such a token as a move (documented in Properties/C02.v, C02_uci_alias); the property
   quantifies over lists of moves, so the judge says nothing about lists containing such a token. *)
Inductive tok_class := TMove (m : N) | TStop | TOutside.

Definition strict_square (c0 c1 : N) : option N :=
  if ((97 <=? c0) && (c0 <=? 104) && (49 <=? c1) && (c1 <=? 56))%N then Some ((c1 - 49) * 8 + (c0 - 97))%N else None.
Definition strict_promo (rest : list N) : option N :=
  match rest with
  | [] => Some 0%N
  | [c] => if (c =? 113)%N then Some Queen else if (c =? 114)%N then Some Rook
           else if (c =? 98)%N then Some Bishop else if (c =? 110)%N then Some Knight else None
  | _ => None
  end.
Definition classify_token (tok : list N) : tok_class :=
  match tok with
  | c0 :: c1 :: c2 :: c3 :: rest =>
      match strict_promo rest with
      | None => TStop
      | Some pr =>
          match strict_square c0 c1, strict_square c2 c3 with
          | Some from, Some to => TMove (mk_move from to pr)
          | _, _ => TOutside
          end
      end
  | _ => TStop
  end.

(* The position `position ... moves toks` must show: every token that denotes a legal move is played
   by the rules; the list stops at the first token that is not the notation of a possible
   (pseudo-legal) move.  None = the list leaves the domain of the property (a possible but illegal
   move is played by the engine without complaint; the clock would wrap; see [TOutside]). *)
Fixpoint uci_expect (p : pos) (toks : list (list N)) : option pos :=
  match toks with
  | [] => Some p
  | t :: r =>
      match classify_token t with
      | TStop => Some p
      | TOutside => None
      | TMove m =>
          if legal_spec p m then
            if (0 <=? half p) && (half p <? 32767) then uci_expect (succ_spec p m) r else None
          else if pseudo_spec p m then None
          else Some p
      end
  end.

Fixpoint jtake_tokens (n : nat) (l : list Z) : list (list N) * list Z :=
  match n with
  | O => ([], l)
  | S k => match l with
           | [] => ([], [])
           | len :: r => let '(ts, rest) := jtake_tokens k (skipn (Z.to_nat len) r) in
                         (map Z.to_N (firstn (Z.to_nat len) r) :: ts, rest)
           end
  end.

(* judge for stream "c02uci": input = [mode] ++ board-in ++ tokens, observed = FEN fields *)
Definition judge_c02uci (l : list Z) : list Z :=
  match l with
  | _ :: l' =>
      match decode_board l' with
      | Some (b, n :: rest) =>
          let p := abs b in
          if negb (valid p) then [1] else
          let '(toks, obs) := jtake_tokens (Z.to_nat n) rest in
          match uci_expect p toks with
          | None => [1]
          | Some q =>
              match obs with
              | [_; _; _; _; _; _] =>
                  let d := first_diff 1 (pos_fields q) obs in
                  if negb (d =? 0) then [0; 10 + d] else [1]
              | _ => [0; 20]
              end
          end
      | _ => [0; 9]
      end
  | [] => [0; 9]
  end.
