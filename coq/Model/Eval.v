(* eval/eval.go: the static evaluation, ONE function [eval_gen] parametrised by a score structure,
   mirroring the Go generic  func Eval[T ScoreType](b *board.Board, c *CoeffSet[T]) T  line by line.
   Definitions only.

   How the Go text is read.
   * T-valued arithmetic goes through [score_ops]: [s_add]/[s_sub]/[s_mul] are Go's + - * on T,
     [s_of_int] is the conversion T(n) of an int, [s_sigmoid] is sigmoidal[T], [s_taper] is the body of
     taperedScore after the two subtractions (it is the only place where the code branches on the
     type).  No control flow depends on a T value.
   * The accumulators sp.mg[2], sp.eg[2], ka.score[2][2] are WRITE-ONLY until they are consumed
     (ka by addKingAttacks, sp by taperedScore/endgameScore), and every write is a statement
     `acc[color] += v`.  Each such statement is one [bump] (slot, colour, v); a function of the model
     returns the list of bumps its Go counterpart executes, in program order; [total] replays a list
     in order with [s_add] starting from T(0).  (Order is kept because float64 addition is not
     associative; for the int16 instance it is irrelevant, which Proofs/EvalAlg.v proves.)
   * pw (pieceWise) is plain data computed from the board; arrays indexed by colour are pairs
     ([both]/[sel]).  The per-piece loops `for pieces != 0; pieces &= pieces-1 { sq := LowestSet }`
     run over [bits_of] (ascending), OR-ing the attack sets into pw.attacks[color][kind] and
     appending the bumps ([piece_loop]).
   * Only b.Pieces, b.Colors, b.STM and b.FiftyCnt are read - as in the Go code.  The model receives
     the whole board record.

   Instance [eval_Z]: the engine's T = Score = int16 (wrap-around written out with the generated
   width [score_bits]; table sigmoid with clamp; truncated division).  The float64/real instance
   is added by Model/EvalR.v (property C19) - nothing here depends on the carrier. *)
From Coq Require Import NArith ZArith List Bool.
From Chess3 Require Import Base.Bits Base.Word Model.Types Model.Att Model.BoardDef Gen.Coeffs.
Import ListNotations.
Open Scope N_scope.

(* ------------------------------------------------------------------------------------------ *)
(* score structure *)

Record score_ops (T : Type) : Type := mkOps {
  s_add : T -> T -> T;
  s_sub : T -> T -> T;
  s_mul : T -> T -> T;
  s_of_int : Z -> T;                      (* T(n) for an int n *)
  s_sigmoid : T -> T;                     (* sigmoidal[T] *)
  s_taper : T -> T -> Z -> Z -> Z -> T    (* mgScore egScore mgPhase egPhase fifty -> result of taperedScore *)
}.
Arguments s_add {T} _. Arguments s_sub {T} _. Arguments s_mul {T} _.
Arguments s_of_int {T} _. Arguments s_sigmoid {T} _. Arguments s_taper {T} _.

(* accumulators *)
Inductive slot := MG | EG | KA0 | KA1.     (* sp.mg, sp.eg, ka.score[0], ka.score[1] *)
Definition slot_eqb (a b : slot) : bool :=
  match a, b with MG, MG | EG, EG | KA0, KA0 | KA1, KA1 => true | _, _ => false end.
Definition bump (T : Type) : Type := (slot * color * T)%type.

(* colour-indexed pairs *)
Definition sel {A} (p : A * A) (c : color) : A := match c with White => fst p | Black => snd p end.
Definition both {A} (f : color -> A) : A * A := (f White, f Black).

Definition cnt (x : N) : Z := Z.of_N (popcount x).        (* BitBoard.Count() *)
Definition nz (x : N) : bool := negb (x =? 0).             (* x != 0 *)

(* signed wrap-around to [bits] bits (Go conversion to / arithmetic in intN) *)
Definition wrapS (bits x : Z) : Z :=
  let h := Z.pow 2 (bits - 1) in ((x + h) mod (2 * h) - h)%Z.

(* ------------------------------------------------------------------------------------------ *)
(* helpers that do not involve T *)

Definition insufficient_mat (b : board) : bool :=
  if nz (bor (bor (pieces b Pawn) (pieces b Queen)) (pieces b Rook)) then false else
  let wN := cnt (band (colors b White) (pieces b Knight)) in
  let bN := cnt (band (colors b Black) (pieces b Knight)) in
  let wB := cnt (band (colors b White) (pieces b Bishop)) in
  let bB := cnt (band (colors b Black) (pieces b Bishop)) in
  if (wN + bN + wB + bB <=? 3)%Z then
    let wScr := (wN + 3 * wB)%Z in
    let bScr := (bN + 3 * bB)%Z in
    if (Z.max (wScr - bScr) (bScr - wScr) <=? 3)%Z then true else false
  else false.

Definition knbvk (b : board) : bool :=
  let whiteN := band (pieces b Knight) (colors b White) in
  let blackN := band (pieces b Knight) (colors b Black) in
  let whiteB := band (pieces b Bishop) (colors b White) in
  let blackB := band (pieces b Bishop) (colors b Black) in
  (bor (bor (pieces b Pawn) (pieces b Rook)) (pieces b Queen) =? 0) &&
  ((is_pow2 whiteN && is_pow2 whiteB && (bor blackN blackB =? 0)) ||
   (is_pow2 blackN && is_pow2 blackB && (bor whiteN whiteB =? 0))).

(* Chebishev(a, b) *)
Definition chebishev (a b : N) : Z :=
  let ax := Z.of_N (a mod 8) in let ay := Z.of_N (a / 8) in
  let bx := Z.of_N (b mod 8) in let by_ := Z.of_N (b / 8) in
  Z.max (Z.abs (ax - bx)) (Z.abs (ay - by_)).

(* frontFill(b, color) *)
Definition front_fill (b : N) (c : color) : N :=
  match c with
  | White => let b := bor b (shl b 8) in let b := bor b (shl b 16) in bor b (shl b 32)
  | Black => let b := bor b (shr b 8) in let b := bor b (shr b 16) in bor b (shr b 32)
  end.

(* the sideways spread  ((x & ^AFileBB) >> 1) | ((x & ^HFileBB) << 1)  (both operand orders occur) *)
Definition spread (x : N) : N := bor (shr (band x (bnot AFileBB)) 1) (shl (band x (bnot HFileBB)) 1).
Definition spread' (x : N) : N := bor (shl (band x (bnot HFileBB)) 1) (shr (band x (bnot AFileBB)) 1).

(* the part of pieceWise that is known before the piece loops *)
Record pw_pre := mkPwPre {
  pw_occ : N;
  pw_att_pawn : N * N;       (* pw.attacks[color][0] *)
  pw_att_king : N * N;       (* pw.attacks[color][King-Pawn] *)
  pw_rays_b : N * N;         (* pw.kingRays[color][0] *)
  pw_rays_r : N * N;         (* pw.kingRays[color][Rook-Bishop] *)
  pw_king_sq : N * N;
  pw_king_nb : N * N;
  pw_holes : N * N;
  pw_passers : N * N;
  pw_doubled : N * N;
  pw_isolated : N * N
}.

Definition pawns_of (b : board) (c : color) : N := band (pieces b Pawn) (colors b c).

(* calcPawnStructure, per colour *)
Definition front_span (ps : N * N) (c : color) : N :=
  match c with
  | White => shl (front_fill (sel ps White) White) 8
  | Black => shr (front_fill (sel ps Black) Black) 8
  end.
Definition rear_span (ps : N * N) (c : color) : N :=
  match c with
  | White => shr (front_fill (sel ps White) Black) 8
  | Black => shl (front_fill (sel ps Black) White) 8
  end.
Definition pawn_cover (ps : N * N) (c : color) : N :=
  match c with
  | White => spread (front_span ps White)
  | Black => spread' (front_span ps Black)
  end.
Definition neighbour_files (ps : N * N) (c : color) : N :=
  let files := bor (bor (sel ps c) (front_span ps c)) (rear_span ps c) in
  match c with White => spread files | Black => spread' files end.
Definition front_line (ps : N * N) (c : color) : N := band (bnot (rear_span ps c)) (sel ps c).

Definition calc_pw_pre (b : board) : pw_pre :=
  (* calcOccupancy *)
  let occ := bor (colors b White) (colors b Black) in
  (* calcKingSquares *)
  let king := both (fun c => band (colors b c) (pieces b King)) in
  let king_sq := both (fun c => lsb (sel king c)) in
  let king_a := both (fun c => king_moves (sel king_sq c)) in
  let rays_b := both (fun c => bishop_moves (sel king_sq c) occ) in
  let rays_r := both (fun c => rook_moves (sel king_sq c) occ) in
  let king_nb := both (fun c => bor (sel king c) (sel king_a c)) in
  (* calcPawnStructure *)
  let ps := both (pawns_of b) in
  let att_pawn := both (fun c => pawn_capture_moves (sel ps c) c) in
  let holes := both (fun c => band (nthN sideOfBoard (cix c) 0) (bnot (pawn_cover ps c))) in
  let passers := both (fun c =>
      band (front_line ps c) (bnot (bor (front_span ps (flip c)) (pawn_cover ps (flip c))))) in
  let doubled := both (fun c => bandn (sel ps c) (front_line ps c)) in
  let isolated := both (fun c => bandn (sel ps c) (neighbour_files ps c)) in
  mkPwPre occ att_pawn king_a rays_b rays_r king_sq king_nb holes passers doubled isolated.

(* the body of `for pieces := ...; pieces != 0; pieces &= pieces - 1 { sq := pieces.LowestSet(); ... }`:
   [body sq] returns the attack set OR-ed into pw.attacks[color][kind] and the bumps of the iteration *)
Definition piece_loop {B} (pieces : N) (body : N -> N * list B) : N * list B :=
  fold_left (fun st sq => let r := body sq in (bor (fst st) (fst r), snd st ++ snd r)) (bits_of pieces) (0, []).

(* ------------------------------------------------------------------------------------------ *)
Section Gen.
Context {T : Type} (O : score_ops T) (C : CoeffSet T).

Definition zero : T := s_of_int O 0.
Definition add := s_add O.
Definition mul := s_mul O.
Definition of_int := s_of_int O.
Definition co1 (l : list T) (i : N) : T := nthN l i zero.
Definition co2 (l : list (list T)) (i j : N) : T := nthN (nthN l i []) j zero.

(* the value of accumulator slot[color] after the statements of l, executed in order from T(0) *)
Definition total (s : slot) (c : color) (l : list (bump T)) : T :=
  fold_left (fun acc (e : bump T) =>
     if slot_eqb s (fst (fst e)) && color_eqb c (snd (fst e)) then add acc (snd e) else acc) l zero.

(* sp.mg[color] += f 0; sp.eg[color] += f 1 *)
Definition mgeg (c : color) (f : N -> T) : list (bump T) := [(MG, c, f 0); (EG, c, f 1)].
(* ka.score[0][color] += f 0; ka.score[1][color] += f 1 *)
Definition kab (c : color) (f : N -> T) : list (bump T) := [(KA0, c, f 0); (KA1, c, f 1)].

(* addPieceValues: bumps and sp.phase *)
Definition piece_types : list N := [Pawn; Knight; Bishop; Rook; Queen].
Definition add_piece_values (b : board) : list (bump T) :=
  flat_map (fun pt =>
    let wCnt := cnt (band (pieces b pt) (colors b White)) in
    let bCnt := cnt (band (pieces b pt) (colors b Black)) in
    [(MG, White, mul (of_int wCnt) (co2 (PieceValues C) 0 pt));
     (EG, White, mul (of_int wCnt) (co2 (PieceValues C) 1 pt));
     (MG, Black, mul (of_int bCnt) (co2 (PieceValues C) 0 pt));
     (EG, Black, mul (of_int bCnt) (co2 (PieceValues C) 1 pt))]) piece_types.
Definition phase_of (b : board) : Z :=
  fold_left (fun ph pt =>
    let wCnt := cnt (band (pieces b pt) (colors b White)) in
    let bCnt := cnt (band (pieces b pt) (colors b Black)) in
    (ph + (wCnt + bCnt) * nthN Phase pt 0)%Z) piece_types 0%Z.

(* addPSqT *)
Definition add_psqt (c : color) (pt sq : N) : list (bump T) :=
  let sq := match c with White => N.lxor sq 56 | Black => sq end in
  let ix := pt - 1 in
  [(MG, c, co2 (PSqT C) (2 * ix) sq); (EG, c, co2 (PSqT C) (2 * ix + 1) sq)].

(* scorePair.KNBvK *)
Definition knbvk_terms (b : board) : list (bump T) :=
  let bishopSq := lsb (pieces b Bishop) in
  let knightSq := lsb (pieces b Knight) in
  let victim := if nz (band (pieces b Bishop) (colors b White)) then Black else White in
  let victimKSq := lsb (band (pieces b King) (colors b victim)) in
  let attackKSq := lsb (band (pieces b King) (colors b (flip victim))) in
  let parity := N.land (sq_file bishopSq + sq_rank bishopSq) 1 in
  let cornerDist := Z.min (chebishev victimKSq (nthN (nthN KBCorners parity []) 0 0))
                          (chebishev victimKSq (nthN (nthN KBCorners parity []) 1 0)) in
  let cornerDist := (7 - cornerDist)%Z in
  let cornerDist := (cornerDist * cornerDist)%Z in
  add_psqt victim King victimKSq ++
  add_psqt (flip victim) King attackKSq ++
  add_psqt (flip victim) Knight knightSq ++
  add_psqt (flip victim) Bishop bishopSq ++
  [(EG, flip victim, mul (of_int cornerDist) (of_int 30))].

(* addTempo *)
Definition add_tempo (b : board) : list (bump T) := mgeg (stm b) (fun ph => co1 (TempoBonus C) ph).

(* addBishopPair *)
Definition add_bishop_pair (b : board) : list (bump T) :=
  flat_map (fun c =>
    let myBishops := band (colors b c) (pieces b Bishop) in
    let myPawnCnt := cnt (band (colors b c) (pieces b Pawn)) in
    let myPawnCnt := Z.min myPawnCnt (Z.of_nat (length (BishopPair C)) - 1) in
    if nz (clear_lsb myBishops) then
      [(MG, c, co1 (BishopPair C) (Z.to_N myPawnCnt)); (EG, c, co1 (BishopPair C) (Z.to_N myPawnCnt))]
    else []) [White; Black].

(* addPassers *)
Definition add_passers (b : board) (pw : pw_pre) : list (bump T) :=
  flat_map (fun c =>
    let passers := sel (pw_passers pw) c in
    (if is_pow2 passers then
       let sq := lsb passers in
       if (bor (bor (pieces b Knight) (pieces b Bishop)) (pieces b Queen) =? 0)
          || (bor (pieces b Rook) (pieces b Queen) =? 0) then
         let qSq := sq mod 8 in
         let qSq := match c with White => qSq + 56 | Black => qSq end in
         let kingDist := (chebishev qSq (sel (pw_king_sq pw) (flip c)) - chebishev qSq (sel (pw_king_sq pw) c))%Z in
         mgeg c (fun ph => mul (co1 (PasserKingDist C) ph) (of_int kingDist))
       else []
     else []) ++
    flat_map (fun sq =>
      let rank := sq / 8 in
      let rank := match c with White => rank | Black => N.lxor rank 7 end in
      (if N.testbit (sel (pw_att_pawn pw) c) sq then mgeg c (fun ph => co1 (ProtectedPasser C) ph) else []) ++
      mgeg c (fun ph => co2 (PasserRank C) ph (rank - 1))) (bits_of passers)) [White; Black].

(* addDoubledPawns, addIsolatedPawns *)
Definition add_doubled (pw : pw_pre) : list (bump T) :=
  flat_map (fun c => mgeg c (fun ph => mul (co1 (DoubledPawns C) ph) (of_int (cnt (sel (pw_doubled pw) c))))) [White; Black].
Definition add_isolated (pw : pw_pre) : list (bump T) :=
  flat_map (fun c => mgeg c (fun ph => mul (co1 (IsolatedPawns C) ph) (of_int (cnt (sel (pw_isolated pw) c))))) [White; Black].

(* kingAttacks.addAttackPieces *)
Definition add_attack_pieces (c : color) (pt attacks kingNB : N) : list (bump T) :=
  if nz (band kingNB attacks) then kab c (fun ph => co2 (KingAttackPieces C) ph (pt - Knight)) else [].

(* addRookMobility *)
Definition add_rook_mobility (b : board) (c : color) (sq attacks : N) : list (bump T) :=
  let rank := shl 255 (N.land sq 56) in
  let hmob := cnt (band (band attacks rank) (bnot (colors b c))) in
  let vmob := cnt (band (band attacks (bnot rank)) (bnot (colors b c))) in
  let mobCnt := Z.to_N (Z.quot (2 * vmob + hmob) 2) in
  mgeg c (fun ph => co2 (MobilityRook C) ph mobCnt) ++
  (if nz (band (band attacks (pieces b Rook)) (colors b c)) then mgeg c (fun ph => co1 (ConnectedRooks C) ph) else []).

(* addBishopMobility *)
Definition add_bishop_mobility (b : board) (c : color) (attacks : N) : list (bump T) :=
  let mobCnt := popcount (band attacks (bnot (colors b c))) in
  mgeg c (fun ph => co2 (MobilityBishop C) ph mobCnt).

(* addKnightMobility *)
Definition add_knight_mobility (b : board) (c : color) (attacks pawnCover : N) : list (bump T) :=
  let mobCnt := popcount (band (band attacks (bnot (colors b c))) (bnot pawnCover)) in
  mgeg c (fun ph => co2 (MobilityKnight C) ph mobCnt).

(* addKnightOutposts *)
Definition add_knight_outposts (c : color) (sq holes : N) : list (bump T) :=
  if nz (band (bit sq) holes) then
    let sq := match c with White => N.lxor sq 56 | Black => sq end in
    mgeg c (fun ph => co2 (KnightOutpost C) ph sq)
  else [].

(* the first `for color` loop of Eval, one colour: returns pw.attacks[color][Knight..Queen - Pawn]
   (in the order knight, bishop, rook, queen) and the bumps *)
Definition piece_terms (b : board) (pw : pw_pre) (c : color) : (N * N * N * N) * list (bump T) :=
  let occ := pw_occ pw in
  let eKNb := sel (pw_king_nb pw) (flip c) in
  let q := piece_loop (band (pieces b Queen) (colors b c)) (fun sq =>
      let attacks := bor (bishop_moves sq occ) (rook_moves sq occ) in
      (attacks, add_attack_pieces c Queen attacks eKNb ++ add_psqt c Queen sq)) in
  let r := piece_loop (band (pieces b Rook) (colors b c)) (fun sq =>
      let attacks := rook_moves sq occ in
      (attacks, add_attack_pieces c Rook attacks eKNb ++ add_rook_mobility b c sq attacks ++ add_psqt c Rook sq)) in
  let bi := piece_loop (band (pieces b Bishop) (colors b c)) (fun sq =>
      let attacks := bishop_moves sq occ in
      (attacks, add_attack_pieces c Bishop attacks eKNb ++ add_bishop_mobility b c attacks ++ add_psqt c Bishop sq)) in
  let n := piece_loop (band (pieces b Knight) (colors b c)) (fun sq =>
      let attacks := knight_moves sq in
      (attacks, add_attack_pieces c Knight attacks eKNb ++
                add_knight_mobility b c attacks (sel (pw_att_pawn pw) (flip c)) ++
                add_knight_outposts c sq (band (sel (pw_holes pw) (flip c)) (sel (pw_att_pawn pw) c)) ++
                add_psqt c Knight sq)) in
  let p := piece_loop (band (pieces b Pawn) (colors b c)) (fun sq => (0, add_psqt c Pawn sq)) in
  let ksq := lsb (band (pieces b King) (colors b c)) in
  ((fst n, fst bi, fst r, fst q), snd q ++ snd r ++ snd bi ++ snd n ++ snd p ++ add_psqt c King ksq).

(* the attack sets of one colour after the loops *)
Record att_set := mkAtt { at_pawn : N; at_knight : N; at_bishop : N; at_rook : N; at_queen : N; at_king : N }.
(* calcCover *)
Definition cover_of (a : att_set) : N :=
  bor (bor (bor (bor (bor (at_pawn a) (at_knight a)) (at_bishop a)) (at_rook a)) (at_queen a)) (at_king a).

(* addSafeChecks *)
Definition add_safe_checks (c : color) (pt safeChecks : N) : list (bump T) :=
  kab c (fun ph => mul (co2 (SafeChecks C) ph (pt - Knight)) (of_int (cnt safeChecks))).

(* the second `for color` loop (safe checks, shelter), one colour *)
Definition safety_terms (b : board) (pw : pw_pre) (att : att_set * att_set) (c : color) : list (bump T) :=
  let eCover := cover_of (sel att (flip c)) in
  let mine := sel att c in
  let own := colors b c in
  let safe (a eKAttack : N) := band (band (band a eKAttack) (bnot eCover)) (bnot own) in
  let eKq := bor (sel (pw_rays_b pw) (flip c)) (sel (pw_rays_r pw) (flip c)) in
  let eKr := sel (pw_rays_r pw) (flip c) in
  let eKb := sel (pw_rays_b pw) (flip c) in
  let eKn := knight_moves (sel (pw_king_sq pw) (flip c)) in
  let pCnt := cnt (band (band (sel (pw_king_nb pw) c) (colors b c)) (pieces b Pawn)) in
  let penalty := of_int (Z.max (3 - pCnt) 0) in
  add_safe_checks c Queen (safe (at_queen mine) eKq) ++
  add_safe_checks c Rook (safe (at_rook mine) eKr) ++
  add_safe_checks c Bishop (safe (at_bishop mine) eKb) ++
  add_safe_checks c Knight (safe (at_knight mine) eKn) ++
  (* addShelter: ka.score[ph][color.Flip()] += c.KingShelter[ph] * penalty *)
  kab (flip c) (fun ph => mul (co1 (KingShelter C) ph) penalty).

(* addKingAttacks *)
Definition add_king_attacks (ka : list (bump T)) : list (bump T) :=
  [(MG, White, s_sigmoid O (total KA0 White ka)); (MG, Black, s_sigmoid O (total KA0 Black ka));
   (EG, White, s_sigmoid O (total KA1 White ka)); (EG, Black, s_sigmoid O (total KA1 Black ka))].

(* endgameScore *)
Definition endgame_score (b : board) (l : list (bump T)) : T :=
  s_sub O (total EG (stm b) l) (total EG (flip (stm b)) l).

(* taperedScore *)
Definition tapered_score (b : board) (phase : Z) (l : list (bump T)) : T :=
  let mgScore := s_sub O (total MG (stm b) l) (total MG (flip (stm b)) l) in
  let egScore := s_sub O (total EG (stm b) l) (total EG (flip (stm b)) l) in
  let mgPhase := Z.min phase MaxPhase in
  let egPhase := (MaxPhase - mgPhase)%Z in
  s_taper O mgScore egScore mgPhase egPhase (fifty b).

(* the bumps of the main path (everything between the KNBvK test and taperedScore) *)
Definition main_terms (b : board) : list (bump T) :=
  let pw := calc_pw_pre b in
  let ptW := piece_terms b pw White in
  let ptB := piece_terms b pw Black in
  let mk (c : color) (a : N * N * N * N) :=
    mkAtt (sel (pw_att_pawn pw) c) (fst (fst (fst a))) (snd (fst (fst a))) (snd (fst a)) (snd a) (sel (pw_att_king pw) c) in
  let att := (mk White (fst ptW), mk Black (fst ptB)) in
  let l := add_tempo b ++ add_bishop_pair b ++
           add_passers b pw ++ add_doubled pw ++ add_isolated pw ++
           snd ptW ++ snd ptB ++
           safety_terms b pw att White ++ safety_terms b pw att Black in
  l ++ add_king_attacks l.

Definition eval_gen (b : board) : T :=
  if insufficient_mat b then zero else
  let pv := add_piece_values b in
  if knbvk b then endgame_score b (pv ++ knbvk_terms b)
  else tapered_score b (phase_of b) (pv ++ main_terms b).

End Gen.

(* ------------------------------------------------------------------------------------------ *)
(* the engine's instance: T = Score = int16 *)

Definition wrapsc (x : Z) : Z := wrapS score_bits x.

(* sigmoidal[Score]: T(sigm[Clamp(int(n), 0, len(sigm)-1)]) *)
Definition sigmoid_Z (n : Z) : Z :=
  wrapsc (nth (Z.to_nat (clamp n 0 (Z.of_nat (length sigm) - 1))) sigm 0%Z).

(* taperedScore, Score branch:
     v := int(mgScore)*mgPhase + int(egScore)*egPhase;  v *= int(100 - fifty);  return T(v / MaxPhase / 100)
   `100 - fifty` is computed in the type of Board.FiftyCnt ([fifty_bits] wide); the int arithmetic
   is 64-bit and cannot overflow: |mgScore|, |egScore| <= 2^15, phases <= 24, |100 - fifty| <= 2^15. *)
Definition taper_Z (mg eg mgPhase egPhase fifty : Z) : Z :=
  let v := (mg * mgPhase + eg * egPhase)%Z in
  let v := (v * wrapS fifty_bits (100 - fifty))%Z in
  wrapsc (Z.quot (Z.quot v MaxPhase) 100).

Definition ops_Z : score_ops Z :=
  mkOps Z (fun a b => wrapsc (a + b)) (fun a b => wrapsc (a - b)) (fun a b => wrapsc (a * b))
        wrapsc sigmoid_Z taper_Z.

Definition eval_Z (c : CoeffSet Z) (b : board) : Z := eval_gen ops_Z c b.

(* ------------------------------------------------------------------------------------------ *)
(* stream c17: board-in -> [eval]; see harness/streams/c17.go for the Go side, which evaluates the
   position, its mirror image and the irrelevant-field variants.  The model evaluates every board it
   is given (the whole record is decoded). *)
Open Scope Z_scope.

(* input: [n] ++ n board-in records; output: the evaluation of each, in order *)
Fixpoint eval_boards (fuel : nat) (l : list Z) : list Z :=
  match fuel with
  | O => []
  | S k => match decode_board l with
           | Some (b, rest) => eval_Z Coefficients b :: eval_boards k rest
           | None => []
           end
  end.

Definition run_c17 (l : list Z) : list Z :=
  match l with
  | n :: rest => eval_boards (Z.to_nat n) rest
  | [] => []
  end.
