(* Proofs about Model/IterDeepen.v (Layer B of C06/C07/C08). *)
From Coq Require Import ZArith Bool List Lia.
Import ListNotations.
From Chess3 Require Import Base.Word Gen.IdConsts Model.IterDeepen.
Open Scope Z_scope.

(* ------------------------------------------------------------------------------------------- *)
(* `go depth <anything>` hands a depth in [1, MaxPlies] to the search *)
Lemma uci_depth_range : forall arg, 1 <= uci_go_depth arg <= MaxPlies.
Proof.
  intros arg. unfold uci_go_depth, clamp, MaxPlies.
  rewrite wrap8_id by lia. lia.
Qed.

(* the engine's loop bound: with that depth at least the iterations 0 and 1 run *)
Lemma uci_depth_two_iterations : forall arg,
  (0 <? MaxPlies) && (0 <=? uci_go_depth arg) = true /\ (1 <? MaxPlies) && (1 <=? uci_go_depth arg) = true.
Proof.
  intros arg. pose proof (uci_depth_range arg) as H. unfold MaxPlies in *.
  split; apply andb_true_iff; split; try reflexivity; apply Z.leb_le; lia.
Qed.

(* before commit c771937: Depth(parseInt(arg)) *)
Lemma uci_depth_unclamped_refuted : exists arg, uci_go_depth_unclamped arg < 0.
Proof. exists [49; 50; 56]. vm_compute. reflexivity. Qed.

(* ------------------------------------------------------------------------------------------- *)
(* the decision layer over an arbitrary oracle *)

Definition nodes_of (r : ab_result) : Z := match r with AbAborted n => n | AbValue _ _ n => n end.

(* the most recent non-empty reported variation; `reps` is most recent first *)
Fixpoint recent (reps : list report) : option (list Z) :=
  match reps with
  | [] => None
  | RLine _ _ _ (m :: pv) :: _ => Some (m :: pv)
  | _ :: r => recent r
  end.

Definition last_line (r : result) : option (list Z) := recent (rev (r_reports r)).
Definition last_nodes (r : result) : Z := match rev (r_reports r) with x :: _ => report_nodes x | [] => 0 end.

Fixpoint increasing (l : list Z) : Prop :=
  match l with
  | a :: (b :: _) as r => a < b /\ increasing r
  | _ => True
  end.

Fixpoint nondecreasing (l : list Z) : Prop :=
  match l with
  | a :: (b :: _) as r => a <= b /\ nondecreasing r
  | _ => True
  end.

Lemma increasing_seq : forall n a, increasing (map Z.of_nat (seq a n)).
Proof.
  induction n as [|n IH]; intros a; [exact I|].
  destruct n as [|n]; [exact I|].
  change (seq a (S (S n))) with (a :: seq (S a) (S n)). cbn [map].
  specialize (IH (S a)). cbn [seq map] in *. split; [lia|exact IH].
Qed.

Lemma nondecreasing_snoc : forall l x, nondecreasing l -> (forall y, In y l -> y <= x) -> nondecreasing (l ++ [x]).
Proof.
  induction l as [|a l IH]; intros x Hl Hx; [exact I|].
  destruct l as [|b l].
  - cbn. split; [apply Hx; left; reflexivity|exact I].
  - change ((a :: b :: l) ++ [x]) with (a :: ((b :: l) ++ [x])).
    destruct Hl as [Hab Hl]. change ((b :: l) ++ [x]) with (b :: (l ++ [x])).
    split; [exact Hab|]. change (b :: l ++ [x]) with ((b :: l) ++ [x]).
    apply IH; [exact Hl|]. intros y Hy. apply Hx. right. exact Hy.
Qed.

Section DeepenProofs.
  Variable St : Type.
  Variable ask : St -> Z -> Z -> Z -> ab_result * St.
  Variable W : Z.
  Variable time_up : Z -> bool.
  Variable root_moves : list Z.
  Variable legal : Z -> bool.

  Notation playable := (filter legal root_moves).
  Notation aspire_ := (aspire St ask W).
  Notation deepen_ := (deepen St ask W time_up root_moves legal).
  Notation fallback_ := (fallback root_moves legal).

  Definition ok_move (m : Z) : Prop := m = 0 \/ In m playable.

  (* Hypotheses about a root call (stated where used; none is an axiom):
     head_playable     an answer strictly inside the window carries a line that is empty or starts
                       with a playable root move (alphaBeta inserts into the PV only moves that came
                       from the picker and passed the legality test, and only when alpha was raised);
     empty_only_final  from depth 1 on, an in-window answer with an empty line happens only on a
                       final root (some legal move raises alpha otherwise).  Commit d1717eb repaired a
                       case where the real alphaBeta violated this (poisoned table entries made it
                       return its initial maximum -Inf-1 with an empty line). *)
  Definition head_playable : Prop := forall o a b d s m rest n o',
    ask o a b d = (AbValue s (m :: rest) n, o') -> a < s < b -> In m playable.

  Variable root_final : Prop.
  Definition empty_only_final : Prop := forall o a b d s n o',
    1 <= d -> ask o a b d = (AbValue s [] n, o') -> a < s < b -> root_final.

  Lemma deepen_S fuel lim todo o d a b sc mv pd reps :
    deepen_ fuel lim (S todo) o d a b sc mv pd reps =
    if negb ((d <? MaxPlies) && (d <=? l_depth lim)) then mk sc mv pd reps Finished
    else match aspire_ fuel o a b 1 d with
         | AspFuel _ => mk sc mv pd reps Diverged
         | AspAbort _ n _ =>
             let reps' := RAbort d n :: reps in
             if mv =? 0 then mk sc fallback_ 0 reps' Aborted else mk sc mv pd reps' Aborted
         | AspOk _ s pv n o' =>
             let '(mv', pd') := adopt pv mv pd in
             let reps' := RLine d s n pv :: reps in
             if negb (mv' =? 0) && soft_abort time_up lim d n then mk s mv' pd' reps' SoftStopped
             else deepen_ fuel lim todo o' (d + 1) (wrap16 (s - wrap16 W)) (wrap16 (s + wrap16 W)) s mv' pd' reps'
         end.
  Proof. reflexivity. Qed.

  (* an accepted answer was given to a question whose window contains it strictly *)
  Lemma aspire_ok_inv : forall fuel o a b f d s pv n o',
    aspire_ fuel o a b f d = AspOk St s pv n o' ->
    exists o0 a' b', ask o0 a' b' d = (AbValue s pv n, o') /\ a' < s < b'.
  Proof.
    induction fuel as [|fuel IH]; intros o a b f d s pv n o' H; [discriminate|].
    cbn [aspire] in H. destruct (ask o a b d) as [r o1] eqn:E. destruct r as [n1|s1 pv1 n1]; [discriminate|].
    destruct (s1 <=? a) eqn:E1; [eapply IH; exact H|].
    destruct (b <=? s1) eqn:E2; [eapply IH; exact H|].
    inversion H; subst. exists o, a, b. split; [exact E|]. apply Z.leb_gt in E1. apply Z.leb_gt in E2. lia.
  Qed.

  Lemma fallback_ok : ok_move fallback_.
  Proof.
    unfold fallback, ok_move. destruct (filter legal root_moves) as [|m l] eqn:E; [left; reflexivity|].
    right. left. reflexivity.
  Qed.

  Lemma adopt_fst pv mv pd : fst (adopt pv mv pd) = match pv with [] => mv | m :: _ => m end.
  Proof. destruct pv as [|m [|p r]]; reflexivity. Qed.

  Lemma adopt_snd pv mv pd : snd (adopt pv mv pd) = match pv with [] => pd | [_] => 0 | _ :: p :: _ => p end.
  Proof. destruct pv as [|m [|p r]]; reflexivity. Qed.

  (* C06_move *)
  Theorem deepen_move_ok : head_playable -> forall todo fuel lim o d a b sc mv pd reps,
    ok_move mv -> ok_move (r_move (deepen_ fuel lim todo o d a b sc mv pd reps)).
  Proof.
    intros Hh. induction todo as [|todo IH]; intros fuel lim o d a b sc mv pd reps Hmv; [exact Hmv|].
    rewrite deepen_S. destruct (negb ((d <? MaxPlies) && (d <=? l_depth lim))); [exact Hmv|].
    destruct (aspire_ fuel o a b 1 d) as [s pv n o'|n o'|] eqn:Ea.
    - destruct (adopt pv mv pd) as [mv' pd'] eqn:Ead.
      assert (Hmv' : ok_move mv').
      { pose proof (adopt_fst pv mv pd) as Hf. rewrite Ead in Hf. cbn [fst] in Hf. rewrite Hf.
        destruct pv as [|m rest]; [exact Hmv|]. right.
        destruct (aspire_ok_inv _ _ _ _ _ _ _ _ _ _ Ea) as (o0 & a' & b' & Hask & Hwin).
        eapply Hh; eassumption. }
      destruct (negb (mv' =? 0) && soft_abort time_up lim d n); [exact Hmv'|]. apply IH. exact Hmv'.
    - cbn zeta. destruct (mv =? 0); [apply fallback_ok|exact Hmv].
    - exact Hmv.
  Qed.

  Theorem move_ok : head_playable -> forall fuel lim o,
    ok_move (r_move (iterative_deepen St ask W time_up root_moves legal fuel lim o)).
  Proof. intros Hh fuel lim o. unfold iterative_deepen. apply deepen_move_ok; [exact Hh|]. left. reflexivity. Qed.

  (* ---- null move only on a final root ---- *)
  Hypothesis legal_null : legal 0 = false.

  Lemma playable_nonzero m : In m playable -> m <> 0.
  Proof. intros H E. subst m. apply filter_In in H as [_ H]. rewrite legal_null in H. discriminate. Qed.

  Lemma fallback_zero : fallback_ = 0 -> playable = [].
  Proof.
    unfold fallback. destruct (filter legal root_moves) as [|m l] eqn:E; [reflexivity|].
    intros H. subst m. exfalso. apply (playable_nonzero 0); [|reflexivity]. rewrite E. left. reflexivity.
  Qed.

  Lemma deepen_nonzero : head_playable -> forall todo fuel lim o d a b sc mv pd reps,
    mv <> 0 -> r_move (deepen_ fuel lim todo o d a b sc mv pd reps) <> 0.
  Proof.
    intros Hh. induction todo as [|todo IH]; intros fuel lim o d a b sc mv pd reps Hmv; [exact Hmv|].
    rewrite deepen_S. destruct (negb ((d <? MaxPlies) && (d <=? l_depth lim))); [exact Hmv|].
    destruct (aspire_ fuel o a b 1 d) as [s pv n o'|n o'|] eqn:Ea.
    - destruct (adopt pv mv pd) as [mv' pd'] eqn:Ead.
      assert (Hmv' : mv' <> 0).
      { pose proof (adopt_fst pv mv pd) as Hf. rewrite Ead in Hf. cbn [fst] in Hf. rewrite Hf.
        destruct pv as [|m rest]; [exact Hmv|]. apply playable_nonzero.
        destruct (aspire_ok_inv _ _ _ _ _ _ _ _ _ _ Ea) as (o0 & a' & b' & Hask & Hwin).
        eapply Hh; eassumption. }
      destruct (negb (mv' =? 0) && soft_abort time_up lim d n); [exact Hmv'|]. apply IH. exact Hmv'.
    - cbn zeta. destruct (Z.eqb_spec mv 0); [contradiction|exact Hmv].
    - exact Hmv.
  Qed.

  (* one iteration at depth >= 1 that is actually entered *)
  Lemma deepen_null_from1 : head_playable -> empty_only_final ->
    forall todo fuel lim o d a b sc mv pd reps,
    1 <= d -> (d <? MaxPlies) && (d <=? l_depth lim) = true ->
    let res := deepen_ fuel lim (S todo) o d a b sc mv pd reps in
    r_status res <> Diverged -> r_move res = 0 -> playable = [] \/ root_final.
  Proof.
    intros Hh He todo fuel lim o d a b sc mv pd reps Hd Hc res Hst Hm0. subst res.
    destruct (Z.eq_dec mv 0) as [Hz|Hnz].
    2:{ exfalso. revert Hm0. apply deepen_nonzero; assumption. }
    subst mv. rewrite deepen_S in *. rewrite Hc in *. cbn [negb] in *.
    destruct (aspire_ fuel o a b 1 d) as [s pv n o'|n o'|] eqn:Ea.
    - destruct (aspire_ok_inv _ _ _ _ _ _ _ _ _ _ Ea) as (o0 & a' & b' & Hask & Hwin).
      destruct pv as [|m rest].
      + right. eapply He; eassumption.
      + exfalso. assert (Hm : m <> 0) by (apply playable_nonzero; eapply Hh; eassumption).
        destruct (adopt (m :: rest) 0 pd) as [mv' pd'] eqn:Ead.
        pose proof (adopt_fst (m :: rest) 0 pd) as Hf. rewrite Ead in Hf. cbn [fst] in Hf. subst mv'.
        destruct (negb (m =? 0) && soft_abort time_up lim d n); [cbn in Hm0; contradiction|].
        revert Hm0. apply deepen_nonzero; assumption.
    - cbn zeta in *. cbn in Hm0. left. apply fallback_zero. exact Hm0.
    - cbn in Hst. contradiction.
  Qed.

  (* C06_null_only_final *)
  Theorem null_only_final : head_playable -> empty_only_final -> forall fuel lim o,
    1 <= l_depth lim ->
    let res := iterative_deepen St ask W time_up root_moves legal fuel lim o in
    r_status res <> Diverged -> r_move res = 0 -> playable = [] \/ root_final.
  Proof.
    intros Hh He fuel lim o Hdep res Hst Hm0. subst res. unfold iterative_deepen in *.
    change (Z.to_nat MaxPlies) with (S (S 62)) in *.
    rewrite deepen_S in *.
    assert (Hc0 : (0 <? MaxPlies) && (0 <=? l_depth lim) = true).
    { apply andb_true_iff. split; [reflexivity|apply Z.leb_le; lia]. }
    assert (Hc1 : (0 + 1 <? MaxPlies) && (0 + 1 <=? l_depth lim) = true).
    { apply andb_true_iff. split; [reflexivity|apply Z.leb_le; lia]. }
    rewrite Hc0 in *. cbn [negb] in *.
    destruct (aspire_ fuel o (- ScoreInf - 1) (ScoreInf + 1) 1 0) as [s pv n o'|n o'|] eqn:Ea.
    - destruct (adopt pv 0 0) as [mv' pd'] eqn:Ead.
      destruct (negb (mv' =? 0) && soft_abort time_up lim 0 n) eqn:Es.
      + exfalso. apply andb_true_iff in Es as [Es _]. cbn in Hm0. subst mv'. discriminate.
      + exact (deepen_null_from1 Hh He 62 fuel lim o' (0 + 1) _ _ s mv' pd' _ ltac:(lia) Hc1 Hst Hm0).
    - cbn zeta in *. cbn in Hm0. left. apply fallback_zero. exact Hm0.
    - cbn in Hst. contradiction.
  Qed.

  (* ---- C07: the move returned is the head of the most recent non-empty reported line ---- *)
  Definition agrees (reps : list report) (mv pd : Z) : Prop :=
    match recent reps with
    | Some (m :: p :: _) => mv = m /\ pd = p /\ m <> 0
    | Some [m] => mv = m /\ pd = 0 /\ m <> 0
    | Some [] => False
    | None => mv = 0 /\ pd = 0
    end.

  Definition result_agrees (res : result) : Prop :=
    match last_line res with
    | Some (m :: p :: _) => r_move res = m /\ r_ponder res = p
    | Some [m] => r_move res = m /\ r_ponder res = 0
    | Some [] => False
    | None => r_ponder res = 0 /\ (r_move res = 0 \/ (r_status res = Aborted /\ r_move res = fallback_))
    end.

  Lemma mk_agrees sc mv pd reps st : agrees reps mv pd -> result_agrees (mk sc mv pd reps st).
  Proof.
    unfold agrees, result_agrees, last_line, mk; cbn [r_reports r_move r_ponder r_status].
    rewrite rev_involutive. destruct (recent reps) as [[|m [|p r]]|]; auto.
    - intros (-> & -> & _). auto.
    - intros (-> & -> & _). auto.
    - intros [-> ->]. auto.
  Qed.

  Theorem deepen_agrees : head_playable -> forall todo fuel lim o d a b sc mv pd reps,
    agrees reps mv pd -> result_agrees (deepen_ fuel lim todo o d a b sc mv pd reps).
  Proof.
    intros Hh. induction todo as [|todo IH]; intros fuel lim o d a b sc mv pd reps Hag; [apply mk_agrees; exact Hag|].
    rewrite deepen_S. destruct (negb ((d <? MaxPlies) && (d <=? l_depth lim))); [apply mk_agrees; exact Hag|].
    destruct (aspire_ fuel o a b 1 d) as [s pv n o'|n o'|] eqn:Ea.
    - destruct (adopt pv mv pd) as [mv' pd'] eqn:Ead.
      assert (Hag' : agrees (RLine d s n pv :: reps) mv' pd').
      { destruct (aspire_ok_inv _ _ _ _ _ _ _ _ _ _ Ea) as (o0 & a' & b' & Hask & Hwin).
        unfold agrees in *. cbn [recent].
        destruct pv as [|m [|p r]]; cbn in Ead; inversion Ead; subst; auto;
          (assert (Hm : mv' <> 0) by (apply playable_nonzero; eapply Hh; eassumption)); auto. }
      destruct (negb (mv' =? 0) && soft_abort time_up lim d n); [apply mk_agrees; exact Hag'|]. apply IH. exact Hag'.
    - cbn zeta. destruct (Z.eqb_spec mv 0) as [Hz|Hnz].
      + subst mv. unfold agrees in Hag. unfold result_agrees, last_line, mk; cbn [r_reports r_move r_ponder r_status].
        rewrite rev_involutive. cbn [recent].
        destruct (recent reps) as [[|m [|p r]]|] eqn:Er; try contradiction.
        * destruct Hag as (Hm & _ & Hne). congruence.
        * destruct Hag as (Hm & _ & Hne). congruence.
        * auto.
      + apply mk_agrees. unfold agrees in *. cbn [recent]. exact Hag.
    - apply mk_agrees. exact Hag.
  Qed.

  (* C07_best / C07_ponder *)
  Theorem best_is_last_line : head_playable -> forall fuel lim o,
    result_agrees (iterative_deepen St ask W time_up root_moves legal fuel lim o).
  Proof. intros Hh fuel lim o. unfold iterative_deepen. apply deepen_agrees; [exact Hh|]. cbn. auto. Qed.

  (* ---- C07_mono: the reported depths are 0, 1, 2, ... ---- *)
  Lemma mk_depths sc mv pd reps st :
    map report_depth (rev reps) = map Z.of_nat (seq 0 (length reps)) ->
    map report_depth (r_reports (mk sc mv pd reps st)) = map Z.of_nat (seq 0 (length (r_reports (mk sc mv pd reps st)))).
  Proof. unfold mk; cbn [r_reports]. rewrite rev_length. auto. Qed.

  Lemma depths_snoc reps x d :
    d = Z.of_nat (length reps) -> report_depth x = d ->
    map report_depth (rev reps) = map Z.of_nat (seq 0 (length reps)) ->
    map report_depth (rev (x :: reps)) = map Z.of_nat (seq 0 (length (x :: reps))).
  Proof.
    intros Hd Hx H. cbn [rev length]. rewrite map_app, H, seq_S, map_app. cbn [map Nat.add]. congruence.
  Qed.

  Theorem deepen_depths : forall todo fuel lim o d a b sc mv pd reps,
    d = Z.of_nat (length reps) ->
    map report_depth (rev reps) = map Z.of_nat (seq 0 (length reps)) ->
    let res := deepen_ fuel lim todo o d a b sc mv pd reps in
    map report_depth (r_reports res) = map Z.of_nat (seq 0 (length (r_reports res))).
  Proof.
    induction todo as [|todo IH]; intros fuel lim o d a b sc mv pd reps Hd Hr; [apply mk_depths; exact Hr|].
    cbn zeta. rewrite deepen_S. destruct (negb ((d <? MaxPlies) && (d <=? l_depth lim))); [apply mk_depths; exact Hr|].
    destruct (aspire_ fuel o a b 1 d) as [s pv n o'|n o'|] eqn:Ea.
    - destruct (adopt pv mv pd) as [mv' pd'] eqn:Ead.
      assert (Hr' : map report_depth (rev (RLine d s n pv :: reps)) = map Z.of_nat (seq 0 (length (RLine d s n pv :: reps))))
        by (apply (depths_snoc reps _ d); auto).
      destruct (negb (mv' =? 0) && soft_abort time_up lim d n); [apply mk_depths; exact Hr'|].
      apply IH; [cbn [length]; lia|exact Hr'].
    - cbn zeta.
      assert (Hr' : map report_depth (rev (RAbort d n :: reps)) = map Z.of_nat (seq 0 (length (RAbort d n :: reps))))
        by (apply (depths_snoc reps _ d); auto).
      destruct (mv =? 0); apply mk_depths; exact Hr'.
    - apply mk_depths; exact Hr.
  Qed.

  Theorem depths_increase : forall fuel lim o,
    increasing (map report_depth (r_reports (iterative_deepen St ask W time_up root_moves legal fuel lim o))).
  Proof.
    intros fuel lim o. unfold iterative_deepen.
    rewrite (deepen_depths (Z.to_nat MaxPlies) fuel lim o 0 (- ScoreInf - 1) (ScoreInf + 1) 0 0 0 []) by reflexivity.
    apply increasing_seq.
  Qed.

  (* ---- node counts never decrease, given that the engine's counter never does (Layer A) ---- *)
  Variable cnt : St -> Z.
  Definition counter_monotone : Prop := forall o a b d r o',
    ask o a b d = (r, o') -> cnt o <= nodes_of r /\ cnt o' = nodes_of r.

  Lemma aspire_cnt : counter_monotone -> forall fuel o a b f d,
    match aspire_ fuel o a b f d with
    | AspOk _ s pv n o' => cnt o <= n /\ cnt o' = n
    | AspAbort _ n o' => cnt o <= n /\ cnt o' = n
    | AspFuel _ => True
    end.
  Proof.
    intros Hc. induction fuel as [|fuel IH]; intros o a b f d; [exact I|].
    cbn [aspire]. destruct (ask o a b d) as [r o1] eqn:E. destruct (Hc _ _ _ _ _ _ E) as [H1 H2].
    destruct r as [n1|s1 pv1 n1]; cbn [nodes_of] in *; [auto|].
    destruct (s1 <=? a).
    - match goal with |- context [aspire_ fuel o1 ?a' ?b' ?f' d] => specialize (IH o1 a' b' f' d);
        destruct (aspire_ fuel o1 a' b' f' d) end; try exact I; lia.
    - destruct (b <=? s1); [|auto].
      match goal with |- context [aspire_ fuel o1 ?a' ?b' ?f' d] => specialize (IH o1 a' b' f' d);
        destruct (aspire_ fuel o1 a' b' f' d) end; try exact I; lia.
  Qed.

  Lemma mk_nodes sc mv pd reps st : nondecreasing (map report_nodes (rev reps)) ->
    nondecreasing (map report_nodes (r_reports (mk sc mv pd reps st))).
  Proof. auto. Qed.

  Theorem deepen_nodes : counter_monotone -> forall todo fuel lim o d a b sc mv pd reps,
    nondecreasing (map report_nodes (rev reps)) -> (forall x, In x reps -> report_nodes x <= cnt o) ->
    nondecreasing (map report_nodes (r_reports (deepen_ fuel lim todo o d a b sc mv pd reps))).
  Proof.
    intros Hc. induction todo as [|todo IH]; intros fuel lim o d a b sc mv pd reps Hn Hb; [apply mk_nodes; exact Hn|].
    rewrite deepen_S. destruct (negb ((d <? MaxPlies) && (d <=? l_depth lim))); [apply mk_nodes; exact Hn|].
    pose proof (aspire_cnt Hc fuel o a b 1 d) as Hac.
    assert (Hsnoc : forall x, cnt o <= report_nodes x -> nondecreasing (map report_nodes (rev (x :: reps)))).
    { intros x Hx. cbn [rev]. rewrite map_app. apply nondecreasing_snoc; [exact Hn|].
      intros y Hy. apply in_map_iff in Hy as (z & <- & Hz). apply in_rev in Hz. specialize (Hb z Hz). cbn [map]. lia. }
    destruct (aspire_ fuel o a b 1 d) as [s pv n o'|n o'|] eqn:Ea.
    - destruct Hac as [H1 H2]. destruct (adopt pv mv pd) as [mv' pd'] eqn:Ead.
      destruct (negb (mv' =? 0) && soft_abort time_up lim d n); [apply mk_nodes; apply Hsnoc; cbn; lia|].
      apply IH; [apply Hsnoc; cbn; lia|].
      intros x [<-|Hx]; [cbn; lia|]. specialize (Hb x Hx). lia.
    - destruct Hac as [H1 H2]. cbn zeta. destruct (mv =? 0); apply mk_nodes; apply Hsnoc; cbn; lia.
    - apply mk_nodes; exact Hn.
  Qed.

  Theorem nodes_never_decrease : counter_monotone -> forall fuel lim o,
    nondecreasing (map report_nodes (r_reports (iterative_deepen St ask W time_up root_moves legal fuel lim o))).
  Proof.
    intros Hc fuel lim o. unfold iterative_deepen. apply deepen_nodes; [exact Hc|exact I|]. intros x [].
  Qed.
End DeepenProofs.

(* ------------------------------------------------------------------------------------------- *)
(* C06_final_score: on a root where every root call answers (s0, empty line) - which is what
   alphaBeta does on a final root: 0 for the draws and stalemate, -Inf for checkmate - a search that is
   not aborted returns (s0, null, null). *)
Section FinalRoot.
  Variable St : Type.
  Variable ask : St -> Z -> Z -> Z -> ab_result * St.
  Variable W : Z.
  Variable time_up : Z -> bool.
  Variable root_moves : list Z.
  Variable legal : Z -> bool.
  Variable s0 : Z.
  Hypothesis s0_final : s0 = 0 \/ s0 = - ScoreInf.
  Hypothesis W_range : 0 < W <= 1000.
  Hypothesis constant_answer : forall o a b d, exists n o', ask o a b d = (AbValue s0 [] n, o').

  Lemma final_deepen : forall todo fuel lim o d a b sc reps, a < s0 < b ->
    let res := deepen St ask W time_up root_moves legal (S fuel) lim todo o d a b sc 0 0 reps in
    r_move res = 0 /\ r_ponder res = 0 /\ r_status res = Finished /\ (r_score res = s0 \/ r_score res = sc).
  Proof.
    induction todo as [|todo IH]; intros fuel lim o d a b sc reps Hwin; cbn zeta; [cbn; auto|].
    rewrite deepen_S. destruct (negb ((d <? MaxPlies) && (d <=? l_depth lim))); [cbn; auto|].
    cbn [aspire]. destruct (constant_answer o a b d) as (n & o' & E). rewrite E.
    destruct (Z.leb_spec s0 a); [lia|]. destruct (Z.leb_spec b s0); [lia|].
    cbn [adopt Z.eqb negb andb].
    assert (Hw : wrap16 W = W) by (apply wrap16_id; lia).
    assert (Hwin' : wrap16 (s0 - wrap16 W) < s0 < wrap16 (s0 + wrap16 W)).
    { rewrite Hw. unfold ScoreInf in *. rewrite !wrap16_id by lia. lia. }
    destruct (IH fuel lim o' (d + 1) _ _ s0 (RLine d s0 n [] :: reps) Hwin') as (H1 & H2 & H3 & H4).
    repeat split; try assumption. destruct H4; auto.
  Qed.

  Theorem final_score : forall fuel lim o, 0 <= l_depth lim ->
    let res := iterative_deepen St ask W time_up root_moves legal (S fuel) lim o in
    r_move res = 0 /\ r_ponder res = 0 /\ r_status res = Finished /\ r_score res = s0.
  Proof.
    intros fuel lim o Hd. cbn zeta. unfold iterative_deepen.
    change (Z.to_nat MaxPlies) with (S 63). rewrite deepen_S.
    assert (Hc0 : (0 <? MaxPlies) && (0 <=? l_depth lim) = true).
    { apply andb_true_iff. split; [reflexivity|apply Z.leb_le; lia]. }
    rewrite Hc0. cbn [negb aspire].
    destruct (constant_answer o (- ScoreInf - 1) (ScoreInf + 1) 0) as (n & o' & E). rewrite E.
    destruct (Z.leb_spec s0 (- ScoreInf - 1)); [unfold ScoreInf in *; lia|].
    destruct (Z.leb_spec (ScoreInf + 1) s0); [unfold ScoreInf in *; lia|].
    cbn [adopt Z.eqb negb andb].
    assert (Hw : wrap16 W = W) by (apply wrap16_id; lia).
    assert (Hwin' : wrap16 (s0 - wrap16 W) < s0 < wrap16 (s0 + wrap16 W)).
    { rewrite Hw. unfold ScoreInf in *. rewrite !wrap16_id by lia. lia. }
    destruct (final_deepen 63 fuel lim o' (0 + 1) _ _ s0 [RLine 0 s0 n []] Hwin') as (H1 & H2 & H3 & H4).
    repeat split; try assumption. destruct H4; auto.
  Qed.
End FinalRoot.

(* ------------------------------------------------------------------------------------------- *)
(* C08: soft limit N reproduced by hard budget N, on the decision layer *)
Section SoftHard.
  Variable St : Type.
  Variable ask : St -> Z -> Z -> Z -> ab_result * St.
  Variable W : Z.
  Variable root_moves : list Z.
  Variable legal : Z -> bool.
  Variable cnt : St -> Z.

  Definition no_time : Z -> bool := fun _ => false.
  Definition hard_lim (lim : limits) : limits := {| l_depth := l_depth lim; l_soft_nodes := 0 |}.

  (* the engine's counter: what a root call reports is the counter afterwards, and every root call
     counts at least one node (incrementNodes at the entry of alphaBeta / quiescence) *)
  Definition counter_strict : Prop := forall o a b d r o',
    ask o a b d = (r, o') -> cnt o < nodes_of r /\ cnt o' = nodes_of r.

  Lemma strict_monotone : counter_strict -> counter_monotone St ask cnt.
  Proof. intros H o a b d r o' E. destruct (H _ _ _ _ _ _ E). split; [lia|assumption]. Qed.

  Lemma with_budget_over N o a b d r o2 : ask o a b d = (r, o2) -> N < nodes_of r ->
    exists o3, with_budget ask N o a b d = (AbAborted N, o3).
  Proof.
    intros E H. unfold with_budget. rewrite E. destruct r as [n1|s1 pv1 n1]; cbn [nodes_of] in H.
    - exists o2. rewrite Z.min_r by lia. reflexivity.
    - exists o2. destruct (Z.leb_spec n1 N); [lia|reflexivity].
  Qed.

  Lemma aspire_ok_cnt : counter_strict -> forall fuel o a b f d s pv n o',
    aspire St ask W fuel o a b f d = AspOk St s pv n o' -> cnt o <= n /\ cnt o' = n.
  Proof.
    intros Hs fuel o a b f d s pv n o' H.
    pose proof (aspire_cnt St ask W cnt (strict_monotone Hs) fuel o a b f d) as Hc. rewrite H in Hc. exact Hc.
  Qed.

  Lemma aspire_budget : counter_strict -> forall N fuel o a b f d s pv n o',
    aspire St ask W fuel o a b f d = AspOk St s pv n o' -> n <= N ->
    aspire St (with_budget ask N) W fuel o a b f d = AspOk St s pv n o'.
  Proof.
    intros Hs N. induction fuel as [|fuel IH]; intros o a b f d s pv n o' H Hn; [discriminate|].
    cbn [aspire] in *. unfold with_budget at 1. destruct (ask o a b d) as [r o1] eqn:E.
    destruct r as [n1|s1 pv1 n1]; [discriminate|].
    assert (Hn1 : n1 <= N).
    { destruct (Hs _ _ _ _ _ _ E) as [_ Hc1]. cbn [nodes_of] in Hc1.
      destruct (s1 <=? a).
      - destruct (aspire_ok_cnt Hs _ _ _ _ _ _ _ _ _ _ H). lia.
      - destruct (b <=? s1).
        + destruct (aspire_ok_cnt Hs _ _ _ _ _ _ _ _ _ _ H). lia.
        + inversion H; subst. lia. }
    destruct (Z.leb_spec n1 N); [|lia].
    destruct (s1 <=? a); [apply IH; assumption|]. destruct (b <=? s1); [apply IH; assumption|]. exact H.
  Qed.

  Lemma soft_hard_gen : counter_strict -> forall N todo fuel lim o d a b sc mv pd reps,
    r_status (deepen St ask W no_time root_moves legal fuel lim todo o d a b sc mv pd reps) = SoftStopped ->
    last_nodes (deepen St ask W no_time root_moves legal fuel lim todo o d a b sc mv pd reps) = N ->
    cnt o <= N /\
    exists r2, r2 = deepen St (with_budget ask N) W no_time root_moves legal fuel (hard_lim lim) todo o d a b sc mv pd reps /\
      let r1 := deepen St ask W no_time root_moves legal fuel lim todo o d a b sc mv pd reps in
      r_score r2 = r_score r1 /\ r_move r2 = r_move r1 /\ r_ponder r2 = r_ponder r1 /\
      ((r_status r2 = Aborted /\ exists dl, r_reports r2 = r_reports r1 ++ [RAbort dl N]) \/
       (r_status r2 = Finished /\ r_reports r2 = r_reports r1)).
  Proof.
    intros Hs N. induction todo as [|todo IH]; intros fuel lim o d a b sc mv pd reps Hst HN; [discriminate|].
    rewrite deepen_S in Hst, HN. rewrite !deepen_S. cbn [hard_lim l_depth].
    destruct (negb ((d <? MaxPlies) && (d <=? l_depth lim))); [discriminate|].
    pose proof (aspire_cnt St ask W cnt (strict_monotone Hs) fuel o a b 1 d) as Hac.
    destruct (aspire St ask W fuel o a b 1 d) as [s pv n o'|n o'|] eqn:Ea.
    2:{ cbn zeta in Hst. destruct (mv =? 0); discriminate. }
    2:{ discriminate. }
    destruct Hac as [Hc1 Hc2].
    destruct (adopt pv mv pd) as [mv' pd'] eqn:Ead.
    assert (Hsoft0 : soft_abort no_time (hard_lim lim) d n = false) by reflexivity.
    destruct (negb (mv' =? 0) && soft_abort no_time lim d n) eqn:Es.
    - (* the soft stop happens here: n = N *)
      assert (Hn : n = N).
      { unfold last_nodes, mk in HN; cbn [r_reports] in HN. rewrite rev_involutive in HN. exact HN. }
      split; [lia|]. eexists. split; [reflexivity|].
      rewrite (aspire_budget Hs N fuel o a b 1 d s pv n o' Ea) by lia.
      rewrite Ead, Hsoft0, andb_false_r.
      apply andb_true_iff in Es as [Emv _]. apply negb_true_iff in Emv.
      destruct todo as [|todo]; [cbn; auto 10|].
      rewrite deepen_S. cbn [hard_lim l_depth].
      destruct (negb ((d + 1 <? MaxPlies) && (d + 1 <=? l_depth lim))); [cbn; auto 10|].
      destruct fuel as [|fuel]; [discriminate|].
      cbn [aspire].
      destruct (ask o' (wrap16 (s - wrap16 W)) (wrap16 (s + wrap16 W)) (d + 1)) as [r o2] eqn:E2.
      destruct (Hs _ _ _ _ _ _ E2) as [Hlt _].
      destruct (with_budget_over N _ _ _ _ _ _ E2 ltac:(lia)) as (o3 & Ewb). rewrite Ewb.
      cbn zeta. rewrite Emv.
      unfold mk; cbn [r_score r_move r_ponder r_status r_reports rev].
      repeat split; auto. left. split; [reflexivity|]. exists (d + 1). reflexivity.
    - (* not yet: both runs go on from the same state *)
      destruct (IH fuel lim o' (d + 1) _ _ s mv' pd' _ Hst HN) as (HcN & r2 & Hr2 & Hres).
      split; [lia|]. exists r2. split; [|exact Hres].
      rewrite (aspire_budget Hs N fuel o a b 1 d s pv n o' Ea) by lia.
      rewrite Ead, Hsoft0, andb_false_r. exact Hr2.
  Qed.

  (* C08_soft_hard on the decision layer *)
  Theorem soft_hard : counter_strict -> forall fuel lim o,
    let r1 := iterative_deepen St ask W no_time root_moves legal fuel lim o in
    r_status r1 = SoftStopped ->
    let N := last_nodes r1 in
    let r2 := iterative_deepen St (with_budget ask N) W no_time root_moves legal fuel (hard_lim lim) o in
    r_score r2 = r_score r1 /\ r_move r2 = r_move r1 /\ r_ponder r2 = r_ponder r1 /\
    ((r_status r2 = Aborted /\ exists dl, r_reports r2 = r_reports r1 ++ [RAbort dl N]) \/
     (r_status r2 = Finished /\ r_reports r2 = r_reports r1)).
  Proof.
    intros Hs fuel lim o r1 Hst N r2. subst r1 r2 N. unfold iterative_deepen in *.
    destruct (soft_hard_gen Hs _ _ _ _ _ _ _ _ _ _ _ _ Hst eq_refl) as (_ & r2 & -> & H). exact H.
  Qed.
End SoftHard.

(* search.go:162-170: the counter never passes the budget, and the abort flag is raised exactly when
   a node is refused *)
Lemma increment_nodes_budget : forall budget nodes aborted, 0 <= budget -> nodes <= budget ->
  let '(n', ab') := increment_nodes budget nodes aborted in
  n' <= budget /\ nodes <= n' <= nodes + 1 /\ (ab' = aborted \/ (ab' = true /\ n' = nodes /\ nodes = budget)).
Proof.
  intros budget nodes aborted Hb Hn. unfold increment_nodes.
  destruct (Z.eqb_spec budget (-1)); [lia|]. cbn [orb].
  destruct (Z.ltb_spec nodes budget); [split; [lia|split; [lia|left; reflexivity]]|].
  split; [lia|]. split; [lia|]. right. repeat split; lia.
Qed.

Lemma increment_nodes_unlimited : forall nodes aborted, increment_nodes (-1) nodes aborted = (nodes + 1, aborted).
Proof. reflexivity. Qed.
