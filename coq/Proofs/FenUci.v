(* C11: the UCI position command accepts the printed FEN of every board with valid material. *)
From Coq Require Import NArith ZArith List Bool Lia.
From Chess3 Require Import Base.Bits Base.Word Model.Types Model.BoardDef Model.Board Model.Fen
  Spec.FenSpec Proofs.FenSafe Proofs.FenGate Proofs.FenRound.
Import ListNotations.

Lemma gate_reset_hash z b : invalid_piece_count (reset_hash z b) = invalid_piece_count b.
Proof. destruct b; reflexivity. Qed.

Theorem uci_accepts_valid z d b rest :
  wf b -> valid_material b = true -> (0 <= fifty b <= 100)%Z -> (1 <= full b < 9223372036854775808)%Z ->
  (length rest >= 6)%nat -> join_sp (firstn 6 rest) = print_fen b ->
  handle_position z d (tok_fen :: rest) = Ok (reset_hash z b, 0%N).
Proof.
  intros W M H1 H2 Hl Hj. apply handle_position_install; [exact Hl| |].
  - rewrite Hj. apply from_fen_print; assumption.
  - rewrite gate_reset_hash. apply gate_accepts_valid_material, M.
Qed.
