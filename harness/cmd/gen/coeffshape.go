package main

import (
	"fmt"
	"reflect"
	"strings"
	"unsafe"

	"github.com/paulsonkoly/chess-3/eval"
	"github.com/paulsonkoly/chess-3/tools/tuner/tuning"
)

// Gen/CoeffShape.v (property C19): the shape of the struct the tuner flattens.
//
// The tuner's vector code (tools/tuner/tuning/vector.go) walks eval.CoeffSet[float64] with reflect.
// This generator walks the same type - written independently of vector.go: it looks at TYPES only
// (no values), and prints every field as a name with a shape tree
//
//	SLeaf            a float64
//	SArr n s         [n]<s>
//
// plus the tuner's default target list and the constants of the finite-difference loop.  A field
// that is neither a float64 nor a (nested) array of float64 makes the generated file fail to
// compile (fail closed: vector.go would panic on it).
func init() {
	generators = append(generators, func() {
		f := newFile("CoeffShape.v", "From Coq Require Import ZArith List String.\nImport ListNotations.\nLocal Open Scope string_scope.")
		f.p("Inductive shape : Type := SLeaf | SArr (n : nat) (s : shape).\n\n")

		var sh func(t reflect.Type) (string, bool)
		sh = func(t reflect.Type) (string, bool) {
			switch t.Kind() {
			case reflect.Float64:
				return "SLeaf", true
			case reflect.Array:
				inner, ok := sh(t.Elem())
				return fmt.Sprintf("(SArr %d %s)", t.Len(), inner), ok
			default:
				return "SLeaf", false
			}
		}

		t := reflect.TypeOf(eval.CoeffSet[float64]{})
		var rows []string
		for i := 0; i < t.NumField(); i++ {
			s, ok := sh(t.Field(i).Type)
			if !ok {
				f.p("(* field %s has the unsupported type %s *)\nDefinition unsupported_coefficient_field : False := I.\n",
					t.Field(i).Name, t.Field(i).Type)
			}
			rows = append(rows, fmt.Sprintf("  (\"%s\", %s)", t.Field(i).Name, s))
		}
		f.p("(* eval.CoeffSet[float64], fields in declaration order *)\n")
		f.p("Definition coeff_fields : list (string * shape) := [\n%s\n].\n\n", strings.Join(rows, ";\n"))

		var ts []string
		for _, n := range tuning.DefaultTargets {
			ts = append(ts, fmt.Sprintf("\"%s\"", n))
		}
		f.p("(* tuning.DefaultTargets *)\n")
		f.p("Definition default_targets : list string := [%s].\n\n", strings.Join(ts, "; "))

		// the engine's instance must have the same field list (EngineCoeffs returns the zero struct otherwise)
		te := reflect.TypeOf(eval.Coefficients)
		var en []string
		for i := 0; i < te.NumField(); i++ {
			en = append(en, fmt.Sprintf("\"%s\"", te.Field(i).Name))
		}
		f.p("(* field names of eval.Coefficients (the int16 instance) *)\n")
		f.p("Definition engine_field_names : list string := [%s].\n\n", strings.Join(en, "; "))

		// the memory image of eval.Coefficients: a struct of (nested) arrays of int16 is laid out as
		// consecutive int16 in declaration order (no reflect, no field walking)
		mem := unsafe.Slice((*int16)(unsafe.Pointer(&eval.Coefficients)), int(unsafe.Sizeof(eval.Coefficients)/2))
		ms := make([]string, len(mem))
		for i, x := range mem {
			if x < 0 {
				ms[i] = fmt.Sprintf("(%d)", x)
			} else {
				ms[i] = fmt.Sprint(x)
			}
		}
		f.p("(* eval.Coefficients as laid out in memory (declaration order, row major) *)\n")
		f.p("Definition engine_flat : list Z := [%s]%%Z.\n", strings.Join(ms, "; "))
	})
}
