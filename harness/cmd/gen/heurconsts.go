package main

import (
	"github.com/paulsonkoly/chess-3/chess"
	"github.com/paulsonkoly/chess-3/heur"
	"github.com/paulsonkoly/chess-3/move"
	"github.com/paulsonkoly/chess-3/params"
)

// Constants of the move-ordering layout (heur/heur.go), the history update (heur/hist.go,
// cont.go, capthist.go, params), the piece codes and the move store size, for property C16.
func init() {
	generators = append(generators, func() {
		f := newFile("HeurConsts.v", "From Coq Require Import ZArith List.\nImport ListNotations.\nOpen Scope Z_scope.")
		f.p("(* heur/heur.go: move weight layout *)\n")
		f.p("Definition HashMove : Z := %d.\n", int64(heur.HashMove))
		f.p("Definition Captures : Z := %d.\n", int64(heur.Captures))
		f.p("Definition CaptureRange : Z := %d.\n", int64(heur.CaptureRange))
		f.p("Definition MaxHistory : Z := %d.\n", int64(heur.MaxHistory))
		f.p("Definition PieceValues : list Z := [")
		for i, v := range heur.PieceValues {
			if i > 0 {
				f.p("; ")
			}
			f.p("%d", int64(v))
		}
		f.p("].\n")
		f.p("(* params: history bonus formula of MoveRanker.FailHigh *)\n")
		f.p("Definition HistBonusMul : Z := %d.\n", int64(params.HistBonusMul))
		f.p("Definition HistBonusLin : Z := %d.\n", int64(params.HistBonusLin))
		f.p("Definition HistAdjRange : Z := %d.\n", int64(params.HistAdjRange))
		f.p("Definition HistAdjReduction : Z := %d.\n", int64(params.HistAdjReduction))
		f.p("(* chess: piece codes, table dimensions, score constants *)\n")
		f.p("Definition NoPiece : Z := %d.\n", int64(chess.NoPiece))
		f.p("Definition Pawn : Z := %d.\n", int64(chess.Pawn))
		f.p("Definition Knight : Z := %d.\n", int64(chess.Knight))
		f.p("Definition Bishop : Z := %d.\n", int64(chess.Bishop))
		f.p("Definition Rook : Z := %d.\n", int64(chess.Rook))
		f.p("Definition Queen : Z := %d.\n", int64(chess.Queen))
		f.p("Definition King : Z := %d.\n", int64(chess.King))
		f.p("Definition Colors : Z := %d.\n", int64(chess.Colors))
		f.p("Definition Squares : Z := %d.\n", int64(chess.Squares))
		f.p("Definition MaxPlies : Z := %d.\n", int64(chess.MaxPlies))
		f.p("Definition ScoreInf : Z := %d.\n", int64(chess.Inf))
		f.p("(* move/store.go *)\n")
		f.p("Definition StoreSize : Z := %d.\n", int64(move.StoreSize))
		// field layout of move.Move, recovered from the constructors
		f.p("(* move/move.go: field layout of the 16 bit move encoding (shift, width) *)\n")
		shiftWidth := func(full uint16) (int, int) {
			s, w := 0, 0
			for full != 0 && full&1 == 0 {
				full >>= 1
				s++
			}
			for full&1 == 1 {
				full >>= 1
				w++
			}
			return s, w
		}
		ts, tw := shiftWidth(uint16(move.To(chess.Square(63))))
		fs, fw := shiftWidth(uint16(move.From(chess.Square(63))))
		ps, pw := shiftWidth(uint16(move.Promo(chess.Piece(7))))
		f.p("Definition MoveToShift : Z := %d.\nDefinition MoveToBits : Z := %d.\n", ts, tw)
		f.p("Definition MoveFromShift : Z := %d.\nDefinition MoveFromBits : Z := %d.\n", fs, fw)
		f.p("Definition MovePromoShift : Z := %d.\nDefinition MovePromoBits : Z := %d.\n", ps, pw)
	})
}
