(* C05 base: what the representation invariant [Rep] says per square, and the bridge between an
   engine board and its abstraction [abs b] (Spec/Chess.v): who stands where, emptiness, ownership,
   the occupancy word. *)
From Coq Require Import NArith ZArith List Bool Lia.
From Chess3 Require Import Base.Bits Model.Types Spec.Geometry Model.Att Model.BoardDef Model.Board
  Model.Movegen Spec.Chess Spec.Rep Proofs.GenBase.
Import ListNotations.
Open Scope N_scope.

(* ------------------------------------------------------------------------------------------ *)
(* single-bit tests *)

Lemma band_bit_eq0 x s : (band x (bit s) =? 0) = negb (N.testbit x s).
Proof.
  destruct (N.testbit x s) eqn:E; cbn [negb].
  - apply eqb0_false_iff. exists s. rewrite band_tb, E, bit_testbit, N.eqb_refl. reflexivity.
  - apply eqb0_true_iff. intros i. rewrite band_tb, bit_testbit.
    destruct (N.eqb_spec s i) as [<-|Hn]; [rewrite E; reflexivity|apply andb_false_r].
Qed.

Lemma band_bit_eq0' x s : (band (bit s) x =? 0) = negb (N.testbit x s).
Proof. unfold band. rewrite N.land_comm. apply band_bit_eq0. Qed.

Lemma band_bor_eq0 x a b : (band x (bor a b) =? 0) = (band x a =? 0) && (band x b =? 0).
Proof.
  unfold band, bor. rewrite N.land_lor_distr_r.
  destruct (N.eqb_spec (N.land x a) 0) as [Ha|Ha], (N.eqb_spec (N.land x b) 0) as [Hb|Hb]; cbn [andb].
  - rewrite Ha, Hb. reflexivity.
  - apply N.eqb_neq. intros H. apply N.lor_eq_0_iff in H. tauto.
  - apply N.eqb_neq. intros H. apply N.lor_eq_0_iff in H. tauto.
  - apply N.eqb_neq. intros H. apply N.lor_eq_0_iff in H. tauto.
Qed.

Lemma forallb_nth {A} (P : A -> bool) l n d : forallb P l = true -> P d = true -> P (nth n l d) = true.
Proof.
  intros H Hd. destruct (Nat.lt_ge_cases n (length l)) as [L|L].
  - rewrite forallb_forall in H. apply H. apply nth_In. exact L.
  - rewrite nth_overflow by exact L. exact Hd.
Qed.

(* ------------------------------------------------------------------------------------------ *)
(* projections of Rep *)

Section RepFacts.
  Variable b : board.
  Hypothesis HR : Rep b.

  Lemma rep_split :
    length (sq2p b) = 64%nat /\ length (pcs b) = 7%nat /\ length (cols b) = 2%nat /\
    pieces b 0 = 0 /\ forallb (fun x => x <? two64) (pcs b) = true /\
    forallb (fun x => x <? two64) (cols b) = true /\ forallb (sq_ok b) squares64 = true /\
    ep b < 64 /\ castles b < 16.
  Proof.
    unfold Rep, rep_ok in HR. rewrite !andb_true_iff in HR.
    destruct HR as [[[[[[[[[[[A1 A2] A3] A4] A5] A6] A7] A8] A9] _] _] _].
    apply Nat.eqb_eq in A1, A2, A3. apply N.eqb_eq in A4. apply N.ltb_lt in A8, A9.
    repeat split; assumption.
  Qed.

  Lemma rep_colors_w64 c : w64p (colors b c).
  Proof.
    destruct rep_split as (_ & _ & _ & _ & _ & H & _).
    unfold colors, nthN, w64p. apply N.ltb_lt.
    apply (forallb_nth (fun x => x <? two64)); [exact H|reflexivity].
  Qed.

  Lemma rep_pieces_w64 p : w64p (pieces b p).
  Proof.
    destruct rep_split as (_ & _ & _ & _ & H & _).
    unfold pieces, nthN, w64p. apply N.ltb_lt.
    apply (forallb_nth (fun x => x <? two64)); [exact H|reflexivity].
  Qed.

  Lemma rep_occ_w64 : w64p (occupancy b).
  Proof.
    unfold occupancy, w64p. apply testbit_lt_two64. intros i Hi. rewrite bor_tb.
    rewrite (w64p_high _ _ (rep_colors_w64 White) Hi), (w64p_high _ _ (rep_colors_w64 Black) Hi). reflexivity.
  Qed.

  Lemma rep_ep : ep b < 64.
  Proof. destruct rep_split as (_ & _ & _ & _ & _ & _ & _ & H & _). exact H. Qed.

  Lemma rep_sq s : s < 64 -> sq_ok b s = true.
  Proof. destruct rep_split as (_ & _ & _ & _ & _ & _ & H & _). apply all64. exact H. Qed.

  (* the per-square content of sq_ok *)
  Lemma rep_piece_le s : s < 64 -> piece_at b s <= 6.
  Proof.
    intros Hs. pose proof (rep_sq s Hs) as H. unfold sq_ok in H.
    repeat match type of H with (_ && _) = true => apply andb_prop in H; destruct H as [H ?] end.
    apply N.leb_le. exact H.
  Qed.

  Lemma rep_pieces_tb s p : s < 64 -> 1 <= p <= 6 -> N.testbit (pieces b p) s = (piece_at b s =? p).
  Proof.
    intros Hs Hp. pose proof (rep_sq s Hs) as H. unfold sq_ok in H.
    repeat match type of H with (_ && _) = true => apply andb_prop in H; destruct H as [H ?] end.
    match goal with F : forallb _ _ = true |- _ => rewrite forallb_forall in F; apply eqb_prop; apply F end.
    cbn [In]. assert (p = 1 \/ p = 2 \/ p = 3 \/ p = 4 \/ p = 5 \/ p = 6) by lia. intuition.
  Qed.

  Lemma rep_occ_tb s : s < 64 -> N.testbit (occupancy b) s = negb (piece_at b s =? 0).
  Proof.
    intros Hs. pose proof (rep_sq s Hs) as H. unfold sq_ok in H.
    repeat match type of H with (_ && _) = true => apply andb_prop in H; destruct H as [H ?] end.
    unfold occupancy. rewrite bor_tb. apply eqb_prop. assumption.
  Qed.

  Lemma rep_colors_disj s : s < 64 -> N.testbit (colors b White) s && N.testbit (colors b Black) s = false.
  Proof.
    intros Hs. pose proof (rep_sq s Hs) as H. unfold sq_ok in H.
    repeat match type of H with (_ && _) = true => apply andb_prop in H; destruct H as [H ?] end.
    apply negb_true_iff. assumption.
  Qed.

  Lemma colors_tb_lt c s : N.testbit (colors b c) s = true -> s < 64.
  Proof. apply tb_lt64. apply rep_colors_w64. Qed.

  Lemma colors_flip_tb c s : s < 64 ->
    N.testbit (colors b (flip c)) s = negb (piece_at b s =? 0) && negb (N.testbit (colors b c) s).
  Proof.
    intros Hs. pose proof (rep_occ_tb s Hs) as Ho. pose proof (rep_colors_disj s Hs) as Hd.
    unfold occupancy in Ho. rewrite bor_tb in Ho. rewrite <- Ho.
    destruct c; cbn [flip]; destruct (N.testbit (colors b White) s), (N.testbit (colors b Black) s);
      cbn in *; congruence.
  Qed.

  Lemma own_piece_nonzero c s : N.testbit (colors b c) s = true -> piece_at b s <> 0.
  Proof.
    intros H. pose proof (colors_tb_lt c s H) as Hs. pose proof (rep_occ_tb s Hs) as Ho.
    unfold occupancy in Ho. rewrite bor_tb in Ho. intros E. rewrite E in Ho. cbn in Ho.
    destruct c; rewrite H in Ho; [|rewrite orb_true_r in Ho]; discriminate.
  Qed.

  (* ---------------------------------------------------------------------------------------- *)
  (* the abstraction *)

  Lemma who_abs s : s < 64 ->
    who (abs b) s = if piece_at b s =? 0 then None
                    else Some (if N.testbit (colors b White) s then White else Black, piece_at b s).
  Proof. intros Hs. unfold who, abs. cbn [at_]. apply nth_squares64. exact Hs. Qed.

  Lemma who_abs_high s : 64 <= s -> who (abs b) s = None.
  Proof. intros Hs. unfold who, abs. cbn [at_]. apply nth_squares64_high. exact Hs. Qed.

  Lemma turn_abs : turn (abs b) = stm b.
  Proof. reflexivity. Qed.

  Lemma empty_abs s : s < 64 -> empty (abs b) s = negb (N.testbit (occupancy b) s).
  Proof.
    intros Hs. unfold empty. rewrite (who_abs s Hs), (rep_occ_tb s Hs).
    destruct (piece_at b s =? 0); reflexivity.
  Qed.

  Lemma owned_by_abs s c : s < 64 -> owned_by (abs b) s c = N.testbit (colors b c) s.
  Proof.
    intros Hs. unfold owned_by. rewrite (who_abs s Hs).
    pose proof (rep_occ_tb s Hs) as Ho. pose proof (rep_colors_disj s Hs) as Hd.
    unfold occupancy in Ho. rewrite bor_tb in Ho.
    destruct (piece_at b s =? 0); cbn [negb] in Ho.
    - apply orb_false_iff in Ho. destruct Ho as [H1 H2]. destruct c; [rewrite H1|rewrite H2]; reflexivity.
    - destruct c; destruct (N.testbit (colors b White) s), (N.testbit (colors b Black) s); cbn in *; congruence.
  Qed.

  Lemma holds_abs s c k : s < 64 -> k <> 0 ->
    holds (abs b) s c k = N.testbit (colors b c) s && (piece_at b s =? k).
  Proof.
    intros Hs Hk. unfold holds. rewrite (who_abs s Hs).
    pose proof (rep_occ_tb s Hs) as Ho. pose proof (rep_colors_disj s Hs) as Hd.
    unfold occupancy in Ho. rewrite bor_tb in Ho.
    destruct (N.eqb_spec (piece_at b s) 0) as [E|E]; cbn [negb] in Ho.
    - rewrite E. rewrite (proj2 (N.eqb_neq 0 k)) by congruence. rewrite andb_false_r. reflexivity.
    - rewrite (N.eqb_sym k).
      destruct c; destruct (N.testbit (colors b White) s), (N.testbit (colors b Black) s); cbn in *; try congruence;
        try reflexivity.
  Qed.

  Lemma set_of_tb l i : N.testbit (set_of l) i = existsb (fun s => s =? i) l.
  Proof.
    induction l as [|s r IH]; cbn [set_of fold_right existsb]; [apply N.bits_0|].
    fold (set_of r). rewrite N.lor_spec, bit_testbit, IH. reflexivity.
  Qed.

  Lemma occ_of_abs : occ_of (abs b) = occupancy b.
  Proof.
    apply bits_ext. intros i. unfold occ_of. rewrite set_of_tb.
    destruct (N.lt_ge_cases i 64) as [L|L].
    - rewrite <- (negb_involutive (N.testbit (occupancy b) i)), <- (empty_abs i L).
      destruct (negb (empty (abs b) i)) eqn:E.
      + apply existsb_exists. exists i. split; [|apply N.eqb_refl].
        apply filter_In. split; [apply in_squares64; exact L|exact E].
      + destruct (existsb _ _) eqn:X; [|reflexivity].
        apply existsb_exists in X. destruct X as [s [Hin Hs]]. apply N.eqb_eq in Hs. subst s.
        apply filter_In in Hin. destruct Hin as [_ Hin]. congruence.
    - rewrite (w64p_high _ _ rep_occ_w64 L).
      destruct (existsb _ _) eqn:X; [|reflexivity].
      apply existsb_exists in X. destruct X as [s [Hin Hs]]. apply N.eqb_eq in Hs. subst s.
      apply filter_In in Hin. destruct Hin as [Hin _]. apply in_squares64 in Hin. lia.
  Qed.

  Lemma epsq_abs : epsq (abs b) = if ep b =? 0 then None else Some (ep b).
  Proof. reflexivity. Qed.

  Lemma rights_abs : rights (abs b) = castles b.
  Proof. reflexivity. Qed.
End RepFacts.

(* the kind of the piece on a square of a spec position, 0 for an empty square *)
Definition kind_at (p : pos) (s : N) : N := match who p s with Some (_, k) => k | None => 0 end.

Lemma kind_at_abs b s : s < 64 -> kind_at (abs b) s = piece_at b s.
Proof.
  intros Hs. unfold kind_at. rewrite (who_abs b s Hs).
  destruct (N.eqb_spec (piece_at b s) 0) as [E|E]; [symmetry; exact E|reflexivity].
Qed.

Lemma color_eqb_refl c : color_eqb c c = true.
Proof. destruct c; reflexivity. Qed.

Lemma color_eqb_eq a c : color_eqb a c = true <-> a = c.
Proof. destruct a, c; cbn; split; congruence. Qed.

Lemma color_eqb_flip c : color_eqb c (flip c) = false.
Proof. destruct c; reflexivity. Qed.
