(* flipV (rank mirror of a 64-bit square set): specification, algebra, and equivariance of the
   bitboard helpers of the evaluation (shifts, pawn attacks, fills and spans, popcount, bits_of, lsb). *)
From Coq Require Import NArith ZArith List Bool Lia Permutation.
From Chess3 Require Import Base.Bits Model.Types Model.BoardDef Model.Att Model.Eval Spec.EvalSym.
Import ListNotations.
Open Scope N_scope.

Definition x56 (s : N) : N := N.lxor s 56.

(* ------------------------------------------------------------------------------------------ *)
(* finite quantification over the 64 squares *)

Lemma squares64_In j : In j squares64 <-> j < 64.
Proof.
  unfold squares64. rewrite in_map_iff. split.
  - intros (n & <- & Hn). apply in_seq in Hn. lia.
  - intros H. exists (N.to_nat j). split; [apply N2Nat.id|]. apply in_seq. lia.
Qed.

Lemma forall64 (P : N -> bool) : forallb P squares64 = true -> forall i, i < 64 -> P i = true.
Proof. intros H i Hi. rewrite forallb_forall in H. apply H. apply squares64_In. exact Hi. Qed.

Lemma Forall64 (P : N -> Prop) : Forall P squares64 -> forall i, i < 64 -> P i.
Proof. intros H i Hi. rewrite Forall_forall in H. apply H. apply squares64_In. exact Hi. Qed.

Ltac each64 :=
  apply Forall64;
  let l := eval vm_compute in squares64 in change squares64 with l;
  repeat (apply Forall_cons; [|]); [..|apply Forall_nil].

Lemma x56_lt i : i < 64 -> x56 i < 64.
Proof.
  intros H. apply N.ltb_lt. revert i H. apply forall64. vm_compute. reflexivity.
Qed.

Lemma x56_x56 i : x56 (x56 i) = i.
Proof. unfold x56. rewrite N.lxor_assoc, N.lxor_nilpotent, N.lxor_0_r. reflexivity. Qed.

Lemma x56_inj a b : x56 a = x56 b -> a = b.
Proof. intros H. rewrite <- (x56_x56 a), H. apply x56_x56. Qed.

(* ------------------------------------------------------------------------------------------ *)
(* testbit specifications *)

Lemma fold_pick_testbit (P : N -> bool) l j :
  N.testbit (fold_right (fun i acc => if P i then N.lor (bit i) acc else acc) 0 l) j
  = existsb (N.eqb j) l && P j.
Proof.
  induction l as [|i l IH]; cbn [fold_right existsb]; [apply N.bits_0|].
  destruct (N.eqb_spec j i) as [->|Hn].
  - destruct (P i) eqn:E.
    + rewrite N.lor_spec, bit_testbit, N.eqb_refl. reflexivity.
    + rewrite IH. cbn. rewrite andb_false_r. reflexivity.
  - destruct (P i) eqn:E.
    + rewrite N.lor_spec, bit_testbit, IH. replace (i =? j) with false; [reflexivity|].
      symmetry. apply N.eqb_neq. congruence.
    + rewrite IH. reflexivity.
Qed.

Lemma existsb_squares64 j : existsb (N.eqb j) squares64 = (j <? 64).
Proof.
  destruct (N.ltb_spec j 64) as [H|H].
  - apply existsb_exists. exists j. split; [apply squares64_In; exact H|apply N.eqb_refl].
  - destruct (existsb (N.eqb j) squares64) eqn:E; [|reflexivity].
    apply existsb_exists in E. destruct E as (k & Hk & Ek). apply N.eqb_eq in Ek. subst k.
    apply squares64_In in Hk. lia.
Qed.

Lemma flipV_testbit x i : N.testbit (flipV x) i = (i <? 64) && N.testbit x (x56 i).
Proof. unfold flipV. rewrite fold_pick_testbit, existsb_squares64. reflexivity. Qed.

(* from here on flipV is used through its specification only; conversion must not unfold it *)
Global Opaque flipV.

Lemma ones64_testbit i : N.testbit ones64 i = (i <? 64).
Proof.
  rewrite ones64_eq. destruct (N.ltb_spec i 64) as [H|H];
  [apply N.ones_spec_low|apply N.ones_spec_high]; exact H.
Qed.

Lemma bnot_testbit x i : N.testbit (bnot x) i = (i <? 64) && negb (N.testbit x i).
Proof.
  unfold bnot. rewrite N.lxor_spec, w64_testbit, ones64_testbit.
  destruct (N.testbit x i), (i <? 64); reflexivity.
Qed.

Lemma shl_testbit x k i : N.testbit (shl x k) i = (i <? 64) && (k <=? i) && N.testbit x (i - k).
Proof.
  unfold shl. rewrite w64_testbit.
  destruct (N.leb_spec k i) as [H|H].
  - rewrite N.shiftl_spec_high' by exact H. destruct (i <? 64), (N.testbit x (i - k)); reflexivity.
  - rewrite N.shiftl_spec_low by exact H. destruct (i <? 64); reflexivity.
Qed.

Lemma shr_testbit x k i : N.testbit (shr x k) i = N.testbit x (i + k).
Proof. unfold shr. apply N.shiftr_spec'. Qed.

Lemma testbit_guard x j : x < two64 -> N.testbit x j = (j <? 64) && N.testbit x j.
Proof.
  intros Hx. destruct (N.ltb_spec j 64) as [H|H]; [reflexivity|].
  apply lt_two64_testbit; assumption.
Qed.

(* ------------------------------------------------------------------------------------------ *)
(* 64-bit bounds *)

Lemma flipV_lt x : flipV x < two64.
Proof.
  apply testbit_lt_two64. intros i Hi. rewrite flipV_testbit.
  replace (i <? 64) with false; [reflexivity|]. symmetry. apply N.ltb_ge. exact Hi.
Qed.
Lemma shl_lt x k : shl x k < two64.
Proof. apply w64_lt. Qed.
Lemma bnot_lt x : bnot x < two64.
Proof.
  apply testbit_lt_two64. intros i Hi. rewrite bnot_testbit.
  replace (i <? 64) with false; [reflexivity|]. symmetry. apply N.ltb_ge. exact Hi.
Qed.
Lemma shr_lt x k : x < two64 -> shr x k < two64.
Proof.
  intros H. apply testbit_lt_two64. intros i Hi. rewrite shr_testbit.
  apply lt_two64_testbit; [exact H|lia].
Qed.
Lemma band_lt_l x y : x < two64 -> band x y < two64.
Proof.
  intros H. apply testbit_lt_two64. intros i Hi. unfold band. rewrite N.land_spec.
  rewrite (lt_two64_testbit x H i Hi). reflexivity.
Qed.
Lemma band_lt_r x y : y < two64 -> band x y < two64.
Proof.
  intros H. apply testbit_lt_two64. intros i Hi. unfold band. rewrite N.land_spec.
  rewrite (lt_two64_testbit y H i Hi). apply andb_false_r.
Qed.
Lemma bor_lt x y : x < two64 -> y < two64 -> bor x y < two64.
Proof.
  intros H1 H2. apply testbit_lt_two64. intros i Hi. unfold bor. rewrite N.lor_spec.
  rewrite (lt_two64_testbit x H1 i Hi), (lt_two64_testbit y H2 i Hi). reflexivity.
Qed.
Lemma bandn_lt x y : x < two64 -> bandn x y < two64.
Proof.
  intros H. apply testbit_lt_two64. intros i Hi. unfold bandn. rewrite N.ldiff_spec.
  rewrite (lt_two64_testbit x H i Hi). reflexivity.
Qed.
Lemma zero_lt64 : 0 < two64.
Proof. reflexivity. Qed.

Ltac wb :=
  repeat first
    [ assumption
    | apply flipV_lt | apply shl_lt | apply bnot_lt | apply zero_lt64
    | apply shr_lt | apply bor_lt | apply bandn_lt
    | (apply band_lt_l; solve [wb]) | (apply band_lt_r; solve [wb])
    | reflexivity ].

Lemma bb_eq_64 x y : x < two64 -> y < two64 ->
  (forall i, i < 64 -> N.testbit x i = N.testbit y i) -> x = y.
Proof.
  intros Hx Hy H. apply N.bits_inj. intros i.
  destruct (N.lt_ge_cases i 64) as [L|L]; [apply H; exact L|].
  rewrite (lt_two64_testbit x Hx i L), (lt_two64_testbit y Hy i L). reflexivity.
Qed.

(* ------------------------------------------------------------------------------------------ *)
(* algebra of flipV *)

Lemma flipV_0 : flipV 0 = 0.
Proof. vm_compute. reflexivity. Qed.

Lemma flipV_flipV x : x < two64 -> flipV (flipV x) = x.
Proof.
  intros Hx. apply bb_eq_64; [wb|wb|]. intros i Hi.
  rewrite !flipV_testbit, x56_x56.
  apply N.ltb_lt in Hi as Hi'. rewrite Hi'. apply x56_lt in Hi. apply N.ltb_lt in Hi. rewrite Hi. reflexivity.
Qed.

Lemma flipV_band x y : flipV (band x y) = band (flipV x) (flipV y).
Proof.
  apply N.bits_inj. intros i. unfold band. rewrite N.land_spec, !flipV_testbit, N.land_spec.
  destruct (i <? 64), (N.testbit x (x56 i)), (N.testbit y (x56 i)); reflexivity.
Qed.
Lemma flipV_bor x y : flipV (bor x y) = bor (flipV x) (flipV y).
Proof.
  apply N.bits_inj. intros i. unfold bor. rewrite N.lor_spec, !flipV_testbit, N.lor_spec.
  destruct (i <? 64), (N.testbit x (x56 i)), (N.testbit y (x56 i)); reflexivity.
Qed.
Lemma flipV_bandn x y : flipV (bandn x y) = bandn (flipV x) (flipV y).
Proof.
  apply N.bits_inj. intros i. unfold bandn. rewrite N.ldiff_spec, !flipV_testbit, N.ldiff_spec.
  destruct (i <? 64), (N.testbit x (x56 i)), (N.testbit y (x56 i)); reflexivity.
Qed.
Lemma flipV_bnot x : flipV (bnot x) = bnot (flipV x).
Proof.
  apply N.bits_inj. intros i. rewrite flipV_testbit, !bnot_testbit, flipV_testbit.
  destruct (N.ltb_spec i 64) as [H|H]; [|reflexivity].
  apply x56_lt in H. apply N.ltb_lt in H. rewrite H. reflexivity.
Qed.

Lemma flipV_bit s : s < 64 -> flipV (bit s) = bit (x56 s).
Proof.
  intros Hs. apply bb_eq_64; [wb|apply bit_lt, x56_lt, Hs|]. intros i Hi.
  rewrite flipV_testbit, !bit_testbit. apply N.ltb_lt in Hi. rewrite Hi. cbn [andb].
  destruct (N.eqb_spec s (x56 i)) as [->|Hn].
  - rewrite x56_x56. symmetry. apply N.eqb_refl.
  - symmetry. apply N.eqb_neq. intros E. apply Hn. rewrite <- E. symmetry. apply x56_x56.
Qed.

(* ------------------------------------------------------------------------------------------ *)
(* shifts.  After rewriting with the testbit specifications a goal has the shape
   E1 (testbit x) i = E2 (testbit x) i  for i < 64; it is checked square by square. *)

Ltac by_squares t :=
  each64; vm_compute;
  repeat match goal with |- context [t ?k] => destruct (t k) end; reflexivity.

Lemma flipV_shl_ranks x k : In k [8; 16; 32] -> flipV (shl x k) = shr (flipV x) k.
Proof.
  intros Hk. apply bb_eq_64; [wb|wb|]. intros i Hi.
  rewrite flipV_testbit, shr_testbit, shl_testbit, flipV_testbit.
  revert i Hi. generalize (N.testbit x) as t. intros t.
  destruct Hk as [<-|[<-|[<-|[]]]]; by_squares t.
Qed.

Lemma flipV_shr_ranks x k : x < two64 -> In k [8; 16; 32] -> flipV (shr x k) = shl (flipV x) k.
Proof.
  intros Hx Hk. apply bb_eq_64; [wb|wb|]. intros i Hi.
  rewrite flipV_testbit, shr_testbit, shl_testbit, flipV_testbit.
  rewrite (testbit_guard x (x56 i + k) Hx).
  revert i Hi. generalize (N.testbit x) as t. intros t.
  destruct Hk as [<-|[<-|[<-|[]]]]; by_squares t.
Qed.

(* sideways shifts stay inside the rank *)
Lemma flipV_shl_file x : flipV (shl (band x (bnot HFileBB)) 1) = shl (band (flipV x) (bnot HFileBB)) 1.
Proof.
  apply bb_eq_64; [wb|wb|]. intros i Hi. unfold band.
  rewrite flipV_testbit, !shl_testbit, !N.land_spec, flipV_testbit.
  revert i Hi. generalize (N.testbit x) as t. intros t. by_squares t.
Qed.
Lemma flipV_shr_file x : flipV (shr (band x (bnot AFileBB)) 1) = shr (band (flipV x) (bnot AFileBB)) 1.
Proof.
  apply bb_eq_64; [wb|wb|]. intros i Hi. unfold band.
  rewrite flipV_testbit, !shr_testbit, !N.land_spec, flipV_testbit.
  revert i Hi. generalize (N.testbit x) as t. intros t. by_squares t.
Qed.

Lemma flipV_spread x : flipV (spread x) = spread (flipV x).
Proof. unfold spread. rewrite flipV_bor, flipV_shr_file, flipV_shl_file. reflexivity. Qed.
Lemma spread'_spread x : spread' x = spread x.
Proof. unfold spread, spread', bor. apply N.lor_comm. Qed.

(* frontFill *)
Lemma flipV_front_fill x c : x < two64 -> flipV (front_fill x c) = front_fill (flipV x) (flip c).
Proof.
  intros Hx. destruct c; cbn [front_fill flip].
  - repeat (rewrite ?flipV_bor; rewrite ?flipV_shl_ranks by (cbn; tauto)). reflexivity.
  - repeat (rewrite ?flipV_bor; rewrite ?flipV_shr_ranks by (solve [cbn; tauto] || wb)). reflexivity.
Qed.

Lemma front_fill_lt x c : x < two64 -> front_fill x c < two64.
Proof. intros H. destruct c; cbn [front_fill]; wb. Qed.

(* attacks.PawnCaptureMoves *)
Lemma flipV_pawn_capture_moves x c : x < two64 ->
  flipV (pawn_capture_moves x c) = pawn_capture_moves (flipV x) (flip c).
Proof.
  intros Hx. apply bb_eq_64; [wb| |].
  { unfold pawn_capture_moves. wb. }
  intros i Hi. rewrite <- (w64_id x Hx). unfold pawn_capture_moves, bor, bandn.
  destruct c; cbn [flip cix N.shiftl Pos.iter Pos.shiftl];
  rewrite flipV_testbit;
  repeat (rewrite ?N.lor_spec, ?shl_testbit, ?shr_testbit, ?N.ldiff_spec, ?flipV_testbit, ?w64_testbit);
  revert i Hi; generalize (N.testbit x) as t; intros t; by_squares t.
Qed.

(* ------------------------------------------------------------------------------------------ *)
(* iteration over the squares of a mirrored set; popcount; single-square sets *)

Lemma x56_Injective : FinFun.Injective x56.
Proof. intros a b. apply x56_inj. Qed.

Lemma bits_of_flipV x : x < two64 -> Permutation (bits_of (flipV x)) (map x56 (bits_of x)).
Proof.
  intros Hx. apply NoDup_Permutation.
  - apply bits_of_NoDup.
  - apply FinFun.Injective_map_NoDup; [apply x56_Injective|apply bits_of_NoDup].
  - intros s. rewrite bits_of_spec, flipV_testbit, in_map_iff. split.
    + intros H. apply andb_true_iff in H. destruct H as [_ H].
      exists (x56 s). split; [apply x56_x56|apply bits_of_spec; exact H].
    + intros (t & <- & Ht). pose proof (bits_of_lt x t Hx Ht) as Lt. apply bits_of_spec in Ht.
      rewrite x56_x56, Ht. apply x56_lt in Lt. apply N.ltb_lt in Lt. rewrite Lt. reflexivity.
Qed.

Lemma popcount_flipV x : x < two64 -> popcount (flipV x) = popcount x.
Proof.
  intros Hx. rewrite !popcount_bits_of.
  rewrite (Permutation_length (bits_of_flipV x Hx)), map_length. reflexivity.
Qed.

Lemma cnt_flipV x : x < two64 -> cnt (flipV x) = cnt x.
Proof. intros Hx. unfold cnt. rewrite popcount_flipV by exact Hx. reflexivity. Qed.

Lemma flipV_eq0 x : x < two64 -> (flipV x =? 0) = (x =? 0).
Proof.
  intros Hx. destruct (N.eqb_spec x 0) as [->|Hn]; [reflexivity|].
  apply N.eqb_neq. intros E. apply Hn. rewrite <- (flipV_flipV x Hx), E. reflexivity.
Qed.

Lemma nz_flipV x : x < two64 -> nz (flipV x) = nz x.
Proof. intros Hx. unfold nz. rewrite flipV_eq0 by exact Hx. reflexivity. Qed.

Lemma is_pow2_eq_bit k : is_pow2 k = true -> k = bit (lsb k).
Proof.
  unfold is_pow2. intros H. apply andb_true_iff in H. destruct H as [H0 Hn].
  apply N.eqb_eq in H0. apply negb_true_iff, N.eqb_neq in Hn.
  apply N.bits_inj. intros i. rewrite bit_testbit.
  destruct (N.eqb_spec (lsb k) i) as [<-|Hd]; [apply lsb_testbit; exact Hn|].
  pose proof (clear_lsb_spec k i Hn) as S. rewrite H0, N.bits_0 in S.
  replace (lsb k =? i) with false in S by (symmetry; apply N.eqb_neq; exact Hd).
  cbn [negb] in S. rewrite andb_true_r in S. symmetry. exact S.
Qed.

Lemma bit_neq0 s : bit s <> 0.
Proof.
  intros E. pose proof (bit_testbit s s) as H. rewrite E, N.bits_0, N.eqb_refl in H. discriminate.
Qed.

Lemma lsb_bit s : lsb (bit s) = s.
Proof.
  pose proof (lsb_testbit (bit s) (bit_neq0 s)) as H. rewrite bit_testbit in H.
  apply N.eqb_eq in H. symmetry. exact H.
Qed.

Lemma is_pow2_bit s : is_pow2 (bit s) = true.
Proof.
  unfold is_pow2. apply andb_true_iff. split; [|apply negb_true_iff, N.eqb_neq, bit_neq0].
  apply N.eqb_eq. apply N.bits_inj. intros i. rewrite N.bits_0.
  rewrite (clear_lsb_spec (bit s) i (bit_neq0 s)), lsb_bit, bit_testbit.
  destruct (s =? i); reflexivity.
Qed.

Lemma is_pow2_lt k : k < two64 -> is_pow2 k = true -> lsb k < 64.
Proof.
  intros Hk H. pose proof (is_pow2_eq_bit k H) as E.
  destruct (N.lt_ge_cases (lsb k) 64) as [L|L]; [exact L|].
  pose proof (lt_two64_testbit k Hk (lsb k) L) as F.
  rewrite E, lsb_bit, bit_testbit, N.eqb_refl in F. discriminate.
Qed.

Lemma flipV_pow2 k : k < two64 -> is_pow2 k = true -> flipV k = bit (x56 (lsb k)).
Proof.
  intros Hk H. rewrite (is_pow2_eq_bit k H) at 1. apply flipV_bit. apply is_pow2_lt; assumption.
Qed.

Lemma lsb_flipV k : k < two64 -> is_pow2 k = true -> lsb (flipV k) = x56 (lsb k).
Proof. intros Hk H. rewrite (flipV_pow2 k Hk H). apply lsb_bit. Qed.

Lemma is_pow2_flipV k : k < two64 -> is_pow2 (flipV k) = is_pow2 k.
Proof.
  intros Hk.
  assert (D : forall y, y < two64 -> is_pow2 y = true -> is_pow2 (flipV y) = true).
  { intros y Hy H. rewrite (flipV_pow2 y Hy H). apply is_pow2_bit. }
  destruct (is_pow2 k) eqn:E; [apply D; assumption|].
  destruct (is_pow2 (flipV k)) eqn:E'; [|reflexivity].
  apply D in E'; [|apply flipV_lt]. rewrite flipV_flipV in E' by exact Hk. congruence.
Qed.

Lemma clear_lsb_eq0 x : (clear_lsb x =? 0) = is_pow2 x || (x =? 0).
Proof.
  unfold is_pow2. destruct (N.eqb_spec x 0) as [->|Hn]; [reflexivity|].
  cbn [negb]. rewrite andb_true_r, orb_false_r. reflexivity.
Qed.

Lemma nz_clear_lsb_flipV x : x < two64 -> nz (clear_lsb (flipV x)) = nz (clear_lsb x).
Proof.
  intros Hx. unfold nz. rewrite !clear_lsb_eq0, is_pow2_flipV, flipV_eq0 by exact Hx. reflexivity.
Qed.

(* a fold of ORs over a permuted list *)
Lemma fold_bor_perm (f : N -> N) l l' : Permutation l l' ->
  forall a, fold_left (fun acc s => bor acc (f s)) l a = fold_left (fun acc s => bor acc (f s)) l' a.
Proof.
  induction 1 as [|x l l' _ IH|x y l|l l' l'' _ IH1 _ IH2]; intros a; cbn [fold_left].
  - reflexivity.
  - apply IH.
  - f_equal. unfold bor. rewrite <- !N.lor_assoc. f_equal. apply N.lor_comm.
  - rewrite IH1. apply IH2.
Qed.

Lemma fold_left_cons {A B} (f : A -> B -> A) x l a : fold_left f (x :: l) a = fold_left f l (f a x).
Proof. reflexivity. Qed.

Lemma fold_bor_flipV (f : N -> N) l : forall a,
  flipV (fold_left (fun acc s => bor acc (f s)) l a) = fold_left (fun acc s => bor acc (flipV (f s))) l (flipV a).
Proof.
  induction l as [|s l IH]; intros a; [reflexivity|].
  rewrite !fold_left_cons, IH, flipV_bor. reflexivity.
Qed.
