#!/usr/bin/env python3
"""Confirm a seeded change delivered by a sub-agent and file it under /verif/seeded/.

  tools/seed_admit.py <Cxx> <A|B> [check ids ...]

Steps (all in scratch worktrees of /repo, removed afterwards):
  1. clean worktree: demo/run.sh must exit 0
  2. patched worktree: go build ./... ok, the existing test suite passes, demo/run.sh exits non-zero
  3. the listed checks (default: the property itself) are run against the patched worktree through
     VERIF_REPO and their VIOLATION lines recorded
The change is filed as seeded/<Cxx>-<A|B>/ {patch.diff, demo/, notes.md, meta.json}."""
import json, os, re, shutil, subprocess, sys, time

pid, var = sys.argv[1], sys.argv[2]
checks = sys.argv[3:] or [pid]
src = f"/root/seedout/{pid}/{var}"
ENV = dict(os.environ, GOFLAGS="-mod=mod", GOPROXY="off")

def sh(cmd, cwd=None, timeout=3600, env=None):
    p = subprocess.run(cmd, cwd=cwd, shell=isinstance(cmd, str), env=env or ENV, timeout=timeout,
                       stdout=subprocess.PIPE, stderr=subprocess.STDOUT, text=True)
    return p.returncode, p.stdout

def worktree(tag):
    wt = f"/root/scratch/seedwt-{pid}{var}-{tag}"
    sh(["git", "-C", "/repo", "worktree", "remove", "--force", wt])
    rc, out = sh(["git", "-C", "/repo", "worktree", "add", "-q", "--detach", wt, "HEAD"])
    assert rc == 0, out
    return wt

def drop(wt):
    sh(["git", "-C", "/repo", "worktree", "remove", "--force", wt])

res = {"property": pid, "variant": var, "repo_head": sh(["git", "-C", "/repo", "log", "--format=%h", "-1"])[1].strip()}
clean, mut = worktree("clean"), worktree("mut")
try:
    rc, out = sh(["git", "-C", mut, "apply", os.path.join(src, "patch.diff")])
    assert rc == 0, "patch does not apply: " + out
    rc, out = sh(["bash", os.path.join(src, "demo", "run.sh"), clean], cwd=os.path.join(src, "demo"))
    res["demo_on_clean_exit"] = rc
    rc, out = sh("go build ./... ", cwd=mut)
    res["builds"] = rc == 0
    t0 = time.time()
    rc, out = sh("go test -vet=off -count=1 ./...", cwd=mut, timeout=3000)
    res["suite_passes_with_change"] = rc == 0
    res["suite_s"] = round(time.time() - t0)
    if rc != 0:
        res["suite_tail"] = out[-1500:]
    rc, out = sh(["bash", os.path.join(src, "demo", "run.sh"), mut], cwd=os.path.join(src, "demo"))
    res["demo_on_changed_exit"] = rc
    res["demo_tail"] = out[-600:]
    res["checks"] = {}
    for c in checks:
        rc, out = sh(["./check", c, "--tier", "quick"], cwd=os.environ.get("VERIF_DIR", "/verif"), env=dict(ENV, VERIF_REPO=mut), timeout=3000)
        vio = [l for l in out.split("\n") if l.startswith("VIOLATION")]
        res["checks"][c] = {"exit": rc, "violation_lines": vio[:6]}
        for l in vio[:1]:
            m = re.search(r"replay=(\S+)", l)
            if m and os.path.exists(m.group(1)):
                body = json.load(open(m.group(1)))
                res["checks"][c]["first_replay"] = {k: (str(v)[:400]) for k, v in body.items() if k in ("kind", "stream", "desc", "verdict", "no_longer_checks")}
finally:
    drop(clean); drop(mut)
ok = res.get("demo_on_clean_exit") == 0 and res.get("builds") and res.get("suite_passes_with_change") and res.get("demo_on_changed_exit", 0) != 0
res["confirmed"] = bool(ok)
res["caught_by"] = [c for c, v in res.get("checks", {}).items() if v["exit"] == 1 and v["violation_lines"]]
res["check_crashed"] = [c for c, v in res.get("checks", {}).items() if v["exit"] not in (0, 1) or (v["exit"] == 1 and not v["violation_lines"])]
print(json.dumps(res, indent=1))
if ok:
    dst = f"/verif/seeded/{pid}-{var}"
    shutil.rmtree(dst, ignore_errors=True)
    os.makedirs(dst)
    shutil.copy(os.path.join(src, "patch.diff"), dst)
    shutil.copytree(os.path.join(src, "demo"), os.path.join(dst, "demo"))
    if os.path.exists(os.path.join(src, "notes.md")):
        shutil.copy(os.path.join(src, "notes.md"), dst)
    notes = open(os.path.join(src, "notes.md")).read() if os.path.exists(os.path.join(src, "notes.md")) else ""
    meta = {"breaks_property": pid, "variant": var,
            "needs_to_manifest": "see notes.md (written by the sub-agent that produced the change)",
            "what_i_ran": ["demo/run.sh on a clean worktree (exit 0)", "go build ./... and go test -vet=off -count=1 ./... on the changed worktree (pass)",
                           "demo/run.sh on the changed worktree (non-zero)"] + [f"VERIF_REPO=<changed worktree> ./check {c} --tier quick" for c in checks],
            "result": res}
    json.dump(meta, open(os.path.join(dst, "meta.json"), "w"), indent=1)
    print("filed", dst)
else:
    print("NOT CONFIRMED")
