// Command h runs correspondence streams against the implementation in /repo.
//
//	h gen <stream> <n> <tier> <prefix>   write <prefix>.in/.impl/.desc/.stats.json
//	h run <stream>                       stdin: input lines, stdout: implementation outputs
//	h shrink <stream> [max]              stdin: input lines, stdout: per line the smaller candidate inputs of the
//	                                     stream's Shrink (one per line, smallest change first; at most max of
//	                                     them, spread evenly over the list), then a line "--"
//	h desc <stream>                      stdin: input lines, stdout: per line its human readable description
//	                                     (empty line if the stream has no Describe)
//	h list
package main

import (
	"bufio"
	"encoding/json"
	"fmt"
	"os"
	"strconv"

	"verifharness/hx"
	_ "verifharness/streams"
)

func seed() uint64 {
	s, err := strconv.ParseUint(os.Getenv("VERIF_SEED"), 10, 64)
	if err != nil {
		return 1
	}
	return s
}

func main() {
	if len(os.Args) < 2 {
		fmt.Fprintln(os.Stderr, "usage: h gen|list ...")
		os.Exit(2)
	}
	switch os.Args[1] {
	case "list":
		for _, n := range hx.Names() {
			fmt.Println(n)
		}
	case "gen":
		if len(os.Args) != 6 {
			fmt.Fprintln(os.Stderr, "usage: h gen <stream> <n> <tier> <prefix>")
			os.Exit(2)
		}
		st := hx.Lookup(os.Args[2])
		if st == nil {
			fmt.Fprintln(os.Stderr, "unknown stream", os.Args[2])
			os.Exit(2)
		}
		n, _ := strconv.Atoi(os.Args[3])
		w, err := hx.NewWriter(os.Args[5], st)
		if err != nil {
			fmt.Fprintln(os.Stderr, err)
			os.Exit(2)
		}
		// stream name is mixed into the seed so that streams are independent
		sd := seed()
		for _, c := range os.Args[2] {
			sd = sd*131 + uint64(c)
		}
		// generators drive the implementation while they build inputs (walks on a live board, sessions);
		// a panic inside the implementation at that point must not lose the cases already written:
		// the writer is closed normally and the panic is recorded in the stats (lib/props.py reports it
		// as a broken correspondence; generators that know the operation that blew up emit it first)
		genPanic := ""
		func() {
			defer func() {
				if e := recover(); e != nil {
					genPanic = fmt.Sprint(e)
					fmt.Fprintln(os.Stderr, "generator stopped by a panic:", e)
				}
			}()
			st.Gen(hx.NewRng(sd), n, os.Args[4], w.Emit)
		}()
		if err := w.Close(); err != nil {
			fmt.Fprintln(os.Stderr, err)
			os.Exit(2)
		}
		stats := map[string]any{"stream": st.Name, "cases": w.N, "distinct_nontrivial": w.NonTrivial, "tags": w.Tags}
		if genPanic != "" {
			stats["generator_panic"] = genPanic
		}
		js, _ := json.Marshal(stats)
		if err := os.WriteFile(os.Args[5]+".stats.json", js, 0o644); err != nil {
			fmt.Fprintln(os.Stderr, err)
			os.Exit(2)
		}
	case "run":
		if len(os.Args) != 3 {
			fmt.Fprintln(os.Stderr, "usage: h run <stream>")
			os.Exit(2)
		}
		st := hx.Lookup(os.Args[2])
		if st == nil {
			fmt.Fprintln(os.Stderr, "unknown stream", os.Args[2])
			os.Exit(2)
		}
		sc := bufio.NewScanner(os.Stdin)
		sc.Buffer(make([]byte, 1<<20), 1<<28)
		out := bufio.NewWriter(os.Stdout)
		for sc.Scan() {
			fmt.Fprintln(out, hx.SafeRun(st, sc.Text()))
		}
		out.Flush()
	case "shrink", "desc":
		limit := 0
		if os.Args[1] == "shrink" && len(os.Args) == 4 {
			limit, _ = strconv.Atoi(os.Args[3])
			os.Args = os.Args[:3]
		}
		if len(os.Args) != 3 {
			fmt.Fprintln(os.Stderr, "usage: h "+os.Args[1]+" <stream>")
			os.Exit(2)
		}
		st := hx.Lookup(os.Args[2])
		if st == nil {
			fmt.Fprintln(os.Stderr, "unknown stream", os.Args[2])
			os.Exit(2)
		}
		sc := bufio.NewScanner(os.Stdin)
		sc.Buffer(make([]byte, 1<<20), 1<<28)
		out := bufio.NewWriter(os.Stdout)
		for sc.Scan() {
			if os.Args[1] == "desc" {
				fmt.Fprintln(out, hx.SafeDescribe(st, sc.Text()))
				continue
			}
			for _, c := range hx.SafeShrink(st, sc.Text(), limit) {
				fmt.Fprintln(out, c)
			}
			fmt.Fprintln(out, hx.ShrinkSep)
		}
		out.Flush()
	default:
		fmt.Fprintln(os.Stderr, "unknown command", os.Args[1])
		os.Exit(2)
	}
}
