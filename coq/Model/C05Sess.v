(* Model side of stream c05s (property C05 on one long-lived board; definitions only).

   input:  board-in ++ [n; op_1 .. op_n]    ops as in Model/SeqStreams.v plus the flag 262144 (0x40000):
             op < 65536  make op     op = 65536  make_null     op = 131072  undo the latest operation not yet undone
             op + 262144 the same operation, no question asked after it
   output: one record per question
             REC = [step] ++ board-out-nohist ++ zlist acc ++ zlist gen ++ zlist acc
           with acc = fast_accepted b (= the encodings accepted by is_pseudo_legal, Proofs/IplFast.v) and
           gen = gen_all b sorted; step 0 = the board handed in, step k = after op k, steps n+1.. while the
           operations left on the stack are undone.  The model is a pure function of the board, so its two
           accepted lists of one question are equal by construction; the implementation has to match. *)
From Coq Require Import NArith ZArith List Bool.
From Chess3 Require Import Base.Bits Model.Types Model.Att Model.BoardDef Model.Board Model.Movegen
  Model.BoardStreams Model.C05Streams Model.SeqStreams Gen.Zobrist.
Import ListNotations.
Open Scope Z_scope.

Definition op_quiet : Z := 262144.

Definition sess_question (step : Z) (b : board) : list Z :=
  let acc := zlist (fast_accepted b) in
  step :: encode_board_nohist b ++ acc ++ zlist (sort_moves (gen_all b)) ++ acc.

Fixpoint sess_ops (ops : list Z) (k : Z) (b : board) (st : list frame) (acc : list Z) : board * list frame * list Z :=
  match ops with
  | [] => (b, st, acc)
  | o0 :: rest =>
      let quiet := op_quiet <=? o0 in
      let o := if quiet then o0 - op_quiet else o0 in
      let '(b', st') :=
        if o =? op_pop then
          match st with
          | f :: st' => (seq_undo b f, st')
          | [] => (b, st)
          end
        else if o =? op_null then
          let '(b1, r) := make_null zob_real b in (b1, (None, r) :: st)
        else
          let m := Z.to_N o in
          let '(b1, r) := make zob_real b m in (b1, (Some m, r) :: st) in
      sess_ops rest (k + 1) b' st' (if quiet then acc else acc ++ sess_question k b')
  end.

Fixpoint sess_unwind (k : Z) (b : board) (st : list frame) (acc : list Z) : list Z :=
  match st with
  | [] => acc
  | f :: st' => let b' := seq_undo b f in sess_unwind (k + 1) b' st' (acc ++ sess_question k b')
  end.

Definition run_c05s (l : list Z) : list Z :=
  match decode_board l with
  | Some (b, n :: ops) =>
      let ops := firstn (Z.to_nat n) ops in
      let '(b1, st, acc) := sess_ops ops 1 b [] (sess_question 0 b) in
      sess_unwind (Z.of_nat (length ops) + 1) b1 st acc
  | _ => []
  end.
