(* C10: concrete games evaluated by vm_compute (kept out of Properties/C10.v so that they are
   compiled once): a game on which every per-game premise of C10_true holds, and the witness of
   finding fen-ep-flag. *)
From Coq Require Import NArith ZArith List Bool.
From Chess3 Require Import Base.Bits Model.Types Model.BoardDef Model.Board Model.Rep3
     Spec.Geometry Spec.Chess Spec.Rep Spec.RepSpec Spec.RepLinks
     Proofs.Rep3Scan Proofs.Rep3Chess Proofs.Rep3Hash Proofs.Rep3True Gen.Zobrist.
Import ListNotations.

(* ------------------------------------------------------------------------------------------ *)
(* The per-game premises are satisfiable: the start position, knights out and back twice (the
   engine's real Zobrist tables); the count is three. *)
Definition start_board : board :=
  match decode_board [71776119061282560; 4755801206503243842; 2594073385365405732; 9295429630892703873;
                      576460752303423496; 1152921504606846992; 65535; 18446462598732840960;
                      0; 0; 15; 0; 1; 1; 8926406864108350934]%Z with
  | Some (b, _) => b
  | None => mkBoard [] [] [] [] 0 White 0 0 0
  end.
Definition knights8 : list N := [405; 4013; 1350; 2942; 405; 4013; 1350; 2942]%N.  (* g1f3 g8f6 f3g1 f6g8, twice *)

Lemma premises_hold :
  rep_ok (reset_hash zob_real start_board) = true /\
  valid (abs start_board) = true /\ normal_ep (abs start_board) = true /\
  legal_chain (abs start_board) knights8 = true /\
  no_collision_b zob_real (combine (run_boards zob_real (reset_hash zob_real start_board) knights8)
                                   (spec_hist (abs start_board) knights8)) = true /\
  threefold (run_moves zob_real (reset_hash zob_real start_board) knights8) = 3%Z /\
  rep_count (map pos_key (spec_hist (abs start_board) knights8)) = 3%Z /\
  cur_hash (reset_hash zob_real start_board) = calc_hash zob_real start_board.
Proof. vm_compute. repeat split; reflexivity. Qed.

(* ------------------------------------------------------------------------------------------ *)
(* Finding fen-ep-flag: the premise normal_ep cannot be dropped.  A valid root carrying an
   en-passant square without a legal capture (after 1.e4, written the strict FEN way) is hashed
   with that file; when the same position recurs four plies later the engine counts 1, the true
   count is 2. *)
Definition e4_board : board :=
  match decode_board [71776119329713920; 4755801206503243842; 2594073385365405732; 9295429630892703873;
                      576460752303423496; 1152921504606846992; 268496895; 18446462598732840960;
                      1; 20; 15; 0; 1; 1; 6178402591319245382]%Z with
  | Some (b, _) => b
  | None => mkBoard [] [] [] [] 0 White 0 0 0
  end.
Definition knights4 : list N := [4013; 405; 2942; 1350]%N.   (* g8f6 g1f3 f6g8 f3g1 *)

Lemma fen_ep_refuted : exists (b0 : board) (ms : list N),
  Rep (reset_hash zob_real b0) /\ valid (abs b0) = true /\ legal_chain (abs b0) ms = true /\
  no_collision zob_real (combine (run_boards zob_real (reset_hash zob_real b0) ms) (spec_hist (abs b0) ms)) /\
  normal_ep (abs b0) = false /\
  threefold (run_moves zob_real (reset_hash zob_real b0) ms) = 1%Z /\
  rep_count (map pos_key (spec_hist (abs b0) ms)) = 2%Z.
Proof.
  exists e4_board, knights4.
  split; [vm_compute; reflexivity|]. split; [vm_compute; reflexivity|]. split; [vm_compute; reflexivity|].
  split; [apply no_collision_b_ok; vm_compute; reflexivity|].
  split; [vm_compute; reflexivity|]. split; vm_compute; reflexivity.
Qed.
