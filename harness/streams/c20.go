package streams

import (
	"bytes"
	"fmt"
	"io"
	"iter"
	"math/bits"
	"os"
	"runtime"
	"sort"
	"strconv"
	"sync/atomic"
	"time"

	"github.com/paulsonkoly/chess-3/tools/tuner/epd"
	"github.com/paulsonkoly/chess-3/tools/tuner/tuning"

	"verifharness/hx"
)

// C20 - each training position exactly once per tuning epoch.
//
//	c20_shuffle  [mode a b xs...]
//	   mode 0: a=n b=seed            -> shuffleIndex(i, n, seed) for every i < n
//	   mode 1: a=n b=seed xs (< n)   -> shuffleIndex(x, n, seed) for every x
//	   mode 2: a=bits b=seed xs      -> feistel(x, seed, bits) for every x
//	   mode 3: a=bits b=seed         -> feistel(x, seed, bits) for every x < 2^bits
//	   mode 4: a=0 b=k xs            -> roundFunc(x, k) for every x
//	c20_file     [mode B epoch start end nbytes bytes...] -> [status k len_1 bytes_1... len_k bytes_k...]
//	   the file is written to disk and read through NewChunker / Open / Read;
//	   mode 0: one window Open(epoch, start, end)
//	   mode 1: the tuner's own schedule: every tuning.Chunks of every tuning.Batches(LineCount())
//	   mode 2: windows of max(start,1) lines: [0,c) [c,2c) ... up to LineCount()
//	   mode 3: start epochs (epoch, epoch+1, ...) through ONE tuning.Batches(LineCount()) value obtained
//	           before the epoch loop (iter.Seq re-use); delivered = the lines of all epochs together
//	   mode 4: a multi-chunk session: start packs up to three cut points (16 bits each) that split
//	           [0,LineCount()) into 2..4 windows, end packs up to twelve steps (5 bits each,
//	           1+op*4+window; 0 ends the script): op 0 read one line, 1 read to EOF, 2 Close (an
//	           unfinished window is abandoned and re-opened later), 3 Rewind (start over), 4 Read
//	           again after EOF, 5 Close a second time. Several chunks are open at once and their
//	           reads interleave. Afterwards every window is completed and closed; delivered = the
//	           lines of the completed pass of every window (= every line exactly once)
//	   B is the size of the refill buffer (needs the hook epd/export_verif_c20.go; without the hook
//	   only B = epd.VerifBackingBytes is accepted). Delivered lines are reported sorted (the
//	   property speaks about the multiset). status: 0 ok, 1 NewChunker failed, 2 Open failed,
//	   3 Read failed, 4 B not supported by this build.
//	c20_big      same Run as c20_file, files above NumLinesInBatch lines; implementation + judge only
//	c20_batch    [mode a b]
//	   mode 0: tuning.Batches(a)           -> [s0 e0 s1 e1 ...]
//	   mode 1: tuning.Chunks(Range{a, b})  -> [s0 e0 s1 e1 ...]
//	   mode 2: RE-USE of iter.Seq values. [2 nseq nsteps (kind a b)*nseq (i stop j at)*nsteps] : nseq values are
//	           obtained first (kind 0 Batches(a), 1 Chunks({a b})), then every step ranges over value
//	           i, leaves with break after stop items (stop <= 0: to the end) and, if j >= 0, ranges
//	           over value j to its end inside the loop body at item number at (nested / interleaved,
//	           j = i allowed). Per step: [count s e ...] of value i, then the same of value j if that
//	           ran. Every traversal of a Seq has to produce its whole list again.
//	   mode 3: [3 n reps]: ONE Batches(n) value, ranged reps times with Chunks(batch) ranged inside
//	           (the tuner's schedule with the Seq hoisted out of the epoch loop): per repetition
//	           [count s e ...] of all chunks
func init() {
	hx.Register(&hx.Stream{Name: "c20_shuffle", Gen: genC20Shuffle, Run: runC20Shuffle})
	hx.Register(&hx.Stream{Name: "c20_file", Gen: genC20File, Run: runC20File, Shrink: shrinkC20File, Describe: describeC20File})
	hx.Register(&hx.Stream{Name: "c20_big", Gen: genC20Big, Run: runC20File})
	hx.Register(&hx.Stream{Name: "c20_batch", Gen: genC20Batch, Run: runC20Batch})
}

// ---------------------------------------------------------------------------------------------
// watchdog

// shuffleIndex is an unbounded loop; a change that breaks the bijection can make it spin forever.
// Every implementation call of the C20 streams therefore runs under a watchdog: no answer within
// the limit is recorded as "-3" (did not terminate; the stuck goroutine is abandoned). After three
// such cases of one process the remaining cases are not run at all and recorded as "-4" (skipped),
// so that a generation run ends; replays run in a fresh process and are unaffected.
var c20Hung atomic.Int32

const (
	c20HangOut = "-3"
	c20SkipOut = "-4"
)

func c20Guard(limit time.Duration, f func() string) string {
	if c20Hung.Load() >= 3 {
		return c20SkipOut
	}
	ch := make(chan string, 1)
	go func() {
		defer func() {
			if r := recover(); r != nil {
				ch <- hx.PanicOut
			}
		}()
		ch <- f()
	}()
	select {
	case r := <-ch:
		return r
	case <-time.After(limit):
		c20Hung.Add(1)
		return c20HangOut
	}
}

// ---------------------------------------------------------------------------------------------
// shuffle

func runC20Shuffle(a hx.Args) string {
	return c20Guard(4*time.Second, func() string { return runC20ShuffleRaw(a) })
}

func runC20ShuffleRaw(a hx.Args) string {
	out := &hx.Nums{}
	mode, p, seed := a.Int(0), a.U64(1), a.U64(2)
	switch mode {
	case 0:
		for i := uint64(0); i < p; i++ {
			out.U(epd.VerifShuffleIndex(i, p, seed))
		}
	case 1:
		for i := 3; i < a.Len(); i++ {
			out.U(epd.VerifShuffleIndex(a.U64(i), p, seed))
		}
	case 2:
		for i := 3; i < a.Len(); i++ {
			out.U(epd.VerifFeistel(a.U64(i), seed, int(p)))
		}
	case 3:
		for x := uint64(0); x < uint64(1)<<p; x++ {
			out.U(epd.VerifFeistel(x, seed, int(p)))
		}
	case 4:
		for i := 3; i < a.Len(); i++ {
			out.U(epd.VerifRoundFunc(a.U64(i), seed))
		}
	}
	return out.String()
}

func c20Seed(rng *hx.Rng) (uint64, string) {
	switch rng.Intn(4) {
	case 0:
		return uint64(rng.Intn(64)), "epoch<64"
	case 1:
		return uint64(rng.Intn(100000)), "epoch<1e5"
	case 2:
		return uint64(-int64(rng.Intn(1000)) - 1), "epoch<0"
	default:
		return rng.U64(), "epoch64"
	}
}

// c20Tame keeps a sampled index cheap. For an odd bit width the Feistel network of chunker.go never
// changes the top bit (the right half is one bit wider than the masked round output), so the
// rejection walk of an index x >= 2^(bits-1) only ever visits the upper half of [0,2^bits) and
// needs about 2^(bits-1)/(n-2^(bits-1)) turns (9 s for x = n-1, n = 2^30+1). Such indices are
// replaced by their lower-half twin unless the expected walk is short.
func c20Tame(x, m uint64, budget uint64) uint64 {
	b := bits.Len64(m - 1)
	if b%2 == 0 || b < 2 {
		return x
	}
	half := uint64(1) << (b - 1)
	if x < half || half/(m-half) <= budget {
		return x
	}
	return x - half
}

func genC20Shuffle(rng *hx.Rng, n int, tier string, emit func(hx.Input)) {
	cnt := 0
	budget := uint64(256)
	if tier == "thorough" {
		budget = 1 << 14
	}
	put := func(mode int, p, seed uint64, xs []uint64, tags ...string) {
		in := (&hx.Nums{}).Int(mode).U(p, seed).U(xs...).String()
		var desc string
		switch mode {
		case 0:
			desc = fmt.Sprintf("shuffleIndex(i, n=%d, seed=%d) for all i<n", p, seed)
		case 1:
			desc = fmt.Sprintf("shuffleIndex(x, n=%d, seed=%d) for x in %v", p, seed, xs)
		case 2:
			desc = fmt.Sprintf("feistel(x, seed=%d, bits=%d) for x in %v", seed, p, xs)
		case 3:
			desc = fmt.Sprintf("feistel(x, seed=%d, bits=%d) for all x<2^bits", seed, p)
		default:
			desc = fmt.Sprintf("roundFunc(x, k=%d) for x in %v", seed, xs)
		}
		if mode == 1 {
			for i := range xs {
				xs[i] = c20Tame(xs[i], p, budget)
			}
			in = (&hx.Nums{}).Int(mode).U(p, seed).U(xs...).String()
			desc = fmt.Sprintf("shuffleIndex(x, n=%d, seed=%d) for x in %v", p, seed, xs)
		}
		emit(hx.Input{In: in, Desc: desc, Tags: tags, NonTrivial: mode != 4 && p > 1})
		cnt++
	}
	// exhaustive small n (every n up to a bound, one or two seeds each)
	full := 160
	if tier == "thorough" {
		full = 1100
	}
	if n < 400 {
		full = n / 3
	}
	for m := 0; m <= full; m++ {
		seed, st := c20Seed(rng)
		put(0, uint64(m), seed, nil, "full-small-n", st)
		if m <= 40 {
			for e := uint64(0); e < 4; e++ {
				put(0, uint64(m), e, nil, "full-small-n", "epoch<64")
			}
		}
	}
	// whole Feistel permutation on 2^bits, balanced and unbalanced halves
	for b := 0; b <= 9; b++ {
		seed, st := c20Seed(rng)
		put(3, uint64(b), seed, nil, "feistel-full", st)
	}
	// n = 2^k, 2^k +- 1 with sampled indices
	for k := 1; k <= 63; k++ {
		for _, d := range []int64{-1, 0, 1} {
			m := uint64(int64(uint64(1)<<k) + d)
			if m < 2 {
				continue
			}
			seed, st := c20Seed(rng)
			xs := []uint64{0, m - 1, m / 2}
			for j := 0; j < 5; j++ {
				xs = append(xs, rng.U64()%m)
			}
			put(1, m, seed, xs, "pow2+-1", st)
		}
	}
	for cnt < n {
		seed, st := c20Seed(rng)
		switch r := rng.Intn(10); {
		case r < 1: // mid-size n, full
			m := uint64(rng.Range(2, 400))
			put(0, m, seed, nil, "full-mid-n", st)
		case r < 6: // random n of random magnitude, sampled
			k := rng.Intn(63) + 1
			m := rng.U64()>>(64-k) | 1<<(k-1)
			if m < 2 {
				m = 2
			}
			var xs []uint64
			for j := 0; j < 8; j++ {
				xs = append(xs, rng.U64()%m)
			}
			// neighbours, to catch collisions of adjacent indices
			x0 := rng.U64() % m
			for j := uint64(0); j < 4 && x0+j < m; j++ {
				xs = append(xs, x0+j)
			}
			put(1, m, seed, xs, "sampled-n", fmt.Sprintf("bits=%d", bits.Len64(m-1)/8*8), st)
		case r < 8: // feistel directly, all widths 0..64, arguments also above 2^bits
			b := uint64(rng.Intn(65))
			var xs []uint64
			for j := 0; j < 8; j++ {
				x := rng.U64()
				if b < 64 && rng.Chance(0.8) {
					x &= (uint64(1) << b) - 1
				}
				xs = append(xs, x)
			}
			put(2, b, seed, xs, "feistel", st)
		case r < 9:
			var xs []uint64
			for j := 0; j < 6; j++ {
				xs = append(xs, rng.U64()>>uint(rng.Intn(64)))
			}
			put(4, 0, rng.U64()>>uint(rng.Intn(64)), xs, "roundFunc")
		default: // n just above a power of two: long rejection walks
			k := rng.Intn(20) + 2
			m := uint64(1)<<k + uint64(rng.Intn(3)) + 1
			var xs []uint64
			for j := 0; j < 12; j++ {
				xs = append(xs, rng.U64()%m)
			}
			put(1, m, seed, xs, "just-above-pow2", st)
		}
	}
}

// ---------------------------------------------------------------------------------------------
// file -> chunker -> lines

// optional hook (epd/export_verif_c20.go): replaces the refill buffer of a window
type c20SetBacking interface{ VerifSetBacking(n int) }

func c20HookPresent() bool {
	_, ok := any(&epd.Chunk{}).(c20SetBacking)
	return ok
}

func runC20File(a hx.Args) string {
	// Every case starts from the state of a fresh process as far as the package can be reset from
	// outside: a sync.Pool is emptied by two collections (the second one drops the victim cache).
	// Without this a case can fail because of what an EARLIER case left in a package-level pool or
	// cache, and its input alone would not reproduce the failure in a replay.
	// One P while the case runs: which of two pooled objects a Get returns then does not depend on
	// the scheduler (per-P caches), so a session that fails fails again in the replay.
	runtime.GC()
	runtime.GC()
	defer runtime.GOMAXPROCS(runtime.GOMAXPROCS(1))
	return c20Guard(20*time.Second, func() string { return runC20FileRaw(a) })
}

func runC20FileRaw(a hx.Args) string {
	mode, B, epoch, start, end := a.Int(0), a.Int(1), a.Int(2), a.Int(3), a.Int(4)
	data := a.Bytes(6, 6+a.Int(5))
	fail := func(st int) string { return (&hx.Nums{}).Int(st, 0).String() }
	if B != epd.VerifBackingBytes && !c20HookPresent() || B < 0 {
		return fail(4)
	}
	f, err := os.CreateTemp("", "c20-*.epd")
	if err != nil {
		panic(err)
	}
	defer os.Remove(f.Name())
	if _, err := f.Write(data); err != nil {
		panic(err)
	}
	f.Close()

	ck, err := epd.NewChunker(f.Name())
	if err != nil {
		return fail(1)
	}
	var lines [][]byte
	if mode == 4 {
		st, got := c20Session(ck, B, epoch, start, end)
		if st != 0 {
			return fail(st)
		}
		lines = got
	}
	window := func(s, e int) int {
		ch, err := ck.Open(epoch, s, e)
		if err != nil {
			return 2
		}
		defer ch.Close()
		if B != epd.VerifBackingBytes {
			any(ch).(c20SetBacking).VerifSetBacking(B)
		}
		for {
			l, err := ch.Read()
			if err == io.EOF {
				return 0
			}
			if err != nil {
				return 3
			}
			lines = append(lines, bytes.Clone(l))
		}
	}
	switch mode {
	case 0:
		if st := window(start, end); st != 0 {
			return fail(st)
		}
	case 1:
		for batch := range tuning.Batches(ck.LineCount()) {
			for c := range tuning.Chunks(batch) {
				if st := window(c.Start, c.End); st != 0 {
					return fail(st)
				}
			}
		}
	case 2:
		c := max(start, 1)
		for s := 0; s < ck.LineCount(); s += c {
			if st := window(s, min(s+c, ck.LineCount())); st != 0 {
				return fail(st)
			}
		}
	case 3:
		// the Seq is obtained once, before the epoch loop
		batches := tuning.Batches(ck.LineCount())
		first := epoch
		for i := 0; i < start; i++ {
			epoch = first + i
			for batch := range batches {
				for c := range tuning.Chunks(batch) {
					if st := window(c.Start, c.End); st != 0 {
						return fail(st)
					}
				}
			}
		}
	}
	sort.SliceStable(lines, func(i, j int) bool { return bytes.Compare(lines[i], lines[j]) < 0 })
	out := (&hx.Nums{}).Int(0, len(lines))
	for _, l := range lines {
		out.Int(len(l)).Bytes(l)
	}
	return out.String()
}

// c20Windows decodes the cut points of a session: boundaries 0, the non-zero 16-bit fields of
// packed in their order, n.
func c20Windows(packed, n int) [][2]int {
	b := []int{0}
	for k := 0; k < 3; k++ {
		if c := (packed >> (16 * k)) & 0xffff; c != 0 {
			b = append(b, c)
		}
	}
	b = append(b, n)
	var ws [][2]int
	for k := 0; k+1 < len(b); k++ {
		ws = append(ws, [2]int{b[k], b[k+1]})
	}
	return ws
}

// c20Session runs a multi-chunk session (mode 4 of c20_file) and returns the lines of the completed
// pass of every window.
func c20Session(ck *epd.Chunker, B, epoch, cuts, script int) (int, [][]byte) {
	type win struct {
		s, e   int
		ch     *epd.Chunk // open chunk
		closed *epd.Chunk // the chunk closed last
		got    [][]byte
		done   bool
	}
	var ws []*win
	for _, w := range c20Windows(cuts, ck.LineCount()) {
		ws = append(ws, &win{s: w[0], e: w[1]})
	}
	open := func(w *win) int {
		ch, err := ck.Open(epoch, w.s, w.e)
		if err != nil {
			return 2
		}
		if B != epd.VerifBackingBytes {
			any(ch).(c20SetBacking).VerifSetBacking(B)
		}
		w.ch, w.got, w.done = ch, nil, false
		return 0
	}
	readOne := func(w *win) int {
		if w.done {
			return 0
		}
		if w.ch == nil {
			if st := open(w); st != 0 {
				return st
			}
		}
		l, err := w.ch.Read()
		if err == io.EOF {
			w.done = true
			return 0
		}
		if err != nil {
			return 3
		}
		w.got = append(w.got, bytes.Clone(l))
		return 0
	}
	drain := func(w *win) int {
		for !w.done {
			if st := readOne(w); st != 0 {
				return st
			}
		}
		return 0
	}
	for k := 0; k < 12; k++ {
		d := (script >> (5 * k)) & 31
		if d == 0 {
			break
		}
		op, w := (d-1)/4, ws[(d-1)%4%len(ws)]
		st := 0
		switch op {
		case 0:
			st = readOne(w)
		case 1:
			st = drain(w)
		case 2:
			if w.ch != nil {
				w.ch.Close()
				w.closed, w.ch = w.ch, nil
				if !w.done {
					w.got = nil // abandoned; opened again later
				}
			}
		case 3:
			if w.ch != nil {
				if w.ch.Rewind() != nil {
					st = 3
				}
				w.got, w.done = nil, false
			}
		case 4:
			if w.ch != nil && w.done {
				if _, err := w.ch.Read(); err != io.EOF {
					st = 3
				}
			}
		default:
			if w.closed != nil {
				w.closed.Close()
			}
		}
		if st != 0 {
			return st, nil
		}
	}
	var lines [][]byte
	for _, w := range ws {
		if st := drain(w); st != 0 {
			return st, nil
		}
	}
	for _, w := range ws {
		if w.ch != nil {
			w.ch.Close()
		}
		lines = append(lines, w.got...)
	}
	return 0, lines
}

// c20Text builds a file: nl non-blank lines with lengths from lenOf, blank lines sprinkled in
// with probability pBlank (also at the start and at the end), last line terminated or not.
func c20Text(rng *hx.Rng, nl int, lenOf func() int, pBlank float64, terminated bool, alphabet int) []byte {
	var b []byte
	for rng.Chance(pBlank) {
		b = append(b, '\n')
	}
	for i := 0; i < nl; i++ {
		l := lenOf()
		for j := 0; j < l; j++ {
			var c byte
			if alphabet > 0 {
				c = byte('a' + rng.Intn(alphabet))
			} else {
				c = byte(rng.Intn(256))
				if c == '\n' {
					c = '\r'
				}
			}
			b = append(b, c)
		}
		if i < nl-1 || terminated {
			b = append(b, '\n')
			for rng.Chance(pBlank) {
				b = append(b, '\n')
			}
		}
	}
	return b
}

func c20FileCase(mode, B int, epoch int64, start, end int, data []byte, tags ...string) hx.Input {
	in := (&hx.Nums{}).Int(mode, B).I(epoch).Int(start, end, len(data)).Bytes(data).String()
	q := strconv.QuoteToASCII(string(data))
	if len(q) > 400 {
		q = q[:400] + fmt.Sprintf("...(%d bytes)", len(data))
	}
	what := map[int]string{0: fmt.Sprintf("Open(epoch=%d, %d, %d)", epoch, start, end),
		1: fmt.Sprintf("every Chunks of every Batches, epoch=%d", epoch),
		2: fmt.Sprintf("windows of %d lines, epoch=%d", max(start, 1), epoch),
		3: fmt.Sprintf("%d epochs from %d on through ONE hoisted tuning.Batches value", start, epoch),
		4: c20SessionDesc(epoch, start, end)}[mode]
	nonblank := 0
	for _, l := range bytes.Split(data, []byte{'\n'}) {
		if len(l) > 0 {
			nonblank++
		}
	}
	return hx.Input{In: in, Desc: fmt.Sprintf("file %s read with %s, refill buffer %d", q, what, B),
		Tags: tags, NonTrivial: nonblank > 1}
}

func c20SessionDesc(epoch int64, cuts, script int) string {
	var cs []int
	for k := 0; k < 3; k++ {
		if c := (cuts >> (16 * k)) & 0xffff; c != 0 {
			cs = append(cs, c)
		}
	}
	names := []string{"read1", "readEOF", "Close", "Rewind", "readAfterEOF", "CloseAgain"}
	steps := ""
	for k := 0; k < 12; k++ {
		d := (script >> (5 * k)) & 31
		if d == 0 {
			break
		}
		steps += fmt.Sprintf(" %s(w%d)", names[min((d-1)/4, 5)], (d-1)%4%(len(cs)+1))
	}
	return fmt.Sprintf("a session, epoch=%d, windows cut at %v, steps%s, then every window completed", epoch, cs, steps)
}

func c20Epoch(rng *hx.Rng) int64 {
	switch rng.Intn(4) {
	case 0:
		return int64(rng.Intn(8))
	case 1:
		return int64(rng.Intn(100000))
	case 2:
		return -int64(rng.Intn(1000)) - 1
	default:
		return int64(rng.U64())
	}
}

func genC20File(rng *hx.Rng, n int, tier string, emit func(hx.Input)) {
	hook := c20HookPresent()
	back := epd.VerifBackingBytes
	// F4's witness and its relatives first
	for _, s := range []string{"abc\n\ndef\nghij\n\n", "\n\nabc\n\n\ndef\n", "abc\ndef", "abc", "", "\n", "\n\n\n", "a\n"} {
		emit(c20FileCase(1, back, 0, 0, 0, []byte(s), "fixed-witness"))
		emit(c20FileCase(0, back, 3, 0, 1, []byte(s), "fixed-witness"))
	}
	cnt := 16
	for cnt < n {
		var tags []string
		// shape of the file
		nl := rng.Intn(40)
		switch rng.Intn(10) {
		case 0:
			nl = rng.Intn(4)
		case 1:
			nl = 40 + rng.Intn(200)
		}
		maxLen := 1
		var lenOf func() int
		switch rng.Intn(4) {
		case 0:
			lenOf = func() int { return 1 + rng.Intn(3) }
			tags = append(tags, "len1-3")
		case 1:
			lenOf = func() int { return 1 + rng.Intn(40) }
			tags = append(tags, "len1-40")
		case 2:
			k := 1 + rng.Intn(12)
			lenOf = func() int { return k }
			tags = append(tags, "len-const")
		default:
			lenOf = func() int {
				if rng.Chance(0.1) {
					return 60 + rng.Intn(100)
				}
				return 1 + rng.Intn(10)
			}
			tags = append(tags, "len-mixed")
		}
		if nl > 60 {
			lenOf = func() int { return 1 + rng.Intn(6) }
		}
		track := lenOf
		lenOf = func() int { l := track(); maxLen = max(maxLen, l); return l }
		pBlank := []float64{0, 0.1, 0.3, 0.6}[rng.Intn(4)]
		if pBlank > 0 {
			tags = append(tags, "blank-lines")
		}
		terminated := !rng.Chance(0.08)
		if !terminated {
			tags = append(tags, "last-line-unterminated")
		}
		alphabet := []int{2, 26, 0}[rng.Intn(3)]
		data := c20Text(rng, nl, lenOf, pBlank, terminated, alphabet)
		// malformed share: a line longer than the line reader's buffer
		if rng.Chance(0.015) {
			long := bytes.Repeat([]byte{'x'}, 4090+rng.Intn(12))
			maxLen = max(maxLen, len(long))
			at := 0
			if len(data) > 0 && rng.Bool() {
				at = bytes.LastIndexByte(data, '\n') + 1
			}
			data = append(append(append([]byte{}, data[:at]...), append(long, '\n')...), data[at:]...)
			tags = append(tags, "line-near-4096")
		}
		// refill buffer
		B := back
		if hook {
			switch rng.Intn(6) {
			case 0:
				B = maxLen // smallest legal buffer: every line refills
			case 1:
				B = maxLen + 1
			case 2:
				B = maxLen + rng.Intn(20)
			case 3:
				B = maxLen + rng.Intn(len(data)+1)
			case 4:
				B = max(maxLen-1-rng.Intn(2), 0) // too small: outside the property's domain
				tags = append(tags, "buffer-too-small")
			default:
				B = back
			}
			if B < len(data) {
				tags = append(tags, "refills")
			} else {
				tags = append(tags, "single-fill")
			}
		} else {
			tags = append(tags, "single-fill(no-hook)")
		}
		epoch := c20Epoch(rng)
		if nl >= 6 && nl < 60000 && terminated && rng.Chance(0.22) {
			if rng.Chance(0.35) {
				// the Batches value hoisted out of the epoch loop
				emit(c20FileCase(3, B, int64(int32(epoch)), 2+rng.Intn(2), 0, data, append(tags, "hoisted-batches-epochs")...))
			} else {
				// several chunks open at once: sharing a recycled buffer only shows with the
				// production buffer (one fill per window), so that is the usual choice
				if rng.Chance(0.7) {
					B = back
				}
				cuts, script, kind := c20GenSession(rng, nl)
				emit(c20FileCase(4, B, epoch, cuts, script, data, append(tags, "session", "session-"+kind)...))
			}
			cnt++
			continue
		}
		switch r := rng.Intn(10); {
		case r < 4: // one window
			lo, hi := 0, 0
			if nl > 0 {
				lo = rng.Intn(nl)
				hi = lo + rng.Intn(nl-lo+1)
			}
			if rng.Chance(0.06) { // malformed window
				lo, hi = int(rng.Range(-2, int64(nl)+2)), int(rng.Range(-2, int64(nl)+2))
				tags = append(tags, "window-wild")
			}
			emit(c20FileCase(0, B, epoch, lo, hi, data, append(tags, "window")...))
		case r < 8:
			emit(c20FileCase(1, B, epoch, 0, 0, data, append(tags, "epoch-batches-chunks")...))
		default:
			// every Open allocates backingBytes (32 MiB): keep the number of windows small
			w := 1 + rng.Intn(5)
			emit(c20FileCase(2, B, epoch, max((nl+w-1)/w+rng.Intn(2), 1), 0, data, append(tags, "epoch-windows")...))
		}
		cnt++
	}
}

// c20GenSession draws the cut points and the script of a multi-chunk session over nl >= 6 lines.
func c20GenSession(rng *hx.Rng, nl int) (cuts, script int, kind string) {
	nw := 2 + rng.Intn(3)
	if nl < 2*nw {
		nw = 2
	}
	// nw windows of at least two lines: the spare lines are dealt out at random
	sizes := make([]int, nw)
	for k := range sizes {
		sizes[k] = 2
	}
	for spare := nl - 2*nw; spare > 0; spare-- {
		sizes[rng.Intn(nw)]++
	}
	var sorted []int
	for k, at := 0, 0; k < nw-1; k++ {
		at += sizes[k]
		sorted = append(sorted, at)
	}
	for k, c := range sorted {
		cuts |= c << (16 * k)
	}
	var steps []int
	add := func(op, w int) { steps = append(steps, 1+op*4+w%nw) }
	switch rng.Intn(4) {
	case 0:
		// a window is finished (EOF, then Close) before two others are opened and read in turn
		kind = "finish-then-two-at-once"
		add(1, 0)
		if rng.Chance(0.3) {
			add(4, 0)
		}
		add(2, 0)
		a, b := 1, 2
		for k := 0; k < 4; k++ {
			add(0, a)
			add(0, b)
		}
	case 1:
		// all windows open from the start, one line each in turn
		kind = "round-robin"
		for k := 0; k < 12; k++ {
			add(0, k)
		}
	case 2:
		// a window is abandoned half way (Close without EOF), another one rewound
		kind = "abandon-rewind"
		add(0, 0)
		add(0, 1)
		add(2, 0)
		add(0, 1)
		add(3, 1)
		add(0, 2)
		add(0, 0)
		add(0, 1)
		add(1, 2)
		add(2, 2)
		add(5, 2)
		add(0, 0)
	default:
		kind = "random"
		for k := 0; k < 12; k++ {
			op := []int{0, 0, 0, 0, 1, 2, 2, 3, 4, 5}[rng.Intn(10)]
			add(op, rng.Intn(nw))
		}
	}
	for k, d := range steps {
		if k < 12 {
			script |= d << (5 * k)
		}
	}
	return cuts, script, kind
}

// files with more lines than one batch (and one chunk): the tuner's own schedule has several
// batches of NumChunksInBatch chunks. Implementation + judge only.
func genC20Big(rng *hx.Rng, n int, tier string, emit func(hx.Input)) {
	for i := 0; i < n; i++ {
		nl := tuning.NumLinesInBatch + 1 + rng.Intn(tuning.NumLinesInBatch/2)
		if i%2 == 1 {
			nl = tuning.NumLinesInBatch/tuning.NumChunksInBatch + 1 + rng.Intn(3*tuning.NumLinesInBatch/tuning.NumChunksInBatch)
		}
		data := c20Text(rng, nl, func() int { return 1 + rng.Intn(3) }, 0.05, true, 26)
		emit(c20FileCase(1, epd.VerifBackingBytes, c20Epoch(rng), 0, 0, data, "big", fmt.Sprintf("lines>%d", nl/50000*50000)))
	}
}

// ---------------------------------------------------------------------------------------------
// batches / chunks

func runC20Batch(a hx.Args) string {
	out := &hx.Nums{}
	switch a.Int(0) {
	case 0:
		for r := range tuning.Batches(a.Int(1)) {
			out.Int(r.Start, r.End)
		}
	case 1:
		for r := range tuning.Chunks(tuning.Range{Start: a.Int(1), End: a.Int(2)}) {
			out.Int(r.Start, r.End)
		}
	case 2:
		nseq := a.Int(1)
		seqs := make([]iter.Seq[tuning.Range], nseq)
		for k := range seqs {
			if a.Int(3+3*k) == 0 {
				seqs[k] = tuning.Batches(a.Int(4 + 3*k))
			} else {
				seqs[k] = tuning.Chunks(tuning.Range{Start: a.Int(4 + 3*k), End: a.Int(5 + 3*k)})
			}
		}
		record := func(rs []tuning.Range) {
			out.Int(len(rs))
			for _, r := range rs {
				out.Int(r.Start, r.End)
			}
		}
		for p, q := 3+3*nseq, 0; q < a.Int(2) && p+3 < a.Len(); p, q = p+4, q+1 {
			i, stop, j, at := a.Int(p), a.Int(p+1), a.Int(p+2), a.Int(p+3)
			var outer, inner []tuning.Range
			ran := false
			for r := range seqs[i] {
				outer = append(outer, r)
				if j >= 0 && len(outer)-1 == at {
					for q := range seqs[j] {
						inner = append(inner, q)
					}
					ran = true
				}
				if stop >= 1 && len(outer) >= stop {
					break
				}
			}
			record(outer)
			if ran {
				record(inner)
			}
		}
	default:
		batches := tuning.Batches(a.Int(1))
		for rep := 0; rep < a.Int(2); rep++ {
			var cs []tuning.Range
			for b := range batches {
				for c := range tuning.Chunks(b) {
					cs = append(cs, c)
				}
			}
			out.Int(len(cs))
			for _, c := range cs {
				out.Int(c.Start, c.End)
			}
		}
	}
	return out.String()
}

func genC20Batch(rng *hx.Rng, n int, tier string, emit func(hx.Input)) {
	L, C := tuning.NumLinesInBatch, tuning.NumChunksInBatch
	per := (L + C - 1) / C
	cnt := 0
	batches := func(m int, tag string) {
		emit(hx.Input{In: (&hx.Nums{}).Int(0, m, 0).String(), Desc: fmt.Sprintf("Batches(%d)", m),
			Tags: []string{"batches", tag}, NonTrivial: m > 0})
		cnt++
	}
	chunks := func(s, e int, tag string) {
		emit(hx.Input{In: (&hx.Nums{}).Int(1, s, e).String(), Desc: fmt.Sprintf("Chunks({%d %d})", s, e),
			Tags: []string{"chunks", tag}, NonTrivial: e > s})
		cnt++
	}
	for _, m := range []int{-1, 0, 1, 2, per - 1, per, per + 1, L - 1, L, L + 1, 2*L - 1, 2 * L, 2*L + 1, 10*L + 7} {
		batches(m, "boundary")
	}
	for _, k := range []int{0, 1, 2, 5} {
		for _, d := range []int{0, 1, 2, per - 1, per, per + 1, 2 * per, L - per, L - per + 1, L - 1, L} {
			chunks(k*L, k*L+d, "boundary")
		}
	}
	// RE-USE: one iter.Seq value ranged several times, after a break, nested, interleaved
	argOf := func() (int, int, int) { // kind, a, b
		if rng.Bool() {
			return 0, []int{1, L - 1, L, L + 1, 2*L + 7, rng.Intn(6 * L), rng.Intn(30 * L)}[rng.Intn(7)], 0
		}
		k := rng.Intn(20)
		return 1, k * L, k*L + []int{1, per, per + 1, L - 1, L, 1 + rng.Intn(L)}[rng.Intn(6)]
	}
	lenOf := func(kind, a, b int) int {
		if kind == 0 {
			return (a + L - 1) / L
		}
		return (b - a + per - 1) / per
	}
	reuse := func() {
		nseq := 1 + rng.Intn(3)
		nsteps := 2 + rng.Intn(4)
		in := (&hx.Nums{}).Int(2, nseq, nsteps)
		desc := "re-use of"
		var lens []int
		for k := 0; k < nseq; k++ {
			kind, a, b := argOf()
			in.Int(kind, a, b)
			lens = append(lens, lenOf(kind, a, b))
			if kind == 0 {
				desc += fmt.Sprintf(" q%d=Batches(%d)", k, a)
			} else {
				desc += fmt.Sprintf(" q%d=Chunks({%d %d})", k, a, b)
			}
		}
		tags := map[string]bool{"reuse": true}
		for step := 0; step < nsteps; step++ {
			i := rng.Intn(nseq)
			if step < 2 && rng.Chance(0.7) {
				i = 0 // the same value twice in a row
			}
			stop, j, at := 0, -1, 0
			switch rng.Intn(5) {
			case 0, 1:
				tags["reuse-full-again"] = true
			case 2:
				stop = 1 + rng.Intn(max(lens[i], 1))
				tags["reuse-after-break"] = true
			case 3:
				j, at = rng.Intn(nseq), rng.Intn(max(lens[i], 1))
				tags["reuse-nested"] = true
			default:
				stop, j = 1+rng.Intn(max(lens[i], 1)), rng.Intn(nseq)
				at = rng.Intn(stop)
				tags["reuse-nested"], tags["reuse-after-break"] = true, true
			}
			in.Int(i, stop, j, at)
			desc += fmt.Sprintf("; range q%d", i)
			if stop >= 1 {
				desc += fmt.Sprintf(" break after %d", stop)
			}
			if j >= 0 {
				desc += fmt.Sprintf(" with q%d ranged inside at item %d", j, at)
			}
		}
		var ts []string
		for t := range tags {
			ts = append(ts, t)
		}
		sort.Strings(ts)
		emit(hx.Input{In: in.String(), Desc: desc, Tags: ts, NonTrivial: true})
		cnt++
	}
	hoisted := func() {
		m, reps := []int{1, L, L + 1, 2*L + 7, rng.Intn(5 * L)}[rng.Intn(5)], 2+rng.Intn(2)
		emit(hx.Input{In: (&hx.Nums{}).Int(3, m, reps).String(),
			Desc: fmt.Sprintf("one Batches(%d) value ranged %d times, Chunks(batch) inside", m, reps),
			Tags: []string{"reuse", "reuse-hoisted-schedule"}, NonTrivial: m > 0})
		cnt++
	}
	for cnt < n {
		if rng.Chance(0.3) {
			if rng.Chance(0.8) {
				reuse()
			} else {
				hoisted()
			}
			continue
		}
		switch rng.Intn(6) {
		case 0:
			batches(rng.Intn(3*L), "random<3L")
		case 1:
			batches(rng.Intn(60*L), "random<60L")
		case 2: // a batch as Batches produces them
			k := rng.Intn(50)
			chunks(k*L, k*L+1+rng.Intn(L), "batch-shaped")
		case 3:
			k := rng.Intn(50)
			chunks(k*L, k*L+L, "full-batch")
		case 4: // chunk multiples +-1
			k, j := rng.Intn(50), rng.Intn(C+1)
			chunks(k*L, k*L+max(j*per+rng.Intn(3)-1, 0), "chunk-multiple+-1")
		default: // arbitrary ranges, also longer than a batch and empty / inverted
			s := rng.Intn(10 * L)
			chunks(s, s+int(rng.Range(-3, int64(3*L))), "arbitrary")
		}
	}
}

// ---------------------------------------------------------------------------------------------
// c20_huge: files of 9..40 MB (beyond the 8 MiB / 32 MiB sizes at which an implementation may start
// to scan or read in segments), described by a few numbers instead of their bytes: the runner builds
// the file from the descriptor, reads it through the tuner's own Batches/Chunks schedule for the
// given epoch and reports a digest of the comparison "delivered lines vs non-blank lines of the file"
// (multiset comparison done here; the judge only reads the counters). Lines are laid out so that a
// non-blank line STARTS exactly on every multiple of 1 MiB (hence on 4, 8, 16, 32 MiB), another one
// ENDS exactly there, and a blank line sits right behind some of them.
//
// input  = [seed mib epoch]      output = [status expected delivered missing extra maxLineLen boundaryStarts]
func init() {
	hx.Register(&hx.Stream{Name: "c20_huge", Gen: genC20Huge, Run: runC20Huge})
}

func c20HugeData(seed uint64, mib int) ([]byte, int) {
	r := hx.NewRng(seed)
	size := mib << 20
	data := make([]byte, 0, size+256)
	const step = 1 << 20
	next := step
	starts := 0
	for len(data) < size {
		l := 8 + r.Intn(110)
		room := next - len(data)
		switch {
		case room == 0:
			// a line starts exactly on the boundary
			starts++
			next += step
		case room <= 130:
			// end this line exactly on the boundary (room-1 bytes + newline); sometimes leave a blank line
			// in front of the boundary instead
			if room >= 3 && r.Chance(0.3) {
				l = room - 2
				for i := 0; i < l; i++ {
					data = append(data, byte('a'+r.Intn(26)))
				}
				data = append(data, '\n', '\n')
				continue
			}
			l = room - 1
		}
		for i := 0; i < l; i++ {
			data = append(data, byte('a'+r.Intn(26)))
		}
		data = append(data, '\n')
		if next-len(data) > 140 && r.Chance(0.01) {
			data = append(data, '\n') // a blank line away from the boundaries
		}
	}
	return data, starts
}

func runC20Huge(a hx.Args) string {
	return c20Guard(120*time.Second, func() string {
		seed, mib, epoch := a.U64(0), a.Int(1), a.Int(2)
		if mib < 1 || mib > 64 {
			return "badinput"
		}
		data, starts := c20HugeData(seed, mib)
		f, err := os.CreateTemp("", "c20huge-*.epd")
		if err != nil {
			panic(err)
		}
		defer os.Remove(f.Name())
		if _, err := f.Write(data); err != nil {
			panic(err)
		}
		f.Close()
		want := map[string]int{}
		expected, maxLen := 0, 0
		for _, l := range bytes.Split(data, []byte{'\n'}) {
			if len(l) > 0 {
				want[string(l)]++
				expected++
				maxLen = max(maxLen, len(l))
			}
		}
		data = nil
		out := &hx.Nums{}
		ck, err := epd.NewChunker(f.Name())
		if err != nil {
			return out.Int(1, expected, 0, 0, 0, maxLen, starts).String()
		}
		delivered, extra := 0, 0
		for batch := range tuning.Batches(ck.LineCount()) {
			for c := range tuning.Chunks(batch) {
				ch, err := ck.Open(epoch, c.Start, c.End)
				if err != nil {
					return out.Int(2, expected, delivered, 0, 0, maxLen, starts).String()
				}
				for {
					l, err := ch.Read()
					if err == io.EOF {
						break
					}
					if err != nil {
						ch.Close()
						return out.Int(3, expected, delivered, 0, 0, maxLen, starts).String()
					}
					delivered++
					if want[string(l)] > 0 {
						want[string(l)]--
					} else {
						extra++
					}
				}
				ch.Close()
			}
		}
		missing := 0
		for _, k := range want {
			missing += k
		}
		return out.Int(0, expected, delivered, missing, extra, maxLen, starts).String()
	})
}

func genC20Huge(rng *hx.Rng, n int, tier string, emit func(hx.Input)) {
	for i := 0; i < n; i++ {
		mib := []int{9, 17, 12, 33, 24, 40}[i%6]
		if tier == "quick" {
			mib = []int{9, 17}[i%2]
		}
		seed := rng.U64() >> 1
		epoch := c20Epoch(rng)
		in := (&hx.Nums{}).U(seed).Int(mib).I(epoch).String()
		emit(hx.Input{In: in, Desc: fmt.Sprintf("generated file of %d MiB (seed %d; a line starts on every multiple of 1 MiB), every Chunks of every Batches, epoch=%d", mib, seed, epoch),
			Tags: []string{fmt.Sprintf("size=%dMiB", mib)}, NonTrivial: true})
	}
}
