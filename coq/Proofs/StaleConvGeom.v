(* Finite geometric facts for the converse direction of IsStalemate: a man that stands on a line
   between the king and an enemy slider and moves in a way its pin line does not allow leaves the line
   and does not take the pinner. *)
From Coq Require Import NArith ZArith List Bool Lia.
From Chess3 Require Import Base.Bits Model.Types Spec.Geometry Model.Att Model.BoardDef Spec.Chess
     Proofs.MateGeom Proofs.MateStale Proofs.MatePinGeom.
Import ListNotations.
Open Scope N_scope.

(* every square d of the prefix from k to u: the squares reach(d) are off the prefix and are not u *)
Definition offline_check (dirs : list (Z * Z)) (reach : N -> N) (k u : N) : bool :=
  match pfx dirs k u with
  | None => true
  | Some pre => forallb (fun d => forallb (fun t => negb (memb t pre) && negb (t =? u)) (bits_of (reach d))) pre
  end.

Lemma offline_fact dirs reach :
  forallb (fun k => forallb (offline_check dirs reach k) squares64) squares64 = true ->
  forall k u pre d t, k < 64 -> u < 64 -> pfx dirs k u = Some pre -> In d pre -> N.testbit (reach d) t = true ->
  ~ In t pre /\ t <> u.
Proof.
  intros H k u pre d t Hk Hu Hp Hd Ht.
  pose proof (forall_sq2 (offline_check dirs reach) H k u Hk Hu) as C. unfold offline_check in C. rewrite Hp in C.
  rewrite forallb_forall in C. specialize (C d Hd). rewrite forallb_forall in C.
  specialize (C t (proj2 (bits_of_spec _ _) Ht)). apply andb_prop in C. destruct C as [C1 C2].
  apply negb_true_iff in C1, C2. split.
  - intros X. apply memb_In in X. congruence.
  - apply N.eqb_neq. exact C2.
Qed.

Definition bishop_reach (d : N) : N := bishop_attacks d 0.
Definition rook_reach (d : N) : N := rook_attacks d 0.
Definition pawn_reach (c : color) (d : N) : N := pawn_attacks c d.

Lemma off_rook_bishop : forallb (fun k => forallb (offline_check rook_dirs bishop_reach k) squares64) squares64 = true.
Proof. vm_cast_no_check (eq_refl true). Qed.
Lemma off_bishop_rook : forallb (fun k => forallb (offline_check bishop_dirs rook_reach k) squares64) squares64 = true.
Proof. vm_cast_no_check (eq_refl true). Qed.
Lemma off_rook_knight : forallb (fun k => forallb (offline_check rook_dirs knight_attacks k) squares64) squares64 = true.
Proof. vm_cast_no_check (eq_refl true). Qed.
Lemma off_bishop_knight : forallb (fun k => forallb (offline_check bishop_dirs knight_attacks k) squares64) squares64 = true.
Proof. vm_cast_no_check (eq_refl true). Qed.
Lemma off_rook_pawn c : forallb (fun k => forallb (offline_check rook_dirs (pawn_reach c) k) squares64) squares64 = true.
Proof. destruct c; vm_cast_no_check (eq_refl true). Qed.

(* a double step does not return to a line the single step has left *)
Definition dpush_check (dirs : list (Z * Z)) (c : color) (k u : N) : bool :=
  match pfx dirs k u with
  | None => true
  | Some pre => forallb (fun d => memb (fwd c d) pre || negb (memb (fwd c (fwd c d)) pre)) pre
  end.
Lemma dpush_fact dirs c :
  forallb (fun k => forallb (dpush_check dirs c k) squares64) squares64 = true ->
  forall k u pre d, k < 64 -> u < 64 -> pfx dirs k u = Some pre -> In d pre -> ~ In (fwd c d) pre ->
  ~ In (fwd c (fwd c d)) pre.
Proof.
  intros H k u pre d Hk Hu Hp Hd Hn X.
  pose proof (forall_sq2 (dpush_check dirs c) H k u Hk Hu) as C. unfold dpush_check in C. rewrite Hp in C.
  rewrite forallb_forall in C. specialize (C d Hd). apply orb_true_iff in C. destruct C as [C|C].
  - apply memb_In in C. contradiction.
  - apply negb_true_iff in C. apply memb_In in X. congruence.
Qed.
Lemma dpush_rook c : forallb (fun k => forallb (dpush_check rook_dirs c k) squares64) squares64 = true.
Proof. destruct c; vm_cast_no_check (eq_refl true). Qed.
Lemma dpush_bishop c : forallb (fun k => forallb (dpush_check bishop_dirs c k) squares64) squares64 = true.
Proof. destruct c; vm_cast_no_check (eq_refl true). Qed.

(* sliders on an empty board reach at least what they reach on any board *)
Lemma bishop_reach_mono d occ t : N.testbit (bishop_attacks d occ) t = true -> N.testbit (bishop_reach d) t = true.
Proof.
  unfold bishop_reach. rewrite !bishop_testbit. apply hit_mono. intros x Hx. rewrite N.bits_0 in Hx. discriminate.
Qed.
Lemma rook_reach_mono d occ t : N.testbit (rook_attacks d occ) t = true -> N.testbit (rook_reach d) t = true.
Proof.
  unfold rook_reach. rewrite !rook_testbit. apply hit_mono. intros x Hx. rewrite N.bits_0 in Hx. discriminate.
Qed.
