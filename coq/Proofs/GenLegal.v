(* C01: the playable moves are exactly the legal moves, without repetition - assembly of
   gen <-> pseudo_spec (GenSpecPre), the legality filter (GenMake) and NoDup (GenNoDup).
   Stated for [MRep] (the representation invariant without the hash history and the clock, which the
   generator, MakeMove's placement and InCheck do not read); [Rep] implies it. *)
From Coq Require Import NArith ZArith List Bool Lia.
From Chess3 Require Import Base.Bits Model.Types Spec.Geometry Model.Att Model.BoardDef Model.Board
  Model.Movegen Spec.Chess Spec.Rep Proofs.GenBase Proofs.GenRep Proofs.GenPieces Proofs.GenPawns
  Proofs.GenSpecPre Proofs.GenNoDup Proofs.GenMake.
Import ListNotations.
Open Scope N_scope.

Definition MRep (b : board) : Prop := PRep b /\ ep b < 64 /\ castles b < 16.

Lemma Rep_MRep b : Rep b -> MRep b.
Proof.
  intros H. split; [apply Rep_PRep; exact H|].
  unfold Rep, rep_ok in H. rewrite !andb_true_iff in H.
  destruct H as [[[[[_ E] C] _] _] _]. split; apply N.ltb_lt; assumption.
Qed.

Section Core.
Variable z : zobrist.
Variable b : board.
Hypothesis HR : PRep b.
Hypothesis HV : valid (abs b) = true.
Hypothesis castle_H : forall m, m < 32768 -> (In m (castle_lists b) <-> castle_clause b m).
Hypothesis castle_ND : NoDup (castle_lists b).

Lemma playable_iff_P m : In m (playable z b) <-> (m < 32768 /\ legal_spec (abs b) m = true).
Proof.
  unfold playable, legal_spec. rewrite filter_In, andb_true_iff, !negb_true_iff. change (turn (abs b)) with (stm b).
  split.
  - intros [Hin Hc]. pose proof (gen_all_lt b m Hin) as Hm. split; [exact Hm|].
    apply (gen_iff_spec_P b HR HV castle_H m Hm) in Hin. split; [exact Hin|].
    rewrite <- (filter_ok z b m HR HV Hin). exact Hc.
  - intros [Hm [Hp Hc]]. split; [apply (gen_iff_spec_P b HR HV castle_H m Hm); exact Hp|].
    rewrite (filter_ok z b m HR HV Hp). exact Hc.
Qed.

Lemma playable_NoDup_P : NoDup (playable z b).
Proof. unfold playable. apply NoDup_filter. apply (gen_all_NoDup_P b HR HV castle_H castle_ND). Qed.

End Core.
