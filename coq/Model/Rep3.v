(* Playing a list of moves on the board model (the engine's MakeMove loop, as used by
   uci.applyMoves and by every caller that keeps a game history), and the boards met on the way. *)
From Coq Require Import NArith ZArith List Bool.
From Chess3 Require Import Base.Bits Model.Types Model.BoardDef Model.Board.
Import ListNotations.

(* for _, m := range moves { b.MakeMove(m) } *)
Definition run_moves (z : zobrist) (b : board) (ms : list N) : board :=
  fold_left (fun b m => fst (make z b m)) ms b.

(* the boards after 0, 1, 2, ... plies (oldest first) *)
Fixpoint run_boards (z : zobrist) (b : board) (ms : list N) : list board :=
  b :: match ms with [] => [] | m :: r => run_boards z (fst (make z b m)) r end.
