package streams

// c14arm: the ARMING of the hard deadline in uci.(*Driver).handleGo, observed under virtual time.
//
// The real uci.Driver runs inside a testing/synctest bubble: time is virtual and advances only when
// every goroutine of the bubble is durably blocked, so "the stop channel closes exactly H ms after
// the mover's clock started" is exact and deterministic; there is no wall clock anywhere in this
// stream. The search is a stand-in that, like search.alphaBeta, walks `plies` moves IN PLACE on the
// board it was handed, then waits (for the ponderhit, then for the stop channel) and unwinds. A
// GUI goroutine feeds the driver through a channel (os.Pipe / file I/O would not be durable
// blocking): traffic lines at fixed virtual instants, `ponderhit`, `stop`.
//
// Input  [root flags wtime btime winc binc movetime orem2 oinc2 plies k ivl phit stop]  (format and
// meaning: coq/Model/TimeArm.v). One case is run twice, the second time with the OPPONENT's
// remaining time and increment replaced by orem2/oinc2; the observation is the two sub-runs
// concatenated, 8 numbers each:
//   soft time handed to the search | -1, ponder channel 0/1, ms start -> ponderhit | -1,
//   ms from the start of the mover's clock to the closing of the stop channel,
//   closed before the GUI's stop was sent 0/1, readyok lines, bestmove lines, Run returned 0/1
//
// synctest.Test needs a *testing.T: the cases run in a worker child (this binary re-executed with
// VERIF_C14ARM_WORKER=1) whose only job is testing.Main with one test that loops over stdin.

import (
	"bufio"
	"bytes"
	"fmt"
	"io"
	"os"
	"os/exec"
	"sort"
	"strings"
	"sync"
	"testing"
	"testing/synctest"
	"time"

	"github.com/paulsonkoly/chess-3/board"
	"github.com/paulsonkoly/chess-3/move"
	"github.com/paulsonkoly/chess-3/search"
	"github.com/paulsonkoly/chess-3/uci"

	. "github.com/paulsonkoly/chess-3/chess"

	"verifharness/hx"
)

func init() {
	if os.Getenv("VERIF_C14ARM_WORKER") == "1" {
		c14armWorker() // does not return
	}
	hx.Register(&hx.Stream{Name: "c14arm", Gen: genC14arm, Run: runC14arm, Shrink: shrinkC14arm, Describe: describeC14arm})
}

// ------------------------------------------------------------------------------------------------
// the case

const (
	armPonderOpt = 1 << iota // setoption name Ponder value true before the go
	armPonderTok             // `ponder` in the go line; the GUI sends ponderhit at phit
	armOmitZero              // zero clock fields are left out of the go line
	armDebug                 // traffic is debug on / debug off instead of isready
	armBase0                 // traffic origin is the start of the search even with armPonderTok
	armDepth                 // `depth 9` in the go line
	armFlagsAll  = 1<<iota - 1
)

// virtual time of a bubble starts at 2000-01-01 and lives in int64 nanoseconds: 8*10^12 ms fit
const armMaxInstant = 8000000000000

type armCase struct {
	root, flags      int64
	w, b, wi, bi, mt int64
	orem2, oinc2     int64
	plies, k, ivl    int64
	phit, stop       int64
}

func (c *armCase) nums() []int64 {
	return []int64{c.root, c.flags, c.w, c.b, c.wi, c.bi, c.mt, c.orem2, c.oinc2, c.plies, c.k, c.ivl, c.phit, c.stop}
}

func (c *armCase) encode() string { return (&hx.Nums{}).I(c.nums()...).String() }

func armParse(a hx.Args) (*armCase, bool) {
	if a.Len() != 14 {
		return nil, false
	}
	for i := 0; i < 14; i++ {
		if !a[i].IsInt64() {
			return nil, false
		}
	}
	c := &armCase{root: a.I64(0), flags: a.I64(1), w: a.I64(2), b: a.I64(3), wi: a.I64(4), bi: a.I64(5), mt: a.I64(6),
		orem2: a.I64(7), oinc2: a.I64(8), plies: a.I64(9), k: a.I64(10), ivl: a.I64(11), phit: a.I64(12), stop: a.I64(13)}
	ok := c.root >= 0 && c.root <= 5 && c.flags >= 0 && c.flags <= armFlagsAll && c.plies >= 0 && c.plies <= 4 &&
		c.k >= 0 && c.k <= 64 && c.ivl >= 1 && c.phit >= 0 && c.stop >= 1 &&
		c.phit <= armMaxInstant && c.stop <= armMaxInstant
	return c, ok
}

// roots: the position line and the line the search stand-in walks (its first `plies` moves)
var armMain = []string{"e2e4", "e7e5", "g1f3", "b8c6", "f1b5", "a7a6", "b5a4", "g8f6"}

func (c *armCase) position() (string, []string) {
	switch c.root {
	case 4:
		return "position fen 4k3/8/8/8/8/8/4P3/4K3 w - - 0 1", []string{"e2e4", "e8d7", "e1d2", "d7d6"}[:c.plies]
	case 5:
		return "position fen 4k3/8/8/8/8/8/4P3/4K3 b - - 0 1", []string{"e8d7", "e2e4", "d7d6", "e1d2"}[:c.plies]
	}
	pos := "position startpos"
	if c.root > 0 {
		pos += " moves " + strings.Join(armMain[:c.root], " ")
	}
	return pos, armMain[c.root : c.root+c.plies]
}

func (c *armCase) black() bool { return c.root%2 == 1 }

// sub-run 1 replaces the opponent's remaining time and increment
func (c *armCase) clocks(sub int) (w, b, wi, bi int64) {
	w, b, wi, bi = c.w, c.b, c.wi, c.bi
	if sub == 1 {
		if c.black() {
			w, wi = c.orem2, c.oinc2
		} else {
			b, bi = c.orem2, c.oinc2
		}
	}
	return
}

func (c *armCase) goLine(sub int) string {
	w, b, wi, bi := c.clocks(sub)
	var sb strings.Builder
	sb.WriteString("go")
	if c.flags&armPonderTok != 0 {
		sb.WriteString(" ponder")
	}
	add := func(name string, v int64) {
		if v == 0 && c.flags&armOmitZero != 0 {
			return
		}
		fmt.Fprintf(&sb, " %s %d", name, v)
	}
	add("wtime", w)
	add("btime", b)
	add("winc", wi)
	add("binc", bi)
	if c.flags&armDepth != 0 {
		sb.WriteString(" depth 9")
	}
	add("movetime", c.mt)
	return sb.String()
}

func (c *armCase) trafficOrigin() int64 {
	if c.flags&armPonderTok != 0 && c.flags&armBase0 == 0 {
		return c.phit
	}
	return 0
}

func (c *armCase) desc() string {
	pos, line := c.position()
	var sb strings.Builder
	if c.flags&armPonderOpt != 0 {
		sb.WriteString("setoption name Ponder value true / ")
	}
	fmt.Fprintf(&sb, "%s / %s", pos, c.goLine(0))
	fmt.Fprintf(&sb, " / search %d plies below the root [%s]", c.plies, strings.Join(line, " "))
	if c.k > 0 {
		what := "isready"
		if c.flags&armDebug != 0 {
			what = "debug on|off"
		}
		fmt.Fprintf(&sb, " / %d x %s every %d ms from %d ms", c.k, what, c.ivl, c.trafficOrigin())
	}
	if c.flags&armPonderTok != 0 {
		fmt.Fprintf(&sb, " / ponderhit at %d ms", c.phit)
	}
	fmt.Fprintf(&sb, " / stop at %d ms / second run: %s", c.stop, c.goLine(1))
	return sb.String()
}

func describeC14arm(a hx.Args) string {
	c, ok := armParse(a)
	if !ok {
		return "malformed"
	}
	return c.desc()
}

// ------------------------------------------------------------------------------------------------
// plumbing inside the bubble (channel operations only: durable blocking)

type armReader struct {
	ch   chan string
	rest []byte
}

func (r *armReader) Read(p []byte) (int, error) {
	if len(r.rest) == 0 {
		s, ok := <-r.ch
		if !ok {
			return 0, io.EOF
		}
		r.rest = []byte(s)
	}
	n := copy(p, r.rest)
	r.rest = r.rest[n:]
	return n, nil
}

type armBuf struct {
	mu sync.Mutex
	b  bytes.Buffer
}

func (l *armBuf) Write(p []byte) (int, error) {
	l.mu.Lock()
	defer l.mu.Unlock()
	return l.b.Write(p)
}

func (l *armBuf) String() string {
	l.mu.Lock()
	defer l.mu.Unlock()
	return l.b.String()
}

// armSearch stands in for search.Search: it descends along `line` making the moves on the caller's
// board (as search.alphaBeta does), waits for the ponderhit if it was handed a ponder channel, then
// "searches" at that node until the driver closes the stop channel, and unwinds.
type armSearch struct {
	line    []string
	started chan struct{}
	fin     chan struct{}

	soft     int64
	ponderCh bool
	depth    int64
	nodes    int64
	hit      bool
	startAt  time.Time
	hitAt    time.Time
	stopAt   time.Time
}

func (s *armSearch) Clear()       {}
func (s *armSearch) ResizeTT(int) {}

func (s *armSearch) Go(b *board.Board, opts ...search.Option) (Score, move.Move, move.Move) {
	var o search.Options
	o.SoftTime = -1 // a soft limit of 0 ms is a soft limit
	for _, opt := range opts {
		opt(&o)
	}
	s.soft, s.ponderCh, s.depth, s.nodes = o.SoftTime, o.PonderHit != nil, int64(o.Depth), int64(o.Nodes)

	type made struct {
		m move.Move
		r board.Reverse
	}
	var stack []made
	for _, ms := range s.line {
		m, err := uci.VerifParseUCIMove(b, ms)
		if err != nil {
			panic(fmt.Sprintf("c14arm: move %s of the search line: %v", ms, err))
		}
		stack = append(stack, made{m, b.MakeMove(m)})
	}
	s.startAt = time.Now()
	close(s.started)

	if o.PonderHit != nil {
		select {
		case <-o.PonderHit:
			s.hit, s.hitAt = true, time.Now()
		case <-o.Stop:
		}
	}
	<-o.Stop
	s.stopAt = time.Now()

	for i := len(stack) - 1; i >= 0; i-- {
		b.UndoMove(stack[i].m, stack[i].r)
	}
	close(s.fin)
	return 0, move.From(E2) | move.To(E4), 0
}

type armObs struct {
	soft, ponderCh, hitMs, delayMs, early, readyok, bestmove, returned int64
}

func (o *armObs) nums() []int64 {
	return []int64{o.soft, o.ponderCh, o.hitMs, o.delayMs, o.early, o.readyok, o.bestmove, o.returned}
}

type armEvent struct {
	at   int64
	line string
	stop bool
}

// armRunSub runs one session in a bubble. stuck reports a bubble that did not come to an end (Run
// did not return / goroutines left behind): the process must not be used for another case.
func armRunSub(t *testing.T, c *armCase, sub int) (obs armObs, stuck bool) {
	pos, line := c.position()
	// the GUI's schedule, in ms after the start of the search; at equal instants: stop, ponderhit, traffic
	evs := []armEvent{{at: c.stop, line: "stop", stop: true}}
	if c.flags&armPonderTok != 0 && c.phit < c.stop {
		evs = append(evs, armEvent{at: c.phit, line: "ponderhit"})
	}
	origin := c.trafficOrigin()
	for j := int64(1); j <= c.k; j++ {
		if c.ivl > (c.stop-origin)/j { // origin + j*ivl >= stop (no overflow): never sent
			break
		}
		l := "isready"
		if c.flags&armDebug != 0 {
			l = []string{"debug off", "debug on"}[j%2]
		}
		evs = append(evs, armEvent{at: origin + j*c.ivl, line: l})
	}
	sort.SliceStable(evs, func(i, j int) bool { return evs[i].at < evs[j].at })

	defer func() {
		if r := recover(); r != nil {
			// synctest: deadlock (Run did not return, or goroutines of the driver outlived it)
			fmt.Fprintln(os.Stderr, "c14arm: bubble did not end:", r)
			obs.returned, stuck = 0, true
		}
	}()

	synctest.Test(t, func(t *testing.T) {
		in := &armReader{ch: make(chan string)}
		out, errs := &armBuf{}, &armBuf{}
		s := &armSearch{line: line, started: make(chan struct{}), fin: make(chan struct{})}
		d := uci.NewDriver(uci.WithInput(in), uci.WithOutput(out), uci.WithError(errs), uci.WithSearch(s))
		done := make(chan struct{})
		go func() { d.Run(); close(done) }()

		if c.flags&armPonderOpt != 0 {
			in.ch <- "setoption name Ponder value true\n"
		}
		in.ch <- pos + "\n"
		in.ch <- c.goLine(sub) + "\n"
		<-s.started
		t0 := time.Now()

		finished := func() bool {
			select {
			case <-s.fin:
				return true
			default:
				return false
			}
		}
		stopSent := false
		for _, ev := range evs {
			if dt := t0.Add(time.Duration(ev.at) * time.Millisecond).Sub(time.Now()); dt > 0 {
				time.Sleep(dt)
			}
			synctest.Wait() // whatever the engine does at this instant happens first
			if finished() {
				break
			}
			stopSent = stopSent || ev.stop
			in.ch <- ev.line + "\n"
			if ev.stop {
				break
			}
		}
		<-s.fin
		synctest.Wait()
		in.ch <- "quit\n"
		close(in.ch)
		<-done

		obs.soft = s.soft
		if s.ponderCh {
			obs.ponderCh = 1
		}
		ref := s.startAt
		obs.hitMs = -1
		if s.hit {
			obs.hitMs = s.hitAt.Sub(s.startAt).Milliseconds()
			ref = s.hitAt
		}
		obs.delayMs = s.stopAt.Sub(ref).Milliseconds()
		if !stopSent {
			obs.early = 1
		}
		for _, l := range strings.Split(out.String(), "\n") {
			switch {
			case l == "readyok":
				obs.readyok++
			case strings.HasPrefix(l, "bestmove"):
				obs.bestmove++
			}
		}
		obs.returned = 1
	})
	return obs, false
}

// ------------------------------------------------------------------------------------------------
// worker child: one case per stdin line, one line "o <observation>" per case on stdout

const armObsPrefix = "o "

func c14armWorker() {
	os.Args = os.Args[:1] // the testing flags must not see the harness's arguments
	stdout := os.Stdout
	testing.Main(func(pat, str string) (bool, error) { return true, nil },
		[]testing.InternalTest{{Name: "arm", F: func(t *testing.T) {
			in := bufio.NewScanner(os.Stdin)
			in.Buffer(make([]byte, 1<<16), 1<<20)
			for in.Scan() {
				res := "badinput"
				exit := false
				if a, err := hx.ParseArgs(in.Text()); err == nil {
					if c, ok := armParse(a); ok {
						n := &hx.Nums{}
						for sub := 0; sub < 2 && !exit; sub++ {
							o, stuck := armRunSub(t, c, sub)
							n.I(o.nums()...)
							exit = stuck
						}
						res = n.String()
					}
				}
				fmt.Fprintln(stdout, armObsPrefix+res)
				if exit {
					os.Exit(3)
				}
			}
			os.Exit(0)
		}}}, nil, nil)
	os.Exit(0)
}

type armWorkerProc struct {
	cmd    *exec.Cmd
	stdin  io.WriteCloser
	lines  chan string
	stderr *bytes.Buffer
	waited chan struct{}
}

var (
	armW       *armWorkerProc
	armCrashes int
)

// wall-clock limit of the parent for one case (two bubbles of at most ~120 lines: microseconds)
const armParentLimit = 20 * time.Second

func armSpawn() *armWorkerProc {
	exe, err := os.Executable()
	if err != nil {
		panic(err)
	}
	cmd := exec.Command(exe, "worker")
	cmd.Env = append(os.Environ(), "VERIF_C14ARM_WORKER=1", "GORACE=halt_on_error=1 exitcode=66")
	w := &armWorkerProc{cmd: cmd, stderr: &bytes.Buffer{}, lines: make(chan string, 1), waited: make(chan struct{})}
	cmd.Stderr = w.stderr
	if w.stdin, err = cmd.StdinPipe(); err != nil {
		panic(err)
	}
	so, err := cmd.StdoutPipe()
	if err != nil {
		panic(err)
	}
	if err := cmd.Start(); err != nil {
		panic(err)
	}
	go func() {
		sc := bufio.NewScanner(so)
		sc.Buffer(make([]byte, 1<<16), 1<<20)
		for sc.Scan() {
			if l := sc.Text(); strings.HasPrefix(l, armObsPrefix) { // anything else is the testing package talking
				w.lines <- strings.TrimPrefix(l, armObsPrefix)
			}
		}
		close(w.lines)
		cmd.Wait()
		close(w.waited)
	}()
	return w
}

func (w *armWorkerProc) kill() {
	w.stdin.Close()
	w.cmd.Process.Kill()
	<-w.waited
}

// runC14arm hands the case to the worker child. A child that dies on the case (a panic inside the
// driver, a stuck bubble) is recorded as the panic observation.
func runC14arm(a hx.Args) string {
	c, ok := armParse(a)
	if !ok {
		return "badinput"
	}
	for attempt := 0; attempt < 2; attempt++ {
		if armW == nil {
			armW = armSpawn()
		}
		w := armW
		if _, err := io.WriteString(w.stdin, c.encode()+"\n"); err != nil {
			w.kill()
			armW = nil
			continue
		}
		select {
		case line, ok := <-w.lines:
			if ok {
				return line
			}
			<-w.waited
			armW = nil
			if attempt == 0 && w.cmd.ProcessState != nil && w.cmd.ProcessState.ExitCode() == 3 {
				continue // it had left after a stuck case, before it saw this one
			}
			armCrashes++
			if armCrashes <= 20 {
				tail := w.stderr.String()
				if len(tail) > 6000 {
					tail = tail[:6000]
				}
				os.WriteFile(fmt.Sprintf("c14arm-crash-%d.log", armCrashes), []byte(c.desc()+"\n"+c.encode()+"\n\n"+tail), 0o644)
			}
			return hx.PanicOut
		case <-time.After(armParentLimit):
			w.kill()
			armW = nil
			return hx.PanicOut
		}
	}
	return hx.PanicOut
}

// ------------------------------------------------------------------------------------------------
// generator

// armRefHard steers the generator only (where to put the GUI's stop and the traffic relative to the
// deadline one expects); nothing is judged against it. 0: no deadline expected.
func armRefHard(rem, inc, mt int64) int64 {
	const margin, moves = 30, 30
	switch {
	case mt > 0:
		return mt
	case rem <= 0:
		return 0
	case rem <= margin:
		return rem
	}
	if inc < 0 {
		inc = 0
	}
	return min(rem-margin, max(4*(rem/moves+inc/2), margin))
}

func armClamp(v int64) int64 { return max(1, min(v, armMaxInstant)) }

// armRem draws a remaining time: around the margin, ordinary, huge
func armRem(rng *hx.Rng) (int64, string) {
	switch r := rng.Intn(20); {
	case r < 6:
		return rng.Range(1, 200), "margin"
	case r < 15:
		return rng.Range(1000, 7200000), "ordinary"
	case r < 18:
		return []int64{rng.Range(10000000, 1000000000000), rng.Range(1000000000000, 9000000000000), 9000000000000}[rng.Intn(3)], "huge"
	case r < 19:
		return 0, "absent"
	default:
		return -rng.Range(1, 100000), "negative"
	}
}

func armInc(rng *hx.Rng, rem int64) (int64, string) {
	switch r := rng.Intn(10); {
	case r < 4:
		return 0, "0"
	case r < 7:
		return rng.Range(1, 5000), "small"
	default:
		// dominating: 4*(rem/30+inc/2) far beyond rem-margin
		return min(max(rem, 100)*rng.Range(1, 20), 1000000000000), "dominating"
	}
}

// armOther draws the opponent's remaining time deliberately far from the mover's
func armOther(rng *hx.Rng, rem int64) (int64, string) {
	base := max(rem, 1)
	switch r := rng.Intn(10); {
	case r < 4:
		return min(base*rng.Range(10, 10000)+rng.Range(0, 999), 9000000000000), "larger"
	case r < 8:
		return max(base/rng.Range(10, 10000), 1), "smaller"
	case r < 9:
		return 0, "absent"
	default:
		v, _ := armRem(rng)
		return v, "any"
	}
}

func genC14arm(rng *hx.Rng, n int, tier string, emit func(hx.Input)) {
	for i := 0; i < n; i++ {
		c := &armCase{root: int64(rng.Intn(6))}
		if rng.Chance(0.8) {
			c.root = int64(rng.Intn(4))
		}
		tags := []string{}
		rem, remTag := armRem(rng)
		inc, incTag := armInc(rng, rem)
		orem, oTag := armOther(rng, rem)
		oinc, _ := armInc(rng, orem)
		c.orem2, _ = armOther(rng, rem)
		c.oinc2, _ = armInc(rng, c.orem2)
		if c.orem2 == orem && c.oinc2 == oinc {
			c.orem2 = orem + 1 + rng.Range(0, 100000)
		}
		if c.black() {
			c.w, c.b, c.wi, c.bi = orem, rem, oinc, inc
		} else {
			c.w, c.b, c.wi, c.bi = rem, orem, inc, oinc
		}
		mtTag := "clock"
		if rng.Chance(0.22) {
			c.mt = []int64{rng.Range(1, 200), rng.Range(1000, 60000), rng.Range(100000, 8000000000000)}[rng.Intn(3)]
			mtTag = "movetime"
			if rng.Chance(0.4) { // a bare `go movetime`
				c.w, c.b, c.wi, c.bi = 0, 0, 0, 0
				mtTag = "movetime-only"
			}
		}
		// the mover's fields as they ended up
		rem, inc = c.w, c.wi
		if c.black() {
			rem, inc = c.b, c.bi
		}
		href := armRefHard(rem, inc, c.mt)

		if rng.Chance(0.4) {
			c.flags |= armPonderTok
			if rng.Chance(0.8) {
				c.flags |= armPonderOpt
			}
		} else if rng.Chance(0.3) {
			c.flags |= armPonderOpt
		}
		if rng.Chance(0.5) {
			c.flags |= armOmitZero
		}
		if rng.Chance(0.1) {
			c.flags |= armDepth
		}
		pondering := c.flags&armPonderTok != 0 && c.flags&armPonderOpt != 0
		c.plies = int64(rng.Intn(5))

		unit := href // the scale of this case
		if unit == 0 {
			unit = rng.Range(1, 5000)
		}
		if c.flags&armPonderTok != 0 {
			switch rng.Intn(5) {
			case 0:
				c.phit = 0
			case 1:
				c.phit = rng.Range(1, 500)
			case 2:
				c.phit = rng.Range(unit/2, unit*2)
			case 3:
				c.phit = rng.Range(1000, 1000000)
			default:
				c.phit = 250
			}
			c.phit = min(c.phit, armMaxInstant/4)
		}
		clock0 := int64(0) // the instant the mover's clock starts
		if pondering {
			clock0 = c.phit
		}

		// the GUI's stop, relative to the start of the mover's clock
		var srel int64
		sTag := ""
		limit := max(rem, c.mt, unit) // beyond this the search must be over
		switch r := rng.Intn(20); {
		case r < 4:
			srel, sTag = rng.Range(1, max(unit-1, 1)), "stop<deadline"
		case r < 6:
			srel, sTag = unit+rng.Range(-2, 2), "stop~deadline"
		case r < 9:
			srel, sTag = unit+rng.Range(1, 50), "stop>deadline"
		case r < 12:
			srel, sTag = rng.Range(unit, limit), "stop<=remaining"
		case r < 18:
			srel, sTag = limit+rng.Range(1, 2*min(limit, armMaxInstant)), "stop>remaining"
		default:
			srel, sTag = min(limit, armMaxInstant/20)*rng.Range(3, 12), "stop>>remaining"
		}
		if pondering && rng.Chance(0.08) {
			c.stop, sTag = armClamp(rng.Range(1, max(c.phit, 1))), "stop-while-pondering"
		} else {
			c.stop = armClamp(clock0 + max(srel, 1))
		}

		// traffic
		trTag := "quiet"
		if rng.Chance(0.65) {
			if rng.Chance(0.25) {
				c.flags |= armDebug
			}
			if c.flags&armPonderTok != 0 && rng.Chance(0.25) {
				c.flags |= armBase0
			}
			span := max(c.stop-c.trafficOrigin(), 1)
			switch r := rng.Intn(10); {
			case r < 2: // a line or two, somewhere before the deadline
				c.k, c.ivl, trTag = rng.Range(1, 3), rng.Range(1, max(unit-1, 1)), "few"
			case r < 3:
				c.k, c.ivl, trTag = rng.Range(1, 50), 1, "every-ms"
			case r < 7: // persistent: lines closer together than the deadline is long, until the stop
				c.k = rng.Range(10, 50)
				c.ivl = span/c.k + 1
				if c.ivl >= unit {
					c.ivl = rng.Range(max(unit/10, 1), max(unit-1, 1))
				}
				trTag = "persistent"
			case r < 9:
				c.k, c.ivl, trTag = rng.Range(1, 50), rng.Range(max(unit/2, 1), max(unit-1, 1)), "below-deadline"
			default: // slower than the deadline: up to several hard limits apart
				c.k, c.ivl, trTag = rng.Range(1, 20), rng.Range(unit, min(unit, armMaxInstant/8)*4), "sparse"
			}
		}
		c.ivl = armClamp(c.ivl)

		switch {
		case href == 0:
			tags = append(tags, "untimed")
		case pondering:
			tags = append(tags, "ponder")
		case c.flags&armPonderTok != 0:
			tags = append(tags, "ponder-token-without-option")
		default:
			tags = append(tags, "normal")
		}
		armed := href > 0 && (!pondering || c.phit < c.stop)
		tags = append(tags, "rem:"+remTag, "inc:"+incTag, "opp:"+oTag, mtTag, sTag, "traffic:"+trTag,
			fmt.Sprintf("plies:%d", c.plies))
		if armed {
			tags = append(tags, "deadline-armed")
		}
		emit(hx.Input{In: c.encode(), Desc: c.desc(), Tags: tags, NonTrivial: armed})
	}
}

// ------------------------------------------------------------------------------------------------
// shrinker: fewer traffic lines, fewer plies, no noise flags, rounder numbers

func shrinkC14arm(in string) []string {
	a, err := hx.ParseArgs(in)
	if err != nil {
		return nil
	}
	c, ok := armParse(a)
	if !ok {
		return nil
	}
	var out []string
	try := func(f func(d *armCase)) {
		d := *c
		f(&d)
		if _, ok := armParse(mustArgs(d.encode())); ok {
			out = append(out, d.encode())
		}
	}
	for _, bit := range []int64{armDepth, armOmitZero, armDebug, armBase0} {
		if c.flags&bit != 0 {
			try(func(d *armCase) { d.flags &^= bit })
		}
	}
	if c.root > 1 {
		try(func(d *armCase) { d.root = c.root % 2 })
	}
	if c.plies > 0 {
		try(func(d *armCase) { d.plies = c.plies - 1 })
		if c.plies > 2 {
			try(func(d *armCase) { d.plies = c.plies - 2 })
		}
	}
	for _, k := range []int64{c.k - 1, c.k / 2, 1, 0} {
		if k >= 0 && k < c.k {
			try(func(d *armCase) { d.k = k })
		}
	}
	round := func(v int64) int64 { // keep the leading digit
		p := int64(1)
		for v/p >= 10 {
			p *= 10
		}
		return v / p * p
	}
	for _, f := range []func(d *armCase) *int64{
		func(d *armCase) *int64 { return &d.w }, func(d *armCase) *int64 { return &d.b },
		func(d *armCase) *int64 { return &d.wi }, func(d *armCase) *int64 { return &d.bi },
		func(d *armCase) *int64 { return &d.mt }, func(d *armCase) *int64 { return &d.orem2 },
		func(d *armCase) *int64 { return &d.oinc2 }, func(d *armCase) *int64 { return &d.ivl },
		func(d *armCase) *int64 { return &d.phit }, func(d *armCase) *int64 { return &d.stop },
	} {
		if v := *f(c); v > 0 && round(v) != v {
			try(func(d *armCase) { *f(d) = round(v) })
		}
	}
	if c.wi != 0 || c.bi != 0 || c.oinc2 != 0 {
		try(func(d *armCase) { d.wi, d.bi, d.oinc2 = 0, 0, 0 })
	}
	return out
}

func mustArgs(line string) hx.Args {
	a, err := hx.ParseArgs(line)
	if err != nil {
		return nil
	}
	return a
}
