(* Model of search/pv.go (triangular principal variation buffer) and of chess.Score.String
   (chess/types.go:20-42, the mate-score rendering).  Definitions only; proofs in Proofs/PvProofs.v.

   type pv struct { moves [MaxPlies*(MaxPlies+1)/2]move.Move; depth [MaxPlies]Depth }
   A Go index or slice expression out of range panics: modelled by None. *)
From Coq Require Import ZArith Bool List.
Import ListNotations.
From Chess3 Require Import Base.Word Gen.IdConsts.
Open Scope Z_scope.

Record pvbuf := { pv_moves : list Z; pv_depth : list Z }.

Definition new_pv : pvbuf :=
  {| pv_moves := repeat 0 (Z.to_nat PVSize); pv_depth := repeat 0 (Z.to_nat MaxPlies) |}.

(* func bufIx(ply Depth) int { return int(ply)*MaxPlies - int(ply)*int(ply-1)/2 }
   ply-1 is computed in int8; / is Go's truncated division *)
Definition buf_ix (ply : Z) : Z := ply * MaxPlies - Z.quot (ply * wrap8 (ply - 1)) 2.

(* list cells *)
Definition get (l : list Z) (i : Z) : option Z :=
  if (0 <=? i) && (i <? Z.of_nat (length l)) then Some (nth (Z.to_nat i) l 0) else None.

Definition slice (l : list Z) (pos n : nat) : list Z := firstn n (skipn pos l).

(* overwrite the cells pos .. pos+|src|-1 *)
Definition write (l : list Z) (pos : nat) (src : list Z) : list Z :=
  firstn pos l ++ src ++ skipn (pos + length src) l.

Definition set (l : list Z) (i : Z) (v : Z) : option (list Z) :=
  if (0 <=? i) && (i <? Z.of_nat (length l)) then Some (write l (Z.to_nat i) [v]) else None.

(* func (pv *pv) setNull(ply Depth) { pv.depth[ply] = 0 } *)
Definition set_null (b : pvbuf) (ply : Z) : option pvbuf :=
  match set (pv_depth b) ply 0 with
  | Some d => Some {| pv_moves := pv_moves b; pv_depth := d |}
  | None => None
  end.

(* func (pv *pv) insert(ply Depth, m move.Move) {
     i := bufIx(ply); j := bufIx(ply + 1); l := pv.depth[ply+1]
     pv.moves[i] = m
     copy(pv.moves[i+1:i+1+int(l)], pv.moves[j:j+int(l)])
     pv.depth[ply] = l + 1 }
   ply+1 and l+1 are int8 operations. copy has memmove semantics: the source is read first. *)
Definition insert (b : pvbuf) (ply m : Z) : option pvbuf :=
  let i := buf_ix ply in
  let j := buf_ix (wrap8 (ply + 1)) in
  match get (pv_depth b) (wrap8 (ply + 1)) with
  | None => None
  | Some l =>
      match set (pv_moves b) i m with
      | None => None
      | Some mv1 =>
          let size := Z.of_nat (length mv1) in
          (* slice bounds: 0 <= low <= high <= cap *)
          if (0 <=? i + 1) && (0 <=? l) && (i + 1 + l <=? size) && (0 <=? j) && (j + l <=? size) then
            let src := slice mv1 (Z.to_nat j) (Z.to_nat l) in
            let mv2 := write mv1 (Z.to_nat (i + 1)) src in
            match set (pv_depth b) ply (wrap8 (l + 1)) with
            | Some d => Some {| pv_moves := mv2; pv_depth := d |}
            | None => None
            end
          else None
      end
  end.

(* the line held for a ply: moves[bufIx(ply) : bufIx(ply)+depth[ply]]  (hook VerifPV.Line) *)
Definition line (b : pvbuf) (ply : Z) : list Z :=
  slice (pv_moves b) (Z.to_nat (buf_ix ply)) (Z.to_nat (nth (Z.to_nat ply) (pv_depth b) 0)).

(* func (pv *pv) active() []move.Move { return pv.moves[0:pv.depth[0]] } *)
Definition active (b : pvbuf) : list Z := line b 0.

(* ------------------------------------------------------------------------------------------- *)
(* c07pv stream.  input: ops (kind ply move)* with kind 0 = setNull, 1 = insert;
   output: for every ply 0..63: length of its line followed by the line; a panic is -1 -1 -1. *)
Fixpoint run_ops (b : pvbuf) (ops : list Z) : option pvbuf :=
  match ops with
  | k :: ply :: m :: r =>
      match (if k =? 0 then set_null b ply else insert b ply m) with
      | Some b' => run_ops b' r
      | None => None
      end
  | _ => Some b
  end.

Definition plies : list Z := map Z.of_nat (seq 0 (Z.to_nat MaxPlies)).

Definition dump (b : pvbuf) : list Z :=
  flat_map (fun p => let l := line b p in Z.of_nat (length l) :: l) plies.

Definition run_c07pv (input : list Z) : list Z :=
  match run_ops new_pv input with
  | Some b => dump b
  | None => [-1; -1; -1]
  end.

(* ------------------------------------------------------------------------------------------- *)
(* func (s Score) String(): "Inv" | "mate [-]N" with N = (Inf-|s|+1)/2 when |s| >= Inf-MaxPlies | "cp s"
   Abs on int16: -(-32768) wraps to -32768.  Result: (kind, negative sign printed, number)
   with kind 0 = Inv, 1 = cp, 2 = mate. *)
Definition abs16 (s : Z) : Z := if s <? 0 then wrap16 (- s) else s.

Definition score_string (s : Z) : Z * Z * Z :=
  if s =? ScoreInv then (0, 0, 0)
  else
    let a := abs16 s in
    if ScoreInf - MaxPlies <=? a then
      let diff := wrap16 (ScoreInf - a) in
      (2, (if s <? 0 then 1 else 0), Z.quot (wrap16 (diff + 1)) 2)
    else (1, 0, s).

(* c07score stream: [s] -> [kind; minus; number] *)
Definition run_c07score (input : list Z) : list Z :=
  match input with
  | [s] => let '(k, sg, n) := score_string s in [k; sg; n]
  | _ => [99]
  end.
