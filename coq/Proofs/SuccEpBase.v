(* Helpers of the en-passant lemma: the unique king of a valid position, the occupancy of a
   position bit by bit, move-encoding projections, and the finite geometry around a double push. *)
From Coq Require Import NArith ZArith List Bool Lia.
From Chess3 Require Import Base.Bits Base.Word Model.Types Model.Att Model.BoardDef Model.Board.
From Chess3 Require Import Spec.Geometry Spec.Chess Spec.Rep.
From Chess3 Require Import Proofs.SuccLists Proofs.SuccCore Proofs.SuccCells Proofs.SuccFacts Proofs.SuccAttack.
Import ListNotations.
Open Scope N_scope.

Lemma existsb_ext_in {A} (f g : A -> bool) l : (forall x, In x l -> f x = g x) -> existsb f l = existsb g l.
Proof.
  induction l as [|x r IH]; intros H; cbn [existsb]; [reflexivity|].
  rewrite (H x (or_introl eq_refl)), IH; [reflexivity|]. intros y Hy. apply H. right. exact Hy.
Qed.

Lemma existsb_squares64_ext (f g : N -> bool) : (forall s, s < 64 -> f s = g s) -> existsb f squares64 = existsb g squares64.
Proof. intros H. apply existsb_ext_in. intros s Hs. apply H. apply squares64_In. exact Hs. Qed.

(* the unique king *)
Lemma filter_length_1 {A} (f : A -> bool) l : length (filter f l) = 1%nat -> exists t, filter f l = [t].
Proof. destruct (filter f l) as [|t [|u r]]; cbn [length]; intros H; try discriminate. exists t. reflexivity. Qed.

Lemma unique_king p c : count p c King = 1%Z ->
  king_sq p c < 64 /\ holds p (king_sq p c) c King = true /\
  (forall s, s < 64 -> holds p s c King = true -> s = king_sq p c).
Proof.
  unfold count, king_sq. intros H.
  assert (L : length (filter (fun s => holds p s c King) squares64) = 1%nat) by lia.
  destruct (filter_length_1 _ _ L) as [t E]. rewrite E. cbn [hd].
  assert (I : In t (filter (fun s => holds p s c King) squares64)) by (rewrite E; left; reflexivity).
  apply filter_In in I. destruct I as [I1 I2]. apply squares64_In in I1.
  repeat split; try assumption.
  intros s Hs Hh.
  assert (J : In s (filter (fun s => holds p s c King) squares64)).
  { apply filter_In. split; [apply squares64_In; exact Hs|exact Hh]. }
  rewrite E in J. destruct J as [J|[]]. congruence.
Qed.

Lemma material_king p c : material_ok p c = true -> count p c King = 1%Z.
Proof. unfold material_ok. intros H. apply andb_true_iff in H. destruct H as [H _]. apply Z.eqb_eq. exact H. Qed.

(* occupancy of a position *)
Lemma set_of_testbit l s : N.testbit (set_of l) s = inb s l.
Proof.
  induction l as [|x r IH]; cbn [set_of fold_right inb existsb].
  - apply N.bits_0.
  - fold (set_of r). rewrite N.lor_spec, bit_testbit, IH. rewrite (N.eqb_sym s x). reflexivity.
Qed.

Lemma inb_filter_squares64 (g : N -> bool) s : inb s (filter g squares64) = (s <? 64) && g s.
Proof.
  destruct (inb s (filter g squares64)) eqn:E.
  - apply inb_In in E. apply filter_In in E. destruct E as [E1 E2]. apply squares64_In in E1.
    rewrite (proj2 (N.ltb_lt s 64)) by exact E1. rewrite E2. reflexivity.
  - destruct (N.ltb_spec s 64) as [L|L]; [|reflexivity]. cbn [andb].
    destruct (g s) eqn:G; [|reflexivity].
    assert (In s (filter g squares64)) by (apply filter_In; split; [apply squares64_In; exact L|exact G]).
    apply inb_In in H. congruence.
Qed.

Lemma occ_of_testbit p s : N.testbit (occ_of p) s = (s <? 64) && negb (empty p s).
Proof. unfold occ_of. rewrite set_of_testbit. apply inb_filter_squares64. Qed.

(* move encoding *)
Lemma mk_move_proj a t : a < 64 -> t < 64 ->
  mv_from (mk_move a t 0) = a /\ mv_to (mk_move a t 0) = t /\ mv_promo (mk_move a t 0) = 0.
Proof.
  intros Ha Ht.
  pose proof (sweep2 (fun a t => (mv_from (mk_move a t 0) =? a) && (mv_to (mk_move a t 0) =? t) &&
                                 (mv_promo (mk_move a t 0) =? 0)) ltac:(vm_compute; reflexivity) a t Ha Ht) as K.
  cbv beta in K. repeat (apply andb_true_iff in K; destruct K as [K ?]).
  repeat split; apply N.eqb_eq; assumption.
Qed.

(* ------------------------------------------------------------------------------------------ *)
(* geometry of a double push: [to] is the destination, [them] the side that may capture *)

Definition adj (to : N) : N := bor (shr (bandn (bit to) AFileBB) 1) (shl (bandn (bit to) HFileBB) 1).

(* mover White: to on the 4th rank, mid = to - 8, from = to - 16; mover Black: to on the 5th rank *)
Definition dp_mid (me : color) (to : N) : N := match me with White => to - 8 | Black => to + 8 end.
Definition dp_from (me : color) (to : N) : N := match me with White => to - 16 | Black => to + 16 end.
Definition dp_range (me : color) (to : N) : bool :=
  match me with White => (24 <=? to) && (to <? 32) | Black => (32 <=? to) && (to <? 40) end.

Definition dp_geom (me : color) (to a : N) : bool :=
  let them := flip me in
  let mid := dp_mid me to in
  Bool.eqb (N.testbit (adj to) a) (mem (pawn_attacks them a) mid) &&
  implb (N.testbit (adj to) a)
        (negb (a =? to) && negb (a =? mid) && negb (a =? dp_from me to) &&
         (sqfr (file_n mid) (rank_n a) =? to)) &&
  (* a pawn of [them] on a can reach mid by a push only from [to] *)
  implb (mid =? fwd them a) (a =? to) &&
  negb ((rank_n a =? second_rank them) && (mid =? fwd them (fwd them a))) &&
  negb (rank_n mid =? last_rank them).

Lemma dp_geom_ok me to a : to < 64 -> a < 64 -> dp_range me to = true -> dp_geom me to a = true.
Proof.
  intros Ht Ha Hr.
  assert (G : forall me, forallb (fun to => forallb (fun a => implb (dp_range me to) (dp_geom me to a)) squares64) squares64 = true)
    by (intros []; vm_compute; reflexivity).
  pose proof (sweep2 _ (G me) to a Ht Ha) as K. cbv beta in K. rewrite Hr in K. exact K.
Qed.

Lemma adj_lt to : to < 64 -> adj to < two64.
Proof.
  intros Ht. apply N.ltb_lt. revert to Ht. apply (sweep1 (fun to => adj to <? two64)). vm_compute. reflexivity.
Qed.

(* pawn captures are not double steps *)
Lemma pawn_capture_not_double c from to : from < 64 -> to < 64 -> mem (pawn_attacks c from) to = true ->
  to <> from + 16 /\ to + 16 <> from.
Proof.
  intros Hf Ht H.
  assert (G : forall c, forallb (fun from => forallb (fun to =>
     implb (mem (pawn_attacks c from) to) (negb (to =? from + 16) && negb (to + 16 =? from))) squares64) squares64 = true)
    by (intros []; vm_compute; reflexivity).
  pose proof (sweep2 _ (G c) from to Hf Ht) as K. cbv beta in K. rewrite H in K. cbn [implb] in K.
  apply andb_true_iff in K. destruct K as [K1 K2]. apply negb_true_iff in K1, K2.
  apply N.eqb_neq in K1, K2. tauto.
Qed.

Lemma valid_core_king p c : valid_core p = true -> count p c King = 1%Z.
Proof. intros H. apply (valid_core_parts p H). Qed.

Lemma existsb_false_all {A} (f : A -> bool) l x : existsb f l = false -> In x l -> f x = false.
Proof.
  intros H Hx. destruct (f x) eqn:E; [|reflexivity].
  assert (existsb f l = true) by (apply existsb_exists; exists x; tauto). congruence.
Qed.

(* the squares CanEnPassant computes with int8 arithmetic *)
Lemma dp_squares c to : dp_range c to = true ->
  let shift := match c with White => 8%Z | Black => (-8)%Z end in
  Z.to_N (Z.of_N to - shift) = dp_mid c to /\ Z.to_N (Z.of_N to - 2 * shift) = dp_from c to.
Proof.
  intros H. destruct c; cbn [dp_range dp_mid dp_from] in *; apply andb_true_iff in H; destruct H as [H1 H2];
    apply N.leb_le in H1; apply N.ltb_lt in H2; cbv zeta; split; lia.
Qed.
