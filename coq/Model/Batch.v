(* Model of tools/tuner/tuning/batch.go (Batches / Chunks) on Go int (64 bit, wrap-around written
   out). Definitions only. Both iterators are the same loop
       for start := lo; start < hi; start += step { yield {start, min(start+step, hi)} }
   which [ranges_from] runs on a unary fuel of (hi-lo)/step + 1 turns. The generic versions take the
   two constants as arguments; [batches] / [chunks] use the generated ones. *)
From Coq Require Import ZArith List Bool.
From Chess3 Require Import Base.Word Gen.TunerConsts.
Import ListNotations.
Open Scope Z_scope.

Definition range := (Z * Z)%type.      (* Range{Start, End}: Start inclusive, End exclusive *)

Fixpoint ranges_from (fuel : nat) (start stop step : Z) : list range :=
  match fuel with
  | O => []
  | S f =>
      if start <? stop
      then (start, Z.min (wrap64 (start + step)) stop) :: ranges_from f (wrap64 (start + step)) stop step
      else []
  end.

Definition loop_fuel (start stop step : Z) : nat :=
  if step <=? 0 then O else Z.to_nat ((stop - start) / step + 1).

(* func Batches(numEntries int) iter.Seq[Range]; the second min of the Go text is the identity *)
Definition batches_gen (L : Z) (numEntries : Z) : list range :=
  map (fun r => (fst r, Z.min numEntries (snd r))) (ranges_from (loop_fuel 0 numEntries L) 0 numEntries L).

(* func Chunks(batch Range) iter.Seq[Range] *)
Definition lines_in_chunk (L C : Z) : Z := Z.quot (wrap64 (wrap64 (L + C) - 1)) C.
Definition chunks_gen (L C : Z) (batch : range) : list range :=
  let per := lines_in_chunk L C in
  ranges_from (loop_fuel (fst batch) (snd batch) per) (fst batch) (snd batch) per.

Definition batches := batches_gen NumLinesInBatch.
Definition chunks := chunks_gen NumLinesInBatch NumChunksInBatch.

Definition flatten_ranges (rs : list range) : list Z := concat (map (fun r => [fst r; snd r]) rs).

(* correspondence entry point, see harness/streams/c20.go. Arguments beyond +-2^40 are outside the
   modelled domain (the unary fuel would not be practical): empty answer.

   Modes 2 and 3 RE-USE iterator values. The model of an iter.Seq value is the list it yields - each
   time it is ranged: a traversal left with break after stop items yields the first stop elements, a
   traversal nested into another one yields its whole list. *)
Definition in_domain (a b : Z) : bool := negb ((Z.abs a >? 1099511627776) || (Z.abs b >? 1099511627776)).

Definition seq_ranges (k a b : Z) : list range :=
  if negb (in_domain a b) then [] else if k =? 0 then batches a else chunks (a, b).

Fixpoint parse_seqs (n : nat) (l : list Z) : list (list range) * list Z :=
  match n with
  | O => ([], l)
  | S n' =>
      match l with
      | k :: a :: b :: t => let '(ss, r) := parse_seqs n' t in (seq_ranges k a b :: ss, r)
      | _ => ([], [])
      end
  end.

Definition record (rs : list range) : list Z := Z.of_nat (length rs) :: flatten_ranges rs.

(* steps (i, stop, j, at): range value i, break after stop items (stop <= 0: to the end); if j >= 0,
   range value j to its end inside the loop body at item number at *)
Fixpoint run_steps (seqs : list (list range)) (steps : list Z) : list Z :=
  match steps with
  | i :: stop :: j :: pos :: t =>
      let full := nth (Z.to_nat i) seqs [] in
      let outer := if 1 <=? stop then firstn (Z.to_nat stop) full else full in
      let inner := if (0 <=? j) && (0 <=? pos) && (pos <? Z.of_nat (length outer))
                   then record (nth (Z.to_nat j) seqs []) else [] in
      record outer ++ inner ++ run_steps seqs t
  | _ => []
  end.

Definition run_c20_batch (input : list Z) : list Z :=
  match input with
  | 2 :: nseq :: nsteps :: rest =>
      if (nseq <? 0) || (nseq >? 16) then [] else
      let '(seqs, steps) := parse_seqs (Z.to_nat nseq) rest in run_steps seqs steps
  | 3 :: n :: reps :: nil =>
      if negb (in_domain n reps) || (reps >? 16) then [] else
      concat (repeat (record (concat (map chunks (batches n)))) (Z.to_nat reps))
  | mode :: a :: b :: nil =>
      if negb (in_domain a b) then [] else
      if mode =? 0 then flatten_ranges (batches a) else flatten_ranges (chunks (a, b))
  | _ => nil
  end.
