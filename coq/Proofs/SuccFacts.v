(* What [pseudo_spec (abs b) m] says about the engine board b, and the finite geometric facts
   (checked by computation over all squares) that the C02 proofs use. *)
From Coq Require Import NArith ZArith List Bool Lia.
From Chess3 Require Import Base.Bits Base.Word Model.Types Model.Att Model.BoardDef Model.Board.
From Chess3 Require Import Spec.Geometry Spec.Chess Spec.Rep.
From Chess3 Require Import Proofs.SuccLists Proofs.SuccCore Proofs.SuccCells.
Import ListNotations.
Open Scope N_scope.

Lemma color_eqb_eq a b : color_eqb a b = true <-> a = b.
Proof. destruct a, b; cbn; split; congruence. Qed.
Lemma color_eqb_refl a : color_eqb a a = true.
Proof. destruct a; reflexivity. Qed.
Lemma color_eqb_flip a : color_eqb a (flip a) = false.
Proof. destruct a; reflexivity. Qed.
Lemma color_eqb_flip' a : color_eqb (flip a) a = false.
Proof. destruct a; reflexivity. Qed.

Lemma holds_abs b s c k : s < 64 ->
  holds (abs b) s c k = match cell b s with Some (c', k') => color_eqb c c' && (k =? k') | None => false end.
Proof. intros Hs. unfold holds. rewrite who_abs by exact Hs. reflexivity. Qed.
Lemma owned_abs b s c : s < 64 ->
  owned_by (abs b) s c = match cell b s with Some (c', _) => color_eqb c c' | None => false end.
Proof. intros Hs. unfold owned_by. rewrite who_abs by exact Hs. reflexivity. Qed.
Lemma empty_abs b s : s < 64 -> empty (abs b) s = (piece_at b s =? 0).
Proof.
  intros Hs. unfold empty. rewrite who_abs by exact Hs. unfold cell.
  destruct (piece_at b s =? 0); reflexivity.
Qed.

Lemma cell_Some b s c k : cell b s = Some (c, k) ->
  piece_at b s = k /\ k <> 0 /\ (if wbit b s then White else Black) = c.
Proof.
  unfold cell. destruct (piece_at b s =? 0) eqn:E; [discriminate|].
  intros H. inversion H. apply N.eqb_neq in E. repeat split; congruence.
Qed.
Lemma cell_None b s : cell b s = None -> piece_at b s = 0.
Proof. unfold cell. destruct (piece_at b s =? 0) eqn:E; [intros _; apply N.eqb_eq; exact E|discriminate]. Qed.

(* the piece specific part of pseudo_spec *)
Definition pawn_part (p : pos) (m : N) : bool :=
  let from := mv_from m in let to := mv_to m in let pr := mv_promo m in let c := turn p in
  (if rank_n to =? last_rank c then is_promo_piece pr else pr =? 0) &&
  (((to =? fwd c from) && negb (rank_n from =? last_rank c) && empty p to)
   || ((rank_n from =? second_rank c) && (to =? fwd c (fwd c from)) && empty p (fwd c from) && empty p to)
   || (mem (pawn_attacks c from) to &&
       (owned_by p to (flip c) || match epsq p with Some e => e =? to | None => false end))).
Definition king_part (p : pos) (m : N) : bool :=
  let from := mv_from m in let to := mv_to m in let c := turn p in
  (mv_promo m =? 0) &&
  (mem (king_attacks from) to
   || ((from =? king_home c) && (to =? from + 2) && castle_ok p false)
   || ((from =? king_home c) && (to + 2 =? from) && castle_ok p true)).
Definition other_part (p : pos) (m : N) (k : N) : bool :=
  (mv_promo m =? 0) && mem (attacks_from (turn p) k (mv_from m) (occ_of p)) (mv_to m).

Lemma pseudo_facts b m : pseudo_spec (abs b) m = true ->
  exists k, cell b (mv_from m) = Some (stm b, k) /\ owned_by (abs b) (mv_to m) (stm b) = false /\
            (if k =? Pawn then pawn_part (abs b) m else if k =? King then king_part (abs b) m
             else other_part (abs b) m k) = true.
Proof.
  unfold pseudo_spec. rewrite who_abs by apply mv_from_lt.
  destruct (cell b (mv_from m)) as [[c' k]|]; [|discriminate].
  intros H. apply andb_true_iff in H. destruct H as [H H3]. apply andb_true_iff in H. destruct H as [H1 H2].
  apply color_eqb_eq in H1. cbn [turn abs] in H1. subst c'.
  exists k. split; [reflexivity|]. split; [apply negb_true_iff; exact H2|]. exact H3.
Qed.

Lemma from_neq_to b m k : cell b (mv_from m) = Some (stm b, k) -> owned_by (abs b) (mv_to m) (stm b) = false ->
  mv_from m <> mv_to m.
Proof.
  intros H1 H2 E. rewrite owned_abs in H2 by apply mv_to_lt. rewrite <- E, H1, color_eqb_refl in H2. discriminate.
Qed.

(* ------------------------------------------------------------------------------------------ *)
(* finite geometry, by computation *)

Definition ep_csq (from to : N) : N := N.lor (N.land to 7) (N.land from 56).

Lemma ep_csq_sqfr from to : from < 64 -> to < 64 -> ep_csq from to = sqfr (file_n to) (rank_n from).
Proof.
  intros Hf Ht.
  apply N.eqb_eq. revert from to Hf Ht.
  apply (sweep2 (fun from to => ep_csq from to =? sqfr (file_n to) (rank_n from))). vm_compute. reflexivity.
Qed.

(* a pawn capture towards [to]: the square beside the capturer on the target's file *)
Lemma pawn_capture_geom c from to : from < 64 -> to < 64 -> mem (pawn_attacks c from) to = true ->
  ep_csq from to <> from /\ ep_csq from to <> to /\ ep_csq from to < 64 /\ ep_csq from to = fwd (flip c) to /\
  to <> fwd c from /\ (8 <= to -> to < 56 -> rank_n from <> second_rank c \/ to <> fwd c (fwd c from)).
Proof.
  intros Hf Ht H.
  assert (G : forall c, forallb (fun from => forallb (fun to =>
     implb (mem (pawn_attacks c from) to)
       (negb (ep_csq from to =? from) && negb (ep_csq from to =? to) && (ep_csq from to <? 64) &&
        (ep_csq from to =? fwd (flip c) to) && negb (to =? fwd c from) &&
        negb ((rank_n from =? second_rank c) && (to =? fwd c (fwd c from))))) squares64) squares64 = true)
    by (intros []; vm_compute; reflexivity).
  pose proof (sweep2 _ (G c) from to Hf Ht) as K. cbv beta in K. rewrite H in K. cbn [implb] in K.
  repeat (apply andb_true_iff in K; destruct K as [K ?]).
  repeat match goal with H : negb _ = true |- _ => apply negb_true_iff in H end.
  repeat match goal with H : (_ =? _) = false |- _ => apply N.eqb_neq in H end.
  repeat match goal with H : (_ =? _) = true |- _ => apply N.eqb_eq in H end.
  repeat match goal with H : (_ <? _) = true |- _ => apply N.ltb_lt in H end.
  repeat split; try assumption.
  intros _ _.
  match goal with H : (_ && _) = false |- _ => apply andb_false_iff in H; destruct H as [H|H]; [left|right]; apply N.eqb_neq; exact H end.
Qed.

(* king steps never look like castling *)
Lemma king_step_geom from to : from < 64 -> to < 64 -> mem (king_attacks from) to = true ->
  to <> from + 2 /\ to + 2 <> from /\ castle_rook from to = None.
Proof.
  intros Hf Ht H.
  assert (G : forallb (fun from => forallb (fun to =>
     implb (mem (king_attacks from) to)
       (negb (to =? from + 2) && negb (to + 2 =? from) &&
        match castle_rook from to with None => true | _ => false end)) squares64) squares64 = true)
    by (vm_compute; reflexivity).
  pose proof (sweep2 _ G from to Hf Ht) as K. cbv beta in K. rewrite H in K. cbn [implb] in K.
  repeat (apply andb_true_iff in K; destruct K as [K ?]).
  repeat match goal with H : negb _ = true |- _ => apply negb_true_iff in H end.
  repeat match goal with H : (_ =? _) = false |- _ => apply N.eqb_neq in H end.
  repeat split; try assumption.
  destruct (castle_rook from to); [discriminate|reflexivity].
Qed.

(* the conjuncts of [valid] (stated for an arbitrary position so that nothing is computed) *)
Lemma valid_parts p : valid p = true ->
  length (at_ p) = 64%nat /\ material_ok p White = true /\ material_ok p Black = true /\ no_pawn_on_edge p = true /\
  in_check_spec p (flip (turn p)) = false /\ rights_consistent p = true /\ ep_ok p = true.
Proof.
  unfold valid. intros H. repeat (apply andb_true_iff in H; destruct H as [H ?]).
  apply Nat.eqb_eq in H. apply negb_true_iff in H2. repeat split; assumption.
Qed.

Lemma ep_ok_parts p e : ep_ok p = true -> epsq p = Some e ->
  rank_n e = (match turn p with White => 5 | Black => 2 end) /\ empty p e = true /\ empty p (fwd (turn p) e) = true /\
  holds p (fwd (flip (turn p)) e) (flip (turn p)) Pawn = true /\
  in_check_spec (with_placement p (put (put (at_ p) (fwd (flip (turn p)) e) None) (fwd (turn p) e)
                                      (Some (flip (turn p), Pawn)))) (turn p) = false.
Proof.
  unfold ep_ok. intros H E. rewrite E in H. repeat (apply andb_true_iff in H; destruct H as [H ?]).
  apply N.eqb_eq in H. apply negb_true_iff in H0. repeat split; assumption.
Qed.

Lemma legal_parts p m : legal_spec p m = true ->
  pseudo_spec p m = true /\ in_check_spec (with_placement p (place_after p m)) (turn p) = false.
Proof. unfold legal_spec. intros H. apply andb_true_iff in H. destruct H as [H1 H2]. apply negb_true_iff in H2. tauto. Qed.

Lemma castle_ok_parts p long : castle_ok p long = true ->
  has_right p (turn p) long = true /\ holds p (king_home (turn p)) (turn p) King = true /\
  holds p (rook_home (turn p) long) (turn p) Rook = true /\
  forallb (empty p) (between (king_home (turn p)) (rook_home (turn p) long)) = true.
Proof.
  unfold castle_ok. intros H. repeat (apply andb_true_iff in H; destruct H as [H ?]). repeat split; assumption.
Qed.

Lemma between_homes :
  between (king_home White) (rook_home White false) = [5; 6] /\
  between (king_home White) (rook_home White true) = [3; 2; 1] /\
  between (king_home Black) (rook_home Black false) = [61; 62] /\
  between (king_home Black) (rook_home Black true) = [59; 58; 57].
Proof. vm_compute. repeat split. Qed.

(* The part of [valid] that the successor theorems actually use (and that legal moves provably keep):
   64 squares, one king per side, the side not to move is not in check, the en-passant target is
   consistent (incl. the predecessor condition). *)
Definition valid_core (p : pos) : bool :=
  (length (at_ p) =? 64)%nat && (count p White King =? 1)%Z && (count p Black King =? 1)%Z &&
  negb (in_check_spec p (flip (turn p))) && ep_ok p.

Lemma valid_core_parts p : valid_core p = true ->
  length (at_ p) = 64%nat /\ (forall c, count p c King = 1%Z) /\
  in_check_spec p (flip (turn p)) = false /\ ep_ok p = true.
Proof.
  unfold valid_core. intros H. repeat (apply andb_true_iff in H; destruct H as [H ?]).
  apply Nat.eqb_eq in H. apply Z.eqb_eq in H3, H2. apply negb_true_iff in H1.
  repeat split; try assumption. intros []; assumption.
Qed.

Lemma material_king' p c : material_ok p c = true -> (count p c King =? 1)%Z = true.
Proof. unfold material_ok. intros H. apply andb_true_iff in H. destruct H as [H _]. exact H. Qed.

Lemma valid_valid_core p : valid p = true -> valid_core p = true.
Proof.
  intros H. destruct (valid_parts p H) as [H1 [H2 [H3 [_ [H5 [_ H7]]]]]].
  apply material_king' in H2. apply material_king' in H3.
  unfold valid_core.
  apply andb_true_iff; split; [apply andb_true_iff; split; [apply andb_true_iff; split; [apply andb_true_iff; split|]|]|].
  - apply Nat.eqb_eq. exact H1.
  - exact H2.
  - exact H3.
  - apply negb_true_iff. exact H5.
  - exact H7.
Qed.
