(* C09, soundness of the king-step branch shared by IsCheckmate and IsStalemate:

     for kMvs := KingMoves(kingSq) & ^own; ...; if !IsAttacked(them, occ &^ king, to) { return false }

   If the loop finds a square, stepping there is a legal move by the rules (Spec/Chess.v): the
   destination is not attacked in the position AFTER the move, in which the king no longer shadows
   the squares behind it ("x-ray": this is why the king is lifted from the occupancy). *)
From Coq Require Import NArith ZArith List Bool Lia.
From Chess3 Require Import Base.Bits Model.Types Spec.Geometry Model.Att Model.BoardDef Model.Board
     Model.Movegen Model.Mate Spec.Chess Spec.Rep Proofs.MateGeom Proofs.MateAbs.
Import ListNotations.
Open Scope N_scope.

(* ------------------------------------------------------------------------------------------ *)
(* generalities *)

Lemma bnot_testbit x i : N.testbit (bnot x) i = (i <? 64) && negb (N.testbit x i).
Proof.
  unfold bnot. rewrite N.lxor_spec, w64_testbit, ones64_eq.
  destruct (N.ltb_spec i 64) as [L|L].
  - rewrite N.ones_spec_low by exact L. rewrite andb_true_r. destruct (N.testbit x i); reflexivity.
  - rewrite N.ones_spec_high by exact L. rewrite andb_false_r. reflexivity.
Qed.

Lemma color_eqb_eq a c : color_eqb a c = true -> c = a.
Proof. destruct a, c; cbn; congruence. Qed.
Lemma color_eqb_refl a : color_eqb a a = true.
Proof. destruct a; reflexivity. Qed.
Lemma color_eqb_flip a : color_eqb (flip a) a = false.
Proof. destruct a; reflexivity. Qed.

Lemma mk_move_fields from to : from < 64 -> to < 64 ->
  mv_from (mk_move from to 0) = from /\ mv_to (mk_move from to 0) = to /\ mv_promo (mk_move from to 0) = 0.
Proof.
  intros Hf Ht.
  assert (C := forall_sq2 (fun f t => (mv_from (mk_move f t 0) =? f) && (mv_to (mk_move f t 0) =? t) && (mv_promo (mk_move f t 0) =? 0))
                          ltac:(vm_compute; reflexivity) from to Hf Ht).
  cbv beta in C. apply andb_prop in C. destruct C as [C C3]. apply andb_prop in C. destruct C as [C1 C2].
  apply N.eqb_eq in C1, C2, C3. tauto.
Qed.

Lemma lsb_bit s : s < 64 -> lsb (bit s) = s.
Proof.
  intros Hs. apply N.eqb_eq. revert s Hs. apply (forall_sq (fun s => lsb (bit s) =? s)). vm_compute. reflexivity.
Qed.

Lemma filter_nil {A} (f : A -> bool) l : (forall z, In z l -> f z = false) -> filter f l = [].
Proof.
  induction l as [|x r IH]; intros H; [reflexivity|]. cbn [filter].
  rewrite (H x (or_introl eq_refl)). apply IH. intros z Hz. apply H. right. exact Hz.
Qed.

Lemma filter_single {A} (f : A -> bool) l a :
  NoDup l -> In a l -> (forall x, In x l -> (f x = true <-> x = a)) -> filter f l = [a].
Proof.
  induction l as [|x r IH]; intros Hnd Hin Hf; [destruct Hin|]. cbn [filter].
  inversion Hnd as [|? ? Hx Hr]; subst.
  destruct (f x) eqn:Efx.
  - assert (x = a) by (apply Hf; [left; reflexivity|exact Efx]). subst x. f_equal.
    apply filter_nil. intros z Hz. destruct (f z) eqn:Efz; [|reflexivity].
    exfalso. assert (z = a) by (apply Hf; [right; exact Hz|exact Efz]). subst z. contradiction.
  - destruct Hin as [->|Hin].
    + exfalso. assert (f a = true) by (apply Hf; [left; reflexivity|reflexivity]). congruence.
    + apply IH; [exact Hr|exact Hin|]. intros z Hz. apply Hf. right. exact Hz.
Qed.

Lemma in_candidates from to pr : from < 64 -> to < 64 -> In pr [0; Knight; Bishop; Rook; Queen] ->
  In (mk_move from to pr) candidates.
Proof.
  intros Hf Ht Hp. unfold candidates. apply in_flat_map. exists from. split; [apply squares64_spec; exact Hf|].
  apply in_flat_map. exists to. split; [apply squares64_spec; exact Ht|]. apply in_map. exact Hp.
Qed.

Lemma legal_moves_nonempty p from to pr : from < 64 -> to < 64 -> In pr [0; Knight; Bishop; Rook; Queen] ->
  legal_spec p (mk_move from to pr) = true -> legal_moves p <> [].
Proof.
  intros Hf Ht Hp Hl E. assert (In (mk_move from to pr) (legal_moves p)) as Hin.
  { apply filter_In. split; [apply in_candidates; assumption|exact Hl]. }
  rewrite E in Hin. destruct Hin.
Qed.

(* ------------------------------------------------------------------------------------------ *)
(* the side to move has exactly one king *)

Lemma valid_material_gen p c : valid p = true -> material_ok p c = true.
Proof.
  unfold valid. intros H. repeat (apply andb_prop in H; destruct H as [H ?]). destruct c; assumption.
Qed.

Lemma count_def p c k : count p c k = Z.of_nat (length (filter (fun s => holds p s c k) squares64)).
Proof. reflexivity. Qed.
Lemma len1 {A} (l : list A) : Z.of_nat (length l) = 1%Z -> exists a, l = [a].
Proof. destruct l as [|a [|c r]]; cbn [length]; intros H; try lia. exists a. reflexivity. Qed.
Lemma material_king p c : material_ok p c = true -> (count p c King =? 1)%Z = true.
Proof. unfold material_ok. intros H. apply andb_prop in H. destruct H as [H _]. exact H. Qed.

Lemma one_king_gen p c : material_ok p c = true ->
  exists k0, filter (fun s => holds p s c King) squares64 = [k0].
Proof.
  intros H. apply material_king in H. apply Z.eqb_eq in H. rewrite count_def in H. apply len1 in H. exact H.
Qed.

Section KingStep.
Variable b : board.
Hypothesis HR : Rep b.
Hypothesis HV : valid (abs b) = true.

Let p := abs b.
Let me := stm b.
Let own := colors b me.
Let occ := bor (colors b White) (colors b Black).
Let king := band (pieces b King) own.

Lemma one_king c : exists k0, k0 < 64 /\ filter (fun s => holds (abs b) s c King) squares64 = [k0].
Proof.
  destruct (one_king_gen (abs b) c (valid_material_gen (abs b) c HV)) as [k0 E].
  exists k0. split; [|exact E].
  assert (In k0 (filter (fun s => holds (abs b) s c King) squares64)) as Hin by (rewrite E; left; reflexivity).
  apply filter_In in Hin. apply squares64_spec. tauto.
Qed.

Lemma king_is_bit c : exists k0, k0 < 64 /\ band (pieces b King) (colors b c) = bit k0 /\
  (forall s, s < 64 -> holds (abs b) s c King = (s =? k0)) /\ who (abs b) k0 = Some (c, King).
Proof.
  destruct (one_king c) as [k0 [Hk E]]. exists k0. split; [exact Hk|].
  assert (HH : forall s, s < 64 -> holds (abs b) s c King = (s =? k0)).
  { intros s Hs. apply Bool.eq_true_iff_eq. rewrite N.eqb_eq. split.
    - intros H. assert (In s [k0]) as Hin by (rewrite <- E; apply filter_In; split; [apply squares64_spec; exact Hs|exact H]).
      destruct Hin as [->|[]]. reflexivity.
    - intros ->. assert (In k0 (filter (fun s => holds (abs b) s c King) squares64)) as Hin by (rewrite E; left; reflexivity).
      apply filter_In in Hin. tauto. }
  split; [|split; [exact HH|]].
  - apply N.bits_inj. intro i. unfold band. rewrite N.land_spec, bit_testbit.
    destruct (N.lt_ge_cases i 64) as [L|L].
    + rewrite <- (holds_abs b HR i c King L) by (unfold King; lia). rewrite (HH i L). apply N.eqb_sym.
    + rewrite (pieces_high b HR King i L). cbn [andb]. symmetry. apply N.eqb_neq. lia.
  - pose proof (HH k0 Hk) as H. rewrite N.eqb_refl in H.
    rewrite (holds_abs b HR k0 c King Hk) in H by (unfold King; lia). apply andb_prop in H. destruct H as [H1 H2].
    apply (who_abs_intro b HR); try assumption. unfold King; lia.
Qed.

(* ------------------------------------------------------------------------------------------ *)
(* the position after a king step *)

Lemma at_length : length (at_ (abs b)) = 64%nat.
Proof. unfold abs. cbn [at_]. rewrite map_length. reflexivity. Qed.

Theorem king_step_sound :
  king_can_step b (lsb king) king occ own = true ->
  exists to, to < 64 /\ legal_spec (abs b) (mk_move (lsb king) to 0) = true.
Proof.
  intros H. destruct (king_is_bit me) as [k0 [Hk0 [Hking [Hholds Hwho]]]].
  fold own in Hking. fold king in Hking. rewrite Hking in *. rewrite (lsb_bit k0 Hk0) in *.
  unfold king_can_step in H. apply existsb_exists in H. destruct H as [to [Hto Hsafe]].
  apply bits_of_spec in Hto. unfold band in Hto. rewrite N.land_spec, bnot_testbit in Hto.
  apply andb_prop in Hto. destruct Hto as [Hstep Hto]. apply andb_prop in Hto. destruct Hto as [Hto64 Hnown].
  apply N.ltb_lt in Hto64. apply negb_true_iff in Hnown, Hsafe.
  unfold king_moves in Hstep. destruct (king_step_range k0 to Hk0 Hstep) as (_ & Hne & Hn2 & Hn2').
  exists to. split; [exact Hto64|].
  destruct (mk_move_fields k0 to Hk0 Hto64) as (Ef & Et & Ep).
  set (m := mk_move k0 to 0) in *.
  (* the move is possible *)
  assert (Hpseudo : pseudo_spec (abs b) m = true).
  { unfold pseudo_spec. rewrite Ef, Et, Ep. cbv zeta. rewrite Hwho.
    change (turn (abs b)) with me. rewrite color_eqb_refl.
    rewrite (owned_abs b HR to me Hto64). fold own. rewrite Hnown.
    change (King =? Pawn) with false. change (King =? King) with true. cbv iota.
    unfold mem. rewrite Hstep. reflexivity. }
  (* the placement after the move *)
  assert (Hplace : place_after (abs b) m =
                   put (put (at_ (abs b)) k0 None) to (Some (me, King))).
  { unfold place_after. rewrite Ef, Et, Ep. cbv zeta. rewrite Hwho. change (turn (abs b)) with me.
    change (0 =? 0) with true. cbv iota.
    assert (is_ep_capture (abs b) m = false) as ->.
    { unfold is_ep_capture. rewrite Ef. unfold holds. rewrite Hwho. change (Pawn =? King) with false.
      rewrite andb_false_r. reflexivity. }
    assert (is_castling (abs b) m = false) as ->.
    { unfold is_castling. rewrite Ef, Et.
      destruct (N.eqb_spec to (k0 + 2)); [contradiction|]. destruct (N.eqb_spec (to + 2) k0); [contradiction|].
      rewrite andb_false_r. reflexivity. }
    reflexivity. }
  set (p' := with_placement (abs b) (place_after (abs b) m)).
  assert (Hwho' : forall s, who p' s = if to =? s then Some (me, King) else if k0 =? s then None else who (abs b) s).
  { intros s. unfold p', who, with_placement. cbn [at_]. rewrite Hplace. unfold put.
    rewrite nthN_updN by (unfold updN; rewrite upd_length, at_length; lia).
    destruct (to =? s); [reflexivity|].
    rewrite nthN_updN by (rewrite at_length; lia). reflexivity. }
  (* the king stands on [to] now *)
  assert (Hksq : king_sq p' me = to).
  { unfold king_sq. rewrite (filter_single _ squares64 to); [reflexivity|apply squares64_NoDup|apply squares64_spec; exact Hto64|].
    intros s Hs. apply squares64_spec in Hs. unfold holds. rewrite Hwho'.
    destruct (N.eqb_spec to s) as [->|E1].
    - rewrite color_eqb_refl. rewrite N.eqb_refl. tauto.
    - destruct (N.eqb_spec k0 s) as [->|E2]; [split; [discriminate|intros ->; congruence]|].
      pose proof (Hholds s Hs) as Hh. unfold holds in Hh. rewrite Hh.
      destruct (N.eqb_spec s k0) as [->|]; [congruence|]. split; [discriminate|intros ->; congruence]. }
  (* and is not attacked there *)
  assert (Hnatt : attacked_by p' (flip me) to = false).
  { destruct (attacked_by p' (flip me) to) eqn:Hatt; [|reflexivity]. exfalso.
    unfold attacked_by in Hatt. apply existsb_exists in Hatt. destruct Hatt as [t [Ht Hatt]].
    apply squares64_spec in Ht. rewrite Hwho' in Hatt.
    destruct (N.eqb_spec to t) as [->|E1].
    { rewrite color_eqb_flip in Hatt. discriminate. }
    destruct (N.eqb_spec k0 t) as [->|E2]; [discriminate|].
    destruct (who (abs b) t) as [[c' k]|] eqn:Hwt; [|discriminate].
    apply andb_prop in Hatt. destruct Hatt as [Hcol Hmem].
    apply color_eqb_eq in Hcol. subst c'.
    assert (Hia : is_attacked b (flip me) (bandn occ (bit k0)) (bit to) = true); [|exact (Bool.diff_true_false (eq_trans (eq_sym Hia) Hsafe))].
    apply (is_attacked_complete b (flip me) k t to (occ_of p') _ HR Ht Hto64 Hwt Hmem).
    intros u Hu1 Hu2. rewrite occ_of_testbit. unfold bandn. rewrite N.ldiff_spec, bit_testbit.
    change occ with (occupancy b).
    destruct (N.ltb_spec u 64) as [L|L].
    - unfold empty. rewrite Hwho'. destruct (N.eqb_spec to u) as [->|_]; [congruence|].
      destruct (N.eqb_spec k0 u) as [->|_]; [cbn [negb]; rewrite !andb_false_r; reflexivity|].
      pose proof (empty_abs b HR u L) as He. unfold empty in He. rewrite He, negb_involutive, andb_true_r. reflexivity.
    - rewrite (occupancy_testbit b), (colors_high b HR), (colors_high b HR) by exact L. reflexivity. }
  unfold legal_spec. rewrite Hpseudo. fold p'. unfold in_check_spec. change (turn (abs b)) with me.
  rewrite Hksq, Hnatt. reflexivity.
Qed.

Corollary king_step_legal_moves :
  king_can_step b (lsb king) king occ own = true -> legal_moves (abs b) <> [].
Proof.
  intros H. destruct (king_step_sound H) as [to [Hto Hl]].
  destruct (king_is_bit me) as [k0 [Hk0 [Hking _]]]. fold own in Hking. fold king in Hking.
  rewrite Hking, (lsb_bit k0 Hk0) in Hl.
  apply (legal_moves_nonempty _ k0 to 0); try assumption. left. reflexivity.
Qed.

End KingStep.
