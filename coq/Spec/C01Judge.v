(* Faster oracles for the C01 streams.  [legal_moves_fast] enumerates the candidate encodings only for
   from-squares that hold a piece of the side to move (every other candidate is rejected by the first
   test of [pseudo_spec]); Proofs/JudgeC01.v proves [legal_moves_fast p = legal_moves p], and that the
   judges below answer exactly like the plain ones of Spec/ChessJudge.v and Spec/PerftSpec.v.
   [judge_c01x] additionally reports (clause 8) a board that does not satisfy the representation
   invariant [rep_ok] - the hypothesis [Rep b] of the theorems - before judging the moves.
   Definitions only. *)
From Coq Require Import NArith ZArith List Bool.
From Chess3 Require Import Base.Bits Model.Types Spec.Geometry Model.BoardDef Spec.Chess Spec.Rep
  Spec.ChessJudge Spec.PerftSpec.
Import ListNotations.
Open Scope Z_scope.

Definition moves_from (from : N) : list N :=
  flat_map (fun to => map (fun pr => mk_move from to pr) [0; Knight; Bishop; Rook; Queen]%N) squares64.

Definition legal_moves_fast (p : pos) : list N :=
  flat_map (fun from => if owned_by p from (turn p) then filter (legal_spec p) (moves_from from) else [])
           squares64.

(* judge for stream "gen": as judge_c01, plus clause 8 = the board violates rep_ok *)
Definition judge_c01x (l : list Z) : list Z :=
  match decode_board l with
  | Some (b, rest) =>
      let p := abs b in
      if negb (rep_ok b) then [0; 8] else
      if negb (valid p) then [1] else
      let '(_, r1) := take_counted rest in
      let '(_, r2) := take_counted r1 in
      let '(pl, _) := take_counted r2 in
      let pl := map Z.to_N pl in
      let lg := legal_moves_fast p in
      if negb (subset pl lg) then [0; 1]
      else if negb (subset lg pl) then [0; 2]
      else if negb (nodup_b pl) then [0; 3]
      else [1]
  | None => [0; 9]
  end.

Fixpoint perft_fast (d : nat) (p : pos) : Z :=
  match d with
  | O => 1
  | S O => Z.of_nat (length (legal_moves_fast p))
  | S d' => fold_left (fun acc m => acc + perft_fast d' (succ_spec p m)) (legal_moves_fast p) 0
  end.

Definition judge_perftx (l : list Z) : list Z :=
  match decode_board l with
  | Some (b, d :: n :: _) =>
      if negb ((0 <=? d) && (d <=? max_perft_depth)) then [0; 9]
      else if negb (valid (abs b)) then [1]
      else if perft_fast (Z.to_nat d) (abs b) =? n then [1] else [0; 1]
  | _ => [0; 9]
  end.

(* ------------------------------------------------------------------------------------------ *)
(* stream c01reach: board-in(root) ++ [n; m_1..m_n] ++ observed [#playable; playable...]
   The reached position is recomputed from the rules alone (iterated succ_spec from abs root); the
   playable moves the implementation reports after playing the moves must be exactly its legal moves.
   [1] outside the domain (root not valid, or a move of the list not legal where it is played). *)
Fixpoint spec_play (p : pos) (ms : list N) : option pos :=
  match ms with
  | [] => Some p
  | m :: r => if legal_spec p m then spec_play (succ_spec p m) r else None
  end.

Definition judge_c01reach (l : list Z) : list Z :=
  match decode_board l with
  | Some (b, n :: rest) =>
      let p0 := abs b in
      if negb (valid p0) then [1] else
      let ms := map Z.to_N (firstn (Z.to_nat n) rest) in
      match spec_play p0 ms with
      | None => [1]
      | Some p =>
          let '(pl, _) := take_counted (skipn (Z.to_nat n) rest) in
          let pl := map Z.to_N pl in
          let lg := legal_moves_fast p in
          if negb (subset pl lg) then [0; 1]
          else if negb (subset lg pl) then [0; 2]
          else if negb (nodup_b pl) then [0; 3]
          else [1]
      end
  | _ => [0; 9]
  end.

(* model side of the stream: play the moves on the engine model, report its playable moves *)
From Chess3 Require Import Model.Board Model.Movegen Gen.Zobrist Spec.Play Model.BoardStreams.
Definition run_c01reach (l : list Z) : list Z :=
  match decode_board l with
  | Some (b, n :: rest) =>
      let ms := map Z.to_N (firstn (Z.to_nat n) rest) in
      let pl := sortN (playable zob_real (run zob_real b ms)) in   (* compared as a sorted list: a set with multiplicities *)
      Z.of_nat (length pl) :: map Z.of_N pl
  | _ => []
  end.
