package streams

import (
	"fmt"
	"strings"

	"github.com/paulsonkoly/chess-3/board"
	. "github.com/paulsonkoly/chess-3/chess"

	"verifharness/hx"
	"verifharness/posgen"
)

// c09s (session, property C09): board-in ++ [n op_1 .. op_n], executed on ONE long-lived board
//
//	op < 0x10000   MakeMove(op)
//	op = 0x10000   MakeNullMove()
//	op = 0x20000   undo the most recent operation that is not yet undone
//	op = 0x30000+q a question asked on the long-lived board at the node the walk stands on:
//	               q = 0 InCheck(side to move), q = 1 InCheck(other side),
//	               q = 2 IsCheckmate, q = 3 IsStalemate
//
// IsCheckmate is specified only in check and IsStalemate only when not in check (outside,
// IsCheckmate panics). Whether a question is inside its domain is decided on a FRESH copy of the
// position (VerifRestore of a snapshot), so that the long-lived board's own InCheck is not
// necessarily called before its IsCheckmate; outside the domain 2 ("not called") is reported.
//
// output: per question [q  P1..P6 C0 C1 stm ep castles  answer(long-lived board)  answer(fresh copy)]
// (a panic of a question is caught and reported as 9; the walk goes on).
//
// The generator walks depth-first the way a perft / statistics walker or a search does - make,
// ask, descend, take back, ASK AGAIN (post-order) - with the questions in random order and random
// subsets, so that state a Board might keep between calls (and forget to drop on make / undo /
// null move) is exercised. See coq/Model/MateStreams.v (run_c09s), coq/Spec/MateJudge.v (judge_c09s).
func init() {
	hx.Register(&hx.Stream{Name: "c09s", Gen: genC09s, Run: runC09s, Shrink: shrinkC09s, Describe: describeC09s})
}

const opQuery = 0x30000

func c09sAsk(b *board.Board, q uint64) (ans uint64) {
	defer func() {
		if recover() != nil {
			ans = 9
		}
	}()
	t := false
	switch q {
	case 0:
		t = b.InCheck(b.STM)
	case 1:
		t = b.InCheck(b.STM.Flip())
	case 2:
		t = b.IsCheckmate()
	default:
		t = b.IsStalemate()
	}
	if t {
		return 1
	}
	return 0
}

func c09sFresh(b *board.Board) *board.Board { return board.VerifRestore(b.VerifSnapshot()) }

func runC09s(a hx.Args) string {
	b, i := a.Board(0)
	n := a.Int(i)
	out := &hx.Nums{}
	var stack []seqFrame
	for k := 0; k < n; k++ {
		op := a.U64(i + 1 + k)
		switch {
		case op >= opQuery:
			q := op - opQuery
			s := b.VerifSnapshot()
			out.U(q)
			for p := Pawn; p <= King; p++ {
				out.U(uint64(s.Pieces[p]))
			}
			out.U(uint64(s.Colors[0]), uint64(s.Colors[1]), uint64(s.STM), uint64(s.EnPassant), uint64(s.Castles))
			live, fresh := uint64(2), uint64(2)
			inDomain := true
			if q >= 2 {
				chk := c09sAsk(c09sFresh(b), 0) == 1
				inDomain = (q == 2) == chk
			}
			if inDomain {
				live = c09sAsk(b, q)
				fresh = c09sAsk(c09sFresh(b), q)
			}
			out.U(live, fresh)
		case op == opPop:
			if len(stack) > 0 {
				f := stack[len(stack)-1]
				stack = stack[:len(stack)-1]
				if f.null {
					b.UndoNullMove(f.r)
				} else {
					b.UndoMove(f.m, f.r)
				}
			}
		case op == opNull:
			stack = append(stack, seqFrame{null: true, r: b.MakeNullMove()})
		default:
			m := hx.U2M(uint64(op))
			stack = append(stack, seqFrame{m: m, r: b.MakeMove(m)})
		}
	}
	return out.String()
}

func c09sOpString(op uint64) string {
	if op >= opQuery {
		return []string{"InCheck(stm)?", "InCheck(other)?", "IsCheckmate?", "IsStalemate?"}[(op-opQuery)&3]
	}
	return opString(op)
}

// c09sWalk appends a depth-first walk from the node b stands on. The generator's own questions are
// asked on fresh copies, never on b, so that b's history is exactly the operations written to ops.
type c09sWalker struct {
	rng      *hx.Rng
	ops      []uint64
	maxOps   int
	maxDepth int
	tags     map[string]bool
	postMate bool // a post-order IsCheckmate / IsStalemate question was asked after a child asked InCheck(stm)
}

func (w *c09sWalker) ask(qs ...uint64) {
	for _, q := range qs {
		w.ops = append(w.ops, opQuery+q)
	}
}

// questions in a random order, a random subset (at least one)
func (w *c09sWalker) questions(legalNode bool) (askedStm bool) {
	qs := []uint64{0, 1, 2, 3}
	if !legalNode {
		qs = []uint64{0, 1} // the side not to move is in check: outside the domain of both tests
	}
	for i := len(qs) - 1; i > 0; i-- {
		j := w.rng.Intn(i + 1)
		qs[i], qs[j] = qs[j], qs[i]
	}
	n := 0
	for _, q := range qs {
		if w.rng.Chance(0.65) || (n == 0 && q == qs[len(qs)-1]) {
			w.ask(q)
			n++
			if q == 0 {
				askedStm = true
			}
		}
	}
	return
}

func (w *c09sWalker) walk(b *board.Board, depth int) (childAskedStm bool) {
	asked := w.questions(true)
	if depth >= w.maxDepth || len(w.ops) >= w.maxOps {
		return asked
	}
	ms := posgen.Pseudo(b)
	kids := 1 + w.rng.Intn(3)
	any := false
	for c := 0; c < kids && len(ms) > 0 && len(w.ops) < w.maxOps; c++ {
		if w.rng.Chance(0.1) && !c09sFresh(b).InCheck(b.STM) {
			r := b.MakeNullMove()
			w.ops = append(w.ops, opNull)
			w.tags["null"] = true
			if w.walk(b, depth+1) {
				any = true
			}
			b.UndoNullMove(r)
			w.ops = append(w.ops, opPop)
		} else {
			m := ms[w.rng.Intn(len(ms))]
			// prefer replies that give check or capture (their memo differs most from the parent's)
			for try := 0; try < 3; try++ {
				x := ms[w.rng.Intn(len(ms))]
				if b.SquaresToPiece[x.To()] != NoPiece {
					m = x
					break
				}
				r := b.MakeMove(x)
				chk := c09sFresh(b).InCheck(b.STM)
				b.UndoMove(x, r)
				if chk {
					m = x
					break
				}
			}
			me := b.STM
			r := b.MakeMove(m)
			w.ops = append(w.ops, hx.M2U(m))
			if c09sFresh(b).InCheck(me) {
				// pseudo-legal but illegal: a walker sees that the mover is in check and takes it back
				w.tags["illegal-made-undone"] = true
				if w.questions(false) {
					any = true
				}
			} else if w.walk(b, depth+1) {
				any = true
			}
			b.UndoMove(m, r)
			w.ops = append(w.ops, opPop)
		}
		// post-order: ask again at this node, sometimes after every child, sometimes only at the end
		if w.rng.Chance(0.6) || c == kids-1 {
			before := len(w.ops)
			w.questions(true)
			if any {
				for _, op := range w.ops[before:] {
					if op == opQuery+2 || op == opQuery+3 {
						w.postMate = true
					}
					if op == opQuery+0 {
						break // the memo (if any) is refreshed from here on
					}
				}
			}
		}
	}
	return asked || any
}

func genC09s(rng *hx.Rng, n int, tier string, emit func(hx.Input)) {
	cons := posgen.ConstructedAll()
	cnt := 0
	one := func(p posgen.Pos, kind string) {
		if cnt >= n || !posgen.Valid(p.B) || !posgen.NormalEP(p.B) {
			return
		}
		b := c09sFresh(p.B)
		w := &c09sWalker{rng: rng, maxOps: 20 + rng.Intn(100), maxDepth: 1 + rng.Intn(4), tags: map[string]bool{}}
		in := (&hx.Nums{}).BoardIn(b)
		w.walk(b, 0)
		in.Int(len(w.ops))
		for _, op := range w.ops {
			in.U(op)
		}
		tags := append(posgen.Tags(p.B), kind)
		for t := range w.tags {
			tags = append(tags, t)
		}
		if w.postMate {
			tags = append(tags, "post-order-question-after-child-InCheck")
		}
		if c09counter.Count(p.B, 3) <= 2 {
			tags = append(tags, "root-legal<=2")
		}
		line := in.String()
		a, _ := hx.ParseArgs(line)
		emit(hx.Input{In: line, Desc: kind + " " + describeC09s(a), Tags: tags, NonTrivial: w.postMate, Key: line})
		cnt++
	}
	for cnt < n {
		switch x := rng.Intn(100); {
		case x < 15:
			one(cons[rng.Intn(len(cons))], "G6")
		case x < 45:
			// in-check / few-flight roots of the themed generator
			for try := 0; try < 50; try++ {
				if p := posgen.Themed(rng); p != nil && (p.B.InCheck(p.B.STM) || c09counter.Count(p.B, 3) <= 2) {
					one(*p, "G7")
					break
				}
			}
		case x < 60:
			for try := 0; try < 50; try++ {
				if p := posgen.EPOnly(rng); p != nil {
					one(*p, p.Kind)
					break
				}
			}
		case x < 70:
			if p := smallSample(rng); p != nil {
				one(*p, p.Kind)
			}
		default:
			posgen.Stream(rng.Fork(), 3, func(p posgen.Pos) {
				if c09Interesting(p.B) || rng.Chance(0.2) {
					one(p, p.Kind)
				}
			})
		}
	}
}

func describeC09s(a hx.Args) string {
	i := boardInLen(a, 0)
	if i < 0 || i >= a.Len() {
		return ""
	}
	b, _ := a.Board(0)
	n := a.Int(i)
	var sb strings.Builder
	fmt.Fprintf(&sb, "fen %s session", b.FEN())
	for k := 0; k < n && i+1+k < a.Len(); k++ {
		sb.WriteString(" " + c09sOpString(a.U64(i+1+k)))
	}
	return sb.String()
}

// shrinkC09s: single questions removed, runs of operations removed, completed sub-walks (a make with
// everything up to its matching undo) removed; a candidate is kept when the walk without its
// questions is still one the generator could have produced (mkseqWalkOK).
func shrinkC09s(in string) []string {
	toks := hx.Toks(in)
	a, err := hx.ParseArgs(in)
	if err != nil {
		return nil
	}
	i := boardInLen(a, 0)
	if i < 0 || i >= a.Len() {
		return nil
	}
	n := a.Int(i)
	if n < 0 || i+1+n != a.Len() {
		return nil
	}
	head, opToks := toks[:i], toks[i+1:]
	ops := make([]uint64, n)
	for k := range ops {
		ops[k] = a.U64(i + 1 + k)
	}
	var out []string
	try := func(keep []bool) {
		var walk []uint64
		var ct []string
		questions := 0
		for k, kp := range keep {
			if !kp {
				continue
			}
			ct = append(ct, opToks[k])
			if ops[k] >= opQuery {
				questions++
			} else {
				walk = append(walk, ops[k])
			}
		}
		if questions == 0 || len(ct) == n {
			return
		}
		b, _ := a.Board(0)
		if len(walk) == 0 || mkseqWalkOK(b, walk) {
			out = append(out, hx.JoinToks(head, []string{hexInt(len(ct))}, ct))
		}
	}
	all := func() []bool {
		k := make([]bool, n)
		for j := range k {
			k[j] = true
		}
		return k
	}
	for _, c := range hx.Cuts(n, 1) {
		keep := all()
		for j := c.Lo; j < c.Hi; j++ {
			keep[j] = false
		}
		try(keep)
	}
	var open []int
	for k, op := range ops {
		switch {
		case op >= opQuery:
		case op != opPop:
			open = append(open, k)
		case len(open) > 0:
			s := open[len(open)-1]
			open = open[:len(open)-1]
			keep := all()
			for j := s; j <= k; j++ {
				keep[j] = false
			}
			try(keep)
		}
	}
	// every question but the last removed (the failing question is often the last one that matters)
	for k := n - 1; k >= 0; k-- {
		if ops[k] >= opQuery {
			keep := all()
			for j := 0; j < k; j++ {
				if ops[j] >= opQuery {
					keep[j] = false
				}
			}
			try(keep)
			break
		}
	}
	return out
}
