(* The parametric copies of the model and of the specification (Model/SeeT.v, Spec/SeeSpecT.v), taken at
   the generated table, ARE the definitions the C18 theorems are about (the bodies are the same text;
   the lemmas below walk through them definition by definition).  If somebody edits one file and not the
   other these lemmas stop compiling. *)
From Coq Require Import NArith ZArith List Bool.
From Chess3 Require Import Base.Bits Model.Types Model.BoardDef Gen.SeeConsts Model.See Model.SeeT
  Spec.SeeSpec Spec.SeeSpecT.
Import ListNotations.

Lemma pval_t_default p : pval_t PieceValues p = pval p.
Proof. reflexivity. Qed.

Lemma capture_with_t_default b to p sa occ att swap res :
  capture_with_t PieceValues b to p sa occ att swap res = capture_with b to p sa occ att swap res.
Proof. reflexivity. Qed.

Lemma see_step_t_default b to stm occ att swap res start :
  see_step_t PieceValues b to stm occ att swap res start = see_step b to stm occ att swap res start.
Proof. reflexivity. Qed.

Lemma see_iter_t_default fuel : forall b to stm occ att swap res sW sB,
  see_iter_t PieceValues fuel b to stm occ att swap res sW sB = see_iter fuel b to stm occ att swap res sW sB.
Proof.
  induction fuel as [|k IH]; intros; [reflexivity|].
  cbn [see_iter_t see_iter]. rewrite see_step_t_default.
  destruct (band (band att occ) (colors b (flip stm)) =? 0)%N; [reflexivity|].
  destruct (see_step b to (flip stm) occ (band att occ) swap (Z.lxor res 1) _) as [[r|o a s] st]; [reflexivity|].
  destruct (flip stm); apply IH.
Qed.

Lemma see_prologue_t_default b m t : see_prologue_t PieceValues b m t = see_prologue b m t.
Proof. reflexivity. Qed.

Lemma see_t_default b m t : see_t PieceValues b m t = see b m t.
Proof.
  unfold see_t, see. rewrite see_prologue_t_default.
  destruct (see_prologue b m t); [reflexivity|apply see_iter_t_default].
Qed.

Lemma value_t_default p : value_t PieceValues p = value p.
Proof. reflexivity. Qed.

Lemma least_value_t_default A : least_value_t PieceValues A = least_value A.
Proof. reflexivity. Qed.

Lemma candidates_t_default A : candidates_t PieceValues A = candidates A.
Proof. reflexivity. Qed.

Lemma captures_t_default choice fuel : forall b target side occ standing,
  captures_t PieceValues fuel b choice target side occ standing = captures fuel b choice target side occ standing.
Proof.
  induction fuel as [|k IH]; intros; [reflexivity|].
  cbn [captures_t captures]. destruct (attackers_of b side occ target) as [|a A]; [reflexivity|].
  rewrite candidates_t_default. destruct (choice (candidates (a :: A))) as [s p].
  destruct (p =? King)%N; [reflexivity|]. rewrite IH, value_t_default. reflexivity.
Qed.

Lemma swap_list_t_default b m choice : swap_list_t PieceValues b m choice = swap_list b m choice.
Proof. unfold swap_list_t, swap_list. rewrite captures_t_default, !value_t_default. reflexivity. Qed.

Lemma all_replies_t_default fuel : forall b target side occ standing,
  all_replies_t PieceValues fuel b target side occ standing = all_replies fuel b target side occ standing.
Proof.
  induction fuel as [|k IH]; intros; [reflexivity|].
  cbn [all_replies_t all_replies]. destruct (attackers_of b side occ target) as [|a A]; [reflexivity|].
  rewrite candidates_t_default. f_equal.
Qed.

Lemma all_balances_t_default b m : all_balances_t PieceValues b m = all_balances b m.
Proof. unfold all_balances_t, all_balances. rewrite all_replies_t_default, !value_t_default. reflexivity. Qed.
