(* Proofs about Model/Picker.v: draining the staged picker yields every generated move exactly
   once, hash move first, inside its own store frame. *)
From Coq Require Import ZArith Lia Bool List Permutation.
Import ListNotations.
From Chess3 Require Import Base.Word Gen.HeurConsts Model.Hist Model.Picker Proofs.HistProofs.
Open Scope Z_scope.

(* ------------------------------------------------------------------------------------------- *)
(* lists                                                                                         *)

Lemma skipn_app_len {A} (Y R : list A) : skipn (length Y) (Y ++ R) = R.
Proof. induction Y as [|a Y IH]; cbn; auto. Qed.

Lemma firstn_app_len {A} (Y R : list A) : firstn (length Y) (Y ++ R) = Y.
Proof. induction Y as [|a Y IH]; cbn; [reflexivity|]. now rewrite IH. Qed.

Lemma set_nth_app (Y : list wmove) x R v : set_nth (Y ++ x :: R) (length Y) v = Y ++ v :: R.
Proof. unfold set_nth. now rewrite firstn_app_len, skipn_app_len. Qed.

Lemma swap_same Y y C : swap (Y ++ y :: C) (length Y) (length Y) = Y ++ y :: C.
Proof. unfold swap. rewrite nth_middle. now rewrite !set_nth_app. Qed.

Lemma swap_far Y x B y C :
  swap (Y ++ x :: B ++ y :: C) (length Y) (length Y + S (length B)) = Y ++ y :: B ++ x :: C.
Proof.
  unfold swap. rewrite nth_middle.
  assert (Hlen : forall z, (length Y + S (length B))%nat = length (Y ++ z :: B)).
  { intros z. rewrite app_length. cbn. lia. }
  assert (Hy : nth (length Y + S (length B)) (Y ++ x :: B ++ y :: C) (0, 0) = y).
  { replace (Y ++ x :: B ++ y :: C) with ((Y ++ x :: B) ++ y :: C) by (now rewrite <- app_assoc).
    rewrite (Hlen x). apply nth_middle. }
  rewrite Hy, set_nth_app.
  replace (Y ++ y :: B ++ y :: C) with ((Y ++ y :: B) ++ y :: C) by (now rewrite <- app_assoc).
  rewrite (Hlen y), set_nth_app. now rewrite <- app_assoc.
Qed.

Lemma Permutation_filter {A} (f : A -> bool) (l l' : list A) :
  Permutation l l' -> Permutation (filter f l) (filter f l').
Proof.
  induction 1 as [|x l l' _ IH|x y l|l l' l'' _ IH1 _ IH2]; cbn.
  - constructor.
  - destruct (f x); [now constructor|assumption].
  - destruct (f x), (f y); try apply Permutation_refl. apply perm_swap.
  - eapply Permutation_trans; eassumption.
Qed.

Lemma filter_all {A} (f : A -> bool) l : Forall (fun x => f x = true) l -> filter f l = l.
Proof. induction 1 as [|x l Hx _ IH]; cbn; [reflexivity|]. now rewrite Hx, IH. Qed.

Lemma filter_none {A} (f : A -> bool) l : Forall (fun x => f x = false) l -> filter f l = [].
Proof. induction 1 as [|x l Hx _ IH]; cbn; [reflexivity|]. now rewrite Hx. Qed.

(* splitting a permuted list by a predicate that holds on one part and fails on the other *)
Lemma perm_split_filter {A} (f : A -> bool) (a b c : list A) :
  Permutation (a ++ b) c -> Forall (fun x => f x = true) a -> Forall (fun x => f x = false) b ->
  Permutation a (filter f c).
Proof.
  intros Hp Ha Hb. apply (Permutation_filter f) in Hp.
  rewrite filter_app, (filter_all f a Ha), (filter_none f b Hb), app_nil_r in Hp. exact Hp.
Qed.

Lemma filter_neq_notin (hm : Z) l : ~ In hm l -> filter (fun m => negb (hm =? m)) l = l.
Proof.
  induction l as [|a l IH]; cbn; intros Hn; [reflexivity|].
  destruct (hm =? a) eqn:E; [apply Z.eqb_eq in E; exfalso; apply Hn; now left|].
  cbn. f_equal. apply IH. intros H. apply Hn. now right.
Qed.

Lemma nodup_filter_perm (hm : Z) l : NoDup l -> In hm l ->
  Permutation (hm :: filter (fun m => negb (hm =? m)) l) l.
Proof.
  induction l as [|a l IH]; intros Hnd Hin; [contradiction|].
  inversion Hnd as [|? ? Hna Hnd']; subst. cbn [filter].
  destruct (hm =? a) eqn:E.
  - apply Z.eqb_eq in E. subst a. cbn. now rewrite filter_neq_notin.
  - apply Z.eqb_neq in E. cbn. destruct Hin as [Hin|Hin]; [congruence|].
    eapply Permutation_trans; [apply perm_swap|]. constructor. now apply IH.
Qed.

(* ------------------------------------------------------------------------------------------- *)
(* the selection scan                                                                            *)

Lemma scan_spec : forall (l : list wmove) i maxim best,
  (scan l i maxim best = best /\ Forall (fun x => snd x <= maxim) l)
  \/ (exists B y C, l = B ++ y :: C /\ scan l i maxim best = Some (i + length B)%nat /\ maxim < snd y).
Proof.
  induction l as [|[m w] t IH]; intros i maxim best; cbn [scan].
  - left. split; [reflexivity|constructor].
  - destruct (maxim <? w) eqn:E; [apply Z.ltb_lt in E|apply Z.ltb_ge in E].
    + right. destruct (IH (S i) w (Some i)) as [[Hr Hall]|(B & y & C & Hl & Hr & Hy)].
      * exists [], (m, w), t. cbn. rewrite Nat.add_0_r. auto.
      * exists ((m, w) :: B), y, C. subst t. cbn [app length]. repeat split.
        -- rewrite Hr. f_equal. lia.
        -- lia.
    + destruct (IH (S i) maxim best) as [[Hr Hall]|(B & y & C & Hl & Hr & Hy)].
      * left. split; [exact Hr|]. constructor; [cbn; lia|exact Hall].
      * right. exists ((m, w) :: B), y, C. subst t. cbn [app length]. repeat split.
        -- rewrite Hr. f_equal. lia.
        -- exact Hy.
Qed.

(* ------------------------------------------------------------------------------------------- *)
(* the store: a picker works on the top frame only                                               *)

(* s has frame list fr, the data below the top frame is L and the top frame is X *)
Definition framed (s : store) (fr : list nat) (L X : list wmove) : Prop :=
  s_data s = L ++ X /\ s_frames s = fr /\ match fr with [] => O | ix :: _ => ix end = length L.

Lemma framed_frame s fr L X : framed s fr L X -> store_frame s = X.
Proof.
  intros (Hd & Hf & Hl). unfold store_frame, frame_start. rewrite Hf, Hl, Hd. apply skipn_app_len.
Qed.

Lemma framed_write s fr L X X' : framed s fr L X -> framed (store_write_frame s X') fr L X'.
Proof.
  intros (Hd & Hf & Hl). unfold framed, store_write_frame, frame_start. cbn [s_data s_frames].
  rewrite Hf, Hl, Hd, firstn_app_len. auto.
Qed.

Lemma framed_alloc s fr L X m : framed s fr L X -> Z.of_nat (length L + length X) < StoreSize ->
  exists s', store_alloc s m = Some s' /\ framed s' fr L (X ++ [(m, 0)]).
Proof.
  intros (Hd & Hf & Hl) Hroom. unfold store_alloc. rewrite Hd, app_length.
  destruct (Z.of_nat (length L + length X) <? StoreSize) eqn:E; [|apply Z.ltb_ge in E; lia].
  eexists. split; [reflexivity|]. unfold framed. cbn [s_data s_frames]. rewrite app_assoc. auto.
Qed.

Lemma framed_alloc_all fr L : forall ms s X, framed s fr L X ->
  Z.of_nat (length L + length X + length ms) <= StoreSize ->
  exists s', store_alloc_all s ms = Some s' /\ framed s' fr L (X ++ map (fun m => (m, 0)) ms).
Proof.
  induction ms as [|m ms IH]; intros s X Hf Hroom; cbn [store_alloc_all map].
  - exists s. rewrite app_nil_r. auto.
  - cbn [length] in Hroom.
    destruct (framed_alloc s fr L X m Hf ltac:(lia)) as (s1 & Ha & Hf1). rewrite Ha.
    destruct (IH s1 (X ++ [(m, 0)]) Hf1) as (s2 & Ha2 & Hf2).
    { rewrite app_length. cbn [length]. lia. }
    exists s2. split; [exact Ha2|]. now rewrite <- app_assoc in Hf2.
Qed.

Lemma framed_pop s s' fr L X X' : framed s fr L X -> framed s' fr L X' -> store_pop s' = store_pop s.
Proof.
  intros (Hd & Hf & Hl) (Hd' & Hf' & _). unfold store_pop. rewrite Hf, Hf', Hd, Hd'.
  destruct fr as [|ix fs]; [reflexivity|]. rewrite Hl, !firstn_app_len. reflexivity.
Qed.

(* a fresh frame was pushed for the picker *)
Definition fresh_frame (s : store) : Prop := store_frame s = [] /\ (frame_start s <= length (s_data s))%nat.

Lemma fresh_framed s : fresh_frame s -> framed s (s_frames s) (s_data s) [].
Proof.
  intros [Hf Hle]. unfold framed. rewrite app_nil_r. repeat split.
  unfold store_frame, frame_start in *.
  destruct (s_frames s) as [|ix fs].
  - cbn in Hf. now rewrite Hf.
  - assert (length (skipn ix (s_data s)) = 0%nat) by now rewrite Hf.
    rewrite skipn_length in H. lia.
Qed.

Lemma push_fresh s : fresh_frame (store_push s).
Proof.
  unfold fresh_frame, store_frame, frame_start, store_push. cbn [s_data s_frames].
  split; [apply skipn_all|lia].
Qed.


(* split syntactic conjunctions only (framed stays folded) *)
Ltac splits := repeat match goal with |- _ /\ _ => split end.

(* ------------------------------------------------------------------------------------------- *)
(* weight assignment with duplicate suppression                                                  *)

Definition mark (hm : Z) (mw : wmove) : wmove := (fst mw, if hm =? fst mw then - HashMove else snd mw).

Lemma assign_weights_spec hm (l : list wmove) :
  assign_weights hm (map (fun m => (m, 0)) (map fst l)) (map snd l) = map (mark hm) l.
Proof. induction l as [|[m w] l IH]; cbn; [reflexivity|]. now rewrite IH. Qed.

(* ------------------------------------------------------------------------------------------- *)
(* one selection step                                                                            *)

Lemma select_spec p fr L Y R thr : framed (p_store p) fr L (Y ++ R) -> p_ix p = length Y ->
  match select p thr with
  | None => Forall (fun x => snd x <= thr) R
  | Some p' => exists y Rm,
      framed (p_store p') fr L ((Y ++ [y]) ++ Rm) /\ p_ix p' = length (Y ++ [y])
      /\ Permutation (y :: Rm) R /\ thr < snd y /\ current p' = y
      /\ p_state p' = p_state p /\ p_hash p' = p_hash p
  end.
Proof.
  intros Hf Hix. unfold select. rewrite (framed_frame _ _ _ _ Hf), Hix, skipn_app_len.
  destruct (scan_spec R (length Y) thr None) as [[Hr Hall]|(B & y & C & HR & Hr & Hy)]; rewrite Hr.
  - exact Hall.
  - assert (Hcur : forall Rm s, framed s fr L ((Y ++ [y]) ++ Rm) ->
       current {| p_store := s; p_ix := S (length Y); p_hash := p_hash p; p_state := p_state p |} = y).
    { intros Rm s Hs. unfold current. cbn [p_store p_ix]. rewrite (framed_frame _ _ _ _ Hs).
      rewrite Nat.sub_succ, Nat.sub_0_r, <- app_assoc. cbn [app]. apply nth_middle. }
    assert (Hlen : S (length Y) = length (Y ++ [y])) by (rewrite app_length; cbn; lia).
    destruct B as [|x B].
    + subst R. cbn [length app] in *. rewrite Nat.add_0_r, swap_same.
      exists y, C. cbn [p_store p_ix p_state p_hash].
      assert (Hs : framed (store_write_frame (p_store p) (Y ++ y :: C)) fr L ((Y ++ [y]) ++ C)).
      { rewrite <- app_assoc. cbn [app]. eapply framed_write; exact Hf. }
      refine (conj Hs (conj Hlen (conj (Permutation_refl _) (conj Hy (conj _ (conj eq_refl eq_refl)))))).
      eapply Hcur; exact Hs.
    + subst R. cbn [length app] in *. rewrite swap_far.
      exists y, (B ++ x :: C). cbn [p_store p_ix p_state p_hash].
      assert (Hs : framed (store_write_frame (p_store p) (Y ++ y :: B ++ x :: C)) fr L ((Y ++ [y]) ++ B ++ x :: C)).
      { rewrite <- app_assoc. cbn [app]. eapply framed_write; exact Hf. }
      refine (conj Hs (conj Hlen (conj _ (conj Hy (conj _ (conj eq_refl eq_refl)))))).
      * (* y :: B ++ x :: C  ~  x :: B ++ y :: C *)
        eapply Permutation_trans; [apply perm_skip; apply Permutation_sym; apply Permutation_middle|].
        eapply Permutation_trans; [apply perm_swap|].
        apply perm_skip. apply Permutation_middle.
      * eapply Hcur; exact Hs.
Qed.

(* ------------------------------------------------------------------------------------------- *)
(* the loops                                                                                     *)

(* draining p (whose frame is Y ++ <rest>, Y being the moves yielded so far) yields ys, a part of
   Rin, every element of which is above the yieldRest threshold; what is left of Rin (R') is at
   or below the threshold; the frames below are untouched *)
Definition yields (e : env) (fuel : nat) (p : picker) (fr : list nat) (L Y Rin : list wmove) : Prop :=
  exists ys R' q, drain_from fuel e p = Some (ys, q)
    /\ framed (p_store q) fr L ((Y ++ ys) ++ R') /\ p_ix q = length (Y ++ ys)
    /\ Permutation (ys ++ R') Rin
    /\ Forall (fun x => snd x <= rest_threshold) R' /\ Forall (fun x => rest_threshold < snd x) ys.

Lemma threshold_nonpos : rest_threshold <= 0.
Proof. unfold rest_threshold, HashMove. lia. Qed.

Lemma drain_from_S fuel e p : drain_from (S fuel) e p =
  match next e p with
  | None => None
  | Some (false, p') => Some ([], p')
  | Some (true, p') =>
      match drain_from fuel e p' with None => None | Some (ys, q) => Some (current p' :: ys, q) end
  end.
Proof. reflexivity. Qed.

Lemma drain_from_next_eq e fuel p p' : next e p = next e p' ->
  drain_from (S fuel) e p = drain_from (S fuel) e p'.
Proof. intros H. cbn [drain_from]. now rewrite H. Qed.

Lemma yields_next_eq e fuel p p' fr L Y Rin : next e p = next e p' ->
  yields e (S fuel) p' fr L Y Rin -> yields e (S fuel) p fr L Y Rin.
Proof. intros H. unfold yields. now rewrite (drain_from_next_eq e fuel p p' H). Qed.

Lemma yields_cons e fuel p p' fr L Y y Rm Rin :
  next e p = Some (true, p') -> current p' = y -> rest_threshold < snd y ->
  Permutation (y :: Rm) Rin ->
  yields e fuel p' fr L (Y ++ [y]) Rm -> yields e (S fuel) p fr L Y Rin.
Proof.
  intros Hn Hc Hy Hp (ys & R' & q & Hd & Hfq & Hixq & Hperm & HR' & Hys).
  exists (y :: ys), R', q. cbn [drain_from]. rewrite Hn, Hd, Hc.
  rewrite <- !app_assoc in *. cbn [app] in *. splits; auto.
  eapply Permutation_trans; [apply perm_skip; exact Hperm|exact Hp].
Qed.

(* yieldRest *)
Lemma yield_rest_loop e fr L : forall fuel p Y R,
  p_state p = YieldRest -> framed (p_store p) fr L (Y ++ R) -> p_ix p = length Y ->
  (length R < fuel)%nat -> yields e fuel p fr L Y R.
Proof.
  induction fuel as [|fuel IH]; intros p Y R Hst Hf Hix Hfuel; [lia|].
  pose proof (select_spec p fr L Y R rest_threshold Hf Hix) as Hsel.
  assert (Hnext : next e p = yield_rest p) by (unfold next; now rewrite Hst).
  unfold yield_rest in Hnext. change (- HashMove + 1) with rest_threshold in Hnext.
  destruct (select p rest_threshold) as [p'|].
  - destruct Hsel as (y & Rm & Hf' & Hix' & Hperm & Hgt & Hcur & Hst' & _).
    eapply yields_cons; eauto.
    apply IH; auto; [congruence|].
    apply Permutation_length in Hperm. cbn [length] in Hperm. lia.
  - exists [], R, p. cbn [drain_from]. rewrite Hnext, app_nil_r. cbn [app]. splits; auto.
Qed.

(* genQuiet: falls through into yieldRest *)
Lemma gen_quiet_spec e p fr L F : framed (p_store p) fr L F ->
  Z.of_nat (length L + length F + length (e_quiet e)) <= StoreSize ->
  exists p2, gen_quiet e p = yield_rest p2 /\ p_state p2 = YieldRest
    /\ framed (p_store p2) fr L (F ++ map (mark (p_hash p)) (e_quiet e))
    /\ p_ix p2 = p_ix p /\ p_hash p2 = p_hash p.
Proof.
  intros Hf Hroom. unfold gen_quiet. cbn [set_state p_store p_ix p_hash p_state].
  rewrite (framed_frame _ _ _ _ Hf).
  destruct (framed_alloc_all fr L (map fst (e_quiet e)) (p_store p) F Hf) as (s & Ha & Hfs).
  { now rewrite map_length. }
  rewrite Ha, (framed_frame _ _ _ _ Hfs), firstn_app_len, skipn_app_len, assign_weights_spec.
  eexists. split; [reflexivity|]. cbn [p_state p_store p_ix p_hash]. splits; auto.
  eapply framed_write; exact Hfs.
Qed.

(* yieldGoodNoisy, then genQuiet + yieldRest *)
Lemma yield_good_loop e fr L : forall fuel p Y R,
  p_state p = YieldGoodNoisy -> framed (p_store p) fr L (Y ++ R) -> p_ix p = length Y ->
  (length R + length (e_quiet e) < fuel)%nat ->
  Z.of_nat (length L + length Y + length R + length (e_quiet e)) <= StoreSize ->
  yields e fuel p fr L Y (R ++ map (mark (p_hash p)) (e_quiet e)).
Proof.
  induction fuel as [|fuel IH]; intros p Y R Hst Hf Hix Hfuel Hroom; [lia|].
  pose proof (select_spec p fr L Y R 0 Hf Hix) as Hsel.
  assert (Hnext : next e p = yield_good_noisy e p) by (unfold next; now rewrite Hst).
  unfold yield_good_noisy in Hnext.
  destruct (select p 0) as [p'|].
  - destruct Hsel as (y & Rm & Hf' & Hix' & Hperm & Hgt & Hcur & Hst' & Hh').
    pose proof threshold_nonpos.
    eapply yields_cons with (Rm := Rm ++ map (mark (p_hash p)) (e_quiet e)); eauto; [lia| |].
    + change (y :: Rm ++ map (mark (p_hash p)) (e_quiet e)) with ((y :: Rm) ++ map (mark (p_hash p)) (e_quiet e)).
      now apply Permutation_app_tail.
    + rewrite <- Hh'. apply Permutation_length in Hperm. cbn [length] in Hperm.
      apply IH; auto; [congruence|lia|].
      rewrite app_length. cbn [length]. lia.
  - destruct (gen_quiet_spec e (set_state p GenQuiet) fr L (Y ++ R)) as (p2 & Hg & Hst2 & Hf2 & Hix2 & Hh2).
    { exact Hf. } { rewrite app_length. lia. }
    cbn [set_state p_hash p_ix] in *.
    assert (Hn2 : next e p2 = yield_rest p2) by (unfold next; now rewrite Hst2).
    apply (yields_next_eq e fuel p p2); [congruence|].
    rewrite <- app_assoc in Hf2.
    apply yield_rest_loop; auto; [congruence|].
    rewrite app_length, map_length. lia.
Qed.

(* genNoisy: falls through into yieldGoodNoisy *)
Lemma gen_noisy_spec e p fr L F : framed (p_store p) fr L F -> p_ix p = length F ->
  Z.of_nat (length L + length F + length (e_noisy e)) <= StoreSize ->
  exists p1, gen_noisy e p = yield_good_noisy e p1 /\ p_state p1 = YieldGoodNoisy
    /\ framed (p_store p1) fr L (F ++ map (mark (p_hash p)) (e_noisy e))
    /\ p_ix p1 = p_ix p /\ p_hash p1 = p_hash p.
Proof.
  intros Hf Hix Hroom. unfold gen_noisy. cbn [set_state p_store p_ix p_hash p_state].
  destruct (framed_alloc_all fr L (map fst (e_noisy e)) (p_store p) F Hf) as (s & Ha & Hfs).
  { now rewrite map_length. }
  rewrite Ha, (framed_frame _ _ _ _ Hfs), Hix, firstn_app_len, skipn_app_len, assign_weights_spec.
  eexists. split; [reflexivity|]. cbn [p_state p_store p_ix p_hash]. splits; auto.
  eapply framed_write; exact Hfs.
Qed.

Lemma gen_noisy_loop e fr L fuel p Y :
  p_state p = GenNoisy -> framed (p_store p) fr L Y -> p_ix p = length Y ->
  (length (e_noisy e) + length (e_quiet e) < S fuel)%nat ->
  Z.of_nat (length L + length Y + length (e_noisy e) + length (e_quiet e)) <= StoreSize ->
  yields e (S fuel) p fr L Y (map (mark (p_hash p)) (e_noisy e) ++ map (mark (p_hash p)) (e_quiet e)).
Proof.
  intros Hst Hf Hix Hfuel Hroom.
  destruct (gen_noisy_spec e p fr L Y Hf Hix ltac:(lia)) as (p1 & Hg & Hst1 & Hf1 & Hix1 & Hh1).
  assert (Hn : next e p = next e p1).
  { unfold next. rewrite Hst, Hst1. exact Hg. }
  apply (yields_next_eq e fuel p p1); [exact Hn|]. rewrite <- Hh1.
  apply yield_good_loop; auto; try congruence; rewrite map_length; lia.
Qed.

(* ------------------------------------------------------------------------------------------- *)
(* the whole picker                                                                              *)

Definition moves_of (e : env) : list Z := map fst (e_noisy e ++ e_quiet e).

(* the store has room for the hash move and every generated move above what is already allocated
   (hypothesis store_ok of DESIGN O2, for this one frame) *)
Definition store_room (s : store) (e : env) : Prop :=
  Z.of_nat (length (s_data s)) + 1 + Z.of_nat (length (e_noisy e)) + Z.of_nat (length (e_quiet e)) <= StoreSize.

(* what the drained sequence is, without any hypothesis on the environment *)
Lemma drain_general s hm e fr L : framed s fr L [] ->
  Z.of_nat (length L) + 1 + Z.of_nat (length (e_noisy e)) + Z.of_nat (length (e_quiet e)) <= StoreSize ->
  exists ys R' q,
    drain_from (drain_fuel e) e (picker_new s hm) = Some ((if e_ipl e then [(hm, HashMove)] else []) ++ ys, q)
    /\ framed (p_store q) fr L (((if e_ipl e then [(hm, HashMove)] else []) ++ ys) ++ R')
    /\ Permutation (ys ++ R') (map (mark hm) (e_noisy e ++ e_quiet e))
    /\ Forall (fun x => snd x <= rest_threshold) R' /\ Forall (fun x => rest_threshold < snd x) ys.
Proof.
  intros Hf Hroom. unfold drain_fuel.
  set (fuel := (length (e_noisy e) + length (e_quiet e))%nat).
  change (2 + length (e_noisy e) + length (e_quiet e))%nat with (S (S fuel)).
  destruct (e_ipl e) eqn:Hipl.
  - (* the hash move is allocated and yielded, then genNoisy *)
    destruct (framed_alloc s fr L [] hm Hf) as (s1 & Ha & Hf1). { cbn [length]. lia. }
    cbn [app] in Hf1.
    set (p1 := {| p_store := store_write_frame s1 [(hm, HashMove)]; p_ix := 1; p_hash := hm; p_state := GenNoisy |}).
    assert (Hn : next e (picker_new s hm) = Some (true, p1)).
    { unfold next, picker_new, pick_hash. cbn [p_state set_state p_store p_hash p_ix]. rewrite Hipl, Ha.
      rewrite (framed_frame _ _ _ _ Hf1). reflexivity. }
    assert (Hfp1 : framed (p_store p1) fr L [(hm, HashMove)]) by (eapply framed_write; exact Hf1).
    destruct (gen_noisy_loop e fr L fuel p1 [(hm, HashMove)] eq_refl Hfp1 eq_refl
                ltac:(unfold fuel; lia) ltac:(cbn [length]; lia))
      as (ys & R' & q & Hd & Hfq & Hixq & Hperm & HR' & Hys).
    exists ys, R', q. rewrite drain_from_S, Hn, Hd.
    assert (Hc : current p1 = (hm, HashMove)).
    { unfold current. rewrite (framed_frame _ _ _ _ Hfp1). reflexivity. }
    rewrite Hc. cbn [p_hash p1] in Hperm. rewrite map_app. splits; auto.
  - (* straight into genNoisy *)
    set (p0 := set_state (picker_new s hm) GenNoisy).
    assert (Hn : next e (picker_new s hm) = next e p0).
    { unfold next, picker_new, pick_hash, p0. cbn [p_state set_state]. now rewrite Hipl. }
    rewrite drain_from_S, Hn, <- drain_from_S.
    assert (Hf0 : framed (p_store p0) fr L []) by exact Hf.
    destruct (gen_noisy_loop e fr L (S fuel) p0 [] eq_refl Hf0 eq_refl
                ltac:(unfold fuel; lia) ltac:(cbn [length]; lia))
      as (ys & R' & q & Hd & Hfq & Hixq & Hperm & HR' & Hys).
    exists ys, R', q. cbn [app] in *. rewrite map_app. splits; auto.
Qed.

(* marked copies fall below the threshold, everything else stays above it *)
Lemma filter_marked hm (l : list wmove) :
  (forall mw, In mw l -> rest_threshold < snd mw) ->
  map fst (filter (fun x => rest_threshold <? snd x) (map (mark hm) l))
  = filter (fun m => negb (hm =? m)) (map fst l).
Proof.
  induction l as [|[m w] l IH]; intros Hw; cbn [map filter mark fst snd]; [reflexivity|].
  assert (Hw' : forall mw, In mw l -> rest_threshold < snd mw) by (intros; apply Hw; now right).
  specialize (Hw (m, w) (or_introl eq_refl)). cbn [snd] in Hw.
  destruct (hm =? m) eqn:E; cbn [negb].
  - assert (Hlt : (rest_threshold <? - HashMove) = false) by (apply Z.ltb_ge; unfold rest_threshold; lia).
    rewrite Hlt. now apply IH.
  - assert (Hlt : (rest_threshold <? w) = true) by now apply Z.ltb_lt.
    rewrite Hlt. cbn [map fst]. f_equal. now apply IH.
Qed.

(* C16_picker *)
Theorem picker_correct s hm e :
  fresh_frame s -> store_room s e ->
  (e_ipl e = true <-> In hm (moves_of e)) ->
  NoDup (moves_of e) ->
  (forall mw, In mw (e_noisy e ++ e_quiet e) -> rest_threshold < snd mw) ->
  exists ys q,
    drain_from (drain_fuel e) e (picker_new s hm) = Some (ys, q)
    /\ drain e (picker_new s hm) = Some ys
    /\ Permutation (map fst ys) (moves_of e)
    /\ (e_ipl e = true -> hd_error ys = Some (hm, HashMove))
    /\ store_pop (p_store q) = store_pop s.
Proof.
  intros Hfresh Hroom Hipl Hnd Hw.
  pose proof (fresh_framed s Hfresh) as Hf.
  destruct (drain_general s hm e _ _ Hf Hroom) as (ys & R' & q & Hd & Hfq & Hperm & HR' & Hys).
  eexists. exists q. split; [exact Hd|]. split; [unfold drain; now rewrite Hd|].
  assert (Hys' : Permutation ys (filter (fun x => rest_threshold <? snd x) (map (mark hm) (e_noisy e ++ e_quiet e)))).
  { eapply perm_split_filter; [exact Hperm| |].
    - eapply Forall_impl; [|exact Hys]. cbn. intros a Ha. now apply Z.ltb_lt.
    - eapply Forall_impl; [|exact HR']. cbn. intros a Ha. now apply Z.ltb_ge. }
  apply (Permutation_map fst) in Hys'. rewrite (filter_marked hm _ Hw) in Hys'. fold (moves_of e) in Hys'.
  split; [|split].
  - rewrite map_app. destruct (e_ipl e) eqn:Ei.
    + cbn [map app fst]. eapply Permutation_trans; [apply perm_skip; exact Hys'|].
      apply nodup_filter_perm; [exact Hnd|]. now apply Hipl.
    + cbn [map app]. rewrite filter_neq_notin in Hys'; [exact Hys'|].
      intros Hin. apply Hipl in Hin. discriminate.
  - intros Ei. rewrite Ei. reflexivity.
  - eapply framed_pop; eassumption.
Qed.
