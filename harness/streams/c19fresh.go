package streams

import (
	"bufio"
	"bytes"
	"fmt"
	"math"
	"os"
	"os/exec"
	"strings"
	"sync"
	"sync/atomic"
	"time"
	"unsafe"

	"github.com/paulsonkoly/chess-3/board"
	"github.com/paulsonkoly/chess-3/eval"
	"github.com/paulsonkoly/chess-3/tools/tuner/tuning"

	"verifharness/hx"
	"verifharness/posgen"
)

// Stream c19fresh (property C19): the FIRST use of package tuning in a process.
//
// The tuner client starts one worker goroutine per thread and the first thing every worker does is
// `eCoeffs := tuning.EngineCoeffs()`.  Whatever a process has done with the package before (a
// sequential call at start-up, an earlier case) cannot be undone, so every case runs in a FRESH
// PROCESS: the harness binary re-executes itself with VERIF_C19_CHILD=1; in the child nothing of
// package tuning has run when the workers are released (streams/c19.go obtains its own copy of the
// shipped coefficients lazily for that reason).
//
//	input   [workers window_ns npos] ++ npos board-in records
//	child   computes the engine's integer evaluation of the positions (package eval only); then starts
//	        `workers` goroutines behind a barrier, worker w spinning w*window/workers ns after the release
//	        (the arrival jitter of real workers); each calls tuning.EngineCoeffs() and, with its own copy,
//	        counts the coefficients that differ from float64(eval.Coefficients) (memory images) and
//	        evaluates every position with EngineRep.Eval; finally the same from a single goroutine.
//	output  npos integer evaluations ++ (workers+1) blocks [ndiff] ++ npos IEEE-754 bit patterns
//	        (the last block is the sequential call); "-1 -1 -1" if the child failed
//	judge   Spec/TunerSpec.v judge_c19fresh: ndiff = 0 and |float - white_relative(int)| < 2.25 in every block
func runC19Fresh(a hx.Args) string {
	exe, err := os.Executable()
	if err != nil {
		return hx.PanicOut
	}
	var sb strings.Builder
	for i := 0; i < a.Len(); i++ {
		if i > 0 {
			sb.WriteByte(' ')
		}
		sb.WriteString(a[i].Text(16))
	}
	sb.WriteByte('\n')
	cmd := exec.Command(exe, "c19child")
	cmd.Env = append(os.Environ(), "VERIF_C19_CHILD=1")
	cmd.Stdin = strings.NewReader(sb.String())
	var so, se bytes.Buffer
	cmd.Stdout, cmd.Stderr = &so, &se
	done := make(chan error, 1)
	if err := cmd.Start(); err != nil {
		return hx.PanicOut
	}
	go func() { done <- cmd.Wait() }()
	select {
	case err := <-done:
		if err != nil {
			return hx.PanicOut
		}
	case <-time.After(60 * time.Second):
		cmd.Process.Kill()
		return hx.PanicOut
	}
	line := strings.TrimSpace(so.String())
	if line == "" {
		return hx.PanicOut
	}
	return line
}

// c19Child runs in the re-executed process (called from init before anything else of this package).
func c19Child() {
	sc := bufio.NewScanner(os.Stdin)
	sc.Buffer(make([]byte, 1<<20), 1<<26)
	if !sc.Scan() {
		os.Exit(3)
	}
	a, err := hx.ParseArgs(sc.Text())
	if err != nil {
		os.Exit(3)
	}
	workers, window, npos := a.Int(0), time.Duration(a.Int(1)), a.Int(2)
	if workers < 1 || workers > 256 || npos < 0 || npos > 64 {
		os.Exit(3)
	}
	boards := make([]*board.Board, npos)
	i := 3
	for k := range boards {
		var b *board.Board
		b, i = a.Board(i)
		s := b.VerifSnapshot()
		s.Hashes = nil // as the tuner loads them
		boards[k] = board.VerifRestore(s)
	}
	out := &hx.Nums{}
	for _, b := range boards {
		out.Int(int(eval.Eval(b, &eval.Coefficients)))
	}
	// the shipped coefficients as float64, straight from the memory image (no reflect, no package tuning)
	ints := unsafe.Slice((*int16)(unsafe.Pointer(&eval.Coefficients)), int(unsafe.Sizeof(eval.Coefficients)/2))
	type block struct {
		ndiff int
		evs   []float64
	}
	use := func(blk *block) {
		c := tuning.EngineCoeffs()
		mem := unsafe.Slice((*float64)(unsafe.Pointer(&c)), int(unsafe.Sizeof(c)/8))
		if len(mem) != len(ints) {
			blk.ndiff = len(ints) + len(mem)
		}
		for p := 0; p < len(mem) && p < len(ints); p++ {
			if mem[p] != float64(ints[p]) {
				blk.ndiff++
			}
		}
		for _, b := range boards {
			bb := *b // private board
			blk.evs = append(blk.evs, c.Eval(&bb))
		}
	}
	blocks := make([]block, workers+1)
	var wg sync.WaitGroup
	var release atomic.Bool // the workers spin on it: they leave the barrier within nanoseconds of each other
	var t0 time.Time
	for w := 0; w < workers; w++ {
		wg.Add(1)
		go func(w int) {
			defer wg.Done()
			for !release.Load() {
			}
			for time.Since(t0) < time.Duration(w)*window/time.Duration(workers) {
			}
			use(&blocks[w])
		}(w)
	}
	time.Sleep(2 * time.Millisecond) // let the workers reach the barrier
	t0 = time.Now()
	release.Store(true)
	wg.Wait()
	use(&blocks[workers]) // a sequential call afterwards
	for _, blk := range blocks {
		out.Int(blk.ndiff)
		for _, x := range blk.evs {
			out.U(math.Float64bits(x))
		}
	}
	fmt.Println(out.String())
}

func genC19Fresh(rng *hx.Rng, n int, tier string, emit func(hx.Input)) {
	var pool []*board.Board
	var descs []string
	posgen.Stream(rng.Fork(), 40*n+40, func(p posgen.Pos) {
		if eval.VerifInsufficientMat(p.B) || p.B.FiftyCnt > 100 || len(pool) >= 8*n+8 {
			return
		}
		s := p.B.VerifSnapshot()
		s.Hashes = nil
		pool = append(pool, board.VerifRestore(s))
		descs = append(descs, p.B.FEN())
	})
	windows := []int{64000, 0, 16000, 128000, 32000, 256000, 8000, 64000}
	for c := 0; c < n && len(pool) > 0; c++ {
		workers := []int{16, 8, 16, 12}[c%4]
		window := windows[c%len(windows)]
		npos := 4
		nums := (&hx.Nums{}).Int(workers, window, npos)
		var fens []string
		for k := 0; k < npos; k++ {
			j := rng.Intn(len(pool))
			nums.BoardIn(pool[j])
			fens = append(fens, descs[j])
		}
		emit(hx.Input{In: nums.String(),
			Desc:       fmt.Sprintf("fresh process, %d workers released together (arrival window %d ns), positions: %s", workers, window, strings.Join(fens, " ; ")),
			Tags:       []string{fmt.Sprintf("workers=%d", workers), fmt.Sprintf("window=%dus", window/1000)},
			NonTrivial: true})
	}
}
