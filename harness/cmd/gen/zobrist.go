package main

import (
	"unsafe"

	"github.com/paulsonkoly/chess-3/board"
)

// Gen/Zobrist.v: the engine's Zobrist tables (math/rand/v2 PCG stream evaluated by the Go runtime
// at package init, read through the verif hook).
// Gen/TokLayout.v: the reverse-token layout constants and the width of the token's integer type.
func init() {
	generators = append(generators, func() {
		f := newFile("Zobrist.v", "From Coq Require Import NArith List.\nFrom Chess3 Require Import Model.Types Model.Board.\nImport ListNotations.\nOpen Scope N_scope.")
		pieces, stm, castling, ep := board.VerifZobrist()
		f.p("Definition zob_pieces : list (list (list N)) := [\n")
		for c := 0; c < 2; c++ {
			f.p(" [")
			for p := 0; p < 7; p++ {
				f.p("  [")
				for s := 0; s < 64; s++ {
					if s > 0 {
						f.p("; ")
					}
					f.p("%d", uint64(pieces[c][p][s]))
				}
				if p < 6 {
					f.p("];\n")
				} else {
					f.p("]")
				}
			}
			if c == 0 {
				f.p("];\n")
			} else {
				f.p("]\n")
			}
		}
		f.p("].\n")
		f.p("Definition zob_stm : N := %d.\n", uint64(stm))
		f.p("Definition zob_castling : list N := [%d; %d; %d; %d].\n", uint64(castling[0]), uint64(castling[1]), uint64(castling[2]), uint64(castling[3]))
		f.p("Definition zob_ep : list N := [")
		for i := 0; i < 8; i++ {
			if i > 0 {
				f.p("; ")
			}
			f.p("%d", uint64(ep[i]))
		}
		f.p("].\n")
		f.p("Definition zob_real : zobrist := mkZobrist\n  (fun c p s => nthN (nthN (nthN zob_pieces (cix c) []) p []) s 0)\n  zob_stm (fun i => nthN zob_castling i 0) (fun i => nthN zob_ep i 0).\n")
	})
}

func init() {
	generators = append(generators, func() {
		f := newFile("TokLayout.v", "From Coq Require Import NArith List.\nFrom Chess3 Require Import Model.TokLayout.\nImport ListNotations.\nOpen Scope N_scope.")
		lay := board.VerifTokenLayout()
		bits := 8 * uint64(unsafe.Sizeof(board.Reverse(0)))
		f.p("(* reverse token layout as the source has it now: mask, shift for fifty / castling / ep / capture,\n   and the bit width of type Reverse *)\n")
		f.p("Definition token_layout : list N := [%d; %d; %d; %d; %d; %d; %d; %d; %d].\n", lay[0], lay[1], lay[2], lay[3], lay[4], lay[5], lay[6], lay[7], bits)
		f.p("Definition gen_layout : tok_layout := mkTokLayout %d %d %d %d %d %d %d %d %d.\n", lay[0], lay[1], lay[2], lay[3], lay[4], lay[5], lay[6], lay[7], bits)
	})
}
