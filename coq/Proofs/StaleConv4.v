(* C09, converse direction of IsStalemate for positions without an en-passant target: assembly. *)
From Coq Require Import NArith ZArith List Bool Lia.
From Chess3 Require Import Base.Bits Model.Types Spec.Geometry Model.Att Model.BoardDef Model.Board
     Model.Movegen Model.Mate Spec.Chess Spec.Rep Proofs.MateGeom Proofs.MateAbs Proofs.MateKing
     Proofs.MateMove Proofs.MateCapture Proofs.MateBlockGeom Proofs.MateBlock Proofs.MateStale
     Proofs.MatePinGeom Proofs.MatePin Proofs.MatePawnPin Proofs.MateConv Proofs.MateConvMove Proofs.MateConv2
     Proofs.MateConv3 Proofs.MateConv4 Proofs.StaleConvGeom Proofs.StaleConv Proofs.StaleConv2 Proofs.StaleConv3.
Import ListNotations.
Open Scope N_scope.

Theorem stale_converse_noep b : Rep b -> valid (abs b) = true -> ep b = 0 -> in_check b (stm b) = false ->
  is_stalemate b = true -> legal_moves (abs b) = [].
Proof.
  intros HR HV Hnoep Hchk Hst.
  destruct (king_is_bit b HR HV (stm b)) as [k0 [Hk0 [Hkbit [Hholds Hwho]]]].
  assert (Hocc : bor (colors b (stm b)) (colors b (flip (stm b))) = occupancy b).
  { unfold occupancy. destruct (stm b); cbn [flip]; [reflexivity|apply N.lor_comm]. }
  pose proof Hst as HM. unfold is_stalemate in HM. cbv zeta in HM. rewrite Hocc, Hkbit, (lsb_bit k0 Hk0) in HM.
  destruct (stale_free_pawn _ _ _ _) eqn:F1; [discriminate|].
  destruct (stale_queen _ _ _) eqn:F2; [discriminate|].
  destruct (stale_bishop _ _ _ _ _) eqn:F3; [discriminate|].
  destruct (stale_rook _ _ _ _ _) eqn:F4; [discriminate|].
  destruct (stale_knight _ _ _ _ _ _) eqn:F5; [discriminate|].
  destruct (king_can_step _ _ _ _ _) eqn:F6; [discriminate|].
  destruct (stale_pinned_pawn _ _ _ _ _ _) eqn:F7; [discriminate|]. clear HM.
  unfold legal_moves. apply filter_nil. intros m Hm.
  destruct (in_candidates_inv m Hm) as (d & t & pr & Hd & Ht & Hpr & ->).
  destruct (legal_spec (abs b) (mk_move d t pr)) eqn:Hl; [exfalso|reflexivity].
  destruct (mk_move_fields_pr d t pr Hd Ht Hpr) as (Ef & Et & Ep).
  pose proof Hl as Hl2. unfold legal_spec in Hl2. apply andb_prop in Hl2. destruct Hl2 as [Hps Hsafe].
  apply negb_true_iff in Hsafe. change (turn (abs b)) with (stm b) in Hsafe.
  destruct (pseudo_mover _ _ Hps) as [kd [Hwd _]]. rewrite Ef in Hwd. change (turn (abs b)) with (stm b) in Hwd.
  destruct (N.eq_dec kd King) as [->|Hkd].
  { assert (d = k0) as ->.
    { pose proof (Hholds d Hd) as H. unfold holds in H. rewrite Hwd, color_eqb_refl, N.eqb_refl in H. cbn in H.
      symmetry in H. apply N.eqb_eq in H. exact H. }
    change (occupancy b) with (bor (colors b White) (colors b Black)) in F6.
    rewrite (king_move_illegal b HR k0 Hk0 Hkbit Hholds Hwho F6 (no_castling_stale b HR Hchk k0 Hk0 Hkbit Hholds F6) t pr Ht Hpr) in Hl.
    discriminate. }
  assert (Hep : epsq (abs b) = None) by (unfold abs; cbn [epsq]; rewrite Hnoep; reflexivity).
  destruct (pseudo_nonking_noep b d t kd pr HR Hd Ht Hpr Hep Hwd Hkd Hps) as [_ Hkind].
  destruct (who_abs_inv b HR d _ kd Hd Hwd) as (Hkr & _ & _ & _).
  assert (Hcontra : in_check_spec (with_placement (abs b) (place_after (abs b) (mk_move d t pr))) (stm b) = true -> False)
    by (intros X; exact (Bool.diff_true_false (eq_trans (eq_sym X) Hsafe))).
  destruct Hkind as [[Hnp Hmem]|[Ek Hpawn]].
  - assert (kd = Knight \/ kd = Bishop \/ kd = Rook \/ kd = Queen) as [Ek|[Ek|[Ek|Ek]]] by (unfold Pawn, King, Knight, Bishop, Rook, Queen in *; lia).
    + apply Hcontra. exact (sc_knight b HR Hnoep Hchk k0 Hk0 Hkbit Hholds F5 d t kd pr Hd Ht Hwd Hkd Hpr Hps Ek Hmem).
    + apply Hcontra. exact (sc_bishop b HR Hnoep Hchk k0 Hk0 Hkbit Hholds F3 d t kd pr Hd Ht Hwd Hkd Hpr Hps Ek Hmem).
    + apply Hcontra. exact (sc_rook b HR Hnoep Hchk k0 Hk0 Hkbit Hholds F4 d t kd pr Hd Ht Hwd Hkd Hpr Hps Ek Hmem).
    + exact (sc_queen b HR Hnoep k0 Hkbit F2 d t kd pr Hd Ht Hwd Hkd Hpr Hps Ek Hmem).
  - destruct (N.testbit (band (bor (bishop_moves k0 (occupancy b)) (rook_moves k0 (occupancy b))) (colors b (stm b))) d) eqn:Hmp.
    + apply Hcontra. exact (sc_pawn_pinned b HR Hnoep Hchk k0 Hk0 Hkbit Hholds F7 d t kd pr Hd Ht Hwd Hkd Hpr Hps Ek Hmp Hpawn).
    + exact (sc_pawn_free b HR Hnoep k0 Hkbit F1 d t kd pr Hd Ht Hwd Hkd Hpr Hps Ek Hmp Hpawn).
Qed.
