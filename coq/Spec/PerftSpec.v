(* The spec's own perft: number of legal move sequences of a given length, computed from Spec/Chess.v
   only (legal_moves, succ_spec).  Cross-check of debug.Perft (/repo/debug/perft.go), i.e. of the glue
   "GenNoisy + GenNotNoisy, MakeMove, InCheck(me), recurse, UndoMove" the engine itself uses, against the
   rules, over whole trees: a wrong successor (MakeMove), a board left modified by UndoMove or a
   missing/spurious move below the root changes the count of some root.
   Definitions only. *)
From Coq Require Import NArith ZArith List Bool.
From Chess3 Require Import Base.Bits Model.Types Spec.Geometry Model.BoardDef Spec.Chess.
Import ListNotations.
Open Scope Z_scope.

(* perft_spec d p = number of sequences of d legal moves from p *)
Fixpoint perft_spec (d : nat) (p : pos) : Z :=
  match d with
  | O => 1
  | S d' => fold_left (fun acc m => acc + perft_spec d' (succ_spec p m)) (legal_moves p) 0
  end.

(* the same number; the last ply is counted instead of expanded
   (perft_spec 1 p = fold_left (fun acc _ => acc + 1) (legal_moves p) 0 = length (legal_moves p)) *)
Fixpoint perft_count (d : nat) (p : pos) : Z :=
  match d with
  | O => 1
  | S O => Z.of_nat (length (legal_moves p))
  | S d' => fold_left (fun acc m => acc + perft_count d' (succ_spec p m)) (legal_moves p) 0
  end.

Definition max_perft_depth : Z := 5.

(* stream "perft": board-in ++ [depth] -> [perft]   ([] when the input does not decode or depth is
   outside 0..max_perft_depth) *)
Definition run_perft (l : list Z) : list Z :=
  match decode_board l with
  | Some (b, d :: _) =>
      if (0 <=? d) && (d <=? max_perft_depth) then [perft_count (Z.to_nat d) (abs b)] else []
  | _ => []
  end.

(* judge for stream "perft": input = board-in ++ [depth] ++ [count observed on debug.Perft]
   [1] when the root is not a valid position (outside the property's domain) or the count is the
   spec's; [0; 1] when the count differs; [0; 9] malformed *)
Definition judge_perft (l : list Z) : list Z :=
  match decode_board l with
  | Some (b, d :: n :: _) =>
      if negb ((0 <=? d) && (d <=? max_perft_depth)) then [0; 9]
      else if negb (valid (abs b)) then [1]
      else if perft_count (Z.to_nat d) (abs b) =? n then [1] else [0; 1]
  | _ => [0; 9]
  end.
