#!/usr/bin/env python3
"""Regenerate the two markdown tables of DESIGN.md section 9.3 / 9.4 from seeded/*/meta.json.
   tools/seed_table.py writes /tmp/seedtable.md and /tmp/harmtable.md; this replaces the table blocks in place."""
import re, subprocess, sys
subprocess.run([sys.executable, "/verif/tools/seed_table.py"], check=True)
d = open("/verif/DESIGN.md").read()
def replace_table(d, header_start, new):
    i = d.index(header_start)
    j = d.index("\n\n", i)
    return d[:i] + new.rstrip("\n") + d[j:]
d = replace_table(d, "| seed | files changed |", open("/tmp/seedtable.md").read())
d = replace_table(d, "| probe | change | silent |", open("/tmp/harmtable.md").read())
open("/verif/DESIGN.md", "w").write(d)
print("tables replaced")
