(* A concrete instance of the abstract machine (positions = lists of numbers, make = cons, undo = tl)
   and a search for oracles under which the interpreter of Model/SkelRun.v drives the GENERATED
   skeleton through complete, non-trivial executions.  Used by the non-vacuity Examples of
   Properties/C06_skel.v, C07_skel.v, C08_skel.v.  The oracles are found by computation (find over a
   family of pseudo-random lists), not written down, so that edits of search.go that keep the
   properties do not invalidate the Examples. *)
From Coq Require Import String List ZArith Bool Lia.
From Chess3 Require Import Model.Skel Model.SkelCheck Model.SkelRun Proofs.SkelProofs Proofs.SkelRunProofs
  Gen.SearchSkel Proofs.SkelInstances.   (* SkelInstances: not built when the translator failed closed *)
Import ListNotations.
Open Scope string_scope.

Definition cB := list nat.
Definition cM := nat.
Definition cT := nat.
Definition cmake (m : cM) (b : cB) : cB * cT := (m :: b, length b).
Definition cundo (m : cM) (t : cT) (b : cB) : cB := tl b.
Definition cmake_null (b : cB) : cB * cT := (0 :: b, length b).
Definition cundo_null (t : cT) (b : cB) : cB := tl b.

Lemma cundo_make_id : forall m b b' t, cmake m b = (b', t) -> cundo m t b' = b.
Proof. intros m b b' t H. inversion H. reflexivity. Qed.
Lemma cundo_null_id : forall b b' t, cmake_null b = (b', t) -> cundo_null t b' = b.
Proof. intros b b' t H. inversion H. reflexivity. Qed.

Definition cglob0 (budget0 : Z) : glob cB cM := {|
  board := [7; 7; 7]; made := []; ms_alloc := 5; ms_frames := [2]; hdepth := 1;
  nodes := 0; budget := budget0; ponder := false; aborted := true;
  stores := 0; late := []; pv := fun _ => []; lastret := None; pv_bad := false; gen := 0 |}.
Definition clocals0 : locals cM cT := {|
  menv := fun _ _ => 0; tenv := fun _ => 0; cenv := fun _ _ => false; ply := 0; defers := [] |}.
Definition cstate0 (budget0 : Z) : cstate cB cM cT := (cglob0 budget0, clocals0).

Definition crun := run cB cM cT cmake cundo cmake_null cundo_null ftable (fun n => n) 0 Nat.eq_dec.
Definition cexec := exec cB cM cT cmake cundo cmake_null cundo_null ftable.

Lemma crun_sound fuel s c orc o c' orc' : crun fuel s c orc = (o, c', orc') -> cexec s c o c'.
Proof. apply run_sound. Qed.

(* pseudo-random oracles: base-8 digits of a large multiple of the seed *)
Fixpoint digits (n : nat) (x : N) : list nat :=
  match n with
  | O => []
  | S n' => N.to_nat (N.land x 7) :: digits n' (N.shiftr x 3)
  end.
Definition oracle (seed : nat) : list nat :=
  let k := N.of_nat seed in digits 150 (N.shiftr ((3 ^ 320) * (2 * k + 1) * (k * k + 12345)) 8).
Definition seeds : list nat := seq 0 1500.
(* call-depth fuel of the example runs; generous so that an extra helper call in search.go (e.g.
   staticEvaluation, /repo 73ba4a5) does not starve the examples *)
Definition example_fuel : nat := 200.

(* the first seed whose oracle drives s from c to a state accepted by good *)
Definition find_run (fuel : nat) (s : stmt) (c : cstate cB cM cT)
    (good : outcome -> cstate cB cM cT -> bool) : option nat :=
  find (fun seed => match crun fuel s c (oracle seed) with (o, c', _) => good o c' end) seeds.

Lemma find_run_exec fuel s c good seed :
  find_run fuel s c good = Some seed -> exists o c', cexec s c o c' /\ good o c' = true.
Proof.
  unfold find_run. intros H. apply find_some in H as [_ H].
  destruct (crun fuel s c (oracle seed)) as [[o c'] orc'] eqn:R. exists o, c'. split; [eapply crun_sound, R | exact H].
Qed.

(* --- executions of the generated skeleton ------------------------------------------------------------ *)

(* a complete Search.Go that counts nodes, stores into the table and inserts into the PV *)
Definition good_go (o : outcome) (c : cstate cB cM cT) : bool :=
  match o with
  | ONormal => (0 <? nodes _ _ (fst c))%Z && Nat.ltb 0 (stores _ _ (fst c))
               && negb (match pv _ _ (fst c) 0 with [] => true | _ => false end)
  | _ => false
  end.

Lemma go_run_exists : exists c',
  cexec (Call "Go" PlyKeep) (cstate0 1000) ONormal c'
  /\ (0 < nodes _ _ (fst c'))%Z /\ 0 < stores _ _ (fst c') /\ pv _ _ (fst c') 0 <> [].
Proof.
  assert (Found : exists orc, find_run example_fuel (Call "Go" PlyKeep) (cstate0 1000) good_go = Some orc)
    by (vm_compute; eexists; reflexivity).
  destruct Found as [orc F]. apply find_run_exec in F as [o [c' [Hex Hg]]]. unfold good_go in Hg.
  destruct o; try discriminate.
  apply andb_true_iff in Hg as [Hg H3]. apply andb_true_iff in Hg as [H1 H2].
  exists c'. split; [exact Hex|]. split; [apply Z.ltb_lt, H1|]. split; [apply Nat.ltb_lt, H2|].
  destruct (pv cB cM (fst c') 0); [discriminate | discriminate].
Qed.

(* a Search.Go that runs into its hard node budget of 3 *)
Definition good_budget (o : outcome) (c : cstate cB cM cT) : bool :=
  match o with ONormal => (nodes _ _ (fst c) =? 3)%Z && aborted _ _ (fst c) | _ => false end.

Lemma budget_run_exists : exists c',
  cexec (Call "Go" PlyKeep) (cstate0 3) ONormal c' /\ nodes _ _ (fst c') = 3%Z /\ aborted _ _ (fst c') = true.
Proof.
  assert (Found : exists orc, find_run example_fuel (Call "Go" PlyKeep) (cstate0 3) good_budget = Some orc)
    by (vm_compute; eexists; reflexivity).
  destruct Found as [orc F]. apply find_run_exec in F as [o [c' [Hex Hg]]]. unfold good_budget in Hg.
  destruct o; try discriminate. apply andb_true_iff in Hg as [H1 H2].
  exists c'. split; [exact Hex|]. split; [apply Z.eqb_eq, H1 | exact H2].
Qed.

(* --- the PV monitor distinguishes: a hand-written parent that inserts right after its child is
   accepted, one that searches another child in between is flagged -------------------------------------- *)

Definition tiny_table : list (string * stmt) := [("child", block [Atom PvSetNull; Return])].
Definition tiny_good : stmt :=
  block [Atom (Make "m" "" "r"); Call "child" (PlyRel 1); Atom (Undo "m" "" "r"); Atom (PvInsert "m" "")].
Definition tiny_bad : stmt :=
  block [Atom (Make "m" "" "r"); Call "child" (PlyRel 1); Atom (Undo "m" "" "r");
         Atom (Make "k" "" "r"); Call "child" (PlyRel 1); Atom (Undo "k" "" "r"); Atom (PvInsert "m" "")].
Notation tiny_run := (run cB cM cT cmake cundo cmake_null cundo_null tiny_table (fun n => n) 0 Nat.eq_dec).
Definition tiny_locals : locals cM cT := {|
  menv := fun x _ => if String.eqb x "m" then 4 else 9; tenv := fun _ => 0; cenv := fun _ _ => false;
  ply := 0; defers := [] |}.

Definition tiny_good_c := Eval vm_compute in snd (fst (tiny_run 30 tiny_good (cglob0 10, tiny_locals) [])).
Definition tiny_bad_c := Eval vm_compute in snd (fst (tiny_run 30 tiny_bad (cglob0 10, tiny_locals) [])).
Lemma tiny_good_eq : tiny_run 30 tiny_good (cglob0 10, tiny_locals) [] = (ONormal, tiny_good_c, []).
Proof. vm_compute. reflexivity. Qed.
Lemma tiny_bad_eq : tiny_run 30 tiny_bad (cglob0 10, tiny_locals) [] = (ONormal, tiny_bad_c, []).
Proof. vm_compute. reflexivity. Qed.

Lemma monitor_accepts_and_rejects :
  (exists c', exec cB cM cT cmake cundo cmake_null cundo_null tiny_table tiny_good (cglob0 10, tiny_locals) ONormal c'
              /\ pv_bad _ _ (fst c') = false /\ pv _ _ (fst c') 0 = [4])
  /\ (exists c', exec cB cM cT cmake cundo cmake_null cundo_null tiny_table tiny_bad (cglob0 10, tiny_locals) ONormal c'
              /\ pv_bad _ _ (fst c') = true).
Proof.
  split.
  - exists tiny_good_c. split; [|split; vm_compute; reflexivity].
    exact (run_sound _ _ _ _ _ _ _ _ _ _ _ _ _ _ _ _ _ _ tiny_good_eq).
  - exists tiny_bad_c. split; [|vm_compute; reflexivity].
    exact (run_sound _ _ _ _ _ _ _ _ _ _ _ _ _ _ _ _ _ _ tiny_bad_eq).
Qed.
