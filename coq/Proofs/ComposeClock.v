(* Composition, part 2: the rules of Spec/Chess.v do not look at the two clocks.

   [reclock p h f] is p with halfmove clock h and fullmove number f.  Every predicate of the
   specification ([valid], [pseudo_spec], [legal_spec], [ep_capturable], [normal_ep]) has the same
   value on p and on [reclock p h f], and [succ_spec] commutes with it (the successor's clocks are the
   only thing that changes).  Each lemma is proved per function, by rewriting with the lemmas of the
   functions it calls (section AtOnly of Proofs/SpecLemmas.v for the functions of the placement alone).

   Used for C10: b-c10's [step_link] (Spec/RepLinks.v) relates the engine board to a position that is
   equal to [abs b] up to the clocks ([same_core]). *)
From Coq Require Import NArith ZArith List Bool Lia.
From Chess3 Require Import Base.Bits Model.Types Model.BoardDef Spec.Geometry Spec.Chess Spec.RepLinks.
From Chess3 Require Import Proofs.SpecLemmas.
Import ListNotations.
Open Scope N_scope.

Definition reclock (p : pos) (h f : Z) : pos := mkPos (at_ p) (turn p) (rights p) (epsq p) h f.

Lemma same_core_reclock p q : same_core p q -> q = reclock p (half q) (fullm q).
Proof.
  destruct p as [a t r e h f], q as [a' t' r' e' h' f']. unfold same_core, reclock.
  cbn [at_ turn rights epsq half fullm]. intros (-> & -> & -> & ->). reflexivity.
Qed.

Lemma same_core_refl p : same_core p p.
Proof. unfold same_core. repeat split; reflexivity. Qed.
Lemma same_core_sym p q : same_core p q -> same_core q p.
Proof. unfold same_core. intros (A & B & C & D). repeat split; symmetry; assumption. Qed.
Lemma same_core_trans p q r : same_core p q -> same_core q r -> same_core p r.
Proof.
  unfold same_core. intros (A & B & C & D) (A' & B' & C' & D').
  repeat split; etransitivity; eassumption.
Qed.
Lemma reclock_same_core p h f : same_core (reclock p h f) p.
Proof. unfold same_core, reclock. cbn [at_ turn rights epsq]. repeat split; reflexivity. Qed.

Lemma forallb_ext_all {A} (f g : A -> bool) l : (forall x, f x = g x) -> forallb f l = forallb g l.
Proof. intros H. induction l as [|a r IH]; cbn [forallb]; [reflexivity|]. rewrite H, IH. reflexivity. Qed.
Lemma existsb_ext_all {A} (f g : A -> bool) l : (forall x, f x = g x) -> existsb f l = existsb g l.
Proof. intros H. induction l as [|a r IH]; cbn [existsb]; [reflexivity|]. rewrite H, IH. reflexivity. Qed.

(* the placement of [reclock p h f] is the placement of p *)
Lemma at_rc p h f : at_ (reclock p h f) = at_ p. Proof. reflexivity. Qed.
Lemma at_wp_rc p h f l : at_ (with_placement (reclock p h f) l) = at_ (with_placement p l). Proof. reflexivity. Qed.

Lemma has_right_rc p h f c long : has_right (reclock p h f) c long = has_right p c long.
Proof. unfold has_right. change (rights (reclock p h f)) with (rights p). reflexivity. Qed.

Lemma castle_ok_rc p h f long : castle_ok (reclock p h f) long = castle_ok p long.
Proof.
  unfold castle_ok. cbv zeta. change (turn (reclock p h f)) with (turn p).
  rewrite has_right_rc, !(holds_at _ _ (at_rc p h f)).
  apply (f_equal2 andb); [apply (f_equal2 andb); [reflexivity|]|].
  - apply forallb_ext_all. intros s. apply (empty_at _ _ (at_rc p h f)).
  - apply forallb_ext_all. intros s. rewrite (attacked_by_at _ _ (at_rc p h f)). reflexivity.
Qed.

Lemma pseudo_spec_rc p h f m : pseudo_spec (reclock p h f) m = pseudo_spec p m.
Proof.
  unfold pseudo_spec. cbv zeta.
  change (turn (reclock p h f)) with (turn p). change (epsq (reclock p h f)) with (epsq p).
  rewrite (who_at _ _ (at_rc p h f)).
  destruct (who p (mv_from m)) as [[c' k]|]; [|reflexivity].
  rewrite !(owned_at _ _ (at_rc p h f)), !(empty_at _ _ (at_rc p h f)), !castle_ok_rc,
          (occ_of_at _ _ (at_rc p h f)).
  reflexivity.
Qed.

Lemma is_ep_capture_rc p h f m : is_ep_capture (reclock p h f) m = is_ep_capture p m.
Proof.
  unfold is_ep_capture. change (turn (reclock p h f)) with (turn p). change (epsq (reclock p h f)) with (epsq p).
  rewrite (holds_at _ _ (at_rc p h f)). reflexivity.
Qed.

Lemma is_castling_rc p h f m : is_castling (reclock p h f) m = is_castling p m.
Proof.
  unfold is_castling. change (turn (reclock p h f)) with (turn p).
  rewrite (holds_at _ _ (at_rc p h f)). reflexivity.
Qed.

Lemma place_after_rc p h f m : place_after (reclock p h f) m = place_after p m.
Proof.
  unfold place_after. cbv zeta.
  change (turn (reclock p h f)) with (turn p). change (at_ (reclock p h f)) with (at_ p).
  rewrite (who_at _ _ (at_rc p h f)), is_ep_capture_rc, is_castling_rc. reflexivity.
Qed.

Lemma is_capture_rc p h f m : is_capture (reclock p h f) m = is_capture p m.
Proof. unfold is_capture. rewrite (empty_at _ _ (at_rc p h f)), is_ep_capture_rc. reflexivity. Qed.

Lemma rights_after_rc p h f m : rights_after (reclock p h f) m = rights_after p m.
Proof.
  unfold rights_after. cbv zeta.
  change (turn (reclock p h f)) with (turn p). change (rights (reclock p h f)) with (rights p).
  rewrite !(holds_at _ _ (at_rc p h f)). reflexivity.
Qed.

Lemma legal_spec_rc p h f m : legal_spec (reclock p h f) m = legal_spec p m.
Proof.
  unfold legal_spec. rewrite pseudo_spec_rc, place_after_rc.
  change (turn (reclock p h f)) with (turn p).
  rewrite (in_check_at _ _ (at_wp_rc p h f (place_after p m))). reflexivity.
Qed.

Lemma rights_consistent_rc p h f : rights_consistent (reclock p h f) = rights_consistent p.
Proof.
  unfold rights_consistent. apply forallb_ext_all. intros [c long].
  rewrite has_right_rc, !(holds_at _ _ (at_rc p h f)). reflexivity.
Qed.

Lemma ep_ok_rc p h f : ep_ok (reclock p h f) = ep_ok p.
Proof.
  unfold ep_ok.
  change (epsq (reclock p h f)) with (epsq p).
  destruct (epsq p) as [e|]; [|reflexivity]. cbv zeta.
  change (turn (reclock p h f)) with (turn p). change (at_ (reclock p h f)) with (at_ p).
  rewrite !(empty_at _ _ (at_rc p h f)), (holds_at _ _ (at_rc p h f)).
  match goal with |- context [with_placement (reclock p h f) ?l] => rewrite (in_check_at _ _ (at_wp_rc p h f l)) end.
  reflexivity.
Qed.

Theorem valid_rc p h f : valid (reclock p h f) = valid p.
Proof.
  unfold valid.
  change (at_ (reclock p h f)) with (at_ p). change (turn (reclock p h f)) with (turn p).
  rewrite !(material_ok_at _ _ (at_rc p h f)), (no_pawn_on_edge_at _ _ (at_rc p h f)),
          (in_check_at _ _ (at_rc p h f)), rights_consistent_rc, ep_ok_rc.
  reflexivity.
Qed.

Lemma ep_capturable_rc p h f t : ep_capturable (reclock p h f) t = ep_capturable p t.
Proof.
  unfold ep_capturable. cbv zeta.
  change (mkPos (at_ (reclock p h f)) (turn (reclock p h f)) (rights (reclock p h f)) (Some t)
                (half (reclock p h f)) (fullm (reclock p h f)))
    with (reclock (mkPos (at_ p) (turn p) (rights p) (Some t) (half p) (fullm p)) h f).
  set (q := mkPos (at_ p) (turn p) (rights p) (Some t) (half p) (fullm p)).
  apply existsb_ext_all. intros from.
  change (turn (reclock q h f)) with (turn q).
  rewrite (holds_at _ _ (at_rc q h f)), legal_spec_rc. reflexivity.
Qed.

Lemma ep_capturable_clock a t r e h f h' f' tg :
  ep_capturable (mkPos a t r e h f) tg = ep_capturable (mkPos a t r e h' f') tg.
Proof. exact (ep_capturable_rc (mkPos a t r e h' f') h f tg). Qed.

Theorem normal_ep_rc p h f : normal_ep (reclock p h f) = normal_ep p.
Proof.
  unfold normal_ep. change (epsq (reclock p h f)) with (epsq p).
  destruct (epsq p) as [e|]; [apply ep_capturable_rc|reflexivity].
Qed.

(* the successor: same placement, side, rights and en-passant square; the clocks follow their own rule *)
Theorem succ_spec_rc p h f m :
  succ_spec (reclock p h f) m =
  reclock (succ_spec p m)
          (if holds p (mv_from m) (turn p) Pawn || is_capture p m then 0 else h + 1)%Z
          (match turn p with Black => f + 1 | White => f end)%Z.
Proof.
  unfold succ_spec. cbv zeta.
  change (turn (reclock p h f)) with (turn p).
  change (half (reclock p h f)) with h. change (fullm (reclock p h f)) with f.
  rewrite (holds_at _ _ (at_rc p h f)), place_after_rc, rights_after_rc, is_capture_rc.
  set (dbl := holds p (mv_from m) (turn p) Pawn &&
              ((mv_to m =? mv_from m + 16) || (mv_to m + 16 =? mv_from m))).
  match goal with
  | |- (if dbl && ?X then _ else _) = reclock (if dbl && ?Y then _ else _) _ _ =>
      assert (EC : X = Y) by apply ep_capturable_clock; rewrite EC; destruct (dbl && Y); reflexivity
  end.
Qed.

Corollary succ_spec_same_core p q m : same_core p q -> same_core (succ_spec p m) (succ_spec q m).
Proof.
  intros SC. rewrite (same_core_reclock p q SC), succ_spec_rc.
  apply same_core_sym, reclock_same_core.
Qed.

(* the statements in the form C10 uses them *)
Corollary valid_same_core p q : same_core p q -> valid p = valid q.
Proof. intros SC. rewrite (same_core_reclock p q SC), valid_rc. reflexivity. Qed.
Corollary legal_spec_same_core p q m : same_core p q -> legal_spec p m = legal_spec q m.
Proof. intros SC. rewrite (same_core_reclock p q SC), legal_spec_rc. reflexivity. Qed.
Corollary normal_ep_same_core p q : same_core p q -> normal_ep p = normal_ep q.
Proof. intros SC. rewrite (same_core_reclock p q SC), normal_ep_rc. reflexivity. Qed.
