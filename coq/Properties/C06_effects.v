(* C06 / C08, effect part - the pure helpers of search.go (the skeleton walker of Gen/SearchSkel.v treats them as effect free)
   Statements only. Gen/Effects.v is written by the translator piece harness/cmd/gen/effects.go from the
   CURRENT source on every run: a conservative effect analysis (go/parser + go/types, over-approximated call
   graph, summaries to a fixed point). For a root function R
     effects_R  = the writes of R and of everything R may call: to package-level variables ("global:..."),
                  through R's parameters or receiver ("param:..."), and calls of function values the analysis
                  does not follow ("dyncall:...");
     mutreads_R = the package-level variables R may read that something outside package initialisation writes;
     effects_error = None unless the analysis could not load or understand something (it fails closed).
   What a statement below establishes is exactly: no function reachable from R in the over-approximated call
   graph contains a syntactic write to package-level state or through R's parameters, and none mentions a
   package-level variable that is written after initialisation - i.e. R keeps no state between calls. The
   over-approximations and what is not modelled (reflection, unsafe, function values) are listed in Gen/Effects.v
   and in the header of effects.go. *)
From Coq Require Import String List.
From Chess3 Require Import Gen.Effects.
Import ListNotations.
Open Scope string_scope.

(* lmr reads the log table, which only package initialisation writes *)
Theorem C06_lmr_keeps_no_state :
  effects_error = None /\ effects_search_lmr = [] /\ mutreads_search_lmr = [].
Proof. repeat split; cbv; reflexivity. Qed.
Print Assumptions C06_lmr_keeps_no_state.

(* nextNodeType is a function of its arguments *)
Theorem C06_nextnodetype_keeps_no_state :
  effects_error = None /\ effects_search_nextNodeType = [] /\ mutreads_search_nextNodeType = [].
Proof. repeat split; cbv; reflexivity. Qed.
Print Assumptions C06_nextnodetype_keeps_no_state.

(* staticEvaluation = clamp o eval.Eval on the shipped coefficients: no state *)
Theorem C06_staticevaluation_keeps_no_state :
  effects_error = None /\ effects_search_staticEvaluation = [] /\ mutreads_search_staticEvaluation = [].
Proof. repeat split; cbv; reflexivity. Qed.
Print Assumptions C06_staticevaluation_keeps_no_state.
