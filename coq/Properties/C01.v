(* C01 - Playable moves are exactly the legal moves of chess.
   Statements only; proofs live in Proofs/Gen*.v (GenBase, GenRep, GenPieces, GenPawns, GenCastle,
   GenSpecPre, GenSpec: generated moves = pseudo_spec; GenMake: the legality filter; GenNoDup: no move
   twice; GenReach: validity is preserved by playing a legal move; GenTop: assembly).

   playable z b  (Model/Movegen.v)  = the moves of GenNoisy ++ GenNotNoisy after which, MakeMove done,
                                      the mover's king is not attacked (InCheck) - what search.go and
                                      debug/perft.go play;
   legal_spec p m (Spec/Chess.v)    = the FIDE rules on the mailbox position p = abs b;
   legal_moves p                    = the encodings (from, to, promotion none/N/B/R/Q) that are legal;
   valid p                          = the property's domain (DESIGN.md 4.3);
   Rep b                            = the engine's board invariant (Spec/Rep.v);
   run z b ms, legal_line z b ms    = playing a line of legal moves with MakeMove (Spec/Play.v).
   z is an arbitrary Zobrist table: the result does not depend on the hash. *)
From Coq Require Import NArith ZArith List Permutation.
From Chess3 Require Import Base.Bits Model.Types Model.BoardDef Model.Board Model.Movegen
  Spec.Chess Spec.Rep Spec.Play Spec.ChessJudge Spec.PerftSpec Spec.C01Judge
  Proofs.GenSpec Proofs.GenTop Proofs.GenTopReach Proofs.JudgeC01 Gen.Zobrist.
Import ListNotations.
Open Scope N_scope.

(* a move is playable iff it is (a 15-bit encoding and) legal; no move is listed twice *)
Theorem C01 : forall z b, Rep b -> valid (abs b) = true ->
  (forall m, In m (playable z b) <-> (m < 32768 /\ legal_spec (abs b) m = true)) /\ NoDup (playable z b).
Proof. exact playable_legal. Qed.
Print Assumptions C01.

(* the form of DESIGN.md 5/C01: for every 15-bit move encoding *)
Theorem C01_bounded : forall z b, Rep b -> valid (abs b) = true ->
  (forall m, m < 32768 -> (In m (playable z b) <-> legal_spec (abs b) m = true)) /\ NoDup (playable z b).
Proof. exact playable_legal_bounded. Qed.
Print Assumptions C01_bounded.

(* the same against the enumeration of all legal moves *)
Theorem C01_legal_moves : forall z b, Rep b -> valid (abs b) = true ->
  (forall m, In m (playable z b) <-> In m (legal_moves (abs b))) /\ NoDup (playable z b).
Proof. exact playable_legal_moves. Qed.
Print Assumptions C01_legal_moves.

(* in other words the list of playable moves is a rearrangement of the list of legal moves *)
Theorem C01_permutation : forall z b, Rep b -> valid (abs b) = true ->
  Permutation (playable z b) (legal_moves (abs b)).
Proof. exact playable_perm. Qed.
Print Assumptions C01_permutation.

(* ... and in every position reached from a valid one by playing legal moves (which is valid again) *)
Theorem C01_reach : forall z b0 ms, Rep b0 -> valid (abs b0) = true -> legal_line z b0 ms ->
  valid (abs (run z b0 ms)) = true /\
  (forall m, In m (playable z (run z b0 ms)) <-> In m (legal_moves (abs (run z b0 ms)))) /\
  NoDup (playable z (run z b0 ms)).
Proof. exact playable_legal_reach. Qed.
Print Assumptions C01_reach.

(* the intermediate result shared with C05: the generator emits exactly the pseudo-legal moves *)
Theorem C01_gen_iff_spec : forall b m, Rep b -> valid (abs b) = true -> m < 32768 ->
  (In m (gen_all b) <-> pseudo_spec (abs b) m = true).
Proof. exact gen_iff_spec. Qed.
Print Assumptions C01_gen_iff_spec.

(* the oracles the streams use (Spec/C01Judge.v: candidates enumerated only for the mover's own
   from-squares; clause 8 = the observed board violates rep_ok) answer exactly like the plain ones *)
Theorem C01_oracles : (forall p, legal_moves_fast p = legal_moves p) /\
  (forall l, judge_c01x l = match decode_board l with
                            | Some (b, _) => if negb (rep_ok b) then [0; 8]%Z else judge_c01 l
                            | None => judge_c01 l end) /\
  (forall l, judge_perftx l = judge_perft l).
Proof. exact (conj legal_moves_fast_eq (conj judge_c01x_eq judge_perftx_eq)). Qed.
Print Assumptions C01_oracles.

(* ... and the plain oracle's verdict IS the property: on a valid position it answers [1] exactly when the
   observed playable list has the elements of legal_moves and no duplicates *)
Theorem C01_judge_verdict : forall l b rest, decode_board l = Some (b, rest) -> valid (abs b) = true ->
  (judge_c01 l = [1%Z] <->
   ((forall m, In m (observed_playable rest) <-> In m (legal_moves (abs b))) /\ NoDup (observed_playable rest))).
Proof. exact judge_c01_verdict. Qed.
Print Assumptions C01_judge_verdict.

(* non-vacuity: the start position, and a position with castling rights, an en-passant target and a
   promotion available (r3k2r/1P6/8/2pP4/8/8/8/R3K2R w KQkq c6 0 2), satisfy the hypotheses; on them
   (the systematic comparison playable = legal_moves on thousands of positions is the stream `gen`) *)
Definition ex_board (ps : list N) (w bl : N) (e ca : N) : board :=
  mkBoard (sq2p_of_sets ps) (0 :: ps) [w; bl] [0] 1%Z White e ca 0%Z.
Definition ex_start : board :=
  ex_board [71776119061282560; 4755801206503243842; 2594073385365405732; 9295429630892703873;
            576460752303423496; 1152921504606846992] 65535 18446462598732840960 0 15.
Definition ex_rich : board :=
  ex_board [563001493028864; 0; 0; 9295429630892703873; 0; 1152921504606846992]
           562984313159825 10448351152679419904 42 15.
Definition has (l : list N) (m : N) : bool := existsb (N.eqb m) l.

Example C01_nonvacuous_start :
  rep_ok ex_start = true /\ valid (abs ex_start) = true /\ length (playable zob_real ex_start) = 20%nat.
Proof. vm_compute. repeat split. Qed.

Example C01_nonvacuous_rich :
  rep_ok ex_rich = true /\ valid (abs ex_rich) = true /\
  (let pl := playable zob_real ex_rich in
   length pl = 36%nat /\
   (* d5xc6 e.p., O-O, b7xa8=N are playable and legal; b7xa8=K is neither *)
   has pl (mk_move 35 42 0) = true /\ legal_spec (abs ex_rich) (mk_move 35 42 0) = true /\
   has pl (mk_move 4 6 0) = true /\ legal_spec (abs ex_rich) (mk_move 4 6 0) = true /\
   has pl (mk_move 49 56 Knight) = true /\ legal_spec (abs ex_rich) (mk_move 49 56 Knight) = true /\
   has pl (mk_move 49 56 King) = false /\ legal_spec (abs ex_rich) (mk_move 49 56 King) = false).
Proof. vm_compute. repeat split. Qed.
