(* C04, closed form - the incremental hash never drifts along a game: C04_inv_Rep with its hypothesis
   [applicable_all] discharged for lines of legal moves from a valid position (every legal move of a
   valid position is applicable: C05 + the side invariants of a valid position), and for every move
   the engine makes in such a position.  Statements only; proofs in Proofs/ComposeValid.v,
   Proofs/ComposeReach.v. *)
From Coq Require Import NArith ZArith List Bool.
From Chess3 Require Import Base.Bits Model.Types Model.BoardDef Model.Board Model.Movegen Gen.Zobrist
  Spec.Chess Spec.Rep Spec.Applicable Spec.Play
  Proofs.BoardInv Proofs.UndoMove Proofs.HashInv Proofs.BoardExamples Proofs.ComposeValid Proofs.ComposeReach.
Import ListNotations.
Open Scope N_scope.

(* any move the engine makes in a valid position keeps "stored hash = hash from scratch" and the
   one-placement invariant (arbitrary table; RepW = Rep without the 64-bit bound on the history) *)
Theorem C04_closed_step : forall z b m, Rep b -> valid (abs b) = true -> cur_hash b = calc_hash z b ->
  In m (gen_all b) \/ is_pseudo_legal b m = true ->
  let b' := fst (make z b m) in RepW b' /\ cur_hash b' = calc_hash z b'.
Proof.
  intros z b m HR HV HH Hm. cbv zeta.
  assert (HA : applicable b m = true).
  { destruct Hm as [H|H]; [apply gen_applicable_valid|apply pseudo_legal_applicable_valid]; assumption. }
  split; [apply make_RepW; [apply Rep_RepW; exact HR|exact HA]|].
  apply (hash_ok_make z gen_layout b m (Rep_RepW b HR) HA HH).
Qed.
Print Assumptions C04_closed_step.

(* a game: any line of legal moves from a valid root *)
Theorem C04_closed_line : forall z b0 ms, zob_w64 z ->
  Rep b0 -> valid (abs b0) = true -> cur_hash b0 = calc_hash z b0 -> legal_line z b0 ms ->
  let b := run z b0 ms in Rep b /\ valid (abs b) = true /\ cur_hash b = calc_hash z b.
Proof.
  intros z b0 ms Hz HR HV HH HL. cbv zeta.
  destruct (run_inv_Rep z Hz ms b0 HR HV HL) as (R & V & _ & H). split; [exact R|]. split; [exact V|exact (H HH)].
Qed.
Print Assumptions C04_closed_line.

Example C04_closed_nonvacuous :
  Rep ex_start /\ valid (abs ex_start) = true /\ cur_hash ex_start = calc_hash zob_real ex_start /\
  zob_w64 zob_real /\ legal_line zob_real ex_start [e2e4; e7e5; g1f3; b8c6].
Proof.
  split; [vm_compute; reflexivity|]. split; [vm_compute; reflexivity|]. split; [vm_compute; reflexivity|].
  split; [exact zob_real_w64|]. vm_compute. repeat split; reflexivity.
Qed.
