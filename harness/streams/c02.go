package streams

import (
	"fmt"
	"strings"

	"github.com/paulsonkoly/chess-3/board"
	. "github.com/paulsonkoly/chess-3/chess"
	"github.com/paulsonkoly/chess-3/move"

	"verifharness/hx"
	"verifharness/posgen"
)

// c02: board-in ++ [move] -> board-out (no history) after MakeMove ++ the six fields of FEN() after
// MakeMove (see coq/Model/SuccStreams.v run_c02, coq/Spec/SuccJudge.v judge_c02).
func init() {
	hx.Register(&hx.Stream{Name: "c02", Gen: genC02, Run: runC02})
}

func runC02(a hx.Args) string {
	b, i := a.Board(0)
	m := hx.U2M(a.U64(i))
	b.MakeMove(m)
	return (&hx.Nums{}).BoardOutNoHist(b).FenFields(b.FEN()).String()
}

// F2 witness (CanEnPassant kept the origin square of the pushed pawn occupied) and relatives.
var c02Fixed = []struct{ fen, mv string }{
	{"8/8/8/1k6/3p4/8/4P3/5B1K w - - 0 1", "e2e4"},           // F2: discovered check through e2, d4xe3 illegal
	{"8/8/8/8/k2p3R/8/4P3/4K3 w - - 0 1", "e2e4"},            // both pawns leave the 4th rank: illegal
	{"8/8/8/8/1k1p3R/8/4P3/K7 w - - 0 1", "e2e4"},            // same, king next to the pawn
	{"8/8/8/8/k1pp3R/8/4P3/4K3 w - - 0 1", "e2e4"},           // second pawn keeps the rank closed: legal
	{"4k3/8/8/8/3p4/8/4P3/4K3 w - - 0 1", "e2e4"},            // plain legal capture
	{"4k3/8/8/8/3p1p2/8/4P3/4K3 w - - 0 1", "e2e4"},          // two capturers
	{"4k3/8/8/8/5p2/8/4P3/4K3 w - - 0 1", "e2e4"},            // capturer on the other side
	{"4k3/8/8/8/8/8/4P3/4K3 w - - 0 1", "e2e4"},              // nobody there
	{"4k3/8/8/8/3n4/8/4P3/4K3 w - - 0 1", "e2e4"},            // neighbour is not a pawn
	{"4k3/8/8/8/3P4/8/4P3/4K3 w - - 0 1", "e2e4"},            // neighbour is an own pawn
	{"8/8/8/8/3p4/8/k3P2R/4K3 w - - 0 1", "e2e4"},            // rook and king on the origin rank
	{"3k4/8/8/8/3p4/8/4P3/3RK3 w - - 0 1", "e2e4"},           // capturer pinned on its file: illegal
	{"6k1/8/8/8/3p4/8/1B2P3/4K3 w - - 0 1", "e2e4"},          // capturer pinned on a diagonal not through e3: illegal
	{"8/8/8/6k1/5p2/8/1B2P3/4K3 w - - 0 1", "e2e4"},          // diagonal pin whose line contains e3: legal
	{"8/8/8/8/5p2/6k1/4P3/4K3 w - - 0 1", "e2e4"},            // pawn on e2 attacks nothing relevant, king next to e3
	{"8/8/8/3k4/5p2/8/4P3/4K3 w - - 0 1", "e2e4"},            // push gives check, capture removes the checker
	{"8/8/8/3k4/5p2/8/4P3/3RK3 w - - 0 1", "e2e4"},           // the pushed pawn and the rook both check: the capture does not help
	{"4K3/4p3/8/3P4/8/8/8/4k3 b - - 0 1", "e7e5"},            // black pushes, legal capture
	{"8/4p3/8/K2P3r/8/8/8/4k3 b - - 0 1", "e7e5"},            // black pushes, both pawns leave the 5th rank: illegal
	{"7k/4p3/8/3P4/8/8/8/K3b3 b - - 0 1", "e7e5"},            // nothing special
	{"8/4p1b1/8/3P4/8/2K5/8/7k b - - 0 1", "e7e5"},           // bishop beside the origin square, line not through e7
	{"5b1k/4p3/8/3P4/1K6/8/8/8 b - - 0 1", "e7e5"},           // F2 mirrored: discovered check through e7
	{"4k3/8/8/8/2p5/8/PPPPPPPP/4K3 w - - 0 1", "b2b4"},       // a/h file handling
	{"4k3/8/8/8/1p4p1/8/PPPPPPPP/4K3 w - - 0 1", "a2a4"},
	{"4k3/8/8/8/1p4p1/8/PPPPPPPP/4K3 w - - 0 1", "h2h4"},
	{"4k3/8/8/8/p6p/8/PPPPPPPP/4K3 w - - 0 1", "h2h4"},       // wrap-around neighbours (a4 is not next to h4)
	{"4k3/8/8/8/p6p/8/PPPPPPPP/4K3 w - - 0 1", "a2a4"},
	{"4k3/pppppppp/8/P6P/8/8/8/4K3 b - - 0 1", "h7h5"},
	{"4k3/pppppppp/8/P6P/8/8/8/4K3 b - - 0 1", "a7a5"},
	// castling rights: every way of touching a corner or moving the king, both colours
	{"r3k2r/8/8/8/8/8/8/R3K2R w KQkq - 0 1", "a1a8"},
	{"r3k2r/8/8/8/8/8/8/R3K2R w KQkq - 0 1", "h1h8"},
	{"r3k2r/8/8/8/8/8/8/R3K2R b KQkq - 0 1", "a8a1"},
	{"r3k2r/8/8/8/8/8/8/R3K2R b KQkq - 0 1", "h8h1"},
	{"r3k2r/8/8/8/8/8/8/R3K2R w KQkq - 0 1", "a1b1"},
	{"r3k2r/8/8/8/8/8/8/R3K2R w KQkq - 0 1", "h1g1"},
	{"r3k2r/8/8/8/8/8/8/R3K2R w KQkq - 0 1", "e1e2"},
	{"r3k2r/8/8/8/8/8/8/R3K2R w KQkq - 0 1", "e1g1"},
	{"r3k2r/8/8/8/8/8/8/R3K2R w KQkq - 0 1", "e1c1"},
	{"r3k2r/8/8/8/8/8/8/R3K2R b KQkq - 0 1", "e8g8"},
	{"r3k2r/8/8/8/8/8/8/R3K2R b KQkq - 0 1", "e8c8"},
	{"r3k2r/8/8/8/8/8/8/R3K2R b KQkq - 0 1", "e8d7"},
	{"r3k2r/8/8/8/8/8/8/R3K2R b KQkq - 0 1", "h8h5"},
	{"r3k2r/6B1/8/8/8/8/6b1/R3K2R w KQkq - 0 1", "g7h8"},
	{"r3k2r/6B1/8/8/8/8/6b1/R3K2R b KQkq - 0 1", "g2h1"},
	{"r3k2r/1B6/8/8/8/8/1b6/R3K2R w KQkq - 0 1", "b7a8"},
	{"r3k2r/1B6/8/8/8/8/1b6/R3K2R b KQkq - 0 1", "b2a1"},
	{"r3k2r/8/1N4N1/8/8/1n4n1/8/R3K2R w KQkq - 0 1", "b6a8"},
	{"r3k2r/8/1N4N1/8/8/1n4n1/8/R3K2R w KQkq - 0 1", "g6h8"},
	{"r3k2r/8/1N4N1/8/8/1n4n1/8/R3K2R b KQkq - 0 1", "b3a1"},
	{"r3k2r/8/1N4N1/8/8/1n4n1/8/R3K2R b KQkq - 0 1", "g3h1"},
	{"r3k2r/1P4P1/8/8/8/8/1p4p1/R3K2R w KQkq - 0 1", "b7a8q"},
	{"r3k2r/1P4P1/8/8/8/8/1p4p1/R3K2R w KQkq - 0 1", "g7h8n"},
	{"r3k2r/1P4P1/8/8/8/8/1p4p1/R3K2R b KQkq - 0 1", "b2a1r"},
	{"r3k2r/1P4P1/8/8/8/8/1p4p1/R3K2R b KQkq - 0 1", "g2h1b"},
	// promotions
	{"4k3/P7/8/8/8/8/p7/4K3 w - - 5 9", "a7a8q"},
	{"4k3/P7/8/8/8/8/p7/4K3 w - - 5 9", "a7a8r"},
	{"4k3/P7/8/8/8/8/p7/4K3 w - - 5 9", "a7a8b"},
	{"4k3/P7/8/8/8/8/p7/4K3 w - - 5 9", "a7a8n"},
	{"4k3/P7/8/8/8/8/p7/4K3 b - - 5 9", "a2a1q"},
	{"4k3/P7/8/8/8/8/p7/4K3 b - - 5 9", "a2a1n"},
	// clock and move number: capture by a piece, quiet move, by both colours
	{"4k3/8/8/3r4/8/8/3R4/4K3 w - - 37 20", "d2d5"},
	{"4k3/8/8/3r4/8/8/3R4/4K3 b - - 37 20", "d5d2"},
	{"4k3/8/8/3r4/8/8/3R4/4K3 w - - 37 20", "d2d3"},
	{"4k3/8/8/3r4/8/8/3R4/4K3 b - - 37 20", "d5d6"},
}

func findMove(b *board.Board, s string) (move.Move, bool) {
	for _, m := range posgen.Legal(b) {
		if m.String() == s {
			return m, true
		}
	}
	return 0, false
}

func moveTags(b *board.Board, m move.Move) []string {
	var t []string
	p := b.SquaresToPiece[m.From()]
	switch {
	case b.IsEnPassant(m):
		t = append(t, "ep-capture")
	case b.SquaresToPiece[m.To()] != NoPiece:
		t = append(t, "capture")
	}
	if m.Promo() != NoPiece {
		t = append(t, "promotion")
	}
	if p == King && Abs(m.From()-m.To()) == 2 {
		t = append(t, "castling")
	}
	if p == King || p == Rook || m.To() == A1 || m.To() == H1 || m.To() == A8 || m.To() == H8 {
		if b.Castles != 0 {
			t = append(t, "may-touch-rights")
		}
	}
	if p == Pawn && Abs(m.From()-m.To()) == 16 {
		t = append(t, "double-push")
		adj := BitBoard(0)
		if m.To().File() > 0 {
			adj |= 1 << (m.To() - 1)
		}
		if m.To().File() < 7 {
			adj |= 1 << (m.To() + 1)
		}
		if adj&b.Pieces[Pawn]&b.Colors[b.STM.Flip()] != 0 {
			t = append(t, "double-push-next-to-enemy-pawn")
			r := b.MakeMove(m)
			if b.EnPassant != 0 {
				t = append(t, "ep-target-recorded")
			} else {
				t = append(t, "ep-target-withheld")
			}
			b.UndoMove(m, r)
		}
	}
	if len(t) == 0 {
		t = append(t, "quiet")
	}
	return t
}

func c02Case(b *board.Board, m move.Move, desc string, extra ...string) hx.Input {
	in := (&hx.Nums{}).BoardIn(b).U(hx.M2U(m)).String()
	tags := append(moveTags(b, m), extra...)
	if b.FiftyCnt >= 99 {
		tags = append(tags, "clock>=99")
	}
	return hx.Input{In: in, Desc: desc + " play " + m.String(), Tags: tags, NonTrivial: true,
		Key: fmt.Sprintf("%s|%d|%s", b.FEN(), b.FiftyCnt, m.String())}
}

// withClock returns a copy of b whose halfmove clock is v.
func withClock(b *board.Board, v int) *board.Board {
	s := b.VerifSnapshot()
	s.FiftyCnt = v
	return board.VerifRestore(s)
}

// mirror a white-view placement: rank flip and colour swap.
func mirrorSq(sq [64]byte) [64]byte {
	var o [64]byte
	for i, c := range sq {
		if c == 0 {
			continue
		}
		if c >= 'a' {
			c -= 32
		} else {
			c += 32
		}
		o[i^56] = c
	}
	return o
}

func placementFEN(sq [64]byte) string {
	var sb strings.Builder
	for r := 7; r >= 0; r-- {
		empty := 0
		for f := 0; f < 8; f++ {
			c := sq[r*8+f]
			if c == 0 {
				empty++
				continue
			}
			if empty > 0 {
				sb.WriteByte(byte('0' + empty))
				empty = 0
			}
			sb.WriteByte(c)
		}
		if empty > 0 {
			sb.WriteByte(byte('0' + empty))
		}
		if r > 0 {
			sb.WriteByte('/')
		}
	}
	return sb.String()
}

var dirs8 = [8][2]int{{1, 0}, {-1, 0}, {0, 1}, {0, -1}, {1, 1}, {-1, -1}, {1, -1}, {-1, 1}}

// epPosition builds (white view, mirrored for Black half of the time) a position in which a pawn
// can double push next to enemy pawns, with the enemy king and an own slider lined up through one
// of the squares that matter (destination, capturer, origin, passed-over square).
func epPosition(rng *hx.Rng) (*board.Board, move.Move, string, bool) {
	var sq [64]byte
	f := rng.Intn(8)
	origin, mid, to := 8+f, 16+f, 24+f
	sq[origin] = 'P'
	var caps []int
	if f > 0 && rng.Chance(0.7) {
		caps = append(caps, to-1)
	}
	if f < 7 && rng.Chance(0.7) {
		caps = append(caps, to+1)
	}
	if len(caps) == 0 {
		if f > 0 {
			caps = append(caps, to-1)
		} else {
			caps = append(caps, to+1)
		}
	}
	for _, c := range caps {
		sq[c] = 'p'
	}
	free := func(s int) bool { return s >= 0 && s < 64 && sq[s] == 0 && s != mid && s != to }
	kingPlaced := false
	if rng.Chance(0.85) {
		// line up: enemy king -- key square -- own slider
		keys := []int{to, origin, mid, caps[rng.Intn(len(caps))], caps[0]}
		key := keys[rng.Intn(len(keys))]
		d := dirs8[rng.Intn(8)]
		walk := func(dx, dy int) []int {
			var l []int
			x, y := key%8+dx, key/8+dy
			for x >= 0 && x < 8 && y >= 0 && y < 8 {
				l = append(l, y*8+x)
				x, y = x+dx, y+dy
			}
			return l
		}
		a, b := walk(d[0], d[1]), walk(-d[0], -d[1])
		if len(a) > 0 && len(b) > 0 {
			ks := a[rng.Intn(len(a))]
			if rng.Chance(0.5) {
				ks = a[0]
			}
			ss := b[rng.Intn(len(b))]
			if free(ks) && free(ss) {
				sq[ks] = 'k'
				kingPlaced = true
				pc := byte('Q')
				if rng.Chance(0.7) {
					if d[0] == 0 || d[1] == 0 {
						pc = 'R'
					} else {
						pc = 'B'
					}
				}
				sq[ss] = pc
			}
		}
	}
	place := func(c byte) {
		for try := 0; try < 30; try++ {
			s := rng.Intn(64)
			if !free(s) {
				continue
			}
			if (c == 'p' || c == 'P') && (s < 8 || s >= 56) {
				continue
			}
			sq[s] = c
			return
		}
	}
	if !kingPlaced {
		if rng.Chance(0.4) {
			// king next to the action
			cand := []int{to + 7, to + 9, to + 8, mid - 1, mid + 1, to - 2, to + 2, origin - 1, origin + 1}
			s := cand[rng.Intn(len(cand))]
			if free(s) && (s%8-to%8) <= 2 && (to%8-s%8) <= 2 {
				sq[s] = 'k'
				kingPlaced = true
			}
		}
		if !kingPlaced {
			place('k')
		}
	}
	place('K')
	for i, n := 0, rng.Intn(6); i < n; i++ {
		p := "pnbrqPNBRQ"[rng.Intn(10)]
		place(p)
	}
	stm := "w"
	from, dest := Square(origin), Square(to)
	if rng.Bool() {
		sq = mirrorSq(sq)
		stm = "b"
		from, dest = Square(origin^56), Square(to^56)
	}
	fen := placementFEN(sq) + " " + stm + " - - " + fmt.Sprint(rng.Intn(40)) + " " + fmt.Sprint(1+rng.Intn(60))
	b, err := board.FromFEN(fen)
	if err != nil || !posgen.Valid(b) {
		return nil, 0, "", false
	}
	m := move.From(from) | move.To(dest)
	for _, l := range posgen.Legal(b) {
		if l == m {
			return b, m, fen, true
		}
	}
	return nil, 0, "", false
}

var clockValues = []int{98, 99, 100, 101, 126, 127, 128, 129, 254, 255, 256, 257, 32765, 32766}

func genC02(rng *hx.Rng, n int, tier string, emit func(hx.Input)) {
	cnt := 0
	out := func(c hx.Input) {
		emit(c)
		cnt++
	}
	// fixed cases first (the same list is kept in corpus/c02.in)
	for _, w := range c02Fixed {
		b, err := board.FromFEN(w.fen)
		if err != nil {
			continue
		}
		if m, ok := findMove(b, w.mv); ok {
			out(c02Case(b, m, "fixed fen "+w.fen, "fixed"))
		}
	}
	{
		// F5 witness: 130 reversible plies from the start position (the clock was int8)
		b := board.StartPos()
		shuffle := []string{"g1f3", "g8f6", "f3g1", "f6g8"}
		var played []string
		for ply := 0; ply < 131; ply++ {
			m, ok := findMove(b, shuffle[ply%4])
			if !ok {
				break
			}
			if ply >= 97 {
				out(c02Case(b, m, "fixed fen "+StartPosFEN+" moves "+strings.Join(played, " "), "fixed", "clock-walk"))
			}
			b.MakeMove(m)
			played = append(played, m.String())
		}
	}
	nEP := n * 25 / 100
	nClock := n * 10 / 100
	// en-passant generator
	for k := 0; k < nEP; {
		b, m, fen, ok := epPosition(rng)
		if !ok {
			continue
		}
		out(c02Case(b, m, "EP fen "+fen, "EP"))
		k++
		// the other double pushes of the same position and the replies after the push
		for _, l := range posgen.Legal(b) {
			if l != m && b.SquaresToPiece[l.From()] == Pawn && Abs(l.From()-l.To()) == 16 && k < nEP {
				out(c02Case(b, l, "EP fen "+fen, "EP"))
				k++
			}
		}
		if rng.Chance(0.3) {
			r := b.MakeMove(m)
			if b.EnPassant != 0 && posgen.Valid(b) {
				for _, l := range posgen.Legal(b) {
					if b.IsEnPassant(l) && k < nEP {
						out(c02Case(b, l, "EP fen "+fen+" moves "+m.String(), "EP"))
						k++
					}
				}
			}
			b.UndoMove(m, r)
		}
	}
	// clocks near the interesting values
	for k := 0; k < nClock; {
		posgen.Stream(rng, 20, func(p posgen.Pos) {
			if k >= nClock {
				return
			}
			v := clockValues[rng.Intn(len(clockValues))]
			b := withClock(p.B, v)
			legal := posgen.Legal(b)
			for j := 0; j < 4 && len(legal) > 0 && k < nClock; j++ {
				m := legal[rng.Intn(len(legal))]
				out(c02Case(b, m, fmt.Sprintf("CLOCK=%d %s", v, p.Desc()), "clock-set"))
				k++
			}
		})
	}
	// G1/G2/G4 positions x every legal move
	for cnt < n {
		posgen.Stream(rng, 40, func(p posgen.Pos) {
			if cnt >= n {
				return
			}
			for _, m := range posgen.Legal(p.B) {
				out(c02Case(p.B, m, p.Desc(), p.Kind))
			}
		})
	}
}
