package main

import (
	"github.com/paulsonkoly/chess-3/chess"
	"github.com/paulsonkoly/chess-3/heur"
	"github.com/paulsonkoly/chess-3/move"
	"github.com/paulsonkoly/chess-3/params"
)

// Constants of the move-ordering layout (heur/heur.go), the history update (heur/hist.go,
// cont.go, capthist.go, params), the piece codes and the move store size, for property C16.
func init() {
	generators = append(generators, func() {
		f := newFile("HeurConsts.v", "From Coq Require Import ZArith List.\nImport ListNotations.\nOpen Scope Z_scope.")
		f.p("(* heur/heur.go: move weight layout *)\n")
		f.p("Definition HashMove : Z := %d.\n", int64(heur.HashMove))
		f.p("Definition Captures : Z := %d.\n", int64(heur.Captures))
		f.p("Definition CaptureRange : Z := %d.\n", int64(heur.CaptureRange))
		f.p("Definition MaxHistory : Z := %d.\n", int64(heur.MaxHistory))
		f.p("Definition PieceValues : list Z := [")
		for i, v := range heur.PieceValues {
			if i > 0 {
				f.p("; ")
			}
			f.p("%d", int64(v))
		}
		f.p("].\n")
		f.p("(* params: history bonus formula of MoveRanker.FailHigh *)\n")
		f.p("Definition HistBonusMul : Z := %d.\n", int64(params.HistBonusMul))
		f.p("Definition HistBonusLin : Z := %d.\n", int64(params.HistBonusLin))
		f.p("Definition HistAdjRange : Z := %d.\n", int64(params.HistAdjRange))
		f.p("Definition HistAdjReduction : Z := %d.\n", int64(params.HistAdjReduction))
		f.p("(* chess: piece codes, table dimensions, score constants *)\n")
		f.p("Definition NoPiece : Z := %d.\n", int64(chess.NoPiece))
		f.p("Definition Pawn : Z := %d.\n", int64(chess.Pawn))
		f.p("Definition Knight : Z := %d.\n", int64(chess.Knight))
		f.p("Definition Bishop : Z := %d.\n", int64(chess.Bishop))
		f.p("Definition Rook : Z := %d.\n", int64(chess.Rook))
		f.p("Definition Queen : Z := %d.\n", int64(chess.Queen))
		f.p("Definition King : Z := %d.\n", int64(chess.King))
		f.p("Definition Colors : Z := %d.\n", int64(chess.Colors))
		f.p("Definition Squares : Z := %d.\n", int64(chess.Squares))
		f.p("Definition MaxPlies : Z := %d.\n", int64(chess.MaxPlies))
		f.p("Definition ScoreInf : Z := %d.\n", int64(chess.Inf))
		f.p("(* move/store.go *)\n")
		f.p("Definition StoreSize : Z := %d.\n", int64(move.StoreSize))
		// The models see moves in the CANONICAL wire encoding of harness/hx/move.go (to 0..5, from 6..11,
		// promotion 12..14), built from move.To()/From()/Promo(); the engine's own packing of move.Move is
		// not observable through the streams any more. The widths are still read from the constructors: a
		// field that no longer holds 64 squares / 8 piece codes makes the C16 band lemmas fail.
		f.p("(* canonical wire layout of a move (harness/hx/move.go); widths from move/move.go *)\n")
		width := func(full uint16) int {
			w := 0
			for ; full != 0; full &= full - 1 {
				w++
			}
			return w
		}
		tw, fw, pw := width(uint16(move.To(chess.Square(63)))), width(uint16(move.From(chess.Square(63)))), width(uint16(move.Promo(chess.Piece(7))))
		f.p("Definition MoveToShift : Z := 0.\nDefinition MoveToBits : Z := %d.\n", tw)
		f.p("Definition MoveFromShift : Z := 6.\nDefinition MoveFromBits : Z := %d.\n", fw)
		f.p("Definition MovePromoShift : Z := 12.\nDefinition MovePromoBits : Z := %d.\n", pw)
	})
}
